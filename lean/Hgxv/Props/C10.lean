import Hgxv.Proofs.C10Graph
import Hgxv.Proofs.C10Line
import Hgxv.Proofs.C10Simplicial
import Hgxv.Proofs.C10Bipartite
import Hgxv.Proofs.C10Similarity
import Hgxv.Proofs.C10Link
import Hgxv.Proofs.C10Rel
import Mathlib.Data.List.Nodup
import Mathlib.Tactic.NormNum.Inv
import Mathlib.Tactic.NormNum.Ineq
/-! # C10 — graph projections encode exactly the incidence structure of the hypergraph

Property theorems about the model `Hgxv/Model/C10.lean`.  Inputs are what the public API returns: the node list and
the list of distinct canonical hyperedges.  Hypotheses used below, all guaranteed by the containers (C01/C02) and the
property's quantifier: hyperedges are duplicate-free (`e.Nodup`), pairwise distinct (`es.Nodup`), their members are
nodes, the node list is duplicate-free.  A graph is read through its tables: `AL.keys g.nodes` is the vertex list,
`AL.get? g.adj (u, v) = some a` says "`u — v` (resp. `u → v`) is an edge with attribute `a`". -/
open C10

/-! ## clique projection -/

/-- `u — v` is an edge (without attributes) exactly when `u ≠ v` and some hyperedge contains both; the vertices are
the nodes that have a neighbour, plus all nodes when `keep_isolated`; no vertex is listed twice. -/
theorem C10_clique (keepIso : Bool) (nodes : List Nat) (es : List Edge) (hnd : ∀ e ∈ es, e.Nodup) :
    (∀ u v a, AL.get? (clique keepIso nodes es).adj (u, v) = some a ↔
        a = none ∧ u ≠ v ∧ ∃ e ∈ es, u ∈ e ∧ v ∈ e) ∧
    (∀ x, x ∈ AL.keys (clique keepIso nodes es).nodes ↔
        (keepIso = true ∧ x ∈ nodes) ∨ ∃ e ∈ es, x ∈ e ∧ ∃ y ∈ e, y ≠ x) ∧
    (AL.keys (clique keepIso nodes es).nodes).Nodup := by
  rw [clique_eq]
  refine ⟨?_, ?_, ?_⟩
  · intro u v a
    rw [get_adj_addEdges]
    have h0 : AL.get? (if keepIso = true then nodes.foldl (fun g n => g.addNode n none) ({} : Graph Nat) else {}).adj (u, v)
        = none := by
      split
      · rw [addNodes_adj]; rfl
      · rfl
    rw [h0]
    simp only [List.mem_flatMap]
    constructor
    · intro h
      split at h
      · rename_i hc
        refine ⟨by simpa using h.symm, ?_⟩
        rcases hc with ⟨e, he, hp⟩ | ⟨e, he, hp⟩
        · exact ⟨mem_pairsOf_ne (hnd e he) hp, e, he, mem_pairsOf_mem hp⟩
        · exact ⟨(mem_pairsOf_ne (hnd e he) hp).symm, e, he, (mem_pairsOf_mem hp).symm⟩
      · simp at h
    · rintro ⟨rfl, hne, e, he, hu, hv⟩
      rw [if_pos]
      rcases mem_pairsOf_of_mem hu hv hne with h | h
      · exact Or.inl ⟨e, he, h⟩
      · exact Or.inr ⟨e, he, h⟩
  · intro x
    rw [mem_keys_addEdges]
    have h0 : x ∈ AL.keys (if keepIso = true then nodes.foldl (fun g n => g.addNode n none) ({} : Graph Nat) else {}).nodes
        ↔ (keepIso = true ∧ x ∈ nodes) := by
      split
      · rename_i hk; rw [addNodes_keys]; simp [hk, AL.keys]
      · rename_i hk; simp [hk, AL.keys]
    rw [h0]
    apply or_congr Iff.rfl
    simp only [List.mem_flatMap]
    constructor
    · rintro ⟨⟨p1, p2⟩, ⟨e, he, hp⟩, hx⟩
      have hm := mem_pairsOf_mem hp
      have hne := mem_pairsOf_ne (hnd e he) hp
      rcases hx with rfl | rfl
      · exact ⟨e, he, hm.1, p2, hm.2, hne.symm⟩
      · exact ⟨e, he, hm.2, p1, hm.1, hne⟩
    · rintro ⟨e, he, hx, y, hy, hne⟩
      rcases mem_pairsOf_of_mem hx hy (Ne.symm hne) with h | h
      · exact ⟨(x, y), ⟨e, he, h⟩, Or.inl rfl⟩
      · exact ⟨(y, x), ⟨e, he, h⟩, Or.inr rfl⟩
  · apply nodup_keys_addEdges
    split
    · apply addNodes_nodup; simp [AL.keys]
    · simp [AL.keys]

/-- with `keep_isolated=True` the vertex set is the node set (members of hyperedges are nodes) -/
theorem C10_clique_keep_isolated (nodes : List Nat) (es : List Edge) (hnd : ∀ e ∈ es, e.Nodup)
    (hmem : ∀ e ∈ es, ∀ n ∈ e, n ∈ nodes) (x : Nat) :
    x ∈ AL.keys (clique true nodes es).nodes ↔ x ∈ nodes := by
  rw [(C10_clique true nodes es hnd).2.1]
  constructor
  · rintro (⟨_, h⟩ | ⟨e, he, hx, _⟩)
    · exact h
    · exact hmem e he x hx
  · intro h; exact Or.inl ⟨rfl, h⟩

example : AL.get? (clique false [1, 2, 3, 4, 5, 9] [[1, 2], [1, 2, 3], [3, 4, 5], [9]]).adj (3, 1) = some none ∧
    AL.get? (clique false [1, 2, 3, 4, 5, 9] [[1, 2], [1, 2, 3], [3, 4, 5], [9]]).adj (1, 4) = none ∧
    AL.keys (clique true [1, 2, 3, 4, 5, 9] [[1, 2], [1, 2, 3], [3, 4, 5], [9]]).nodes = [1, 2, 3, 4, 5, 9] ∧
    AL.keys (clique false [1, 2, 3, 4, 5, 9] [[1, 2], [1, 2, 3], [3, 4, 5], [9]]).nodes = [1, 2, 3, 4, 5] := by
  decide

/-! ## directed line graph

`distV d a b` is the value the property names: `|a ∩ b|`, or the Jaccard similarity `|a ∩ b| / |a ∪ b|`
(see `C10_similarity`). -/

/-- The routine returns (no exception) a digraph on the vertices `0..m-1`, one per hyperedge, with an arc `i → j`
exactly when `i ≠ j` and the value of (target set of `e_i`, source set of `e_j`) is at least `s`; the arc carries that
value as weight when `weighted`, no attribute otherwise.  For every threshold `s`.
Hypothesis `hne` (Jaccard only): the union of the two sets is never empty - true when sides are non-empty; without it
the code divides by zero (`C10_directed_line_raises`). -/
theorem C10_directed_line (es : List DEdge) (d : Dist) (s : Rat) (weighted : Bool) (hes : es.Nodup)
    (hne : d = .jaccard → ∀ e ∈ es, ∀ f ∈ es, e ≠ f → e.2 ≠ [] ∨ f.1 ≠ []) :
    ∃ g, directedLineGraph es d s weighted = some g ∧
      AL.keys g.nodes = List.range es.length ∧
      ∀ i j a, AL.get? g.adj (i, j) = some a ↔
        ∃ (hi : i < es.length) (hj : j < es.length), i ≠ j ∧ s ≤ distV d es[i].2 es[j].1 ∧
          a = if weighted then some (distV d es[i].2 es[j].1) else none := by
  obtain ⟨g, hg, hI⟩ := dlg_fold_inv (es := es) (d := d) (s := s) (weighted := weighted) (allOrdered es)
    (fun p hp => mem_allOrdered.1 hp)
    (fun hd p hp hpne => by
      have := mem_allOrdered.1 hp
      rcases hne hd p.1 this.1 p.2 this.2 hpne with h | h
      · exact unionSize_ne_zero_left h
      · exact unionSize_ne_zero_right h)
  refine ⟨g, hg, hI.keys, ?_⟩
  intro i j a
  rw [hI.adj]
  constructor
  · rintro ⟨hK, hij, hs, ha⟩
    obtain ⟨⟨p1, p2⟩, hp, hpe⟩ := List.mem_map.1 hK
    have hm := mem_allOrdered.1 hp
    simp only [Prod.mk.injEq] at hpe
    have hi : i < es.length := hpe.1 ▸ idOf_lt hm.1
    have hj : j < es.length := hpe.2 ▸ idOf_lt hm.2
    rw [dVal_getElem es d i j hi hj] at hs ha
    exact ⟨hi, hj, hij, hs, ha⟩
  · rintro ⟨hi, hj, hij, hs, ha⟩
    rw [dVal_getElem es d i j hi hj]
    refine ⟨?_, hij, hs, ha⟩
    apply List.mem_map.2
    refine ⟨(es[i], es[j]), mem_allOrdered.2 ⟨List.getElem_mem hi, List.getElem_mem hj⟩, ?_⟩
    simp only [idOf_getElem hes]

/-! ## line graph -/

/-- `line_graph` returns (no exception) a graph on the vertices `0..m-1`, one per hyperedge; `i — j` is an edge exactly
when `i ≠ j` and the value (intersection size or Jaccard similarity) of `e_i, e_j` is at least `s`; the edge carries that
value as `weight` when `weighted` (and `1` otherwise).  For every threshold `s > 0`, which covers the integers `≥ 1`
for the intersection and `(0, 1]` for Jaccard.  The last two parts say that the enumeration of pairs through the
per-node incident lists with the `vis` table calls `_distance` exactly once for every unordered pair of distinct
hyperedges that share a node (`r.vis` is the log of those calls) and for no other pair.
Hypotheses: hyperedges distinct, duplicate-free, their members are nodes. -/
theorem C10_line (nodes : List Nat) (es : List Edge) (d : Dist) (s : Rat) (weighted : Bool)
    (hes : es.Nodup) (hnd : ∀ e ∈ es, e.Nodup) (hmem : ∀ e ∈ es, ∀ n ∈ e, n ∈ nodes) (hs : 0 < s) :
    ∃ r, lineGraph nodes es d s weighted = some r ∧
      AL.keys r.g.nodes = List.range es.length ∧
      (∀ i j a, AL.get? r.g.adj (i, j) = some a ↔
        ∃ (hi : i < es.length) (hj : j < es.length), i ≠ j ∧ s ≤ distV d es[i] es[j] ∧
          a = some (if weighted then distV d es[i] es[j] else 1)) ∧
      r.vis.Nodup ∧
      (∀ i j, (i, j) ∈ r.vis ↔
        i < j ∧ ∃ (hi : i < es.length) (hj : j < es.length), ∃ n, n ∈ es[i] ∧ n ∈ es[j]) := by
  apply lineGraphFrom_spec es d s weighted (nodes.map (incident es)) hes hnd hs
  · intro l hl
    obtain ⟨n, _, rfl⟩ := List.mem_map.1 hl
    exact ⟨hes.filter _, fun e he => (List.mem_filter.1 he).1⟩
  · intro l hl a ha b hb
    obtain ⟨n, _, rfl⟩ := List.mem_map.1 hl
    exact ⟨n, by simpa using (List.mem_filter.1 ha).2, by simpa using (List.mem_filter.1 hb).2⟩
  · rintro a ha b hb ⟨n, hna, hnb⟩
    refine ⟨incident es n, List.mem_map.2 ⟨n, hmem a ha n hna, rfl⟩, ?_, ?_⟩
    · exact List.mem_filter.2 ⟨ha, by simpa using hna⟩
    · exact List.mem_filter.2 ⟨hb, by simpa using hnb⟩

/-- the same for ANY table of incident lists (one duplicate-free list of hyperedges with a common node per node, every
two intersecting hyperedges together in some list): the result does not depend on the order in which
`get_incident_edges` lists the hyperedges -/
theorem C10_line_any_incident_order (es : List Edge) (d : Dist) (s : Rat) (weighted : Bool) (adj : List (List Edge))
    (hes : es.Nodup) (hnd : ∀ e ∈ es, e.Nodup) (hs : 0 < s)
    (hA : ∀ l ∈ adj, l.Nodup ∧ ∀ e ∈ l, e ∈ es)
    (hC : ∀ l ∈ adj, ∀ a ∈ l, ∀ b ∈ l, ∃ n, n ∈ a ∧ n ∈ b)
    (hB : ∀ a ∈ es, ∀ b ∈ es, (∃ n, n ∈ a ∧ n ∈ b) → ∃ l ∈ adj, a ∈ l ∧ b ∈ l) :
    ∃ r, lineGraphFrom es d s weighted adj = some r ∧
      AL.keys r.g.nodes = List.range es.length ∧
      (∀ i j a, AL.get? r.g.adj (i, j) = some a ↔
        ∃ (hi : i < es.length) (hj : j < es.length), i ≠ j ∧ s ≤ distV d es[i] es[j] ∧
          a = some (if weighted then distV d es[i] es[j] else 1)) :=
  let ⟨r, h1, h2, h3, _⟩ := lineGraphFrom_spec es d s weighted adj hes hnd hs hA hC hB
  ⟨r, h1, h2, h3⟩

/-- the id table returned with the line graphs lists the hyperedges by position -/
theorem C10_id_table {α : Type} (es : List α) (i : Nat) : AL.get? (idTable es) i = es[i]? := by
  have key : ∀ (l : List α) (k i : Nat), AL.get? ((l.zipIdx k).map (fun p => (p.2, p.1))) i =
      if k ≤ i then l[i - k]? else none := by
    intro l
    induction l with
    | nil => intro k i; simp
    | cons a t ih =>
      intro k i
      simp only [List.zipIdx_cons, List.map_cons, AL.get?, ih]
      by_cases h : k = i
      · subst h; simp
      · simp only [h, if_false]
        by_cases h2 : k ≤ i
        · have h3 : k + 1 ≤ i := by omega
          have h4 : i - k = (i - (k + 1)) + 1 := by omega
          simp [h2, h3, h4]
        · have h3 : ¬ k + 1 ≤ i := by omega
          simp [h2, h3]
  simpa [idTable] using key es 0 i

example : ∃ r, lineGraph [1, 2, 3, 4, 5, 9] [[1, 2], [1, 2, 3], [3, 4, 5]] .jaccard (1 / 2) true = some r ∧
    AL.get? r.g.adj (1, 0) = some (some (2 / 3)) ∧ AL.get? r.g.adj (1, 2) = none ∧ (0, 1) ∈ r.vis ∧ (1, 2) ∈ r.vis := by
  obtain ⟨r, h1, _, h3, _, h5⟩ := C10_line [1, 2, 3, 4, 5, 9] [[1, 2], [1, 2, 3], [3, 4, 5]] .jaccard (1 / 2) true
    (by decide) (by decide) (by decide) (by norm_num)
  have i10 : interSize [1, 2, 3] [1, 2] = 2 := by decide
  have u10 : unionSize [1, 2, 3] [1, 2] = 3 := by decide
  have i12 : interSize [1, 2, 3] [3, 4, 5] = 1 := by decide
  have u12 : unionSize [1, 2, 3] [3, 4, 5] = 5 := by decide
  refine ⟨r, h1, ?_, ?_, ?_, ?_⟩
  · rw [h3]; refine ⟨by decide, by decide, by decide, ?_, ?_⟩
    · simp [distV, i10, u10]; norm_num
    · simp [distV, i10, u10]
  · cases h : AL.get? r.g.adj (1, 2) with
    | none => rfl
    | some a =>
      obtain ⟨_, _, _, hle, _⟩ := (h3 1 2 a).1 h
      exfalso; simp [distV, i12, u12] at hle; norm_num at hle
  · rw [h5]; exact ⟨by decide, by decide, by decide, 1, by decide, by decide⟩
  · rw [h5]; exact ⟨by decide, by decide, by decide, 3, by decide, by decide⟩

example : ∃ g, directedLineGraph [([1, 2], [3]), ([3], [1, 4]), ([3, 4], [2])] .intersection 1 false = some g ∧
    AL.get? g.adj (0, 1) = some none ∧ AL.get? g.adj (2, 1) = none := by
  obtain ⟨g, h1, _, h3⟩ := C10_directed_line [([1, 2], [3]), ([3], [1, 4]), ([3, 4], [2])] .intersection 1 false
    (by decide) (by intro h; cases h)
  have i01 : interSize [3] [3] = 1 := by decide
  have i21 : interSize [2] [3] = 0 := by decide
  refine ⟨g, h1, ?_, ?_⟩
  · rw [h3]; exact ⟨by decide, by decide, by decide, by simp [distV, i01], by simp⟩
  · cases h : AL.get? g.adj (2, 1) with
    | none => rfl
    | some a =>
      obtain ⟨_, _, _, hle, _⟩ := (h3 2 1 a).1 h
      exfalso; simp [distV, i21] at hle; norm_num at hle

/-! ## simplicial complex -/

/-- The hyperedges of `simplicial_complex(h)` are exactly the canonical (strictly increasing) tuples whose members all
lie in one hyperedge of `h` - the downward closure; the listing has no repetition.  So it contains every hyperedge
and every non-empty subset of every hyperedge, and each non-empty member is a subset of an input hyperedge
(corollaries below).  It also contains the empty tuple as soon as `h` has a hyperedge (DESIGN §2; the property only
speaks of non-empty members).  Hypothesis: hyperedges as returned by `get_edges()`, i.e. sorted and duplicate-free. -/
theorem C10_simplicial (es : List Edge) (hsorted : ∀ e ∈ es, e.Pairwise (· < ·)) :
    (∀ k, k ∈ simplicial es ↔ k.Pairwise (· < ·) ∧ ∃ e ∈ es, ∀ x ∈ k, x ∈ e) ∧ (simplicial es).Nodup := by
  refine ⟨?_, nodup_simplicial_fold es [] List.nodup_nil⟩
  intro k
  unfold simplicial
  rw [mem_simplicial_fold]
  simp only [List.not_mem_nil, false_or]
  constructor
  · rintro ⟨e, he, sub, hs, rfl⟩
    have hp : sub.Pairwise (· < ·) := (hsorted e he).sublist hs
    rw [sortNodes_of_sorted sub hp]
    exact ⟨hp, e, he, fun x hx => hs.subset hx⟩
  · rintro ⟨hp, e, he, hsub⟩
    exact ⟨e, he, k, sublist_of_sorted_subset e (hsorted e he) k hp hsub, sortNodes_of_sorted k hp⟩

/-- every hyperedge is in the complex -/
theorem C10_simplicial_contains_edges (es : List Edge) (hsorted : ∀ e ∈ es, e.Pairwise (· < ·)) (e : Edge)
    (he : e ∈ es) : e ∈ simplicial es :=
  ((C10_simplicial es hsorted).1 e).2 ⟨hsorted e he, e, he, fun _ h => h⟩

/-- every subset of a hyperedge (as a canonical tuple) is in the complex -/
theorem C10_simplicial_downward (es : List Edge) (hsorted : ∀ e ∈ es, e.Pairwise (· < ·)) (e k : Edge)
    (he : e ∈ es) (hk : k.Pairwise (· < ·)) (hsub : ∀ x ∈ k, x ∈ e) : k ∈ simplicial es :=
  ((C10_simplicial es hsorted).1 k).2 ⟨hk, e, he, hsub⟩

/-- every member is a subset of some input hyperedge -/
theorem C10_simplicial_below (es : List Edge) (hsorted : ∀ e ∈ es, e.Pairwise (· < ·)) (k : Edge)
    (hk : k ∈ simplicial es) : ∃ e ∈ es, ∀ x ∈ k, x ∈ e :=
  (((C10_simplicial es hsorted).1 k).1 hk).2

/-- `get_all_subsets` lists exactly the sub-tuples (position-increasing selections) of its argument -/
theorem C10_all_subsets {α : Type} (e k : List α) : k ∈ allSubsets e ↔ k.Sublist e := mem_allSubsets e k

example : simplicial [[1, 2, 3], [3, 4]] = [[], [1], [2], [3], [1, 2], [1, 3], [2, 3], [1, 2, 3], [4], [3, 4]] := by
  decide

/-! ## bipartite projection -/

/-- The bipartite graph has the vertices `N0..N(n-1)` (attribute `bipartite=0`), one per node in `get_nodes()` order,
then `E0..E(m-1)` (`bipartite=1`), one per hyperedge in `get_edges()` order; `N_i — E_j` is an edge (in both directions
of the symmetric adjacency, without attributes) exactly when node `i` belongs to hyperedge `j`; there is no edge inside
a side; the id table maps `N_i` to node `i` and `E_j` to hyperedge `j` and nothing else.
Hypotheses: node list duplicate-free, members of hyperedges are nodes. -/
theorem C10_bipartite (nodes : List Nat) (es : List Edge) (hnd : nodes.Nodup)
    (hmem : ∀ e ∈ es, ∀ x ∈ e, x ∈ nodes) :
    AL.keys (bipartite nodes es).g.nodes = (List.range nodes.length).map BV.N ++ (List.range es.length).map BV.E ∧
    (∀ i, i < nodes.length → AL.get? (bipartite nodes es).g.nodes (.N i) = some (some 0)) ∧
    (∀ j, j < es.length → AL.get? (bipartite nodes es).g.nodes (.E j) = some (some 1)) ∧
    (∀ i j a, AL.get? (bipartite nodes es).g.adj (.N i, .E j) = some a ↔
      a = none ∧ ∃ x e, nodes[i]? = some x ∧ es[j]? = some e ∧ x ∈ e) ∧
    (∀ u v a, AL.get? (bipartite nodes es).g.adj (u, v) = some a → AL.get? (bipartite nodes es).g.adj (v, u) = some a) ∧
    (∀ i i', AL.get? (bipartite nodes es).g.adj (.N i, .N i') = none) ∧
    (∀ j j', AL.get? (bipartite nodes es).g.adj (.E j, .E j') = none) ∧
    (∀ i, AL.get? (bipartite nodes es).idToObj (.N i) = nodes[i]?.map Obj.node) ∧
    (∀ j, AL.get? (bipartite nodes es).idToObj (.E j) = es[j]?.map Obj.edge) := by
  have hI := bip_loop2 nodes hnd es hmem
  refine ⟨hI.keys, ?_, ?_, ?_, ?_, ?_, ?_, ?_, ?_⟩
  · intro i hi; rw [hI.attr]; simp [hi]
  · intro j hj; rw [hI.attr]; simp [hj]
  · intro i j a
    rw [hI.adj]
    constructor
    · rintro ⟨ha, i', j', x, e, h1, h2, h3, h4 | h4⟩
      · simp at h4
      · simp only [Prod.mk.injEq, BV.N.injEq, BV.E.injEq] at h4
        obtain ⟨rfl, rfl⟩ := h4
        exact ⟨ha, x, e, h1, h2, h3⟩
    · rintro ⟨ha, x, e, h1, h2, h3⟩
      exact ⟨ha, i, j, x, e, h1, h2, h3, Or.inr rfl⟩
  · intro u v a h
    rw [hI.adj] at h ⊢
    obtain ⟨ha, i, j, x, e, h1, h2, h3, h4⟩ := h
    refine ⟨ha, i, j, x, e, h1, h2, h3, ?_⟩
    simp only [Prod.mk.injEq] at h4 ⊢
    rcases h4 with ⟨rfl, rfl⟩ | ⟨rfl, rfl⟩
    · exact Or.inr ⟨rfl, rfl⟩
    · exact Or.inl ⟨rfl, rfl⟩
  · intro i i'
    cases h : AL.get? (bipartite nodes es).g.adj (.N i, .N i') with
    | none => rfl
    | some a =>
      obtain ⟨_, _, _, _, _, _, _, _, h4 | h4⟩ := (hI.adj _ _ _).1 h <;> simp at h4
  · intro j j'
    cases h : AL.get? (bipartite nodes es).g.adj (.E j, .E j') with
    | none => rfl
    | some a =>
      obtain ⟨_, _, _, _, _, _, _, _, h4 | h4⟩ := (hI.adj _ _ _).1 h <;> simp at h4
  · intro i; rw [hI.tab]
  · intro j; rw [hI.tab]

example : AL.keys (bipartite [10, 20, 30, 40] [[10, 20], [20, 30, 10], [30]]).g.nodes =
      [.N 0, .N 1, .N 2, .N 3, .E 0, .E 1, .E 2] ∧
    AL.get? (bipartite [10, 20, 30, 40] [[10, 20], [20, 30, 10], [30]]).g.adj (.N 2, .E 1) = some none ∧
    AL.get? (bipartite [10, 20, 30, 40] [[10, 20], [20, 30, 10], [30]]).g.adj (.N 2, .E 0) = none ∧
    AL.get? (bipartite [10, 20, 30, 40] [[10, 20], [20, 30, 10], [30]]).idToObj (.E 2) = some (.edge [30]) := by
  decide

/-! ### labels that are hyperedge tuples (D54)

Node labels are arbitrary hashable objects; a node may be labelled by a tuple that equals the node tuple of a hyperedge
(`tl e = some n`).  `C10_bipartite` above is about the repaired routine, whose `obj_to_id` holds node labels only: it
needs no hypothesis about `tl`.  The routine before the repair (`bipartiteShared`) kept both kinds of keys in one table. -/

/-- Before the repair the routine was right whenever no node label equals a hyperedge tuple (all int / str labelled
hypergraphs): same graph and same id table as the repaired routine, for which `C10_bipartite` holds. -/
theorem C10_bipartite_shared_table_no_collision (tl : Edge → Option Nat) (nodes : List Nat) (es : List Edge)
    (hno : ∀ e ∈ es, tl e = none) :
    (bipartiteShared tl nodes es).g = (bipartite nodes es).g ∧
    (bipartiteShared tl nodes es).idToObj = (bipartite nodes es).idToObj := by
  have hmem : ∀ p ∈ es.zipIdx, tl p.1 = none := by
    intro p hp
    have := List.mem_zipIdx hp
    simp at this
    exact hno p.1 (by rw [this.2]; exact List.getElem_mem _)
  have h := bipShared_fold_sim tl es.zipIdx hmem
    (a := nodes.zipIdx.foldl bipNode {}) (b := nodes.zipIdx.foldl bipNode {}) ⟨rfl, rfl, fun _ => rfl⟩
  exact ⟨h.1, h.2.1⟩

/-- The hypothesis is necessary (witness of D54): nodes `1, 2, (1,2), (3,4)` (ranks 0..3), hyperedges `{1,2}` and
`{(1,2),(3,4)}`; the node of rank 2 IS the tuple of the first hyperedge.  Before the repair the second hyperedge is
joined to the vertex `E0` of the first hyperedge instead of the vertex `N2` of its member; the repaired routine joins
`E1 — N2` and has no `E — E` edge. -/
example :
    let tl : Edge → Option Nat := fun e => if e = [0, 1] then some 2 else none
    AL.get? (bipartiteShared tl [0, 1, 2, 3] [[0, 1], [2, 3]]).g.adj (.E 1, .E 0) = some none ∧
    AL.get? (bipartiteShared tl [0, 1, 2, 3] [[0, 1], [2, 3]]).g.adj (.E 1, .N 2) = none ∧
    AL.get? (bipartite [0, 1, 2, 3] [[0, 1], [2, 3]]).g.adj (.E 1, .N 2) = some none ∧
    AL.get? (bipartite [0, 1, 2, 3] [[0, 1], [2, 3]]).g.adj (.E 1, .E 0) = none := by
  decide

/-! ## the similarity functions and the corner the Jaccard hypothesis excludes -/

/-- on duplicate-free tuples `intersection` is `|A ∩ B|`, the denominator is `|A ∪ B|`, `jaccard_similarity` is their
quotient (a `ZeroDivisionError`, `none`, exactly when both are empty), `jaccard_distance` is one minus it, and both
are symmetric -/
theorem C10_similarity (a b : List Nat) (ha : a.Nodup) (hb : b.Nodup) :
    interSize a b = (a.toFinset ∩ b.toFinset).card ∧
    unionSize a b = (a.toFinset ∪ b.toFinset).card ∧
    (jaccard? a b = if a = [] ∧ b = [] then none
      else some (((a.toFinset ∩ b.toFinset).card : Rat) / ((a.toFinset ∪ b.toFinset).card : Rat))) ∧
    jaccardDistance? a b = (jaccard? a b).map (fun x => 1 - x) ∧
    (∀ d, distV d a b = distV d b a) ∧
    distV .intersection a b = ((a.toFinset ∩ b.toFinset).card : Rat) ∧
    distV .jaccard a b = ((a.toFinset ∩ b.toFinset).card : Rat) / ((a.toFinset ∪ b.toFinset).card : Rat) := by
  have hi := interSize_eq_card a b ha
  have hu := unionSize_eq_card a b ha hb
  refine ⟨hi, hu, ?_, rfl, fun d => distV_comm d a b ha hb, by simp [distV, hi], by simp [distV, hi, hu]⟩
  unfold jaccard?
  by_cases h : a = [] ∧ b = []
  · obtain ⟨rfl, rfl⟩ := h; simp [unionSize]
  · have hne : unionSize a b ≠ 0 := by
      by_cases h1 : a = []
      · exact unionSize_ne_zero_right (fun h2 => h ⟨h1, h2⟩)
      · exact unionSize_ne_zero_left h1
    rw [if_neg hne, if_neg h, ← hi, ← hu]

/-- without non-empty sides the Jaccard directed line graph divides by zero: whenever some hyperedge has an empty
target set and another one an empty source set, `directed_line_graph(h, "jaccard", ...)` raises (model: `none`) -/
theorem C10_directed_line_raises (es : List DEdge) (s : Rat) (weighted : Bool) (e f : DEdge)
    (he : e ∈ es) (hf : f ∈ es) (hne : e ≠ f) (h1 : e.2 = []) (h2 : f.1 = []) :
    directedLineGraph es .jaccard s weighted = none := by
  apply foldlM_none_of_mem _ _ (e, f) (mem_allOrdered.2 ⟨he, hf⟩)
  intro g
  simp [dlgVisit, hne, h1, h2, dist?, jaccard?, unionSize]

/-! ## the incident table of the object at hand

`line_graph` reads `h.get_incident_edges(n)`, a second piece of container state next to `get_edges()`.  For an object
reached through a history (removals, a copy whose original is edited afterwards, ...) the harness sends the table the
real object returns to the driver, which evaluates `incidentOK` on it and runs `lineGraphFrom` on that very table. -/

/-- `incidentOK` decides exactly the three hypotheses of `C10_line_any_incident_order` -/
theorem C10_incidentOK_iff (es : List Edge) (adj : List (List Edge)) :
    incidentOK es adj = true ↔
      (∀ l ∈ adj, l.Nodup ∧ ∀ e ∈ l, e ∈ es) ∧
      (∀ l ∈ adj, ∀ a ∈ l, ∀ b ∈ l, ∃ n, n ∈ a ∧ n ∈ b) ∧
      (∀ a ∈ es, ∀ b ∈ es, (∃ n, n ∈ a ∧ n ∈ b) → ∃ l ∈ adj, a ∈ l ∧ b ∈ l) := by
  simp only [incidentOK, incListsOK, incSharesOK, incCoversOK, sharesNode, Bool.and_eq_true, Bool.or_eq_true,
    Bool.not_eq_true', List.all_eq_true, List.any_eq_true, decide_eq_true_eq, List.contains_iff_mem, and_assoc]
  refine and_congr Iff.rfl (and_congr Iff.rfl ?_)
  constructor
  · intro h a ha b hb hsh
    rcases h a ha b hb with h1 | h1
    · exfalso
      obtain ⟨n, hna, hnb⟩ := hsh
      have : (a.any fun n => b.contains n) = true := List.any_eq_true.2 ⟨n, hna, by simpa using hnb⟩
      rw [h1] at this; cases this
    · exact h1
  · intro h a ha b hb
    by_cases hsh : (a.any fun n => b.contains n) = true
    · right
      obtain ⟨n, hna, hnb⟩ := List.any_eq_true.1 hsh
      exact h a ha b hb ⟨n, hna, by simpa using hnb⟩
    · left; simpa using hsh

/-- the line graph computed from a table that passed the check is the right one: vertices `0..m-1`, `i — j` exactly
when `i ≠ j` and the value of `e_i, e_j` is at least `s`, with the value (or 1) as weight -/
theorem C10_line_checked_incident_table (es : List Edge) (d : Dist) (s : Rat) (weighted : Bool)
    (adj : List (List Edge)) (hes : es.Nodup) (hnd : ∀ e ∈ es, e.Nodup) (hs : 0 < s)
    (hok : incidentOK es adj = true) :
    ∃ r, lineGraphFrom es d s weighted adj = some r ∧
      AL.keys r.g.nodes = List.range es.length ∧
      (∀ i j a, AL.get? r.g.adj (i, j) = some a ↔
        ∃ (hi : i < es.length) (hj : j < es.length), i ≠ j ∧ s ≤ distV d es[i] es[j] ∧
          a = some (if weighted then distV d es[i] es[j] else 1)) :=
  let ⟨hA, hC, hB⟩ := (C10_incidentOK_iff es adj).1 hok
  C10_line_any_incident_order es d s weighted adj hes hnd hs hA hC hB

/-- the table of a container whose incident lists are what `get_edges()` says (any node order) passes the check -/
theorem C10_incidentOK_of_listing (nodes : List Nat) (es : List Edge) (hes : es.Nodup)
    (hmem : ∀ e ∈ es, ∀ n ∈ e, n ∈ nodes) : incidentOK es (nodes.map (incident es)) = true := by
  rw [C10_incidentOK_iff]
  refine ⟨?_, ?_, ?_⟩
  · intro l hl
    obtain ⟨n, _, rfl⟩ := List.mem_map.1 hl
    exact ⟨hes.filter _, fun e he => (List.mem_filter.1 he).1⟩
  · intro l hl a ha b hb
    obtain ⟨n, _, rfl⟩ := List.mem_map.1 hl
    exact ⟨n, by simpa using (List.mem_filter.1 ha).2, by simpa using (List.mem_filter.1 hb).2⟩
  · rintro a ha b hb ⟨n, hna, hnb⟩
    refine ⟨incident es n, List.mem_map.2 ⟨n, hmem a ha n hna, rfl⟩, ?_, ?_⟩
    · exact List.mem_filter.2 ⟨ha, by simpa using hna⟩
    · exact List.mem_filter.2 ⟨hb, by simpa using hnb⟩

/-- what a STALE table does (e.g. the per-node id lists of a copy that shares them with its edited original): if the
lists are still sound (members are hyperedges of `get_edges()` with a common node) but two hyperedges `e_i`, `e_j` are
together in no list, then `line_graph` returns a graph without the edge `i — j`, whatever their value and whatever
the threshold - so the third conjunct of `incidentOK` is necessary for `C10_line_checked_incident_table` -/
theorem C10_line_stale_incident_table (es : List Edge) (d : Dist) (s : Rat) (weighted : Bool)
    (adj : List (List Edge)) (hnd : ∀ e ∈ es, e.Nodup)
    (hA : ∀ l ∈ adj, ∀ e ∈ l, e ∈ es)
    (hC : ∀ l ∈ adj, ∀ a ∈ l, ∀ b ∈ l, ∃ n, n ∈ a ∧ n ∈ b)
    (i j : Nat) (hi : i < es.length) (hj : j < es.length)
    (hmiss : ∀ l ∈ adj, ¬ (es[i] ∈ l ∧ es[j] ∈ l)) :
    ∃ r, lineGraphFrom es d s weighted adj = some r ∧ AL.get? r.g.adj (i, j) = none := by
  have hps : ∀ p ∈ adj.flatMap pairsOf, p.1 ∈ es ∧ p.2 ∈ es ∧ ∃ n, n ∈ p.1 ∧ n ∈ p.2 := by
    intro p hp
    obtain ⟨l, hl, hpl⟩ := List.mem_flatMap.1 hp
    have hm := mem_pairsOf_mem (x := p.1) (y := p.2) hpl
    exact ⟨hA l hl _ hm.1, hA l hl _ hm.2, hC l hl _ hm.1 _ hm.2⟩
  obtain ⟨r, hr, hI⟩ := lg_fold_inv (d := d) (s := s) (weighted := weighted) hnd _ hps
  refine ⟨r, hr, ?_⟩
  cases h : AL.get? r.g.adj (i, j) with
  | none => rfl
  | some a =>
    exfalso
    obtain ⟨hK, _, _⟩ := (hI.adj i j a).1 h
    obtain ⟨⟨a', b'⟩, hp, hk⟩ := List.mem_map.1 hK
    obtain ⟨l, hl, hpl⟩ := List.mem_flatMap.1 hp
    have hm := mem_pairsOf_mem hpl
    have ha := hA l hl a' hm.1
    have hb := hA l hl b' hm.2
    simp only at hk
    rcases (pairKey_eq_iff _ _ _ _).1 hk with ⟨h1, h2⟩ | ⟨h1, h2⟩
    · subst h1 h2
      exact hmiss l hl ⟨by rw [getElem_idOf ha]; exact hm.1, by rw [getElem_idOf hb]; exact hm.2⟩
    · subst h1 h2
      exact hmiss l hl ⟨by rw [getElem_idOf hb]; exact hm.2, by rw [getElem_idOf ha]; exact hm.1⟩

/-- the seeded situation in small: hyperedges `(1,2,3)`, `(2,3,4)`, `(3,4,5)` over the nodes `1..5`; the fresh table
passes the check; the table in which `(2,3,4)` was dropped from every list (it was removed from the object that
shares the lists) fails it, and the line graph computed from it has lost both links of that hyperedge -/
example : incidentOK [[1, 2, 3], [2, 3, 4], [3, 4, 5]] ([1, 2, 3, 4, 5].map (incident [[1, 2, 3], [2, 3, 4], [3, 4, 5]])) = true ∧
    incidentOK [[1, 2, 3], [2, 3, 4], [3, 4, 5]] [[[1, 2, 3]], [[1, 2, 3]], [[1, 2, 3], [3, 4, 5]], [[3, 4, 5]], [[3, 4, 5]]] = false ∧
    (∃ r, lineGraphFrom [[1, 2, 3], [2, 3, 4], [3, 4, 5]] .intersection 1 false
        [[[1, 2, 3]], [[1, 2, 3]], [[1, 2, 3], [3, 4, 5]], [[3, 4, 5]], [[3, 4, 5]]] = some r ∧
      AL.get? r.g.adj (0, 1) = none ∧ AL.get? r.g.adj (1, 2) = none) := by
  refine ⟨by decide, by decide, ?_⟩
  obtain ⟨r, hr, h01⟩ := C10_line_stale_incident_table [[1, 2, 3], [2, 3, 4], [3, 4, 5]] .intersection 1 false
    [[[1, 2, 3]], [[1, 2, 3]], [[1, 2, 3], [3, 4, 5]], [[3, 4, 5]], [[3, 4, 5]]] (by decide) (by decide) (by decide)
    0 1 (by decide) (by decide) (by decide)
  obtain ⟨r', hr', h12⟩ := C10_line_stale_incident_table [[1, 2, 3], [2, 3, 4], [3, 4, 5]] .intersection 1 false
    [[[1, 2, 3]], [[1, 2, 3]], [[1, 2, 3], [3, 4, 5]], [[3, 4, 5]], [[3, 4, 5]]] (by decide) (by decide) (by decide)
    1 2 (by decide) (by decide) (by decide)
  rw [hr] at hr'; cases hr'
  exact ⟨r, hr, h01, h12⟩

/-! ## Links to the full container models: objects reached through ANY history

Everything above takes listings as input.  `Hgxv/Proofs/C10Link.lean` reads the listings off the full container models
(C01 `Hypergraph`, C02 `DirectedHypergraph`): `nodesH s`, `edgesH s`, `incidentH s n`, `incTableH s` are what
`C01.answer s` returns for `get_nodes()`, `get_edges()`, `get_incident_edges(n)`; `edgesD s` is what `C02.edges s`
returns; `bipartiteH`, `cliqueH`, `lineGraphH`, `simplicialH`, `directedLineGraphD` are the routines applied to those
answers, i.e. to the object.  The theorems below quantify over EVERY history of well-formed public calls (`C01.Cmd` /
`C02.Cmd`: constructor, copy, the 18 mutating calls, accepted or rejected; well-formed = the containers' own
quantifier: hyperedges are node sets, directed sides non-empty and disjoint), every slot `i`, the object `s` in that
slot and the ABSTRACT content `a` of the same slot after the same history (`C01.Spec` / `C02.Spec`: a list of nodes
and a map from node sets to records) and state the result of the routine on the object in terms of `a` alone.
No hypothesis about the object is left: all of them are discharged from `C01.Inv` / `C02.Inv` (`C01_inv`, `C02_inv`). -/

/-- **What the object lists after any history** is the listing of the abstract content, and it has every property the
theorems above assume: `get_nodes()` is the duplicate-free node list of `a`; `get_edges()` is the duplicate-free key list
of `a`; `len(h)` is its length; for every node, `get_incident_edges(n)` answers (no exception) exactly the hyperedges of
`get_edges()` that contain `n`, in that order; every hyperedge is a strictly increasing (hence duplicate-free) tuple of
nodes of `get_nodes()`. -/
theorem C10_link_listings (k : Nat) (cs : List C01.Cmd) (hwf : ∀ c ∈ cs, c.WF) (i : Nat) (s : C01.Store)
    (a : C01.Spec) (hs : (C01.run (C01.init k) cs)[i]? = some s)
    (ha : (C01.Spec.run (C01.Spec.init k) cs)[i]? = some a) :
    C01.query (C01.run (C01.init k) cs) i .nodes = .nats (AL.keys a.nodes) ∧
    C01.query (C01.run (C01.init k) cs) i (.edges {}) = .edges (AL.keys a.edges) ∧
    C01.query (C01.run (C01.init k) cs) i .len = .int ((AL.keys a.edges).length : Nat) ∧
    (∀ n ∈ AL.keys a.nodes,
      C01.query (C01.run (C01.init k) cs) i (.incident n {}) = .edges (incident (AL.keys a.edges) n)) ∧
    nodesH s = AL.keys a.nodes ∧ edgesH s = AL.keys a.edges ∧
    incTableH s = (AL.keys a.nodes).map (incident (AL.keys a.edges)) ∧
    (AL.keys a.nodes).Nodup ∧ (AL.keys a.edges).Nodup ∧
    (∀ e ∈ AL.keys a.edges, e.Pairwise (· < ·) ∧ e.Nodup ∧ ∀ n ∈ e, n ∈ AL.keys a.nodes) := by
  obtain ⟨h, rfl⟩ := history01 k cs hwf i s a hs ha
  obtain ⟨e1, e2⟩ := abs_listings s h
  have ok := listingOK_of_inv s h
  rw [e1, e2]
  simp only [C01.query, hs]
  refine ⟨(nodesH_eq s).1, (edgesH_eq s).1, (edgesH_eq s).2.2, fun n hn => (incidentH_eq s h n hn).1,
    (nodesH_eq s).2, (edgesH_eq s).2.1, incTableH_eq s h, ok.nodesNodup, ok.edgesNodup,
    fun e he => ⟨ok.sorted e he, ok.edgeNodup e he, ok.members e he⟩⟩

/-- **The incident table of every reachable object passes the check** the driver evaluates on the table of the real
object (`incidentOK`: lists duplicate-free and made of hyperedges of `get_edges()`, members of one list share a node,
every two intersecting hyperedges are together in some list). -/
theorem C10_link_incident_table (k : Nat) (cs : List C01.Cmd) (hwf : ∀ c ∈ cs, c.WF) (i : Nat) (s : C01.Store)
    (hs : (C01.run (C01.init k) cs)[i]? = some s) : incidentOK (edgesH s) (incTableH s) = true := by
  have h := C01.run_inv cs (C01.init k) hwf (C01.init_inv k) s (List.mem_of_getElem? hs)
  have ok := listingOK_of_inv s h
  rw [incTableH_eq s h, (edgesH_eq s).2.1]
  exact C10_incidentOK_of_listing _ _ ok.edgesNodup ok.members

/-- **`line_graph` of any reachable object is the line graph of its abstract content.**  For every history, every
threshold `thr > 0`, both distances, weighted or not: the routine run on the listing and on the incident table the
object answers returns (no exception) the same as the definition-level enumeration on `a`; the result has one vertex
`0..m-1` per hyperedge of `a` (in key order), `i — j` is an edge exactly when `i ≠ j` and the value (intersection size /
Jaccard similarity) of the two keys is at least `thr`, with the value (or 1) as weight; and `_distance` was called
exactly once for every unordered pair of distinct keys of `a` that share a node, for no other pair. -/
theorem C10_link_line (k : Nat) (cs : List C01.Cmd) (hwf : ∀ c ∈ cs, c.WF) (i : Nat) (s : C01.Store)
    (a : C01.Spec) (hs : (C01.run (C01.init k) cs)[i]? = some s)
    (ha : (C01.Spec.run (C01.Spec.init k) cs)[i]? = some a) (d : Dist) (thr : Rat) (weighted : Bool) (hthr : 0 < thr) :
    lineGraphH s d thr weighted = lineGraph (AL.keys a.nodes) (AL.keys a.edges) d thr weighted ∧
    ∃ r, lineGraphH s d thr weighted = some r ∧
      AL.keys r.g.nodes = List.range (AL.keys a.edges).length ∧
      (∀ x y w, AL.get? r.g.adj (x, y) = some w ↔
        ∃ (hx : x < (AL.keys a.edges).length) (hy : y < (AL.keys a.edges).length), x ≠ y ∧
          thr ≤ distV d (AL.keys a.edges)[x] (AL.keys a.edges)[y] ∧
          w = some (if weighted then distV d (AL.keys a.edges)[x] (AL.keys a.edges)[y] else 1)) ∧
      r.vis.Nodup ∧
      (∀ x y, (x, y) ∈ r.vis ↔
        x < y ∧ ∃ (hx : x < (AL.keys a.edges).length) (hy : y < (AL.keys a.edges).length),
          ∃ n, n ∈ (AL.keys a.edges)[x] ∧ n ∈ (AL.keys a.edges)[y]) := by
  obtain ⟨_, _, _, _, _, e2, e3, _, hes, hE⟩ := C10_link_listings k cs hwf i s a hs ha
  have heq : lineGraphH s d thr weighted = lineGraph (AL.keys a.nodes) (AL.keys a.edges) d thr weighted := by
    unfold lineGraphH lineGraph
    rw [e2, e3]
  refine ⟨heq, ?_⟩
  rw [heq]
  exact C10_line _ _ d thr weighted hes (fun e he => (hE e he).2.1) (fun e he => (hE e he).2.2) hthr

/-- **`clique_projection` of any reachable object**: `u — v` is an edge (without attributes) exactly when `u ≠ v` and
some key of the abstract content contains both; the vertices are the nodes with a neighbour, plus all nodes of `a` when
`keep_isolated`; no vertex twice; with `keep_isolated=True` the vertex set is exactly the node set of `a`. -/
theorem C10_link_clique (k : Nat) (cs : List C01.Cmd) (hwf : ∀ c ∈ cs, c.WF) (i : Nat) (s : C01.Store)
    (a : C01.Spec) (hs : (C01.run (C01.init k) cs)[i]? = some s)
    (ha : (C01.Spec.run (C01.Spec.init k) cs)[i]? = some a) (keepIso : Bool) :
    (∀ u v x, AL.get? (cliqueH keepIso s).adj (u, v) = some x ↔
        x = none ∧ u ≠ v ∧ ∃ e ∈ AL.keys a.edges, u ∈ e ∧ v ∈ e) ∧
    (∀ x, x ∈ AL.keys (cliqueH keepIso s).nodes ↔
        (keepIso = true ∧ x ∈ AL.keys a.nodes) ∨ ∃ e ∈ AL.keys a.edges, x ∈ e ∧ ∃ y ∈ e, y ≠ x) ∧
    (AL.keys (cliqueH keepIso s).nodes).Nodup ∧
    (∀ x, x ∈ AL.keys (cliqueH true s).nodes ↔ x ∈ AL.keys a.nodes) := by
  obtain ⟨_, _, _, _, e1, e2, _, _, _, hE⟩ := C10_link_listings k cs hwf i s a hs ha
  unfold cliqueH
  rw [e1, e2]
  have hnd : ∀ e ∈ AL.keys a.edges, e.Nodup := fun e he => (hE e he).2.1
  obtain ⟨c1, c2, c3⟩ := C10_clique keepIso (AL.keys a.nodes) (AL.keys a.edges) hnd
  exact ⟨c1, c2, c3, C10_clique_keep_isolated _ _ hnd (fun e he => (hE e he).2.2)⟩

/-- **`bipartite_projection` of any reachable object**: vertices `N0..N(n-1)` (`bipartite=0`), one per node of the
abstract content in its order, then `E0..E(m-1)` (`bipartite=1`), one per key; `N_i — E_j` (symmetric, no attributes)
exactly when node `i` belongs to key `j`; no edge inside a side; the id table maps `N_i` to node `i`, `E_j` to key `j`. -/
theorem C10_link_bipartite (k : Nat) (cs : List C01.Cmd) (hwf : ∀ c ∈ cs, c.WF) (i : Nat) (s : C01.Store)
    (a : C01.Spec) (hs : (C01.run (C01.init k) cs)[i]? = some s)
    (ha : (C01.Spec.run (C01.Spec.init k) cs)[i]? = some a) :
    AL.keys (bipartiteH s).g.nodes =
      (List.range (AL.keys a.nodes).length).map BV.N ++ (List.range (AL.keys a.edges).length).map BV.E ∧
    (∀ p, p < (AL.keys a.nodes).length → AL.get? (bipartiteH s).g.nodes (.N p) = some (some 0)) ∧
    (∀ q, q < (AL.keys a.edges).length → AL.get? (bipartiteH s).g.nodes (.E q) = some (some 1)) ∧
    (∀ p q x, AL.get? (bipartiteH s).g.adj (.N p, .E q) = some x ↔
      x = none ∧ ∃ n e, (AL.keys a.nodes)[p]? = some n ∧ (AL.keys a.edges)[q]? = some e ∧ n ∈ e) ∧
    (∀ u v x, AL.get? (bipartiteH s).g.adj (u, v) = some x → AL.get? (bipartiteH s).g.adj (v, u) = some x) ∧
    (∀ p p', AL.get? (bipartiteH s).g.adj (.N p, .N p') = none) ∧
    (∀ q q', AL.get? (bipartiteH s).g.adj (.E q, .E q') = none) ∧
    (∀ p, AL.get? (bipartiteH s).idToObj (.N p) = (AL.keys a.nodes)[p]?.map Obj.node) ∧
    (∀ q, AL.get? (bipartiteH s).idToObj (.E q) = (AL.keys a.edges)[q]?.map Obj.edge) := by
  obtain ⟨_, _, _, _, e1, e2, _, hn, _, hE⟩ := C10_link_listings k cs hwf i s a hs ha
  unfold bipartiteH
  rw [e1, e2]
  exact C10_bipartite _ _ hn (fun e he => (hE e he).2.2)

/-- **`simplicial_complex` of any reachable object** is the downward closure of the abstract content: its hyperedges
are exactly the strictly increasing tuples all of whose members lie in one key of `a`, listed once; in particular every
key of `a` is among them. -/
theorem C10_link_simplicial (k : Nat) (cs : List C01.Cmd) (hwf : ∀ c ∈ cs, c.WF) (i : Nat) (s : C01.Store)
    (a : C01.Spec) (hs : (C01.run (C01.init k) cs)[i]? = some s)
    (ha : (C01.Spec.run (C01.Spec.init k) cs)[i]? = some a) :
    (∀ t, t ∈ simplicialH s ↔ t.Pairwise (· < ·) ∧ ∃ e ∈ AL.keys a.edges, ∀ x ∈ t, x ∈ e) ∧
    (simplicialH s).Nodup ∧ (∀ e ∈ AL.keys a.edges, e ∈ simplicialH s) := by
  obtain ⟨_, _, _, _, _, e2, _, _, _, hE⟩ := C10_link_listings k cs hwf i s a hs ha
  unfold simplicialH
  rw [e2]
  have hsorted : ∀ e ∈ AL.keys a.edges, e.Pairwise (· < ·) := fun e he => (hE e he).1
  obtain ⟨c1, c2⟩ := C10_simplicial (AL.keys a.edges) hsorted
  exact ⟨c1, c2, fun e he => C10_simplicial_contains_edges _ hsorted e he⟩

/-- **The object `simplicial_complex` returns.**  The routine ends with `S = Hypergraph(s_edges)`, `s_edges` a Python
set: `buildH l` is the full C01 model of that constructor call for the order `l` in which the set happens to be iterated
(any permutation of `simplicialH s`).  For every history and every such order: the constructor call is accepted (no
exception); `S` is itself an object reached through a history of well-formed public calls - so `C01_inv`,
`C01_refines`, `C01_incident_once` and every `C10_link_*` theorem apply to it again; `S.get_edges()` is `l`, i.e. exactly
the strictly increasing tuples inside one key of the abstract content `a` (the downward closure, every member once); and
the nodes of `S` are exactly the nodes that lie in some key of `a` (isolated nodes of `h` are not nodes of `S`). -/
theorem C10_link_simplicial_object (k : Nat) (cs : List C01.Cmd) (hwf : ∀ c ∈ cs, c.WF) (i : Nat) (s : C01.Store)
    (a : C01.Spec) (hs : (C01.run (C01.init k) cs)[i]? = some s)
    (ha : (C01.Spec.run (C01.Spec.init k) cs)[i]? = some a) (l : List Edge) (hl : l.Perm (simplicialH s)) :
    (buildH l).2 = .ok ∧
    ((∀ c ∈ [C01.Cmd.on 0 (.addEdges l none none)], c.WF) ∧
      (C01.run (C01.init 1) [.on 0 (.addEdges l none none)])[0]? = some (buildH l).1) ∧
    edgesH (buildH l).1 = l ∧ (edgesH (buildH l).1).Nodup ∧
    (∀ t, t ∈ edgesH (buildH l).1 ↔ t.Pairwise (· < ·) ∧ ∃ e ∈ AL.keys a.edges, ∀ x ∈ t, x ∈ e) ∧
    (∀ n, n ∈ nodesH (buildH l).1 ↔ ∃ e ∈ AL.keys a.edges, n ∈ e) := by
  obtain ⟨c1, c2, c3⟩ := C10_link_simplicial k cs hwf i s a hs ha
  have hsorted : ∀ t ∈ l, t.Pairwise (· < ·) := fun t ht => ((c1 t).1 (hl.mem_iff.1 ht)).1
  have hdf : ∀ t ∈ l, t.Nodup := fun t ht => (hsorted t ht).imp (fun h => Nat.ne_of_lt h)
  have hcan : ∀ t ∈ l, C01.canon t = t := fun t ht =>
    C01.canon_of_sorted ((hsorted t ht).imp (fun h => Nat.le_of_lt h))
  have hnd : l.Nodup := hl.nodup_iff.2 c2
  obtain ⟨b1, _, b3, b4⟩ := buildH_spec l hcan hnd hdf
  refine ⟨b1, ⟨?_, rfl⟩, b3, by rw [b3]; exact hnd, ?_, ?_⟩
  · intro c hc
    simp only [List.mem_singleton] at hc
    subst hc
    exact hdf
  · intro t
    rw [b3, hl.mem_iff]
    exact c1 t
  · intro n
    rw [b4]
    constructor
    · rintro ⟨t, ht, hn⟩
      obtain ⟨_, e, he, hsub⟩ := (c1 t).1 (hl.mem_iff.1 ht)
      exact ⟨e, he, hsub n hn⟩
    · rintro ⟨e, he, hn⟩
      exact ⟨e, hl.mem_iff.2 (c3 e he), hn⟩

/-- **`directed_line_graph` of any reachable `DirectedHypergraph`.**  For every history of constructor calls, copies
and public calls (C02's quantifier: sides non-empty and disjoint), the object `s` in a slot and the abstract content
`a` of that slot: `get_edges()` answers the key list of `a` (distinct pairs, `len(h)` many, `get_sources` /
`get_targets` its components); the routine returns - for BOTH distances, no `ZeroDivisionError`: sides of reachable
hyperedges are non-empty - a digraph on `0..m-1` with an arc `x → y` exactly when `x ≠ y` and the value of (target set
of key `x`, source set of key `y`) is at least `thr`, carrying the value as weight when `weighted`.  Every `thr`. -/
theorem C10_link_directed_line (cs : List C02.Cmd) (hcs : ∀ c ∈ cs, c.WF) (slot : Nat) (s : C02.Store)
    (a : C02.Spec) (hs : AL.get? (C02.runCmds [] cs) slot = some s)
    (ha : AL.get? (C02.Spec.runCmds [] cs) slot = some a) (d : Dist) (thr : Rat) (weighted : Bool) :
    C02.edges s .all false = some (AL.keys a.edges) ∧ C02.numEdges s = (AL.keys a.edges).length ∧
    C02.sources s = (AL.keys a.edges).map (·.1) ∧ C02.targets s = (AL.keys a.edges).map (·.2) ∧
    (AL.keys a.edges).Nodup ∧
    ∃ g, directedLineGraphD s d thr weighted = some g ∧
      AL.keys g.nodes = List.range (AL.keys a.edges).length ∧
      ∀ x y w, AL.get? g.adj (x, y) = some w ↔
        ∃ (hx : x < (AL.keys a.edges).length) (hy : y < (AL.keys a.edges).length), x ≠ y ∧
          thr ≤ distV d (AL.keys a.edges)[x].2 (AL.keys a.edges)[y].1 ∧
          w = if weighted then some (distV d (AL.keys a.edges)[x].2 (AL.keys a.edges)[y].1) else none := by
  obtain ⟨h, rfl⟩ := history02 cs hcs slot s a hs ha
  obtain ⟨q1, q2, q3, q4, q5⟩ := edgesD_eq s
  obtain ⟨hnd, hwf⟩ := dlistingOK_of_inv s h
  rw [abs_dlistings]
  refine ⟨q1, q3, q4, q5, hnd, ?_⟩
  unfold directedLineGraphD
  rw [q2]
  exact C10_directed_line _ d thr weighted hnd (fun _ e he f _ _ => Or.inl (hwf e he).2.1)

/-! ### non-vacuity: concrete histories (`C10.demoH`, `C10.demoD` in `Proofs/C10Link.lean`)

`demoH` (11 commands, 2 slots): insertions in permuted node order, a re-insertion, two removals (id gaps, isolated
nodes 8, 9 left behind), `{1,2}` removed and inserted again (it moves to the end of the listing), a copy,
`remove_node(3, keep_edges=True)` on the copy, a node added to the original afterwards. -/

/-- the hypotheses of the link theorems hold for `demoH`, slot 0 and slot 1, and the listings are non-trivial -/
example : (∀ c ∈ demoH, c.WF) ∧
    (∃ s a, (C01.run (C01.init 2) demoH)[0]? = some s ∧ (C01.Spec.run (C01.Spec.init 2) demoH)[0]? = some a ∧
      AL.keys a.nodes = [1, 2, 3, 8, 9, 4, 5, 7] ∧ AL.keys a.edges = [[1, 2, 3], [3, 4, 5], [1, 2]] ∧
      nodesH s = [1, 2, 3, 8, 9, 4, 5, 7] ∧ edgesH s = [[1, 2, 3], [3, 4, 5], [1, 2]] ∧
      incTableH s = [[[1, 2, 3], [1, 2]], [[1, 2, 3], [1, 2]], [[1, 2, 3], [3, 4, 5]], [], [], [[3, 4, 5]], [[3, 4, 5]], []] ∧
      incidentOK (edgesH s) (incTableH s) = true) ∧
    (∃ s a, (C01.run (C01.init 2) demoH)[1]? = some s ∧ (C01.Spec.run (C01.Spec.init 2) demoH)[1]? = some a ∧
      AL.keys a.nodes = [1, 2, 8, 9, 4, 5] ∧ edgesH s = [[1, 2], [4, 5]] ∧
      incTableH s = [[[1, 2]], [[1, 2]], [], [], [[4, 5]], [[4, 5]]]) :=
  ⟨demoH_wf, ⟨_, _, rfl, rfl, by decide⟩, ⟨_, _, rfl, rfl, by decide⟩⟩

/-- clique, bipartite and simplicial projections of the object in slot 0 of `demoH`, evaluated -/
example : ∃ s, (C01.run (C01.init 2) demoH)[0]? = some s ∧
    AL.get? (cliqueH false s).adj (5, 3) = some none ∧ AL.get? (cliqueH false s).adj (2, 4) = none ∧
    AL.keys (cliqueH false s).nodes = [1, 2, 3, 4, 5] ∧ AL.keys (cliqueH true s).nodes = [1, 2, 3, 8, 9, 4, 5, 7] ∧
    AL.get? (bipartiteH s).g.adj (.N 5, .E 1) = some none ∧ AL.get? (bipartiteH s).g.adj (.N 5, .E 2) = none ∧
    AL.get? (bipartiteH s).idToObj (.N 5) = some (.node 4) ∧ AL.get? (bipartiteH s).idToObj (.E 2) = some (.edge [1, 2]) ∧
    simplicialH s = [[], [1], [2], [3], [1, 2], [1, 3], [2, 3], [1, 2, 3], [4], [5], [3, 4], [3, 5], [4, 5], [3, 4, 5]] :=
  ⟨_, rfl, by decide⟩

/-- the object returned by `simplicial_complex` for slot 0 of `demoH` (set iterated in insertion order): accepted,
14 hyperedges, the isolated nodes 7, 8, 9 of the input are not nodes of it -/
example : ∃ s, (C01.run (C01.init 2) demoH)[0]? = some s ∧ (buildH (simplicialH s)).2 = .ok ∧
    (edgesH (buildH (simplicialH s)).1).length = 14 ∧ nodesH (buildH (simplicialH s)).1 = [1, 2, 3, 4, 5] ∧
    incidentH (buildH (simplicialH s)).1 4 = [[4], [3, 4], [4, 5], [3, 4, 5]] :=
  ⟨_, rfl, by decide⟩

/-- the line graph of the object in slot 0 of `demoH` (keys `{1,2,3}`, `{3,4,5}`, `{1,2}`), Jaccard, `s = 1/2`,
weighted: `0 — 2` with weight 2/3, no edge `0 — 1` (1/5 < 1/2), and `_distance` was called for the pairs (0,1), (0,2)
only -/
example : ∃ s r, (C01.run (C01.init 2) demoH)[0]? = some s ∧ lineGraphH s .jaccard (1 / 2) true = some r ∧
    AL.get? r.g.adj (2, 0) = some (some (2 / 3)) ∧ AL.get? r.g.adj (0, 1) = none ∧
    (0, 1) ∈ r.vis ∧ (0, 2) ∈ r.vis ∧ (1, 2) ∉ r.vis := by
  have key : ∀ s a, (C01.run (C01.init 2) demoH)[0]? = some s → (C01.Spec.run (C01.Spec.init 2) demoH)[0]? = some a →
      AL.keys a.edges = [[1, 2, 3], [3, 4, 5], [1, 2]] →
      ∃ r, lineGraphH s .jaccard (1 / 2) true = some r ∧
        AL.get? r.g.adj (2, 0) = some (some (2 / 3)) ∧ AL.get? r.g.adj (0, 1) = none ∧
        (0, 1) ∈ r.vis ∧ (0, 2) ∈ r.vis ∧ (1, 2) ∉ r.vis := by
    intro s a hs ha hk
    obtain ⟨_, r, h1, _, h3, _, h5⟩ := C10_link_line 2 demoH demoH_wf 0 s a hs ha .jaccard (1 / 2) true (by norm_num)
    generalize AL.keys a.edges = es at hk h3 h5
    subst hk
    have i20 : interSize [1, 2] [1, 2, 3] = 2 := by decide
    have u20 : unionSize [1, 2] [1, 2, 3] = 3 := by decide
    have i01 : interSize [1, 2, 3] [3, 4, 5] = 1 := by decide
    have u01 : unionSize [1, 2, 3] [3, 4, 5] = 5 := by decide
    refine ⟨r, h1, ?_, ?_, ?_, ?_, ?_⟩
    · rw [h3]; refine ⟨by decide, by decide, by decide, ?_, ?_⟩
      · simp [distV, i20, u20]; norm_num
      · simp [distV, i20, u20]
    · cases h : AL.get? r.g.adj (0, 1) with
      | none => rfl
      | some w =>
        obtain ⟨_, _, _, hle, _⟩ := (h3 0 1 w).1 h
        exfalso; simp [distV, i01, u01] at hle; norm_num at hle
    · rw [h5]; exact ⟨by decide, by decide, by decide, 3, by decide, by decide⟩
    · rw [h5]; exact ⟨by decide, by decide, by decide, 1, by decide, by decide⟩
    · rw [h5]; rintro ⟨_, _, _, n, hn1, hn2⟩
      have g1 : n ∈ [3, 4, 5] := hn1
      have g2 : n ∈ [1, 2] := hn2
      simp at g1 g2; omega
  obtain ⟨r, hr⟩ := key _ _ rfl rfl (by decide)
  exact ⟨_, r, rfl, hr⟩

/-- `demoD` (6 commands, 2 slots) is well-formed; the object in slot 0 lists `((3),(1,4))`, `((4),(2))`, `((1,2),(3))`
(the last one removed and inserted again), the copy in slot 1 lost node 4 (`keep_edges=True`) -/
example : (∀ c ∈ demoD, c.WF) ∧
    (∃ s a, AL.get? (C02.runCmds [] demoD) 0 = some s ∧ AL.get? (C02.Spec.runCmds [] demoD) 0 = some a ∧
      edgesD s = [([3], [1, 4]), ([4], [2]), ([1, 2], [3])] ∧ AL.keys a.edges = [([3], [1, 4]), ([4], [2]), ([1, 2], [3])]) ∧
    (∃ s a, AL.get? (C02.runCmds [] demoD) 1 = some s ∧ AL.get? (C02.Spec.runCmds [] demoD) 1 = some a ∧
      edgesD s = [([1, 2], [3]), ([3], [1])] ∧ AL.keys a.edges = [([1, 2], [3]), ([3], [1])]) :=
  ⟨demoD_wf, ⟨_, _, rfl, rfl, by decide⟩, ⟨_, _, rfl, rfl, by decide⟩⟩

/-- the directed line graph of the object in slot 0 of `demoD`, intersection, `s = 1`, unweighted: `0 → 1` (target
`{1,4}` meets source `{4}`), `2 → 0`, no arc `1 → 0` -/
example : ∃ s g, AL.get? (C02.runCmds [] demoD) 0 = some s ∧ directedLineGraphD s .intersection 1 false = some g ∧
    AL.get? g.adj (0, 1) = some none ∧ AL.get? g.adj (2, 0) = some none ∧ AL.get? g.adj (1, 0) = none := by
  have key : ∀ s a, AL.get? (C02.runCmds [] demoD) 0 = some s → AL.get? (C02.Spec.runCmds [] demoD) 0 = some a →
      AL.keys a.edges = [([3], [1, 4]), ([4], [2]), ([1, 2], [3])] →
      ∃ g, directedLineGraphD s .intersection 1 false = some g ∧
        AL.get? g.adj (0, 1) = some none ∧ AL.get? g.adj (2, 0) = some none ∧ AL.get? g.adj (1, 0) = none := by
    intro s a hs ha hk
    obtain ⟨_, _, _, _, _, g, h1, _, h3⟩ := C10_link_directed_line demoD demoD_wf 0 s a hs ha .intersection 1 false
    generalize AL.keys a.edges = es at hk h3
    subst hk
    have i01 : interSize [1, 4] [4] = 1 := by decide
    have i20 : interSize [3] [3] = 1 := by decide
    have i10 : interSize [2] [3] = 0 := by decide
    refine ⟨g, h1, ?_, ?_, ?_⟩
    · rw [h3]; exact ⟨by decide, by decide, by decide, by simp [distV, i01], by simp⟩
    · rw [h3]; exact ⟨by decide, by decide, by decide, by simp [distV, i20], by simp⟩
    · cases h : AL.get? g.adj (1, 0) with
      | none => rfl
      | some w =>
        obtain ⟨_, _, _, hle, _⟩ := (h3 1 0 w).1 h
        exfalso; simp [distV, i10] at hle; norm_num at hle
  obtain ⟨g, hg⟩ := key _ _ rfl rfl (by decide)
  exact ⟨_, g, rfl, hg⟩

/-! ## float thresholds (strengthening round e)

The code computes the Jaccard similarity as the ROUNDED quotient `fl (i / u)` (a float) and compares it with the
threshold the caller hands in, which is a float too; the theorems above speak of the exact quotient and a rational `s`.
The two lemmas below are the reduction the harness uses (`model_threshold` in `harness/c10.py`) to hand a float
threshold to the model; they hold for ANY monotone rounding `fl` (IEEE round-to-nearest is one; that is TRUSTED[0]):
* a threshold that IS the float of a ratio `q` (`s = 0.2`, `s = 1/3`) accepts exactly the ratios `w ≥ q`, provided the
  rounding keeps the ratios that can occur (`A`: quotients of integers ≤ 12) apart,
* any other float threshold `s` (one ulp above `3/5`, `3 * 0.2`, `0.5 * (1 + 1e-10)`), which is the float of no ratio
  that occurs, accepts exactly the ratios `w ≥ s` with `s` read as the exact dyadic rational.
In both cases no tolerance is involved: a pair whose similarity is below the threshold by one ulp is not joined. -/

/-- threshold = the float of a ratio that can occur -/
theorem C10_threshold_on_rounded_value (fl : Rat → Rat) (mono : ∀ a b, a ≤ b → fl a ≤ fl b)
    (A : Rat → Prop) (inj : ∀ a b, A a → A b → fl a = fl b → a = b) (w q : Rat) (hw : A w) (hq : A q) :
    fl q ≤ fl w ↔ q ≤ w := by
  constructor
  · intro h
    rcases lt_or_ge w q with hlt | hge
    · have h1 : fl w ≤ fl q := mono _ _ (le_of_lt hlt)
      have h2 : fl w = fl q := le_antisymm h1 h
      exact absurd (inj w q hw hq h2) (ne_of_lt hlt)
    · exact hge
  · intro h
    exact mono _ _ h

/-- threshold = a float that is the float of no ratio at hand -/
theorem C10_threshold_off_rounded_values (fl : Rat → Rat) (mono : ∀ a b, a ≤ b → fl a ≤ fl b)
    (s : Rat) (hs : fl s = s) (w : Rat) (hne : fl w ≠ s) :
    s ≤ fl w ↔ s ≤ w := by
  constructor
  · intro h
    rcases lt_or_ge w s with hlt | hge
    · have h1 : fl w ≤ fl s := mono _ _ (le_of_lt hlt)
      rw [hs] at h1
      exact absurd (le_antisymm h1 h) hne
    · exact hge
  · intro h
    have h1 := mono _ _ h
    rwa [hs] at h1

/-- non-vacuity (the hypotheses are satisfiable: the identity is a monotone rounding): the threshold 3/5 + 2^-53, one
ulp above the ratio 3/5, is the rounded value of no ratio at hand and does not accept 3/5 -/
example : ((3 : Rat) / 5 + 1 / 9007199254740992 ≤ id ((3 : Rat) / 5)) ↔ ((3 : Rat) / 5 + 1 / 9007199254740992 ≤ 3 / 5) :=
  C10_threshold_off_rounded_values id (fun _ _ h => h) _ rfl _ (by norm_num)

example : (id ((3 : Rat) / 5) ≤ id ((2 : Rat) / 3)) ↔ ((3 : Rat) / 5 ≤ 2 / 3) :=
  C10_threshold_on_rounded_value id (fun _ _ h => h) (fun _ => True) (fun _ _ _ _ h => h) _ _ trivial trivial

/-! ## Extension round: every threshold, structure of the line graph, the incidence matrix behind the projections -/

/-- **`line_graph` for EVERY threshold** (also `s ≤ 0`, outside the property's quantifier): `i — j` is an edge exactly when
`i ≠ j`, the two hyperedges share a node AND their value is at least `s` - the pair enumeration through the incident
lists never evaluates disjoint hyperedges, so for `s ≤ 0` the result is NOT the complete graph.  For `s > 0` the
"share a node" clause is implied by the value (`C10_line`). -/
theorem C10_line_all_thresholds (nodes : List Nat) (es : List Edge) (d : Dist) (s : Rat) (weighted : Bool)
    (hes : es.Nodup) (hnd : ∀ e ∈ es, e.Nodup) (hmem : ∀ e ∈ es, ∀ n ∈ e, n ∈ nodes) :
    ∃ r, lineGraph nodes es d s weighted = some r ∧
      AL.keys r.g.nodes = List.range es.length ∧
      (∀ i j a, AL.get? r.g.adj (i, j) = some a ↔
        ∃ (hi : i < es.length) (hj : j < es.length), i ≠ j ∧ (∃ n, n ∈ es[i] ∧ n ∈ es[j]) ∧
          s ≤ distV d es[i] es[j] ∧ a = some (if weighted then distV d es[i] es[j] else 1)) := by
  obtain ⟨hA, hC, hB⟩ := incident_table_ok nodes es hes hmem
  exact lineGraphFrom_spec_any es d s weighted _ hes hnd hA hC hB

/-- the same, read by HYPEREDGE instead of by id: for two listed hyperedges `e`, `f` the vertices `edge_to_id[e]`,
`edge_to_id[f]` are joined exactly when `e ≠ f`, they share a node and their value is at least `s`.  The right-hand
side mentions neither the node list nor the order of `get_edges()`. -/
theorem C10_line_by_hyperedge (nodes : List Nat) (es : List Edge) (d : Dist) (s : Rat) (weighted : Bool)
    (hes : es.Nodup) (hnd : ∀ e ∈ es, e.Nodup) (hmem : ∀ e ∈ es, ∀ n ∈ e, n ∈ nodes) :
    ∃ r, lineGraph nodes es d s weighted = some r ∧
      ∀ e ∈ es, ∀ f ∈ es, ∀ a, AL.get? r.g.adj (idOf es e, idOf es f) = some a ↔
        e ≠ f ∧ (∃ n, n ∈ e ∧ n ∈ f) ∧ s ≤ distV d e f ∧ a = some (if weighted then distV d e f else 1) := by
  obtain ⟨r, hr, _, h3⟩ := C10_line_all_thresholds nodes es d s weighted hes hnd hmem
  refine ⟨r, hr, ?_⟩
  intro e he f hf a
  rw [h3]
  constructor
  · rintro ⟨hi, hj, hne, hsh, hle, ha⟩
    rw [getElem_idOf he, getElem_idOf hf] at hsh hle ha
    exact ⟨fun h => hne (by rw [h]), hsh, hle, ha⟩
  · rintro ⟨hne, hsh, hle, ha⟩
    refine ⟨idOf_lt he, idOf_lt hf, fun h => hne (idOf_inj he hf h), ?_, ?_, ?_⟩
    · rw [getElem_idOf he, getElem_idOf hf]; exact hsh
    · rw [getElem_idOf he, getElem_idOf hf]; exact hle
    · rw [getElem_idOf he, getElem_idOf hf]; exact ha

/-- **insertion order does not matter**: two listings of the same hypergraph (hyperedge lists permutations of each other,
ANY two node lists that contain all members) give line graphs that join the same hyperedges with the same weights - only
the vertex numbers `edge_to_id` move with the listing. -/
theorem C10_line_listing_order_invariant (nodes nodes' : List Nat) (es es' : List Edge) (d : Dist) (s : Rat)
    (weighted : Bool) (hp : es.Perm es') (hes : es.Nodup) (hnd : ∀ e ∈ es, e.Nodup)
    (hmem : ∀ e ∈ es, ∀ n ∈ e, n ∈ nodes) (hmem' : ∀ e ∈ es, ∀ n ∈ e, n ∈ nodes') :
    ∃ r r', lineGraph nodes es d s weighted = some r ∧ lineGraph nodes' es' d s weighted = some r' ∧
      ∀ e ∈ es, ∀ f ∈ es, ∀ a,
        AL.get? r'.g.adj (idOf es' e, idOf es' f) = some a ↔ AL.get? r.g.adj (idOf es e, idOf es f) = some a := by
  obtain ⟨r, hr, h⟩ := C10_line_by_hyperedge nodes es d s weighted hes hnd hmem
  obtain ⟨r', hr', h'⟩ := C10_line_by_hyperedge nodes' es' d s weighted (hp.nodup_iff.1 hes)
    (fun e he => hnd e (hp.mem_iff.2 he)) (fun e he => hmem' e (hp.mem_iff.2 he))
  refine ⟨r, r', hr, hr', ?_⟩
  intro e he f hf a
  rw [h e he f hf, h' e (hp.mem_iff.1 he) f (hp.mem_iff.1 hf)]

/-- the line graph is symmetric (same attribute in both directions) and has no loops -/
theorem C10_line_symmetric_loop_free (nodes : List Nat) (es : List Edge) (d : Dist) (s : Rat) (weighted : Bool)
    (hes : es.Nodup) (hnd : ∀ e ∈ es, e.Nodup) (hmem : ∀ e ∈ es, ∀ n ∈ e, n ∈ nodes) :
    ∃ r, lineGraph nodes es d s weighted = some r ∧
      (∀ i j a, AL.get? r.g.adj (i, j) = some a → AL.get? r.g.adj (j, i) = some a) ∧
      (∀ i, AL.get? r.g.adj (i, i) = none) := by
  obtain ⟨r, hr, _, h3⟩ := C10_line_all_thresholds nodes es d s weighted hes hnd hmem
  refine ⟨r, hr, ?_, ?_⟩
  · intro i j a h
    obtain ⟨hi, hj, hne, ⟨n, h1, h2⟩, hle, ha⟩ := (h3 i j a).1 h
    have hc := distV_comm d es[i] es[j] (hnd _ (List.getElem_mem hi)) (hnd _ (List.getElem_mem hj))
    refine (h3 j i a).2 ⟨hj, hi, hne.symm, ⟨n, h2, h1⟩, ?_, ?_⟩
    · rw [← hc]; exact hle
    · rw [← hc]; exact ha
  · intro i
    cases h : AL.get? r.g.adj (i, i) with
    | none => rfl
    | some a => obtain ⟨_, _, hne, _⟩ := (h3 i i a).1 h; exact absurd rfl hne

/-- **monotone in `s`**: raising the threshold only removes edges; the edges that stay keep their attribute -/
theorem C10_line_monotone_in_s (nodes : List Nat) (es : List Edge) (d : Dist) (s s' : Rat) (weighted : Bool)
    (hes : es.Nodup) (hnd : ∀ e ∈ es, e.Nodup) (hmem : ∀ e ∈ es, ∀ n ∈ e, n ∈ nodes) (hss : s ≤ s') :
    ∃ r r', lineGraph nodes es d s weighted = some r ∧ lineGraph nodes es d s' weighted = some r' ∧
      ∀ i j a, AL.get? r'.g.adj (i, j) = some a → AL.get? r.g.adj (i, j) = some a := by
  obtain ⟨r, hr, _, h3⟩ := C10_line_all_thresholds nodes es d s weighted hes hnd hmem
  obtain ⟨r', hr', _, h3'⟩ := C10_line_all_thresholds nodes es d s' weighted hes hnd hmem
  refine ⟨r, r', hr, hr', ?_⟩
  intro i j a h
  obtain ⟨hi, hj, hne, hsh, hle, ha⟩ := (h3' i j a).1 h
  exact (h3 i j a).2 ⟨hi, hj, hne, hsh, le_trans hss hle, ha⟩

/-- `weighted` changes the attribute only: the weighted and the unweighted line graph have the same edges -/
theorem C10_line_weighted_same_edges (nodes : List Nat) (es : List Edge) (d : Dist) (s : Rat)
    (hes : es.Nodup) (hnd : ∀ e ∈ es, e.Nodup) (hmem : ∀ e ∈ es, ∀ n ∈ e, n ∈ nodes) :
    ∃ r r', lineGraph nodes es d s false = some r ∧ lineGraph nodes es d s true = some r' ∧
      ∀ i j, (∃ a, AL.get? r'.g.adj (i, j) = some a) ↔ AL.get? r.g.adj (i, j) = some (some 1) := by
  obtain ⟨r, hr, _, h3⟩ := C10_line_all_thresholds nodes es d s false hes hnd hmem
  obtain ⟨r', hr', _, h3'⟩ := C10_line_all_thresholds nodes es d s true hes hnd hmem
  refine ⟨r, r', hr, hr', ?_⟩
  intro i j
  constructor
  · rintro ⟨a, h⟩
    obtain ⟨hi, hj, hne, hsh, hle, _⟩ := (h3' i j a).1 h
    exact (h3 i j _).2 ⟨hi, hj, hne, hsh, hle, by simp⟩
  · intro h
    obtain ⟨hi, hj, hne, hsh, hle, _⟩ := (h3 i j _).1 h
    exact ⟨_, (h3' i j _).2 ⟨hi, hj, hne, hsh, hle, rfl⟩⟩

/-- **`s = 1` with the intersection distance is the intersection graph** (and so is every `s ≤ 1`): `i — j` exactly when
the hyperedges `i ≠ j` share a node -/
theorem C10_line_intersection_graph (nodes : List Nat) (es : List Edge) (s : Rat) (weighted : Bool)
    (hes : es.Nodup) (hnd : ∀ e ∈ es, e.Nodup) (hmem : ∀ e ∈ es, ∀ n ∈ e, n ∈ nodes) (hs : s ≤ 1) :
    ∃ r, lineGraph nodes es .intersection s weighted = some r ∧
      ∀ i j, (∃ a, AL.get? r.g.adj (i, j) = some a) ↔
        ∃ (hi : i < es.length) (hj : j < es.length), i ≠ j ∧ ∃ n, n ∈ es[i] ∧ n ∈ es[j] := by
  obtain ⟨r, hr, _, h3⟩ := C10_line_all_thresholds nodes es .intersection s weighted hes hnd hmem
  refine ⟨r, hr, ?_⟩
  intro i j
  constructor
  · rintro ⟨a, h⟩
    obtain ⟨hi, hj, hne, hsh, _, _⟩ := (h3 i j a).1 h
    exact ⟨hi, hj, hne, hsh⟩
  · rintro ⟨hi, hj, hne, hsh⟩
    refine ⟨_, (h3 i j _).2 ⟨hi, hj, hne, hsh, ?_, rfl⟩⟩
    have hpos : 0 < interSize es[i] es[j] := (interSize_pos_iff _ _).2 hsh
    have : (1 : Rat) ≤ (interSize es[i] es[j] : Rat) := by exact_mod_cast hpos
    exact le_trans hs this

/-- **a threshold `s ≤ 0`** (outside the quantifier) does not give the complete graph: still only hyperedges that share a
node are joined, whatever the distance -/
theorem C10_line_nonpositive_threshold (nodes : List Nat) (es : List Edge) (d : Dist) (s : Rat) (weighted : Bool)
    (hes : es.Nodup) (hnd : ∀ e ∈ es, e.Nodup) (hmem : ∀ e ∈ es, ∀ n ∈ e, n ∈ nodes) (hs : s ≤ 0) :
    ∃ r, lineGraph nodes es d s weighted = some r ∧
      ∀ i j, (∃ a, AL.get? r.g.adj (i, j) = some a) ↔
        ∃ (hi : i < es.length) (hj : j < es.length), i ≠ j ∧ ∃ n, n ∈ es[i] ∧ n ∈ es[j] := by
  obtain ⟨r, hr, _, h3⟩ := C10_line_all_thresholds nodes es d s weighted hes hnd hmem
  refine ⟨r, hr, ?_⟩
  intro i j
  constructor
  · rintro ⟨a, h⟩
    obtain ⟨hi, hj, hne, hsh, _, _⟩ := (h3 i j a).1 h
    exact ⟨hi, hj, hne, hsh⟩
  · rintro ⟨hi, hj, hne, hsh⟩
    refine ⟨_, (h3 i j _).2 ⟨hi, hj, hne, hsh, le_trans hs ?_, rfl⟩⟩
    cases d with
    | intersection => simp [distV]
    | jaccard => simp only [distV]; exact div_nonneg (Nat.cast_nonneg _) (Nat.cast_nonneg _)

/-- **relabelling**: renaming the nodes by an injective map changes nothing in the line graph (same vertices, same
edges, same weights): the routine sees the nodes only through membership -/
theorem C10_line_relabel (f : Nat → Nat) (hf : Function.Injective f) (nodes : List Nat) (es : List Edge) (d : Dist)
    (s : Rat) (weighted : Bool) (hes : es.Nodup) (hnd : ∀ e ∈ es, e.Nodup) (hmem : ∀ e ∈ es, ∀ n ∈ e, n ∈ nodes) :
    ∃ r r', lineGraph nodes es d s weighted = some r ∧
      lineGraph (nodes.map f) (es.map (List.map f)) d s weighted = some r' ∧
      AL.keys r'.g.nodes = AL.keys r.g.nodes ∧
      ∀ i j a, AL.get? r'.g.adj (i, j) = some a ↔ AL.get? r.g.adj (i, j) = some a := by
  obtain ⟨r, hr, hk, h3⟩ := C10_line_all_thresholds nodes es d s weighted hes hnd hmem
  have hinj : Function.Injective (List.map f) := List.map_injective_iff.2 hf
  obtain ⟨r', hr', hk', h3'⟩ := C10_line_all_thresholds (nodes.map f) (es.map (List.map f)) d s weighted
    (hes.map hinj)
    (by intro e he; obtain ⟨e0, he0, rfl⟩ := List.mem_map.1 he; exact (hnd e0 he0).map hf)
    (by intro e he n hn; obtain ⟨e0, he0, rfl⟩ := List.mem_map.1 he
        obtain ⟨n0, hn0, rfl⟩ := List.mem_map.1 hn; exact List.mem_map.2 ⟨n0, hmem e0 he0 n0 hn0, rfl⟩)
  refine ⟨r, r', hr, hr', by rw [hk, hk', List.length_map], ?_⟩
  have hsh : ∀ a b : List Nat, (∃ n, n ∈ a.map f ∧ n ∈ b.map f) ↔ ∃ n, n ∈ a ∧ n ∈ b := by
    intro a b
    constructor
    · rintro ⟨n, h1, h2⟩
      obtain ⟨x, hx, rfl⟩ := List.mem_map.1 h1
      obtain ⟨y, hy, he⟩ := List.mem_map.1 h2
      exact ⟨x, hx, hf he ▸ hy⟩
    · rintro ⟨n, h1, h2⟩; exact ⟨f n, List.mem_map.2 ⟨n, h1, rfl⟩, List.mem_map.2 ⟨n, h2, rfl⟩⟩
  intro i j a
  rw [h3, h3']
  constructor
  · rintro ⟨hi, hj, hne, hs1, hle, ha⟩
    have hi' : i < es.length := by simpa using hi
    have hj' : j < es.length := by simpa using hj
    simp only [List.getElem_map, distV_map hf, hsh] at hs1 hle ha
    exact ⟨hi', hj', hne, hs1, hle, ha⟩
  · rintro ⟨hi, hj, hne, hs1, hle, ha⟩
    refine ⟨by simpa using hi, by simpa using hj, hne, ?_, ?_, ?_⟩
    · simp only [List.getElem_map, hsh]; exact hs1
    · simp only [List.getElem_map, distV_map hf]; exact hle
    · simp only [List.getElem_map, distV_map hf]; exact ha

/-! ### the incidence matrix `B` behind the projections: `B·Bᵀ` and `Bᵀ·B` -/

/-- entries of the two Gram matrices of the binary incidence matrix of the listing: `(B·Bᵀ)[u][v]` is the number of
hyperedges that contain both `u` and `v` (diagonal: the degree of `u`, the length of `get_incident_edges(u)`);
`(Bᵀ·B)[a][b]` is `|a ∩ b|` (diagonal: the size of `a`). -/
theorem C10_gram_matrices (nodes : List Nat) (es : List Edge) (hn : nodes.Nodup) (hnd : ∀ e ∈ es, e.Nodup)
    (hmem : ∀ e ∈ es, ∀ n ∈ e, n ∈ nodes) :
    nodeGram nodes es = nodes.map (fun u => nodes.map (fun v => es.countP (fun e => e.contains u && e.contains v))) ∧
    (∀ u, cooc es u u = (incident es u).length) ∧
    edgeGram nodes es = es.map (fun a => es.map (fun b => interSize a b)) ∧
    (∀ e ∈ es, overlap nodes e e = e.length) := by
  refine ⟨?_, ?_, ?_, ?_⟩
  · unfold nodeGram
    apply List.map_congr_left; intro u _
    apply List.map_congr_left; intro v _
    exact cooc_eq es u v
  · intro u
    rw [cooc_eq]; unfold incident
    rw [List.countP_eq_length_filter]
    congr 1; apply List.filter_congr; intro e _; simp
  · unfold edgeGram
    apply List.map_congr_left; intro a ha
    apply List.map_congr_left; intro b _
    exact overlap_eq nodes a b hn (hnd a ha) (hmem a ha)
  · intro e he
    rw [overlap_eq nodes e e hn (hnd e he) (hmem e he), interSize_self]

/-- **the clique projection is the off-diagonal support of `B·Bᵀ`**: `u — v` exactly when `u ≠ v` and the number of
hyperedges containing both is positive -/
theorem C10_clique_is_gram_support (keepIso : Bool) (nodes : List Nat) (es : List Edge) (hnd : ∀ e ∈ es, e.Nodup)
    (u v : Nat) (a : Option Rat) :
    AL.get? (clique keepIso nodes es).adj (u, v) = some a ↔ a = none ∧ u ≠ v ∧ 0 < cooc es u v := by
  rw [(C10_clique keepIso nodes es hnd).1, cooc_pos_iff]

/-- **the line graph (intersection distance) is `Bᵀ·B` thresholded at `s`**, off the diagonal; the weight is the entry -/
theorem C10_line_is_gram_threshold (nodes : List Nat) (es : List Edge) (s : Rat) (weighted : Bool)
    (hn : nodes.Nodup) (hes : es.Nodup) (hnd : ∀ e ∈ es, e.Nodup) (hmem : ∀ e ∈ es, ∀ n ∈ e, n ∈ nodes) (hs : 0 < s) :
    ∃ r, lineGraph nodes es .intersection s weighted = some r ∧
      ∀ i j a, AL.get? r.g.adj (i, j) = some a ↔
        ∃ (hi : i < es.length) (hj : j < es.length), i ≠ j ∧ s ≤ (overlap nodes es[i] es[j] : Rat) ∧
          a = some (if weighted then (overlap nodes es[i] es[j] : Rat) else 1) := by
  obtain ⟨r, hr, _, h3, _⟩ := C10_line nodes es .intersection s weighted hes hnd hmem hs
  refine ⟨r, hr, ?_⟩
  intro i j a
  rw [h3]
  have key : ∀ (hi : i < es.length) (hj : j < es.length),
      distV .intersection es[i] es[j] = (overlap nodes es[i] es[j] : Rat) := by
    intro hi hj
    rw [overlap_eq nodes _ _ hn (hnd _ (List.getElem_mem hi)) (hmem _ (List.getElem_mem hi))]; rfl
  constructor
  · rintro ⟨hi, hj, hne, hle, ha⟩
    rw [key hi hj] at hle ha; exact ⟨hi, hj, hne, hle, ha⟩
  · rintro ⟨hi, hj, hne, hle, ha⟩
    rw [← key hi hj] at hle ha; exact ⟨hi, hj, hne, hle, ha⟩

/-! ### clique projection: structure, invariances, relation to the other projections -/

/-- the clique projection is symmetric and loop-free -/
theorem C10_clique_symmetric_loop_free (keepIso : Bool) (nodes : List Nat) (es : List Edge) (hnd : ∀ e ∈ es, e.Nodup) :
    (∀ u v a, AL.get? (clique keepIso nodes es).adj (u, v) = some a →
      AL.get? (clique keepIso nodes es).adj (v, u) = some a) ∧
    (∀ u, AL.get? (clique keepIso nodes es).adj (u, u) = none) := by
  have h := (C10_clique keepIso nodes es hnd).1
  constructor
  · intro u v a hu
    obtain ⟨ha, hne, e, he, h1, h2⟩ := (h u v a).1 hu
    exact (h v u a).2 ⟨ha, hne.symm, e, he, h2, h1⟩
  · intro u
    cases hu : AL.get? (clique keepIso nodes es).adj (u, u) with
    | none => rfl
    | some a => obtain ⟨_, hne, _⟩ := (h u u a).1 hu; exact absurd rfl hne

/-- **insertion order does not matter**: listings of the same hypergraph (node lists and hyperedge lists permutations of
each other) give clique projections with the same edges and the same vertex set -/
theorem C10_clique_listing_order_invariant (keepIso : Bool) (nodes nodes' : List Nat) (es es' : List Edge)
    (hn : nodes.Perm nodes') (hp : es.Perm es') (hnd : ∀ e ∈ es, e.Nodup) :
    (∀ u v a, AL.get? (clique keepIso nodes' es').adj (u, v) = some a ↔
      AL.get? (clique keepIso nodes es).adj (u, v) = some a) ∧
    (∀ x, x ∈ AL.keys (clique keepIso nodes' es').nodes ↔ x ∈ AL.keys (clique keepIso nodes es).nodes) := by
  obtain ⟨h1, h2, _⟩ := C10_clique keepIso nodes es hnd
  obtain ⟨h1', h2', _⟩ := C10_clique keepIso nodes' es' (fun e he => hnd e (hp.mem_iff.2 he))
  constructor
  · intro u v a
    rw [h1, h1']
    simp only [hp.mem_iff]
  · intro x
    rw [h2, h2']
    simp only [hp.mem_iff, hn.mem_iff]

/-- **relabelling**: renaming the nodes by an injective map renames the clique projection: `f u — f v` exactly when
`u — v`, and `f x` is a vertex exactly when `x` is -/
theorem C10_clique_relabel (f : Nat → Nat) (hf : Function.Injective f) (keepIso : Bool) (nodes : List Nat)
    (es : List Edge) (hnd : ∀ e ∈ es, e.Nodup) :
    (∀ u v a, AL.get? (clique keepIso (nodes.map f) (es.map (List.map f))).adj (f u, f v) = some a ↔
      AL.get? (clique keepIso nodes es).adj (u, v) = some a) ∧
    (∀ x, f x ∈ AL.keys (clique keepIso (nodes.map f) (es.map (List.map f))).nodes ↔
      x ∈ AL.keys (clique keepIso nodes es).nodes) := by
  obtain ⟨h1, h2, _⟩ := C10_clique keepIso nodes es hnd
  obtain ⟨h1', h2', _⟩ := C10_clique keepIso (nodes.map f) (es.map (List.map f))
    (by intro e he; obtain ⟨e0, he0, rfl⟩ := List.mem_map.1 he; exact (hnd e0 he0).map hf)
  have hm : ∀ (e : Edge) x, f x ∈ e.map f ↔ x ∈ e := by
    intro e x
    constructor
    · intro h; obtain ⟨y, hy, he⟩ := List.mem_map.1 h; exact hf he ▸ hy
    · intro h; exact List.mem_map.2 ⟨x, h, rfl⟩
  constructor
  · intro u v a
    rw [h1, h1']
    simp only [List.mem_map, exists_exists_and_eq_and, hm, ne_eq, hf.eq_iff]
  · intro x
    rw [h2, h2']
    simp only [List.mem_map, exists_exists_and_eq_and, hm, ne_eq, hf.eq_iff]

/-- **clique projection = two-step walks of the bipartite projection**: `u — v` exactly when `u ≠ v` and the vertices
`N_p`, `N_q` of the two nodes have a common hyperedge vertex `E_j` in the bipartite graph -/
theorem C10_clique_via_bipartite (keepIso : Bool) (nodes : List Nat) (es : List Edge) (hn : nodes.Nodup)
    (hnd : ∀ e ∈ es, e.Nodup) (hmem : ∀ e ∈ es, ∀ x ∈ e, x ∈ nodes) (u v : Nat) (a : Option Rat) :
    AL.get? (clique keepIso nodes es).adj (u, v) = some a ↔
      a = none ∧ u ≠ v ∧ ∃ p q j, nodes[p]? = some u ∧ nodes[q]? = some v ∧
        AL.get? (bipartite nodes es).g.adj (.N p, .E j) = some none ∧
        AL.get? (bipartite nodes es).g.adj (.N q, .E j) = some none := by
  rw [(C10_clique keepIso nodes es hnd).1]
  have hb := (C10_bipartite nodes es hn hmem).2.2.2.1
  constructor
  · rintro ⟨ha, hne, e, he, hu, hv⟩
    obtain ⟨p, hp⟩ := List.getElem?_of_mem (hmem e he u hu)
    obtain ⟨q, hq⟩ := List.getElem?_of_mem (hmem e he v hv)
    obtain ⟨j, hj⟩ := List.getElem?_of_mem he
    exact ⟨ha, hne, p, q, j, hp, hq, (hb p j none).2 ⟨rfl, u, e, hp, hj, hu⟩, (hb q j none).2 ⟨rfl, v, e, hq, hj, hv⟩⟩
  · rintro ⟨ha, hne, p, q, j, hp, hq, h1, h2⟩
    obtain ⟨_, x, e, hx, he, hxe⟩ := (hb p j none).1 h1
    obtain ⟨_, y, e', hy, he', hye⟩ := (hb q j none).1 h2
    rw [hp] at hx; rw [hq] at hy; rw [he] at he'
    cases hx; cases hy; cases he'
    exact ⟨ha, hne, e, List.mem_of_getElem? he, hxe, hye⟩

/-- **line graph (intersection) = common neighbours in the bipartite projection**: the value of two hyperedges is the
number of node vertices `N_p` joined to both `E_i` and `E_j` -/
theorem C10_line_value_via_bipartite (nodes : List Nat) (es : List Edge) (hn : nodes.Nodup)
    (hnd : ∀ e ∈ es, e.Nodup) (hmem : ∀ e ∈ es, ∀ x ∈ e, x ∈ nodes) (i j : Nat) (hi : i < es.length) (hj : j < es.length) :
    interSize es[i] es[j] = (List.range nodes.length).countP (fun p =>
      (bipartite nodes es).g.hasEdge (.E i) (.N p) && (bipartite nodes es).g.hasEdge (.E j) (.N p)) := by
  have hI := bip_loop2 nodes hn es hmem
  rw [← overlap_eq nodes _ _ hn (hnd _ (List.getElem_mem hi)) (hmem _ (List.getElem_mem hi)), overlap_eq_countP]
  symm
  apply countP_range_getElem
  intro p x hx
  have key : ∀ k (hk : k < es.length), (bipartite nodes es).g.hasEdge (.E k) (.N p) = es[k].contains x := by
    intro k hk
    rw [Bool.eq_iff_iff, bip_hasEdge_EN hI, List.contains_iff_mem]
    constructor
    · rintro ⟨x', e, h1, h2, h3⟩
      rw [hx] at h1; cases h1
      rw [List.getElem?_eq_getElem hk] at h2; cases h2; exact h3
    · intro h; exact ⟨x, es[k], hx, List.getElem?_eq_getElem hk, h⟩
  rw [key i hi, key j hj]

/-- **the clique projection of the simplicial complex is the clique projection of the hypergraph**: the downward closure
adds no new pair of co-occurring nodes -/
theorem C10_clique_of_simplicial (keepIso : Bool) (nodes : List Nat) (es : List Edge)
    (hsorted : ∀ e ∈ es, e.Pairwise (· < ·)) (u v : Nat) (a : Option Rat) :
    AL.get? (clique keepIso nodes (simplicial es)).adj (u, v) = some a ↔
      AL.get? (clique keepIso nodes es).adj (u, v) = some a := by
  have nd : ∀ (l : List Nat), l.Pairwise (· < ·) → l.Nodup := fun l h => h.imp (fun h => Nat.ne_of_lt h)
  have hS := (C10_simplicial es hsorted).1
  rw [(C10_clique keepIso nodes es (fun e he => nd e (hsorted e he))).1,
    (C10_clique keepIso nodes (simplicial es) (fun k hk => nd k ((hS k).1 hk).1)).1]
  constructor
  · rintro ⟨ha, hne, k, hk, hu, hv⟩
    obtain ⟨_, e, he, hsub⟩ := (hS k).1 hk
    exact ⟨ha, hne, e, he, hsub u hu, hsub v hv⟩
  · rintro ⟨ha, hne, e, he, hu, hv⟩
    exact ⟨ha, hne, e, C10_simplicial_contains_edges es hsorted e he, hu, hv⟩

/-! ### bipartite projection: degrees -/

/-- **degree identities**: in the bipartite projection the vertex `N_i` of a node has as many neighbours as the node has
incident hyperedges (`len(h.get_incident_edges(node))`, the node's degree), the vertex `E_j` of a hyperedge has as many
neighbours as the hyperedge has members (its size).  `degreeOf` is networkx's `g.degree(v)` on the (loop-free) graph.
Hypotheses: node list duplicate-free, members are nodes, hyperedges duplicate-free. -/
theorem C10_bipartite_degrees (nodes : List Nat) (es : List Edge) (hn : nodes.Nodup)
    (hmem : ∀ e ∈ es, ∀ x ∈ e, x ∈ nodes) (hnd : ∀ e ∈ es, e.Nodup) :
    (∀ i x, nodes[i]? = some x → (bipartite nodes es).g.degreeOf (.N i) = (incident es x).length) ∧
    (∀ j e, es[j]? = some e → (bipartite nodes es).g.degreeOf (.E j) = e.length) ∧
    (∀ i x, nodes[i]? = some x → (bipartite nodes es).g.degreeOf (.N i) = cooc es x x) ∧
    (∀ j e, es[j]? = some e → (bipartite nodes es).g.degreeOf (.E j) = overlap nodes e e) := by
  refine ⟨fun i x hx => bip_degree_N nodes es hn hmem i x hx, fun j e he => bip_degree_E nodes es hn hmem hnd j e he,
    ?_, ?_⟩
  · intro i x hx
    rw [bip_degree_N nodes es hn hmem i x hx, (C10_gram_matrices nodes es hn hnd hmem).2.1]
  · intro j e he
    rw [bip_degree_E nodes es hn hmem hnd j e he,
      (C10_gram_matrices nodes es hn hnd hmem).2.2.2 e (List.mem_of_getElem? he)]

/-! ### directed line graph: structure -/

/-- no loops; raising `s` only removes arcs (the arcs that stay keep their attribute) -/
theorem C10_directed_line_loop_free_monotone (es : List DEdge) (d : Dist) (s s' : Rat) (weighted : Bool) (hes : es.Nodup)
    (hne : d = .jaccard → ∀ e ∈ es, ∀ f ∈ es, e ≠ f → e.2 ≠ [] ∨ f.1 ≠ []) (hss : s ≤ s') :
    ∃ g g', directedLineGraph es d s weighted = some g ∧ directedLineGraph es d s' weighted = some g' ∧
      (∀ i, AL.get? g.adj (i, i) = none) ∧
      (∀ i j a, AL.get? g'.adj (i, j) = some a → AL.get? g.adj (i, j) = some a) := by
  obtain ⟨g, hg, _, h3⟩ := C10_directed_line es d s weighted hes hne
  obtain ⟨g', hg', _, h3'⟩ := C10_directed_line es d s' weighted hes hne
  refine ⟨g, g', hg, hg', ?_, ?_⟩
  · intro i
    cases h : AL.get? g.adj (i, i) with
    | none => rfl
    | some a => obtain ⟨_, _, hn, _⟩ := (h3 i i a).1 h; exact absurd rfl hn
  · intro i j a h
    obtain ⟨hi, hj, hn, hle, ha⟩ := (h3' i j a).1 h
    exact (h3 i j a).2 ⟨hi, hj, hn, le_trans hss hle, ha⟩

/-- **reversing every hyperedge transposes the directed line graph**: with sources and targets swapped there is an arc
`i → j` exactly when the original has `j → i`, with the same attribute (sides duplicate-free) -/
theorem C10_directed_line_reverse (es : List DEdge) (d : Dist) (s : Rat) (weighted : Bool) (hes : es.Nodup)
    (hside : ∀ e ∈ es, e.1.Nodup ∧ e.2.Nodup)
    (hne : d = .jaccard → ∀ e ∈ es, ∀ f ∈ es, e ≠ f → (e.2 ≠ [] ∨ f.1 ≠ []) ∧ (e.1 ≠ [] ∨ f.2 ≠ [])) :
    ∃ g g', directedLineGraph es d s weighted = some g ∧
      directedLineGraph (es.map Prod.swap) d s weighted = some g' ∧
      ∀ i j a, AL.get? g'.adj (i, j) = some a ↔ AL.get? g.adj (j, i) = some a := by
  obtain ⟨g, hg, _, h3⟩ := C10_directed_line es d s weighted hes (fun hd e he f hf hn => (hne hd e he f hf hn).1)
  have hsw : Function.Injective (Prod.swap : DEdge → DEdge) := Prod.swap_injective
  obtain ⟨g', hg', _, h3'⟩ := C10_directed_line (es.map Prod.swap) d s weighted (hes.map hsw) (by
    intro hd e he f hf hn
    obtain ⟨e0, he0, rfl⟩ := List.mem_map.1 he
    obtain ⟨f0, hf0, rfl⟩ := List.mem_map.1 hf
    have := (hne hd e0 he0 f0 hf0 (fun h => hn (by rw [h]))).2
    simpa using this)
  refine ⟨g, g', hg, hg', ?_⟩
  intro i j a
  rw [h3, h3']
  have key : ∀ (hi : i < es.length) (hj : j < es.length),
      distV d es[i].1 es[j].2 = distV d es[j].2 es[i].1 := fun hi hj =>
    distV_comm d _ _ (hside _ (List.getElem_mem hi)).1 (hside _ (List.getElem_mem hj)).2
  constructor
  · rintro ⟨hi, hj, hn, hle, ha⟩
    have hi' : i < es.length := by simpa using hi
    have hj' : j < es.length := by simpa using hj
    simp only [List.getElem_map, Prod.snd_swap, Prod.fst_swap, key hi' hj'] at hle ha
    exact ⟨hj', hi', hn.symm, hle, ha⟩
  · rintro ⟨hj, hi, hn, hle, ha⟩
    refine ⟨by simpa using hi, by simpa using hj, hn.symm, ?_, ?_⟩
    · simp only [List.getElem_map, Prod.snd_swap, Prod.fst_swap, key hi hj]; exact hle
    · simp only [List.getElem_map, Prod.snd_swap, Prod.fst_swap, key hi hj]; exact ha

/-! ### `distance` is neither `"intersection"` nor `"jaccard"` -/

/-- With an unknown `distance` string the local `_distance` returns `None` and `None >= s` raises `TypeError` - but only
when a pair is evaluated: `line_graph` raises exactly when two distinct hyperedges share a node, and otherwise returns
the edgeless graph on `0..m-1`. -/
theorem C10_line_unknown_distance (nodes : List Nat) (es : List Edge) (hes : es.Nodup)
    (hmem : ∀ e ∈ es, ∀ n ∈ e, n ∈ nodes) :
    (lineGraphUnknown nodes es = none ↔ ∃ e ∈ es, ∃ f ∈ es, e ≠ f ∧ ∃ n, n ∈ e ∧ n ∈ f) ∧
    (∀ r, lineGraphUnknown nodes es = some r →
      AL.keys r.g.nodes = List.range es.length ∧ r.g.adj = [] ∧ r.vis = []) := by
  obtain ⟨hA, hC, hB⟩ := incident_table_ok nodes es hes hmem
  unfold lineGraphUnknown
  rw [lineGraphUnknownFrom_eq]
  constructor
  · constructor
    · intro h
      split at h
      · cases h
      · rename_i hne
        obtain ⟨⟨e, f⟩, hp⟩ := List.exists_mem_of_ne_nil _ hne
        obtain ⟨l, hl, hpl⟩ := List.mem_flatMap.1 hp
        have hm := mem_pairsOf_mem hpl
        exact ⟨e, (hA l hl).2 e hm.1, f, (hA l hl).2 f hm.2, mem_pairsOf_ne (hA l hl).1 hpl, hC l hl e hm.1 f hm.2⟩
    · rintro ⟨e, he, f, hf, hne, hsh⟩
      obtain ⟨l, hl, h1, h2⟩ := hB e he f hf hsh
      have hex : ∃ p, p ∈ (nodes.map (incident es)).flatMap pairsOf := by
        rcases mem_pairsOf_of_mem h1 h2 hne with h | h
        · exact ⟨_, List.mem_flatMap.2 ⟨l, hl, h⟩⟩
        · exact ⟨_, List.mem_flatMap.2 ⟨l, hl, h⟩⟩
      obtain ⟨p, hp⟩ := hex
      rw [if_neg (List.ne_nil_of_mem hp)]
  · intro r h
    split at h
    · cases h
      exact ⟨keys_emptyOn _, adj_emptyOn _, rfl⟩
    · cases h

/-- `directed_line_graph` with an unknown `distance` raises exactly when there are two distinct hyperedges; otherwise it
returns the arcless digraph on `0..m-1` -/
theorem C10_directed_line_unknown_distance (es : List DEdge) :
    (directedLineGraphUnknown es = none ↔ ∃ e ∈ es, ∃ f ∈ es, e ≠ f) ∧
    (∀ g, directedLineGraphUnknown es = some g → AL.keys g.nodes = List.range es.length ∧ g.adj = []) := by
  unfold directedLineGraphUnknown
  rw [dlg_unknown_fold]
  constructor
  · constructor
    · intro h
      split at h
      · cases h
      · rename_i hn
        apply Classical.byContradiction
        intro hc
        apply hn
        intro p hp
        have hm := mem_allOrdered.1 hp
        apply Classical.byContradiction
        intro hpne
        exact hc ⟨p.1, hm.1, p.2, hm.2, hpne⟩
    · rintro ⟨e, he, f, hf, hne⟩
      rw [if_neg]
      intro hall
      exact hne (hall (e, f) (mem_allOrdered.2 ⟨he, hf⟩))
  · intro g h
    split at h
    · cases h
      exact ⟨keys_emptyOn _, adj_emptyOn _⟩
    · cases h

/-! ### simplicial complex: closure operator -/

/-- the downward closure is a closure operator on listings: **idempotent** (closing the complex again adds nothing),
**monotone** (more hyperedges, larger complex) and **independent of the order** of `get_edges()` -/
theorem C10_simplicial_closure (es es' : List Edge) (hsorted : ∀ e ∈ es, e.Pairwise (· < ·))
    (hsorted' : ∀ e ∈ es', e.Pairwise (· < ·)) :
    (∀ k, k ∈ simplicial (simplicial es) ↔ k ∈ simplicial es) ∧
    ((∀ e ∈ es, e ∈ es') → ∀ k, k ∈ simplicial es → k ∈ simplicial es') ∧
    (es.Perm es' → ∀ k, k ∈ simplicial es' ↔ k ∈ simplicial es) := by
  have hS := (C10_simplicial es hsorted).1
  have hS' := (C10_simplicial es' hsorted').1
  refine ⟨?_, ?_, ?_⟩
  · have hSS := (C10_simplicial (simplicial es) (fun k hk => ((hS k).1 hk).1)).1
    intro k
    rw [hSS, hS]
    constructor
    · rintro ⟨hk, m, hm, hsub⟩
      obtain ⟨_, e, he, hme⟩ := (hS m).1 hm
      exact ⟨hk, e, he, fun x hx => hme x (hsub x hx)⟩
    · rintro ⟨hk, e, he, hsub⟩
      exact ⟨hk, e, C10_simplicial_contains_edges es hsorted e he, hsub⟩
  · intro hsub k hk
    obtain ⟨hp, e, he, hke⟩ := (hS k).1 hk
    exact (hS' k).2 ⟨hp, e, hsub e he, hke⟩
  · intro hp k
    rw [hS, hS']
    simp only [hp.mem_iff]

/-- **relabelling by an order-preserving map** (any renaming that keeps the sorted tuples sorted): the complex of the
renamed hypergraph is the renamed complex -/
theorem C10_simplicial_relabel (f : Nat → Nat) (hf : ∀ a b, a < b → f a < f b) (es : List Edge)
    (hsorted : ∀ e ∈ es, e.Pairwise (· < ·)) (k : Edge) :
    k ∈ simplicial (es.map (List.map f)) ↔ ∃ k0 ∈ simplicial es, k = k0.map f := by
  have hinj : Function.Injective f := by
    intro a b h
    rcases Nat.lt_trichotomy a b with hlt | heq | hgt
    · exact absurd h (Nat.ne_of_lt (hf a b hlt))
    · exact heq
    · exact absurd h.symm (Nat.ne_of_lt (hf b a hgt))
  have hmapS : ∀ l : List Nat, l.Pairwise (· < ·) → (l.map f).Pairwise (· < ·) := by
    intro l hl; rw [List.pairwise_map]; exact hl.imp (fun h => hf _ _ h)
  have hS := (C10_simplicial es hsorted).1
  have hS' := (C10_simplicial (es.map (List.map f))
    (by intro e he; obtain ⟨e0, he0, rfl⟩ := List.mem_map.1 he; exact hmapS e0 (hsorted e0 he0))).1
  rw [hS']
  constructor
  · rintro ⟨hk, e, he, hsub⟩
    obtain ⟨e0, he0, rfl⟩ := List.mem_map.1 he
    -- pull `k` back along `f`: every member has a preimage in `e0`
    have hpre : ∀ x ∈ k, ∃ y ∈ e0, f y = x := fun x hx => by
      obtain ⟨y, hy, h⟩ := List.mem_map.1 (hsub x hx); exact ⟨y, hy, h⟩
    have hex : ∃ k0 : List Nat, k = k0.map f ∧ ∀ y ∈ k0, y ∈ e0 := by
      clear hsub hk
      induction k with
      | nil => exact ⟨[], rfl, by simp⟩
      | cons x t ih =>
        obtain ⟨y, hy, hxy⟩ := hpre x (by simp)
        obtain ⟨t0, ht0, hm⟩ := ih (fun z hz => hpre z (by simp [hz]))
        exact ⟨y :: t0, by simp [hxy, ht0], by
          intro z hz; rcases List.mem_cons.1 hz with rfl | hz
          · exact hy
          · exact hm z hz⟩
    obtain ⟨k0, rfl, hm⟩ := hex
    refine ⟨k0, (hS k0).2 ⟨?_, e0, he0, hm⟩, rfl⟩
    rw [List.pairwise_map] at hk
    exact hk.imp (fun {a b} h => by
      rcases Nat.lt_trichotomy a b with hlt | heq | hgt
      · exact hlt
      · subst heq; exact absurd h (Nat.lt_irrefl _)
      · exact absurd (Nat.lt_trans h (hf b a hgt)) (Nat.lt_irrefl _))
  · rintro ⟨k0, hk0, rfl⟩
    obtain ⟨hp, e, he, hsub⟩ := (hS k0).1 hk0
    refine ⟨hmapS k0 hp, e.map f, List.mem_map.2 ⟨e, he, rfl⟩, ?_⟩
    intro x hx
    obtain ⟨y, hy, rfl⟩ := List.mem_map.1 hx
    exact List.mem_map.2 ⟨y, hsub y hy, rfl⟩

/-! ### handshake in the bipartite projection -/

/-- **handshake**: the degrees of the node vertices and the degrees of the hyperedge vertices of the bipartite projection
both add up to the number of incidences `Σ |e|` (= the number of edges of the bipartite graph) -/
theorem C10_bipartite_handshake (nodes : List Nat) (es : List Edge) (hn : nodes.Nodup)
    (hmem : ∀ e ∈ es, ∀ x ∈ e, x ∈ nodes) (hnd : ∀ e ∈ es, e.Nodup) :
    ((List.range nodes.length).map (fun i => (bipartite nodes es).g.degreeOf (.N i))).sum = (es.map List.length).sum ∧
    ((List.range es.length).map (fun j => (bipartite nodes es).g.degreeOf (.E j))).sum = (es.map List.length).sum := by
  obtain ⟨hN, hE, _, _⟩ := C10_bipartite_degrees nodes es hn hmem hnd
  constructor
  · rw [sum_range_getElem nodes _ (fun x => (incident es x).length) hN]
    have h1 : nodes.map (fun x => (incident es x).length) = nodes.map (fun x => es.countP (fun e => e.contains x)) := by
      apply List.map_congr_left; intro x _; unfold incident; rw [List.countP_eq_length_filter]
    rw [h1, sum_countP_swap nodes es (fun x e => e.contains x)]
    congr 1
    apply List.map_congr_left
    intro e he
    exact countP_mem_of_subset nodes e hn (hnd e he) (hmem e he)
  · exact sum_range_getElem es _ List.length hE

/-! ### the new statements for objects reached through ANY history (links to C01, as above) -/

/-- **`line_graph` of any reachable object, every threshold** (also `thr ≤ 0`): `x — y` exactly when `x ≠ y`, the two keys
of the abstract content share a node and their value is at least `thr`; the graph is symmetric, loop-free, and (intersection
distance) it is `Bᵀ·B` of the content thresholded at `thr`. -/
theorem C10_link_line_all_thresholds (k : Nat) (cs : List C01.Cmd) (hwf : ∀ c ∈ cs, c.WF) (i : Nat) (s : C01.Store)
    (a : C01.Spec) (hs : (C01.run (C01.init k) cs)[i]? = some s)
    (ha : (C01.Spec.run (C01.Spec.init k) cs)[i]? = some a) (d : Dist) (thr : Rat) (weighted : Bool) :
    ∃ r, lineGraphH s d thr weighted = some r ∧
      AL.keys r.g.nodes = List.range (AL.keys a.edges).length ∧
      (∀ x y w, AL.get? r.g.adj (x, y) = some w ↔
        ∃ (hx : x < (AL.keys a.edges).length) (hy : y < (AL.keys a.edges).length), x ≠ y ∧
          (∃ n, n ∈ (AL.keys a.edges)[x] ∧ n ∈ (AL.keys a.edges)[y]) ∧
          thr ≤ distV d (AL.keys a.edges)[x] (AL.keys a.edges)[y] ∧
          w = some (if weighted then distV d (AL.keys a.edges)[x] (AL.keys a.edges)[y] else 1)) ∧
      (∀ x y w, AL.get? r.g.adj (x, y) = some w → AL.get? r.g.adj (y, x) = some w) ∧
      (∀ x, AL.get? r.g.adj (x, x) = none) ∧
      (∀ (x y : Nat) (hx : x < (AL.keys a.edges).length) (hy : y < (AL.keys a.edges).length),
        distV .intersection (AL.keys a.edges)[x] (AL.keys a.edges)[y] =
          (overlap (AL.keys a.nodes) (AL.keys a.edges)[x] (AL.keys a.edges)[y] : Rat)) := by
  obtain ⟨_, _, _, _, _, e2, e3, hnn, hes, hE⟩ := C10_link_listings k cs hwf i s a hs ha
  have hnd : ∀ e ∈ AL.keys a.edges, e.Nodup := fun e he => (hE e he).2.1
  have hmem : ∀ e ∈ AL.keys a.edges, ∀ n ∈ e, n ∈ AL.keys a.nodes := fun e he => (hE e he).2.2
  have heq : lineGraphH s d thr weighted = lineGraph (AL.keys a.nodes) (AL.keys a.edges) d thr weighted := by
    unfold lineGraphH lineGraph
    rw [e2, e3]
  obtain ⟨r, hr, hk, h3⟩ := C10_line_all_thresholds _ _ d thr weighted hes hnd hmem
  obtain ⟨r', hr', hsym, hloop⟩ := C10_line_symmetric_loop_free _ _ d thr weighted hes hnd hmem
  rw [hr] at hr'; cases hr'
  refine ⟨r, heq ▸ hr, hk, h3, hsym, hloop, ?_⟩
  intro x y hx hy
  rw [overlap_eq _ _ _ hnn (hnd _ (List.getElem_mem hx)) (hmem _ (List.getElem_mem hx))]; rfl

/-- **degrees and Gram matrices for any reachable object**: in `bipartite_projection(h)` the vertex of the `p`-th node has
degree `len(h.get_incident_edges(node))` (what the OBJECT answers), the vertex of the `q`-th key has degree = size of the
key, both sides add up to `Σ |key|`; `clique_projection(h)` is the off-diagonal support of `B·Bᵀ` of the abstract content. -/
theorem C10_link_degrees_and_gram (k : Nat) (cs : List C01.Cmd) (hwf : ∀ c ∈ cs, c.WF) (i : Nat) (s : C01.Store)
    (a : C01.Spec) (hs : (C01.run (C01.init k) cs)[i]? = some s)
    (ha : (C01.Spec.run (C01.Spec.init k) cs)[i]? = some a) :
    (∀ p x, (AL.keys a.nodes)[p]? = some x →
      (bipartiteH s).g.degreeOf (.N p) = (incidentH s x).length ∧
      (bipartiteH s).g.degreeOf (.N p) = cooc (AL.keys a.edges) x x) ∧
    (∀ q e, (AL.keys a.edges)[q]? = some e → (bipartiteH s).g.degreeOf (.E q) = e.length) ∧
    ((List.range (AL.keys a.nodes).length).map (fun p => (bipartiteH s).g.degreeOf (.N p))).sum =
      ((AL.keys a.edges).map List.length).sum ∧
    (∀ keepIso u v w, AL.get? (cliqueH keepIso s).adj (u, v) = some w ↔
      w = none ∧ u ≠ v ∧ 0 < cooc (AL.keys a.edges) u v) := by
  obtain ⟨h, rfl⟩ := history01 k cs hwf i s a hs ha
  obtain ⟨_, _, _, _, e1, e2, _, hnn, hes, hE⟩ := C10_link_listings k cs hwf i s _ hs ha
  have hnd : ∀ e ∈ AL.keys (C01.abs s).edges, e.Nodup := fun e he => (hE e he).2.1
  have hmem : ∀ e ∈ AL.keys (C01.abs s).edges, ∀ n ∈ e, n ∈ AL.keys (C01.abs s).nodes := fun e he => (hE e he).2.2
  unfold bipartiteH cliqueH
  rw [e1, e2]
  obtain ⟨hN, hEd, hN', _⟩ := C10_bipartite_degrees _ _ hnn hmem hnd
  refine ⟨?_, hEd, (C10_bipartite_handshake _ _ hnn hmem hnd).1, ?_⟩
  · intro p x hx
    refine ⟨?_, hN' p x hx⟩
    rw [hN p x hx]
    have hxn : x ∈ AL.keys s.adj := by
      have := List.mem_of_getElem? hx
      rwa [← e1, (nodesH_eq s).2] at this
    rw [(incidentH_eq s h x hxn).2, ← e2, (edgesH_eq s).2.1]
  · intro keepIso u v w
    exact C10_clique_is_gram_support keepIso _ _ hnd u v w

/-! ### non-vacuity of the extension round -/

/-- degrees, Gram matrices and the unknown-distance paths evaluated on the docstring hypergraph (plus an isolated node) -/
example : (bipartite [1, 2, 3, 4, 5, 9] [[1, 2], [1, 2, 3], [3, 4, 5]]).g.degrees = [2, 2, 2, 1, 1, 0, 2, 3, 3] ∧
    nodeGram [1, 2, 3, 4] [[1, 2], [1, 2, 3], [3, 4]] = [[2, 2, 1, 0], [2, 2, 1, 0], [1, 1, 2, 1], [0, 0, 1, 1]] ∧
    edgeGram [1, 2, 3, 4] [[1, 2], [1, 2, 3], [3, 4]] = [[2, 2, 0], [2, 3, 1], [0, 1, 2]] ∧
    lineGraphUnknown [1, 2, 3, 4] [[1, 2], [1, 2, 3], [3, 4]] = none ∧
    (∃ r, lineGraphUnknown [1, 2, 3] [[1], [2, 3]] = some r ∧ AL.keys r.g.nodes = [0, 1]) ∧
    directedLineGraphUnknown [([1], [2]), ([2], [3])] = none ∧
    (∃ g, directedLineGraphUnknown [([1], [2])] = some g ∧ AL.keys g.nodes = [0]) ∧
    simplicial (simplicial [[1, 2, 3], [3, 4]]) = simplicial [[1, 2, 3], [3, 4]] := by
  decide

/-- threshold `-1` (Jaccard): the disjoint hyperedges `0`, `2` are NOT joined, the intersecting ones are -/
example : ∃ r, lineGraph [1, 2, 3, 4, 5, 9] [[1, 2], [1, 2, 3], [3, 4, 5]] .jaccard (-1) false = some r ∧
    (¬ ∃ a, AL.get? r.g.adj (0, 2) = some a) ∧ (∃ a, AL.get? r.g.adj (1, 2) = some a) := by
  obtain ⟨r, hr, h⟩ := C10_line_nonpositive_threshold [1, 2, 3, 4, 5, 9] [[1, 2], [1, 2, 3], [3, 4, 5]] .jaccard (-1) false
    (by decide) (by decide) (by decide) (by norm_num)
  refine ⟨r, hr, ?_, ?_⟩
  · rw [h]; rintro ⟨_, _, _, n, h1, h2⟩
    revert h1 h2; simp; omega
  · rw [h]; exact ⟨by decide, by decide, by decide, 3, by decide, by decide⟩

/-- relabelling `n ↦ n + 10` and a reversed listing: hypotheses satisfiable, statements non-trivial (an edge exists) -/
example : (∃ r r', lineGraph [1, 2, 3, 4, 5] [[1, 2], [1, 2, 3], [3, 4, 5]] .intersection 1 true = some r ∧
      lineGraph [11, 12, 13, 14, 15] [[11, 12], [11, 12, 13], [13, 14, 15]] .intersection 1 true = some r' ∧
      (AL.get? r'.g.adj (0, 1) = some (some 2) ↔ AL.get? r.g.adj (0, 1) = some (some 2))) ∧
    AL.get? (clique false [11, 12, 13] [[11, 12], [12, 13]]).adj (11, 12) = some none ∧
    (∃ r r', lineGraph [1, 2, 3, 4, 5] [[1, 2], [1, 2, 3], [3, 4, 5]] .intersection 1 true = some r ∧
      lineGraph [5, 4, 3, 2, 1] [[3, 4, 5], [1, 2, 3], [1, 2]] .intersection 1 true = some r' ∧
      (AL.get? r'.g.adj (2, 1) = some (some 2) ↔ AL.get? r.g.adj (0, 1) = some (some 2))) := by
  refine ⟨?_, by decide, ?_⟩
  · obtain ⟨r, r', h1, h2, _, h4⟩ := C10_line_relabel (· + 10) (fun a b h => by simpa using h) [1, 2, 3, 4, 5]
      [[1, 2], [1, 2, 3], [3, 4, 5]] .intersection 1 true (by decide) (by decide) (by decide)
    exact ⟨r, r', h1, h2, h4 0 1 _⟩
  · obtain ⟨r, r', h1, h2, h3⟩ := C10_line_listing_order_invariant [1, 2, 3, 4, 5] [5, 4, 3, 2, 1]
      [[1, 2], [1, 2, 3], [3, 4, 5]] [[3, 4, 5], [1, 2, 3], [1, 2]] .intersection 1 true (by decide) (by decide) (by decide)
      (by decide) (by decide)
    exact ⟨r, r', h1, h2, h3 [1, 2] (by decide) [1, 2, 3] (by decide) _⟩

/-- the reversed directed hypergraph: arc `1 → 0` there for the arc `0 → 1` here -/
example : ∃ g g', directedLineGraph [([1, 2], [3]), ([3], [1, 4])] .intersection 1 false = some g ∧
    directedLineGraph [([3], [1, 2]), ([1, 4], [3])] .intersection 1 false = some g' ∧
    (AL.get? g'.adj (1, 0) = some none ↔ AL.get? g.adj (0, 1) = some none) := by
  obtain ⟨g, g', h1, h2, h3⟩ := C10_directed_line_reverse [([1, 2], [3]), ([3], [1, 4])] .intersection 1 false
    (by decide) (by decide) (by intro h; cases h)
  exact ⟨g, g', h1, h2, h3 1 0 _⟩

/-- the link theorems of the extension round on the history `demoH`, slot 0 -/
example : ∃ s, (C01.run (C01.init 2) demoH)[0]? = some s ∧
    (bipartiteH s).g.degrees = [2, 2, 2, 0, 0, 1, 1, 0, 3, 3, 2] := by
  refine ⟨_, rfl, by decide⟩

/-! ### vertex order, Jaccard range -/

/-- with `keep_isolated=True` the vertex LIST of the clique projection is `get_nodes()`, in that order (node list
duplicate-free, members of hyperedges are nodes) -/
theorem C10_clique_keep_isolated_vertex_list (nodes : List Nat) (es : List Edge) (hn : nodes.Nodup)
    (hmem : ∀ e ∈ es, ∀ n ∈ e, n ∈ nodes) : AL.keys (clique true nodes es).nodes = nodes := by
  rw [clique_eq]
  have h0 : AL.keys (nodes.foldl (fun g n => g.addNode n none) ({} : Graph Nat)).nodes = nodes := by
    rw [addNodes_keys_list nodes {} hn (by intro x _; simp [AL.keys])]; simp [AL.keys]
  simp only [if_true]
  rw [addEdges_nodes_of_mem, h0]
  intro p hp
  obtain ⟨e, he, hpe⟩ := List.mem_flatMap.1 hp
  have hm := mem_pairsOf_mem (x := p.1) (y := p.2) hpe
  rw [h0]
  exact ⟨hmem e he _ hm.1, hmem e he _ hm.2⟩

/-- **the Jaccard line graph is a subgraph of the intersection graph**, its weights lie in `[s, 1]`, and for `s ≥ 1` it has
no edge at all: two distinct canonical hyperedges never have Jaccard similarity 1 -/
theorem C10_line_jaccard_range (nodes : List Nat) (es : List Edge) (s : Rat) (weighted : Bool)
    (hes : es.Nodup) (hsorted : ∀ e ∈ es, e.Pairwise (· < ·)) (hmem : ∀ e ∈ es, ∀ n ∈ e, n ∈ nodes) (hs : 0 < s) :
    ∃ r, lineGraph nodes es .jaccard s weighted = some r ∧
      (∀ i j a, AL.get? r.g.adj (i, j) = some a →
        ∃ (hi : i < es.length) (hj : j < es.length), (∃ n, n ∈ es[i] ∧ n ∈ es[j]) ∧
          s ≤ distV .jaccard es[i] es[j] ∧ distV .jaccard es[i] es[j] < 1) ∧
      (1 ≤ s → ∀ i j, AL.get? r.g.adj (i, j) = none) := by
  have hnd : ∀ e ∈ es, e.Nodup := fun e he => (hsorted e he).imp (fun h => Nat.ne_of_lt h)
  obtain ⟨r, hr, _, h3, _⟩ := C10_line nodes es .jaccard s weighted hes hnd hmem hs
  have hlt : ∀ i j (hi : i < es.length) (hj : j < es.length), i ≠ j → distV .jaccard es[i] es[j] < 1 := by
    intro i j hi hj hne
    apply lt_of_not_ge
    intro hge
    simp only [distV] at hge
    have hu : 0 < unionSize es[i] es[j] := by
      apply Nat.pos_of_ne_zero; intro h0; rw [h0] at hge; simp at hge; exact absurd hge (by norm_num)
    have hu' : (0 : Rat) < (unionSize es[i] es[j] : Rat) := by exact_mod_cast hu
    rw [le_div_iff₀ hu', one_mul] at hge
    have hge' : unionSize es[i] es[j] ≤ interSize es[i] es[j] := by exact_mod_cast hge
    obtain ⟨h1, h2⟩ := subset_of_union_le_inter _ _ hge'
    have s1 := sublist_of_sorted_subset es[j] (hsorted _ (List.getElem_mem hj)) es[i] (hsorted _ (List.getElem_mem hi)) h1
    have s2 := sublist_of_sorted_subset es[i] (hsorted _ (List.getElem_mem hi)) es[j] (hsorted _ (List.getElem_mem hj)) h2
    have heq : es[i] = es[j] := s1.antisymm s2
    have e1 := idOf_getElem hes i hi
    have e2 := idOf_getElem hes j hj
    rw [heq] at e1; omega
  refine ⟨r, hr, ?_, ?_⟩
  · intro i j a h
    obtain ⟨hi, hj, hne, hle, _⟩ := (h3 i j a).1 h
    exact ⟨hi, hj, shares_of_le_distV hs hle, hle, hlt i j hi hj hne⟩
  · intro h1 i j
    cases h : AL.get? r.g.adj (i, j) with
    | none => rfl
    | some a =>
      obtain ⟨hi, hj, hne, hle, _⟩ := (h3 i j a).1 h
      exact absurd (lt_of_le_of_lt (le_trans h1 hle) (hlt i j hi hj hne)) (lt_irrefl _)

example : AL.keys (clique true [4, 1, 3, 2, 9] [[1, 2], [1, 2, 3], [3, 4]]).nodes = [4, 1, 3, 2, 9] ∧
    AL.keys (clique false [4, 1, 3, 2, 9] [[1, 2], [1, 2, 3], [3, 4]]).nodes = [1, 2, 3, 4] := by decide

/-- Jaccard at `s = 1`: hypotheses satisfiable, the nested hyperedges `{1,2} ⊂ {1,2,3}` are not joined -/
example : ∃ r, lineGraph [1, 2, 3, 4, 5] [[1, 2], [1, 2, 3], [3, 4, 5]] .jaccard 1 true = some r ∧
    AL.get? r.g.adj (0, 1) = none := by
  obtain ⟨r, hr, _, h⟩ := C10_line_jaccard_range [1, 2, 3, 4, 5] [[1, 2], [1, 2, 3], [3, 4, 5]] 1 true
    (by decide) (by decide) (by decide) (by norm_num)
  exact ⟨r, hr, h (le_refl _) 0 1⟩

/-- **the binary incidence matrix `B` is the adjacency of the bipartite projection**: `B[i][j] = 1` exactly when the vertices
`N_i`, `E_j` are joined, i.e. when node `i` belongs to hyperedge `j` (all other entries are 0); `B·Bᵀ` / `Bᵀ·B` are built
from its rows (`incRow`) and columns (`incCol` = the `j`-th entries of all rows) -/
theorem C10_incidence_matrix (nodes : List Nat) (es : List Edge) (hn : nodes.Nodup)
    (hmem : ∀ e ∈ es, ∀ x ∈ e, x ∈ nodes) :
    (∀ i j : Nat, ((incMatrix nodes es)[i]?.bind (fun row : List Nat => row[j]?)) = some 1 ↔
      AL.get? (bipartite nodes es).g.adj (.N i, .E j) = some none) ∧
    (∀ (i j b : Nat), ((incMatrix nodes es)[i]?.bind (fun row : List Nat => row[j]?)) = some b → b = 0 ∨ b = 1) ∧
    (∀ j e, es[j]? = some e → incCol nodes e = (incMatrix nodes es).map (fun row => row.getD j 0)) := by
  have hb := (C10_bipartite nodes es hn hmem).2.2.2.1
  have entry : ∀ i j : Nat, ((incMatrix nodes es)[i]?.bind (fun row : List Nat => row[j]?)) =
      (nodes[i]?.bind (fun x => es[j]?.map (fun e => if e.contains x then 1 else 0))) := by
    intro i j
    simp only [incMatrix, incRow, List.getElem?_map]
    cases nodes[i]? <;> simp [incRow, List.getElem?_map]
  refine ⟨?_, ?_, ?_⟩
  · intro i j
    rw [entry, hb]
    cases hx : nodes[i]? with
    | none => simp
    | some x =>
      cases he : es[j]? with
      | none => simp
      | some e => by_cases hxe : x ∈ e <;> simp [hxe]
  · intro i j b
    rw [entry]
    cases hx : nodes[i]? with
    | none => simp
    | some x =>
      cases he : es[j]? with
      | none => simp
      | some e =>
        by_cases hxe : x ∈ e
        · simp only [Option.bind_some, Option.map_some, List.contains_iff_mem, hxe, if_true, Option.some.injEq]
          intro h; exact Or.inr h.symm
        · simp only [Option.bind_some, Option.map_some, List.contains_iff_mem, hxe, if_false, Option.some.injEq]
          intro h; exact Or.inl h.symm
  · intro j e he
    simp only [incCol, incMatrix, incRow, List.map_map]
    apply List.map_congr_left
    intro x _
    simp [incRow, List.getD_eq_getElem?_getD, List.getElem?_map, he]

example : incMatrix [1, 2, 3, 4] [[1, 2], [1, 2, 3], [3, 4]] = [[1, 1, 0], [1, 1, 0], [0, 1, 1], [0, 0, 1]] := by decide

/-- **directed line graph of any reachable `DirectedHypergraph`** (C02 link): no loops, monotone in the threshold, and with an
unknown `distance` the routine raises exactly when the object has at least two hyperedges -/
theorem C10_link_directed_structure (cs : List C02.Cmd) (hcs : ∀ c ∈ cs, c.WF) (slot : Nat) (s : C02.Store)
    (a : C02.Spec) (hs : AL.get? (C02.runCmds [] cs) slot = some s)
    (ha : AL.get? (C02.Spec.runCmds [] cs) slot = some a) (d : Dist) (thr thr' : Rat) (weighted : Bool)
    (hle : thr ≤ thr') :
    ∃ g g', directedLineGraphD s d thr weighted = some g ∧ directedLineGraphD s d thr' weighted = some g' ∧
      (∀ x, AL.get? g.adj (x, x) = none) ∧
      (∀ x y w, AL.get? g'.adj (x, y) = some w → AL.get? g.adj (x, y) = some w) ∧
      (directedLineGraphUnknown (edgesD s) = none ↔ 2 ≤ (AL.keys a.edges).length) := by
  obtain ⟨h, rfl⟩ := history02 cs hcs slot s a hs ha
  obtain ⟨q1, q2, q3, q4, q5⟩ := edgesD_eq s
  obtain ⟨hnd, hwf⟩ := dlistingOK_of_inv s h
  rw [abs_dlistings]
  unfold directedLineGraphD
  rw [q2]
  obtain ⟨g, g', h1, h2, h3, h4⟩ := C10_directed_line_loop_free_monotone _ d thr thr' weighted hnd
    (fun _ e he f _ _ => Or.inl (hwf e he).2.1) hle
  refine ⟨g, g', h1, h2, h3, h4, ?_⟩
  rw [(C10_directed_line_unknown_distance _).1]
  exact two_distinct_iff _ hnd

/-- slot 0 of `demoD` holds three hyperedges: with an unknown `distance` the routine raises; the history satisfies the hypotheses -/
example : ∃ s, AL.get? (C02.runCmds [] demoD) 0 = some s ∧ directedLineGraphUnknown (edgesD s) = none :=
  ⟨_, rfl, by decide⟩

/-- **the id table of the bipartite projection is a bijection** between the vertices of the graph and the nodes plus the
hyperedges: a vertex has an entry exactly when it is a vertex of the graph, two vertices never share an object, every node
and every hyperedge is the object of some vertex (node list and hyperedge list duplicate-free) -/
theorem C10_bipartite_id_table_bijection (nodes : List Nat) (es : List Edge) (hn : nodes.Nodup) (hes : es.Nodup)
    (hmem : ∀ e ∈ es, ∀ x ∈ e, x ∈ nodes) :
    (∀ v, (∃ o, AL.get? (bipartite nodes es).idToObj v = some o) ↔ v ∈ AL.keys (bipartite nodes es).g.nodes) ∧
    (∀ u v o, AL.get? (bipartite nodes es).idToObj u = some o → AL.get? (bipartite nodes es).idToObj v = some o → u = v) ∧
    (∀ x ∈ nodes, ∃ i, AL.get? (bipartite nodes es).idToObj (.N i) = some (.node x)) ∧
    (∀ e ∈ es, ∃ j, AL.get? (bipartite nodes es).idToObj (.E j) = some (.edge e)) := by
  obtain ⟨hk, _, _, _, _, _, _, hN, hE⟩ := C10_bipartite nodes es hn hmem
  refine ⟨?_, ?_, ?_, ?_⟩
  · intro v
    rw [hk]
    cases v with
    | N i =>
      rw [hN]
      simp only [List.mem_append, List.mem_map, List.mem_range, BV.N.injEq, exists_eq_right, reduceCtorEq, and_false,
        exists_false, or_false]
      constructor
      · rintro ⟨o, ho⟩
        cases h : nodes[i]? with
        | none => rw [h] at ho; cases ho
        | some x => exact (List.getElem?_eq_some_iff.1 h).1
      · intro hi; exact ⟨_, by rw [List.getElem?_eq_getElem hi]; rfl⟩
    | E j =>
      rw [hE]
      simp only [List.mem_append, List.mem_map, List.mem_range, BV.E.injEq, exists_eq_right, reduceCtorEq, and_false,
        exists_false, false_or]
      constructor
      · rintro ⟨o, ho⟩
        cases h : es[j]? with
        | none => rw [h] at ho; cases ho
        | some x => exact (List.getElem?_eq_some_iff.1 h).1
      · intro hj; exact ⟨_, by rw [List.getElem?_eq_getElem hj]; rfl⟩
  · intro u v o hu hv
    cases u with
    | N i =>
      cases v with
      | N i' =>
        rw [hN] at hu hv
        cases h : nodes[i]? with
        | none => rw [h] at hu; cases hu
        | some x =>
          cases h' : nodes[i']? with
          | none => rw [h'] at hv; cases hv
          | some x' =>
            rw [h] at hu; rw [h'] at hv
            simp only [Option.map_some, Option.some.injEq] at hu hv
            have hxx : x = x' := by rw [← hv] at hu; cases hu; rfl
            have hij : nodes[i]? = nodes[i']? := by rw [h, h', hxx]
            have := (List.getElem?_inj (List.getElem?_eq_some_iff.1 h).1 hn).1 hij
            rw [this]
      | E j => rw [hN] at hu; rw [hE] at hv; cases h : nodes[i]? <;> cases h' : es[j]? <;> simp_all <;> (rw [← hv] at hu; cases hu)
    | E j =>
      cases v with
      | N i => rw [hE] at hu; rw [hN] at hv; cases h : nodes[i]? <;> cases h' : es[j]? <;> simp_all <;> (rw [← hv] at hu; cases hu)
      | E j' =>
        rw [hE] at hu hv
        cases h : es[j]? with
        | none => rw [h] at hu; cases hu
        | some x =>
          cases h' : es[j']? with
          | none => rw [h'] at hv; cases hv
          | some x' =>
            rw [h] at hu; rw [h'] at hv
            simp only [Option.map_some, Option.some.injEq] at hu hv
            have hxx : x = x' := by rw [← hv] at hu; cases hu; rfl
            have hij : es[j]? = es[j']? := by rw [h, h', hxx]
            have := (List.getElem?_inj (List.getElem?_eq_some_iff.1 h).1 hes).1 hij
            rw [this]
  · intro x hx
    obtain ⟨i, hi⟩ := List.getElem?_of_mem hx
    exact ⟨i, by rw [hN, hi]; rfl⟩
  · intro e he
    obtain ⟨j, hj⟩ := List.getElem?_of_mem he
    exact ⟨j, by rw [hE, hj]; rfl⟩

example : AL.get? (bipartite [10, 20, 30, 40] [[10, 20], [20, 30, 10], [30]]).idToObj (.N 3) = some (.node 40) ∧
    AL.get? (bipartite [10, 20, 30, 40] [[10, 20], [20, 30, 10], [30]]).idToObj (.N 4) = none ∧
    AL.get? (bipartite [10, 20, 30, 40] [[10, 20], [20, 30, 10], [30]]).idToObj (.E 1) = some (.edge [20, 30, 10]) := by
  decide
