import Hgxv.Proofs.C10Graph
import Hgxv.Proofs.C10Line
import Hgxv.Proofs.C10Simplicial
import Hgxv.Proofs.C10Bipartite
import Hgxv.Proofs.C10Similarity
import Hgxv.Proofs.C10Link
import Mathlib.Tactic.NormNum.Inv
import Mathlib.Tactic.NormNum.Ineq
/-! # C10 — graph projections encode exactly the incidence structure of the hypergraph

Property theorems about the model `Hgxv/Model/C10.lean`.  Inputs are what the public API returns: the node list and
the list of distinct canonical hyperedges.  Hypotheses used below, all guaranteed by the containers (C01/C02) and the
property's quantifier: hyperedges are duplicate-free (`e.Nodup`), pairwise distinct (`es.Nodup`), their members are
nodes, the node list is duplicate-free.  A graph is read through its tables: `AL.keys g.nodes` is the vertex list,
`AL.get? g.adj (u, v) = some a` says "`u — v` (resp. `u → v`) is an edge with attribute `a`". -/
open C10

/-! ## clique projection -/

/-- `u — v` is an edge (without attributes) exactly when `u ≠ v` and some hyperedge contains both; the vertices are
the nodes that have a neighbour, plus all nodes when `keep_isolated`; no vertex is listed twice. -/
theorem C10_clique (keepIso : Bool) (nodes : List Nat) (es : List Edge) (hnd : ∀ e ∈ es, e.Nodup) :
    (∀ u v a, AL.get? (clique keepIso nodes es).adj (u, v) = some a ↔
        a = none ∧ u ≠ v ∧ ∃ e ∈ es, u ∈ e ∧ v ∈ e) ∧
    (∀ x, x ∈ AL.keys (clique keepIso nodes es).nodes ↔
        (keepIso = true ∧ x ∈ nodes) ∨ ∃ e ∈ es, x ∈ e ∧ ∃ y ∈ e, y ≠ x) ∧
    (AL.keys (clique keepIso nodes es).nodes).Nodup := by
  rw [clique_eq]
  refine ⟨?_, ?_, ?_⟩
  · intro u v a
    rw [get_adj_addEdges]
    have h0 : AL.get? (if keepIso = true then nodes.foldl (fun g n => g.addNode n none) ({} : Graph Nat) else {}).adj (u, v)
        = none := by
      split
      · rw [addNodes_adj]; rfl
      · rfl
    rw [h0]
    simp only [List.mem_flatMap]
    constructor
    · intro h
      split at h
      · rename_i hc
        refine ⟨by simpa using h.symm, ?_⟩
        rcases hc with ⟨e, he, hp⟩ | ⟨e, he, hp⟩
        · exact ⟨mem_pairsOf_ne (hnd e he) hp, e, he, mem_pairsOf_mem hp⟩
        · exact ⟨(mem_pairsOf_ne (hnd e he) hp).symm, e, he, (mem_pairsOf_mem hp).symm⟩
      · simp at h
    · rintro ⟨rfl, hne, e, he, hu, hv⟩
      rw [if_pos]
      rcases mem_pairsOf_of_mem hu hv hne with h | h
      · exact Or.inl ⟨e, he, h⟩
      · exact Or.inr ⟨e, he, h⟩
  · intro x
    rw [mem_keys_addEdges]
    have h0 : x ∈ AL.keys (if keepIso = true then nodes.foldl (fun g n => g.addNode n none) ({} : Graph Nat) else {}).nodes
        ↔ (keepIso = true ∧ x ∈ nodes) := by
      split
      · rename_i hk; rw [addNodes_keys]; simp [hk, AL.keys]
      · rename_i hk; simp [hk, AL.keys]
    rw [h0]
    apply or_congr Iff.rfl
    simp only [List.mem_flatMap]
    constructor
    · rintro ⟨⟨p1, p2⟩, ⟨e, he, hp⟩, hx⟩
      have hm := mem_pairsOf_mem hp
      have hne := mem_pairsOf_ne (hnd e he) hp
      rcases hx with rfl | rfl
      · exact ⟨e, he, hm.1, p2, hm.2, hne.symm⟩
      · exact ⟨e, he, hm.2, p1, hm.1, hne⟩
    · rintro ⟨e, he, hx, y, hy, hne⟩
      rcases mem_pairsOf_of_mem hx hy (Ne.symm hne) with h | h
      · exact ⟨(x, y), ⟨e, he, h⟩, Or.inl rfl⟩
      · exact ⟨(y, x), ⟨e, he, h⟩, Or.inr rfl⟩
  · apply nodup_keys_addEdges
    split
    · apply addNodes_nodup; simp [AL.keys]
    · simp [AL.keys]

/-- with `keep_isolated=True` the vertex set is the node set (members of hyperedges are nodes) -/
theorem C10_clique_keep_isolated (nodes : List Nat) (es : List Edge) (hnd : ∀ e ∈ es, e.Nodup)
    (hmem : ∀ e ∈ es, ∀ n ∈ e, n ∈ nodes) (x : Nat) :
    x ∈ AL.keys (clique true nodes es).nodes ↔ x ∈ nodes := by
  rw [(C10_clique true nodes es hnd).2.1]
  constructor
  · rintro (⟨_, h⟩ | ⟨e, he, hx, _⟩)
    · exact h
    · exact hmem e he x hx
  · intro h; exact Or.inl ⟨rfl, h⟩

example : AL.get? (clique false [1, 2, 3, 4, 5, 9] [[1, 2], [1, 2, 3], [3, 4, 5], [9]]).adj (3, 1) = some none ∧
    AL.get? (clique false [1, 2, 3, 4, 5, 9] [[1, 2], [1, 2, 3], [3, 4, 5], [9]]).adj (1, 4) = none ∧
    AL.keys (clique true [1, 2, 3, 4, 5, 9] [[1, 2], [1, 2, 3], [3, 4, 5], [9]]).nodes = [1, 2, 3, 4, 5, 9] ∧
    AL.keys (clique false [1, 2, 3, 4, 5, 9] [[1, 2], [1, 2, 3], [3, 4, 5], [9]]).nodes = [1, 2, 3, 4, 5] := by
  decide

/-! ## directed line graph

`distV d a b` is the value the property names: `|a ∩ b|`, or the Jaccard similarity `|a ∩ b| / |a ∪ b|`
(see `C10_similarity`). -/

/-- The routine returns (no exception) a digraph on the vertices `0..m-1`, one per hyperedge, with an arc `i → j`
exactly when `i ≠ j` and the value of (target set of `e_i`, source set of `e_j`) is at least `s`; the arc carries that
value as weight when `weighted`, no attribute otherwise.  For every threshold `s`.
Hypothesis `hne` (Jaccard only): the union of the two sets is never empty - true when sides are non-empty; without it
the code divides by zero (`C10_directed_line_raises`). -/
theorem C10_directed_line (es : List DEdge) (d : Dist) (s : Rat) (weighted : Bool) (hes : es.Nodup)
    (hne : d = .jaccard → ∀ e ∈ es, ∀ f ∈ es, e ≠ f → e.2 ≠ [] ∨ f.1 ≠ []) :
    ∃ g, directedLineGraph es d s weighted = some g ∧
      AL.keys g.nodes = List.range es.length ∧
      ∀ i j a, AL.get? g.adj (i, j) = some a ↔
        ∃ (hi : i < es.length) (hj : j < es.length), i ≠ j ∧ s ≤ distV d es[i].2 es[j].1 ∧
          a = if weighted then some (distV d es[i].2 es[j].1) else none := by
  obtain ⟨g, hg, hI⟩ := dlg_fold_inv (es := es) (d := d) (s := s) (weighted := weighted) (allOrdered es)
    (fun p hp => mem_allOrdered.1 hp)
    (fun hd p hp hpne => by
      have := mem_allOrdered.1 hp
      rcases hne hd p.1 this.1 p.2 this.2 hpne with h | h
      · exact unionSize_ne_zero_left h
      · exact unionSize_ne_zero_right h)
  refine ⟨g, hg, hI.keys, ?_⟩
  intro i j a
  rw [hI.adj]
  constructor
  · rintro ⟨hK, hij, hs, ha⟩
    obtain ⟨⟨p1, p2⟩, hp, hpe⟩ := List.mem_map.1 hK
    have hm := mem_allOrdered.1 hp
    simp only [Prod.mk.injEq] at hpe
    have hi : i < es.length := hpe.1 ▸ idOf_lt hm.1
    have hj : j < es.length := hpe.2 ▸ idOf_lt hm.2
    rw [dVal_getElem es d i j hi hj] at hs ha
    exact ⟨hi, hj, hij, hs, ha⟩
  · rintro ⟨hi, hj, hij, hs, ha⟩
    rw [dVal_getElem es d i j hi hj]
    refine ⟨?_, hij, hs, ha⟩
    apply List.mem_map.2
    refine ⟨(es[i], es[j]), mem_allOrdered.2 ⟨List.getElem_mem hi, List.getElem_mem hj⟩, ?_⟩
    simp only [idOf_getElem hes]

/-! ## line graph -/

/-- `line_graph` returns (no exception) a graph on the vertices `0..m-1`, one per hyperedge; `i — j` is an edge exactly
when `i ≠ j` and the value (intersection size or Jaccard similarity) of `e_i, e_j` is at least `s`; the edge carries that
value as `weight` when `weighted` (and `1` otherwise).  For every threshold `s > 0`, which covers the integers `≥ 1`
for the intersection and `(0, 1]` for Jaccard.  The last two parts say that the enumeration of pairs through the
per-node incident lists with the `vis` table calls `_distance` exactly once for every unordered pair of distinct
hyperedges that share a node (`r.vis` is the log of those calls) and for no other pair.
Hypotheses: hyperedges distinct, duplicate-free, their members are nodes. -/
theorem C10_line (nodes : List Nat) (es : List Edge) (d : Dist) (s : Rat) (weighted : Bool)
    (hes : es.Nodup) (hnd : ∀ e ∈ es, e.Nodup) (hmem : ∀ e ∈ es, ∀ n ∈ e, n ∈ nodes) (hs : 0 < s) :
    ∃ r, lineGraph nodes es d s weighted = some r ∧
      AL.keys r.g.nodes = List.range es.length ∧
      (∀ i j a, AL.get? r.g.adj (i, j) = some a ↔
        ∃ (hi : i < es.length) (hj : j < es.length), i ≠ j ∧ s ≤ distV d es[i] es[j] ∧
          a = some (if weighted then distV d es[i] es[j] else 1)) ∧
      r.vis.Nodup ∧
      (∀ i j, (i, j) ∈ r.vis ↔
        i < j ∧ ∃ (hi : i < es.length) (hj : j < es.length), ∃ n, n ∈ es[i] ∧ n ∈ es[j]) := by
  apply lineGraphFrom_spec es d s weighted (nodes.map (incident es)) hes hnd hs
  · intro l hl
    obtain ⟨n, _, rfl⟩ := List.mem_map.1 hl
    exact ⟨hes.filter _, fun e he => (List.mem_filter.1 he).1⟩
  · intro l hl a ha b hb
    obtain ⟨n, _, rfl⟩ := List.mem_map.1 hl
    exact ⟨n, by simpa using (List.mem_filter.1 ha).2, by simpa using (List.mem_filter.1 hb).2⟩
  · rintro a ha b hb ⟨n, hna, hnb⟩
    refine ⟨incident es n, List.mem_map.2 ⟨n, hmem a ha n hna, rfl⟩, ?_, ?_⟩
    · exact List.mem_filter.2 ⟨ha, by simpa using hna⟩
    · exact List.mem_filter.2 ⟨hb, by simpa using hnb⟩

/-- the same for ANY table of incident lists (one duplicate-free list of hyperedges with a common node per node, every
two intersecting hyperedges together in some list): the result does not depend on the order in which
`get_incident_edges` lists the hyperedges -/
theorem C10_line_any_incident_order (es : List Edge) (d : Dist) (s : Rat) (weighted : Bool) (adj : List (List Edge))
    (hes : es.Nodup) (hnd : ∀ e ∈ es, e.Nodup) (hs : 0 < s)
    (hA : ∀ l ∈ adj, l.Nodup ∧ ∀ e ∈ l, e ∈ es)
    (hC : ∀ l ∈ adj, ∀ a ∈ l, ∀ b ∈ l, ∃ n, n ∈ a ∧ n ∈ b)
    (hB : ∀ a ∈ es, ∀ b ∈ es, (∃ n, n ∈ a ∧ n ∈ b) → ∃ l ∈ adj, a ∈ l ∧ b ∈ l) :
    ∃ r, lineGraphFrom es d s weighted adj = some r ∧
      AL.keys r.g.nodes = List.range es.length ∧
      (∀ i j a, AL.get? r.g.adj (i, j) = some a ↔
        ∃ (hi : i < es.length) (hj : j < es.length), i ≠ j ∧ s ≤ distV d es[i] es[j] ∧
          a = some (if weighted then distV d es[i] es[j] else 1)) :=
  let ⟨r, h1, h2, h3, _⟩ := lineGraphFrom_spec es d s weighted adj hes hnd hs hA hC hB
  ⟨r, h1, h2, h3⟩

/-- the id table returned with the line graphs lists the hyperedges by position -/
theorem C10_id_table {α : Type} (es : List α) (i : Nat) : AL.get? (idTable es) i = es[i]? := by
  have key : ∀ (l : List α) (k i : Nat), AL.get? ((l.zipIdx k).map (fun p => (p.2, p.1))) i =
      if k ≤ i then l[i - k]? else none := by
    intro l
    induction l with
    | nil => intro k i; simp
    | cons a t ih =>
      intro k i
      simp only [List.zipIdx_cons, List.map_cons, AL.get?, ih]
      by_cases h : k = i
      · subst h; simp
      · simp only [h, if_false]
        by_cases h2 : k ≤ i
        · have h3 : k + 1 ≤ i := by omega
          have h4 : i - k = (i - (k + 1)) + 1 := by omega
          simp [h2, h3, h4]
        · have h3 : ¬ k + 1 ≤ i := by omega
          simp [h2, h3]
  simpa [idTable] using key es 0 i

example : ∃ r, lineGraph [1, 2, 3, 4, 5, 9] [[1, 2], [1, 2, 3], [3, 4, 5]] .jaccard (1 / 2) true = some r ∧
    AL.get? r.g.adj (1, 0) = some (some (2 / 3)) ∧ AL.get? r.g.adj (1, 2) = none ∧ (0, 1) ∈ r.vis ∧ (1, 2) ∈ r.vis := by
  obtain ⟨r, h1, _, h3, _, h5⟩ := C10_line [1, 2, 3, 4, 5, 9] [[1, 2], [1, 2, 3], [3, 4, 5]] .jaccard (1 / 2) true
    (by decide) (by decide) (by decide) (by norm_num)
  have i10 : interSize [1, 2, 3] [1, 2] = 2 := by decide
  have u10 : unionSize [1, 2, 3] [1, 2] = 3 := by decide
  have i12 : interSize [1, 2, 3] [3, 4, 5] = 1 := by decide
  have u12 : unionSize [1, 2, 3] [3, 4, 5] = 5 := by decide
  refine ⟨r, h1, ?_, ?_, ?_, ?_⟩
  · rw [h3]; refine ⟨by decide, by decide, by decide, ?_, ?_⟩
    · simp [distV, i10, u10]; norm_num
    · simp [distV, i10, u10]
  · cases h : AL.get? r.g.adj (1, 2) with
    | none => rfl
    | some a =>
      obtain ⟨_, _, _, hle, _⟩ := (h3 1 2 a).1 h
      exfalso; simp [distV, i12, u12] at hle; norm_num at hle
  · rw [h5]; exact ⟨by decide, by decide, by decide, 1, by decide, by decide⟩
  · rw [h5]; exact ⟨by decide, by decide, by decide, 3, by decide, by decide⟩

example : ∃ g, directedLineGraph [([1, 2], [3]), ([3], [1, 4]), ([3, 4], [2])] .intersection 1 false = some g ∧
    AL.get? g.adj (0, 1) = some none ∧ AL.get? g.adj (2, 1) = none := by
  obtain ⟨g, h1, _, h3⟩ := C10_directed_line [([1, 2], [3]), ([3], [1, 4]), ([3, 4], [2])] .intersection 1 false
    (by decide) (by intro h; cases h)
  have i01 : interSize [3] [3] = 1 := by decide
  have i21 : interSize [2] [3] = 0 := by decide
  refine ⟨g, h1, ?_, ?_⟩
  · rw [h3]; exact ⟨by decide, by decide, by decide, by simp [distV, i01], by simp⟩
  · cases h : AL.get? g.adj (2, 1) with
    | none => rfl
    | some a =>
      obtain ⟨_, _, _, hle, _⟩ := (h3 2 1 a).1 h
      exfalso; simp [distV, i21] at hle; norm_num at hle

/-! ## simplicial complex -/

/-- The hyperedges of `simplicial_complex(h)` are exactly the canonical (strictly increasing) tuples whose members all
lie in one hyperedge of `h` - the downward closure; the listing has no repetition.  So it contains every hyperedge
and every non-empty subset of every hyperedge, and each non-empty member is a subset of an input hyperedge
(corollaries below).  It also contains the empty tuple as soon as `h` has a hyperedge (DESIGN §2; the property only
speaks of non-empty members).  Hypothesis: hyperedges as returned by `get_edges()`, i.e. sorted and duplicate-free. -/
theorem C10_simplicial (es : List Edge) (hsorted : ∀ e ∈ es, e.Pairwise (· < ·)) :
    (∀ k, k ∈ simplicial es ↔ k.Pairwise (· < ·) ∧ ∃ e ∈ es, ∀ x ∈ k, x ∈ e) ∧ (simplicial es).Nodup := by
  refine ⟨?_, nodup_simplicial_fold es [] List.nodup_nil⟩
  intro k
  unfold simplicial
  rw [mem_simplicial_fold]
  simp only [List.not_mem_nil, false_or]
  constructor
  · rintro ⟨e, he, sub, hs, rfl⟩
    have hp : sub.Pairwise (· < ·) := (hsorted e he).sublist hs
    rw [sortNodes_of_sorted sub hp]
    exact ⟨hp, e, he, fun x hx => hs.subset hx⟩
  · rintro ⟨hp, e, he, hsub⟩
    exact ⟨e, he, k, sublist_of_sorted_subset e (hsorted e he) k hp hsub, sortNodes_of_sorted k hp⟩

/-- every hyperedge is in the complex -/
theorem C10_simplicial_contains_edges (es : List Edge) (hsorted : ∀ e ∈ es, e.Pairwise (· < ·)) (e : Edge)
    (he : e ∈ es) : e ∈ simplicial es :=
  ((C10_simplicial es hsorted).1 e).2 ⟨hsorted e he, e, he, fun _ h => h⟩

/-- every subset of a hyperedge (as a canonical tuple) is in the complex -/
theorem C10_simplicial_downward (es : List Edge) (hsorted : ∀ e ∈ es, e.Pairwise (· < ·)) (e k : Edge)
    (he : e ∈ es) (hk : k.Pairwise (· < ·)) (hsub : ∀ x ∈ k, x ∈ e) : k ∈ simplicial es :=
  ((C10_simplicial es hsorted).1 k).2 ⟨hk, e, he, hsub⟩

/-- every member is a subset of some input hyperedge -/
theorem C10_simplicial_below (es : List Edge) (hsorted : ∀ e ∈ es, e.Pairwise (· < ·)) (k : Edge)
    (hk : k ∈ simplicial es) : ∃ e ∈ es, ∀ x ∈ k, x ∈ e :=
  (((C10_simplicial es hsorted).1 k).1 hk).2

/-- `get_all_subsets` lists exactly the sub-tuples (position-increasing selections) of its argument -/
theorem C10_all_subsets {α : Type} (e k : List α) : k ∈ allSubsets e ↔ k.Sublist e := mem_allSubsets e k

example : simplicial [[1, 2, 3], [3, 4]] = [[], [1], [2], [3], [1, 2], [1, 3], [2, 3], [1, 2, 3], [4], [3, 4]] := by
  decide

/-! ## bipartite projection -/

/-- The bipartite graph has the vertices `N0..N(n-1)` (attribute `bipartite=0`), one per node in `get_nodes()` order,
then `E0..E(m-1)` (`bipartite=1`), one per hyperedge in `get_edges()` order; `N_i — E_j` is an edge (in both directions
of the symmetric adjacency, without attributes) exactly when node `i` belongs to hyperedge `j`; there is no edge inside
a side; the id table maps `N_i` to node `i` and `E_j` to hyperedge `j` and nothing else.
Hypotheses: node list duplicate-free, members of hyperedges are nodes. -/
theorem C10_bipartite (nodes : List Nat) (es : List Edge) (hnd : nodes.Nodup)
    (hmem : ∀ e ∈ es, ∀ x ∈ e, x ∈ nodes) :
    AL.keys (bipartite nodes es).g.nodes = (List.range nodes.length).map BV.N ++ (List.range es.length).map BV.E ∧
    (∀ i, i < nodes.length → AL.get? (bipartite nodes es).g.nodes (.N i) = some (some 0)) ∧
    (∀ j, j < es.length → AL.get? (bipartite nodes es).g.nodes (.E j) = some (some 1)) ∧
    (∀ i j a, AL.get? (bipartite nodes es).g.adj (.N i, .E j) = some a ↔
      a = none ∧ ∃ x e, nodes[i]? = some x ∧ es[j]? = some e ∧ x ∈ e) ∧
    (∀ u v a, AL.get? (bipartite nodes es).g.adj (u, v) = some a → AL.get? (bipartite nodes es).g.adj (v, u) = some a) ∧
    (∀ i i', AL.get? (bipartite nodes es).g.adj (.N i, .N i') = none) ∧
    (∀ j j', AL.get? (bipartite nodes es).g.adj (.E j, .E j') = none) ∧
    (∀ i, AL.get? (bipartite nodes es).idToObj (.N i) = nodes[i]?.map Obj.node) ∧
    (∀ j, AL.get? (bipartite nodes es).idToObj (.E j) = es[j]?.map Obj.edge) := by
  have hI := bip_loop2 nodes hnd es hmem
  refine ⟨hI.keys, ?_, ?_, ?_, ?_, ?_, ?_, ?_, ?_⟩
  · intro i hi; rw [hI.attr]; simp [hi]
  · intro j hj; rw [hI.attr]; simp [hj]
  · intro i j a
    rw [hI.adj]
    constructor
    · rintro ⟨ha, i', j', x, e, h1, h2, h3, h4 | h4⟩
      · simp at h4
      · simp only [Prod.mk.injEq, BV.N.injEq, BV.E.injEq] at h4
        obtain ⟨rfl, rfl⟩ := h4
        exact ⟨ha, x, e, h1, h2, h3⟩
    · rintro ⟨ha, x, e, h1, h2, h3⟩
      exact ⟨ha, i, j, x, e, h1, h2, h3, Or.inr rfl⟩
  · intro u v a h
    rw [hI.adj] at h ⊢
    obtain ⟨ha, i, j, x, e, h1, h2, h3, h4⟩ := h
    refine ⟨ha, i, j, x, e, h1, h2, h3, ?_⟩
    simp only [Prod.mk.injEq] at h4 ⊢
    rcases h4 with ⟨rfl, rfl⟩ | ⟨rfl, rfl⟩
    · exact Or.inr ⟨rfl, rfl⟩
    · exact Or.inl ⟨rfl, rfl⟩
  · intro i i'
    cases h : AL.get? (bipartite nodes es).g.adj (.N i, .N i') with
    | none => rfl
    | some a =>
      obtain ⟨_, _, _, _, _, _, _, _, h4 | h4⟩ := (hI.adj _ _ _).1 h <;> simp at h4
  · intro j j'
    cases h : AL.get? (bipartite nodes es).g.adj (.E j, .E j') with
    | none => rfl
    | some a =>
      obtain ⟨_, _, _, _, _, _, _, _, h4 | h4⟩ := (hI.adj _ _ _).1 h <;> simp at h4
  · intro i; rw [hI.tab]
  · intro j; rw [hI.tab]

example : AL.keys (bipartite [10, 20, 30, 40] [[10, 20], [20, 30, 10], [30]]).g.nodes =
      [.N 0, .N 1, .N 2, .N 3, .E 0, .E 1, .E 2] ∧
    AL.get? (bipartite [10, 20, 30, 40] [[10, 20], [20, 30, 10], [30]]).g.adj (.N 2, .E 1) = some none ∧
    AL.get? (bipartite [10, 20, 30, 40] [[10, 20], [20, 30, 10], [30]]).g.adj (.N 2, .E 0) = none ∧
    AL.get? (bipartite [10, 20, 30, 40] [[10, 20], [20, 30, 10], [30]]).idToObj (.E 2) = some (.edge [30]) := by
  decide

/-! ### labels that are hyperedge tuples (D54)

Node labels are arbitrary hashable objects; a node may be labelled by a tuple that equals the node tuple of a hyperedge
(`tl e = some n`).  `C10_bipartite` above is about the repaired routine, whose `obj_to_id` holds node labels only: it
needs no hypothesis about `tl`.  The routine before the repair (`bipartiteShared`) kept both kinds of keys in one table. -/

/-- Before the repair the routine was right whenever no node label equals a hyperedge tuple (all int / str labelled
hypergraphs): same graph and same id table as the repaired routine, for which `C10_bipartite` holds. -/
theorem C10_bipartite_shared_table_no_collision (tl : Edge → Option Nat) (nodes : List Nat) (es : List Edge)
    (hno : ∀ e ∈ es, tl e = none) :
    (bipartiteShared tl nodes es).g = (bipartite nodes es).g ∧
    (bipartiteShared tl nodes es).idToObj = (bipartite nodes es).idToObj := by
  have hmem : ∀ p ∈ es.zipIdx, tl p.1 = none := by
    intro p hp
    have := List.mem_zipIdx hp
    simp at this
    exact hno p.1 (by rw [this.2]; exact List.getElem_mem _)
  have h := bipShared_fold_sim tl es.zipIdx hmem
    (a := nodes.zipIdx.foldl bipNode {}) (b := nodes.zipIdx.foldl bipNode {}) ⟨rfl, rfl, fun _ => rfl⟩
  exact ⟨h.1, h.2.1⟩

/-- The hypothesis is necessary (witness of D54): nodes `1, 2, (1,2), (3,4)` (ranks 0..3), hyperedges `{1,2}` and
`{(1,2),(3,4)}`; the node of rank 2 IS the tuple of the first hyperedge.  Before the repair the second hyperedge is
joined to the vertex `E0` of the first hyperedge instead of the vertex `N2` of its member; the repaired routine joins
`E1 — N2` and has no `E — E` edge. -/
example :
    let tl : Edge → Option Nat := fun e => if e = [0, 1] then some 2 else none
    AL.get? (bipartiteShared tl [0, 1, 2, 3] [[0, 1], [2, 3]]).g.adj (.E 1, .E 0) = some none ∧
    AL.get? (bipartiteShared tl [0, 1, 2, 3] [[0, 1], [2, 3]]).g.adj (.E 1, .N 2) = none ∧
    AL.get? (bipartite [0, 1, 2, 3] [[0, 1], [2, 3]]).g.adj (.E 1, .N 2) = some none ∧
    AL.get? (bipartite [0, 1, 2, 3] [[0, 1], [2, 3]]).g.adj (.E 1, .E 0) = none := by
  decide

/-! ## the similarity functions and the corner the Jaccard hypothesis excludes -/

/-- on duplicate-free tuples `intersection` is `|A ∩ B|`, the denominator is `|A ∪ B|`, `jaccard_similarity` is their
quotient (a `ZeroDivisionError`, `none`, exactly when both are empty), `jaccard_distance` is one minus it, and both
are symmetric -/
theorem C10_similarity (a b : List Nat) (ha : a.Nodup) (hb : b.Nodup) :
    interSize a b = (a.toFinset ∩ b.toFinset).card ∧
    unionSize a b = (a.toFinset ∪ b.toFinset).card ∧
    (jaccard? a b = if a = [] ∧ b = [] then none
      else some (((a.toFinset ∩ b.toFinset).card : Rat) / ((a.toFinset ∪ b.toFinset).card : Rat))) ∧
    jaccardDistance? a b = (jaccard? a b).map (fun x => 1 - x) ∧
    (∀ d, distV d a b = distV d b a) ∧
    distV .intersection a b = ((a.toFinset ∩ b.toFinset).card : Rat) ∧
    distV .jaccard a b = ((a.toFinset ∩ b.toFinset).card : Rat) / ((a.toFinset ∪ b.toFinset).card : Rat) := by
  have hi := interSize_eq_card a b ha
  have hu := unionSize_eq_card a b ha hb
  refine ⟨hi, hu, ?_, rfl, fun d => distV_comm d a b ha hb, by simp [distV, hi], by simp [distV, hi, hu]⟩
  unfold jaccard?
  by_cases h : a = [] ∧ b = []
  · obtain ⟨rfl, rfl⟩ := h; simp [unionSize]
  · have hne : unionSize a b ≠ 0 := by
      by_cases h1 : a = []
      · exact unionSize_ne_zero_right (fun h2 => h ⟨h1, h2⟩)
      · exact unionSize_ne_zero_left h1
    rw [if_neg hne, if_neg h, ← hi, ← hu]

/-- without non-empty sides the Jaccard directed line graph divides by zero: whenever some hyperedge has an empty
target set and another one an empty source set, `directed_line_graph(h, "jaccard", ...)` raises (model: `none`) -/
theorem C10_directed_line_raises (es : List DEdge) (s : Rat) (weighted : Bool) (e f : DEdge)
    (he : e ∈ es) (hf : f ∈ es) (hne : e ≠ f) (h1 : e.2 = []) (h2 : f.1 = []) :
    directedLineGraph es .jaccard s weighted = none := by
  apply foldlM_none_of_mem _ _ (e, f) (mem_allOrdered.2 ⟨he, hf⟩)
  intro g
  simp [dlgVisit, hne, h1, h2, dist?, jaccard?, unionSize]

/-! ## the incident table of the object at hand

`line_graph` reads `h.get_incident_edges(n)`, a second piece of container state next to `get_edges()`.  For an object
reached through a history (removals, a copy whose original is edited afterwards, ...) the harness sends the table the
real object returns to the driver, which evaluates `incidentOK` on it and runs `lineGraphFrom` on that very table. -/

/-- `incidentOK` decides exactly the three hypotheses of `C10_line_any_incident_order` -/
theorem C10_incidentOK_iff (es : List Edge) (adj : List (List Edge)) :
    incidentOK es adj = true ↔
      (∀ l ∈ adj, l.Nodup ∧ ∀ e ∈ l, e ∈ es) ∧
      (∀ l ∈ adj, ∀ a ∈ l, ∀ b ∈ l, ∃ n, n ∈ a ∧ n ∈ b) ∧
      (∀ a ∈ es, ∀ b ∈ es, (∃ n, n ∈ a ∧ n ∈ b) → ∃ l ∈ adj, a ∈ l ∧ b ∈ l) := by
  simp only [incidentOK, incListsOK, incSharesOK, incCoversOK, sharesNode, Bool.and_eq_true, Bool.or_eq_true,
    Bool.not_eq_true', List.all_eq_true, List.any_eq_true, decide_eq_true_eq, List.contains_iff_mem, and_assoc]
  refine and_congr Iff.rfl (and_congr Iff.rfl ?_)
  constructor
  · intro h a ha b hb hsh
    rcases h a ha b hb with h1 | h1
    · exfalso
      obtain ⟨n, hna, hnb⟩ := hsh
      have : (a.any fun n => b.contains n) = true := List.any_eq_true.2 ⟨n, hna, by simpa using hnb⟩
      rw [h1] at this; cases this
    · exact h1
  · intro h a ha b hb
    by_cases hsh : (a.any fun n => b.contains n) = true
    · right
      obtain ⟨n, hna, hnb⟩ := List.any_eq_true.1 hsh
      exact h a ha b hb ⟨n, hna, by simpa using hnb⟩
    · left; simpa using hsh

/-- the line graph computed from a table that passed the check is the right one: vertices `0..m-1`, `i — j` exactly
when `i ≠ j` and the value of `e_i, e_j` is at least `s`, with the value (or 1) as weight -/
theorem C10_line_checked_incident_table (es : List Edge) (d : Dist) (s : Rat) (weighted : Bool)
    (adj : List (List Edge)) (hes : es.Nodup) (hnd : ∀ e ∈ es, e.Nodup) (hs : 0 < s)
    (hok : incidentOK es adj = true) :
    ∃ r, lineGraphFrom es d s weighted adj = some r ∧
      AL.keys r.g.nodes = List.range es.length ∧
      (∀ i j a, AL.get? r.g.adj (i, j) = some a ↔
        ∃ (hi : i < es.length) (hj : j < es.length), i ≠ j ∧ s ≤ distV d es[i] es[j] ∧
          a = some (if weighted then distV d es[i] es[j] else 1)) :=
  let ⟨hA, hC, hB⟩ := (C10_incidentOK_iff es adj).1 hok
  C10_line_any_incident_order es d s weighted adj hes hnd hs hA hC hB

/-- the table of a container whose incident lists are what `get_edges()` says (any node order) passes the check -/
theorem C10_incidentOK_of_listing (nodes : List Nat) (es : List Edge) (hes : es.Nodup)
    (hmem : ∀ e ∈ es, ∀ n ∈ e, n ∈ nodes) : incidentOK es (nodes.map (incident es)) = true := by
  rw [C10_incidentOK_iff]
  refine ⟨?_, ?_, ?_⟩
  · intro l hl
    obtain ⟨n, _, rfl⟩ := List.mem_map.1 hl
    exact ⟨hes.filter _, fun e he => (List.mem_filter.1 he).1⟩
  · intro l hl a ha b hb
    obtain ⟨n, _, rfl⟩ := List.mem_map.1 hl
    exact ⟨n, by simpa using (List.mem_filter.1 ha).2, by simpa using (List.mem_filter.1 hb).2⟩
  · rintro a ha b hb ⟨n, hna, hnb⟩
    refine ⟨incident es n, List.mem_map.2 ⟨n, hmem a ha n hna, rfl⟩, ?_, ?_⟩
    · exact List.mem_filter.2 ⟨ha, by simpa using hna⟩
    · exact List.mem_filter.2 ⟨hb, by simpa using hnb⟩

/-- what a STALE table does (e.g. the per-node id lists of a copy that shares them with its edited original): if the
lists are still sound (members are hyperedges of `get_edges()` with a common node) but two hyperedges `e_i`, `e_j` are
together in no list, then `line_graph` returns a graph without the edge `i — j`, whatever their value and whatever
the threshold - so the third conjunct of `incidentOK` is necessary for `C10_line_checked_incident_table` -/
theorem C10_line_stale_incident_table (es : List Edge) (d : Dist) (s : Rat) (weighted : Bool)
    (adj : List (List Edge)) (hnd : ∀ e ∈ es, e.Nodup)
    (hA : ∀ l ∈ adj, ∀ e ∈ l, e ∈ es)
    (hC : ∀ l ∈ adj, ∀ a ∈ l, ∀ b ∈ l, ∃ n, n ∈ a ∧ n ∈ b)
    (i j : Nat) (hi : i < es.length) (hj : j < es.length)
    (hmiss : ∀ l ∈ adj, ¬ (es[i] ∈ l ∧ es[j] ∈ l)) :
    ∃ r, lineGraphFrom es d s weighted adj = some r ∧ AL.get? r.g.adj (i, j) = none := by
  have hps : ∀ p ∈ adj.flatMap pairsOf, p.1 ∈ es ∧ p.2 ∈ es ∧ ∃ n, n ∈ p.1 ∧ n ∈ p.2 := by
    intro p hp
    obtain ⟨l, hl, hpl⟩ := List.mem_flatMap.1 hp
    have hm := mem_pairsOf_mem (x := p.1) (y := p.2) hpl
    exact ⟨hA l hl _ hm.1, hA l hl _ hm.2, hC l hl _ hm.1 _ hm.2⟩
  obtain ⟨r, hr, hI⟩ := lg_fold_inv (d := d) (s := s) (weighted := weighted) hnd _ hps
  refine ⟨r, hr, ?_⟩
  cases h : AL.get? r.g.adj (i, j) with
  | none => rfl
  | some a =>
    exfalso
    obtain ⟨hK, _, _⟩ := (hI.adj i j a).1 h
    obtain ⟨⟨a', b'⟩, hp, hk⟩ := List.mem_map.1 hK
    obtain ⟨l, hl, hpl⟩ := List.mem_flatMap.1 hp
    have hm := mem_pairsOf_mem hpl
    have ha := hA l hl a' hm.1
    have hb := hA l hl b' hm.2
    simp only at hk
    rcases (pairKey_eq_iff _ _ _ _).1 hk with ⟨h1, h2⟩ | ⟨h1, h2⟩
    · subst h1 h2
      exact hmiss l hl ⟨by rw [getElem_idOf ha]; exact hm.1, by rw [getElem_idOf hb]; exact hm.2⟩
    · subst h1 h2
      exact hmiss l hl ⟨by rw [getElem_idOf hb]; exact hm.2, by rw [getElem_idOf ha]; exact hm.1⟩

/-- the seeded situation in small: hyperedges `(1,2,3)`, `(2,3,4)`, `(3,4,5)` over the nodes `1..5`; the fresh table
passes the check; the table in which `(2,3,4)` was dropped from every list (it was removed from the object that
shares the lists) fails it, and the line graph computed from it has lost both links of that hyperedge -/
example : incidentOK [[1, 2, 3], [2, 3, 4], [3, 4, 5]] ([1, 2, 3, 4, 5].map (incident [[1, 2, 3], [2, 3, 4], [3, 4, 5]])) = true ∧
    incidentOK [[1, 2, 3], [2, 3, 4], [3, 4, 5]] [[[1, 2, 3]], [[1, 2, 3]], [[1, 2, 3], [3, 4, 5]], [[3, 4, 5]], [[3, 4, 5]]] = false ∧
    (∃ r, lineGraphFrom [[1, 2, 3], [2, 3, 4], [3, 4, 5]] .intersection 1 false
        [[[1, 2, 3]], [[1, 2, 3]], [[1, 2, 3], [3, 4, 5]], [[3, 4, 5]], [[3, 4, 5]]] = some r ∧
      AL.get? r.g.adj (0, 1) = none ∧ AL.get? r.g.adj (1, 2) = none) := by
  refine ⟨by decide, by decide, ?_⟩
  obtain ⟨r, hr, h01⟩ := C10_line_stale_incident_table [[1, 2, 3], [2, 3, 4], [3, 4, 5]] .intersection 1 false
    [[[1, 2, 3]], [[1, 2, 3]], [[1, 2, 3], [3, 4, 5]], [[3, 4, 5]], [[3, 4, 5]]] (by decide) (by decide) (by decide)
    0 1 (by decide) (by decide) (by decide)
  obtain ⟨r', hr', h12⟩ := C10_line_stale_incident_table [[1, 2, 3], [2, 3, 4], [3, 4, 5]] .intersection 1 false
    [[[1, 2, 3]], [[1, 2, 3]], [[1, 2, 3], [3, 4, 5]], [[3, 4, 5]], [[3, 4, 5]]] (by decide) (by decide) (by decide)
    1 2 (by decide) (by decide) (by decide)
  rw [hr] at hr'; cases hr'
  exact ⟨r, hr, h01, h12⟩

/-! ## Links to the full container models: objects reached through ANY history

Everything above takes listings as input.  `Hgxv/Proofs/C10Link.lean` reads the listings off the full container models
(C01 `Hypergraph`, C02 `DirectedHypergraph`): `nodesH s`, `edgesH s`, `incidentH s n`, `incTableH s` are what
`C01.answer s` returns for `get_nodes()`, `get_edges()`, `get_incident_edges(n)`; `edgesD s` is what `C02.edges s`
returns; `bipartiteH`, `cliqueH`, `lineGraphH`, `simplicialH`, `directedLineGraphD` are the routines applied to those
answers, i.e. to the object.  The theorems below quantify over EVERY history of well-formed public calls (`C01.Cmd` /
`C02.Cmd`: constructor, copy, the 18 mutating calls, accepted or rejected; well-formed = the containers' own
quantifier: hyperedges are node sets, directed sides non-empty and disjoint), every slot `i`, the object `s` in that
slot and the ABSTRACT content `a` of the same slot after the same history (`C01.Spec` / `C02.Spec`: a list of nodes
and a map from node sets to records) and state the result of the routine on the object in terms of `a` alone.
No hypothesis about the object is left: all of them are discharged from `C01.Inv` / `C02.Inv` (`C01_inv`, `C02_inv`). -/

/-- **What the object lists after any history** is the listing of the abstract content, and it has every property the
theorems above assume: `get_nodes()` is the duplicate-free node list of `a`; `get_edges()` is the duplicate-free key list
of `a`; `len(h)` is its length; for every node, `get_incident_edges(n)` answers (no exception) exactly the hyperedges of
`get_edges()` that contain `n`, in that order; every hyperedge is a strictly increasing (hence duplicate-free) tuple of
nodes of `get_nodes()`. -/
theorem C10_link_listings (k : Nat) (cs : List C01.Cmd) (hwf : ∀ c ∈ cs, c.WF) (i : Nat) (s : C01.Store)
    (a : C01.Spec) (hs : (C01.run (C01.init k) cs)[i]? = some s)
    (ha : (C01.Spec.run (C01.Spec.init k) cs)[i]? = some a) :
    C01.query (C01.run (C01.init k) cs) i .nodes = .nats (AL.keys a.nodes) ∧
    C01.query (C01.run (C01.init k) cs) i (.edges {}) = .edges (AL.keys a.edges) ∧
    C01.query (C01.run (C01.init k) cs) i .len = .int ((AL.keys a.edges).length : Nat) ∧
    (∀ n ∈ AL.keys a.nodes,
      C01.query (C01.run (C01.init k) cs) i (.incident n {}) = .edges (incident (AL.keys a.edges) n)) ∧
    nodesH s = AL.keys a.nodes ∧ edgesH s = AL.keys a.edges ∧
    incTableH s = (AL.keys a.nodes).map (incident (AL.keys a.edges)) ∧
    (AL.keys a.nodes).Nodup ∧ (AL.keys a.edges).Nodup ∧
    (∀ e ∈ AL.keys a.edges, e.Pairwise (· < ·) ∧ e.Nodup ∧ ∀ n ∈ e, n ∈ AL.keys a.nodes) := by
  obtain ⟨h, rfl⟩ := history01 k cs hwf i s a hs ha
  obtain ⟨e1, e2⟩ := abs_listings s h
  have ok := listingOK_of_inv s h
  rw [e1, e2]
  simp only [C01.query, hs]
  refine ⟨(nodesH_eq s).1, (edgesH_eq s).1, (edgesH_eq s).2.2, fun n hn => (incidentH_eq s h n hn).1,
    (nodesH_eq s).2, (edgesH_eq s).2.1, incTableH_eq s h, ok.nodesNodup, ok.edgesNodup,
    fun e he => ⟨ok.sorted e he, ok.edgeNodup e he, ok.members e he⟩⟩

/-- **The incident table of every reachable object passes the check** the driver evaluates on the table of the real
object (`incidentOK`: lists duplicate-free and made of hyperedges of `get_edges()`, members of one list share a node,
every two intersecting hyperedges are together in some list). -/
theorem C10_link_incident_table (k : Nat) (cs : List C01.Cmd) (hwf : ∀ c ∈ cs, c.WF) (i : Nat) (s : C01.Store)
    (hs : (C01.run (C01.init k) cs)[i]? = some s) : incidentOK (edgesH s) (incTableH s) = true := by
  have h := C01.run_inv cs (C01.init k) hwf (C01.init_inv k) s (List.mem_of_getElem? hs)
  have ok := listingOK_of_inv s h
  rw [incTableH_eq s h, (edgesH_eq s).2.1]
  exact C10_incidentOK_of_listing _ _ ok.edgesNodup ok.members

/-- **`line_graph` of any reachable object is the line graph of its abstract content.**  For every history, every
threshold `thr > 0`, both distances, weighted or not: the routine run on the listing and on the incident table the
object answers returns (no exception) the same as the definition-level enumeration on `a`; the result has one vertex
`0..m-1` per hyperedge of `a` (in key order), `i — j` is an edge exactly when `i ≠ j` and the value (intersection size /
Jaccard similarity) of the two keys is at least `thr`, with the value (or 1) as weight; and `_distance` was called
exactly once for every unordered pair of distinct keys of `a` that share a node, for no other pair. -/
theorem C10_link_line (k : Nat) (cs : List C01.Cmd) (hwf : ∀ c ∈ cs, c.WF) (i : Nat) (s : C01.Store)
    (a : C01.Spec) (hs : (C01.run (C01.init k) cs)[i]? = some s)
    (ha : (C01.Spec.run (C01.Spec.init k) cs)[i]? = some a) (d : Dist) (thr : Rat) (weighted : Bool) (hthr : 0 < thr) :
    lineGraphH s d thr weighted = lineGraph (AL.keys a.nodes) (AL.keys a.edges) d thr weighted ∧
    ∃ r, lineGraphH s d thr weighted = some r ∧
      AL.keys r.g.nodes = List.range (AL.keys a.edges).length ∧
      (∀ x y w, AL.get? r.g.adj (x, y) = some w ↔
        ∃ (hx : x < (AL.keys a.edges).length) (hy : y < (AL.keys a.edges).length), x ≠ y ∧
          thr ≤ distV d (AL.keys a.edges)[x] (AL.keys a.edges)[y] ∧
          w = some (if weighted then distV d (AL.keys a.edges)[x] (AL.keys a.edges)[y] else 1)) ∧
      r.vis.Nodup ∧
      (∀ x y, (x, y) ∈ r.vis ↔
        x < y ∧ ∃ (hx : x < (AL.keys a.edges).length) (hy : y < (AL.keys a.edges).length),
          ∃ n, n ∈ (AL.keys a.edges)[x] ∧ n ∈ (AL.keys a.edges)[y]) := by
  obtain ⟨_, _, _, _, _, e2, e3, _, hes, hE⟩ := C10_link_listings k cs hwf i s a hs ha
  have heq : lineGraphH s d thr weighted = lineGraph (AL.keys a.nodes) (AL.keys a.edges) d thr weighted := by
    unfold lineGraphH lineGraph
    rw [e2, e3]
  refine ⟨heq, ?_⟩
  rw [heq]
  exact C10_line _ _ d thr weighted hes (fun e he => (hE e he).2.1) (fun e he => (hE e he).2.2) hthr

/-- **`clique_projection` of any reachable object**: `u — v` is an edge (without attributes) exactly when `u ≠ v` and
some key of the abstract content contains both; the vertices are the nodes with a neighbour, plus all nodes of `a` when
`keep_isolated`; no vertex twice; with `keep_isolated=True` the vertex set is exactly the node set of `a`. -/
theorem C10_link_clique (k : Nat) (cs : List C01.Cmd) (hwf : ∀ c ∈ cs, c.WF) (i : Nat) (s : C01.Store)
    (a : C01.Spec) (hs : (C01.run (C01.init k) cs)[i]? = some s)
    (ha : (C01.Spec.run (C01.Spec.init k) cs)[i]? = some a) (keepIso : Bool) :
    (∀ u v x, AL.get? (cliqueH keepIso s).adj (u, v) = some x ↔
        x = none ∧ u ≠ v ∧ ∃ e ∈ AL.keys a.edges, u ∈ e ∧ v ∈ e) ∧
    (∀ x, x ∈ AL.keys (cliqueH keepIso s).nodes ↔
        (keepIso = true ∧ x ∈ AL.keys a.nodes) ∨ ∃ e ∈ AL.keys a.edges, x ∈ e ∧ ∃ y ∈ e, y ≠ x) ∧
    (AL.keys (cliqueH keepIso s).nodes).Nodup ∧
    (∀ x, x ∈ AL.keys (cliqueH true s).nodes ↔ x ∈ AL.keys a.nodes) := by
  obtain ⟨_, _, _, _, e1, e2, _, _, _, hE⟩ := C10_link_listings k cs hwf i s a hs ha
  unfold cliqueH
  rw [e1, e2]
  have hnd : ∀ e ∈ AL.keys a.edges, e.Nodup := fun e he => (hE e he).2.1
  obtain ⟨c1, c2, c3⟩ := C10_clique keepIso (AL.keys a.nodes) (AL.keys a.edges) hnd
  exact ⟨c1, c2, c3, C10_clique_keep_isolated _ _ hnd (fun e he => (hE e he).2.2)⟩

/-- **`bipartite_projection` of any reachable object**: vertices `N0..N(n-1)` (`bipartite=0`), one per node of the
abstract content in its order, then `E0..E(m-1)` (`bipartite=1`), one per key; `N_i — E_j` (symmetric, no attributes)
exactly when node `i` belongs to key `j`; no edge inside a side; the id table maps `N_i` to node `i`, `E_j` to key `j`. -/
theorem C10_link_bipartite (k : Nat) (cs : List C01.Cmd) (hwf : ∀ c ∈ cs, c.WF) (i : Nat) (s : C01.Store)
    (a : C01.Spec) (hs : (C01.run (C01.init k) cs)[i]? = some s)
    (ha : (C01.Spec.run (C01.Spec.init k) cs)[i]? = some a) :
    AL.keys (bipartiteH s).g.nodes =
      (List.range (AL.keys a.nodes).length).map BV.N ++ (List.range (AL.keys a.edges).length).map BV.E ∧
    (∀ p, p < (AL.keys a.nodes).length → AL.get? (bipartiteH s).g.nodes (.N p) = some (some 0)) ∧
    (∀ q, q < (AL.keys a.edges).length → AL.get? (bipartiteH s).g.nodes (.E q) = some (some 1)) ∧
    (∀ p q x, AL.get? (bipartiteH s).g.adj (.N p, .E q) = some x ↔
      x = none ∧ ∃ n e, (AL.keys a.nodes)[p]? = some n ∧ (AL.keys a.edges)[q]? = some e ∧ n ∈ e) ∧
    (∀ u v x, AL.get? (bipartiteH s).g.adj (u, v) = some x → AL.get? (bipartiteH s).g.adj (v, u) = some x) ∧
    (∀ p p', AL.get? (bipartiteH s).g.adj (.N p, .N p') = none) ∧
    (∀ q q', AL.get? (bipartiteH s).g.adj (.E q, .E q') = none) ∧
    (∀ p, AL.get? (bipartiteH s).idToObj (.N p) = (AL.keys a.nodes)[p]?.map Obj.node) ∧
    (∀ q, AL.get? (bipartiteH s).idToObj (.E q) = (AL.keys a.edges)[q]?.map Obj.edge) := by
  obtain ⟨_, _, _, _, e1, e2, _, hn, _, hE⟩ := C10_link_listings k cs hwf i s a hs ha
  unfold bipartiteH
  rw [e1, e2]
  exact C10_bipartite _ _ hn (fun e he => (hE e he).2.2)

/-- **`simplicial_complex` of any reachable object** is the downward closure of the abstract content: its hyperedges
are exactly the strictly increasing tuples all of whose members lie in one key of `a`, listed once; in particular every
key of `a` is among them. -/
theorem C10_link_simplicial (k : Nat) (cs : List C01.Cmd) (hwf : ∀ c ∈ cs, c.WF) (i : Nat) (s : C01.Store)
    (a : C01.Spec) (hs : (C01.run (C01.init k) cs)[i]? = some s)
    (ha : (C01.Spec.run (C01.Spec.init k) cs)[i]? = some a) :
    (∀ t, t ∈ simplicialH s ↔ t.Pairwise (· < ·) ∧ ∃ e ∈ AL.keys a.edges, ∀ x ∈ t, x ∈ e) ∧
    (simplicialH s).Nodup ∧ (∀ e ∈ AL.keys a.edges, e ∈ simplicialH s) := by
  obtain ⟨_, _, _, _, _, e2, _, _, _, hE⟩ := C10_link_listings k cs hwf i s a hs ha
  unfold simplicialH
  rw [e2]
  have hsorted : ∀ e ∈ AL.keys a.edges, e.Pairwise (· < ·) := fun e he => (hE e he).1
  obtain ⟨c1, c2⟩ := C10_simplicial (AL.keys a.edges) hsorted
  exact ⟨c1, c2, fun e he => C10_simplicial_contains_edges _ hsorted e he⟩

/-- **The object `simplicial_complex` returns.**  The routine ends with `S = Hypergraph(s_edges)`, `s_edges` a Python
set: `buildH l` is the full C01 model of that constructor call for the order `l` in which the set happens to be iterated
(any permutation of `simplicialH s`).  For every history and every such order: the constructor call is accepted (no
exception); `S` is itself an object reached through a history of well-formed public calls - so `C01_inv`,
`C01_refines`, `C01_incident_once` and every `C10_link_*` theorem apply to it again; `S.get_edges()` is `l`, i.e. exactly
the strictly increasing tuples inside one key of the abstract content `a` (the downward closure, every member once); and
the nodes of `S` are exactly the nodes that lie in some key of `a` (isolated nodes of `h` are not nodes of `S`). -/
theorem C10_link_simplicial_object (k : Nat) (cs : List C01.Cmd) (hwf : ∀ c ∈ cs, c.WF) (i : Nat) (s : C01.Store)
    (a : C01.Spec) (hs : (C01.run (C01.init k) cs)[i]? = some s)
    (ha : (C01.Spec.run (C01.Spec.init k) cs)[i]? = some a) (l : List Edge) (hl : l.Perm (simplicialH s)) :
    (buildH l).2 = .ok ∧
    ((∀ c ∈ [C01.Cmd.on 0 (.addEdges l none none)], c.WF) ∧
      (C01.run (C01.init 1) [.on 0 (.addEdges l none none)])[0]? = some (buildH l).1) ∧
    edgesH (buildH l).1 = l ∧ (edgesH (buildH l).1).Nodup ∧
    (∀ t, t ∈ edgesH (buildH l).1 ↔ t.Pairwise (· < ·) ∧ ∃ e ∈ AL.keys a.edges, ∀ x ∈ t, x ∈ e) ∧
    (∀ n, n ∈ nodesH (buildH l).1 ↔ ∃ e ∈ AL.keys a.edges, n ∈ e) := by
  obtain ⟨c1, c2, c3⟩ := C10_link_simplicial k cs hwf i s a hs ha
  have hsorted : ∀ t ∈ l, t.Pairwise (· < ·) := fun t ht => ((c1 t).1 (hl.mem_iff.1 ht)).1
  have hdf : ∀ t ∈ l, t.Nodup := fun t ht => (hsorted t ht).imp (fun h => Nat.ne_of_lt h)
  have hcan : ∀ t ∈ l, C01.canon t = t := fun t ht =>
    C01.canon_of_sorted ((hsorted t ht).imp (fun h => Nat.le_of_lt h))
  have hnd : l.Nodup := hl.nodup_iff.2 c2
  obtain ⟨b1, _, b3, b4⟩ := buildH_spec l hcan hnd hdf
  refine ⟨b1, ⟨?_, rfl⟩, b3, by rw [b3]; exact hnd, ?_, ?_⟩
  · intro c hc
    simp only [List.mem_singleton] at hc
    subst hc
    exact hdf
  · intro t
    rw [b3, hl.mem_iff]
    exact c1 t
  · intro n
    rw [b4]
    constructor
    · rintro ⟨t, ht, hn⟩
      obtain ⟨_, e, he, hsub⟩ := (c1 t).1 (hl.mem_iff.1 ht)
      exact ⟨e, he, hsub n hn⟩
    · rintro ⟨e, he, hn⟩
      exact ⟨e, hl.mem_iff.2 (c3 e he), hn⟩

/-- **`directed_line_graph` of any reachable `DirectedHypergraph`.**  For every history of constructor calls, copies
and public calls (C02's quantifier: sides non-empty and disjoint), the object `s` in a slot and the abstract content
`a` of that slot: `get_edges()` answers the key list of `a` (distinct pairs, `len(h)` many, `get_sources` /
`get_targets` its components); the routine returns - for BOTH distances, no `ZeroDivisionError`: sides of reachable
hyperedges are non-empty - a digraph on `0..m-1` with an arc `x → y` exactly when `x ≠ y` and the value of (target set
of key `x`, source set of key `y`) is at least `thr`, carrying the value as weight when `weighted`.  Every `thr`. -/
theorem C10_link_directed_line (cs : List C02.Cmd) (hcs : ∀ c ∈ cs, c.WF) (slot : Nat) (s : C02.Store)
    (a : C02.Spec) (hs : AL.get? (C02.runCmds [] cs) slot = some s)
    (ha : AL.get? (C02.Spec.runCmds [] cs) slot = some a) (d : Dist) (thr : Rat) (weighted : Bool) :
    C02.edges s .all false = some (AL.keys a.edges) ∧ C02.numEdges s = (AL.keys a.edges).length ∧
    C02.sources s = (AL.keys a.edges).map (·.1) ∧ C02.targets s = (AL.keys a.edges).map (·.2) ∧
    (AL.keys a.edges).Nodup ∧
    ∃ g, directedLineGraphD s d thr weighted = some g ∧
      AL.keys g.nodes = List.range (AL.keys a.edges).length ∧
      ∀ x y w, AL.get? g.adj (x, y) = some w ↔
        ∃ (hx : x < (AL.keys a.edges).length) (hy : y < (AL.keys a.edges).length), x ≠ y ∧
          thr ≤ distV d (AL.keys a.edges)[x].2 (AL.keys a.edges)[y].1 ∧
          w = if weighted then some (distV d (AL.keys a.edges)[x].2 (AL.keys a.edges)[y].1) else none := by
  obtain ⟨h, rfl⟩ := history02 cs hcs slot s a hs ha
  obtain ⟨q1, q2, q3, q4, q5⟩ := edgesD_eq s
  obtain ⟨hnd, hwf⟩ := dlistingOK_of_inv s h
  rw [abs_dlistings]
  refine ⟨q1, q3, q4, q5, hnd, ?_⟩
  unfold directedLineGraphD
  rw [q2]
  exact C10_directed_line _ d thr weighted hnd (fun _ e he f _ _ => Or.inl (hwf e he).2.1)

/-! ### non-vacuity: concrete histories (`C10.demoH`, `C10.demoD` in `Proofs/C10Link.lean`)

`demoH` (11 commands, 2 slots): insertions in permuted node order, a re-insertion, two removals (id gaps, isolated
nodes 8, 9 left behind), `{1,2}` removed and inserted again (it moves to the end of the listing), a copy,
`remove_node(3, keep_edges=True)` on the copy, a node added to the original afterwards. -/

/-- the hypotheses of the link theorems hold for `demoH`, slot 0 and slot 1, and the listings are non-trivial -/
example : (∀ c ∈ demoH, c.WF) ∧
    (∃ s a, (C01.run (C01.init 2) demoH)[0]? = some s ∧ (C01.Spec.run (C01.Spec.init 2) demoH)[0]? = some a ∧
      AL.keys a.nodes = [1, 2, 3, 8, 9, 4, 5, 7] ∧ AL.keys a.edges = [[1, 2, 3], [3, 4, 5], [1, 2]] ∧
      nodesH s = [1, 2, 3, 8, 9, 4, 5, 7] ∧ edgesH s = [[1, 2, 3], [3, 4, 5], [1, 2]] ∧
      incTableH s = [[[1, 2, 3], [1, 2]], [[1, 2, 3], [1, 2]], [[1, 2, 3], [3, 4, 5]], [], [], [[3, 4, 5]], [[3, 4, 5]], []] ∧
      incidentOK (edgesH s) (incTableH s) = true) ∧
    (∃ s a, (C01.run (C01.init 2) demoH)[1]? = some s ∧ (C01.Spec.run (C01.Spec.init 2) demoH)[1]? = some a ∧
      AL.keys a.nodes = [1, 2, 8, 9, 4, 5] ∧ edgesH s = [[1, 2], [4, 5]] ∧
      incTableH s = [[[1, 2]], [[1, 2]], [], [], [[4, 5]], [[4, 5]]]) :=
  ⟨demoH_wf, ⟨_, _, rfl, rfl, by decide⟩, ⟨_, _, rfl, rfl, by decide⟩⟩

/-- clique, bipartite and simplicial projections of the object in slot 0 of `demoH`, evaluated -/
example : ∃ s, (C01.run (C01.init 2) demoH)[0]? = some s ∧
    AL.get? (cliqueH false s).adj (5, 3) = some none ∧ AL.get? (cliqueH false s).adj (2, 4) = none ∧
    AL.keys (cliqueH false s).nodes = [1, 2, 3, 4, 5] ∧ AL.keys (cliqueH true s).nodes = [1, 2, 3, 8, 9, 4, 5, 7] ∧
    AL.get? (bipartiteH s).g.adj (.N 5, .E 1) = some none ∧ AL.get? (bipartiteH s).g.adj (.N 5, .E 2) = none ∧
    AL.get? (bipartiteH s).idToObj (.N 5) = some (.node 4) ∧ AL.get? (bipartiteH s).idToObj (.E 2) = some (.edge [1, 2]) ∧
    simplicialH s = [[], [1], [2], [3], [1, 2], [1, 3], [2, 3], [1, 2, 3], [4], [5], [3, 4], [3, 5], [4, 5], [3, 4, 5]] :=
  ⟨_, rfl, by decide⟩

/-- the object returned by `simplicial_complex` for slot 0 of `demoH` (set iterated in insertion order): accepted,
14 hyperedges, the isolated nodes 7, 8, 9 of the input are not nodes of it -/
example : ∃ s, (C01.run (C01.init 2) demoH)[0]? = some s ∧ (buildH (simplicialH s)).2 = .ok ∧
    (edgesH (buildH (simplicialH s)).1).length = 14 ∧ nodesH (buildH (simplicialH s)).1 = [1, 2, 3, 4, 5] ∧
    incidentH (buildH (simplicialH s)).1 4 = [[4], [3, 4], [4, 5], [3, 4, 5]] :=
  ⟨_, rfl, by decide⟩

/-- the line graph of the object in slot 0 of `demoH` (keys `{1,2,3}`, `{3,4,5}`, `{1,2}`), Jaccard, `s = 1/2`,
weighted: `0 — 2` with weight 2/3, no edge `0 — 1` (1/5 < 1/2), and `_distance` was called for the pairs (0,1), (0,2)
only -/
example : ∃ s r, (C01.run (C01.init 2) demoH)[0]? = some s ∧ lineGraphH s .jaccard (1 / 2) true = some r ∧
    AL.get? r.g.adj (2, 0) = some (some (2 / 3)) ∧ AL.get? r.g.adj (0, 1) = none ∧
    (0, 1) ∈ r.vis ∧ (0, 2) ∈ r.vis ∧ (1, 2) ∉ r.vis := by
  have key : ∀ s a, (C01.run (C01.init 2) demoH)[0]? = some s → (C01.Spec.run (C01.Spec.init 2) demoH)[0]? = some a →
      AL.keys a.edges = [[1, 2, 3], [3, 4, 5], [1, 2]] →
      ∃ r, lineGraphH s .jaccard (1 / 2) true = some r ∧
        AL.get? r.g.adj (2, 0) = some (some (2 / 3)) ∧ AL.get? r.g.adj (0, 1) = none ∧
        (0, 1) ∈ r.vis ∧ (0, 2) ∈ r.vis ∧ (1, 2) ∉ r.vis := by
    intro s a hs ha hk
    obtain ⟨_, r, h1, _, h3, _, h5⟩ := C10_link_line 2 demoH demoH_wf 0 s a hs ha .jaccard (1 / 2) true (by norm_num)
    generalize AL.keys a.edges = es at hk h3 h5
    subst hk
    have i20 : interSize [1, 2] [1, 2, 3] = 2 := by decide
    have u20 : unionSize [1, 2] [1, 2, 3] = 3 := by decide
    have i01 : interSize [1, 2, 3] [3, 4, 5] = 1 := by decide
    have u01 : unionSize [1, 2, 3] [3, 4, 5] = 5 := by decide
    refine ⟨r, h1, ?_, ?_, ?_, ?_, ?_⟩
    · rw [h3]; refine ⟨by decide, by decide, by decide, ?_, ?_⟩
      · simp [distV, i20, u20]; norm_num
      · simp [distV, i20, u20]
    · cases h : AL.get? r.g.adj (0, 1) with
      | none => rfl
      | some w =>
        obtain ⟨_, _, _, hle, _⟩ := (h3 0 1 w).1 h
        exfalso; simp [distV, i01, u01] at hle; norm_num at hle
    · rw [h5]; exact ⟨by decide, by decide, by decide, 3, by decide, by decide⟩
    · rw [h5]; exact ⟨by decide, by decide, by decide, 1, by decide, by decide⟩
    · rw [h5]; rintro ⟨_, _, _, n, hn1, hn2⟩
      have g1 : n ∈ [3, 4, 5] := hn1
      have g2 : n ∈ [1, 2] := hn2
      simp at g1 g2; omega
  obtain ⟨r, hr⟩ := key _ _ rfl rfl (by decide)
  exact ⟨_, r, rfl, hr⟩

/-- `demoD` (6 commands, 2 slots) is well-formed; the object in slot 0 lists `((3),(1,4))`, `((4),(2))`, `((1,2),(3))`
(the last one removed and inserted again), the copy in slot 1 lost node 4 (`keep_edges=True`) -/
example : (∀ c ∈ demoD, c.WF) ∧
    (∃ s a, AL.get? (C02.runCmds [] demoD) 0 = some s ∧ AL.get? (C02.Spec.runCmds [] demoD) 0 = some a ∧
      edgesD s = [([3], [1, 4]), ([4], [2]), ([1, 2], [3])] ∧ AL.keys a.edges = [([3], [1, 4]), ([4], [2]), ([1, 2], [3])]) ∧
    (∃ s a, AL.get? (C02.runCmds [] demoD) 1 = some s ∧ AL.get? (C02.Spec.runCmds [] demoD) 1 = some a ∧
      edgesD s = [([1, 2], [3]), ([3], [1])] ∧ AL.keys a.edges = [([1, 2], [3]), ([3], [1])]) :=
  ⟨demoD_wf, ⟨_, _, rfl, rfl, by decide⟩, ⟨_, _, rfl, rfl, by decide⟩⟩

/-- the directed line graph of the object in slot 0 of `demoD`, intersection, `s = 1`, unweighted: `0 → 1` (target
`{1,4}` meets source `{4}`), `2 → 0`, no arc `1 → 0` -/
example : ∃ s g, AL.get? (C02.runCmds [] demoD) 0 = some s ∧ directedLineGraphD s .intersection 1 false = some g ∧
    AL.get? g.adj (0, 1) = some none ∧ AL.get? g.adj (2, 0) = some none ∧ AL.get? g.adj (1, 0) = none := by
  have key : ∀ s a, AL.get? (C02.runCmds [] demoD) 0 = some s → AL.get? (C02.Spec.runCmds [] demoD) 0 = some a →
      AL.keys a.edges = [([3], [1, 4]), ([4], [2]), ([1, 2], [3])] →
      ∃ g, directedLineGraphD s .intersection 1 false = some g ∧
        AL.get? g.adj (0, 1) = some none ∧ AL.get? g.adj (2, 0) = some none ∧ AL.get? g.adj (1, 0) = none := by
    intro s a hs ha hk
    obtain ⟨_, _, _, _, _, g, h1, _, h3⟩ := C10_link_directed_line demoD demoD_wf 0 s a hs ha .intersection 1 false
    generalize AL.keys a.edges = es at hk h3
    subst hk
    have i01 : interSize [1, 4] [4] = 1 := by decide
    have i20 : interSize [3] [3] = 1 := by decide
    have i10 : interSize [2] [3] = 0 := by decide
    refine ⟨g, h1, ?_, ?_, ?_⟩
    · rw [h3]; exact ⟨by decide, by decide, by decide, by simp [distV, i01], by simp⟩
    · rw [h3]; exact ⟨by decide, by decide, by decide, by simp [distV, i20], by simp⟩
    · cases h : AL.get? g.adj (1, 0) with
      | none => rfl
      | some w =>
        obtain ⟨_, _, _, hle, _⟩ := (h3 1 0 w).1 h
        exfalso; simp [distV, i10] at hle; norm_num at hle
  obtain ⟨g, hg⟩ := key _ _ rfl rfl (by decide)
  exact ⟨_, g, rfl, hg⟩

/-! ## float thresholds (strengthening round e)

The code computes the Jaccard similarity as the ROUNDED quotient `fl (i / u)` (a float) and compares it with the
threshold the caller hands in, which is a float too; the theorems above speak of the exact quotient and a rational `s`.
The two lemmas below are the reduction the harness uses (`model_threshold` in `harness/c10.py`) to hand a float
threshold to the model; they hold for ANY monotone rounding `fl` (IEEE round-to-nearest is one; that is TRUSTED[0]):
* a threshold that IS the float of a ratio `q` (`s = 0.2`, `s = 1/3`) accepts exactly the ratios `w ≥ q`, provided the
  rounding keeps the ratios that can occur (`A`: quotients of integers ≤ 12) apart,
* any other float threshold `s` (one ulp above `3/5`, `3 * 0.2`, `0.5 * (1 + 1e-10)`), which is the float of no ratio
  that occurs, accepts exactly the ratios `w ≥ s` with `s` read as the exact dyadic rational.
In both cases no tolerance is involved: a pair whose similarity is below the threshold by one ulp is not joined. -/

/-- threshold = the float of a ratio that can occur -/
theorem C10_threshold_on_rounded_value (fl : Rat → Rat) (mono : ∀ a b, a ≤ b → fl a ≤ fl b)
    (A : Rat → Prop) (inj : ∀ a b, A a → A b → fl a = fl b → a = b) (w q : Rat) (hw : A w) (hq : A q) :
    fl q ≤ fl w ↔ q ≤ w := by
  constructor
  · intro h
    rcases lt_or_ge w q with hlt | hge
    · have h1 : fl w ≤ fl q := mono _ _ (le_of_lt hlt)
      have h2 : fl w = fl q := le_antisymm h1 h
      exact absurd (inj w q hw hq h2) (ne_of_lt hlt)
    · exact hge
  · intro h
    exact mono _ _ h

/-- threshold = a float that is the float of no ratio at hand -/
theorem C10_threshold_off_rounded_values (fl : Rat → Rat) (mono : ∀ a b, a ≤ b → fl a ≤ fl b)
    (s : Rat) (hs : fl s = s) (w : Rat) (hne : fl w ≠ s) :
    s ≤ fl w ↔ s ≤ w := by
  constructor
  · intro h
    rcases lt_or_ge w s with hlt | hge
    · have h1 : fl w ≤ fl s := mono _ _ (le_of_lt hlt)
      rw [hs] at h1
      exact absurd (le_antisymm h1 h) hne
    · exact hge
  · intro h
    have h1 := mono _ _ h
    rwa [hs] at h1

/-- non-vacuity (the hypotheses are satisfiable: the identity is a monotone rounding): the threshold 3/5 + 2^-53, one
ulp above the ratio 3/5, is the rounded value of no ratio at hand and does not accept 3/5 -/
example : ((3 : Rat) / 5 + 1 / 9007199254740992 ≤ id ((3 : Rat) / 5)) ↔ ((3 : Rat) / 5 + 1 / 9007199254740992 ≤ 3 / 5) :=
  C10_threshold_off_rounded_values id (fun _ _ h => h) _ rfl _ (by norm_num)

example : (id ((3 : Rat) / 5) ≤ id ((2 : Rat) / 3)) ↔ ((3 : Rat) / 5 ≤ 2 / 3) :=
  C10_threshold_on_rounded_value id (fun _ _ h => h) (fun _ => True) (fun _ _ _ _ h => h) _ _ trivial trivial
