import Hgxv.Proofs.C19A
import Hgxv.Proofs.C19K
import Hgxv.Proofs.C19W
import Hgxv.Proofs.C19B
import Hgxv.Proofs.C19P
import Hgxv.Proofs.C19S
import Hgxv.Proofs.C19L
import Hgxv.Proofs.C19V
import Hgxv.Proofs.C19F
import Hgxv.Proofs.C19C
import Hgxv.Proofs.C19G
import Hgxv.Proofs.C19LinkC02
/-! # C19 - filters keep exactly what the criteria say; validation p-values follow the definition

Model: `Hgxv/Model/C19.lean`.  Part A is generic in the container (`KeyOps κ`: `nodesOf`, `shrink`) and in the
weight type.  Hypotheses `(AL.keys c.nodes).Nodup`, `(AL.keys c.edges).Nodup`, `WF ops c` are the class
invariants of the four containers (distinct nodes, distinct keys, nodes of keys are nodes: C01-C04);
`Lawful ops` (a shrunk key has the same nodes except the removed one) is proved for the three `KeyOps`
instances below.  Part B: `edges` is `get_edges()` with `get_weight`, keys distinct and strictly increasing
tuples (`Hypergraph.add_edge` sorts; hyperedges are duplicate-free node tuples). -/
open C19

/-! ## Part A: `filter_hypergraph` -/

/-- criteria matching: every attribute's value (`None` when missing) is among the allowed values -/
theorem C19_matches_def (md : Md) (crit : Crit) :
    matchesCrit md crit = true ↔ ∀ p ∈ crit, mdGet md p.1 ∈ p.2 := by
  simp [matchesCrit, List.all_eq_true]

/-- an item survives its criteria iff it matches them (mode keep) / does not match them (mode remove);
without criteria everything survives -/
theorem C19_survives_iff (crit : Option Crit) (mode : Mode) (md : Md) :
    critSel crit mode md = false ↔
      match crit, mode with
      | none, _ => True
      | some cr, .keep => matchesCrit md cr = true
      | some cr, .remove => matchesCrit md cr = false := by
  cases crit <;> cases mode <;> simp [critSel, selected]

/-- the removed nodes are exactly the nodes whose metadata fail the node criteria -/
theorem C19_removed_iff {κ ω : Type} (c : Content κ ω) (nc : Option Crit) (mode : Mode)
    (n : Node) :
    n ∈ removedNodes c nc mode ↔ ∃ md, (n, md) ∈ c.nodes ∧ critSel nc mode md = true := by
  cases nc with
  | none => simp [removedNodes, critSel]
  | some cr =>
    simp only [removedNodes, nodesToProcess, critSel, List.mem_map, List.mem_filter]
    constructor
    · rintro ⟨x, ⟨hx, hs⟩, rfl⟩; exact ⟨x.2, hx, hs⟩
    · rintro ⟨md, hx, hs⟩; exact ⟨(n, md), ⟨hx, hs⟩, rfl⟩

/-- `keep_edges=False`, closed form: the result is the input with the failing nodes filtered out and with
exactly the records that pass the hyperedge criteria and contain no removed node; order, weights and metadata
of everything that survives are untouched (the result lists are sublists of the input lists). -/
theorem C19_filter_drop {κ ω : Type} [DecidableEq κ] [Add ω] (ops : KeyOps κ) (c : Content κ ω)
    (nc ec : Option Crit) (mode : Mode) (hn : (AL.keys c.nodes).Nodup) (he : (AL.keys c.edges).Nodup) :
    filterHg ops c nc ec mode false =
      { weighted := c.weighted,
        nodes := c.nodes.filter (fun x => !critSel nc mode x.2),
        edges := c.edges.filter (fun e =>
          (ops.nodesOf e.1).all (fun m => !(removedNodes c nc mode).contains m) && !critSel ec mode e.2.2) } :=
  filterHg_drop ops c nc ec mode hn he

/-- `keep_edges=False` in the property's words. -/
theorem C19_filter {κ ω : Type} [DecidableEq κ] [Add ω] (ops : KeyOps κ) (c : Content κ ω)
    (nc ec : Option Crit) (mode : Mode) (hn : (AL.keys c.nodes).Nodup) (he : (AL.keys c.edges).Nodup) :
    let r := filterHg ops c nc ec mode false
    (∀ x, x ∈ r.nodes ↔ x ∈ c.nodes ∧ critSel nc mode x.2 = false) ∧
    (∀ e, e ∈ r.edges ↔ e ∈ c.edges ∧ critSel ec mode e.2.2 = false ∧
        ∀ n ∈ ops.nodesOf e.1, n ∉ removedNodes c nc mode) ∧
    (AL.keys r.nodes).Nodup ∧ (AL.keys r.edges).Nodup ∧ r.weighted = c.weighted := by
  intro r
  have hr : r = _ := filterHg_drop ops c nc ec mode hn he
  rw [hr]
  refine ⟨fun x => ?_, fun e => ?_, al_keys_filter_nodup _ _ hn, al_keys_filter_nodup _ _ he, rfl⟩
  · simp [List.mem_filter]
  · simp only [List.mem_filter, Bool.and_eq_true, List.all_eq_true, Bool.not_eq_true', ← Bool.not_eq_true,
      List.contains_iff_mem]
    constructor
    · rintro ⟨h1, h2, h3⟩; exact ⟨h1, by simpa using h3, h2⟩
    · rintro ⟨h1, h2, h3⟩; exact ⟨h1, h3, by simpa using h2⟩

/-! ### `keep_edges=True`: hyperedges incident to removed nodes are shrunk and merged -/

/-- the three container instances satisfy the law used below: the shrunk key has the nodes of the key except `n` -/
theorem C19_lawful_H : Lawful opsH := by
  intro k n k' h m
  simp only [opsH, Option.some.injEq] at h
  subst h; simp [opsH, without]

theorem C19_lawful_T : Lawful opsT := by
  intro k n k' h m
  simp only [opsT] at h
  split at h
  · cases h
  · cases h; simp [opsT, without]

theorem C19_lawful_D : Lawful opsD := by
  intro k n k' h m
  simp only [opsD] at h
  split at h
  · cases h
  · cases h
    simp only [opsD, without, List.mem_append, List.mem_filter, ne_eq, decide_not, Bool.not_eq_true',
      decide_eq_false_iff_not]
    constructor
    · rintro (⟨h1, h2⟩ | ⟨h1, h2⟩); exact ⟨Or.inl h1, h2⟩; exact ⟨Or.inr h1, h2⟩
    · rintro ⟨h1 | h1, h2⟩; exact Or.inl ⟨h1, h2⟩; exact Or.inr ⟨h1, h2⟩

/-- for `Hypergraph` the key after the removal of `R` is the key without the nodes of `R` (also when it is `()`) -/
theorem C19_shrinkAll_H (R : List Node) (k : Key) :
    shrinkAll opsH R k = some (k.1.filter (fun m => !R.contains m), k.2) := by
  induction R generalizing k with
  | nil => simp [shrinkAll]
  | cons n R ih =>
    have hstep : stepKey opsH n k = some (without k.1 n, k.2) := by
      unfold stepKey
      split
      · rfl
      · rename_i h
        have : without k.1 n = k.1 := by
          apply List.filter_eq_self.mpr
          intro a ha
          have : a ≠ n := fun hh => h (by simpa [opsH] using hh ▸ ha)
          simpa using this
        rw [this]
    rw [shrinkAll_cons, hstep, Option.bind_some, ih]
    simp only [without, List.filter_filter]
    congr 2
    apply List.filter_congr
    intro a _
    rw [Bool.eq_iff_iff]
    simp only [Bool.and_eq_true, Bool.not_eq_true', ← Bool.not_eq_true, List.contains_iff_mem, List.mem_cons, not_or,
      decide_eq_true_eq, ne_eq]
    exact And.comm

/-- the two loop shapes of `remove_node(keep_edges=True)` - all re-insertions then all removals (`Hypergraph`,
`DirectedHypergraph`; `ops.batch = true`) or record by record (`TemporalHypergraph`, `MultiplexHypergraph`) - leave
the same content, so everything below holds for both -/
theorem C19_loop_orders_agree {κ ω : Type} [DecidableEq κ] [Add ω] (ops : KeyOps κ) (hlaw : Lawful ops)
    (c : Content κ ω) (n : Node) :
    keepLoop ops n c (incident ops c n) = (incident ops c n).foldl (shrinkOne ops n) c :=
  keepLoop_eq ops hlaw c n

/-- ONE `remove_node(n, keep_edges=True)` (the shrink-merge semantics of the containers): the result is well formed,
the node is gone, no key contains `n`, and a key `k2` without `n` holds the old value of `k2` (if any) merged, in
adjacency order, with the records incident to `n` whose shrunk key is `k2` (`mergeInto`: weights add when weighted,
the incoming metadata replaces the old one). -/
theorem C19_removeNode_keep {κ ω : Type} [DecidableEq κ] [Add ω] (ops : KeyOps κ) (hlaw : Lawful ops)
    (c : Content κ ω) (hwf : WF ops c) (n : Node) :
    let r := removeNode ops true c n
    WF ops r ∧ r.weighted = c.weighted ∧ r.nodes = AL.erase c.nodes n ∧
    ∀ k2, AL.get? r.edges k2 =
      if n ∈ ops.nodesOf k2 then none
      else ((incident ops c n).filter (fun e => decide (ops.shrink e.1 n = some k2))).foldl
            (mergeInto c.weighted) (AL.get? c.edges k2) :=
  ⟨removeNode_keep_wf ops hlaw c hwf n, removeNode_keep_weighted ops hlaw c n, removeNode_keep_nodes ops hlaw c hwf n,
   removeNode_keep_get? ops hlaw c hwf n⟩

/-- `keep_edges=True` in the property's words.  `s` is the content after the node phase (the shrunk hyperedges):
* the nodes are exactly the nodes passing the node criteria, with their metadata;
* the hyperedges are exactly the shrunk hyperedges passing the hyperedge criteria, with the weight and metadata
  they have in `s`;
* the keys of `s` are exactly the images `shrinkAll R k` of the input keys (`R` = removed nodes), none of them
  contains a removed node, the metadata of a shrunk hyperedge is the metadata of an input hyperedge shrunk to it,
  and an input hyperedge that is the only one shrunk to its image keeps its weight and metadata (in particular
  every hyperedge that no removal touches). -/
theorem C19_filter_keep {κ ω : Type} [DecidableEq κ] [Add ω] (ops : KeyOps κ) (hlaw : Lawful ops)
    (c : Content κ ω) (hwf : WF ops c) (nc ec : Option Crit) (mode : Mode) :
    let R := removedNodes c nc mode
    let s := nodePhase ops c nc mode true
    let r := filterHg ops c nc ec mode true
    (∀ x, x ∈ r.nodes ↔ x ∈ c.nodes ∧ critSel nc mode x.2 = false) ∧
    (∀ e, e ∈ r.edges ↔ e ∈ s.edges ∧ critSel ec mode e.2.2 = false) ∧
    WF ops r ∧ r.weighted = c.weighted ∧
    (∀ k2, k2 ∈ AL.keys s.edges ↔ ∃ k ∈ AL.keys c.edges, shrinkAll ops R k = some k2) ∧
    (∀ e ∈ s.edges, ∀ n ∈ R, n ∉ ops.nodesOf e.1) ∧
    (∀ e2 ∈ s.edges, ∃ e ∈ c.edges, shrinkAll ops R e.1 = some e2.1 ∧ e2.2.2 = e.2.2) ∧
    (∀ e ∈ c.edges, ∀ k2, shrinkAll ops R e.1 = some k2 →
        (∀ e' ∈ c.edges, shrinkAll ops R e'.1 = some k2 → e' = e) → (k2, e.2) ∈ s.edges) := by
  intro R s r
  have hs : s = R.foldl (removeNode ops true) c := by
    cases nc <;> rfl
  obtain ⟨h1, h2, h3, h4, h5, h6⟩ := foldl_removeNode_keep ops hlaw R c hwf
  rw [← hs] at h1 h2 h3 h4 h5 h6
  have hr : r = { s with edges := s.edges.filter (fun e => !critSel ec mode e.2.2) } :=
    edgePhase_eq s ec mode h1.keysNodup
  have hnodes : ∀ x, x ∈ s.nodes ↔ x ∈ c.nodes ∧ critSel nc mode x.2 = false := by
    intro x
    rw [h3, List.mem_filter]
    constructor
    · rintro ⟨hx, hc⟩
      rw [removedNodes_contains c nc mode hwf.nodesNodup hx] at hc
      exact ⟨hx, by simpa using hc⟩
    · rintro ⟨hx, hc⟩
      rw [removedNodes_contains c nc mode hwf.nodesNodup hx]
      exact ⟨hx, by simpa using hc⟩
  have hfree : ∀ e ∈ s.edges, ∀ n ∈ R, n ∉ ops.nodesOf e.1 := by
    intro e he n hn hmem
    have := h1.closed e he n hmem
    obtain ⟨x, hx, hxn⟩ := List.mem_map.mp this
    rw [h3, List.mem_filter] at hx
    have hxn' : x.1 = n := hxn
    rw [hxn'] at hx
    simp only [Bool.not_eq_true', ← Bool.not_eq_true, List.contains_iff_mem] at hx
    exact hx.2 hn
  refine ⟨?_, ?_, ?_, ?_, h4, hfree, h5, h6⟩
  · intro x; rw [hr]; exact hnodes x
  · intro e; rw [hr]; simp [List.mem_filter]
  · rw [hr]
    exact ⟨h1.nodesNodup, al_keys_filter_nodup _ _ h1.keysNodup,
      fun e he m hm => h1.closed e (List.mem_filter.mp he).1 m hm⟩
  · rw [hr]; exact h2

/-- weights of the shrunk hyperedges (`s` as above).  Weighted container, weights in any commutative additive
monoid: the weight of a shrunk hyperedge is the SUM of the weights of the input hyperedges shrunk to it.
Unweighted container: weights are never combined, every weight is the weight of an input hyperedge shrunk to
that key (so all weights stay `1` when all were `1`). -/
theorem C19_filter_keep_weight {κ ω : Type} [DecidableEq κ] [AddCommMonoid ω] (ops : KeyOps κ) (hlaw : Lawful ops)
    (c : Content κ ω) (hwf : WF ops c) (nc : Option Crit) (mode : Mode) :
    let R := removedNodes c nc mode
    let s := nodePhase ops c nc mode true
    (c.weighted = true → ∀ e2 ∈ s.edges,
      e2.2.1 = ((c.edges.filter (fun e => decide (shrinkAll ops R e.1 = some e2.1))).map (·.2.1)).sum) ∧
    (c.weighted = false → ∀ e2 ∈ s.edges, ∃ e ∈ c.edges, shrinkAll ops R e.1 = some e2.1 ∧ e2.2.1 = e.2.1) := by
  intro R s
  have hs : s = R.foldl (removeNode ops true) c := by
    cases nc <;> rfl
  constructor
  · intro hw e2 he2
    have hwf2 : WF ops s := hs ▸ (foldl_removeNode_keep ops hlaw R c hwf).1
    have h1 := foldl_removeNode_keep_wsum ops hlaw R (fun k => decide (k = e2.1)) c hwf hw
    rw [← hs, wsum_eq_key s.edges hwf2.keysNodup e2 he2] at h1
    rw [h1]
    unfold wsum
    congr 2
    apply List.filter_congr
    intro e _
    unfold pullAll
    cases h : shrinkAll ops R e.1 with
    | none => simp
    | some k' => simp
  · intro hw
    rw [hs]
    exact foldl_removeNode_keep_w_unweighted ops hlaw R c hwf hw

/-- `filter_hypergraph` returns: in the model with rejections (`remove_node` raises on an absent node, `remove_edge`
on an absent key) no call made by the filter is rejected, and the result is the one characterised above.
(Exceptions of other kinds - the `TypeError`s of D12/D15 - are outside the model; the harness observes them.
For `opsD` the content model speaks about the code only when no hyperedge has a node on both sides - the quantifier of
C02 / C19 and part of the C02 invariant; with such a hyperedge `DirectedHypergraph.remove_node` raises, see
`C19_link_C02_overlap`.) -/
theorem C19_filter_returns {κ ω : Type} [DecidableEq κ] [Add ω] (ops : KeyOps κ) (hlaw : Lawful ops)
    (c : Content κ ω) (hwf : WF ops c) (nc ec : Option Crit) (mode : Mode) (keepEdges : Bool) :
    filterHg? ops c nc ec mode keepEdges = some (filterHg ops c nc ec mode keepEdges) :=
  filterHg?_eq ops hlaw c hwf nc ec mode keepEdges

/-! #### non-vacuity: a weighted `Hypergraph` with a shrink-merge, both modes -/

/-- nodes 1 (type=1), 2 (type=2), 3 (no metadata); hyperedges (1,2,3):2, (1,3):1, (2):4 -/
def C19.exampleContent : Content Key Nat :=
  { weighted := true,
    nodes := [(1, [(0, some 1)]), (2, [(0, some 2)]), (3, [])],
    edges := [(([1, 2, 3], []), (2, [(5, some 1)])), (([1, 3], []), (1, [])), (([2], []), (4, [(5, some 2)]))] }

example : WF opsH C19.exampleContent := ⟨by decide, by decide, by decide⟩
/-- the hypotheses of the keep-mode theorems hold on it (weights in the commutative monoid `Nat`) -/
example := C19_filter_keep opsH C19_lawful_H C19.exampleContent ⟨by decide, by decide, by decide⟩
  (some [(0, [some 1, none])]) (some [(5, [some 1])]) .keep
example := (C19_filter_keep_weight opsH C19_lawful_H C19.exampleContent ⟨by decide, by decide, by decide⟩
  (some [(0, [some 1, none])]) .keep).1 rfl
/-- the rejections are real: an absent node / key is refused -/
example : (removeNode? opsH true C19.exampleContent 7).isNone ∧
    (removeEdge? C19.exampleContent ([1, 2], [])).isNone ∧
    (removeEdge? C19.exampleContent ([1, 3], [])).isSome := by decide
example : removedNodes C19.exampleContent (some [(0, [some 1, none])]) .keep = [2] := by decide
example : shrinkAll opsH [2] ([1, 2, 3], []) = some ([1, 3], []) ∧ shrinkAll opsT [2] ([2], [0]) = none ∧
    shrinkAll opsD [2] ([1, 2], [3]) = some ([1], [3]) ∧ shrinkAll opsD [2] ([1], [2]) = none := by decide
/-- keep nodes whose `type` is 1 or missing, shrink: (1,2,3) merges into (1,3) (weights 2+1, metadata of (1,2,3)),
(2) becomes the empty hyperedge -/
example : (filterHg opsH C19.exampleContent (some [(0, [some 1, none])]) none .keep true).edges =
    [(([1, 3], []), (3, [(5, some 1)])), (([], []), (4, [(5, some 2)]))] := by decide
example : (filterHg opsH C19.exampleContent (some [(0, [some 1, none])]) (some [(5, [some 1])]) .remove false).edges =
    [(([2], []), (4, [(5, some 2)]))] := by decide
example : (filterHg opsT C19.exampleContent (some [(0, [some 2])]) none .remove true).nodes =
    [(1, [(0, some 1)]), (3, [])] := by decide

/-! ## Part B: `get_svh` -/

/-- parameters of the null model: for a hyperedge `e` of weight `w`, `n12(e) = w`; `N_n` is the total weight of
the size-`n` hyperedges; `K_i` the total weight of the size-`n` hyperedges containing `i`. -/
theorem C19_svh_params (edges : List (List Nat × Nat)) (hnd : (edges.map (·.1)).Nodup)
    (hsorted : ∀ f ∈ edges, f.1.Pairwise (· < ·)) :
    (∀ e w, (e, w) ∈ edges → n12 (subOcc (expand edges) e.length) e = w) ∧
    (∀ n, (subOcc (expand edges) n).length =
        ((edges.filter (fun f => decide (f.1.length = n))).map (·.2)).sum) ∧
    (∀ n i, degK (subOcc (expand edges) n) i =
        ((edges.filter (fun f => f.1.contains i && decide (f.1.length = n))).map (·.2)).sum) :=
  ⟨fun e w he => n12_eq_weight edges hnd hsorted e w he, subOcc_length edges, degK_eq edges⟩

/-- the rows of the table of size `n` carry exactly these parameters -/
theorem C19_svh_rows (sf : Nat → Nat → Rat → Rat) (occ : List (List Nat)) (n : Nat) :
    ∀ r ∈ rowsOf sf occ n, r.w = n12 (subOcc occ n) r.edge ∧ r.N = (subOcc occ n).length ∧
      r.ks = r.edge.map (degK (subOcc occ n)) ∧ r.p = sf (r.w - 1) r.N (prodRatio r.ks r.N) := by
  intro r hr
  simp only [rowsOf, List.mem_map] at hr
  obtain ⟨e, _, rfl⟩ := hr
  exact ⟨rfl, rfl, rfl, rfl⟩

/-- every hyperedge of positive weight and of size within `[2, bound]` is reported exactly once, under its size:
there is exactly one table per occurring size (and none for other sizes), the rows of a table are distinct and are
exactly the hyperedges of that size. -/
theorem C19_svh_once (sf : Nat → Nat → Rat → Rat) (alpha : Rat) (edges : List (List Nat × Nat)) (bound : Nat) :
    let tables := svh sf alpha edges bound
    (tables.map (·.size)).Nodup ∧
    (∀ n, n ∈ tables.map (·.size) ↔ (2 ≤ n ∧ n ≤ bound) ∧ ∃ e w, (e, w) ∈ edges ∧ 0 < w ∧ e.length = n) ∧
    (∀ t ∈ tables, ((t.rows.map (·.1.edge)).Nodup ∧
        ∀ e, e ∈ t.rows.map (·.1.edge) ↔ (∃ w, (e, w) ∈ edges ∧ 0 < w) ∧ e.length = t.size)) := by
  intro tables
  have hsizes : tables.map (·.size) = sizesOf (expand edges) bound := by
    simp only [tables, svh, List.map_map]
    conv => rhs; rw [← List.map_id (sizesOf (expand edges) bound)]
    apply List.map_congr_left
    intro n _; rfl
  refine ⟨hsizes ▸ sizesOf_nodup _ _, fun n => ?_, fun t ht => ?_⟩
  · rw [hsizes, mem_sizesOf]
    constructor
    · rintro ⟨h, o, ho, hl⟩
      obtain ⟨w, hw, hpos⟩ := (mem_expand edges o).mp ho
      exact ⟨h, o, w, hw, hpos, hl⟩
    · rintro ⟨h, e, w, hw, hpos, hl⟩
      exact ⟨h, e, (mem_expand edges e).mpr ⟨w, hw, hpos⟩, hl⟩
  · simp only [tables, svh, List.mem_map] at ht
    obtain ⟨n, _, rfl⟩ := ht
    have hrows : (sizeTable sf alpha (expand edges) n).rows.map (·.1.edge) = tuplesOf (expand edges) n := by
      simp only [sizeTable, rowsOf, List.map_map]
      conv => rhs; rw [← List.map_id (tuplesOf (expand edges) n)]
      apply List.map_congr_left
      intro e _; rfl
    rw [hrows]
    refine ⟨tuplesOf_nodup _ _, fun e => ?_⟩
    rw [mem_tuplesOf, mem_expand]
    rfl

/-- the p-value: with the exact survival function in place of `scipy.stats.binom.sf`, the p-value of a row of
weight `w ≥ 1` is `P(X ≥ w) = Σ_{j=w}^{N} C(N,j) p^j (1-p)^(N-j)` with `p = Π_i K_i / N`. -/
theorem C19_svh_pvalue (w N : Nat) (ks : List Nat) (hw : 1 ≤ w) :
    pvalueWith sfExact w N ks =
      ∑ j ∈ Finset.Ico w (N + 1), (N.choose j : ℚ) * ((ks.map (fun (k : Nat) => (k : ℚ) / (N : ℚ))).prod) ^ j *
        (1 - (ks.map (fun (k : Nat) => (k : ℚ) / (N : ℚ))).prod) ^ (N - j) := by
  unfold pvalueWith sfExact
  rw [show w - 1 + 1 = w by omega, tail_eq_sum, prodRatio_eq]

/-- sanity of the exact tail: the whole law has mass one -/
theorem C19_svh_tail_total (N : Nat) (p : ℚ) : tail 0 N p = 1 := tail_zero N p

/-- the threshold is the step-up value: with `p_(1) ≤ p_(2) ≤ ..` the sorted p-values and `k_i = i * bonf`, it is
`0` when no `p_(i) < k_i`, and `k_i` for the LAST `i` with `p_(i) < k_i` otherwise. -/
theorem C19_svh_threshold (ps : List Rat) (bonf : Rat) :
    let s := ps.mergeSort (fun a b => a ≤ b)
    s.Perm ps ∧ s.Pairwise (· ≤ ·) ∧
    ((∀ j (h : j < s.length), ¬ s[j] < ((j + 1 : Nat) : Rat) * bonf) → threshold ps bonf = 0) ∧
    (∀ j (h : j < s.length), s[j] < ((j + 1 : Nat) : Rat) * bonf →
      (∀ j' (h' : j' < s.length), j < j' → ¬ s[j'] < ((j' + 1 : Nat) : Rat) * bonf) →
      threshold ps bonf = ((j + 1 : Nat) : Rat) * bonf) := by
  intro s
  refine ⟨List.mergeSort_perm _ _, ?_, ?_, ?_⟩
  · have := List.pairwise_mergeSort (le := fun (a b : Rat) => decide (a ≤ b))
      (fun a b c h1 h2 => by simp only [decide_eq_true_eq] at *; exact Rat.le_trans h1 h2)
      (fun a b => by simp only [Bool.or_eq_true, decide_eq_true_eq]; exact Rat.le_total) ps
    simpa using this
  · intro h
    have := (stepUp_spec bonf s 1 0).1 (fun j hj => by simpa [Nat.add_comm] using h j hj)
    exact this
  · intro j hj hhit hlast
    have := (stepUp_spec bonf s 1 0).2 j hj (by simpa [Nat.add_comm] using hhit)
      (fun j' hj' hlt => by simpa [Nat.add_comm] using hlast j' hj' hlt)
    show stepUp bonf s 1 0 = _
    simpa [Nat.add_comm] using this

/-- the table of one size: the threshold is the step-up threshold of the table's own p-values with
`bonf = alpha / C(n_a, n)`, and a row is validated iff its p-value is strictly below it. -/
theorem C19_svh_flags (sf : Nat → Nat → Rat → Rat) (alpha : Rat) (occ : List (List Nat)) (n : Nat) :
    let t := sizeTable sf alpha occ n
    t.bonf = alpha / ((numNodes occ n).choose n : ℚ) ∧
    t.thr = threshold (t.rows.map (·.1.p)) t.bonf ∧
    ∀ r ∈ t.rows, (r.2 = true ↔ r.1.p < t.thr) := by
  intro t
  refine ⟨by simp [t, sizeTable, bonfOf, choose_eq], ?_, ?_⟩
  · simp only [t, sizeTable, List.map_map]
    congr 1
  · intro r hr
    simp only [t, sizeTable, List.mem_map] at hr
    obtain ⟨r0, _, rfl⟩ := hr
    simp [t, sizeTable, validated]

/-- the validated set is a lower set of the p-values: a hyperedge is never validated while another one of the same
size with a smaller (or equal) p-value is not. -/
theorem C19_svh_lower_set (sf : Nat → Nat → Rat → Rat) (alpha : Rat) (occ : List (List Nat)) (n : Nat) :
    ∀ r1 ∈ (sizeTable sf alpha occ n).rows, ∀ r2 ∈ (sizeTable sf alpha occ n).rows,
      r1.1.p ≤ r2.1.p → r2.2 = true → r1.2 = true := by
  intro r1 h1 r2 h2 hle hv
  have hf := (C19_svh_flags sf alpha occ n).2.2
  exact (hf r1 h1).mpr (lt_of_le_of_lt hle ((hf r2 h2).mp hv))

/-- step-up, not step-down: with `bonf ≥ 0` (i.e. `alpha ≥ 0`), if the `(j+1)`-th smallest p-value is below its line
`(j+1)·bonf`, then the threshold is at least that line and ALL of the `j+1` smallest p-values are validated - also those
that are not below their own line. (`C19_svh_threshold` says which line the threshold is; this is the consequence that
distinguishes the rule from a scan that stops at the first failure.) -/
theorem C19_svh_step_up (ps : List Rat) (bonf : Rat) (hb : 0 ≤ bonf) :
    let s := ps.mergeSort (fun a b => a ≤ b)
    ∀ j (h : j < s.length), s[j] < ((j + 1 : Nat) : Rat) * bonf →
      ((j + 1 : Nat) : Rat) * bonf ≤ threshold ps bonf ∧
      ∀ i (hi : i ≤ j), validated ps bonf (s[i]'(by omega)) = true := by
  intro s j hj hhit
  have hsorted : s.Pairwise (· ≤ ·) := by
    have := List.pairwise_mergeSort (le := fun (a b : Rat) => decide (a ≤ b))
      (fun a b c h1 h2 => by simp only [decide_eq_true_eq] at *; exact Rat.le_trans h1 h2)
      (fun a b => by simp only [Bool.or_eq_true, decide_eq_true_eq]; exact Rat.le_total) ps
    simpa using this
  have hthr : ((j + 1 : Nat) : Rat) * bonf ≤ threshold ps bonf := by
    have := stepUp_ge_hit bonf hb s 1 0 j hj (by simpa [Nat.add_comm] using hhit)
    show _ ≤ stepUp bonf s 1 0
    simpa [Nat.add_comm] using this
  refine ⟨hthr, fun i hi => ?_⟩
  have hle : s[i]'(by omega) ≤ s[j] := by
    rcases Nat.lt_or_eq_of_le hi with hlt | heq
    · exact (List.pairwise_iff_getElem.mp hsorted) i j (by omega) hj hlt
    · subst heq; exact le_refl _
  simp only [validated, decide_eq_true_eq]
  exact lt_of_le_of_lt hle (lt_of_lt_of_le hhit hthr)

/-- the inequality of the rule is STRICT: if from rank `i+1` on (0-based position `i`) every sorted p-value lies ON or
above its line `(j+1)·bonf` - equality included -, then the threshold is at most the line `i·bonf` of the rank before,
and none of those p-values is validated. With `i = 0`: when no p-value is strictly below its line, the threshold is 0
and nothing is validated, however many p-values sit exactly on their lines (a rule reading `p ≤ line` would take such
a rank for the threshold and validate every smaller p-value: seeded change C19-d2). Hypothesis `bonf ≥ 0` = `alpha ≥ 0`. -/
theorem C19_svh_on_the_line (ps : List Rat) (bonf : Rat) (hb : 0 ≤ bonf) :
    let s := ps.mergeSort (fun a b => a ≤ b)
    ∀ i, (∀ j (hj : j < s.length), i ≤ j → ((j + 1 : Nat) : Rat) * bonf ≤ s[j]) →
      threshold ps bonf ≤ ((i : Nat) : Rat) * bonf ∧
      ∀ j (hj : j < s.length), i ≤ j → validated ps bonf s[j] = false := by
  intro s i hon
  have hthr : threshold ps bonf ≤ ((i : Nat) : Rat) * bonf := by
    show stepUp bonf s 1 0 ≤ _
    apply stepUp_le
    · exact mul_nonneg (by exact_mod_cast Nat.zero_le i) hb
    · intro j hj hhit
      have hji : j < i := by
        apply Decidable.byContradiction
        intro hge
        have := hon j hj (by omega)
        rw [Nat.add_comm] at hhit
        exact absurd hhit (not_lt.mpr this)
      have hc : ((1 + j : Nat) : Rat) ≤ ((i : Nat) : Rat) := by exact_mod_cast (by omega : 1 + j ≤ i)
      exact mul_le_mul_of_nonneg_right hc hb
  refine ⟨hthr, fun j hj hij => ?_⟩
  have h1 : ((i : Nat) : Rat) * bonf ≤ ((j + 1 : Nat) : Rat) * bonf :=
    mul_le_mul_of_nonneg_right (by exact_mod_cast (by omega : i ≤ j + 1)) hb
  have h2 := hon j hj hij
  simp only [validated, decide_eq_false_iff_not, not_lt]
  exact le_trans hthr (le_trans h1 h2)

/-- the p-value of a row is never 0: for a hyperedge of weight `1 ≤ w ≤ N` whose nodes have degrees `0 < K_i ≤ N`
(what `C19_svh_params` gives for every row: `K_i ≥ w`, `N ≥ K_i`) the exact binomial tail is at least
`(prod_i K_i/N) ^ N > 0` and at most 1. (A hyperedge reported with p-value 0 is below every line and is validated
whatever alpha is: seeded change C19-d1 returned 0.0 for `prod K_i/N < 1e-16`.) -/
theorem C19_svh_pvalue_pos (w N : Nat) (ks : List Nat) (hw : 1 ≤ w) (hwN : w ≤ N) (hk : ∀ k ∈ ks, 0 < k ∧ k ≤ N) :
    ((ks.map (fun (k : Nat) => (k : ℚ) / (N : ℚ))).prod) ^ N ≤ pvalueWith sfExact w N ks ∧
    0 < pvalueWith sfExact w N ks ∧ pvalueWith sfExact w N ks ≤ 1 := by
  obtain ⟨hp0, hp1⟩ := ratios_prod_bounds ks N hk
  unfold pvalueWith sfExact
  rw [show w - 1 + 1 = w by omega, prodRatio_eq]
  exact tail_bounds w N _ hwN hp0 hp1

/-! #### non-vacuity of part B: hyperedges (1,2):3, (2,3):1, (1,2,3):2, (7):5 -/

def C19.exampleEdges : List (List Nat × Nat) := [([1, 2], 3), ([2, 3], 1), ([1, 2, 3], 2), ([7], 5)]

example : (C19.exampleEdges.map (·.1)).Nodup ∧ ∀ f ∈ C19.exampleEdges, f.1.Pairwise (· < ·) := by decide
example : n12 (subOcc (expand C19.exampleEdges) 2) [1, 2] = 3 ∧ (subOcc (expand C19.exampleEdges) 2).length = 4 ∧
    degK (subOcc (expand C19.exampleEdges) 2) 2 = 4 ∧ degK (subOcc (expand C19.exampleEdges) 2) 1 = 3 := by decide
example : tuplesOf (expand C19.exampleEdges) 2 = [[1, 2], [2, 3]] := by decide
/-- sizes 2 and 3 are reported, size 1 (the hyperedge (7)) and size 4 are not -/
example : let sizes := (svh sfExact (1/100) C19.exampleEdges 5).map (·.size)
    2 ∈ sizes ∧ 3 ∈ sizes ∧ 1 ∉ sizes ∧ 4 ∉ sizes := by
  intro sizes
  have h := (C19_svh_once sfExact (1/100) C19.exampleEdges 5).2.1
  refine ⟨(h 2).mpr ⟨by decide, [1, 2], 3, by decide⟩, (h 3).mpr ⟨by decide, [1, 2, 3], 2, by decide⟩, ?_, ?_⟩
  · intro h1; exact absurd ((h 1).mp h1).1.1 (by decide)
  · intro h4
    obtain ⟨_, e, w, he, _, hl⟩ := (h 4).mp h4
    have : ∀ f ∈ C19.exampleEdges, f.1.length ≠ 4 := by decide
    exact this (e, w) he hl
/-- with bound 2 the size-3 hyperedge is not reported -/
example : 3 ∉ (svh sfExact (1/100) C19.exampleEdges 2).map (·.size) := by
  intro h3
  exact absurd ((C19_svh_once sfExact (1/100) C19.exampleEdges 2).2.1 3 |>.mp h3).1.2 (by decide)
/-- p-value of (1,2): N = 4, K = (3, 4), weight 3: P(Bin(4, 3/4) ≥ 3) = 189/256 -/
example : pvalueWith sfExact 3 4 [3, 4] = 189/256 := by
  norm_num [pvalueWith, sfExact, tail, pmf, prodRatio, choose, fact, List.range, List.range.loop]
/-- step-up: sorted p-values 1/1000 < 1/100, 1/300 < 2/100, 1/2 ≥ 3/100: threshold 2/100, two rows validated -/
example : threshold [1/1000, 1/2, 1/300] (1/100) = 1/50 := by
  norm_num [threshold, stepUp, List.mergeSort, List.merge]
example : validated [1/1000, 1/2, 1/300] (1/100) (1/300) = true ∧
    validated [1/1000, 1/2, 1/300] (1/100) (1/2) = false := by
  norm_num [validated, threshold, stepUp, List.mergeSort, List.merge]
/-- no hit: threshold 0, nothing validated -/
example : threshold [1/2, 1/3] (1/100) = 0 := by
  norm_num [threshold, stepUp, List.mergeSort, List.merge]
/-- positions 1 and 2 are not below their lines (3/100 ≥ 1/80, 3/100 ≥ 2/80) but position 3 is (3/100 < 3/80):
the threshold is 3/80 and all three tied rows are validated (a step-down scan would stop at position 1) -/
example : threshold [3/100, 3/100, 3/100] (1/80) = 3/80 ∧ validated [3/100, 3/100, 3/100] (1/80) (3/100) = true := by
  norm_num [validated, threshold, stepUp, List.mergeSort, List.merge]
/-- p_(1) = 1/50 ≥ 1/60 but p_(2) = 1/40 < 2/60: both validated -/
example : threshold [1/40, 1/50] (1/60) = 1/30 ∧ validated [1/40, 1/50] (1/60) (1/50) = true := by
  norm_num [validated, threshold, stepUp, List.mergeSort, List.merge]
/-- ON the line: p_(2) = 1/20 = 2·(1/40) exactly and p_(1) = 3/100 ≥ 1/40: no rank is strictly below its line, the
threshold is 0 and 3/100 is NOT validated (with `p ≤ line` the threshold would be 1/20 and 3/100 validated) -/
example : threshold [1/20, 3/100] (1/40) = 0 ∧ validated [1/20, 3/100] (1/40) (3/100) = false := by
  norm_num [validated, threshold, stepUp, List.mergeSort, List.merge]
/-- the hypothesis of `C19_svh_on_the_line` with `i = 0` holds for that table (second rank with equality) -/
example : (3/100 : Rat) ∈ [1/20, 3/100] ∧ ((0 + 1 : Nat) : Rat) * (1/40) ≤ 3/100 ∧ ((1 + 1 : Nat) : Rat) * (1/40) ≤ 1/20 ∧
    ((1 + 1 : Nat) : Rat) * (1/40) = 1/20 := by
  refine ⟨by simp, by norm_num, by norm_num, by norm_num⟩
/-- rank 1 strictly below (1/100 < 1/40), rank 2 on its line (1/20 = 2/40): the threshold stays the first line -/
example : threshold [1/20, 1/100] (1/40) = 1/40 ∧ validated [1/20, 1/100] (1/40) (1/100) = true ∧
    validated [1/20, 1/100] (1/40) (1/20) = false := by
  norm_num [validated, threshold, stepUp, List.mergeSort, List.merge]
/-- ten nodes of degree 1 among 50 hyperedges seen once: the p-value is the tiny positive number
1 - (1 - 50^-10)^50, not 0 -/
example : 0 < pvalueWith sfExact 1 50 [1, 1, 1, 1, 1, 1, 1, 1, 1, 1] ∧
    ((1 : ℚ) / 50) ^ 10 ≤ pvalueWith sfExact 1 50 [1, 1, 1, 1, 1, 1, 1, 1, 1, 1] := by
  have h := C19_svh_pvalue_pos 1 50 [1, 1, 1, 1, 1, 1, 1, 1, 1, 1] (by decide) (by decide) (by decide)
  refine ⟨h.2.1, ?_⟩
  have hsf : pvalueWith sfExact 1 50 [1, 1, 1, 1, 1, 1, 1, 1, 1, 1] = tail 1 50 (((1 : ℚ) / 50) ^ 10) := by
    unfold pvalueWith sfExact
    rw [prodRatio_eq]
    norm_num
  rw [hsf, tail_eq_sum]
  have hmem : 1 ∈ Finset.Ico 1 (50 + 1) := by simp
  have hq : (0 : ℚ) ≤ 1 - ((1 : ℚ) / 50) ^ 10 := by norm_num
  have := Finset.single_le_sum (f := fun j => ((50 : ℕ).choose j : ℚ) * (((1 : ℚ) / 50) ^ 10) ^ j * (1 - ((1 : ℚ) / 50) ^ 10) ^ (50 - j))
    (fun j _ => by positivity) hmem
  refine le_trans ?_ this
  norm_num

/-! ## Links to the full container models C01 … C04

`Proofs/C19LinkBase.lean`, `C19LinkC01 … C19LinkC04.lean`.  `ofSpec0x : C0x.Spec → Content Key Int` reads the abstract
state of a container model (C01 `Hypergraph`, C02 `DirectedHypergraph`, C03 `TemporalHypergraph`, C04
`MultiplexHypergraph`) as C19 content (`view0x s = ofSpec0x (C0x.abs s)` for a concrete store; weights are the models'
`Int` quanta, metadata values `v` become `some v`).  Hypothesis `C0x.Inv s` (`Inv02 s = C02.Inv ∧ C02.Ord ∧ C02.Unw` for
C02) is the class invariant C01 … C04 prove for every reachable object (`C19_link_reachable`); `WF`, `Lawful`, distinct
keys are discharged from it.  C02 with `keep_edges=True` has one more hypothesis, `NoNone (view02 s)`: no stored hyperedge
metadata is the bare value None (`C02.metaNone`; C02's metadata may be any JSON value) - see `C19_link_C02_calls`,
`C19_link_C02_noneMeta`. -/

/-- criteria read the container's metadata: `metadata.get(attr)` on the image is the plain lookup -/
theorem C19_link_mdGet (m : List (Nat × Nat)) (a : Nat) : mdGet (mdOf m) a = AL.get? m a := mdGet_mdOf m a

/-- every object reachable by a history of well-formed public calls of the four full models satisfies the
hypothesis of the link theorems, and its content is well formed in C19's sense -/
theorem C19_link_reachable :
    (∀ (k : Nat) (cs : List C01.Cmd), (∀ c ∈ cs, c.WF) → ∀ s ∈ C01.run (C01.init k) cs,
      C01.Inv s ∧ WF opsH (view01 s)) ∧
    (∀ (cs : List C02.Cmd), (∀ c ∈ cs, c.WF) → ∀ slot s, AL.get? (C02.runCmds [] cs) slot = some s →
      Inv02 s ∧ WF opsD (view02 s)) ∧
    (∀ (s : C03.Store), C03.Reachable s → C03.Inv s ∧ WF opsT (view03 s)) ∧
    (∀ (w : Bool) (hm : C04.HMeta) (ops : List C04.Op), (∀ op ∈ ops, op.WF) →
      C04.Inv (C04.run (C04.init w hm) ops) ∧ WF opsT (view04 (C04.run (C04.init w hm) ops))) := by
  refine ⟨?_, ?_, ?_, ?_⟩
  · intro k cs hwf s hs
    have h := C01.run_inv cs (C01.init k) hwf (C01.init_inv k) s hs
    exact ⟨h, (dyn01_of_inv s h).wf⟩
  · intro cs hcs slot s hs
    obtain ⟨h, o, u⟩ := C02.runCmds_all [] cs hcs (fun _ _ h => by simp [AL.get?] at h)
      (fun _ _ h => by simp [AL.get?] at h) (fun _ _ h => by simp [AL.get?] at h)
    have h2 : Inv02 s := ⟨h slot s hs, o slot s hs, u slot s hs⟩
    exact ⟨h2, (dyn02_of_inv s h2).wf⟩
  · intro s hr
    have h := C03.reachable_inv hr
    exact ⟨h, (dyn03_of_inv s h).wf⟩
  · intro w hm ops hw
    have h := C04.run_inv _ ops (C04.inv_init w hm) hw
    exact ⟨h, (dyn04_of_inv _ h).wf⟩

/-- **C01, call by call.**  On the abstract `Hypergraph` of a store satisfying the invariant, `remove_node(n, keep_edges)`
and `remove_edge(raw)` of `C01.Spec` are C19's content operations under `ofSpec01`, accepted exactly when C19's checked
twins `removeNode?` / `removeEdge?` accept; a rejected call leaves the state as it is. -/
theorem C19_link_C01_calls (s : C01.Store) (h : C01.Inv s) (n : Node) (keep : Bool) (raw : List Nat) :
    let a := C01.abs s
    (((C01.Spec.removeNode a n keep).2 = .ok ↔ (removeNode? opsH keep (ofSpec01 a) n).isSome) ∧
     ((C01.Spec.removeNode a n keep).2 = .ok →
        ofSpec01 (C01.Spec.removeNode a n keep).1 = removeNode opsH keep (ofSpec01 a) n) ∧
     ((C01.Spec.removeNode a n keep).2 = .rej → (C01.Spec.removeNode a n keep).1 = a)) ∧
    (((C01.Spec.removeEdge a raw).2 = .ok ↔ (removeEdge? (ofSpec01 a) (keyH (C01.canon raw))).isSome) ∧
     ((C01.Spec.removeEdge a raw).2 = .ok →
        ofSpec01 (C01.Spec.removeEdge a raw).1 = removeEdge (ofSpec01 a) (keyH (C01.canon raw))) ∧
     ((C01.Spec.removeEdge a raw).2 = .rej → (C01.Spec.removeEdge a raw).1 = a)) := by
  intro a
  have hd := dyn01_of_inv s h
  obtain ⟨l1, l2⟩ := removeNode01 a hd n keep
  obtain ⟨e1, e2⟩ := removeEdge01 a raw (keys_nodup_of_mapKV keyH recOf _ hd.wf.keysNodup)
  have hpres : (AL.get? (ofSpec01 a).nodes n).isSome = (AL.get? a.nodes n).isSome := by
    simp only [nodes01_get, Option.isSome_map]
  constructor
  · unfold removeNode?
    rw [hpres]
    by_cases hn : (AL.get? a.nodes n).isSome = true
    · obtain ⟨a1, a2⟩ := l1 hn
      simp [hn, a1, a2]
    · have hnf : (AL.get? a.nodes n).isSome = false := by simpa using hn
      simp [hnf, l2 hnf]
  · unfold removeEdge?
    by_cases hp : (AL.get? (ofSpec01 a).edges (keyH (C01.canon raw))).isSome = true
    · obtain ⟨a1, a2⟩ := e1 hp
      simp [hp, a1, a2]
    · have hpf : (AL.get? (ofSpec01 a).edges (keyH (C01.canon raw))).isSome = false := by simpa using hp
      simp [hpf, e2 hpf]

/-- **C02, call by call** (keys with sorted sides; the invariant includes "no node on both sides", see
`C19_link_C02_overlap` for what happens without it).  For `keep_edges=True` the hypothesis `hnn` is added: the object
satisfies the class invariant and no stored hyperedge metadata is the bare value None (`NoNone`) - then
`remove_node(keep_edges=True)` would reset it to `{}` (the re-insertion passes it as the `metadata` ARGUMENT of `add_edge`,
where None means "not given"), which the content model of C19 does not express (`C19_link_C02_noneMeta`); C19's filters
never read metadata of re-inserted hyperedges, they carry it.  `keep_edges=False` needs no such hypothesis. -/
theorem C19_link_C02_calls (s : C02.Store) (h : Inv02 s) (n : Node) (keep : Bool) (k : Key)
    (hk : k.1.Pairwise (· ≤ ·) ∧ k.2.Pairwise (· ≤ ·)) (hnn : keep = true → NoNone (ofSpec02 (C02.abs s))) :
    let a := C02.abs s
    (((C02.Spec.removeNode a n keep).2 = .ok ↔ (removeNode? opsD keep (ofSpec02 a) n).isSome) ∧
     ((C02.Spec.removeNode a n keep).2 = .ok →
        ofSpec02 (C02.Spec.removeNode a n keep).1 = removeNode opsD keep (ofSpec02 a) n) ∧
     ((C02.Spec.removeNode a n keep).2 = .rej → (C02.Spec.removeNode a n keep).1 = a)) ∧
    (((C02.Spec.removeEdge a (C02.RawEdge.ofKey k)).2 = .ok ↔ (removeEdge? (ofSpec02 a) k).isSome) ∧
     ((C02.Spec.removeEdge a (C02.RawEdge.ofKey k)).2 = .ok →
        ofSpec02 (C02.Spec.removeEdge a (C02.RawEdge.ofKey k)).1 = removeEdge (ofSpec02 a) k) ∧
     ((C02.Spec.removeEdge a (C02.RawEdge.ofKey k)).2 = .rej → (C02.Spec.removeEdge a (C02.RawEdge.ofKey k)).1 = a)) := by
  intro a
  have hd := dyn02_of_inv s h
  obtain ⟨l1, l2⟩ := removeNode02 a hd n keep hnn
  obtain ⟨e1, e2⟩ := removeEdgeKey02 a k
  have hpres : (AL.get? (ofSpec02 a).nodes n).isSome = (AL.get? a.nodes n).isSome := by
    simp only [nodes02_get, Option.isSome_map]
  constructor
  · unfold removeNode?
    rw [hpres]
    by_cases hn : (AL.get? a.nodes n).isSome = true
    · obtain ⟨a1, a2⟩ := l1 hn
      simp [hn, a1, a2]
    · have hnf : (AL.get? a.nodes n).isSome = false := by simpa using hn
      simp [hnf, l2 hnf]
  · unfold removeEdge?
    rw [removeEdge02 a k hk]
    by_cases hp : (AL.get? (ofSpec02 a).edges k).isSome = true
    · obtain ⟨a1, a2⟩ := e1 hp
      simp [hp, a1, a2]
    · have hpf : (AL.get? (ofSpec02 a).edges k).isSome = false := by simpa using hp
      simp [hpf, e2 hpf]

/-- the corner outside the invariant, where the two semantics differ: `add_edge(((1,2),(1,3)))` is accepted; then
`remove_node(1)` is REJECTED by the abstract `DirectedHypergraph` in both modes (as by the code: the hyperedge is listed
once per role, the second `remove_edge` raises `ValueError`), while C19's content model - which lists it once - accepts.
The content of that state violates the invariant (node 1 on both sides), so no link theorem speaks about it. -/
theorem C19_link_C02_overlap :
    let a := (C02.Spec.addEdge {} (C02.RawEdge.ofLists [1, 2] [1, 3]) none none).1
    (C02.Spec.addEdge {} (C02.RawEdge.ofLists [1, 2] [1, 3]) none none).2 = .ok ∧
    (C02.Spec.removeNode a 1 false).2 = .rej ∧ (C02.Spec.removeNode a 1 true).2 = .rej ∧
    (removeNode? opsD true (ofSpec02 a) 1).isSome = true ∧ ¬ Dyn02 (ofSpec02 a) := overlap02_rejected

/-- the corner outside the side condition `NoNone` of `keep_edges=True`: after `set_edge_metadata(((1,2),(3)), None)` the
stored metadata is the bare value None; `remove_node(2, keep_edges=True)` on the object re-inserts `((1),(3))` with `{}`
(as the code: `add_edge(.., metadata=None)`), the content model of C19 carries None over; with `keep_edges=False` the two
agree on that state. -/
theorem C19_link_C02_noneMeta :
    let s := C02.run {} [.addEdge (.ofLists [1, 2] [3]) none none, .setEdgeMeta (.ofLists [1, 2] [3]) C02.metaNone]
    (view02 s).edges = [(([1, 2], [3]), (C02.one, mdOf C02.metaNone))] ∧ ¬ NoNone (view02 s) ∧
    (rmNode02 true s 2).2 = true ∧
    (view02 (rmNode02 true s 2).1).edges = [(([1], [3]), (C02.one, []))] ∧
    (removeNode opsD true (view02 s) 2).edges = [(([1], [3]), (C02.one, mdOf C02.metaNone))] ∧
    (view02 (rmNode02 false s 2).1).edges = (removeNode opsD false (view02 s) 2).edges := noneMeta02_differs

/-- **C03, call by call.** -/
theorem C19_link_C03_calls (s : C03.Store) (h : C03.Inv s) (n : Node) (keep : Bool) (k : C03.Key) :
    let a := C03.abs s
    (((C03.Spec.removeNode a n keep).2 = .ok ↔ (removeNode? opsT keep (ofSpec03 a) n).isSome) ∧
     ((C03.Spec.removeNode a n keep).2 = .ok →
        ofSpec03 (C03.Spec.removeNode a n keep).1 = removeNode opsT keep (ofSpec03 a) n) ∧
     ((C03.Spec.removeNode a n keep).2 = .rej → (C03.Spec.removeNode a n keep).1 = a)) ∧
    (((C03.Spec.removeKey a k).2 = .ok ↔ (removeEdge? (ofSpec03 a) (keyT k)).isSome) ∧
     ((C03.Spec.removeKey a k).2 = .ok → ofSpec03 (C03.Spec.removeKey a k).1 = removeEdge (ofSpec03 a) (keyT k)) ∧
     ((C03.Spec.removeKey a k).2 = .rej → (C03.Spec.removeKey a k).1 = a)) := by
  intro a
  have hd := dyn03_of_inv s h
  obtain ⟨l1, l2⟩ := removeNode03 a hd n keep
  obtain ⟨e1, e2⟩ := removeKey03 a k
  have hpres : (AL.get? (ofSpec03 a).nodes n).isSome = (AL.get? a.nodes n).isSome := by
    simp only [nodes03_get, Option.isSome_map]
  constructor
  · unfold removeNode?
    rw [hpres]
    by_cases hn : (AL.get? a.nodes n).isSome = true
    · obtain ⟨a1, a2⟩ := l1 hn
      simp [hn, a1, a2]
    · have hnf : (AL.get? a.nodes n).isSome = false := by simpa using hn
      simp [hnf, l2 hnf]
  · unfold removeEdge?
    by_cases hp : (AL.get? (ofSpec03 a).edges (keyT k)).isSome = true
    · obtain ⟨a1, a2⟩ := e1 hp
      simp [hp, a1, a2]
    · have hpf : (AL.get? (ofSpec03 a).edges (keyT k)).isSome = false := by simpa using hp
      simp [hpf, e2 hpf]

/-- **C04, call by call.** -/
theorem C19_link_C04_calls (s : C04.Store) (h : C04.Inv s) (n : Node) (keep : Bool) (raw : List Nat) (l : C04.Layer) :
    let a := C04.abs s
    (((C04.Spec.removeNode a n keep).2 = .ok ↔ (removeNode? opsT keep (ofSpec04 a) n).isSome) ∧
     ((C04.Spec.removeNode a n keep).2 = .ok →
        ofSpec04 (C04.Spec.removeNode a n keep).1 = removeNode opsT keep (ofSpec04 a) n) ∧
     ((C04.Spec.removeNode a n keep).2 = .rej → (C04.Spec.removeNode a n keep).1 = a)) ∧
    (((C04.Spec.removeEdge a raw l).2 = .ok ↔ (removeEdge? (ofSpec04 a) (keyM (C04.canon raw, l))).isSome) ∧
     ((C04.Spec.removeEdge a raw l).2 = .ok →
        ofSpec04 (C04.Spec.removeEdge a raw l).1 = removeEdge (ofSpec04 a) (keyM (C04.canon raw, l))) ∧
     ((C04.Spec.removeEdge a raw l).2 = .rej → (C04.Spec.removeEdge a raw l).1 = a)) := by
  intro a
  have hd := dyn04_of_inv s h
  obtain ⟨l1, l2⟩ := removeNode04 a hd n keep
  obtain ⟨e1, e2⟩ := removeEdge04 a raw l (keys_nodup_of_mapKV keyM recOf _ hd.wf.keysNodup)
  have hpres : (AL.get? (ofSpec04 a).nodes n).isSome = (AL.get? a.nodes n).isSome := by
    simp only [nodes04_get, Option.isSome_map]
  constructor
  · unfold removeNode?
    rw [hpres]
    by_cases hn : (AL.get? a.nodes n).isSome = true
    · obtain ⟨a1, a2⟩ := l1 hn
      simp [hn, a1, a2]
    · have hnf : (AL.get? a.nodes n).isSome = false := by simpa using hn
      simp [hnf, l2 hnf]
  · unfold removeEdge?
    by_cases hp : (AL.get? (ofSpec04 a).edges (keyM (C04.canon raw, l))).isSome = true
    · obtain ⟨a1, a2⟩ := e1 hp
      simp [hp, a1, a2]
    · have hpf : (AL.get? (ofSpec04 a).edges (keyM (C04.canon raw, l))).isSome = false := by simpa using hp
      simp [hpf, e2 hpf]

/-- **`filter_hypergraph` on the objects of the four full models.**  `filterVia view rmNode rmEdge` is the run of public
calls the filter makes on an object (`remove_node(n, keep_edges)` for the nodes listed from the object's content, then
`remove_edge` for the hyperedges listed from the object left by the node phase; `rmNode0x` / `rmEdge0x` are the models'
`apply … (.removeNode ..)` / `(.removeEdge ..)` with their verdicts).  For every object satisfying the class invariant:
no call is rejected, the invariant holds afterwards, and the content of the resulting object is `filterHg` of the content
of the input (for a `DirectedHypergraph` object with `keep_edges=True`: satisfying the class invariant and no stored
hyperedge metadata is the bare value None - then `remove_node(keep_edges=True)` would reset it to `{}`, which the content
model of C19 does not express; C19's filters never read metadata of the hyperedges they re-insert; the side condition
`NoNone` holds again afterwards) - so `C19_filter`, `C19_filter_keep`, `C19_filter_keep_weight`, `C19_filter_returns` speak about the
objects of the full models (`C19_link_words_*` below spell that out). -/
theorem C19_link_filter (nc ec : Option Crit) (mode : Mode) (keep : Bool) :
    (∀ s, C01.Inv s →
      let r := filterVia view01 (rmNode01 keep) rmEdge01 s nc ec mode
      r.2 = true ∧ C01.Inv r.1 ∧ view01 r.1 = filterHg opsH (view01 s) nc ec mode keep) ∧
    (∀ s, Inv02 s → (keep = true → NoNone (view02 s)) →
      let r := filterVia view02 (rmNode02 keep) rmEdge02 s nc ec mode
      r.2 = true ∧ Inv02 r.1 ∧ view02 r.1 = filterHg opsD (view02 s) nc ec mode keep ∧
        (keep = true → NoNone (view02 r.1))) ∧
    (∀ s, C03.Inv s →
      let r := filterVia view03 (rmNode03 keep) rmEdge03 s nc ec mode
      r.2 = true ∧ C03.Inv r.1 ∧ view03 r.1 = filterHg opsT (view03 s) nc ec mode keep) ∧
    (∀ s, C04.Inv s →
      let r := filterVia view04 (rmNode04 keep) rmEdge04 s nc ec mode
      r.2 = true ∧ C04.Inv r.1 ∧ view04 r.1 = filterHg opsT (view04 s) nc ec mode keep) :=
  ⟨fun s h => filter01 s h nc ec mode keep, fun s h hnn => filter02 s h nc ec mode keep hnn,
   fun s h => filter03 s h nc ec mode keep, fun s h => filter04 s h nc ec mode keep⟩

/-- **`keep_edges=False` in the property's words, on the objects.**  `c` = content of the object before, `c'` = content
of the object after the filter's calls (any of the four models: `ops`, `c`, `c'` as delivered by `C19_link_filter`):
the nodes are exactly the nodes passing the node criteria, the hyperedges exactly those passing the hyperedge criteria and
containing no removed node, each with its weight and metadata. -/
theorem C19_link_words_drop (ops : KeyOps Key) (c c' : Content Key Int) (hwf : WF ops c) (nc ec : Option Crit)
    (mode : Mode) (hc' : c' = filterHg ops c nc ec mode false) :
    (∀ x, x ∈ c'.nodes ↔ x ∈ c.nodes ∧ critSel nc mode x.2 = false) ∧
    (∀ e, e ∈ c'.edges ↔ e ∈ c.edges ∧ critSel ec mode e.2.2 = false ∧
        ∀ n ∈ ops.nodesOf e.1, n ∉ removedNodes c nc mode) ∧
    WF ops c' := by
  have h := C19_filter ops c nc ec mode hwf.nodesNodup hwf.keysNodup
  simp only at h
  rw [← hc'] at h
  refine ⟨h.1, h.2.1, ?_⟩
  have hf := filterHg_drop ops c nc ec mode hwf.nodesNodup hwf.keysNodup
  refine ⟨h.2.2.1, h.2.2.2.1, ?_⟩
  intro e he m hm
  obtain ⟨he1, _, he3⟩ := (h.2.1 e).mp he
  have hmn := hwf.closed e he1 m hm
  obtain ⟨x, hx, hxm⟩ := List.mem_map.mp hmn
  have hxn : critSel nc mode x.2 = false := by
    cases hcs : critSel nc mode x.2 with
    | false => rfl
    | true =>
      exfalso
      apply he3 m hm
      exact (C19_removed_iff c nc mode m).mpr ⟨x.2, by rw [← hxm]; exact hx, hcs⟩
  exact List.mem_map.mpr ⟨x, (h.1 x).mpr ⟨hx, hxn⟩, hxm⟩

/-- **`keep_edges=True` in the property's words, on the objects** (`u` = the model's unit weight, `C0x.one`; `Dyn` is what
`dyn0x_of_inv` gives): nodes exact; hyperedges = the shrunk hyperedges (content `sN` after the node phase) passing the
hyperedge criteria; the keys of `sN` are the images of the input keys; weighted: every weight is the SUM of the weights of
the input hyperedges shrunk to that key; unweighted: every weight is still the unit weight. -/
theorem C19_link_words_keep (ops : KeyOps Key) (hlaw : Lawful ops) (u : Int) (Canon : Key → Prop) (c c' : Content Key Int)
    (hd : Dyn ops u Canon c) (nc ec : Option Crit) (mode : Mode) (hc' : c' = filterHg ops c nc ec mode true) :
    let R := removedNodes c nc mode
    let sN := nodePhase ops c nc mode true
    (∀ x, x ∈ c'.nodes ↔ x ∈ c.nodes ∧ critSel nc mode x.2 = false) ∧
    (∀ e, e ∈ c'.edges ↔ e ∈ sN.edges ∧ critSel ec mode e.2.2 = false) ∧
    WF ops c' ∧
    (∀ k2, k2 ∈ AL.keys sN.edges ↔ ∃ k ∈ AL.keys c.edges, shrinkAll ops R k = some k2) ∧
    (∀ e ∈ sN.edges, ∀ n ∈ R, n ∉ ops.nodesOf e.1) ∧
    (c.weighted = true → ∀ e2 ∈ sN.edges,
      e2.2.1 = ((c.edges.filter (fun e => decide (shrinkAll ops R e.1 = some e2.1))).map (·.2.1)).sum) ∧
    (c.weighted = false → ∀ e2 ∈ sN.edges, e2.2.1 = u) := by
  intro R sN
  have h := C19_filter_keep ops hlaw c hd.wf nc ec mode
  have hw := C19_filter_keep_weight ops hlaw c hd.wf nc mode
  simp only at h hw
  rw [← hc'] at h
  refine ⟨h.1, h.2.1, h.2.2.1, h.2.2.2.2.1, h.2.2.2.2.2.1, hw.1, ?_⟩
  intro hwt e2 he2
  obtain ⟨e, he, _, hew⟩ := hw.2 hwt e2 he2
  rw [hew]
  exact hd.unitw hwt e he

/-- non-vacuity of the links: a weighted `Hypergraph` built by public calls of the C01 model (nodes 1 (type=1),
2 (type=2), 3; hyperedges (1,2,3):2, (1,3):1, (2):4 in quanta 8, 4, 16); the filter "keep type ∈ {1, missing}" with
`keep_edges=True` runs without rejection on the STORE and leaves (1,3) with weight 8+4 and the empty hyperedge -/
def C19.linkDemo : List C01.Cmd :=
  [.new 0 true [], .on 0 (.addNode 1 (some [(0, 1)])), .on 0 (.addNode 2 (some [(0, 2)])),
   .on 0 (.addEdge [3, 2, 1] (some 8) (some [(5, 1)])), .on 0 (.addEdge [1, 3] (some 4) none),
   .on 0 (.addEdge [2] (some 16) (some [(5, 2)]))]

example : ∀ c ∈ C19.linkDemo, c.WF := by
  intro c hc
  simp only [C19.linkDemo, List.mem_cons, List.not_mem_nil, or_false] at hc
  rcases hc with h | h | h | h | h | h <;> subst h <;> simp [C01.Cmd.WF, C01.Op.WF]
example :
    ∃ s, (C01.run (C01.init 1) C19.linkDemo)[0]? = some s ∧
      (view01 s).edges = [(([1, 2, 3], []), (8, [(5, some 1)])), (([1, 3], []), (4, [])), (([2], []), (16, [(5, some 2)]))] ∧
      removedNodes (view01 s) (some [(0, [some 1, none])]) .keep = [2] ∧
      (filterVia view01 (rmNode01 true) rmEdge01 s (some [(0, [some 1, none])]) none .keep).2 = true ∧
      (view01 (filterVia view01 (rmNode01 true) rmEdge01 s (some [(0, [some 1, none])]) none .keep).1).edges =
        [(([1, 3], []), (12, [(5, some 1)])), (([], []), (16, [(5, some 2)]))] ∧
      (view01 (filterVia view01 (rmNode01 true) rmEdge01 s (some [(0, [some 1, none])]) none .keep).1).nodes =
        [(1, [(0, some 1)]), (3, [])] :=
  ⟨_, rfl, by decide, by decide, by decide, by decide, by decide⟩
/-- a directed, a temporal and a multiplex object: `remove_node(2, keep_edges=True)` on the store, read as content -/
example : (view02 (rmNode02 true (C02.run { weighted := true }
      [.addEdge (.ofLists [1, 2] [3]) (some 8) none, .addEdge (.ofLists [1] [2, 3]) (some 4) none]) 2).1).edges =
    [(([1], [3]), (12, []))] := by decide
/-- the hypotheses of the C02 link with `keep_edges=True` are satisfiable: that object has no bare-None hyperedge metadata -/
example : NoNone (view02 (C02.run { weighted := true }
      [.addEdge (.ofLists [1, 2] [3]) (some 8) none, .addEdge (.ofLists [1] [2, 3]) (some 4) none])) := by
  intro e he
  have : e.2.2 = [] := by
    revert e
    decide
  rw [this]; decide
example : (view03 (rmNode03 true (C03.applyOp (C03.applyOp (C03.Store.new true)
      (.addEdge [1, 2] (.int 5) (some 8) none)).1 (.addEdge [2] (.int 5) (some 4) none)).1 2).1).edges =
    [(([1], [5]), (8, []))] := by decide
example : (view04 (rmNode04 true (C04.run (C04.init true)
      [.addEdge [1, 2] 7 (some 8) none, .addEdge [1] 7 (some 4) none, .addEdge [2] 3 (some 4) none]) 2).1).edges =
    [(([1], [7]), (12, []))] := by decide

/-! ### Part A: the allowed values of a criterion count as a set (strengthening round 3) -/

/-- Criteria matching is `metadata.get(attr) in values`: only the MEMBERSHIP of the allowed values matters. Two criteria
dictionaries with the same attributes whose allowed values have the same members - in whatever order and multiplicity,
i.e. whether the caller hands them over as a list, a tuple, a set, a frozenset, the keys of a dict or a range - select the
same items, remove the same nodes and leave the same content, for every container type, both modes, both `keep_edges`.
(Object identity does not exist in the model: that equal label / value OBJECTS are treated alike by the implementation
is what the correspondence check on freshly constructed objects establishes.) -/
theorem C19_allowed_values_as_set {κ ω : Type} [DecidableEq κ] [Add ω] (ops : KeyOps κ) (c : Content κ ω)
    (nc nc' ec ec' : Option Crit) (hn : SameCrit? nc nc') (he : SameCrit? ec ec') (mode : Mode) (keep : Bool) :
    (∀ md, critSel nc mode md = critSel nc' mode md) ∧ (∀ md, critSel ec mode md = critSel ec' mode md) ∧
    removedNodes c nc mode = removedNodes c nc' mode ∧
    filterHg ops c nc ec mode keep = filterHg ops c nc' ec' mode keep :=
  ⟨critSel_congr hn mode, critSel_congr he mode, removedNodes_congr c hn mode, filterHg_congr ops c hn he mode keep⟩

example : SameCrit? (some [(0, [some 1, none, some 1]), (3, [])]) (some [(0, [none, some 1]), (3, [])]) ∧
    ¬ SameCrit? (some [(0, [some 1])]) (some [(0, [some 1, none])]) ∧ ¬ SameCrit? (some []) none := by
  refine ⟨?_, ?_, ?_⟩
  · simp only [SameCrit?, SameCrit, true_and, and_true]
    refine ⟨fun v => ?_, fun _ => trivial⟩
    simp only [List.mem_cons, List.mem_nil_iff, or_false]
    constructor
    · rintro (h | h | h) <;> simp [h]
    · rintro (h | h) <;> simp [h]
  · simp only [SameCrit?, SameCrit, true_and, and_true]
    intro h
    have := (h none).2 (by simp)
    simp at this
  · simp [SameCrit?]


/-! ## Extension round: the step-up rule as a multiple-testing procedure, survival-function identities, symmetry,
and `get_svc` (statistically validated cores)

`Proofs/C19F.lean`, `Proofs/C19C.lean`, model `Model/C19C.lean`.  `threshold` / `validated` are shared by `get_svh`
(`sizeTable`) and `get_svc` (`coreTable`): the statements about them hold for both. -/

/-- the FDR step-up procedure returns exactly the set given by the largest rank below its line: for `bonf > 0` let `k`
be the number of validated p-values. Then the threshold is `k * bonf`; a p-value is validated iff it is below `k * bonf`;
`k` is 0 or the `k`-th smallest p-value is below its line `k * bonf`; and every rank `j+1` whose p-value is below its
line `(j+1) * bonf` is at most `k` (so `k` is the LARGEST such rank, 0 when there is none). -/
theorem C19_fdr_rank (ps : List Rat) (bonf : Rat) (hb : 0 < bonf) :
    let s := ps.mergeSort (fun a b => a ≤ b)
    let k := (ps.filter (fun p => validated ps bonf p)).length
    threshold ps bonf = (k : Rat) * bonf ∧ k ≤ s.length ∧
    (∀ p, validated ps bonf p = true ↔ p < (k : Rat) * bonf) ∧
    (∀ _ : 0 < k, ∃ h' : k - 1 < s.length, s[k - 1] < (k : Rat) * bonf) ∧
    (∀ j (h : j < s.length), s[j] < ((j + 1 : Nat) : Rat) * bonf → j + 1 ≤ k) := by
  intro s k
  obtain ⟨h1, h2, h3, h4⟩ := threshold_rank ps bonf hb
  refine ⟨h1, h2, fun p => ?_, h3, h4⟩
  simp only [validated, decide_eq_true_eq]
  rw [h1]

/-- monotone in the level: with `0 ≤ bonf ≤ bonf'` the threshold does not fall and every validated p-value stays
validated -/
theorem C19_fdr_monotone (ps : List Rat) (bonf bonf' : Rat) (hb : 0 ≤ bonf) (hbb : bonf ≤ bonf') :
    threshold ps bonf ≤ threshold ps bonf' ∧
    ∀ p, validated ps bonf p = true → validated ps bonf' p = true := by
  have h := threshold_mono ps bonf bonf' hb hbb
  refine ⟨h, fun p hp => ?_⟩
  simp only [validated, decide_eq_true_eq] at hp ⊢
  exact lt_of_lt_of_le hp h

/-- `get_svh` is monotone in `alpha`: the table of a size has the same rows for every `alpha`, and a hyperedge
validated at level `alpha ≥ 0` is validated at every level `alpha' ≥ alpha` -/
theorem C19_svh_alpha_monotone (sf : Nat → Nat → Rat → Rat) (alpha alpha' : Rat) (h0 : 0 ≤ alpha) (hle : alpha ≤ alpha')
    (occ : List (List Nat)) (n : Nat) :
    (sizeTable sf alpha occ n).rows.map (·.1) = (sizeTable sf alpha' occ n).rows.map (·.1) ∧
    ∀ r, (r, true) ∈ (sizeTable sf alpha occ n).rows → (r, true) ∈ (sizeTable sf alpha' occ n).rows := by
  have hC : (0 : ℚ) ≤ (choose (numNodes occ n) n : ℚ) := by exact_mod_cast Nat.zero_le _
  have hb : 0 ≤ bonfOf alpha occ n := div_nonneg h0 hC
  have hbb : bonfOf alpha occ n ≤ bonfOf alpha' occ n := div_le_div_of_nonneg_right hle hC
  refine ⟨by simp [sizeTable, List.map_map, Function.comp_def], fun r hr => ?_⟩
  simp only [sizeTable, List.mem_map, Prod.mk.injEq] at hr ⊢
  obtain ⟨r0, hr0, rfl, hv⟩ := hr
  exact ⟨r0, hr0, rfl, (C19_fdr_monotone _ _ _ hb hbb).2 _ hv⟩

/-- Bonferroni ⊆ FDR ⊆ "below the last line": with `bonf ≥ 0`, a p-value of the table below the Bonferroni line `bonf`
is validated by the step-up rule, and a validated p-value is below `m * bonf`, `m` the number of tests of the table -/
theorem C19_bonferroni_sub_fdr (ps : List Rat) (bonf : Rat) (hb : 0 ≤ bonf) (p : Rat) (hp : p ∈ ps) :
    (p < bonf → validated ps bonf p = true) ∧
    (validated ps bonf p = true → p < (ps.length : Rat) * bonf) := by
  simp only [validated, decide_eq_true_eq]
  exact ⟨fun h => lt_of_lt_of_le h (threshold_ge_bonf ps bonf hb p hp h),
    fun h => lt_of_lt_of_le h (threshold_le_all ps bonf hb)⟩

/-- survival-function identities of the exact binomial tail `tail w N p = P(X ≥ w)`, `sfExact k = P(X > k)`:
recurrence, nothing above `N`, `P(X ≥ N) = p^N`, `P(X ≥ 1) = 1 - (1-p)^N`, complement of the distribution function -/
theorem C19_sf_identities (N : Nat) (p : ℚ) :
    (∀ w, w ≤ N → tail w N p = pmf N p w + tail (w + 1) N p) ∧
    (∀ w, N < w → tail w N p = 0) ∧
    tail N N p = p ^ N ∧
    tail 1 N p = 1 - (1 - p) ^ N ∧
    (∀ k, k ≤ N → sfExact k N p = 1 - ∑ j ∈ Finset.range (k + 1), pmf N p j) ∧
    (∀ j, pmf N p j = (N.choose j : ℚ) * p ^ j * (1 - p) ^ (N - j)) :=
  ⟨fun w hw => tail_step w N p hw, fun w hw => tail_above w N p hw, tail_top N p, tail_one N p,
    fun k hk => sf_compl k N p hk, pmf_eq N p⟩

/-- the p-value of a row falls when the weight grows (same `N`, same degrees `0 < K_i ≤ N`), and a hyperedge seen
once has the closed form `1 - (1 - prod K_i/N)^N` -/
theorem C19_pvalue_weight (N : Nat) (ks : List Nat) (hk : ∀ k ∈ ks, 0 < k ∧ k ≤ N) :
    (∀ w w', 1 ≤ w → w ≤ w' → pvalueWith sfExact w' N ks ≤ pvalueWith sfExact w N ks) ∧
    pvalueWith sfExact 1 N ks = 1 - (1 - (ks.map (fun (k : Nat) => (k : ℚ) / (N : ℚ))).prod) ^ N := by
  obtain ⟨hp0, hp1⟩ := ratios_prod_bounds ks N hk
  constructor
  · intro w w' hw hww
    unfold pvalueWith sfExact
    rw [show w - 1 + 1 = w by omega, show w' - 1 + 1 = w' by omega, prodRatio_eq]
    exact tail_antitone w w' N _ (le_of_lt hp0) hp1 hww
  · unfold pvalueWith sfExact
    rw [prodRatio_eq]
    exact tail_one N _

/-- symmetry in the nodes: the parameters and the p-value of a hyperedge do not depend on the order in which its
nodes are listed - the co-occurrence count is the same, the degrees are the same up to order, and the p-value of a
tuple of degrees is invariant under every permutation (any `sf`) -/
theorem C19_pvalue_symmetric (sf : Nat → Nat → Rat → Rat) (sub : List (List Nat)) (e e' : List Nat) (hp : e.Perm e')
    (w N : Nat) :
    n12 sub e = n12 sub e' ∧ (e.map (degK sub)).Perm (e'.map (degK sub)) ∧
    (∀ ks ks' : List Nat, ks.Perm ks' → pvalueWith sf w N ks = pvalueWith sf w N ks') ∧
    pvalueWith sf w N (e.map (degK sub)) = pvalueWith sf w N (e'.map (degK sub)) := by
  have hpv : ∀ ks ks' : List Nat, ks.Perm ks' → pvalueWith sf w N ks = pvalueWith sf w N ks' := by
    intro ks ks' h
    unfold pvalueWith
    rw [prodRatio_eq, prodRatio_eq, (h.map _).prod_eq]
  refine ⟨?_, hp.map _, hpv, hpv _ _ (hp.map _)⟩
  unfold n12
  congr 2
  funext b
  rw [Bool.eq_iff_iff]
  simp only [List.all_eq_true]
  exact ⟨fun h i hi => h i (hp.mem_iff.mpr hi), fun h i hi => h i (hp.mem_iff.mp hi)⟩

/-! ### `get_svc` -/

/-- which orders `get_svc` reports: the call raises exactly when the hypergraph has no hyperedge occurrence or the range
of orders is empty; otherwise one frame per order from `min(max_order, longest)` (`longest` when `max_order` is `None`
or 0) DOWN to `min_order`, in that order -/
theorem C19_svc_orders (sf : Nat → Nat → Rat → Rat) (alpha : Rat) (edges : List (List Nat × Nat)) (lo : Nat)
    (hi : Option Nat) :
    (svc sf alpha edges lo hi = none ↔
      expand edges = [] ∨ ∃ m, maxLen (expand edges) = some m ∧ effMax hi m < lo) ∧
    ∀ ts, svc sf alpha edges lo hi = some ts →
      ∃ m, maxLen (expand edges) = some m ∧ (∃ b ∈ expand edges, b.length = m) ∧
        (∀ b ∈ expand edges, b.length ≤ m) ∧ lo ≤ effMax hi m ∧
        ts.map (·.order) = ordersDesc lo (effMax hi m) ∧ ts.length = effMax hi m + 1 - lo ∧
        ∀ i (h : i < ts.length), ts[i].order = effMax hi m - i := by
  have hempty : ∀ m, (ordersDesc lo (effMax hi m)).isEmpty = true ↔ effMax hi m < lo := by
    intro m
    rw [List.isEmpty_iff, ← List.length_eq_zero_iff, ordersDesc_length]; omega
  have hsvc : svc sf alpha edges lo hi = (match maxLen (expand edges) with
      | none => none
      | some longest => if (ordersDesc lo (effMax hi longest)).isEmpty then none
          else some (coreLoop sf alpha (expand edges) (ordersDesc lo (effMax hi longest)) [])) := rfl
  constructor
  · rw [hsvc]
    cases hml : maxLen (expand edges) with
    | none => exact ⟨fun _ => Or.inl ((maxLen_spec _).1.mp hml), fun _ => rfl⟩
    | some m =>
      have hne : expand edges ≠ [] := fun h => by rw [(maxLen_spec _).1.mpr h] at hml; cases hml
      by_cases he : (ordersDesc lo (effMax hi m)).isEmpty = true
      · simp only [he, if_true]
        exact ⟨fun _ => Or.inr ⟨m, rfl, (hempty m).mp he⟩, fun _ => trivial⟩
      · simp only [he, if_false, Bool.false_eq_true]
        constructor
        · intro h; cases h
        · rintro (h | ⟨m', hm', hlt⟩)
          · exact absurd h hne
          · cases hm'; exact absurd ((hempty m).mpr hlt) he
  · intro ts hts
    unfold svc at hts
    cases hml : maxLen (expand edges) with
    | none => simp [hml] at hts
    | some m =>
      simp only [hml] at hts
      by_cases he : (ordersDesc lo (effMax hi m)).isEmpty = true
      · simp [he] at hts
      · simp only [he, if_false, Bool.false_eq_true, Option.some.injEq] at hts
        have hlo : lo ≤ effMax hi m := by
          have := mt (hempty m).mpr he; omega
        obtain ⟨hex, hall⟩ := (maxLen_spec _).2 m hml
        have hord : ts.map (·.order) = ordersDesc lo (effMax hi m) := by rw [← hts, coreLoop_orders]
        have hlen : ts.length = effMax hi m + 1 - lo := by
          rw [← hts, coreLoop_length, ordersDesc_length]
        refine ⟨m, rfl, hex, hall, hlo, hord, hlen, ?_⟩
        intro i h
        have h1 : (ts.map (·.order))[i]'(by simpa using h) = ts[i].order := by simp
        rw [← h1]
        simp only [hord]
        exact ordersDesc_getElem lo (effMax hi m) i (by rw [ordersDesc_length]; omega)

/-- one frame of `get_svc` (loop body on the occurrences `occ` with `sg` = the groups validated so far): the tested
groups are listed once each and are exactly the `order`-sublists of the occurrences that are not a sublist of a group
in `sg`; each row carries `w` = number of (occurrence, combination) pairs equal to the group, `N` = number of all
occurrences, `K_i` = `deg_a[i]`, `p = sf(w - 1; N, prod K_i / N)`; the Bonferroni unit is `alpha / C(na, order)` with
`na` the number of all nodes; the threshold is the step-up threshold of the frame's own p-values; a group is validated
iff its p-value is strictly below it -/
theorem C19_svc_rows (sf : Nat → Nat → Rat → Rat) (alpha : Rat) (occ sg : List (List Nat)) (k : Nat) :
    let t := coreTable sf alpha occ sg k
    (t.rows.map (·.1.edge)).Nodup ∧
    (∀ g, g ∈ t.rows.map (·.1.edge) ↔ g.length = k ∧ (∃ b ∈ occ, g.Sublist b) ∧ ¬ ∃ v ∈ sg, g.Sublist v) ∧
    (∀ r ∈ t.rows, r.1.w = countOf occ k r.1.edge ∧ r.1.N = occ.length ∧ r.1.ks = r.1.edge.map (degAll occ) ∧
      r.1.p = sf (r.1.w - 1) r.1.N (prodRatio r.1.ks r.1.N)) ∧
    t.order = k ∧ t.N = occ.length ∧ t.na = nodesAll occ ∧
    t.bonf = alpha / ((nodesAll occ).choose k : ℚ) ∧
    t.thr = threshold (t.rows.map (·.1.p)) t.bonf ∧
    (∀ r ∈ t.rows, (r.2 = true ↔ r.1.p < t.thr)) ∧
    (∀ g, g ∈ validGroups t ↔ ∃ r ∈ t.rows, r.1.edge = g ∧ r.1.p < t.thr) := by
  intro t
  have hflag : ∀ r ∈ t.rows, (r.2 = true ↔ r.1.p < t.thr) := by
    intro r hr
    simp only [t, coreTable, List.mem_map] at hr
    obtain ⟨r0, _, rfl⟩ := hr
    simp [t, coreTable, validated]
  refine ⟨?_, ?_, ?_, rfl, rfl, rfl, by simp [t, coreTable, choose_eq], ?_, hflag, ?_⟩
  · rw [coreTable_edges]; exact groupsOf_nodup occ sg k
  · intro g; rw [coreTable_edges]; exact mem_groupsOf occ sg k g
  · intro r hr
    simp only [t, coreTable, coreRows, List.mem_map] at hr
    obtain ⟨r0, ⟨g, _, rfl⟩, rfl⟩ := hr
    exact ⟨rfl, rfl, rfl, rfl⟩
  · simp only [t, coreTable, List.map_map]
    congr 1
  · intro g
    simp only [validGroups, List.mem_map, List.mem_filter]
    constructor
    · rintro ⟨r, ⟨hr, hv⟩, rfl⟩; exact ⟨r, hr, rfl, (hflag r hr).mp hv⟩
    · rintro ⟨r, hr, rfl, hlt⟩; exact ⟨r, ⟨hr, (hflag r hr).mpr hlt⟩, rfl⟩

/-- the parameters in terms of the weighted hyperedge list (repetition-free tuples): the count of a group is the total
weight of the hyperedges it is a sublist of (for strictly increasing tuples: that contain it), `deg_a[i]` the total
weight of the hyperedges containing `i` (ALL sizes - unlike `get_svh`), `N` the total weight -/
theorem C19_svc_params (edges : List (List Nat × Nat)) (h : ∀ f ∈ edges, f.1.Nodup) :
    (∀ k g, g.length = k →
      countOf (expand edges) k g = ((edges.filter (fun f => g.isSublist f.1)).map (·.2)).sum) ∧
    (∀ i, degAll (expand edges) i = ((edges.filter (fun f => f.1.contains i)).map (·.2)).sum) ∧
    (expand edges).length = (edges.map (·.2)).sum :=
  ⟨fun k g hg => countOf_weight edges h k g hg, degAll_weight edges h, expand_length edges⟩

/-- the loop: the frame at position `i` of the result is the loop body run with `sg` = all groups validated in the
frames before it (the higher orders), on the same occurrences -/
theorem C19_svc_loop (sf : Nat → Nat → Rat → Rat) (alpha : Rat) (edges : List (List Nat × Nat)) (lo : Nat)
    (hi : Option Nat) (ts : List CoreTable) (hts : svc sf alpha edges lo hi = some ts) :
    ∀ i (h : i < ts.length),
      ts[i] = coreTable sf alpha (expand edges) ((ts.take i).flatMap validGroups) ts[i].order := by
  intro i h
  unfold svc at hts
  cases hml : maxLen (expand edges) with
  | none => simp [hml] at hts
  | some m =>
    simp only [hml] at hts
    by_cases he : (ordersDesc lo (effMax hi m)).isEmpty = true
    · simp [he] at hts
    · simp only [he, if_false, Bool.false_eq_true, Option.some.injEq] at hts
      subst hts
      have hl : i < (ordersDesc lo (effMax hi m)).length := by rw [← coreLoop_length sf alpha (expand edges) _ []]; exact h
      have h1 := coreLoop_getElem sf alpha (expand edges) (ordersDesc lo (effMax hi m)) [] i hl
      have h2 : ((coreLoop sf alpha (expand edges) (ordersDesc lo (effMax hi m)) [])[i]).order =
          (ordersDesc lo (effMax hi m))[i] := by rw [h1]; rfl
      rw [h2]
      simpa using h1

/-- validated cores are maximal: a group tested at a lower order (a later frame) is never a sublist of a group validated
at a higher order (an earlier frame) - in particular no validated group is contained in another validated group; and
nothing else is left out: every `order`-sublist of an occurrence that is in no earlier validated group is a row -/
theorem C19_svc_cores (sf : Nat → Nat → Rat → Rat) (alpha : Rat) (edges : List (List Nat × Nat)) (lo : Nat)
    (hi : Option Nat) (ts : List CoreTable) (hts : svc sf alpha edges lo hi = some ts) :
    ∀ j (hj : j < ts.length),
      (∀ i (hij : i < j), ∀ v ∈ validGroups (ts[i]'(by omega)), ∀ r ∈ ts[j].rows, ¬ r.1.edge.Sublist v) ∧
      (∀ g, g.length = ts[j].order → (∃ b ∈ expand edges, g.Sublist b) →
        (∀ i (hij : i < j), ∀ v ∈ validGroups (ts[i]'(by omega)), ¬ g.Sublist v) →
        g ∈ ts[j].rows.map (·.1.edge)) := by
  intro j hj
  have hloop := C19_svc_loop sf alpha edges lo hi ts hts j hj
  have hrows := (C19_svc_rows sf alpha (expand edges) ((ts.take j).flatMap validGroups) ts[j].order).2.1
  have hin : ∀ i (hij : i < j), ∀ v ∈ validGroups (ts[i]'(by omega)), v ∈ (ts.take j).flatMap validGroups := by
    intro i hij v hv
    refine List.mem_flatMap.mpr ⟨ts[i]'(by omega), ?_, hv⟩
    rw [List.mem_take_iff_getElem]
    exact ⟨i, by omega, rfl⟩
  constructor
  · intro i hij v hv r hr hsub
    have hmem : r.1.edge ∈ ts[j].rows.map (·.1.edge) := List.mem_map.mpr ⟨r, hr, rfl⟩
    rw [hloop] at hmem
    exact ((hrows r.1.edge).mp hmem).2.2 ⟨v, hin i hij v hv, hsub⟩
  · intro g hlen hocc hfree
    rw [hloop]
    refine (hrows g).mpr ⟨hlen, hocc, ?_⟩
    rintro ⟨v, hv, hsub⟩
    obtain ⟨t, ht, hvt⟩ := List.mem_flatMap.mp hv
    obtain ⟨i, hi', rfl⟩ := List.mem_take_iff_getElem.mp ht
    exact hfree i (by omega) v hvt hsub

/-! #### non-vacuity of the extension round -/

/-- sorted 1/1000, 1/300, 1/2 with bonf 1/100: two validated, threshold 2/100 = k * bonf, third rank not below 3/100 -/
example : ([(1:Rat)/1000, 1/2, 1/300].filter (fun p => validated [1/1000, 1/2, 1/300] (1/100) p)).length = 2 ∧
    threshold [(1:Rat)/1000, 1/2, 1/300] (1/100) = ((2 : Nat) : Rat) * (1/100) := by
  norm_num [validated, threshold, stepUp, List.mergeSort, List.merge, List.filter]
/-- a strict gain from a larger level: 1/50 is not validated with bonf 1/100 but with bonf 1/40 -/
example : validated [(1:Rat)/50, 1/2] (1/100) (1/50) = false ∧ validated [(1:Rat)/50, 1/2] (1/40) (1/50) = true := by
  norm_num [validated, threshold, stepUp, List.mergeSort, List.merge]
/-- FDR is strictly larger than Bonferroni: 1/50 ≥ bonf = 1/60 is validated (rank 2 is below 2/60) -/
example : ¬ ((1:Rat)/50 < 1/60) ∧ validated [(1:Rat)/40, 1/50] (1/60) (1/50) = true ∧
    (1:Rat)/50 < (([(1:Rat)/40, 1/50].length : Nat) : Rat) * (1/60) := by
  norm_num [validated, threshold, stepUp, List.mergeSort, List.merge]
/-- identities on Bin(4, 3/4): P(X ≥ 4) = 81/256, P(X ≥ 1) = 255/256, sf(2) = P(X ≥ 3) = 189/256 -/
example : tail 4 4 (3/4) = (3/4 : ℚ) ^ 4 ∧ tail 1 4 (3/4) = 1 - (1 - 3/4 : ℚ) ^ 4 ∧ sfExact 2 4 (3/4) = 189/256 := by
  refine ⟨(C19_sf_identities 4 (3/4)).2.2.1, (C19_sf_identities 4 (3/4)).2.2.2.1, ?_⟩
  norm_num [sfExact, tail, pmf, choose, fact, List.range, List.range.loop]
/-- hypotheses of `C19_pvalue_weight` / `C19_pvalue_symmetric` on a concrete row -/
example : (∀ k ∈ [3, 4], 0 < k ∧ k ≤ 4) ∧ [3, 4].Perm [4, 3] ∧ [1, 2].Perm [2, 1] := by
  refine ⟨by decide, by decide, by decide⟩
example : pvalueWith sfExact 2 4 [3, 4] ≠ pvalueWith sfExact 3 4 [3, 4] := by
  norm_num [pvalueWith, sfExact, tail, pmf, prodRatio, choose, fact, List.range, List.range.loop]

/-- hyperedges (1,2,3):5, (1,2):3, (2,3,4):1, (4,5):1, (5,6,7,8):2 (the session's worked example of `get_svc`) -/
def C19.svcEdges : List (List Nat × Nat) := [([1, 2, 3], 5), ([1, 2], 3), ([2, 3, 4], 1), ([4, 5], 1), ([5, 6, 7, 8], 2)]

example : (∀ f ∈ C19.svcEdges, f.1.Nodup) ∧ maxLen (expand C19.svcEdges) = some 4 ∧
    effMax none 4 = 4 ∧ effMax (some 0) 4 = 4 ∧ effMax (some 3) 4 = 3 ∧ effMax (some 9) 4 = 4 ∧
    ordersDesc 2 4 = [4, 3, 2] ∧ ordersDesc 3 2 = [] := by decide
/-- counts and degrees: (1,2) is in 5 + 3 occurrences, node 2 in 9, N = 12; groups of order 2 with (5,6,7,8) validated -/
example : countOf (expand C19.svcEdges) 2 [1, 2] = 8 ∧ degAll (expand C19.svcEdges) 2 = 9 ∧
    (expand C19.svcEdges).length = 12 ∧ nodesAll (expand C19.svcEdges) = 8 ∧
    groupsOf (expand C19.svcEdges) [[5, 6, 7, 8]] 2 = [[1, 2], [1, 3], [2, 3], [2, 4], [3, 4], [4, 5]] ∧
    groupsOf (expand C19.svcEdges) [] 4 = [[5, 6, 7, 8]] ∧
    combos 2 [5, 6, 7] = [[5, 6], [5, 7], [6, 7]] := by decide
/-- the call raises on an empty hypergraph and on an empty range of orders, and returns three frames otherwise -/
example : svc sfExact (1/100) [] 2 none = none ∧ svc sfExact (1/100) C19.svcEdges 5 none = none ∧
    (svc sfExact (1/100) C19.svcEdges 2 none).isSome = true := by
  refine ⟨rfl, ?_, ?_⟩
  · have := (C19_svc_orders sfExact (1/100) C19.svcEdges 5 none).1.mpr (Or.inr ⟨4, by decide, by decide⟩)
    exact this
  · cases h : svc sfExact (1/100) C19.svcEdges 2 none with
    | some ts => rfl
    | none =>
      rcases (C19_svc_orders sfExact (1/100) C19.svcEdges 2 none).1.mp h with h1 | ⟨m, hm, hlt⟩
      · exact absurd h1 (by decide)
      · have : m = 4 := by
          have h4 : maxLen (expand C19.svcEdges) = some 4 := by decide
          rw [h4] at hm; exact (Option.some.inj hm).symm
        subst this
        exact absurd hlt (by decide)

/-- tie between the two routines: on strictly increasing tuples the count `w` of `get_svc` is the co-occurrence count
`n12` of `get_svh`, taken over the occurrences of ALL sizes (sublist = subset for sorted tuples) -/
theorem C19_svc_count_is_cooccurrence (occ : List (List Nat)) (hs : ∀ b ∈ occ, b.Pairwise (· < ·)) (g : List Nat)
    (hg : g.Pairwise (· < ·)) :
    countOf occ g.length g = n12 occ g ∧
    (∀ b ∈ occ, (g.Sublist b ↔ ∀ i ∈ g, i ∈ b)) :=
  ⟨countOf_eq_n12 occ hs g hg,
    fun b hb => ⟨fun h i hi => h.subset hi, sublist_of_subset_sorted g b hg (hs b hb)⟩⟩

/-- `get_svh`: the number of tests of a size never exceeds the number `C(n_a, n)` of possible hyperedges the
Bonferroni unit divides by; hence (for `alpha ≥ 0`) a validated hyperedge has a p-value below `alpha` itself.
Hypothesis: occurrences are strictly increasing tuples (`Hypergraph.add_edge` sorts, nodes distinct). -/
theorem C19_svh_validated_below_alpha (sf : Nat → Nat → Rat → Rat) (alpha : Rat) (h0 : 0 ≤ alpha)
    (occ : List (List Nat)) (hs : ∀ b ∈ occ, b.Pairwise (· < ·)) (n : Nat) :
    (sizeTable sf alpha occ n).rows.length ≤ (numNodes occ n).choose n ∧
    ∀ r ∈ (sizeTable sf alpha occ n).rows, r.2 = true → r.1.p < alpha := by
  have hlen := svh_rows_le_choose sf occ hs n
  refine ⟨by simpa [sizeTable] using hlen, ?_⟩
  intro r hr hv
  simp only [sizeTable, List.mem_map] at hr
  obtain ⟨r0, hr0, rfl⟩ := hr
  simp only [bonfOf, choose_eq] at hv
  exact validated_lt_alpha _ alpha _ h0 (by simpa using hlen) r0.p (List.mem_map.mpr ⟨r0, hr0, rfl⟩) hv

/-- the same for a frame of `get_svc`: at most `C(na, order)` groups are tested, a validated core has `p < alpha` -/
theorem C19_svc_validated_below_alpha (sf : Nat → Nat → Rat → Rat) (alpha : Rat) (h0 : 0 ≤ alpha)
    (occ sg : List (List Nat)) (hs : ∀ b ∈ occ, b.Pairwise (· < ·)) (k : Nat) :
    (coreTable sf alpha occ sg k).rows.length ≤ (nodesAll occ).choose k ∧
    ∀ r ∈ (coreTable sf alpha occ sg k).rows, r.2 = true → r.1.p < alpha := by
  have hlen := svc_rows_le_choose sf occ sg hs k
  refine ⟨by simpa [coreTable] using hlen, ?_⟩
  intro r hr hv
  simp only [coreTable, List.mem_map] at hr
  obtain ⟨r0, hr0, rfl⟩ := hr
  simp only [choose_eq] at hv
  exact validated_lt_alpha _ alpha _ h0 (by simpa using hlen) r0.p (List.mem_map.mpr ⟨r0, hr0, rfl⟩) hv

/-- the validated cores form an antichain: two groups validated in different frames of one `get_svc` result are never
contained one in the other (the later one has the smaller order and was tested only because it is in no earlier core) -/
theorem C19_svc_antichain (sf : Nat → Nat → Rat → Rat) (alpha : Rat) (edges : List (List Nat × Nat)) (lo : Nat)
    (hi : Option Nat) (ts : List CoreTable) (hts : svc sf alpha edges lo hi = some ts) :
    ∀ i j (hij : i < j) (hj : j < ts.length), ∀ v ∈ validGroups (ts[i]'(by omega)), ∀ u ∈ validGroups ts[j],
      v.length = ts[i].order ∧ u.length = ts[j].order ∧ u.length < v.length ∧ ¬ u.Sublist v ∧ ¬ v.Sublist u := by
  intro i j hij hj v hv u hu
  obtain ⟨m, _, _, _, _, _, hlen, hord⟩ := (C19_svc_orders sf alpha edges lo hi).2 ts hts
  have hlenOf : ∀ a (ha : a < ts.length), ∀ g ∈ validGroups ts[a], g.length = ts[a].order := by
    intro a ha g hg
    have hloop := C19_svc_loop sf alpha edges lo hi ts hts a ha
    have hrows := (C19_svc_rows sf alpha (expand edges) ((ts.take a).flatMap validGroups) ts[a].order).2.1
    have := validGroups_sub ts[a] g hg
    rw [hloop] at this
    exact ((hrows g).mp this).1
  have hv' := hlenOf i (by omega) v hv
  have hu' := hlenOf j hj u hu
  have hlt : u.length < v.length := by
    rw [hv', hu', hord i (by omega), hord j hj]; omega
  refine ⟨hv', hu', hlt, ?_, fun h => by have := h.length_le; omega⟩
  obtain ⟨r, hr, rfl⟩ := List.mem_map.mp (validGroups_sub ts[j] u hu)
  exact (C19_svc_cores sf alpha edges lo hi ts hts j hj).1 i hij v hv r hr

/-- the worked example: (1,2) is a sublist of 5 + 3 occurrences = its co-occurrence count over all sizes -/
example : (∀ b ∈ expand C19.svcEdges, b.Pairwise (· < ·)) ∧ n12 (expand C19.svcEdges) [1, 2] = 8 ∧
    countOf (expand C19.svcEdges) 2 [1, 2] = 8 := by decide
/-- order 3 of the example: 6 tested groups, at most C(8, 3) = 56 possible -/
example : (groupsOf (expand C19.svcEdges) [] 3).length = 6 ∧ (nodesAll (expand C19.svcEdges)).choose 3 = 56 := by decide

/-- the size of the validated set IS the step-up rank, in both routines: with a positive Bonferroni unit the number of
validated rows of a `get_svh` table / a `get_svc` frame times the unit equals the table's threshold -/
theorem C19_validated_count (sf : Nat → Nat → Rat → Rat) (alpha : Rat) (occ sg : List (List Nat)) (n : Nat) :
    (0 < (sizeTable sf alpha occ n).bonf →
      (((sizeTable sf alpha occ n).rows.filter (·.2)).length : Rat) * (sizeTable sf alpha occ n).bonf =
        (sizeTable sf alpha occ n).thr) ∧
    (0 < (coreTable sf alpha occ sg n).bonf →
      (((coreTable sf alpha occ sg n).rows.filter (·.2)).length : Rat) * (coreTable sf alpha occ sg n).bonf =
        (coreTable sf alpha occ sg n).thr) := by
  constructor
  · intro hb
    simp only [sizeTable] at hb ⊢
    rw [flagged_count _ _ _ rfl]
    exact ((C19_fdr_rank _ _ hb).1).symm
  · intro hb
    simp only [coreTable] at hb ⊢
    rw [flagged_count _ _ _ rfl]
    exact ((C19_fdr_rank _ _ hb).1).symm

/-- reflection of the binomial tail (successes with probability `p` are failures with probability `1 - p`):
`P(X ≥ w | N, p) = 1 - P(X ≥ N + 1 - w | N, 1 - p)` for `w ≤ N + 1` - the identity by which the harness's 150-digit
oracle sums the short side of the law -/
theorem C19_sf_reflection (w N : Nat) (p : ℚ) (hw : w ≤ N + 1) : tail w N p = 1 - tail (N + 1 - w) N (1 - p) :=
  tail_reflect w N p hw

example : tail 3 4 (3/4) = 1 - tail 2 4 (1/4) ∧ tail 3 4 (3/4) = 189/256 := by
  refine ⟨C19_sf_reflection 3 4 (3/4) (by decide) |>.trans (by norm_num), ?_⟩
  norm_num [tail, pmf, choose, fact, List.range, List.range.loop]

/-- the hypothesis of `C19_validated_count` holds for the example tables: `bonf = (1/100) / C(3, 2)` resp. `/ C(8, 2)` -/
example : 0 < (sizeTable sfExact (1/100) (expand C19.exampleEdges) 2).bonf ∧
    0 < (coreTable sfExact (1/100) (expand C19.svcEdges) [[5, 6, 7, 8]] 2).bonf := by
  constructor
  · rw [(C19_svh_flags sfExact (1/100) (expand C19.exampleEdges) 2).1]
    have : numNodes (expand C19.exampleEdges) 2 = 3 := by decide
    rw [this]; norm_num [Nat.choose]
  · rw [(C19_svc_rows sfExact (1/100) (expand C19.svcEdges) [[5, 6, 7, 8]] 2).2.2.2.2.2.2.1]
    have : nodesAll (expand C19.svcEdges) = 8 := by decide
    rw [this]; norm_num [Nat.choose]
