import Hgxv.Proofs.C06
import Hgxv.Proofs.C06WF
import Hgxv.Proofs.C06Hgr
import Hgxv.Proofs.C06Hif
import Hgxv.Proofs.C06Hif2
import Hgxv.Proofs.C06Hif3
/-! # C06 — save then load returns the same hypergraph, for every type and format

Property theorems about the model `Hgxv/Model/C06.lean` (+ `C06Hif.lean`).  A `Content κ` is what the
public API shows of a container; `WF` is what every object built through that API satisfies
(distinct nodes, distinct canonical keys, hyperedges only over listed nodes, weight 1 everywhere when
unweighted) — the harness evaluates `WF` on the digest of every real object it saves. -/
open C06

/-! ## JSON: load ∘ save = id, hyperedge metadata modulo the reserved keys -/

/-- the generic statement, with the reserved keys still visible: `load (save c)` is `c` with the
    metadata of every hyperedge decorated by what `save` wrote (same listing order, same weights) -/
theorem C06_json_load_save {κ : Type} [DecidableEq κ] [Kind κ] [LawfulKind κ] (c : Content κ) (h : WF c) :
    load (save c) = some { c with edges := c.edges.map (decorated c.weighted) } :=
  load_save c h

theorem C06_json_roundtrip {κ : Type} [DecidableEq κ] [Kind κ] [LawfulKind κ] (c : Content κ) (h : WF c) :
    (load (save c)).map Content.erased = some c.erased := by
  rw [load_save c h]; simp [erased_decorated]

/-- Hypergraph: same type, nodes (with metadata, isolated ones included), hyperedges, weightedness,
    weights, hypergraph / node metadata; hyperedge metadata modulo `weight`, `time`, `layer` -/
theorem C06_json_roundtrip_H (c : Content HKey) (h : WF c) :
    (loadAny (saveAny (.H c))).map AnyContent.erased = some (.H c.erased) := by
  simp only [saveAny, loadAny, lastHeader_save, Kind.ty, load_save c h]
  simp [AnyContent.erased, erased_decorated]

/-- DirectedHypergraph (keys = (sources, targets)) -/
theorem C06_json_roundtrip_D (c : Content DKey) (h : WF c) :
    (loadAny (saveAny (.D c))).map AnyContent.erased = some (.D c.erased) := by
  simp only [saveAny, loadAny, lastHeader_save, Kind.ty, load_save c h]
  simp [AnyContent.erased, erased_decorated]

/-- TemporalHypergraph (keys = (time, nodes); the time travels in the record's metadata) -/
theorem C06_json_roundtrip_T (c : Content TKey) (h : WF c) :
    (loadAny (saveAny (.T c))).map AnyContent.erased = some (.T c.erased) := by
  simp only [saveAny, loadAny, lastHeader_save, Kind.ty, load_save c h]
  simp [AnyContent.erased, erased_decorated]

/-- MultiplexHypergraph (keys = (nodes, layer); the layer travels in the record's metadata) -/
theorem C06_json_roundtrip_M (c : Content MKey) (h : WF c) :
    (loadAny (saveAny (.M c))).map AnyContent.erased = some (.M c.erased) := by
  simp only [saveAny, loadAny, lastHeader_save, Kind.ty, load_save c h]
  simp [AnyContent.erased, erased_decorated]

/-! ## a loaded object is a full object (strengthening round) -/

/-- what `load_hypergraph` returns for a saved well-formed object is well-formed again: the round-trip
    theorems apply to it, and by `C06_wf_reachable` to everything built from it with further `add_node` /
    `add_edge` / `set_hypergraph_metadata` calls -/
theorem C06_json_loaded_wf {κ : Type} [DecidableEq κ] [Kind κ] [LawfulKind κ] (c : Content κ) (h : WF c) :
    ∃ c1 : Content κ, load (save c) = some c1 ∧ WF c1 :=
  ⟨_, load_save c h, WF_decorated c h⟩

/-- save → load → save → load: the object loaded the second time is still the first one (hyperedge
    metadata modulo the reserved keys; weights are exact integers of any magnitude) -/
theorem C06_json_reload {κ : Type} [DecidableEq κ] [Kind κ] [LawfulKind κ] (c : Content κ) (h : WF c) :
    ∃ c1 : Content κ, load (save c) = some c1 ∧ (load (save c1)).map Content.erased = some c.erased := by
  refine ⟨_, load_save c h, ?_⟩
  have h1 := WF_decorated c h
  rw [load_save _ h1]
  simp only [Option.map_some]
  have e1 := erased_decorated ({ c with edges := c.edges.map (decorated c.weighted) } : Content κ)
  have e2 := erased_decorated c
  exact congrArg some (e1.trans e2)

/-- a further accepted `add_edge` on the loaded object and then a second round trip: nothing is lost -/
theorem C06_json_loaded_add_edge {κ : Type} [DecidableEq κ] [Kind κ] [LawfulKind κ] [CanonKind κ] (c c1 c2 : Content κ)
    (h : WF c) (h1 : load (save c) = some c1) (raw : κ) (w : Option Int) (m : Option Meta)
    (h2 : addEdge c1 raw w m = some c2) :
    (load (save c2)).map Content.erased = some c2.erased := by
  rw [load_save c h] at h1
  have hw1 : WF c1 := by
    have := WF_decorated c h
    rw [Option.some.injEq] at h1
    rw [← h1]; exact this
  exact C06_json_roundtrip c2 (WF_addEdge c1 c2 raw w m hw1 h2)

/-! ## saving does not modify the saved object -/

/-- the run of `save_hypergraph` on the live object leaves it as it was and writes `save c` -/
theorem C06_save_pure {κ : Type} [DecidableEq κ] [Kind κ] (c : Content κ) :
    saveRun true c = (c, save c) := by
  simp [saveRun, saveEdgeRun, save, saveEdge]

/-- D20, as found on the unchanged tree: writing into the live dict changes the saved object -/
theorem C06_save_live_witness :
    ∃ c : Content HKey, WF c ∧ (saveRun false c).1 ≠ c := by
  refine ⟨{ weighted := true, hmeta := [], nodes := [(1, []), (2, [])], edges := [(⟨[1, 2]⟩, (6, []))] }, by decide, ?_⟩
  intro h
  have := congrArg Content.edges h
  revert this; decide

/-! ## binary: populate ∘ expose -/

/-- `.hgx`: the loaded object has the same content (listing order and reserved keys included) and the
    same layer registry; the two tables the pickled dict does not carry come back empty -/
theorem C06_hgx_roundtrip {κ : Type} [Kind κ] (s : Full κ) :
    loadPickle (expose s) = some { s with incidences := [], emptyEdges := [] } := by
  simp [loadPickle, expose, populate]

theorem C06_hgx_content {κ : Type} [Kind κ] (s : Full κ) :
    (loadPickle (expose s)).map (·.c) = some s.c := by
  simp [C06_hgx_roundtrip]

/-! ## non-vacuity: concrete well-formed contents (isolated node, repeated node set across times /
layers, user metadata under a reserved key, weighted) -/

def exH : Content HKey :=
  { weighted := false, hmeta := [(.user 2, .tok 13)],
    nodes := [(3, [(.user 4, .tok 10)]), (1, []), (2, []), (9, [])],
    edges := [(⟨[1, 2, 3]⟩, (4, [(.weight, .tok 19)])), (⟨[2]⟩, (4, []))] }
def exD : Content DKey :=
  { weighted := true, hmeta := [],
    nodes := [(1, []), (2, [(.user 2, .tok 7)]), (3, []), (4, [])],
    edges := [(⟨[1, 2], [3]⟩, (10, [(.user 3, .tok 1)])), (⟨[3], [1, 2]⟩, (-4, []))] }
def exT : Content TKey :=
  { weighted := true, hmeta := [(.user 0, .tok 0)],
    nodes := [(1, [(.user 3, .tok 4)]), (2, []), (7, [])],
    edges := [(⟨0, [1, 2]⟩, (6, [(.user 2, .tok 9), (.time, .tok 3)])), (⟨5, [1, 2]⟩, (4, []))] }
def exM : Content MKey :=
  { weighted := false, hmeta := [(.user 0, .tok 0), (.user 1, .tok 5)],
    nodes := [(1, []), (2, []), (5, [(.user 2, .tok 2)])],
    edges := [(⟨[1, 2], 0⟩, (4, [])), (⟨[1, 2], 1⟩, (4, [(.layer, .tok 3), (.user 2, .tok 2)]))] }

example : WF exH := by decide
example : WF exD := by decide
example : WF exT := by decide
example : WF exM := by decide
example : (loadAny (saveAny (.T exT))).map AnyContent.erased = some (.T exT.erased) := C06_json_roundtrip_T exT (by decide)
/-- the reserved keys really are in the loaded metadata (the comparison must erase them) -/
example : (load (κ := TKey) (save exT)).map (fun c => c.edges.map (fun e => e.2.2)) =
    some [[(.user 2, .tok 9), (.time, .tm 0), (.weight, .wq 6)], [(.weight, .wq 4), (.time, .tm 5)]] := by decide
/-- without `WF` the round trip can fail: a hyperedge over an unlisted node brings the node back -/
example : (load (κ := HKey) (save ({ weighted := false, hmeta := [], nodes := [], edges := [(⟨[1]⟩, (4, []))] } : Content HKey))).map
    (fun c => c.nodes) = some [(1, [])] := by decide

/-- weights beyond 2^53 / 2^63 are ordinary contents of the model (quanta `4·(2^53+1)`, `4·(2^64+3)`, negative) -/
def exBig : Content DKey :=
  { weighted := true, hmeta := [],
    nodes := [(1, []), (2, []), (3, [])],
    edges := [(⟨[1, 2], [3]⟩, (36028797018963972, [])), (⟨[3], [1]⟩, (73786976294838206476, [(.user 2, .tok 24)])),
              (⟨[2], [1]⟩, (-36893488147419103236, []))] }
example : WF exBig := by decide
example : (load (κ := DKey) (save exBig)).map (fun c => c.edges.map (fun e => e.2.1)) =
    some [36028797018963972, 73786976294838206476, -36893488147419103236] := by decide
example : ∃ c1 : Content TKey, load (save exT) = some c1 ∧ (load (save c1)).map Content.erased = some exT.erased :=
  C06_json_reload exT (by decide)
example : ∃ c1 : Content DKey, load (save exBig) = some c1 ∧ WF c1 := C06_json_loaded_wf exBig (by decide)

/-! ## the round-trip hypothesis `WF` is what the public API guarantees -/

/-- every content reached from the constructor by `add_node`, `add_edge` (accepted calls) and
    `set_hypergraph_metadata` is well-formed -/
theorem C06_wf_reachable {κ : Type} [DecidableEq κ] [Kind κ] [CanonKind κ] (w : Bool) :
    WF (construct κ w) ∧
    (∀ (c : Content κ) n m, WF c → WF (addNode c n m)) ∧
    (∀ (c c' : Content κ) raw wt m, WF c → addEdge c raw wt m = some c' → WF c') ∧
    (∀ (c : Content κ) hm, WF c → WF (setHMeta c hm)) :=
  ⟨WF_construct w, fun c n m h => WF_addNode c n m h, fun c c' raw wt m h h' => WF_addEdge c c' raw wt m h h',
   fun c hm h => WF_setHMeta c hm h⟩

/-! ## hMETIS (.hgr) -/

/-- The reader builds exactly the listed hyperedges with their weights.  `s` is what the line scanner
    lists (`s.es` node sets, `s.ws` weights, see `C06_hgr_listing_*`).  Hypothesis: a weighted file lists
    distinct node sets (DESIGN §2 reading; `add_edges` would add up / reject repeated ones).
    Conclusion: the reader succeeds, the object is (un)weighted as the mode says, its hyperedges are
    exactly the sorted listed node sets (each once), its nodes exactly the nodes of the listed sets, a
    weighted file gives every listed set its listed weight, an unweighted one weight 1 everywhere;
    all metadata empty. -/
theorem C06_hgr (ls : List Line) (s : HgrSt) (hs : hgrScan {} ls = some s)
    (hd : hgrWeighted s.mode = true → (s.es.map sort).Nodup) :
    ∃ c, parseHgr ls = some c ∧ WF c ∧ c.weighted = hgrWeighted s.mode ∧
      (∀ k, k ∈ AL.keys c.edges ↔ ∃ e ∈ s.es, k = ⟨sort e⟩) ∧
      (∀ n, n ∈ AL.keys c.nodes ↔ ∃ e ∈ s.es, n ∈ e) ∧
      (hgrWeighted s.mode = true →
        ∀ p ∈ s.es.zip s.ws, AL.get? c.edges ⟨sort p.1⟩ = some (unit * (p.2 : Int), [])) ∧
      (hgrWeighted s.mode = false → ∀ e ∈ c.edges, e.2 = (unit, [])) := by
  have hinv := scanInv_scan {} s ls scanInv_init hs
  simp only [parseHgr, hs]
  cases hm : hgrWeighted s.mode with
  | true =>
    have hlen : s.es.length = s.ws.length := hinv.2.1 hm
    have hnd : s.es.Nodup := nodup_of_nodup_map _ _ (hd hm)
    simp only [buildHgr, if_true, hlen, ne_eq, not_true_eq_false, if_false, hnd, decide_true]
    let l := s.es.zip (s.ws.map (fun (w : Nat) => some (unit * (w : Int))))
    have hfst : l.map Prod.fst = s.es := List.map_fst_zip (by simp [hlen])
    obtain ⟨c, h1, hwf, hw, _, hk, hn⟩ := addEdgesH_spec (construct HKey true) l (WF_construct true) (by simp [construct])
    refine ⟨c, h1, hwf, by simpa [construct] using hw, ?_, ?_, ?_, by simp⟩
    · intro k; rw [hk, ← hfst]; simp [construct, AL.keys]
    · intro n; rw [hn, ← hfst]; simp [construct, AL.keys]
    · intro _ p hp
      have hp' : (p.1, some (unit * (p.2 : Int))) ∈ l := by
        show _ ∈ s.es.zip (s.ws.map _)
        rw [List.zip_map_right]
        exact List.mem_map.mpr ⟨p, hp, rfl⟩
      have := addEdgesH_weights (construct HKey true) c l rfl
        (by
          have : l.map (fun p => (⟨sort p.1⟩ : HKey)) = (s.es.map sort).map HKey.mk := by
            rw [← hfst]; simp [Function.comp_def]
          rw [this]
          exact nodup_map_of_inj _ (fun a b hab => by cases hab; rfl) _ (hd hm))
        (by simp [construct, AL.keys]) h1 _ hp'
      simpa [weightOrUnit] using this
  | false =>
    simp only [buildHgr, Bool.false_eq_true, if_false]
    obtain ⟨c, h1, hwf, hw, _, hk, hn⟩ := addEdgesH_spec (construct HKey false) (s.es.map (fun e => (e, none)))
      (WF_construct false) (by simp)
    refine ⟨c, h1, hwf, by simpa [construct] using hw, ?_, ?_, by simp, ?_⟩
    · intro k; rw [hk]; simp only [construct, AL.keys, List.map_nil, List.not_mem_nil, false_or, List.mem_map]
      constructor
      · rintro ⟨p, ⟨e, he, rfl⟩, hp⟩; exact ⟨e, he, hp⟩
      · rintro ⟨e, he, hp⟩; exact ⟨(e, none), ⟨e, he, rfl⟩, hp⟩
    · intro n; rw [hn]; simp only [construct, AL.keys, List.map_nil, List.not_mem_nil, false_or, List.mem_map]
      constructor
      · rintro ⟨p, ⟨e, he, rfl⟩, hp⟩; exact ⟨e, he, hp⟩
      · rintro ⟨e, he, hp⟩; exact ⟨(e, none), ⟨e, he, rfl⟩, hp⟩
    · intro _
      exact addEdgesH_unit (construct HKey false) c _ rfl (by simp [construct]) (by simp) h1

/-- what a weighted file lists: after dropping comment / blank lines, a header `E N mode` with
    `mode % 10 = 1`, `E` lines `w v₁ v₂ …` and at most `N` node-weight lines -/
theorem C06_hgr_listing_weighted (ls : List Line) (E N mode : Nat) (el : List (Nat × Nat × List Nat))
    (nl : List (List Nat)) (hN : N ≠ 0) (hm : hgrWeighted mode = true) (hE : el.length = E) (hnl : nl.length ≤ N)
    (hls : dropSkips ls = .toks [E, N, mode] :: (el.map (fun p => Line.toks (p.1 :: p.2.1 :: p.2.2)) ++ nl.map Line.toks)) :
    ∃ s, hgrScan {} ls = some s ∧ s.mode = mode ∧ s.ws = el.map (·.1) ∧ s.es = el.map (fun p => p.2.1 :: p.2.2) := by
  rw [hgrScan_dropSkips, hls]
  simp only [hgrScan, hgrStep, hgrHeader, if_true]
  rw [hgrScan_edges_weighted _ el _ hN hm (by simp [hE])]
  rw [hgrScan_nodeLines _ nl hN (by simp [hE]) (by simpa using hnl)]
  exact ⟨_, rfl, rfl, by simp, by simp⟩

/-- what an unweighted file lists: header `E N` or `E N mode` with `mode % 10 ≠ 1`, `E` lines
    `v₁ v₂ …`, at most `N` node-weight lines -/
theorem C06_hgr_listing_plain (ls : List Line) (E N : Nat) (modeTok : List Nat) (el : List (Nat × List Nat))
    (nl : List (List Nat)) (hN : N ≠ 0)
    (hm : modeTok = [] ∨ ∃ m, modeTok = [m] ∧ hgrWeighted m = false) (hE : el.length = E) (hnl : nl.length ≤ N)
    (hls : dropSkips ls = .toks (E :: N :: modeTok) :: (el.map (fun p => Line.toks (p.1 :: p.2)) ++ nl.map Line.toks)) :
    ∃ s, hgrScan {} ls = some s ∧ hgrWeighted s.mode = false ∧ s.ws = [] ∧ s.es = el.map (fun p => p.1 :: p.2) := by
  rw [hgrScan_dropSkips, hls]
  rcases hm with rfl | ⟨m, rfl, hm⟩
  · simp only [hgrScan, hgrStep, hgrHeader, if_true]
    rw [hgrScan_edges_plain _ el _ hN rfl (by simp [hE])]
    rw [hgrScan_nodeLines _ nl hN (by simp [hE]) (by simpa using hnl)]
    exact ⟨_, rfl, rfl, by simp, by simp⟩
  · simp only [hgrScan, hgrStep, hgrHeader, if_true]
    rw [hgrScan_edges_plain _ el _ hN hm (by simp [hE])]
    rw [hgrScan_nodeLines _ nl hN (by simp [hE]) (by simpa using hnl)]
    exact ⟨_, rfl, hm, by simp, by simp⟩

/-- non-vacuity: a weighted file with a comment, a blank line, and a node-weight line -/
example : (parseHgr [.skip, .toks [2, 3, 1], .toks [5, 3, 1], .skip, .toks [7, 2], .toks [1]]).map (fun c => c.edges) =
    some [(⟨[1, 3]⟩, (20, [])), (⟨[2]⟩, (28, []))] := by decide
example : (parseHgr [.toks [3, 3], .toks [2, 1], .toks [1, 2], .toks [3]]).map (fun c => c.edges) =
    some [(⟨[1, 2]⟩, (4, [])), (⟨[3]⟩, (4, []))] := by decide
example : (parseHgr [.toks [3, 3], .toks [2, 1], .toks [1, 2], .toks [3]]).map (fun c => AL.keys c.nodes) =
    some [1, 2, 3] := by decide
/-- a weighted file that repeats a node set in another order accumulates (outside the hypothesis of `C06_hgr`) -/
example : (parseHgr [.toks [2, 2, 1], .toks [5, 2, 1], .toks [7, 1, 2]]).map (fun c => c.edges) =
    some [(⟨[1, 2]⟩, (48, []))] := by decide

/-! ## HIF -/

/-- The HIF reader (network-type undirected / asc / absent) builds an unweighted, well-formed
    `Hypergraph` with **one hyperedge per distinct incidence set**: its keys are exactly the sorted
    incidence lists `l` that the first loop collected per edge (`(hifPass1 d).tmp`, characterised by
    `C06_hif_incidence_lists`), each once; and **the edge records without incidences** are exactly the
    names in the empty-edge table.  For every document on which the reader does not raise. -/
theorem C06_hif (d : HifDoc) (r : HifResult) (h : readHif d = some r) :
    WF r.c ∧ r.c.weighted = false ∧
    (∀ k, k ∈ AL.keys r.c.edges ↔ ∃ eu l, AL.get? (hifPass1 d).tmp eu = some l ∧ k = ⟨sort l⟩) ∧
    (∀ name, name ∈ AL.keys r.empties ↔ name ∈ d.edges ∧ ∀ p ∈ d.incidences, p.1 ≠ name) := by
  obtain ⟨s, rfl, inv, cov⟩ := readHif_inv d r h
  refine ⟨inv.wf, inv.unw, ?_, ?_⟩
  · intro k
    constructor
    · intro hk; exact inv.keysSound k hk
    · rintro ⟨eu, l, hl, rfl⟩
      obtain ⟨p, hp, hpe⟩ := inv.tmpSound eu l hl
      obtain ⟨eu', l', h1, h2, h3⟩ := cov p hp
      rw [hpe] at h1; cases h1
      rw [hl] at h2; cases h2
      exact (inv.addedIff _).mp h3
  · intro name
    exact inv.emptiesIff name

/-- What the first loop collects: the numbering of edge / node names is injective (`TabOK`), every
    incidence's names are numbered, and the list kept for (the id of) edge name `e` is the list of the
    ids of the nodes incident to `e`, in file order (`incList`) — so the keys of `C06_hif` are the
    sorted incidence sets, and two edge names give the same key iff they have the same sorted list. -/
theorem C06_hif_incidence_lists (d : HifDoc) :
    TabOK (hifPass1 d).etab ∧ TabOK (hifPass1 d).ntab ∧
    (∀ p ∈ d.incidences, ∃ eu nu, AL.get? (hifPass1 d).etab p.1 = some eu ∧ AL.get? (hifPass1 d).ntab p.2 = some nu ∧
        AL.get? (hifPass1 d).tmp eu = some (incList (hifPass1 d).ntab d.incidences p.1) ∧
        nu ∈ incList (hifPass1 d).ntab d.incidences p.1) ∧
    (∀ eu l, AL.get? (hifPass1 d).tmp eu = some l → ∃ p ∈ d.incidences, AL.get? (hifPass1 d).etab p.1 = some eu) := by
  have inv := Inv1_pass1 d
  refine ⟨inv.eok, inv.nok, ?_, inv.tmpSound⟩
  intro p hp
  obtain ⟨eu, nu, l, h1, h2, _⟩ := inv.seenOk p hp
  refine ⟨eu, nu, h1, h2, ListsOK_pass1 d p.1 eu h1, ?_⟩
  unfold incList
  exact List.mem_filterMap.mpr ⟨p, List.mem_filter.mpr ⟨hp, by simp⟩, h2⟩

/-- node records: the (last) record naming a node is the metadata of that node (`recMeta i` stands for
    the record at position `i`); the node's id is its number in the final node table -/
theorem C06_hif_node_records (d : HifDoc) (r : HifResult) (h : readHif d = some r) (pre post : List Nat) (name : Nat)
    (hd : d.nodes = pre ++ name :: post) (hnot : name ∉ post) :
    ∃ u, AL.get? (hifNodes (hifPass1 d) 1 d.nodes).ntab name = some u ∧
      AL.get? r.c.nodes u = some (recMeta (pre.length + 1)) :=
  hif_node_record d r h pre post name hd hnot

/-- edge records: the record of an edge with incidence list `l` is the metadata of the hyperedge
    `sort l` (weight 1), provided no later edge record has the same incidence set (then the later one
    wins, as `set_edge_metadata` overwrites) -/
theorem C06_hif_edge_records (d : HifDoc) (r : HifResult) (h : readHif d = some r)
    (pre post : List Nat) (name eu : Nat) (l : List Nat) (hd : d.edges = pre ++ name :: post)
    (he : AL.get? (hifPass1 d).etab name = some eu) (hl : AL.get? (hifPass1 d).tmp eu = some l)
    (hlast : ∀ n' ∈ post, ∀ eu' l', AL.get? (hifPass1 d).etab n' = some eu' →
      AL.get? (hifPass1 d).tmp eu' = some l' → sort l' ≠ sort l) :
    AL.get? r.c.edges ⟨sort l⟩ = some (unit, recMeta (pre.length + 1)) :=
  hif_edge_record d r h pre post name eu l hd he hl hlast

/-- incidence records: the record of incidence `(e, n)` is attached to the pair (key of `e`, id of `n`),
    provided no later incidence record names the same node with an edge of the same incidence set -/
theorem C06_hif_incidence_records (d : HifDoc) (r : HifResult) (h : readHif d = some r)
    (pre post : List (Nat × Nat)) (p : Nat × Nat) (eu nu : Nat) (l : List Nat)
    (hd : d.incidences = pre ++ p :: post)
    (he : AL.get? (hifPass1 d).etab p.1 = some eu) (hn : AL.get? (hifPass1 d).ntab p.2 = some nu)
    (hl : AL.get? (hifPass1 d).tmp eu = some l)
    (hlast : ∀ q ∈ post, q.2 = p.2 → ∀ eu' l', AL.get? (hifPass1 d).etab q.1 = some eu' →
      AL.get? (hifPass1 d).tmp eu' = some l' → sort l' ≠ sort l) :
    AL.get? r.incid (sort l, nu) = some (pre.length + 1) :=
  hif_incidence_record d r h pre post p eu nu l hd he hn hl hlast

/-- non-vacuity: edges 70 and 71 share the incidence set {50, 51}, edge 73 has no incidence, node 52
    has no incidence, node 51 has no record -/
def exDoc : HifDoc := { incidences := [(70, 50), (70, 51), (71, 51), (71, 50)], nodes := [50, 52], edges := [70, 73, 71] }
example : (readHif exDoc).map (fun r => AL.keys r.c.edges) = some [⟨[0, 1]⟩] := by decide
example : (readHif exDoc).map (fun r => r.c.nodes) = some [(0, recMeta 1), (2, recMeta 2), (1, [])] := by decide
example : (readHif exDoc).map (fun r => r.c.edges.map (fun e => e.2.2)) = some [recMeta 3] := by decide
example : (readHif exDoc).map (fun r => r.empties) = some [(73, 2)] := by decide
example : (readHif exDoc).map (fun r => r.incid) =
    some [(([0, 1], 0), 4), (([0, 1], 1), 3)] := by decide
