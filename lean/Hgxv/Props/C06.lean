import Hgxv.Proofs.C06
import Hgxv.Proofs.C06WF
import Hgxv.Proofs.C06Hgr
import Hgxv.Proofs.C06Hif
import Hgxv.Proofs.C06Hif2
import Hgxv.Proofs.C06Hif3
import Hgxv.Proofs.C06LinkH
import Hgxv.Proofs.C06LinkD
import Hgxv.Proofs.C06LinkT
import Hgxv.Proofs.C06LinkM
import Hgxv.Proofs.C06Text
import Hgxv.Proofs.C06Str
import Hgxv.Proofs.C06Json
import Hgxv.Proofs.C06HgrText
/-! # C06 — save then load returns the same hypergraph, for every type and format

Property theorems about the model `Hgxv/Model/C06.lean` (+ `C06Hif.lean`).  A `Content κ` is what the
public API shows of a container; `WF` is what every object built through that API satisfies
(distinct nodes, distinct canonical keys, hyperedges only over listed nodes, weight 1 everywhere when
unweighted) — the harness evaluates `WF` on the digest of every real object it saves. -/
open C06

/-! ## JSON: load ∘ save = id, hyperedge metadata modulo the reserved keys -/

/-- the generic statement, with the reserved keys still visible: `load (save c)` is `c` with the
    metadata of every hyperedge decorated by what `save` wrote (same listing order, same weights) -/
theorem C06_json_load_save {κ : Type} [DecidableEq κ] [Kind κ] [LawfulKind κ] (c : Content κ) (h : WF c) :
    load (save c) = some { c with edges := c.edges.map (decorated c.weighted) } :=
  load_save c h

theorem C06_json_roundtrip {κ : Type} [DecidableEq κ] [Kind κ] [LawfulKind κ] (c : Content κ) (h : WF c) :
    (load (save c)).map Content.erased = some c.erased := by
  rw [load_save c h]; simp [erased_decorated]

/-- Hypergraph: same type, nodes (with metadata, isolated ones included), hyperedges, weightedness,
    weights, hypergraph / node metadata; hyperedge metadata modulo `weight`, `time`, `layer` -/
theorem C06_json_roundtrip_H (c : Content HKey) (h : WF c) :
    (loadAny (saveAny (.H c))).map AnyContent.erased = some (.H c.erased) := by
  simp only [saveAny, loadAny, lastHeader_save, Kind.ty, load_save c h]
  simp [AnyContent.erased, erased_decorated]

/-- DirectedHypergraph (keys = (sources, targets)) -/
theorem C06_json_roundtrip_D (c : Content DKey) (h : WF c) :
    (loadAny (saveAny (.D c))).map AnyContent.erased = some (.D c.erased) := by
  simp only [saveAny, loadAny, lastHeader_save, Kind.ty, load_save c h]
  simp [AnyContent.erased, erased_decorated]

/-- TemporalHypergraph (keys = (time, nodes); the time travels in the record's metadata) -/
theorem C06_json_roundtrip_T (c : Content TKey) (h : WF c) :
    (loadAny (saveAny (.T c))).map AnyContent.erased = some (.T c.erased) := by
  simp only [saveAny, loadAny, lastHeader_save, Kind.ty, load_save c h]
  simp [AnyContent.erased, erased_decorated]

/-- MultiplexHypergraph (keys = (nodes, layer); the layer travels in the record's metadata) -/
theorem C06_json_roundtrip_M (c : Content MKey) (h : WF c) :
    (loadAny (saveAny (.M c))).map AnyContent.erased = some (.M c.erased) := by
  simp only [saveAny, loadAny, lastHeader_save, Kind.ty, load_save c h]
  simp [AnyContent.erased, erased_decorated]

/-! ## a loaded object is a full object (strengthening round) -/

/-- what `load_hypergraph` returns for a saved well-formed object is well-formed again: the round-trip
    theorems apply to it, and by `C06_wf_reachable` to everything built from it with further `add_node` /
    `add_edge` / `set_hypergraph_metadata` calls -/
theorem C06_json_loaded_wf {κ : Type} [DecidableEq κ] [Kind κ] [LawfulKind κ] (c : Content κ) (h : WF c) :
    ∃ c1 : Content κ, load (save c) = some c1 ∧ WF c1 :=
  ⟨_, load_save c h, WF_decorated c h⟩

/-- save → load → save → load: the object loaded the second time is still the first one (hyperedge
    metadata modulo the reserved keys; weights are exact integers of any magnitude) -/
theorem C06_json_reload {κ : Type} [DecidableEq κ] [Kind κ] [LawfulKind κ] (c : Content κ) (h : WF c) :
    ∃ c1 : Content κ, load (save c) = some c1 ∧ (load (save c1)).map Content.erased = some c.erased := by
  refine ⟨_, load_save c h, ?_⟩
  have h1 := WF_decorated c h
  rw [load_save _ h1]
  simp only [Option.map_some]
  have e1 := erased_decorated ({ c with edges := c.edges.map (decorated c.weighted) } : Content κ)
  have e2 := erased_decorated c
  exact congrArg some (e1.trans e2)

/-- a further accepted `add_edge` on the loaded object and then a second round trip: nothing is lost -/
theorem C06_json_loaded_add_edge {κ : Type} [DecidableEq κ] [Kind κ] [LawfulKind κ] [CanonKind κ] (c c1 c2 : Content κ)
    (h : WF c) (h1 : load (save c) = some c1) (raw : κ) (w : Option Int) (m : Option Meta)
    (h2 : addEdge c1 raw w m = some c2) :
    (load (save c2)).map Content.erased = some c2.erased := by
  rw [load_save c h] at h1
  have hw1 : WF c1 := by
    have := WF_decorated c h
    rw [Option.some.injEq] at h1
    rw [← h1]; exact this
  exact C06_json_roundtrip c2 (WF_addEdge c1 c2 raw w m hw1 h2)

/-! ## saving does not modify the saved object -/

/-- the run of `save_hypergraph` on the live object leaves it as it was and writes `save c` -/
theorem C06_save_pure {κ : Type} [DecidableEq κ] [Kind κ] (c : Content κ) :
    saveRun true c = (c, save c) := by
  simp [saveRun, saveEdgeRun, save, saveEdge]

/-- D20, as found on the unchanged tree: writing into the live dict changes the saved object -/
theorem C06_save_live_witness :
    ∃ c : Content HKey, WF c ∧ (saveRun false c).1 ≠ c := by
  refine ⟨{ weighted := true, hmeta := [], nodes := [(1, []), (2, [])], edges := [(⟨[1, 2]⟩, (6, []))] }, by decide, ?_⟩
  intro h
  have := congrArg Content.edges h
  revert this; decide

/-! ## binary: populate ∘ expose -/

/-- `.hgx`: the loaded object has the same content (listing order and reserved keys included) and the
    same layer registry; the two tables the pickled dict does not carry come back empty -/
theorem C06_hgx_roundtrip {κ : Type} [Kind κ] (s : Full κ) :
    loadPickle (expose s) = some { s with incidences := [], emptyEdges := [] } := by
  simp [loadPickle, expose, populate]

theorem C06_hgx_content {κ : Type} [Kind κ] (s : Full κ) :
    (loadPickle (expose s)).map (·.c) = some s.c := by
  simp [C06_hgx_roundtrip]

/-! ## non-vacuity: concrete well-formed contents (isolated node, repeated node set across times /
layers, user metadata under a reserved key, weighted) -/

def exH : Content HKey :=
  { weighted := false, hmeta := [(.user 2, .tok 13)],
    nodes := [(3, [(.user 4, .tok 10)]), (1, []), (2, []), (9, [])],
    edges := [(⟨[1, 2, 3]⟩, (4, [(.weight, .tok 19)])), (⟨[2]⟩, (4, []))] }
def exD : Content DKey :=
  { weighted := true, hmeta := [],
    nodes := [(1, []), (2, [(.user 2, .tok 7)]), (3, []), (4, [])],
    edges := [(⟨[1, 2], [3]⟩, (10, [(.user 3, .tok 1)])), (⟨[3], [1, 2]⟩, (-4, []))] }
def exT : Content TKey :=
  { weighted := true, hmeta := [(.user 0, .tok 0)],
    nodes := [(1, [(.user 3, .tok 4)]), (2, []), (7, [])],
    edges := [(⟨0, [1, 2]⟩, (6, [(.user 2, .tok 9), (.time, .tok 3)])), (⟨5, [1, 2]⟩, (4, []))] }
def exM : Content MKey :=
  { weighted := false, hmeta := [(.user 0, .tok 0), (.user 1, .tok 5)],
    nodes := [(1, []), (2, []), (5, [(.user 2, .tok 2)])],
    edges := [(⟨[1, 2], 0⟩, (4, [])), (⟨[1, 2], 1⟩, (4, [(.layer, .tok 3), (.user 2, .tok 2)]))] }

example : WF exH := by decide
example : WF exD := by decide
example : WF exT := by decide
example : WF exM := by decide
example : (loadAny (saveAny (.T exT))).map AnyContent.erased = some (.T exT.erased) := C06_json_roundtrip_T exT (by decide)
/-- the reserved keys really are in the loaded metadata (the comparison must erase them) -/
example : (load (κ := TKey) (save exT)).map (fun c => c.edges.map (fun e => e.2.2)) =
    some [[(.user 2, .tok 9), (.time, .tm 0), (.weight, .wq 6)], [(.weight, .wq 4), (.time, .tm 5)]] := by decide
/-- without `WF` the round trip can fail: a hyperedge over an unlisted node brings the node back -/
example : (load (κ := HKey) (save ({ weighted := false, hmeta := [], nodes := [], edges := [(⟨[1]⟩, (4, []))] } : Content HKey))).map
    (fun c => c.nodes) = some [(1, [])] := by decide

/-- weights beyond 2^53 / 2^63 are ordinary contents of the model (quanta `4·(2^53+1)`, `4·(2^64+3)`, negative) -/
def exBig : Content DKey :=
  { weighted := true, hmeta := [],
    nodes := [(1, []), (2, []), (3, [])],
    edges := [(⟨[1, 2], [3]⟩, (36028797018963972, [])), (⟨[3], [1]⟩, (73786976294838206476, [(.user 2, .tok 24)])),
              (⟨[2], [1]⟩, (-36893488147419103236, []))] }
example : WF exBig := by decide
example : (load (κ := DKey) (save exBig)).map (fun c => c.edges.map (fun e => e.2.1)) =
    some [36028797018963972, 73786976294838206476, -36893488147419103236] := by decide
example : ∃ c1 : Content TKey, load (save exT) = some c1 ∧ (load (save c1)).map Content.erased = some exT.erased :=
  C06_json_reload exT (by decide)
example : ∃ c1 : Content DKey, load (save exBig) = some c1 ∧ WF c1 := C06_json_loaded_wf exBig (by decide)

/-! ## the round-trip hypothesis `WF` is what the public API guarantees -/

/-- every content reached from the constructor by `add_node`, `add_edge` (accepted calls) and
    `set_hypergraph_metadata` is well-formed -/
theorem C06_wf_reachable {κ : Type} [DecidableEq κ] [Kind κ] [CanonKind κ] (w : Bool) :
    WF (construct κ w) ∧
    (∀ (c : Content κ) n m, WF c → WF (addNode c n m)) ∧
    (∀ (c c' : Content κ) raw wt m, WF c → addEdge c raw wt m = some c' → WF c') ∧
    (∀ (c : Content κ) hm, WF c → WF (setHMeta c hm)) :=
  ⟨WF_construct w, fun c n m h => WF_addNode c n m h, fun c c' raw wt m h h' => WF_addEdge c c' raw wt m h h',
   fun c hm h => WF_setHMeta c hm h⟩

/-! ## hMETIS (.hgr) -/

/-- The reader builds exactly the listed hyperedges with their weights.  `s` is what the line scanner
    lists (`s.es` node sets, `s.ws` weights, see `C06_hgr_listing_*`).  Hypothesis: a weighted file lists
    distinct node sets (DESIGN §2 reading; `add_edges` would add up / reject repeated ones).
    Conclusion: the reader succeeds, the object is (un)weighted as the mode says, its hyperedges are
    exactly the sorted listed node sets (each once), its nodes exactly the nodes of the listed sets, a
    weighted file gives every listed set its listed weight, an unweighted one weight 1 everywhere;
    all metadata empty. -/
theorem C06_hgr (ls : List Line) (s : HgrSt) (hs : hgrScan {} ls = some s)
    (hd : hgrWeighted s.mode = true → (s.es.map sort).Nodup) :
    ∃ c, parseHgr ls = some c ∧ WF c ∧ c.weighted = hgrWeighted s.mode ∧
      (∀ k, k ∈ AL.keys c.edges ↔ ∃ e ∈ s.es, k = ⟨sort e⟩) ∧
      (∀ n, n ∈ AL.keys c.nodes ↔ ∃ e ∈ s.es, n ∈ e) ∧
      (hgrWeighted s.mode = true →
        ∀ p ∈ s.es.zip s.ws, AL.get? c.edges ⟨sort p.1⟩ = some (unit * (p.2 : Int), [])) ∧
      (hgrWeighted s.mode = false → ∀ e ∈ c.edges, e.2 = (unit, [])) := by
  have hinv := scanInv_scan {} s ls scanInv_init hs
  simp only [parseHgr, hs]
  cases hm : hgrWeighted s.mode with
  | true =>
    have hlen : s.es.length = s.ws.length := hinv.2.1 hm
    have hnd : s.es.Nodup := nodup_of_nodup_map _ _ (hd hm)
    simp only [buildHgr, if_true, hlen, ne_eq, not_true_eq_false, if_false, hnd, decide_true]
    let l := s.es.zip (s.ws.map (fun (w : Nat) => some (unit * (w : Int))))
    have hfst : l.map Prod.fst = s.es := List.map_fst_zip (by simp [hlen])
    obtain ⟨c, h1, hwf, hw, _, hk, hn⟩ := addEdgesH_spec (construct HKey true) l (WF_construct true) (by simp [construct])
    refine ⟨c, h1, hwf, by simpa [construct] using hw, ?_, ?_, ?_, by simp⟩
    · intro k; rw [hk, ← hfst]; simp [construct, AL.keys]
    · intro n; rw [hn, ← hfst]; simp [construct, AL.keys]
    · intro _ p hp
      have hp' : (p.1, some (unit * (p.2 : Int))) ∈ l := by
        show _ ∈ s.es.zip (s.ws.map _)
        rw [List.zip_map_right]
        exact List.mem_map.mpr ⟨p, hp, rfl⟩
      have := addEdgesH_weights (construct HKey true) c l rfl
        (by
          have : l.map (fun p => (⟨sort p.1⟩ : HKey)) = (s.es.map sort).map HKey.mk := by
            rw [← hfst]; simp [Function.comp_def]
          rw [this]
          exact nodup_map_of_inj _ (fun a b hab => by cases hab; rfl) _ (hd hm))
        (by simp [construct, AL.keys]) h1 _ hp'
      simpa [weightOrUnit] using this
  | false =>
    simp only [buildHgr, Bool.false_eq_true, if_false]
    obtain ⟨c, h1, hwf, hw, _, hk, hn⟩ := addEdgesH_spec (construct HKey false) (s.es.map (fun e => (e, none)))
      (WF_construct false) (by simp)
    refine ⟨c, h1, hwf, by simpa [construct] using hw, ?_, ?_, by simp, ?_⟩
    · intro k; rw [hk]; simp only [construct, AL.keys, List.map_nil, List.not_mem_nil, false_or, List.mem_map]
      constructor
      · rintro ⟨p, ⟨e, he, rfl⟩, hp⟩; exact ⟨e, he, hp⟩
      · rintro ⟨e, he, hp⟩; exact ⟨(e, none), ⟨e, he, rfl⟩, hp⟩
    · intro n; rw [hn]; simp only [construct, AL.keys, List.map_nil, List.not_mem_nil, false_or, List.mem_map]
      constructor
      · rintro ⟨p, ⟨e, he, rfl⟩, hp⟩; exact ⟨e, he, hp⟩
      · rintro ⟨e, he, hp⟩; exact ⟨(e, none), ⟨e, he, rfl⟩, hp⟩
    · intro _
      exact addEdgesH_unit (construct HKey false) c _ rfl (by simp [construct]) (by simp) h1

/-- what a weighted file lists: after dropping comment / blank lines, a header `E N mode` with
    `mode % 10 = 1`, `E` lines `w v₁ v₂ …` and at most `N` node-weight lines -/
theorem C06_hgr_listing_weighted (ls : List Line) (E N mode : Nat) (el : List (Nat × Nat × List Nat))
    (nl : List (List Nat)) (hN : N ≠ 0) (hm : hgrWeighted mode = true) (hE : el.length = E) (hnl : nl.length ≤ N)
    (hls : dropSkips ls = .toks [E, N, mode] :: (el.map (fun p => Line.toks (p.1 :: p.2.1 :: p.2.2)) ++ nl.map Line.toks)) :
    ∃ s, hgrScan {} ls = some s ∧ s.mode = mode ∧ s.ws = el.map (·.1) ∧ s.es = el.map (fun p => p.2.1 :: p.2.2) := by
  rw [hgrScan_dropSkips, hls]
  simp only [hgrScan, hgrStep, hgrHeader, if_true]
  rw [hgrScan_edges_weighted _ el _ hN hm (by simp [hE])]
  rw [hgrScan_nodeLines _ nl hN (by simp [hE]) (by simpa using hnl)]
  exact ⟨_, rfl, rfl, by simp, by simp⟩

/-- what an unweighted file lists: header `E N` or `E N mode` with `mode % 10 ≠ 1`, `E` lines
    `v₁ v₂ …`, at most `N` node-weight lines -/
theorem C06_hgr_listing_plain (ls : List Line) (E N : Nat) (modeTok : List Nat) (el : List (Nat × List Nat))
    (nl : List (List Nat)) (hN : N ≠ 0)
    (hm : modeTok = [] ∨ ∃ m, modeTok = [m] ∧ hgrWeighted m = false) (hE : el.length = E) (hnl : nl.length ≤ N)
    (hls : dropSkips ls = .toks (E :: N :: modeTok) :: (el.map (fun p => Line.toks (p.1 :: p.2)) ++ nl.map Line.toks)) :
    ∃ s, hgrScan {} ls = some s ∧ hgrWeighted s.mode = false ∧ s.ws = [] ∧ s.es = el.map (fun p => p.1 :: p.2) := by
  rw [hgrScan_dropSkips, hls]
  rcases hm with rfl | ⟨m, rfl, hm⟩
  · simp only [hgrScan, hgrStep, hgrHeader, if_true]
    rw [hgrScan_edges_plain _ el _ hN rfl (by simp [hE])]
    rw [hgrScan_nodeLines _ nl hN (by simp [hE]) (by simpa using hnl)]
    exact ⟨_, rfl, rfl, by simp, by simp⟩
  · simp only [hgrScan, hgrStep, hgrHeader, if_true]
    rw [hgrScan_edges_plain _ el _ hN hm (by simp [hE])]
    rw [hgrScan_nodeLines _ nl hN (by simp [hE]) (by simpa using hnl)]
    exact ⟨_, rfl, hm, by simp, by simp⟩

/-- non-vacuity: a weighted file with a comment, a blank line, and a node-weight line -/
example : (parseHgr [.skip, .toks [2, 3, 1], .toks [5, 3, 1], .skip, .toks [7, 2], .toks [1]]).map (fun c => c.edges) =
    some [(⟨[1, 3]⟩, (20, [])), (⟨[2]⟩, (28, []))] := by decide
example : (parseHgr [.toks [3, 3], .toks [2, 1], .toks [1, 2], .toks [3]]).map (fun c => c.edges) =
    some [(⟨[1, 2]⟩, (4, [])), (⟨[3]⟩, (4, []))] := by decide
example : (parseHgr [.toks [3, 3], .toks [2, 1], .toks [1, 2], .toks [3]]).map (fun c => AL.keys c.nodes) =
    some [1, 2, 3] := by decide
/-- a weighted file that repeats a node set in another order accumulates (outside the hypothesis of `C06_hgr`) -/
example : (parseHgr [.toks [2, 2, 1], .toks [5, 2, 1], .toks [7, 1, 2]]).map (fun c => c.edges) =
    some [(⟨[1, 2]⟩, (48, []))] := by decide

/-! ## HIF -/

/-- The HIF reader (network-type undirected / asc / absent) builds an unweighted, well-formed
    `Hypergraph` with **one hyperedge per distinct incidence set**: its keys are exactly the sorted
    incidence lists `l` that the first loop collected per edge (`(hifPass1 d).tmp`, characterised by
    `C06_hif_incidence_lists`), each once; and **the edge records without incidences** are exactly the
    names in the empty-edge table.  For every document on which the reader does not raise. -/
theorem C06_hif (d : HifDoc) (r : HifResult) (h : readHif d = some r) :
    WF r.c ∧ r.c.weighted = false ∧
    (∀ k, k ∈ AL.keys r.c.edges ↔ ∃ eu l, AL.get? (hifPass1 d).tmp eu = some l ∧ k = ⟨sort l⟩) ∧
    (∀ name, name ∈ AL.keys r.empties ↔ name ∈ d.edges ∧ ∀ p ∈ d.incidences, p.1 ≠ name) := by
  obtain ⟨s, rfl, inv, cov⟩ := readHif_inv d r h
  refine ⟨inv.wf, inv.unw, ?_, ?_⟩
  · intro k
    constructor
    · intro hk; exact inv.keysSound k hk
    · rintro ⟨eu, l, hl, rfl⟩
      obtain ⟨p, hp, hpe⟩ := inv.tmpSound eu l hl
      obtain ⟨eu', l', h1, h2, h3⟩ := cov p hp
      rw [hpe] at h1; cases h1
      rw [hl] at h2; cases h2
      exact (inv.addedIff _).mp h3
  · intro name
    exact inv.emptiesIff name

/-- What the first loop collects: the numbering of edge / node names is injective (`TabOK`), every
    incidence's names are numbered, and the list kept for (the id of) edge name `e` is the list of the
    ids of the nodes incident to `e`, in file order (`incList`) — so the keys of `C06_hif` are the
    sorted incidence sets, and two edge names give the same key iff they have the same sorted list. -/
theorem C06_hif_incidence_lists (d : HifDoc) :
    TabOK (hifPass1 d).etab ∧ TabOK (hifPass1 d).ntab ∧
    (∀ p ∈ d.incidences, ∃ eu nu, AL.get? (hifPass1 d).etab p.1 = some eu ∧ AL.get? (hifPass1 d).ntab p.2 = some nu ∧
        AL.get? (hifPass1 d).tmp eu = some (incList (hifPass1 d).ntab d.incidences p.1) ∧
        nu ∈ incList (hifPass1 d).ntab d.incidences p.1) ∧
    (∀ eu l, AL.get? (hifPass1 d).tmp eu = some l → ∃ p ∈ d.incidences, AL.get? (hifPass1 d).etab p.1 = some eu) := by
  have inv := Inv1_pass1 d
  refine ⟨inv.eok, inv.nok, ?_, inv.tmpSound⟩
  intro p hp
  obtain ⟨eu, nu, l, h1, h2, _⟩ := inv.seenOk p hp
  refine ⟨eu, nu, h1, h2, ListsOK_pass1 d p.1 eu h1, ?_⟩
  unfold incList
  exact List.mem_filterMap.mpr ⟨p, List.mem_filter.mpr ⟨hp, by simp⟩, h2⟩

/-- node records: the (last) record naming a node is the metadata of that node (`recMeta i` stands for
    the record at position `i`); the node's id is its number in the final node table -/
theorem C06_hif_node_records (d : HifDoc) (r : HifResult) (h : readHif d = some r) (pre post : List Nat) (name : Nat)
    (hd : d.nodes = pre ++ name :: post) (hnot : name ∉ post) :
    ∃ u, AL.get? (hifNodes (hifPass1 d) 1 d.nodes).ntab name = some u ∧
      AL.get? r.c.nodes u = some (recMeta (pre.length + 1)) :=
  hif_node_record d r h pre post name hd hnot

/-- edge records: the record of an edge with incidence list `l` is the metadata of the hyperedge
    `sort l` (weight 1), provided no later edge record has the same incidence set (then the later one
    wins, as `set_edge_metadata` overwrites) -/
theorem C06_hif_edge_records (d : HifDoc) (r : HifResult) (h : readHif d = some r)
    (pre post : List Nat) (name eu : Nat) (l : List Nat) (hd : d.edges = pre ++ name :: post)
    (he : AL.get? (hifPass1 d).etab name = some eu) (hl : AL.get? (hifPass1 d).tmp eu = some l)
    (hlast : ∀ n' ∈ post, ∀ eu' l', AL.get? (hifPass1 d).etab n' = some eu' →
      AL.get? (hifPass1 d).tmp eu' = some l' → sort l' ≠ sort l) :
    AL.get? r.c.edges ⟨sort l⟩ = some (unit, recMeta (pre.length + 1)) :=
  hif_edge_record d r h pre post name eu l hd he hl hlast

/-- incidence records: the record of incidence `(e, n)` is attached to the pair (key of `e`, id of `n`),
    provided no later incidence record names the same node with an edge of the same incidence set -/
theorem C06_hif_incidence_records (d : HifDoc) (r : HifResult) (h : readHif d = some r)
    (pre post : List (Nat × Nat)) (p : Nat × Nat) (eu nu : Nat) (l : List Nat)
    (hd : d.incidences = pre ++ p :: post)
    (he : AL.get? (hifPass1 d).etab p.1 = some eu) (hn : AL.get? (hifPass1 d).ntab p.2 = some nu)
    (hl : AL.get? (hifPass1 d).tmp eu = some l)
    (hlast : ∀ q ∈ post, q.2 = p.2 → ∀ eu' l', AL.get? (hifPass1 d).etab q.1 = some eu' →
      AL.get? (hifPass1 d).tmp eu' = some l' → sort l' ≠ sort l) :
    AL.get? r.incid (sort l, nu) = some (pre.length + 1) :=
  hif_incidence_record d r h pre post p eu nu l hd he hn hl hlast

/-- non-vacuity: edges 70 and 71 share the incidence set {50, 51}, edge 73 has no incidence, node 52
    has no incidence, node 51 has no record -/
def exDoc : HifDoc := { incidences := [(70, 50), (70, 51), (71, 51), (71, 50)], nodes := [50, 52], edges := [70, 73, 71] }
example : (readHif exDoc).map (fun r => AL.keys r.c.edges) = some [⟨[0, 1]⟩] := by decide
example : (readHif exDoc).map (fun r => r.c.nodes) = some [(0, recMeta 1), (2, recMeta 2), (1, [])] := by decide
example : (readHif exDoc).map (fun r => r.c.edges.map (fun e => e.2.2)) = some [recMeta 3] := by decide
example : (readHif exDoc).map (fun r => r.empties) = some [(73, 2)] := by decide
example : (readHif exDoc).map (fun r => r.incid) =
    some [(([0, 1], 0), 4), (([0, 1], 1), 3)] := by decide

/-! ## Links to the full container models (C01 … C04)

The content-level `addNode` / `addEdge` above (the ones `load` goes through) are not a private invention of this
file: they are the `add_node` / `add_edge` of the abstract specifications `C0x.Spec` of the four complete container
models, which `C01_refines … C04_refines` prove equal to the id-indexed stores for every history.
`Proofs/C06Link*.lean`: `ofSpec0x : C0x.Spec → Content κ` reads a spec state as a content (node labels, keys,
weights unchanged; a token dict `List (Nat × Nat)` read through the numbering `decKey` / `decVal` of C06's metadata
vocabulary, a bijection — `C06_link_onto`: every content is such a reading); `specX : SpecOps κ C0x.Spec` are the
spec's own constructor / `add_node` / `add_edge` (`C06_link_ops_X` shows them), `SpecOps.replay` is `load_hypergraph`
written with them; `storeX : SpecOps κ StoreX` are the same three entry points of the ID-INDEXED model on stores carrying
their invariant (`StoreX = {s // C0x.Inv s}`), linked for hyperedges that satisfy that model's quantifier (`okKey`).
`ReachableX s`: `s` is an object of the full model after some history of public calls that
satisfy that model's quantifier (`WF`: hyperedges are node sets; C02: non-empty disjoint sides). -/

def C06.ReachableH (s : C01.Store) : Prop :=
  ∃ (k : Nat) (cs : List C01.Cmd), (∀ c ∈ cs, c.WF) ∧ s ∈ C01.run (C01.init k) cs
def C06.ReachableD (s : C02.Store) : Prop :=
  ∃ (cs : List C02.Cmd) (slot : Nat), (∀ c ∈ cs, c.WF) ∧ AL.get? (C02.runCmds [] cs) slot = some s
def C06.ReachableT (s : C03.Store) : Prop :=
  ∃ (ops : List C03.Op) (i : Nat), (∀ op ∈ ops, op.WF) ∧ AL.get? (C03.run [] ops) i = some s
def C06.ReachableM (s : C04.Store) : Prop :=
  ∃ (w : Bool) (hm : C04.HMeta) (ops : List C04.Op), (∀ op ∈ ops, op.WF) ∧ s = C04.run (C04.init w hm) ops

/-- every content is the reading of a spec state, for the four types: C06's theorems about all (well-formed) contents
are statements about all (well-formed) spec states -/
theorem C06_link_onto :
    (∀ c : Content HKey, ∃ a : C01.Spec, ofSpec01 a = c) ∧ (∀ c : Content DKey, ∃ a : C02.Spec, ofSpec02 a = c) ∧
    (∀ c : Content TKey, ∃ a : C03.Spec, ofSpec03 a = c) ∧ (∀ c : Content MKey, ∃ a : C04.Spec, ofSpec04 a = c) :=
  ⟨ofSpec01_onto, ofSpec02_onto, ofSpec03_onto, ofSpec04_onto⟩

/-- the constructors: a fresh spec state reads as `construct κ w`, except for the hypergraph-metadata dict, where each
model has its own token names for `{"weighted": w, "type": <class>}` (C06: keys `user 0/1`, values `tok 0/1`, `tok 2+i`);
`load` overwrites that dict with the saved one, so the difference never reaches a loaded object -/
theorem C06_link_constructor (w : Bool) :
    ofSpec01 (C01.Spec.new w []) = setHMeta (construct HKey w) (decMeta (C01.initHMeta w [])) ∧
    ofSpec02 (C02.Spec.ctor w none none none none none).1 = setHMeta (construct DKey w) (decMeta (C02.ctorHMeta none w)) ∧
    ofSpec03 (C03.Spec.new w) = setHMeta (construct TKey w) (decMeta (C03.Spec.new w).hmeta) ∧
    ofSpec04 (C04.Spec.init w []) = setHMeta (construct MKey w) (decMeta (C04.Spec.init w []).hmeta) :=
  ⟨rfl, rfl, rfl, rfl⟩

/-! ### Hypergraph (C01) -/

/-- what `specH` is made of: `C01.Spec`'s own operations -/
theorem C06_link_ops_H (w : Bool) (hm md : TMeta) (a : C01.Spec) (n : Nat) (k : HKey) (wt : Option Int) :
    specH.of a = ofSpec01 a ∧
    specH.new w hm = (C01.Spec.apply (C01.Spec.new w []) (.setHMeta hm)).1 ∧
    specH.addNode a n md = (C01.Spec.apply a (.addNode n (some md))).1 ∧
    specH.addEdge a k wt md = (match C01.Spec.apply a (.addEdge k.nodes wt (some md)) with
      | (a', .ok) => some a'
      | (_, .rej) => none) :=
  ⟨rfl, rfl, rfl, rfl⟩

/-- `add_node` on the spec of the full model is `addNode` on the content -/
theorem C06_link_add_node_H (a : C01.Spec) (n : Nat) (md : Option C01.Meta) :
    ofSpec01 (C01.Spec.apply a (.addNode n md)).1 = addNode (ofSpec01 a) n (md.map decMeta) :=
  link_addNode01 a n md

/-- `add_edge` on the spec of the full model is `addEdge` on the content: same verdict, same resulting content -/
theorem C06_link_add_edge_H (a : C01.Spec) (raw : List Nat) (w : Option Int) (md : Option C01.Meta) :
    addEdge (ofSpec01 a) ⟨raw⟩ w (md.map decMeta) =
      match C01.Spec.apply a (.addEdge raw w md) with
      | (a', .ok) => some (ofSpec01 a')
      | (_, .rej) => none :=
  link_addEdge01 a raw w md

/-- the same one step below the spec, on the id-indexed tables of a reachable object (hyperedge = node set) -/
theorem C06_link_store_H (s : C01.Store) (hr : ReachableH s) (n : Nat) (raw : List Nat) (hraw : raw.Nodup)
    (w : Option Int) (md : Option C01.Meta) :
    ofSpec01 (C01.abs (C01.apply s (.addNode n md)).1) = addNode (ofSpec01 (C01.abs s)) n (md.map decMeta) ∧
    addEdge (ofSpec01 (C01.abs s)) ⟨raw⟩ w (md.map decMeta) =
      match C01.apply s (.addEdge raw w md) with
      | (s', .ok) => some (ofSpec01 (C01.abs s'))
      | (_, .rej) => none := by
  obtain ⟨k, cs, hwf, hs⟩ := hr
  have h := C01.run_inv cs (C01.init k) hwf (C01.init_inv k) s hs
  exact ⟨link_store_addNode01 s h n md, link_store_addEdge01 s h raw hraw w md⟩

/-- the hypothesis `WF` of the round-trip theorems follows from the invariant of the full model -/
theorem C06_link_wf_H (s : C01.Store) (hr : ReachableH s) : WF (ofSpec01 (C01.abs s)) := by
  obtain ⟨k, cs, hwf, hs⟩ := hr
  exact WF_ofSpec01_run k cs hwf s hs

/-- `C06_json_roundtrip_H` for every reachable object of the full model -/
theorem C06_link_roundtrip_H (s : C01.Store) (hr : ReachableH s) :
    (loadAny (saveAny (.H (ofSpec01 (C01.abs s))))).map AnyContent.erased = some (.H (ofSpec01 (C01.abs s)).erased) :=
  C06_json_roundtrip_H _ (C06_link_wf_H s hr)

/-- `load_hypergraph` on any record list = replaying the records through `C01.Spec`'s constructor, `add_node`, `add_edge` -/
theorem C06_link_load_H (rs : List Record) : load (κ := HKey) rs = (specH.replay rs).map ofSpec01 :=
  specH.load_eq_replay rs (specH.okRecs_of_all (fun _ => trivial) _)

/-- replaying what `save` wrote for a reachable object succeeds on the spec and ends in a state that shows the same
content (hyperedge metadata modulo the reserved keys) and is well-formed again -/
theorem C06_link_reload_H (s : C01.Store) (hr : ReachableH s) :
    ∃ a1 : C01.Spec, specH.replay (save (ofSpec01 (C01.abs s))) = some a1 ∧
      (ofSpec01 a1).erased = (ofSpec01 (C01.abs s)).erased ∧ WF (ofSpec01 a1) :=
  specH.reload _ (C06_link_wf_H s hr) (fun _ _ => trivial)

/-- `C06_json_loaded_add_edge` read on the full model: reload a reachable object, make one more accepted `add_edge` on
the spec, and the result still round-trips -/
theorem C06_link_loaded_add_edge_H (s : C01.Store) (hr : ReachableH s) (a1 a2 : C01.Spec)
    (h1 : specH.replay (save (ofSpec01 (C01.abs s))) = some a1) (raw : List Nat) (w : Option Int) (md : Option C01.Meta)
    (h2 : C01.Spec.apply a1 (.addEdge raw w md) = (a2, .ok)) :
    (load (save (ofSpec01 a2))).map Content.erased = some (ofSpec01 a2).erased :=
  C06_json_loaded_add_edge (ofSpec01 (C01.abs s)) (ofSpec01 a1) (ofSpec01 a2) (C06_link_wf_H s hr)
    (by rw [C06_link_load_H, h1]; rfl) ⟨raw⟩ w (md.map decMeta) (by rw [C06_link_add_edge_H, h2])

/-- `load_hypergraph` as a run of the ID-INDEXED model (`storeH`: `C01.Store.new`, `C01.apply` with `setHMeta` / `addNode` /
`addEdge`, states = stores with their invariant `C01.Inv`): for every record list whose hyperedge records are node sets
(`storeH.okRecs`: duplicate-free node lists, the quantifier under which C01 proves its refinement) -/
theorem C06_link_store_load_H (rs : List Record) (h : storeH.okRecs (edgeRecs rs)) :
    load (κ := HKey) rs = (storeH.replay rs).map (fun s => ofSpec01 (C01.abs s.1)) :=
  storeH.load_eq_replay rs h

/-- the records saved from a reachable object, replayed on the id-indexed model, build an object `s1` of that model
(tables + invariant, `s1 : StoreH`) whose abstraction shows the same content modulo the reserved keys -/
theorem C06_link_store_reload_H (s : C01.Store) (hr : ReachableH s) :
    ∃ s1 : StoreH, storeH.replay (save (ofSpec01 (C01.abs s))) = some s1 ∧
      (ofSpec01 (C01.abs s1.1)).erased = (ofSpec01 (C01.abs s)).erased := by
  have hw := C06_link_wf_H s hr
  obtain ⟨k, cs, hwf, hs⟩ := hr
  obtain ⟨a, h1, h2, _⟩ := storeH.reload _ hw (okKeys01 s (C01.run_inv cs (C01.init k) hwf (C01.init_inv k) s hs))
  exact ⟨a, h1, h2⟩

/-- non-vacuity: a history with a permuted re-insertion, a removal, a node with metadata, user metadata under the
reserved key `weight` (token 0 = `weight`, 16 = `tok 4`) -/
def C06.exHistH : List C01.Cmd :=
  [.new 0 true [], .on 0 (.addEdge [3, 1, 2] (some 8) (some [(5, 8)])), .on 0 (.addNode 9 (some [(4, 12)])),
   .on 0 (.addEdge [2, 1] none none), .on 0 (.removeEdge [1, 2]), .on 0 (.addEdge [1, 2, 3] (some 4) none),
   .on 0 (.addEdge [9, 2] none (some [(0, 16)]))]

theorem C06.exHistH_wf : ∀ c ∈ exHistH, c.WF := by
  intro c hc
  simp only [exHistH, List.mem_cons, List.not_mem_nil, or_false] at hc
  rcases hc with h | h | h | h | h | h | h <;> subst h <;> simp [C01.Cmd.WF, C01.Op.WF]

example : ∃ s, ReachableH s ∧
    (ofSpec01 (C01.abs s)).nodes = [(1, []), (2, []), (3, []), (9, [(.user 1, .tok 3)])] ∧
    (ofSpec01 (C01.abs s)).edges = [(⟨[1, 2, 3]⟩, (12, [])), (⟨[2, 9]⟩, (4, [(.weight, .tok 4)]))] := by
  have h : ∃ s ∈ C01.run (C01.init 1) exHistH,
      (ofSpec01 (C01.abs s)).nodes = [(1, []), (2, []), (3, []), (9, [(.user 1, .tok 3)])] ∧
      (ofSpec01 (C01.abs s)).edges = [(⟨[1, 2, 3]⟩, (12, [])), (⟨[2, 9]⟩, (4, [(.weight, .tok 4)]))] := by decide
  obtain ⟨s, hs, h1⟩ := h
  exact ⟨s, ⟨1, exHistH, exHistH_wf, hs⟩, h1⟩
/-- its saved records replayed on `C01.Spec`: same keys and weights; the metadata now carries what `save` wrote under
`weight` (token 0; 99 = `wq 12`, 35 = `wq 4`), the user entry under that key is overwritten (the comparison erases it) -/
example : ∃ s ∈ C01.run (C01.init 1) exHistH,
    (specH.replay (save (ofSpec01 (C01.abs s)))).map (fun (a : C01.Spec) => a.edges.map (fun e => (e.1, e.2.1))) =
      some [([1, 2, 3], 12), ([2, 9], 4)] ∧
    (specH.replay (save (ofSpec01 (C01.abs s)))).map (fun (a : C01.Spec) => a.edges.map (fun e => e.2.2)) =
      some [[(0, 99)], [(0, 35)]] := by decide
/-- a rejected call is rejected on both sides -/
example : (C01.Spec.apply (C01.Spec.new false []) (.addEdge [1, 2] (some 8) none)).2 = .rej ∧
    addEdge (ofSpec01 (C01.Spec.new false [])) ⟨[1, 2]⟩ (some 8) none = none := by decide

/-- … and replayed on the id-indexed tables: the saved object had ids 0 and 2 (id 1 was removed, `_next_edge_id` = 3), the
loaded one has ids 0, 1 and `_next_edge_id` = 2, with its adjacency lists -/
example : ∃ s ∈ C01.run (C01.init 1) exHistH, s.edgeList = [([1, 2, 3], 0), ([2, 9], 2)] ∧ s.nextId = 3 ∧
    (storeH.replay (save (ofSpec01 (C01.abs s)))).map (fun (s1 : StoreH) => s1.1.edgeList) =
      some [([1, 2, 3], 0), ([2, 9], 1)] ∧
    (storeH.replay (save (ofSpec01 (C01.abs s)))).map (fun (s1 : StoreH) => s1.1.nextId) = some 2 ∧
    (storeH.replay (save (ofSpec01 (C01.abs s)))).map (fun (s1 : StoreH) => s1.1.adj) =
      some [(1, [0]), (2, [0, 1]), (3, [0]), (9, [1])] := by decide

/-! ### DirectedHypergraph (C02) -/

theorem C06_link_ops_D (w : Bool) (hm md : TMeta) (a : C02.Spec) (n : Nat) (k : DKey) (wt : Option Int) :
    specD.of a = ofSpec02 a ∧
    specD.new w hm = (C02.Spec.applyOp (C02.Spec.ctor w none none none none none).1 (.setHMeta hm)).1 ∧
    specD.addNode a n md = (C02.Spec.applyOp a (.addNode n (some md))).1 ∧
    specD.addEdge a k wt md = (match C02.Spec.applyOp a (.addEdge (.ofLists k.src k.tgt) wt (some md)) with
      | (a', .ok) => some a'
      | (_, .rej) => none) :=
  ⟨rfl, rfl, rfl, rfl⟩

theorem C06_link_add_node_D (a : C02.Spec) (n : Nat) (md : Option C02.Meta) :
    ofSpec02 (C02.Spec.applyOp a (.addNode n md)).1 = addNode (ofSpec02 a) n (md.map decMeta) :=
  link_addNode02 a n md

/-- a side given as an iterable or as a bare node (`Side.scalar`, accepted by `add_edge` only) -/
theorem C06_link_add_edge_D (a : C02.Spec) (e : C02.RawEdge) (w : Option Int) (md : Option C02.Meta) :
    addEdge (ofSpec02 a) ⟨e.src.toList, e.tgt.toList⟩ w (md.map decMeta) =
      match C02.Spec.applyOp a (.addEdge e w md) with
      | (a', .ok) => some (ofSpec02 a')
      | (_, .rej) => none :=
  link_addEdge02 a e w md

theorem C06_link_wf_D (s : C02.Store) (hr : ReachableD s) : WF (ofSpec02 (C02.abs s)) := by
  obtain ⟨cs, slot, hcs, hs⟩ := hr
  exact WF_ofSpec02_run cs hcs slot s hs

/-- one step on the id-indexed tables of a reachable object (`RawWF`: duplicate-free, disjoint, non-empty sides) -/
theorem C06_link_store_D (s : C02.Store) (hr : ReachableD s) (n : Nat) (e : C02.RawEdge) (he : C02.RawWF e)
    (w : Option Int) (md : Option C02.Meta) :
    ofSpec02 (C02.abs (C02.applyOp s (.addNode n md)).1) = addNode (ofSpec02 (C02.abs s)) n (md.map decMeta) ∧
    addEdge (ofSpec02 (C02.abs s)) ⟨e.src.toList, e.tgt.toList⟩ w (md.map decMeta) =
      match C02.applyOp s (.addEdge e w md) with
      | (s', .ok) => some (ofSpec02 (C02.abs s'))
      | (_, .rej) => none := by
  obtain ⟨cs, slot, hcs, hs⟩ := hr
  have h0 : C02.StateInv [] := fun _ _ h => by simp [AL.get?] at h
  have o0 : C02.StateOrd [] := fun _ _ h => by simp [AL.get?] at h
  have u0 : C02.StateUnw [] := fun _ _ h => by simp [AL.get?] at h
  obtain ⟨hi, ho, _⟩ := C02.runCmds_all [] cs hcs h0 o0 u0
  exact ⟨link_store_addNode02 s (hi slot s hs) (ho slot s hs) n md,
    link_store_addEdge02 s (hi slot s hs) (ho slot s hs) e he w md⟩

theorem C06_link_roundtrip_D (s : C02.Store) (hr : ReachableD s) :
    (loadAny (saveAny (.D (ofSpec02 (C02.abs s))))).map AnyContent.erased = some (.D (ofSpec02 (C02.abs s)).erased) :=
  C06_json_roundtrip_D _ (C06_link_wf_D s hr)

theorem C06_link_load_D (rs : List Record) : load (κ := DKey) rs = (specD.replay rs).map ofSpec02 :=
  specD.load_eq_replay rs (specD.okRecs_of_all (fun _ => trivial) _)

theorem C06_link_reload_D (s : C02.Store) (hr : ReachableD s) :
    ∃ a1 : C02.Spec, specD.replay (save (ofSpec02 (C02.abs s))) = some a1 ∧
      (ofSpec02 a1).erased = (ofSpec02 (C02.abs s)).erased ∧ WF (ofSpec02 a1) :=
  specD.reload _ (C06_link_wf_D s hr) (fun _ _ => trivial)

theorem C06_link_loaded_add_edge_D (s : C02.Store) (hr : ReachableD s) (a1 a2 : C02.Spec)
    (h1 : specD.replay (save (ofSpec02 (C02.abs s))) = some a1) (e : C02.RawEdge) (w : Option Int) (md : Option C02.Meta)
    (h2 : C02.Spec.applyOp a1 (.addEdge e w md) = (a2, .ok)) :
    (load (save (ofSpec02 a2))).map Content.erased = some (ofSpec02 a2).erased :=
  C06_json_loaded_add_edge (ofSpec02 (C02.abs s)) (ofSpec02 a1) (ofSpec02 a2) (C06_link_wf_D s hr)
    (by rw [C06_link_load_D, h1]; rfl) ⟨e.src.toList, e.tgt.toList⟩ w (md.map decMeta)
    (by rw [C06_link_add_edge_D, h2])

/-- `load_hypergraph` as a run of the id-indexed model (`storeD`: `C02.ctor`, `C02.applyOp`; states = stores with `C02.Inv`
and `C02.Ord`), for record lists whose hyperedges have duplicate-free, disjoint, non-empty sides (`C02.RawWF`) -/
theorem C06_link_store_load_D (rs : List Record) (h : storeD.okRecs (edgeRecs rs)) :
    load (κ := DKey) rs = (storeD.replay rs).map (fun s => ofSpec02 (C02.abs s.1)) :=
  storeD.load_eq_replay rs h

theorem C06_link_store_reload_D (s : C02.Store) (hr : ReachableD s) :
    ∃ s1 : StoreD, storeD.replay (save (ofSpec02 (C02.abs s))) = some s1 ∧
      (ofSpec02 (C02.abs s1.1)).erased = (ofSpec02 (C02.abs s)).erased := by
  have hw := C06_link_wf_D s hr
  obtain ⟨cs, slot, hcs, hs⟩ := hr
  have hi := C02.runCmds_inv [] cs hcs (fun _ _ h => by simp [AL.get?] at h) slot s hs
  obtain ⟨a, h1, h2, _⟩ := storeD.reload _ hw (okKeys02 s hi)
  exact ⟨a, h1, h2⟩

/-- non-vacuity: constructor with a hyperedge and node metadata, a permuted re-insertion (6 + 2), a bare-node source,
an insertion that is removed again (its node 4 stays) -/
def C06.exHistD : List C02.Cmd :=
  [.new 0 true none (some [(7, [(4, 12)])]) (some [.ofLists [2, 1] [3]]) (some [6]) none,
   .op 0 (.addEdge (.ofLists [1, 2] [3]) (some 2) (some [(5, 8)])),
   .op 0 (.addEdge ⟨.scalar 3, .nodes [2, 1]⟩ none none),
   .op 0 (.addEdge (.ofLists [4] [1]) none none), .op 0 (.removeEdge (.ofLists [4] [1]))]

example : ∃ s, ReachableD s ∧
    (ofSpec02 (C02.abs s)).nodes = [(7, [(.user 1, .tok 3)]), (1, []), (2, []), (3, []), (4, [])] ∧
    (ofSpec02 (C02.abs s)).edges = [(⟨[1, 2], [3]⟩, (8, [(.user 2, .tok 2)])), (⟨[3], [1, 2]⟩, (4, []))] :=
  ⟨(AL.get? (C02.runCmds [] exHistD) 0).getD {}, ⟨exHistD, 0, C02.cmds_WF_of_ok _ (by decide), by decide⟩,
    by decide, by decide⟩
example : (AL.get? (C02.runCmds [] exHistD) 0).bind (fun s => (specD.replay (save (ofSpec02 (C02.abs s)))).map
      (fun (a : C02.Spec) => a.edges.map (fun e => (e.1, e.2.1)))) = some [(([1, 2], [3]), 8), (([3], [1, 2]), 4)] := by
  decide

example : (AL.get? (C02.runCmds [] exHistD) 0).bind (fun s => (storeD.replay (save (ofSpec02 (C02.abs s)))).map
      (fun (s1 : StoreD) => (s1.1.nextId, s1.1.adjS, s1.1.adjT))) =
    some (2, [(7, []), (1, [0]), (2, [0]), (3, [1]), (4, [])], [(7, []), (1, [1]), (2, [1]), (3, [0]), (4, [])]) := by
  decide

/-! ### TemporalHypergraph (C03) -/

theorem C06_link_ops_T (w : Bool) (hm md : TMeta) (a : C03.Spec) (n : Nat) (k : TKey) (wt : Option Int) :
    specT.of a = ofSpec03 a ∧
    specT.new w hm = (C03.Spec.applyOp (C03.Spec.new w) (.setHMeta hm)).1 ∧
    specT.addNode a n md = (C03.Spec.applyOp a (.addNode n (some md))).1 ∧
    specT.addEdge a k wt md = (match C03.Spec.applyOp a (.addEdge k.nodes (.int k.time) wt (some md)) with
      | (a', .ok) => some a'
      | (_, .rej) => none) :=
  ⟨rfl, rfl, rfl, rfl⟩

theorem C06_link_add_node_T (a : C03.Spec) (n : Nat) (md : Option C03.Meta) :
    ofSpec03 (C03.Spec.applyOp a (.addNode n md)).1 = addNode (ofSpec03 a) n (md.map decMeta) :=
  link_addNode03 a n md

/-- for a time `t ≥ 0` (a C06 key carries a natural number; `C03.Spec.addEdge` rejects every other time argument, and
`load` fails on a record without a readable time: `readKey`) -/
theorem C06_link_add_edge_T (a : C03.Spec) (raw : List Nat) (t : Nat) (w : Option Int) (md : Option C03.Meta) :
    addEdge (ofSpec03 a) ⟨t, raw⟩ w (md.map decMeta) =
      match C03.Spec.applyOp a (.addEdge raw (.int t) w md) with
      | (a', .ok) => some (ofSpec03 a')
      | (_, .rej) => none :=
  link_addEdge03 a raw t w md

theorem C06_link_wf_T (s : C03.Store) (hr : ReachableT s) : WF (ofSpec03 (C03.abs s)) := by
  obtain ⟨ops, i, hwf, hi⟩ := hr
  exact WF_ofSpec03_reachable s ⟨ops, hwf, i, hi⟩

theorem C06_link_store_T (s : C03.Store) (hr : ReachableT s) (n : Nat) (raw : List Nat) (hraw : raw.Nodup) (t : Nat)
    (w : Option Int) (md : Option C03.Meta) :
    ofSpec03 (C03.abs (C03.applyOp s (.addNode n md)).1) = addNode (ofSpec03 (C03.abs s)) n (md.map decMeta) ∧
    addEdge (ofSpec03 (C03.abs s)) ⟨t, raw⟩ w (md.map decMeta) =
      match C03.applyOp s (.addEdge raw (.int t) w md) with
      | (s', .ok) => some (ofSpec03 (C03.abs s'))
      | (_, .rej) => none := by
  obtain ⟨ops, i, hwf, hi⟩ := hr
  have h := C03.reachable_inv ⟨ops, hwf, i, hi⟩
  exact ⟨link_store_addNode03 s h n md, link_store_addEdge03 s h raw hraw t w md⟩

theorem C06_link_roundtrip_T (s : C03.Store) (hr : ReachableT s) :
    (loadAny (saveAny (.T (ofSpec03 (C03.abs s))))).map AnyContent.erased = some (.T (ofSpec03 (C03.abs s)).erased) :=
  C06_json_roundtrip_T _ (C06_link_wf_T s hr)

theorem C06_link_load_T (rs : List Record) : load (κ := TKey) rs = (specT.replay rs).map ofSpec03 :=
  specT.load_eq_replay rs (specT.okRecs_of_all (fun _ => trivial) _)

theorem C06_link_reload_T (s : C03.Store) (hr : ReachableT s) :
    ∃ a1 : C03.Spec, specT.replay (save (ofSpec03 (C03.abs s))) = some a1 ∧
      (ofSpec03 a1).erased = (ofSpec03 (C03.abs s)).erased ∧ WF (ofSpec03 a1) :=
  specT.reload _ (C06_link_wf_T s hr) (fun _ _ => trivial)

theorem C06_link_loaded_add_edge_T (s : C03.Store) (hr : ReachableT s) (a1 a2 : C03.Spec)
    (h1 : specT.replay (save (ofSpec03 (C03.abs s))) = some a1) (raw : List Nat) (t : Nat) (w : Option Int)
    (md : Option C03.Meta) (h2 : C03.Spec.applyOp a1 (.addEdge raw (.int t) w md) = (a2, .ok)) :
    (load (save (ofSpec03 a2))).map Content.erased = some (ofSpec03 a2).erased :=
  C06_json_loaded_add_edge (ofSpec03 (C03.abs s)) (ofSpec03 a1) (ofSpec03 a2) (C06_link_wf_T s hr)
    (by rw [C06_link_load_T, h1]; rfl) ⟨t, raw⟩ w (md.map decMeta) (by rw [C06_link_add_edge_T, h2])

/-- `load_hypergraph` as a run of the id-indexed model (`storeT`: `C03.Store.new`, `C03.applyOp`; states = stores with
`C03.Inv`), for record lists whose hyperedge records are node sets -/
theorem C06_link_store_load_T (rs : List Record) (h : storeT.okRecs (edgeRecs rs)) :
    load (κ := TKey) rs = (storeT.replay rs).map (fun s => ofSpec03 (C03.abs s.1)) :=
  storeT.load_eq_replay rs h

theorem C06_link_store_reload_T (s : C03.Store) (hr : ReachableT s) :
    ∃ s1 : StoreT, storeT.replay (save (ofSpec03 (C03.abs s))) = some s1 ∧
      (ofSpec03 (C03.abs s1.1)).erased = (ofSpec03 (C03.abs s)).erased := by
  have hw := C06_link_wf_T s hr
  obtain ⟨ops, i, hwf, hi⟩ := hr
  obtain ⟨a, h1, h2, _⟩ := storeT.reload _ hw (okKeys03 s (C03.reachable_inv ⟨ops, hwf, i, hi⟩))
  exact ⟨a, h1, h2⟩

/-- non-vacuity: the same node set at two times, a re-insertion (6 + 2), a node added between two hyperedges, a record
removed again (its node 3 stays) -/
def C06.exHistT : List C03.Op :=
  [.new 0 true, .on 0 (.addEdge [2, 1] (.int 5) (some 6) (some [(5, 8)])), .on 0 (.addEdge [1, 2] (.int 0) none none),
   .on 0 (.addNode 7 (some [(4, 12)])), .on 0 (.addEdge [1, 2] (.int 5) (some 2) none),
   .on 0 (.addEdge [3] (.int 2) none none), .on 0 (.removeEdge [3] (.int 2))]

example : ∃ s, ReachableT s ∧
    (ofSpec03 (C03.abs s)).nodes = [(1, []), (2, []), (7, [(.user 1, .tok 3)]), (3, [])] ∧
    (ofSpec03 (C03.abs s)).edges = [(⟨5, [1, 2]⟩, (8, [])), (⟨0, [1, 2]⟩, (4, []))] :=
  ⟨(AL.get? (C03.run [] exHistT) 0).getD { weighted := false }, ⟨exHistT, 0, by decide, by decide⟩, by decide, by decide⟩
/-- replayed on `C03.Spec`: the metadata carries `weight` (token 0) and `time` (token 1; 21 = `tm 5`, 1 = `tm 0`) -/
example : (AL.get? (C03.run [] exHistT) 0).bind (fun s => (specT.replay (save (ofSpec03 (C03.abs s)))).map
      (fun (a : C03.Spec) => a.recs.map (fun e => e.2.2))) = some [[(0, 67), (1, 21)], [(0, 35), (1, 1)]] := by decide
/-- a time that is not a non-negative integer is rejected by the spec; no C06 key has such a time -/
example : (C03.Spec.applyOp (C03.Spec.new true) (.addEdge [1, 2] (.int (-1)) none none)).2 = .rej ∧
    (C03.Spec.applyOp (C03.Spec.new true) (.addEdge [1, 2] .bad none none)).2 = .rej := by decide

example : (AL.get? (C03.run [] exHistT) 0).bind (fun s => (storeT.replay (save (ofSpec03 (C03.abs s)))).map
      (fun (s1 : StoreT) => s1.1.edgeList)) = some [((5, [1, 2]), 0), ((0, [1, 2]), 1)] ∧
    (AL.get? (C03.run [] exHistT) 0).bind (fun s => (storeT.replay (save (ofSpec03 (C03.abs s)))).map
      (fun (s1 : StoreT) => s1.1.adj)) = some [(1, [0, 1]), (2, [0, 1]), (7, []), (3, [])] := by decide

/-! ### MultiplexHypergraph (C04) -/

theorem C06_link_ops_M (w : Bool) (hm md : TMeta) (a : C04.Spec) (n : Nat) (k : MKey) (wt : Option Int) :
    specM.of a = ofSpec04 a ∧
    specM.new w hm = (C04.Spec.step (C04.Spec.init w []) (.setHMeta hm)).1 ∧
    specM.addNode a n md = (C04.Spec.step a (.addNode n (some md))).1 ∧
    specM.addEdge a k wt md = (match C04.Spec.step a (.addEdge k.nodes k.layer wt (some md)) with
      | (a', .ok) => some a'
      | (_, .rej) => none) :=
  ⟨rfl, rfl, rfl, rfl⟩

theorem C06_link_add_node_M (a : C04.Spec) (n : Nat) (md : Option C04.Meta) :
    ofSpec04 (C04.Spec.step a (.addNode n md)).1 = addNode (ofSpec04 a) n (md.map decMeta) :=
  link_addNode04 a n md

theorem C06_link_add_edge_M (a : C04.Spec) (raw : List Nat) (l : Nat) (w : Option Int) (md : Option C04.Meta) :
    addEdge (ofSpec04 a) ⟨raw, l⟩ w (md.map decMeta) =
      match C04.Spec.step a (.addEdge raw l w md) with
      | (a', .ok) => some (ofSpec04 a')
      | (_, .rej) => none :=
  link_addEdge04 a raw l w md

theorem C06_link_wf_M (s : C04.Store) (hr : ReachableM s) : WF (ofSpec04 (C04.abs s)) := by
  obtain ⟨w, hm, ops, hw, rfl⟩ := hr
  exact WF_ofSpec04_run w hm ops hw

theorem C06_link_store_M (s : C04.Store) (hr : ReachableM s) (n : Nat) (raw : List Nat) (hraw : raw.Nodup) (l : Nat)
    (w : Option Int) (md : Option C04.Meta) :
    ofSpec04 (C04.abs (C04.step s (.addNode n md)).1) = addNode (ofSpec04 (C04.abs s)) n (md.map decMeta) ∧
    addEdge (ofSpec04 (C04.abs s)) ⟨raw, l⟩ w (md.map decMeta) =
      match C04.step s (.addEdge raw l w md) with
      | (s', .ok) => some (ofSpec04 (C04.abs s'))
      | (_, .rej) => none := by
  obtain ⟨w0, hm, ops, hw, rfl⟩ := hr
  have h := C04.run_inv _ ops (C04.inv_init w0 hm) hw
  exact ⟨link_store_addNode04 _ h n md, link_store_addEdge04 _ h raw hraw l w md⟩

theorem C06_link_roundtrip_M (s : C04.Store) (hr : ReachableM s) :
    (loadAny (saveAny (.M (ofSpec04 (C04.abs s))))).map AnyContent.erased = some (.M (ofSpec04 (C04.abs s)).erased) :=
  C06_json_roundtrip_M _ (C06_link_wf_M s hr)

theorem C06_link_load_M (rs : List Record) : load (κ := MKey) rs = (specM.replay rs).map ofSpec04 :=
  specM.load_eq_replay rs (specM.okRecs_of_all (fun _ => trivial) _)

theorem C06_link_reload_M (s : C04.Store) (hr : ReachableM s) :
    ∃ a1 : C04.Spec, specM.replay (save (ofSpec04 (C04.abs s))) = some a1 ∧
      (ofSpec04 a1).erased = (ofSpec04 (C04.abs s)).erased ∧ WF (ofSpec04 a1) :=
  specM.reload _ (C06_link_wf_M s hr) (fun _ _ => trivial)

theorem C06_link_loaded_add_edge_M (s : C04.Store) (hr : ReachableM s) (a1 a2 : C04.Spec)
    (h1 : specM.replay (save (ofSpec04 (C04.abs s))) = some a1) (raw : List Nat) (l : Nat) (w : Option Int)
    (md : Option C04.Meta) (h2 : C04.Spec.step a1 (.addEdge raw l w md) = (a2, .ok)) :
    (load (save (ofSpec04 a2))).map Content.erased = some (ofSpec04 a2).erased :=
  C06_json_loaded_add_edge (ofSpec04 (C04.abs s)) (ofSpec04 a1) (ofSpec04 a2) (C06_link_wf_M s hr)
    (by rw [C06_link_load_M, h1]; rfl) ⟨raw, l⟩ w (md.map decMeta) (by rw [C06_link_add_edge_M, h2])

/-- `load_hypergraph` as a run of the id-indexed model (`storeM`: `C04.init`, `C04.step`; states = stores with `C04.Inv`),
for record lists whose hyperedge records are node sets -/
theorem C06_link_store_load_M (rs : List Record) (h : storeM.okRecs (edgeRecs rs)) :
    load (κ := MKey) rs = (storeM.replay rs).map (fun s => ofSpec04 (C04.abs s.1)) :=
  storeM.load_eq_replay rs h

theorem C06_link_store_reload_M (s : C04.Store) (hr : ReachableM s) :
    ∃ s1 : StoreM, storeM.replay (save (ofSpec04 (C04.abs s))) = some s1 ∧
      (ofSpec04 (C04.abs s1.1)).erased = (ofSpec04 (C04.abs s)).erased := by
  have hw := C06_link_wf_M s hr
  obtain ⟨w, hm, ops, hops, rfl⟩ := hr
  obtain ⟨a, h1, h2, _⟩ := storeM.reload _ hw (okKeys04 _ (C04.run_inv _ ops (C04.inv_init w hm) hops))
  exact ⟨a, h1, h2⟩

/-- non-vacuity: the same node set in two layers, a re-insertion that replaces the metadata, a node added between two
hyperedges, a record in a third layer that is removed again -/
def C06.exOpsM : List C04.Op :=
  [.addEdge [2, 1] 0 none (some [(5, 8)]), .addEdge [1, 2] 1 none none, .addNode 5 (some [(4, 12)]),
   .addEdge [1, 2] 0 none none, .addEdge [3] 2 none none, .removeEdge [3] 2]

theorem C06.exOpsM_wf : ∀ op ∈ exOpsM, op.WF := by
  intro c hc
  simp only [exOpsM, List.mem_cons, List.not_mem_nil, or_false] at hc
  rcases hc with h | h | h | h | h | h <;> subst h <;> simp [C04.Op.WF]

example : ReachableM (C04.run (C04.init false []) exOpsM) ∧
    (ofSpec04 (C04.abs (C04.run (C04.init false []) exOpsM))).nodes = [(1, []), (2, []), (5, [(.user 1, .tok 3)]), (3, [])] ∧
    (ofSpec04 (C04.abs (C04.run (C04.init false []) exOpsM))).edges = [(⟨[1, 2], 0⟩, (4, [])), (⟨[1, 2], 1⟩, (4, []))] :=
  ⟨⟨false, [], exOpsM, exOpsM_wf, rfl⟩, by decide, by decide⟩
/-- replayed on `C04.Spec`: the metadata carries `layer` (token 2; 2 = `lay 0`, 6 = `lay 1`); the layer REGISTRY of the
replayed state lists the layers that hold a record, the saved object's registry also had layer 2 (`_existing_layers` is
not part of a JSON file - as on the real code; the binary path keeps it, `C06_hgx_roundtrip`) -/
example : (specM.replay (save (ofSpec04 (C04.abs (C04.run (C04.init false []) exOpsM))))).map
      (fun (a : C04.Spec) => (a.edges.map (fun e => e.2.2), a.layers)) = some ([[(2, 2)], [(2, 6)]], [0, 1]) ∧
    (C04.run (C04.init false []) exOpsM).layers = [0, 1, 2] := by decide
example : (storeM.replay (save (ofSpec04 (C04.abs (C04.run (C04.init false []) exOpsM))))).map
      (fun (s1 : StoreM) => s1.1.edgeList) = some [(([1, 2], 0), 0), (([1, 2], 1), 1)] ∧
    (storeM.replay (save (ofSpec04 (C04.abs (C04.run (C04.init false []) exOpsM))))).map
      (fun (s1 : StoreM) => s1.1.adj) = some [(1, [0, 1]), (2, [0, 1]), (5, []), (3, [])] := by decide

/-! ## the text file itself: framing of the record stream (strengthening round 2, size as a dimension)

`save_hypergraph(.json)` writes the array by hand (`[`, then per record an optional `,` and the record, then `]`) and
`json.load` parses it again.  `Piece`, `writeText` (the loop with its `first` flag), `readText` (the array grammar) are in
`Model/C06Text.lean`.  No statement below mentions a number of records: they hold for files of every size. -/

/-- the file is `[`, the records with exactly one separator between two neighbours, `]` - for every record list -/
theorem C06_text_framing {α : Type} (rs : List α) :
    writeText rs = .opn :: ((rs.map Piece.item).intersperse .sep ++ [.cls]) :=
  writeText_framed rs

/-- number of pieces in the file: 2 brackets, one piece per record, one separator per pair of neighbours -/
theorem C06_text_pieces {α : Type} (rs : List α) :
    (writeText rs).length = 2 + rs.length + (rs.length - 1) :=
  writeText_length rs

/-- the array grammar reads back exactly the written record list, whatever its length -/
theorem C06_text_read_write {α : Type} (rs : List α) : readText (writeText rs) = some rs :=
  readText_writeText rs

/-- through the file text: `load_hypergraph(save_hypergraph(c))` is the record-level `load (save c)` (all four types) -/
theorem C06_text_load_save {κ : Type} [DecidableEq κ] [Kind κ] (c : Content κ) :
    loadText (κ := κ) (saveText c) = load (save c) := by
  simp [loadText, saveText, readText_writeText]

theorem C06_text_load_save_any (a : AnyContent) : loadTextAny (saveTextAny a) = loadAny (saveAny a) := by
  simp [loadTextAny, saveTextAny, readText_writeText]

/-- the round trip of `C06_json_roundtrip`, stated on the file text -/
theorem C06_text_roundtrip {κ : Type} [DecidableEq κ] [Kind κ] [LawfulKind κ] (c : Content κ) (h : WF c) :
    (loadText (κ := κ) (saveText c)).map Content.erased = some c.erased := by
  rw [C06_text_load_save]; exact C06_json_roundtrip c h

/-- seeded change C06-c2 (records buffered, `",\n".join(chunk)` per flush, nothing between two flushes), chunk size 2:
up to 2 records the file is the same, with 3 records a record directly follows a record and the array grammar rejects
the file; the code's writer reads back -/
theorem C06_text_buffered_witness :
    writeBuffered 2 [10, 11] = writeText [10, 11] ∧
    writeBuffered 2 [10, 11, 12] = [.opn, .item 10, .sep, .item 11, .item 12, .cls] ∧
    readText (writeBuffered 2 [10, 11, 12]) = none ∧
    readText (writeText [10, 11, 12]) = some [10, 11, 12] := by decide

/-- non-vacuity: the pieces of `exT`'s file (header, 3 node records, 2 hyperedge records: 6 records, 5 separators) and
its round trip through the text -/
example : (saveText exT).length = 13 ∧ (saveText exT).head? = some .opn ∧ (saveText exT).getLast? = some .cls := by decide
example : (loadText (κ := TKey) (saveText exT)).map Content.erased = some exT.erased := C06_text_roundtrip exT (by decide)
example : readText ([.opn, .cls] : List (Piece Nat)) = some [] ∧ readText ([.opn, .item 1, .sep, .cls] : List (Piece Nat)) = none ∧
    readText ([.opn, .item 1, .cls, .cls] : List (Piece Nat)) = none ∧ readText ([.item 1] : List (Piece Nat)) = none := by decide

/-! ## STRING CONTENT: the string-literal layer of the text format (strengthening round e)

Node labels, layer names, metadata keys and string values reach the text file as JSON string literals written by
`json.dump` with its default `ensure_ascii=True` and come back through `json.load` (`Hgxv/Model/C06Str.lean`,
on lists of code points; the harness compares `Str.encode` with the bytes of the real files, label by label). -/

/-- every Python `str` (code points below 0x110000, LONE SURROGATES INCLUDED) in which no high surrogate is immediately
    followed by a low one is read back exactly.  Hypotheses: `Valid` is what a `str` is; `NoPair` is the assumption of
    the check (ASSUMPTIONS: such a `str` has no JSON text of its own, see `C06_str_pair_witness`). -/
theorem C06_str_roundtrip (s : List Nat) (hv : C06.Str.Valid s) (hp : C06.Str.NoPair s) :
    C06.Str.decode (C06.Str.encode s) = some s :=
  C06.Str.decode_encode s hv hp

/-- non-vacuity: `caf\udce9` (os.fsdecode of an undecodable name), NUL, U+2028, an astral character, a low surrogate
    BEFORE a high one, `"` and `\` -/
example : C06.Str.Valid [99, 97, 102, 56553, 0, 8232, 128512, 56320, 55296, 34, 92] ∧
    C06.Str.NoPair [99, 97, 102, 56553, 0, 8232, 128512, 56320, 55296, 34, 92] := by
  refine ⟨by unfold C06.Str.Valid; decide, ?_⟩
  simp [C06.Str.NoPair, C06.Str.isHigh, C06.Str.isLow]

/-- the text written is printable ASCII only, for every list of code points: whatever the locale encoding of the process
    (any ASCII-compatible one) the text file can be written and read, and no raw line separator, control character,
    NUL or surrogate ever reaches the file -/
theorem C06_str_ascii (s : List Nat) : ∀ u ∈ C06.Str.encode s, 32 ≤ u ∧ u ≤ 126 :=
  C06.Str.encode_printable s

example : C06.Str.encode [233, 55296, 10] =
    [34, 92, 117, 48, 48, 101, 57, 92, 117, 100, 56, 48, 48, 92, 110, 34] := by decide

/-- why `NoPair` is assumed (defect of the FORMAT, not of the code): the two-code-point string U+D83D U+DE00 is written
    as `"\ud83d\ude00"`, which is also the text of the one-code-point string U+1F600 - and is read as that -/
theorem C06_str_pair_witness : C06.Str.decode (C06.Str.encode [55357, 56832]) = some [128512] := by
  show C06.Str.decBody (C06.Str.esc4 55357 ++ (C06.Str.esc4 56832 ++ [34])) = some [128512]
  rw [C06.Str.decBody_pair _ _ (by decide) (by decide), C06.Str.decBody]
  simp

/-- the `ensure_ascii=False` variant (seeded change C06-e3): every code point from 127 on - in particular a lone
    surrogate, which has no UTF-8 form - is handed to the file's encoder as it is: the text is no longer ASCII, the
    round trip depends on the locale encoding and fails for surrogates under every UTF encoding -/
theorem C06_str_raw_witness (c : Nat) (h : 127 ≤ c) : c ∈ C06.Str.encodeRaw [c] ∧ ¬ (32 ≤ c ∧ c ≤ 126) := by
  have hs : C06.Str.short? c = none := by
    unfold C06.Str.short?
    repeat' split
    all_goals first | omega | rfl
  have h32 : ¬ c < 32 := by omega
  refine ⟨?_, by omega⟩
  simp [C06.Str.encodeRaw, C06.Str.encCharRaw, hs, h32]

example : C06.Str.encodeRaw [55296] = [34, 55296, 34] := by decide

/-! ## Extension round: the character level of the `.json` file (`Model/C06Json.lean`)

Numbers, whole JSON values as `json.dump(..., separators=(",", ":"))` writes them, the file as `[` LF, one record per
line (`,` LF between two), LF `]`, and the file read back line by line.  Floats are a parameter (`repr`, contract:
printable ASCII text); the reader of ONE record's text is a parameter `dec` whose contract `dec (enc r) = some r` is
demanded only for the records the saved object has. -/
open C06.Json

/-- integers of every size: `int(str(i)) = i` through the JSON number grammar `-?(0|[1-9][0-9]*)` -/
theorem C06_num_roundtrip (i : Int) : C06.Num.decInt (C06.Num.encInt i) = some i :=
  C06.Num.decInt_encInt i

/-- distinct integers have distinct texts (no two values share a number token) -/
theorem C06_num_injective (i j : Int) (h : C06.Num.encInt i = C06.Num.encInt j) : i = j := by
  have hi := C06.Num.decInt_encInt i
  rw [h, C06.Num.decInt_encInt j] at hi
  exact (Option.some.inj hi).symm

/-- the text of an integer is `-` and decimal digits only -/
theorem C06_num_chars (i : Int) : ∀ u ∈ C06.Num.encInt i, u = 45 ∨ (48 ≤ u ∧ u ≤ 57) :=
  C06.Num.encInt_chars i

example : C06.Num.encInt (-18446744073709551616) =
    [45, 49, 56, 52, 52, 54, 55, 52, 52, 48, 55, 51, 55, 48, 57, 53, 53, 49, 54, 49, 54] := by
  show C06.Num.encInt (Int.negSucc 18446744073709551615) = _
  simp [C06.Num.encInt, C06.Num.natDigits]
example : C06.Num.decInt [45, 48] = some 0 ∧ C06.Num.encInt 0 = [48] := by
  refine ⟨by decide, ?_⟩
  show C06.Num.natDigits 0 = _
  simp [C06.Num.natDigits]

/-- the reader is strict (JSON grammar): ``, `-`, `+1`, `01`, `-01`, `1a`, `--1` are no integers -/
theorem C06_num_strict_witness :
    C06.Num.decInt [] = none ∧ C06.Num.decInt [45] = none ∧ C06.Num.decInt [43, 49] = none ∧
    C06.Num.decInt [48, 49] = none ∧ C06.Num.decInt [45, 48, 49] = none ∧ C06.Num.decInt [49, 97] = none ∧
    C06.Num.decInt [45, 45, 49] = none := by decide

/-- every character `json.dump` writes for a record - any JSON value: nested arrays / objects, strings with arbitrary
    code points as keys and values, integers of any size, floats whose `repr` is printable - is printable ASCII -/
theorem C06_json_record_ascii {F : Type} (repr : F → List Nat) (hr : ∀ f, ∀ u ∈ repr f, 32 ≤ u ∧ u ≤ 126)
    (j : J F) : ∀ u ∈ J.emit repr j, 32 ≤ u ∧ u ≤ 126 :=
  emit_pr repr hr j

/-- hence the writer never emits a raw newline (nor CR, NUL, a `splitlines` separator) inside a record -/
theorem C06_json_record_no_newline {F : Type} (repr : F → List Nat) (hr : ∀ f, ∀ u ∈ repr f, 32 ≤ u ∧ u ≤ 126)
    (j : J F) : 10 ∉ J.emit repr j ∧ 13 ∉ J.emit repr j ∧ 0 ∉ J.emit repr j := by
  refine ⟨fun h => ?_, fun h => ?_, fun h => ?_⟩ <;> have := emit_pr repr hr j _ h <;> unfold Pr at this <;> omega

/-- `{"type":"node","idx":"a\n","metadata":{"k":[null,true,-12]}}` -/
example : J.emit (Empty.elim : Empty → List Nat)
    (.obj (.cons [116] (.str [97, 10]) (.cons [107] (.arr (.cons .null (.cons (.bool true) (.cons (.int (-12)) .nil)))) .nil))) =
    [123, 34, 116, 34, 58, 34, 97, 92, 110, 34, 44, 34, 107, 34, 58, 91, 110, 117, 108, 108, 44, 116, 114, 117, 101,
     44, 45, 49, 50, 93, 125] := by
  have h : C06.Num.encInt (-12) = [45, 49, 50] := by
    show C06.Num.encInt (Int.negSucc 11) = _
    simp [C06.Num.encInt, C06.Num.natDigits]
  simp only [J.emit, JL.emitTail, JO.emitTail, h]
  decide

/-- the characters of the file `write_item` produces (the pieces of `writeText` rendered) for a non-empty record list -/
theorem C06_json_file_chars {α : Type} (enc : α → List Nat) (r : α) (rs : List α) :
    render enc (writeText (r :: rs)) = fileText enc (r :: rs) :=
  render_writeText enc r rs

/-- the line structure: when no record's text holds a LF, the file's lines are `[`, then ONE record per line (each but
    the last followed by `,`), then `]` - no record is split, whatever the number of records -/
theorem C06_json_file_lines {α : Type} (enc : α → List Nat) (r : α) (rs : List α)
    (hn : ∀ x ∈ r :: rs, 10 ∉ enc x) :
    splitLF (render enc (writeText (r :: rs))) = [91] :: recLines enc r rs := by
  rw [render_writeText]; exact splitLF_fileText enc r rs hn

/-- number of lines of the file: one per record, `[` and `]` (a file of n ≥ 1 records has n + 2 lines, n + 1 LF) -/
theorem C06_json_file_line_count {α : Type} (enc : α → List Nat) (r : α) (rs : List α)
    (hn : ∀ x ∈ r :: rs, 10 ∉ enc x) :
    (splitLF (render enc (writeText (r :: rs)))).length = (r :: rs).length + 2 := by
  rw [C06_json_file_lines enc r rs hn]
  have : ∀ (r : α) (rs : List α), (recLines enc r rs).length = rs.length + 2 := by
    intro r rs
    induction rs generalizing r with
    | nil => rfl
    | cons r' rs ih => simp [recLines, ih r']
  simp [this r rs]

/-- reading the file line by line gives back the written record list -/
theorem C06_json_file_read_write {α : Type} (enc : α → List Nat) (dec : List Nat → Option α) (r : α) (rs : List α)
    (h0 : enc r ≠ []) (hn : ∀ x ∈ r :: rs, 10 ∉ enc x) (hd : ∀ x ∈ r :: rs, dec (enc x) = some x) :
    readFile dec (render enc (writeText (r :: rs))) = some (r :: rs) := by
  rw [render_writeText]; exact readFile_fileText enc dec r rs h0 hn hd

/-- no record: the file is `[` LF LF `]` and is read as the empty array -/
theorem C06_json_file_empty {α : Type} (enc : α → List Nat) (dec : List Nat → Option α) :
    render enc (writeText ([] : List α)) = [91, 10, 10, 93] ∧ readFile dec (render enc (writeText ([] : List α))) = some [] := by
  rw [render_writeText_nil]; exact ⟨rfl, readFile_fileText_nil enc dec⟩

/-- why the first record's text must not be empty: a lone record with the empty text IS the empty array's file -/
example : readFile some (render id (writeText [([] : List Nat)])) = some [] := by decide

example : readFile some (render id (writeText [[123, 125], [49], [91, 93]])) = some [[123, 125], [49], [91, 93]] ∧
    render id (writeText [[123, 125], [49]]) = [91, 10, 123, 125, 44, 10, 49, 10, 93] := by decide

/-- why the record text must hold no LF: a record `1` LF `2` would be read as two lines and the file rejected -/
theorem C06_json_file_split_witness :
    readFile some (render id (writeText [[49, 10, 50]])) = none ∧
    splitLF (render id (writeText [[49, 10, 50]])) = [[91], [49], [50], [93]] := by decide

/-- END TO END on characters, one class: records written as JSON values (`toJ`, floats through a printable `repr`),
    read by a record reader that inverts the writer ON THE RECORDS OF THIS OBJECT: loading the saved characters is the
    record-level `load (save c)`.  No hypothesis about newlines: `C06_json_record_no_newline` discharges it. -/
theorem C06_json_file_load_save {κ : Type} [DecidableEq κ] [Kind κ] {F : Type} (repr : F → List Nat)
    (hr : ∀ f, ∀ u ∈ repr f, 32 ≤ u ∧ u ≤ 126) (hr0 : ∀ f, repr f ≠ []) (toJ : Record → J F) (dec : List Nat → Option Record)
    (c : Content κ) (hd : ∀ x ∈ save c, dec (J.emit repr (toJ x)) = some x) :
    loadFile (κ := κ) dec (saveFile (fun x => J.emit repr (toJ x)) c) = load (save c) := by
  unfold loadFile saveFile saveText
  have hs : save c = .header (Kind.ty κ) c.weighted c.hmeta ::
      (c.nodes.map saveNode ++ c.edges.map (saveEdge c.weighted)) := rfl
  rw [hs] at hd ⊢
  rw [C06_json_file_read_write _ dec _ _ (emit_ne_nil repr hr0 _)
    (fun x _ => (C06_json_record_no_newline repr hr (toJ x)).1) hd]
  rfl

/-- the property's sentence on the characters of the `.json` file: same content modulo the reserved keys -/
theorem C06_json_file_roundtrip {κ : Type} [DecidableEq κ] [Kind κ] [LawfulKind κ] {F : Type} (repr : F → List Nat)
    (hr : ∀ f, ∀ u ∈ repr f, 32 ≤ u ∧ u ≤ 126) (hr0 : ∀ f, repr f ≠ []) (toJ : Record → J F) (dec : List Nat → Option Record)
    (c : Content κ) (h : WF c) (hd : ∀ x ∈ save c, dec (J.emit repr (toJ x)) = some x) :
    (loadFile (κ := κ) dec (saveFile (fun x => J.emit repr (toJ x)) c)).map Content.erased = some c.erased := by
  rw [C06_json_file_load_save repr hr hr0 toJ dec c hd]; exact C06_json_roundtrip c h

/-- the same through the type dispatch (all four classes): same type, same content -/
theorem C06_json_file_roundtrip_any {F : Type} (repr : F → List Nat)
    (hr : ∀ f, ∀ u ∈ repr f, 32 ≤ u ∧ u ≤ 126) (hr0 : ∀ f, repr f ≠ []) (toJ : Record → J F) (dec : List Nat → Option Record)
    (a : AnyContent) (hd : ∀ x ∈ saveAny a, dec (J.emit repr (toJ x)) = some x) :
    loadFileAny dec (saveFileAny (fun x => J.emit repr (toJ x)) a) = loadAny (saveAny a) := by
  unfold loadFileAny saveFileAny saveTextAny
  have hs : ∃ r rs, saveAny a = r :: rs := by cases a <;> exact ⟨_, _, rfl⟩
  obtain ⟨r, rs, hs⟩ := hs
  rw [hs] at hd ⊢
  rw [C06_json_file_read_write _ dec _ _ (emit_ne_nil repr hr0 _)
    (fun x _ => (C06_json_record_no_newline repr hr (toJ x)).1) hd]
  rfl

/-- non-vacuity of the reader contract: the records of `exT` written as a JSON string of as many `a` as their position,
    read back by length + lookup (a codec that is right on the records of this object and on nothing else) -/
example : ∃ (toJ : Record → J Empty) (dec : List Nat → Option Record),
    (∀ x ∈ save exT, dec (J.emit (Empty.elim : Empty → List Nat) (toJ x)) = some x) ∧
    (loadFile (κ := TKey) dec (saveFile (fun x => J.emit (Empty.elim : Empty → List Nat) (toJ x)) exT)).map Content.erased
      = some exT.erased := by
  let toJ : Record → J Empty := fun x => J.str (List.replicate ((save exT).idxOf x) 97)
  let dec : List Nat → Option Record := fun l => (save exT)[l.length - 2]?
  have hd : ∀ x ∈ save exT, dec (J.emit (Empty.elim : Empty → List Nat) (toJ x)) = some x := by decide
  exact ⟨toJ, dec, hd, C06_json_file_roundtrip Empty.elim (fun f => f.elim) (fun f => f.elim) toJ dec exT (by decide) hd⟩

/-! ## Extension round: the `.hgr` reader from the characters of the file (`Model/C06HgrText.lean`)

`strip`, `split(" ")`, `int` of `load_hypergraph(.hgr)` on character codes; a valid data line = decimal numbers separated by
one blank (`dataLine`), a valid file = such lines each ended by LF (`unlines`). -/
open C06.HgrText

/-- a data line is read as exactly the numbers written on it (any number of tokens, numbers of any size) -/
theorem C06_hgr_lex_line (t : Nat) (ts : List Nat) : lexLine (dataLine (t :: ts)) = some (.toks (t :: ts)) :=
  lexLine_dataLine t ts

/-- blank lines, white-space lines and `%` comments are skipped; surrounding white space (CR of a CRLF file, TAB, NBSP) and
    repeated blanks do not matter; a TAB between two numbers is no separator (`int("1\t2")` raises) -/
theorem C06_hgr_lex_witness :
    lexLine [] = some .skip ∧ lexLine [32, 9, 13] = some .skip ∧ lexLine [32, 37, 32, 49, 32, 50] = some .skip ∧
    lexLine [160, 9, 49, 50, 32, 32, 48, 55, 32, 13] = some (.toks [12, 7]) ∧ lexLine [49, 9, 50] = none := by decide

/-- a whole valid file: from its characters the reader sees exactly the rows written -/
theorem C06_hgr_text (rows : List (List Nat)) (h : ∀ r ∈ rows, r ≠ []) :
    parseHgrText (unlines (rows.map dataLine)) = parseHgr (rows.map Line.toks) :=
  parseHgrText_rows rows h

/-- `C06_hgr` from the characters of the file: the hypergraph built from the text `unlines (rows.map dataLine)` has exactly
    the listed node sets with the listed weights -/
theorem C06_hgr_text_content (rows : List (List Nat)) (h : ∀ r ∈ rows, r ≠ []) (s : HgrSt)
    (hs : hgrScan {} (rows.map Line.toks) = some s) (hd : hgrWeighted s.mode = true → (s.es.map sort).Nodup) :
    ∃ c, parseHgrText (unlines (rows.map dataLine)) = some c ∧ WF c ∧ c.weighted = hgrWeighted s.mode ∧
      (∀ k, k ∈ AL.keys c.edges ↔ ∃ e ∈ s.es, k = ⟨sort e⟩) ∧
      (∀ n, n ∈ AL.keys c.nodes ↔ ∃ e ∈ s.es, n ∈ e) ∧
      (hgrWeighted s.mode = true →
        ∀ p ∈ s.es.zip s.ws, AL.get? c.edges ⟨sort p.1⟩ = some (unit * (p.2 : Int), [])) ∧
      (hgrWeighted s.mode = false → ∀ e ∈ c.edges, e.2 = (unit, [])) := by
  rw [C06_hgr_text rows h]
  exact C06_hgr (rows.map Line.toks) s hs hd

/-- `2 3` LF `% x` LF LF `1 2` LF -/
example : lexText [50, 32, 51, 10, 37, 32, 120, 10, 10, 49, 32, 50, 10] =
    some [.toks [2, 3], .skip, .skip, .toks [1, 2], .skip] := by decide
