import Hgxv.Model.C02
import Hgxv.Proofs.C02Total
import Hgxv.Proofs.C02Found
import Hgxv.Proofs.C02X
import Hgxv.Proofs.C02XSub
import Hgxv.Proofs.C02Y
/-! # C02 - property theorems (DirectedHypergraph faithfully stores (source set, target set) hyperedges)

Model: `Hgxv/Model/C02.lean` (concrete `Store` mirroring `core/directed_hypergraph.py` after the `fix:` commits
D5-D11, abstract `Spec`); helper lemmas: `Hgxv/Proofs/C02*.lean`. -/
open C02 AL

/-- **The order in which the nodes of a source or target set are listed is irrelevant.**
Two listings of the same source set and the same target set (`List.Perm`) have the same canonical key, hence every
entry point that takes a hyperedge - insertion, removal, weight and metadata updates, membership, weight and
metadata queries - returns the same store / the same answer.  A bare node `n` (accepted by `add_edge`) is the
singleton `(n,)`.  No hypothesis on the store: holds for every reachable and unreachable state. -/
theorem C02_listing_order_irrelevant (s : Store) (S S' T T' : List Node) (hS : S.Perm S') (hT : T.Perm T') :
    canonAdd (.ofLists S T) = canonAdd (.ofLists S' T') ∧
    (∀ w md, addEdge s (.ofLists S T) w md = addEdge s (.ofLists S' T') w md) ∧
    removeEdge s (.ofLists S T) = removeEdge s (.ofLists S' T') ∧
    (∀ w, setWeight s (.ofLists S T) w = setWeight s (.ofLists S' T') w) ∧
    (∀ md, setEdgeMeta s (.ofLists S T) md = setEdgeMeta s (.ofLists S' T') md) ∧
    (∀ a v, setAttrEdge s (.ofLists S T) a v = setAttrEdge s (.ofLists S' T') a v) ∧
    (∀ a, delAttrEdge s (.ofLists S T) a = delAttrEdge s (.ofLists S' T') a) ∧
    checkEdge s (.ofLists S T) = checkEdge s (.ofLists S' T') ∧
    getWeight s (.ofLists S T) = getWeight s (.ofLists S' T') ∧
    edgeMeta s (.ofLists S T) = edgeMeta s (.ofLists S' T') ∧
    (∀ n : Node, canonAdd ⟨.scalar n, .nodes T⟩ = canonAdd ⟨.nodes [n], .nodes T'⟩) := by
  have h1 : canonAdd (.ofLists S T) = canonAdd (.ofLists S' T') := by
    simp [canonAdd, RawEdge.ofLists, Side.toList, sortNodes_eq_of_perm hS, sortNodes_eq_of_perm hT]
  have h2 : canonStrict (.ofLists S T) = canonStrict (.ofLists S' T') := by
    simp [canonStrict, RawEdge.ofLists, Side.strict, sortNodes_eq_of_perm hS, sortNodes_eq_of_perm hT]
  refine ⟨h1, ?_, ?_, ?_, ?_, ?_, ?_, ?_, ?_, ?_, ?_⟩
  · intro w md; simp [addEdge, h1]
  · simp [removeEdge, h2]
  · intro w; simp [setWeight, h2]
  · intro md; simp [setEdgeMeta, h2]
  · intro a v; simp [setAttrEdge, h2]
  · intro a; simp [delAttrEdge, h2]
  · simp [checkEdge, h2]
  · simp [getWeight, h2]
  · simp [edgeMeta, h2]
  · intro n; simp [canonAdd, Side.toList, sortNodes_eq_of_perm hT]

/-- non-vacuity: `((3,1),(2,))` and `((1,3),(2,))` are the same hyperedge; the second insertion adds to its weight -/
example :
    let s0 : Store := { weighted := true }
    let s1 := (addEdge s0 (.ofLists [3, 1] [2]) (some 6) none).1
    let s2 := (addEdge s1 (.ofLists [1, 3] [2]) (some 2) none).1
    edges s2 .all false = some [([1, 3], [2])] ∧ getWeight s2 (.ofLists [3, 1] [2]) = some 8 := by decide

/-! ## Every history

`Reachable s`: `s` is one of the objects of a state reached from nothing by ANY finite sequence of constructor calls,
`copy`s and public mutating calls (`Cmd`), each satisfying the property's quantifier (`Cmd.WF`: hyperedges handed to
the constructor / `add_edge` / `add_edges` have duplicate-free, disjoint, non-empty sides; nothing is assumed about
the arguments of any other call, nor about acceptance). -/

def C02.Reachable (s : Store) : Prop :=
  ∃ (cs : List Cmd) (slot : Nat), (∀ c ∈ cs, c.WF) ∧ get? (runCmds [] cs) slot = some s

/-- **An inserted hyperedge is found under every listing** (strengthening round c: seeded change C02-c2 made `add_edge`
file a hyperedge under another key than the one the other entry points compute).  `add_edge` canonicalises with
`canonAdd` (a bare node stands for a one-element side), every other entry point with `canonStrict`.  For EVERY store
and every accepted `add_edge(e, w, md)`: whatever listing `(S', T')` of the same source set and the same target set is
used afterwards (any order; the collection TYPE is not a notion of the model: the harness hands the same node set
over as tuple, list, set, frozenset, range, generator, dict keys, array), the canonical key is the one `add_edge`
used, `check_edge` answers True, `get_edge_metadata` returns the metadata just given (`{}` if none), `remove_edge`,
`set_edge_metadata` and an admissible `set_weight` are accepted, and (store satisfying the invariant, well-formed
hyperedge: the quantifier) `get_weight` answers. -/
theorem C02_inserted_is_found (s : Store) (e : RawEdge) (w : Option Int) (md : Option Meta)
    (hok : (addEdge s e w md).2 = .ok) (S' T' : List Node) (hS : S'.Perm e.src.toList) (hT : T'.Perm e.tgt.toList) :
    canonStrict (.ofLists S' T') = some (canonAdd e) ∧
    checkEdge (addEdge s e w md).1 (.ofLists S' T') = some true ∧
    edgeMeta (addEdge s e w md).1 (.ofLists S' T') = some (md.getD []) ∧
    (removeEdge (addEdge s e w md).1 (.ofLists S' T')).2 = .ok ∧
    (∀ md', (setEdgeMeta (addEdge s e w md).1 (.ofLists S' T') md').2 = .ok) ∧
    (∀ w', ((addEdge s e w md).1.weighted = true ∨ w' = one) →
      (setWeight (addEdge s e w md).1 (.ofLists S' T') w').2 = .ok) ∧
    (Inv s → RawWF e → (getWeight (addEdge s e w md).1 (.ofLists S' T')).isSome = true) := by
  have hc := canonStrict_of_perm e S' T' hS hT
  unfold addEdge at hok ⊢
  obtain ⟨id, hid, hmd⟩ := addEdgeKey_found s (canonAdd e) w md hok
  refine ⟨hc, ?_, ?_, ?_, ?_, ?_, ?_⟩
  · simp [checkEdge, hc, has, hid]
  · simp [edgeMeta, hc, metaOfKey, hid, hmd]
  · simp [removeEdge, hc, removeEdgeKey, hid]
  · intro md'; simp [setEdgeMeta, hc, hid]
  · intro w' hw
    unfold setWeight
    rcases hw with hw | hw
    · simp [hw, hc, hid]
    · simp [hw, hc, hid]
  · intro h he
    have hi := addEdgeKey_inv s (canonAdd e) w md (keyWF_canonAdd e he) h
    have := hi.weights_of_edge _ id hid
    simp [getWeight, hc, weightOfKey, hid, this]

/-- non-vacuity: `((3,1), 2)` (bare-node target) inserted with weight 2 and metadata; found as `((1,3),(2,))`, its reverse
    is absent, and it can be removed under the other listing -/
example : let s0 : Store := { weighted := true }
    let s1 := (addEdge s0 ⟨.nodes [3, 1], .scalar 2⟩ (some 8) (some [(2, 3)])).1
    checkEdge s1 (.ofLists [1, 3] [2]) = some true ∧ getWeight s1 (.ofLists [3, 1] [2]) = some 8 ∧
    edgeMeta s1 (.ofLists [1, 3] [2]) = some [(2, 3)] ∧ checkEdge s1 (.ofLists [2] [1, 3]) = some false ∧
    (removeEdge s1 (.ofLists [1, 3] [2])).2 = .ok := by decide

/-- **Invariant for every history.**  After every prefix of every history, every object satisfies `Inv`:
`_edge_list` and `_reverse_edge_list` are inverse bijections between canonical well-formed keys (sorted, duplicate-free,
disjoint, non-empty sides) and ids below `_next_edge_id`; `_weights`/`_edge_metadata` have exactly those ids;
`_adj_source[n]` (`_adj_target[n]`) is a duplicate-free list of exactly the ids of the hyperedges having `n` as a
source (target); every node of a hyperedge has its rows; the three node tables have the same key set; no table has a
duplicate key. -/
theorem C02_inv (s : Store) (hr : Reachable s) : Inv s := by
  obtain ⟨cs, slot, hcs, hs⟩ := hr
  exact runCmds_inv [] cs hcs (fun _ _ h => by simp [get?] at h) slot s hs

/-- the same for a single object and its mutating calls -/
theorem C02_inv_object (w : Bool) (ops : List Op) (hops : ∀ o ∈ ops, o.WF) : Inv (run { weighted := w } ops) :=
  run_inv _ ops hops (inv_init w [])

/-- non-vacuity: a 12-command history (constructor with hyperedges, re-insertion in permuted order, removal,
copy, remove_node with keep_edges, clear) satisfies the hypothesis, and its final objects are what one expects -/
def C02.exampleHistory : List Cmd :=
  [ .new 0 true none (some [(7, [(2, 3)])]) (some [.ofLists [2, 1] [3], ⟨.scalar 1, .nodes [3, 2]⟩]) (some [6, 4]) none,
    .op 0 (.addEdge (.ofLists [1, 2] [3]) (some 2) (some [(2, 5)])),
    .op 0 (.addEdge (.ofLists [3] [1, 2]) none none),
    .op 0 (.addNode 7 (some [(3, 4)])),
    .op 0 (.removeEdge (.ofLists [1] [2, 3])),
    .copy 0 1,
    .op 0 (.removeNode 2 true),
    .op 1 (.removeNode 3 false),
    .op 1 (.setWeight (.ofLists [9] [8]) 4),
    .op 0 (.addEdges [.ofLists [4] [5, 6], .ofLists [5] [4]] (some [4, 8]) none),
    .op 1 .clear,
    .op 0 (.removeNodes [4] true) ]

example : ∀ c ∈ exampleHistory, c.WF := cmds_WF_of_ok _ (by decide)
example : (get? (runCmds [] exampleHistory) 0).map (fun s => (nodes s, keys s.edgeList, s.weights.map (·.2))) =
    some ([7, 1, 3, 5, 6], [([1], [3]), ([3], [1])], [8, 4]) := by decide
example : Reachable ((get? (runCmds [] exampleHistory) 0).getD {}) :=
  ⟨exampleHistory, 0, cmds_WF_of_ok _ (by decide), by decide⟩

/-- **A hyperedge is listed exactly once per role it plays for a node.**  For every reachable object, every present
node `n` and every admissible order/size filter: `get_source_edges` / `get_target_edges` succeed and are, as multisets,
the stored (source, target) pairs having `n` among the sources / targets and passing the filter - each exactly once
(the lists are duplicate-free and the key list is), none else; `get_incident_edges` is their concatenation, and no
hyperedge is in both lists. -/
theorem C02_once_per_role (s : Store) (hr : Reachable s) (n : Node) (hn : checkNode s n = true)
    (f : Filt) (t : Option Nat) (hf : f.target = some t) :
    ∃ LS LT, sourceEdges s n f = some LS ∧ targetEdges s n f = some LT ∧ incident s n f = some (LS ++ LT) ∧
      LS.Perm ((keys s.edgeList).filter (fun k => k.1.contains n && passes t false k)) ∧
      LT.Perm ((keys s.edgeList).filter (fun k => k.2.contains n && passes t false k)) ∧
      LS.Nodup ∧ LT.Nodup ∧ (∀ k ∈ LS, k ∉ LT) ∧
      inDegree s n f = some LS.length ∧ outDegree s n f = some LT.length ∧ degree s n f = some (LS.length + LT.length) := by
  have h := C02_inv s hr
  have hS : (get? s.adjS n).isSome := hn
  have hT : (get? s.adjT n).isSome := by rw [h.adj_same]; exact hS
  obtain ⟨idsS, hS⟩ := Option.isSome_iff_exists.mp hS
  obtain ⟨idsT, hT⟩ := Option.isSome_iff_exists.mp hT
  have e1 := h.sourceEdges_eq n idsS hS f t hf
  have e2 := h.targetEdges_eq n idsT hT f t hf
  have p1 := h.sourceEdges_perm n idsS hS t
  have p2 := h.targetEdges_perm n idsT hT t
  refine ⟨_, _, e1, e2, ?_, p1, p2, ?_, ?_, ?_, ?_, ?_, ?_⟩
  · simp [incident, e1, e2]
  · exact (filterMap_rev_nodup s h idsS (h.adjS_nodup n idsS hS)).filter _
  · exact (filterMap_rev_nodup s h idsT (h.adjT_nodup n idsT hT)).filter _
  · intro k hk hk'
    obtain ⟨⟨id, hid⟩, h1⟩ := h.sourceEdges_mem n f _ e1 k hk
    obtain ⟨_, h2⟩ := h.targetEdges_mem n f _ e2 k hk'
    exact (h.key_wf id k hid).disj n h1 h2
  · simp [inDegree, e1]
  · simp [outDegree, e2]
  · simp [degree, incident, e1, e2]

/-- non-vacuity: node 3 of the example is a target of `((1,),(3,))` and a source of `((3,),(1,))` -/
example : let s := (get? (runCmds [] exampleHistory) 0).getD {}
    sourceEdges s 3 .all = some [([3], [1])] ∧ targetEdges s 3 (.size 2) = some [([1], [3])] ∧ degree s 3 (.order 1) = some 2 := by
  decide

/-- **Direction is never lost or swapped.**  In every reachable object: every stored pair has non-empty disjoint
sides, so it differs from its reverse; `get_sources`/`get_targets` are the first/second components of the stored
pairs; a hyperedge is listed for node `n` in the source role iff `n` is in its FIRST component and in the target role
iff `n` is in its SECOND; inserting `(S,T)` changes the presence of no other pair - in particular it does not make
`(T,S)` present - and the key of `(T,S)` is never the key of `(S,T)`. -/
theorem C02_direction (s : Store) (hr : Reachable s) :
    (∀ k ∈ keys s.edgeList, k.1 ≠ [] ∧ k.2 ≠ [] ∧ (∀ n, n ∈ k.1 → n ∉ k.2) ∧ (k.2, k.1) ≠ k) ∧
    sources s = (keys s.edgeList).map (·.1) ∧ targets s = (keys s.edgeList).map (·.2) ∧
    (∀ n L, sourceEdges s n .all = some L → ∀ k, k ∈ L ↔ k ∈ keys s.edgeList ∧ n ∈ k.1) ∧
    (∀ n L, targetEdges s n .all = some L → ∀ k, k ∈ L ↔ k ∈ keys s.edgeList ∧ n ∈ k.2) ∧
    (∀ e w md k', k' ≠ canonAdd e → has (addEdge s e w md).1.edgeList k' = has s.edgeList k') ∧
    (∀ e, RawWF e → canonAdd ⟨e.tgt, e.src⟩ ≠ canonAdd e) := by
  have h := C02_inv s hr
  refine ⟨?_, rfl, rfl, ?_, ?_, ?_, ?_⟩
  · intro k hk
    obtain ⟨id, hid⟩ := (h.mem_keys_iff k).mp hk
    have wf := h.key_wf id k hid
    refine ⟨wf.neS, wf.neT, wf.disj, ?_⟩
    intro hc
    have h1 : k.2 = k.1 := congrArg Prod.fst hc
    cases hk1 : k.1 with
    | nil => exact wf.neS hk1
    | cons a t =>
      have ha : a ∈ k.1 := by rw [hk1]; exact List.mem_cons_self
      exact wf.disj a ha (h1 ▸ ha)
  · intro n L hL k
    obtain ⟨ids, t, ha, ht⟩ := sourceEdges_some s n .all L hL
    have ht' : t = none := by simp [Filt.target] at ht; exact ht.symm
    subst ht'
    rw [h.sourceEdges_eq n ids ha .all none rfl] at hL
    injection hL with hL; subst hL
    rw [(h.sourceEdges_perm n ids ha none).mem_iff]
    simp [passes_none]
  · intro n L hL k
    obtain ⟨ids, t, ha, ht⟩ := targetEdges_some s n .all L hL
    have ht' : t = none := by simp [Filt.target] at ht; exact ht.symm
    subst ht'
    rw [h.targetEdges_eq n ids ha .all none rfl] at hL
    injection hL with hL; subst hL
    rw [(h.targetEdges_perm n ids ha none).mem_iff]
    simp [passes_none]
  · intro e w md k' hne
    exact addEdgeKey_has_other s _ w md k' hne
  · intro e he hc
    have wf := keyWF_canonAdd e he
    have h1 : sortNodes e.tgt.toList = sortNodes e.src.toList := congrArg Prod.fst hc
    cases hk1 : e.src.toList with
    | nil => exact he.neS hk1
    | cons a t =>
      have ha : a ∈ e.src.toList := by rw [hk1]; exact List.mem_cons_self
      have : a ∈ sortNodes e.tgt.toList := by rw [h1]; exact mem_sortNodes.mpr ha
      exact he.disj a ha (mem_sortNodes.mp this)

/-- non-vacuity: `((1,),(3,))` and its reverse are both present in the example and are different hyperedges;
    before the reverse was inserted it was absent although `((1,2),(3,))`... were present -/
example : let s := (get? (runCmds [] exampleHistory) 0).getD {}
    checkEdge s (.ofLists [1] [3]) = some true ∧ checkEdge s (.ofLists [3] [1]) = some true ∧
    checkEdge (addEdge {} (.ofLists [1] [3]) none none).1 (.ofLists [3] [1]) = some false := by decide

/-- **Node metadata survives hyperedge insertions.**  For EVERY store (reachable or not), every node that is present
stays present and keeps exactly its metadata through `add_edge` and `add_edges`, whatever hyperedge, weight or
metadata is given and whether or not the call is accepted.  (Before fix D5 this failed for every endpoint.) -/
theorem C02_node_meta_survives_addEdge (s : Store) (m : Node) (hm : checkNode s m = true) :
    (∀ e w md, checkNode (addEdge s e w md).1 m = true ∧ nodeMeta (addEdge s e w md).1 m = nodeMeta s m) ∧
    (∀ es ws mds, checkNode (addEdges s es ws mds).1 m = true ∧ nodeMeta (addEdges s es ws mds).1 m = nodeMeta s m) := by
  have hm' : (get? s.adjS m).isSome := hm
  constructor
  · intro e w md
    have := addEdgeKey_node s (canonAdd e) w md m hm'
    exact ⟨this.1, by simp only [nodeMeta, has, addEdge, this.1, this.2, hm', if_true]⟩
  · intro es ws mds
    have key : ∀ s0 : Store, s0.adjS = s.adjS → s0.nmeta = s.nmeta → ∀ ws' mds',
        checkNode (addEdgesLoop s0 es ws' mds').1 m = true ∧ nodeMeta (addEdgesLoop s0 es ws' mds').1 m = nodeMeta s m := by
      intro s0 h1 h2 ws' mds'
      have := addEdgesLoop_node s0 es ws' mds' m (by rw [h1]; exact hm')
      exact ⟨this.1, by simp only [nodeMeta, has, this.1, this.2, hm', h2, if_true]⟩
    unfold addEdges
    simp only []
    generalize hs0 : (if (ws.isSome && !s.weighted) = true then { s with weighted := true } else s) = s0
    have h1 : s0.adjS = s.adjS := by rw [← hs0]; split <;> rfl
    have h2 : s0.nmeta = s.nmeta := by rw [← hs0]; split <;> rfl
    split
    · split
      · exact ⟨by simp only [checkNode, h1]; exact hm, by simp only [nodeMeta, h1, h2]⟩
      · exact key s0 h1 h2 _ _
    · exact key s0 h1 h2 _ _

/-- non-vacuity: node 7 carries `{2: 3}` from the constructor of the example through all later insertions -/
example : nodeMeta ((get? (runCmds [] exampleHistory) 0).getD {}) 7 = some [(2, 3)] := by decide

/-- a metadata value that is not a dict (`0`, `''`, `[]`, `None`, `False`, ... written `[(nonDict, value)]`) is not `{}` -/
theorem C02_isVal_ne_empty (md : Meta) (h : isVal md = true) : md ≠ [] := by
  intro h'; subst h'; cases h

/-- **Node metadata survives `add_node` / `add_nodes` on a present node** (the implicit `add_node` of `add_edge` is the
case `md' = none`, covered for whole insertions by `C02_node_meta_survives_addEdge`).  For EVERY store: a present node
whose stored metadata is anything but the empty dict `{}` - a non-empty dict, or any value that is not a dict, in
particular the falsy ones `0`, `''`, `[]`, `None`, `False` (`C02_isVal_ne_empty`) - keeps exactly that value through
`add_node(n, md')` for every `n` (itself included) and every `md'`, and through `add_nodes`.  (The seeded change
`C02-e1` - `not md` for `md == {}` - breaks exactly this for the falsy non-dict values.) -/
theorem C02_node_meta_survives_addNode (s : Store) (m : Node) (md : Meta)
    (hm : nodeMeta s m = some md) (hne : md ≠ []) :
    (∀ n md', nodeMeta (addNode s n md') m = some md) ∧ (∀ ns, nodeMeta (addNodes s ns) m = some md) := by
  have one : ∀ (s : Store) (n : Node) (md' : Option Meta), nodeMeta s m = some md → nodeMeta (addNode s n md') m = some md := by
    intro s n md' hm
    have hp : (get? s.adjS m).isSome := by
      unfold nodeMeta at hm; unfold has at hm; split at hm
      · assumption
      · cases hm
    have hg : get? s.nmeta m = some md := by
      unfold nodeMeta at hm; unfold has at hm; rw [if_pos hp] at hm; exact hm
    have hp' := addNode_present s n md' m hp
    have hk : get? (addNode s n md').nmeta m = some md := by
      by_cases h : m = n
      · subst h
        unfold addNode; simp only []
        have he : get? (ensureNode s m).nmeta m = some md := by
          rw [ensureNode_nmeta]; cases hh : get? s.adjS m <;> simp_all
        split
        · rename_i h1; rw [he] at h1; injection h1 with h1; exact absurd h1 hne
        · exact he
      · rw [addNode_nmeta_other s n md' m h]; exact hg
    unfold nodeMeta; unfold has; rw [if_pos hp']; exact hk
  refine ⟨fun n md' => one s n md' hm, ?_⟩
  intro ns
  induction ns generalizing s with
  | nil => exact hm
  | cons n ns ih => exact ih (addNode s n none) (one s n none hm)

/-- non-vacuity: node 1 is given the metadata `0` (`[(nonDict, 8)]`); a repeated `add_node` with other metadata,
`add_nodes`, and two hyperedges touching it (one given the metadata `[]`, then shrunk by `remove_node(2, keep_edges)`)
leave it; item assignment on it is rejected -/
example :
    let s0 := (setNodeMeta (addNode {} 1 none) 1 [(nonDict, 8)]).1
    let s1 := addNodes (addNode s0 1 (some [(2, 3)])) [1, 3]
    let s2 := (addEdge (addEdge s1 (.ofLists [1, 2] [3]) none (some [(nonDict, 10)])).1 (.ofLists [3] [1]) none none).1
    let s3 := (removeNode s2 2 true).1
    nodeMeta s3 1 = some [(nonDict, 8)] ∧ isVal [(nonDict, 8)] = true ∧
    edgeMeta s3 (.ofLists [1] [3]) = some [(nonDict, 10)] ∧
    (setAttrNode s3 1 2 3).2 = .rej ∧ (setAttrEdge s3 (.ofLists [1] [3]) 2 3).2 = .rej ∧
    (setAttrNode s3 3 2 8).2 = .ok := by decide

/-- **A removed node is gone from every listing.**  In every reachable object, after an accepted
`remove_node(n, keep_edges)` (either mode): `n` is not a node, has no metadata entry and no adjacency row; no stored
(source, target) pair, no `get_edges` answer under any filter, no entry of `get_sources`/`get_targets`, no hyperedge
listed for any node in any role, no neighbour set mentions `n`; queries about `n` itself are rejected; and the result
satisfies the invariant again (so all the other theorems apply to it). -/
theorem C02_removed_node_gone (s : Store) (hr : Reachable s) (n : Node) (keep : Bool)
    (hok : (removeNode s n keep).2 = .ok) :
    let s' := (removeNode s n keep).1
    Inv s' ∧ get? s'.adjS n = none ∧ get? s'.adjT n = none ∧ get? s'.nmeta n = none ∧
    n ∉ nodes s' ∧ checkNode s' n = false ∧ nodeMeta s' n = none ∧
    (∀ k ∈ keys s'.edgeList, n ∉ k.1 ∧ n ∉ k.2) ∧
    (∀ f up L, edges s' f up = some L → ∀ k ∈ L, n ∉ k.1 ∧ n ∉ k.2) ∧
    (∀ S ∈ sources s', n ∉ S) ∧ (∀ T ∈ targets s', n ∉ T) ∧
    (∀ m f L, sourceEdges s' m f = some L → ∀ k ∈ L, n ∉ k.1 ∧ n ∉ k.2) ∧
    (∀ m f L, targetEdges s' m f = some L → ∀ k ∈ L, n ∉ k.1 ∧ n ∉ k.2) ∧
    (∀ m f L, incident s' m f = some L → ∀ k ∈ L, n ∉ k.1 ∧ n ∉ k.2) ∧
    (∀ m f L, neighbors s' m f = some L → n ∉ L) ∧
    (∀ f, sourceEdges s' n f = none ∧ targetEdges s' n f = none ∧ incident s' n f = none ∧ neighbors s' n f = none) := by
  intro s'
  obtain ⟨hinv, hg⟩ := removeNode_spec s n keep (C02_inv s hr)
  have g := hg hok
  exact ⟨hinv, g.adjS, g.adjT, g.nmeta, gone_queries hinv n g⟩

/-- **`remove_node` never raises half-way.**  In every reachable object, `remove_node(n, keep_edges)` on a present
node is accepted in both modes (so `C02_removed_node_gone` applies to every removal of a present node), and on an
absent node it is rejected and changes nothing.  Uses two further invariants of every history: ids increase along
`_edge_list` and along every adjacency list (`Ord`), and an unweighted hypergraph stores weight 1 everywhere (`Unw`,
needed because the re-insertion of a shrunk hyperedge passes the stored weight to `add_edge`). -/
theorem C02_removeNode_accepts (s : Store) (hr : Reachable s) (n : Node) (keep : Bool) :
    (checkNode s n = true → (removeNode s n keep).2 = .ok) ∧
    (checkNode s n = false → removeNode s n keep = (s, .rej)) := by
  obtain ⟨cs, slot, hcs, hs⟩ := hr
  obtain ⟨h, o, u⟩ := runCmds_all [] cs hcs (fun _ _ h => by simp [get?] at h) (fun _ _ h => by simp [get?] at h)
    (fun _ _ h => by simp [get?] at h)
  constructor
  · intro hn
    exact removeNode_accepts s n keep (h slot s hs) (o slot s hs) (u slot s hs) hn
  · intro hn
    have hn' : has s.adjS n = false := hn
    simp [removeNode, hn']

/-- non-vacuity: removing node 2 with keep_edges=True from `{((1,2),(3,)):8, ((3,),(1,2)):4}` is accepted and yields
`{((1,),(3,)):8, ((3,),(1,)):4}`; with a node whose removal empties a side the hyperedge is dropped -/
example :
    let s := (run { weighted := true } [.addEdge (.ofLists [1, 2] [3]) (some 8) none, .addEdge (.ofLists [3] [1, 2]) none none])
    (removeNode s 2 true).2 = .ok ∧ weightsDict (removeNode s 2 true).1 .all false = some [(([1], [3]), 8), (([3], [1]), 4)] ∧
    (removeNode s 3 true).2 = .ok ∧ edges (removeNode s 3 true).1 .all false = some [] := by decide

/-! ## Refinement: the concrete store answers as the abstract object of its history

`Spec` (in `Model/C02.lean`) is what the property names: a duplicate-free list of nodes with their metadata and an
association list from (source set, target set) pairs - as sorted tuples - to (weight, metadata), plus the two flags.
`Spec.step` is the obvious map update for every call; `abs` forgets ids, reverse table and adjacency. -/

/-- **Simulation, every history.**  For every finite sequence of constructor calls, copies and public mutating calls
satisfying the quantifier: the abstraction of the reached concrete state IS the state the same sequence produces on
abstract objects (so after every prefix, every object `s` in slot `i` has `abs s` as its abstract twin), every call
is accepted / rejected identically, and a copy is an independent object (it is a separate slot on both sides). -/
theorem C02_refines (cs : List Cmd) (hcs : ∀ c ∈ cs, c.WF) :
    absState (runCmds [] cs) = Spec.runCmds [] cs ∧ outsCmds [] cs = Spec.outsCmds [] cs ∧
    (∀ slot, get? (Spec.runCmds [] cs) slot = (get? (runCmds [] cs) slot).map abs) := by
  have h0 : StateInv [] := fun _ _ h => by simp [get?] at h
  have o0 : StateOrd [] := fun _ _ h => by simp [get?] at h
  obtain ⟨h1, h2, _⟩ := abs_runCmds [] cs hcs h0 o0
  refine ⟨h1, h2, ?_⟩
  intro slot
  have : absState [] = [] := rfl
  rw [this] at h1
  rw [← h1]
  exact get?_map_val _ abs slot

/-- one object and its mutating calls, from any weightedness -/
theorem C02_refines_object (w : Bool) (ops : List Op) (hops : ∀ o ∈ ops, o.WF) :
    abs (run { weighted := w } ops) = Spec.run { weighted := w } ops ∧
    runOuts { weighted := w } ops = Spec.runOuts { weighted := w } ops :=
  let r := abs_run { weighted := w } ops hops (inv_init w []) (ord_init w [])
  ⟨r.1, r.2.1⟩

/-- non-vacuity: the example history, computed on both sides -/
example : absState (runCmds [] exampleHistory) = Spec.runCmds [] exampleHistory := by decide
example : (get? (Spec.runCmds [] exampleHistory) 0).map (·.nodes) =
      some [(7, [(2, 3)]), (1, []), (3, []), (5, []), (6, [])] ∧
    (get? (Spec.runCmds [] exampleHistory) 0).map (·.edges) =
      some [(([1], [3]), ((8 : Int), [(2, 5)])), (([3], [1]), ((4 : Int), []))] := by
  decide

/-- **The abstract object is "a set of nodes plus a map".**  For every reachable object: the node list of `abs s` has
no duplicate, its hyperedge list has no duplicate key, every key is a canonical pair with non-empty, duplicate-free,
disjoint sides, and every endpoint of every key is a node. -/
theorem C02_abstract_wellformed (s : Store) (hr : Reachable s) :
    (keys (abs s).nodes).Nodup ∧ (keys (abs s).edges).Nodup ∧
    (∀ k ∈ keys (abs s).edges, KeyWF k ∧ ∀ n, (n ∈ k.1 ∨ n ∈ k.2) → n ∈ keys (abs s).nodes) := by
  have h := C02_inv s hr
  rw [abs_nodes_keys, abs_edges_keys]
  refine ⟨h.nd_adjS, h.nd_edge, ?_⟩
  intro k hk
  obtain ⟨id, hid⟩ := (h.mem_keys_iff k).mp hk
  exact ⟨h.key_wf id k hid, fun n hn => (isSome_get?_iff _ _).mp (h.nodes_in id k hid n hn)⟩

/-- **Every query equals the query on the abstract object.**  For every reachable object `s` (any history, any
prefix): nodes, nodes with metadata, membership, counts, hyperedges / hyperedges with metadata / weights under every
order-size filter with and without `up_to`, membership / weight / metadata of one hyperedge (in any listing order),
sources, targets, sizes (hence orders, size distribution, max size / order, uniformity, which are functions of the key
list), per-node metadata, source-role / target-role / incident listings (as multisets, rejected in the same cases),
degree, in-degree, out-degree, neighbours, isolation, the degree sequences and distribution, isolated nodes, and the
two all-metadata listings (as multisets) coincide with the answers computed from `abs s` by filter / map.
`Filt.both` (order and size together) is rejected on both sides wherever the implementation rejects it. -/
theorem C02_refines_queries (s : Store) (hr : Reachable s) :
    nodes s = (abs s).nodeList ∧ nodesMeta s = some (abs s).nodes ∧
    (∀ n, checkNode s n = has (abs s).nodes n ∧ nodeMeta s n = (abs s).nodeMeta n) ∧
    numNodes s = (abs s).nodes.length ∧ numEdges s = (abs s).edges.length ∧
    keys s.edgeList = (abs s).keyList ∧ sizes s = (abs s).sizes ∧
    sources s = (abs s).keyList.map (·.1) ∧ targets s = (abs s).keyList.map (·.2) ∧
    s.weighted = (abs s).weighted ∧ s.hmeta = (abs s).hmeta ∧
    (∀ f up, edges s f up = (abs s).edgesF f up ∧ edgesMeta s f up = (abs s).edgesMetaF f up ∧
      weightsDict s f up = (abs s).weightsDictF f up) ∧
    (∀ e, checkEdge s e = (abs s).checkEdge e ∧ getWeight s e = (abs s).getWeight e ∧ edgeMeta s e = (abs s).edgeMeta e) ∧
    (∀ n f, OptPerm (sourceEdges s n f) ((abs s).sourceEdges n f) ∧ OptPerm (targetEdges s n f) ((abs s).targetEdges n f) ∧
      OptPerm (incident s n f) ((abs s).incident n f) ∧
      degree s n f = (abs s).degree n f ∧ inDegree s n f = (abs s).inDegree n f ∧ outDegree s n f = (abs s).outDegree n f ∧
      neighbors s n f = (abs s).neighbors n f ∧ isIsolated s n f = (abs s).isIsolated n f) ∧
    (∀ f, degreeSeq s f = (abs s).degreeSeq f ∧ inDegreeSeq s f = (abs s).inDegreeSeq f ∧
      outDegreeSeq s f = (abs s).outDegreeSeq f ∧ degreeDist s f = (abs s).degreeDist f ∧
      isolatedNodes s f = (abs s).isolatedNodes f) ∧
    (allNodesMeta s).Perm ((abs s).nodes.map (·.2)) ∧ (allEdgesMeta s).Perm ((abs s).edges.map (·.2.2)) := by
  have h := C02_inv s hr
  have o : Ord s := by
    obtain ⟨cs, slot, hcs, hs⟩ := hr
    exact (abs_runCmds [] cs hcs (fun _ _ h => by simp [get?] at h) (fun _ _ h => by simp [get?] at h)).2.2 slot s hs
  have qn := q_numbers s
  refine ⟨q_nodes s, q_nodesMeta s h, fun n => ⟨q_checkNode s n, q_nodeMeta s h n⟩, qn.1, qn.2.1,
    (abs_edges_keys s).symm, qn.2.2.1, qn.2.2.2.1, qn.2.2.2.2, rfl, rfl,
    fun f up => ⟨q_edges s f up, q_edgesMeta s h f up, q_weightsDict s h f up⟩, q_edge s h, ?_, q_seqs s h,
    q_allNodesMeta s h, q_allEdgesMeta s h o⟩
  intro n f
  have d := q_degrees s h n f
  exact ⟨q_sourceEdges s h n f, q_targetEdges s h n f, q_incident s h n f, d.1, d.2.1, d.2.2,
    q_neighbors s h n f, q_isIsolated s h n f⟩

/-- non-vacuity: queries on the final object of the example and on its abstraction -/
example : let s := (get? (runCmds [] exampleHistory) 0).getD {}
    sourceEdges s 1 .all = some [([1], [3])] ∧ (abs s).sourceEdges 1 .all = some [([1], [3])] ∧
    neighbors s 3 (.size 2) = some [1] ∧ (abs s).neighbors 3 (.size 2) = some [1] ∧
    degreeSeq s .both = none ∧ (abs s).degreeSeq .both = none := by decide


/-! ## Extension round: `get_edges(..., subhypergraph=True)`, the raw tables, the dunder methods (`Model/C02X.lean`) -/

/-- **`get_edges(order, size, up_to, subhypergraph=True, keep_isolated_nodes)` commutes with the abstraction.**
The routine builds a new `DirectedHypergraph` by calling the public mutators (`add_nodes`, `add_edges` with the weights read
by `get_weight`, `set_node_metadata(get_node_metadata)` for every node of the NEW object, `set_edge_metadata(
get_edge_metadata)` for every selected hyperedge).  For every reachable object `s`, every filter, `up_to` and
`keep_isolated_nodes`: (1) the call is accepted on the tables exactly when the same routine is accepted on the abstract
object `abs s` (a set of nodes plus a map), and the abstraction of the returned object IS the object the routine builds
from `abs s`; (2) the returned object is itself reachable (a fresh object followed by public calls satisfying the
quantifier), so the invariant and EVERY theorem of this file - all queries, direction, once-per-role - hold for it;
(3) order and size given together, or `keep_isolated_nodes` without `subhypergraph`, are rejected whatever the other
options are. -/
theorem C02_subhypergraph_refines (s : Store) (hr : Reachable s) (f : Filt) (up keep : Bool) :
    (subHG s f up keep).map abs = (abs s).subHG f up keep ∧
    (∀ h, subHG s f up keep = some h → Reachable h ∧ Inv h) ∧
    (∀ sub md, f.target = none → getEdgesCall s f up sub keep md = none) ∧
    (∀ md, keep = true → getEdgesCall s f up false keep md = none) ∧
    (f.target ≠ none → getEdgesCall s f up true keep false = (subHG s f up keep).map EdgesAns.hg) := by
  have hi := C02_inv s hr
  obtain ⟨h1, h2⟩ := subHG_abs s hi f up keep
  refine ⟨h1, ?_, ?_, ?_, ?_⟩
  · intro h hh
    obtain ⟨ops, hw, he, hinv, _⟩ := h2 h hh
    obtain ⟨c1, c2⟩ := fresh_history s.weighted ops hw
    exact ⟨⟨_, 0, c1, by rw [c2, he]⟩, hinv⟩
  · intro sub md ht
    simp [getEdgesCall, ht]
  · intro md hk
    simp [getEdgesCall, hk]
  · intro ht
    cases hft : f.target with
    | none => exact absurd hft ht
    | some t => simp [getEdgesCall, hft]

/-- non-vacuity: the final object of the example history (weighted, two hyperedges, five nodes of which one isolated with
metadata); extraction with and without the isolated nodes, with a size filter, rejected with order and size together -/
def C02.exampleFinal : Store := (get? (runCmds [] exampleHistory) 0).getD {}
example : (subHG exampleFinal .all false true).map abs = (abs exampleFinal).sub .all false true := by decide
example : (subHG exampleFinal .all false true).map nodes = some [7, 1, 3, 5, 6] ∧
    (subHG exampleFinal .all false true).map (fun h => keys h.edgeList) = some [([1], [3]), ([3], [1])] ∧
    (subHG exampleFinal .all false true).map (fun h => h.weights) = some [(0, (8 : Int)), (1, 4)] ∧
    (subHG exampleFinal .all false true).bind (fun h => nodeMeta h 7) = some [(2, 3)] := by decide
example : (subHG exampleFinal (.size 2) true false).map (fun h => (nodes h, edgeMeta h (.ofLists [1] [3]))) =
    some ([1, 3], some [(2, 5)]) := by decide
example : (subHG exampleFinal (.size 3) false false).map nodes = some [] := by decide
example : (subHG exampleFinal .both false true).isNone = true ∧ (abs exampleFinal).subHG .both false true = none := by decide

/-- **The hypergraph returned by `get_edges(..., subhypergraph=True)` IS the selected part of the abstract object.**
For every reachable object `s`, every filter, `up_to` and `keep_isolated_nodes`: the call is accepted whenever order and
size are not given together, and the abstraction of the returned object is `Spec.sub (abs s)`: exactly the hyperedges of
`abs s` that pass the filter, each with ITS weight and ITS metadata, in their order; the nodes are all nodes of `abs s`
(`keep_isolated_nodes`) or the endpoints of the selected hyperedges in order of first appearance, each with ITS
metadata; the same weightedness; fresh hypergraph metadata (`weighted`, `type`).  Nothing else: no other hyperedge, no
other node, no stale id (the new object is reachable, `C02_subhypergraph_refines`).  In an unweighted hypergraph the
routine does not pass weights; the statement holds because every stored weight is 1 there (invariant `Unw`). -/
theorem C02_subhypergraph_is_selected_part (s : Store) (hr : Reachable s) (f : Filt) (up keep : Bool) :
    (subHG s f up keep).map abs = (abs s).sub f up keep ∧
    (f.target ≠ none → (subHG s f up keep).isSome = true) ∧
    (∀ h t, f.target = some t → subHG s f up keep = some h →
      h.weighted = s.weighted ∧ h.hmeta = ctorHMeta none s.weighted ∧
      keys h.edgeList = (keys s.edgeList).filter (passes t up) ∧
      (keep = true → nodes h = nodes s) ∧
      (∀ n, checkNode h n = true → checkNode s n = true)) := by
  obtain ⟨cs, slot, hcs, hs⟩ := hr
  obtain ⟨hi, ho, hu⟩ := runCmds_all [] cs hcs (fun _ _ h => by simp [get?] at h) (fun _ _ h => by simp [get?] at h)
    (fun _ _ h => by simp [get?] at h)
  have h := hi slot s hs
  have u := hu slot s hs
  have wf := specWF_abs s h u
  have e1 := (subHG_abs s h f up keep).1
  rw [Spec.subHG_eq_sub (abs s) wf f up keep] at e1
  refine ⟨e1, ?_, ?_⟩
  · intro ht
    cases hft : f.target with
    | none => exact absurd hft ht
    | some t =>
      cases hsub : subHG s f up keep with
      | some h' => rfl
      | none => rw [hsub] at e1; simp [Spec.sub, hft] at e1
  · intro h' t ht hsub
    rw [hsub] at e1
    simp only [Spec.sub, ht, Option.map_some] at e1
    injection e1 with e1
    have ew : (abs h').weighted = h'.weighted := rfl
    have eh : (abs h').hmeta = h'.hmeta := rfl
    have ek := abs_edges_keys h'
    have en := abs_nodes_keys h'
    have ew0 : (abs s).weighted = s.weighted := rfl
    rw [e1] at ew eh ek en
    simp only at ew eh ek en
    refine ⟨ew.symm, eh.symm, ?_, ?_, ?_⟩
    · rw [← ek, ← abs_edges_keys s]
      simp only [keys, List.filter_map]
      rfl
    · intro hk
      subst hk
      simp only [if_true] at en
      show keys h'.adjS = keys s.adjS
      rw [← en, abs_nodes_keys]
    · intro n hn
      have hn' : n ∈ keys h'.adjS := (isSome_get?_iff _ _).mp hn
      rw [← en] at hn'
      show (get? s.adjS n).isSome = true
      rw [isSome_get?_iff, ← abs_nodes_keys]
      cases keep with
      | true => simpa using hn'
      | false =>
        simp only [Bool.false_eq_true, if_false, keys, List.map_map] at hn'
        obtain ⟨m, hm, rfl⟩ := List.mem_map.mp hn'
        have := (mem_firstOcc _ m).mp hm
        obtain ⟨p, hp, hmp⟩ := List.mem_flatMap.mp this
        exact wf.ends p (List.mem_filter.mp hp).1 m (List.mem_append.mp hmp)

/-- non-vacuity: on the example the selected part, computed by filter / map from the abstract object, is what the
routine returns -/
example : (abs exampleFinal).sub (.size 2) false false =
    some { weighted := true, nodes := [(1, []), (3, [])],
           edges := [(([1], [3]), ((8 : Int), [(2, 5)])), (([3], [1]), ((4 : Int), []))], hmeta := [(0, 1), (1, 2)] } ∧
    (subHG exampleFinal (.size 2) false false).map abs = (abs exampleFinal).sub (.size 2) false false ∧
    ((abs exampleFinal).sub .all true true).map (·.nodes) = some [(7, [(2, 3)]), (1, []), (3, []), (5, []), (6, [])] := by
  decide

/-- **The raw tables.**  `expose_data_structures()`, `get_edge_list()`, `get_adj_dict()`, `len`, `iter`, `str`,
`is_weighted` hand out the tables themselves (the correspondence run compares them with the model's `Store` entry by entry, in
their order).  For every reachable object: `len` = number of keys of the abstract object, iteration lists the keys of the
abstract object in its order, each with its id; `get_edge_list` and the reverse table are inverse to each other; ids are
below `next_edge_id` and pairwise different (no id is ever handed out twice, also after removals); a row of
`get_adj_dict('source')` (`'target'`) is a duplicate-free list of exactly the ids of the hyperedges having the node as a
source (target); the weight and metadata tables have exactly the live ids; `str` prints the counts and the size
distribution of the abstract object. -/
theorem C02_raw_tables (s : Store) (hr : Reachable s) :
    len s = (abs s).edges.length ∧ (iterItems s).map (·.1) = (abs s).keyList ∧ iterItems s = getEdgeList s ∧
    getEdgeList s = (expose s).edgeList ∧ isWeighted s = (abs s).weighted ∧
    strParts s = ((abs s).nodes.length, (abs s).edges.length, histogram (abs s).sizes) ∧
    (∀ k id, get? (getEdgeList s) k = some id ↔ get? (expose s).reverse id = some k) ∧
    (∀ k id, get? (getEdgeList s) k = some id → id < (expose s).nextId) ∧
    (∀ k k' id, get? (getEdgeList s) k = some id → get? (getEdgeList s) k' = some id → k = k') ∧
    (∀ n ids, get? (getAdjDict s true) n = some ids →
      ids.Nodup ∧ ∀ id, id ∈ ids ↔ ∃ k, get? (getEdgeList s) k = some id ∧ n ∈ k.1) ∧
    (∀ n ids, get? (getAdjDict s false) n = some ids →
      ids.Nodup ∧ ∀ id, id ∈ ids ↔ ∃ k, get? (getEdgeList s) k = some id ∧ n ∈ k.2) ∧
    (∀ id, (get? (expose s).weights id).isSome = (get? (expose s).reverse id).isSome ∧
      (get? (expose s).edgeMeta id).isSome = (get? (expose s).reverse id).isSome) := by
  have h := C02_inv s hr
  have qn := q_numbers s
  refine ⟨qn.2.1, (abs_edges_keys s).symm, rfl, rfl, rfl, ?_, ?_, ?_, ?_, ?_, ?_, ?_⟩
  · show (numNodes s, numEdges s, distSizes s) = _
    rw [qn.1, qn.2.1]
    unfold distSizes
    rw [qn.2.2.1]
  · intro k id
    exact ⟨h.rev_of_edge k id, h.edge_of_rev k id⟩
  · intro k id hk
    exact h.id_lt id k (h.rev_of_edge k id hk)
  · intro k k' id hk hk'
    have a := h.rev_of_edge k id hk
    have b := h.rev_of_edge k' id hk'
    rw [a] at b
    injection b
  · intro n ids hn
    refine ⟨h.adjS_nodup n ids hn, fun id => ?_⟩
    rw [h.adjS_iff n ids hn id]
    constructor
    · rintro ⟨k, hk, hm⟩; exact ⟨k, h.edge_of_rev k id hk, hm⟩
    · rintro ⟨k, hk, hm⟩; exact ⟨k, h.rev_of_edge k id hk, hm⟩
  · intro n ids hn
    refine ⟨h.adjT_nodup n ids hn, fun id => ?_⟩
    rw [h.adjT_iff n ids hn id]
    constructor
    · rintro ⟨k, hk, hm⟩; exact ⟨k, h.edge_of_rev k id hk, hm⟩
    · rintro ⟨k, hk, hm⟩; exact ⟨k, h.rev_of_edge k id hk, hm⟩
  · intro id
    exact ⟨h.weights_same id, h.emeta_same id⟩

/-- non-vacuity: the raw tables of the final object of the example history (ids 3 and 4 live, ids 0-2, 5, 6 retired) -/
example : let s := exampleFinal
    getEdgeList s = [(([1], [3]), 3), (([3], [1]), 4)] ∧ (expose s).nextId = 7 ∧ len s = 2 ∧
    getAdjDict s true = [(7, []), (1, [3]), (3, [4]), (5, []), (6, [])] ∧
    strParts s = (5, 2, [(2, 2)]) := by decide

/-- **Incidence metadata: the whole object refines the abstract object with the same side table.**
`Full` = the ten tables + `_incidences_metadata`; `FOp` = every public mutator + `set_incidence_metadata`.  For every
sequence of such calls on a fresh object (hyperedges handed to `add_edge(s)` satisfy the quantifier; nothing is assumed
about the arguments of `set_incidence_metadata`): the abstraction of the reached object is what the same sequence
produces on (set of nodes + map, side table); every `get_incidence_metadata(edge, node)` answers alike (raises alike:
absent hyperedge, missing entry, bare-node side), and the invariant holds. -/
theorem C02_incidence_refines (w : Bool) (ops : List FOp) (hops : ∀ o ∈ ops, o.WF) :
    fabs (Full.run { base := { weighted := w } } ops) = FSpec.run { base := { weighted := w } } ops ∧
    Inv (Full.run { base := { weighted := w } } ops).base ∧
    (∀ e n, (Full.run { base := { weighted := w } } ops).getInc e n =
      (FSpec.run { base := { weighted := w } } ops).getInc e n) := by
  have r := fabs_run { base := { weighted := w } } ops hops (inv_init w []) (ord_init w [])
  refine ⟨r.1, r.2, fun e n => ?_⟩
  rw [getInc_fabs, r.1]
  rfl

/-- **What `set_incidence_metadata` does and what leaves the side table alone** (every `Full` object, no hypothesis).
(1) The call is accepted exactly when `check_edge` says the hyperedge is present (a bare-node side raises);
(2) after an accepted call `get_incidence_metadata` returns the value under EVERY listing with the same canonical key
(any order of the nodes of either side), whatever the node (it is not checked);
(3) the entry of every other (hyperedge, node) pair is untouched, and so are the ten tables;
(4) every public mutator except `clear()` leaves the side table as it is - also `remove_edge` / `remove_node`: an entry
of a removed hyperedge is not pruned and shows again when the hyperedge is re-inserted (modelled as the code behaves);
`clear()` empties it;  (5) a rejected call changes nothing. -/
theorem C02_incidence_frame (x : Full) (e : RawEdge) (n : Node) (md : Meta) :
    ((x.apply (.setInc e n md)).2 = .ok ↔ checkEdge x.base e = some true) ∧
    ((x.apply (.setInc e n md)).2 = .ok → ∀ e', canonStrict e' = canonStrict e →
      (x.apply (.setInc e n md)).1.getInc e' n = some md) ∧
    (∀ k' n', some k' ≠ canonStrict e ∨ n' ≠ n →
      get? (x.apply (.setInc e n md)).1.inc (k', n') = get? x.inc (k', n')) ∧
    (x.apply (.setInc e n md)).1.base = x.base ∧
    (∀ o, (x.apply (.base o)).1.inc = if isClear o then [] else x.inc) ∧
    ((x.apply (.setInc e n md)).2 = .rej → (x.apply (.setInc e n md)).1 = x) := by
  simp only [Full.apply, setIncG, Full.getInc, getIncG, checkEdge]
  cases hc : canonStrict e with
  | none => simp
  | some k =>
    cases hp : has x.base.edgeList k with
    | false =>
      simp only [hp, Option.map_some, Bool.false_eq_true, if_false]
      refine ⟨?_, ?_, ?_, ?_, ?_, ?_⟩ <;> first | trivial | rfl | simp
    | true =>
      simp only [hp, Option.map_some, if_true]
      refine ⟨?_, ?_, ?_, ?_, ?_, ?_⟩
      · first | trivial | simp
      · intro _ e' he'
        rw [he']
        simp [hp]
      · intro k' n' hne
        rw [get?_set]
        have : ¬ ((k, n) = (k', n')) := by
          intro heq
          injection heq with h1 h2
          rcases hne with h | h
          · exact h (by rw [h1])
          · exact h h2.symm
        simp [this]
      · first | trivial | rfl
      · first | trivial | (intro o; first | trivial | rfl)
      · first | trivial | simp

/-- non-vacuity: two entries (one for a node that is not in the hypergraph), permuted listing, the entry survives the
removal of its hyperedge and shows again after re-insertion, `clear()` empties the table -/
example :
    let ops : List FOp := [.base (.addEdge (.ofLists [2, 1] [3]) none none), .setInc (.ofLists [1, 2] [3]) 2 [(2, 3)],
      .setInc (.ofLists [2, 1] [3]) 7 [], .setInc (.ofLists [1] [3]) 1 [], .base (.removeEdge (.ofLists [1, 2] [3]))]
    (∀ o ∈ ops, o.WF) ∧
    (Full.run {} ops).allInc = [((([1, 2], [3]), 2), [(2, 3)]), ((([1, 2], [3]), 7), [])] ∧
    (Full.run {} ops).getInc (.ofLists [2, 1] [3]) 2 = none ∧
    (Full.run {} (ops ++ [.base (.addEdge (.ofLists [1, 2] [3]) none none)])).getInc (.ofLists [2, 1] [3]) 2 = some [(2, 3)] ∧
    (Full.run {} (ops ++ [.base .clear])).allInc = [] := by
  refine ⟨?_, by decide, by decide, by decide, by decide⟩
  intro o ho
  simp only [List.mem_cons, List.mem_nil_iff, or_false] at ho
  rcases ho with rfl | rfl | rfl | rfl | rfl
  · exact RawWF_of_ok _ (by decide)
  all_goals trivial

/-! ## Second extension round: the constructor as one call, raw setters / `populate_from_dict`, `get_mapping` -/

/-- **The constructor as ONE modelled call.**  For all constructor arguments whose hyperedges satisfy the property's
quantifier (`RawWF`: duplicate-free, disjoint, non-empty sides; nothing is assumed about flag, weights, any metadata):
(1) the constructor of the tables is accepted iff the constructor of the abstract object (set of nodes + map) is, and the
abstraction of what it builds - also of the half-built object of a refused call - is what the abstract constructor builds;
(2) it is accepted iff every one of the PUBLIC calls it stands for (`ctorCalls`: `add_node(n, metadata)` per entry of
`node_metadata`, then one `add_edges(edge_list, weights, edge_metadata)`) is accepted on the empty object carrying the
constructor's hypergraph metadata, and likewise on the abstract side; (3) an accepted call IS that run of public calls,
all of them well-formed; (4) the object is `Reachable`, and for every well-formed continuation the invariant holds and
the abstraction is the abstract run from the abstract constructor's object - every theorem of this file applies to
constructed objects and their futures. -/
theorem C02_constructor (w : Bool) (hm : Option Meta) (nm : Option (List (Node × Meta))) (es : Option (List RawEdge))
    (ws : Option (List Int)) (mds : Option (List Meta)) (hes : ∀ e ∈ es.getD [], RawWF e) :
    ((ctor w hm nm es ws mds).2 = (Spec.ctor w hm nm es ws mds).2 ∧
      abs (ctor w hm nm es ws mds).1 = (Spec.ctor w hm nm es ws mds).1) ∧
    ((ctor w hm nm es ws mds).2 = .ok ↔ (runOk (ctorInit w hm) (ctorCalls nm es ws mds)).isSome = true) ∧
    ((Spec.ctor w hm nm es ws mds).2 = .ok ↔
      (Spec.runOk (Spec.ctorInit w hm) (ctorCalls nm es ws mds)).isSome = true) ∧
    (∀ o ∈ ctorCalls nm es ws mds, o.WF) ∧
    ((ctor w hm nm es ws mds).2 = .ok →
      runOk (ctorInit w hm) (ctorCalls nm es ws mds) = some (ctor w hm nm es ws mds).1 ∧
      (ctor w hm nm es ws mds).1 = run (ctorInit w hm) (ctorCalls nm es ws mds) ∧
      Reachable (ctor w hm nm es ws mds).1 ∧
      ∀ ops : List Op, (∀ o ∈ ops, o.WF) →
        Inv (run (ctor w hm nm es ws mds).1 ops) ∧
        abs (run (ctor w hm nm es ws mds).1 ops) = Spec.run (Spec.ctor w hm nm es ws mds).1 ops) := by
  obtain ⟨a1, a2, a3⟩ := abs_ctor w hm nm es ws mds hes
  obtain ⟨c1, c2⟩ := ctor_as_calls w hm nm es ws mds
  have hwf := ctorCalls_WF nm es ws mds hes
  have hinv := ctor_inv w hm nm es ws mds hes
  have r := runOk_abs (ctorInit w hm) (ctorCalls nm es ws mds) hwf (inv_init _ _) (ord_init _ _)
  refine ⟨⟨a2, a1⟩, c1, ?_, hwf, ?_⟩
  · rw [← a2, c1]
    have : abs (ctorInit w hm) = Spec.ctorInit w hm := rfl
    rw [← this, ← r.1]
    cases runOk (ctorInit w hm) (ctorCalls nm es ws mds) <;> rfl
  · intro hok
    refine ⟨(c2 hok).1, (c2 hok).2, ?_, ?_⟩
    · refine ⟨[Cmd.new 0 w hm nm es ws mds], 0, ?_, ?_⟩
      · intro c hc
        simp only [List.mem_cons, List.mem_nil_iff, or_false] at hc
        subst hc; exact hes
      · cases hr : ctor w hm nm es ws mds with
        | mk s o =>
          rw [hr] at hok
          simp only at hok
          subst hok
          simp [runCmds, step, hr, AL.set, get?]
    · intro ops hops
      have q := abs_run (ctor w hm nm es ws mds).1 ops hops hinv a3
      exact ⟨q.2.2.1, by rw [q.1, a1]⟩

/-- non-vacuity: node metadata, hypergraph metadata with a free key, two hyperedges (permuted listing, a bare-node target),
weights on an UNWEIGHTED object (promotion inside the constructor), edge metadata: accepted, equal to the run of its
three public calls; continued by a removal -/
example :
    let c := ctor false (some [(5, 6)]) (some [(7, [(2, 3)])])
      (some [⟨.nodes [3, 1], .scalar 2⟩, ⟨.nodes [2], .nodes [4, 5]⟩]) (some [8, 12]) (some [[(1, 1)], []])
    let calls := ctorCalls (some [(7, [(2, 3)])])
      (some [⟨.nodes [3, 1], .scalar 2⟩, ⟨.nodes [2], .nodes [4, 5]⟩]) (some [8, 12]) (some [[(1, 1)], []])
    c.2 = .ok ∧ calls.length = 2 ∧ c.1 = run (ctorInit false (some [(5, 6)])) calls ∧ c.1.weighted = true ∧
    nodes c.1 = [7, 1, 3, 2, 4, 5] ∧ getWeight c.1 (.ofLists [1, 3] [2]) = some 8 ∧
    nodeMeta c.1 7 = some [(2, 3)] ∧ edges (run c.1 [.removeNode 2 false]) .all false = some [] := by decide

/-- **Rejected constructor calls, characterised by the arguments alone** (no hypothesis at all).  The constructor raises
iff an `edge_list` is given and either the number of `weights` differs from the number of hyperedges or a non-empty
`edge_metadata` list is shorter than `edge_list`.  In particular the constructor's own `ValueError` (weighted, weights
given, lengths differ) is subsumed: with `weighted=False` the same arguments are refused by `add_edges`; the flag, the
hypergraph / node metadata and the hyperedges themselves never cause a rejection, and without `edge_list` every other
argument is ignored. -/
theorem C02_constructor_rejects (w : Bool) (hm : Option Meta) (nm : Option (List (Node × Meta)))
    (es : Option (List RawEdge)) (ws : Option (List Int)) (mds : Option (List Meta)) :
    ((ctor w hm nm es ws mds).2 = .rej ↔ ctorRejArgs es ws mds = true) ∧
    (ctorOwnRej w es ws = true → ctorRejArgs es ws mds = true) ∧
    (es = none → (ctor w hm nm es ws mds).2 = .ok) := by
  have h := ctor_rej_iff w hm nm es ws mds
  refine ⟨h, ?_, ?_⟩
  · intro ho
    cases es with
    | none => simp [ctorOwnRej] at ho
    | some el =>
      cases ws with
      | none => simp [ctorOwnRej] at ho
      | some l =>
        simp [ctorOwnRej] at ho
        simp [ctorRejArgs, ho.2]
  · intro he; subst he; rfl

/-- non-vacuity: three refused forms (too few weights on an unweighted object - the constructor's own test is skipped,
`add_edges` refuses; too many weights on a weighted one; `edge_metadata` too short) and two accepted degenerate ones
(no `edge_list`: weights ignored; empty `edge_metadata` list counts as not given) -/
example :
    (ctor false none none (some [⟨.nodes [1], .nodes [2]⟩, ⟨.nodes [2], .nodes [3]⟩]) (some [4]) none).2 = .rej ∧
    (ctor true none none (some [⟨.nodes [1], .nodes [2]⟩]) (some [4, 8]) none).2 = .rej ∧
    (ctor false none none (some [⟨.nodes [1], .nodes [2]⟩, ⟨.nodes [2], .nodes [3]⟩]) none (some [[]])).2 = .rej ∧
    (ctor true none none none (some [4, 8]) (some [[]])).2 = .ok ∧
    (ctor false none none (some [⟨.nodes [1], .nodes [2]⟩]) none (some [])).2 = .ok := by decide

/-- **Raw setters and `populate_from_dict ∘ expose_data_structures = id`** (EVERY store, reachable or not; every table).
`populate_from_dict(expose_data_structures())` gives back the same ten tables whatever the receiver was, and
`expose_data_structures()` after `populate_from_dict(d)` returns `d`: the two are mutually inverse.  `get_edge_list`
after `set_edge_list(x)` returns `x` and no other table moves; the same for `set_adj_dict(x, 'source' | 'target')` (the
OTHER adjacency table does not move); setter ∘ getter = id. -/
theorem C02_populate_expose (s : Store) (t : Tables) (el : List (Key × Nat)) (adj : Adj) (b : Bool) :
    populate (expose s) = s ∧ expose (populate t) = t ∧
    getEdgeList (setEdgeList s el) = el ∧ { setEdgeList s el with edgeList := s.edgeList } = s ∧
    setEdgeList s (getEdgeList s) = s ∧
    getAdjDict (setAdjDict s b adj) b = adj ∧ getAdjDict (setAdjDict s b adj) (!b) = getAdjDict s (!b) ∧
    setAdjDict s b (getAdjDict s b) = s ∧ (setAdjDict s b adj).edgeList = s.edgeList ∧
    abs (setAdjDict s false adj) = abs s := by
  refine ⟨populate_expose s, expose_populate t, rfl, by cases s; rfl, by cases s; rfl, ?_, ?_, ?_, ?_, ?_⟩
  · cases b <;> rfl
  · cases b <;> rfl
  · cases s; cases b <;> rfl
  · cases b <;> rfl
  · rfl

/-- **Echo histories.**  A history that mixes public calls (all `Op`s and `set_incidence_metadata`) with raw calls
(`set_edge_list`, `set_adj_dict`, `populate_from_dict`) each of which hands back what the matching getter returns at
that moment (`echoes`) ends in the state of its public calls alone - a `populate_from_dict(expose_data_structures())`
additionally EMPTIES the incidence table, because `expose_data_structures()` does not hand that table out (`forget`) -;
its ten tables are those of the run of its base calls, so (calls satisfying the quantifier) the invariant holds and the
abstraction is the abstract run: every theorem of this file applies to such histories. -/
theorem C02_raw_echo_history (w : Bool) (ops : List RawOp) (hops : ∀ o ∈ ops, o.WF)
    (he : echoes { base := { weighted := w } } ops = true) :
    rawRun { base := { weighted := w } } ops = pubRun { base := { weighted := w } } (pubOps ops) ∧
    (rawRun { base := { weighted := w } } ops).base = run { weighted := w } (baseOps ops) ∧
    Inv (rawRun { base := { weighted := w } } ops).base ∧
    abs (rawRun { base := { weighted := w } } ops).base = Spec.run { weighted := w } (baseOps ops) := by
  have h1 := rawRun_echo _ ops he
  have h2 := rawRun_base _ ops he
  have hw := baseOps_WF ops hops
  have q := abs_run { weighted := w } (baseOps ops) hw (inv_init w []) (ord_init w [])
  refine ⟨h1, h2, ?_, ?_⟩
  · rw [h2]; exact q.2.2.1
  · rw [h2]; exact q.1

/-- non-vacuity: all raw calls as echoes inside a history with an incidence entry; the populate forgets the entry, the
hyperedge and its weight stay; a NON-echo `set_adj_dict` breaks the tie (degree 0 on the tables, the hyperedge still listed) -/
example :
    let x0 : Full := { base := { weighted := true } }
    let s1 := (addEdge x0.base (.ofLists [2, 1] [3]) (some 8) none).1
    let ops : List RawOp := [.pub (.base (.addEdge (.ofLists [2, 1] [3]) (some 8) none)),
      .pub (.setInc (.ofLists [1, 2] [3]) 2 [(2, 3)]), .setEL s1.edgeList, .setAdj true s1.adjS, .setAdj false s1.adjT,
      .pop (expose s1), .pub (.base (.addNode 9 none))]
    echoes x0 ops = true ∧ (rawRun x0 ops).inc = [] ∧ (rawRun x0 (ops.take 5)).inc ≠ [] ∧
    getWeight (rawRun x0 ops).base (.ofLists [1, 2] [3]) = some 8 ∧ nodes (rawRun x0 ops).base = [1, 2, 3, 9] ∧
    echoes x0 (ops.take 3 ++ [.setAdj true []]) = false ∧
    degree (rawRun x0 (ops.take 3 ++ [.setAdj true []])).base 1 .all = none ∧
    edges (rawRun x0 (ops.take 3 ++ [.setAdj true []])).base .all false = some [([1, 2], [3])] := by decide

/-- **`get_mapping()` is a bijection nodes ↔ 0..n-1 in label order** (every reachable object).  `classes_` lists exactly
the nodes, each once, strictly increasing, as many as `num_nodes()`; it depends on the abstract object only; a label is
encoded iff it is a node (otherwise `transform` raises); the code of a node is its position in `classes_`
(`transform` / `inverse_transform` are mutually inverse), so a smaller label has a smaller code. -/
theorem C02_mapping (s : Store) (hr : Reachable s) :
    (mapping s).Pairwise (· < ·) ∧ (∀ n, n ∈ mapping s ↔ checkNode s n = true) ∧
    (mapping s).length = numNodes s ∧ mapping s = Spec.mapping (abs s) ∧
    (∀ n i, indexOf? s n = some i ↔ labelOf? s i = some n) ∧
    (∀ n, indexOf? s n = none ↔ checkNode s n = false) ∧
    (∀ n m i j, indexOf? s n = some i → indexOf? s m = some j → (n < m ↔ i < j)) := by
  have h := C02_inv s hr
  obtain ⟨m1, m2, m3⟩ := mapping_props s h
  have nd : (mapping s).Nodup := m1.imp (fun h => Nat.ne_of_lt h)
  have hiff : ∀ n i, indexOf? s n = some i ↔ labelOf? s i = some n := by
    intro n i
    unfold indexOf? labelOf?
    constructor
    · intro hi
      obtain ⟨k, hk, hg⟩ := indexFrom_some n _ 0 i hi
      have : i = k := by omega
      subst this; exact hg
    · intro hg
      have := indexFrom_of_get n _ nd i 0 hg
      simpa using this
  refine ⟨m1, m2, m3, by unfold mapping Spec.mapping; rw [q_nodes], hiff, ?_, ?_⟩
  · intro n
    unfold indexOf?
    rw [indexFrom_none, m2]
    cases checkNode s n <;> simp
  · intro n m i j hn hm
    have gn := (hiff n i).mp hn
    have gm := (hiff m j).mp hm
    unfold labelOf? at gn gm
    obtain ⟨hi, ei⟩ := List.getElem?_eq_some_iff.mp gn
    obtain ⟨hj, ej⟩ := List.getElem?_eq_some_iff.mp gm
    have pw := List.pairwise_iff_getElem.mp m1
    constructor
    · intro hlt
      rcases Nat.lt_trichotomy i j with h1 | h1 | h1
      · exact h1
      · subst h1
        have e : n = m := ei.symm.trans ej
        exact absurd hlt (e ▸ Nat.lt_irrefl n)
      · have h2 : (mapping s)[j] < (mapping s)[i] := pw j i hj hi h1
        rw [ei, ej] at h2; exact absurd hlt (Nat.lt_asymm h2)
    · intro hlt
      have h2 : (mapping s)[i] < (mapping s)[j] := pw i j hi hj hlt
      rw [ei, ej] at h2; exact h2

/-- non-vacuity: the last object of the example history has nodes in non-sorted insertion order; the mapping sorts them -/
example : nodes exampleFinal ≠ mapping exampleFinal ∧ (mapping exampleFinal).length = numNodes exampleFinal ∧
    indexOf? exampleFinal ((mapping exampleFinal).getD 1 0) = some 1 ∧ indexOf? exampleFinal 1000 = none := by decide
