import Hgxv.Model.C02
import Hgxv.Proofs.C02Basic
/-! # C02 - property theorems (DirectedHypergraph faithfully stores (source set, target set) hyperedges)

Model: `Hgxv/Model/C02.lean` (concrete `Store` mirroring `core/directed_hypergraph.py` after the `fix:` commits
D5-D11, abstract `Spec`); helper lemmas: `Hgxv/Proofs/C02*.lean`. -/
open C02

/-- **The order in which the nodes of a source or target set are listed is irrelevant.**
Two listings of the same source set and the same target set (`List.Perm`) have the same canonical key, hence every
entry point that takes a hyperedge - insertion, removal, weight and metadata updates, membership, weight and
metadata queries - returns the same store / the same answer.  A bare node `n` (accepted by `add_edge`) is the
singleton `(n,)`.  No hypothesis on the store: holds for every reachable and unreachable state. -/
theorem C02_listing_order_irrelevant (s : Store) (S S' T T' : List Node) (hS : S.Perm S') (hT : T.Perm T') :
    canonAdd (.ofLists S T) = canonAdd (.ofLists S' T') ∧
    (∀ w md, addEdge s (.ofLists S T) w md = addEdge s (.ofLists S' T') w md) ∧
    removeEdge s (.ofLists S T) = removeEdge s (.ofLists S' T') ∧
    (∀ w, setWeight s (.ofLists S T) w = setWeight s (.ofLists S' T') w) ∧
    (∀ md, setEdgeMeta s (.ofLists S T) md = setEdgeMeta s (.ofLists S' T') md) ∧
    (∀ a v, setAttrEdge s (.ofLists S T) a v = setAttrEdge s (.ofLists S' T') a v) ∧
    (∀ a, delAttrEdge s (.ofLists S T) a = delAttrEdge s (.ofLists S' T') a) ∧
    checkEdge s (.ofLists S T) = checkEdge s (.ofLists S' T') ∧
    getWeight s (.ofLists S T) = getWeight s (.ofLists S' T') ∧
    edgeMeta s (.ofLists S T) = edgeMeta s (.ofLists S' T') ∧
    (∀ n : Node, canonAdd ⟨.scalar n, .nodes T⟩ = canonAdd ⟨.nodes [n], .nodes T'⟩) := by
  have h1 : canonAdd (.ofLists S T) = canonAdd (.ofLists S' T') := by
    simp [canonAdd, RawEdge.ofLists, Side.toList, sortNodes_eq_of_perm hS, sortNodes_eq_of_perm hT]
  have h2 : canonStrict (.ofLists S T) = canonStrict (.ofLists S' T') := by
    simp [canonStrict, RawEdge.ofLists, Side.strict, sortNodes_eq_of_perm hS, sortNodes_eq_of_perm hT]
  refine ⟨h1, ?_, ?_, ?_, ?_, ?_, ?_, ?_, ?_, ?_, ?_⟩
  · intro w md; simp [addEdge, h1]
  · simp [removeEdge, h2]
  · intro w; simp [setWeight, h2]
  · intro md; simp [setEdgeMeta, h2]
  · intro a v; simp [setAttrEdge, h2]
  · intro a; simp [delAttrEdge, h2]
  · simp [checkEdge, h2]
  · simp [getWeight, h2]
  · simp [edgeMeta, h2]
  · intro n; simp [canonAdd, Side.toList, sortNodes_eq_of_perm hT]

/-- non-vacuity: `((3,1),(2,))` and `((1,3),(2,))` are the same hyperedge; the second insertion adds to its weight -/
example :
    let s0 : Store := { weighted := true }
    let s1 := (addEdge s0 (.ofLists [3, 1] [2]) (some 6) none).1
    let s2 := (addEdge s1 (.ofLists [1, 3] [2]) (some 2) none).1
    edges s2 .all false = some [([1, 3], [2])] ∧ getWeight s2 (.ofLists [3, 1] [2]) = some 8 := by decide
