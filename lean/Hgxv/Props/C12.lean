import Hgxv.Model.C12
import Hgxv.Model.C12Hist
import Hgxv.Proofs.C12LinkC02
import Hgxv.Proofs.C12Ext
import Mathlib.Algebra.Order.Field.Rat
import Mathlib.Algebra.Order.Field.Basic
/-! # C12 — directed measures follow their definitions; exact ≤ strong ≤ weak reciprocity

Property theorems about the model `Hgxv/Model/C12.lean`.  All statements are for every list of
hyperedges, every bound `m` and every size `k`. -/
open C12

/-! ## the three per-hyperedge predicates are the stated ones -/

theorem C12_exact_def (E : List DEdge) (e : DEdge) :
    isExact E e = true ↔ (e.2, e.1) ∈ E := by
  simp [isExact]

theorem C12_strong_def (E : List DEdge) (e : DEdge) :
    isStrong E e = true ↔ ∀ s ∈ e.1, ∃ t ∈ e.2, ∃ f ∈ E, t ∈ f.1 ∧ s ∈ f.2 := by
  simp only [isStrong, reach, List.all_eq_true, List.any_eq_true, List.contains_iff_mem,
    List.mem_flatMap, List.mem_filter]
  constructor
  · intro h s hs
    obtain ⟨t, ht, f, ⟨hf, htf⟩, hsf⟩ := h s hs
    exact ⟨t, ht, f, hf, htf, hsf⟩
  · intro h s hs
    obtain ⟨t, ht, f, hf, htf, hsf⟩ := h s hs
    exact ⟨t, ht, f, ⟨hf, htf⟩, hsf⟩

theorem C12_weak_def (E : List DEdge) (e : DEdge) :
    isWeak E e = true ↔ ∃ i ∈ e.1, ∃ j ∈ e.2, ∃ f ∈ E, j ∈ f.1 ∧ i ∈ f.2 := by
  simp [isWeak]

/-! ## per-hyperedge implications (this is where non-empty sides are needed) -/

theorem C12_exact_imp_strong (E : List DEdge) (e : DEdge) (hT : e.2 ≠ [])
    (h : isExact E e = true) : isStrong E e = true := by
  rw [C12_exact_def] at h
  rw [C12_strong_def]
  intro s hs
  obtain ⟨t, ht⟩ := List.exists_mem_of_ne_nil _ hT
  exact ⟨t, ht, (e.2, e.1), h, ht, hs⟩

theorem C12_strong_imp_weak (E : List DEdge) (e : DEdge) (hS : e.1 ≠ [])
    (h : isStrong E e = true) : isWeak E e = true := by
  rw [C12_strong_def] at h
  rw [C12_weak_def]
  obtain ⟨s, hs⟩ := List.exists_mem_of_ne_nil _ hS
  obtain ⟨t, ht, f, hf, htf, hsf⟩ := h s hs
  exact ⟨s, hs, t, ht, f, hf, htf, hsf⟩

/-! ## counts and ratios -/

theorem recCount_le_total (p : List DEdge → DEdge → Bool) (E : List DEdge) (k : Nat) :
    recCount p E k ≤ total E k := by
  unfold recCount total; exact List.length_filter_le _ _

theorem recCount_mono (p q : List DEdge → DEdge → Bool) (E : List DEdge) (k : Nat)
    (h : ∀ e ∈ E, p E e = true → q E e = true) : recCount p E k ≤ recCount q E k := by
  unfold recCount
  rw [← List.countP_eq_length_filter, ← List.countP_eq_length_filter]
  apply List.countP_mono_left
  intro e he; exact h e (List.mem_filter.mp he).1

theorem ratio_mono (a b t : Nat) (h : a ≤ b) : ratio a t ≤ ratio b t := by
  unfold ratio; split
  · exact le_refl _
  · exact div_le_div_of_nonneg_right (by exact_mod_cast h) (Nat.cast_nonneg t)

/-- every ratio lies in [0, 1] -/
theorem C12_range (p : List DEdge → DEdge → Bool) (es : List DEdge) (m k : Nat) :
    0 ≤ reciprocity p es m k ∧ reciprocity p es m k ≤ 1 := by
  unfold reciprocity ratio
  split
  · simp
  · rename_i ht
    have hle := recCount_le_total p (bounded m es) k
    have hpos : (0 : Rat) < (total (bounded m es) k : Rat) := by
      exact_mod_cast Nat.pos_of_ne_zero ht
    constructor
    · exact div_nonneg (Nat.cast_nonneg _) hpos.le
    · rw [div_le_one hpos]; exact_mod_cast hle

/-- sizes without hyperedges give 0 -/
theorem C12_empty_size (p : List DEdge → DEdge → Bool) (es : List DEdge) (m k : Nat)
    (h : total (bounded m es) k = 0) : reciprocity p es m k = 0 := by
  simp [reciprocity, ratio, h]

/-- sizes outside `2..m` have no hyperedge in the bounded set, so their ratio is 0 -/
theorem C12_outside_bound (p : List DEdge → DEdge → Bool) (es : List DEdge) (m k : Nat)
    (hk : k < 2 ∨ m < k) : reciprocity p es m k = 0 := by
  apply C12_empty_size
  unfold total ofSize bounded
  rw [List.length_eq_zero_iff, List.filter_filter, List.filter_eq_nil_iff]
  intro e _
  simp only [Bool.and_eq_true, beq_iff_eq, decide_eq_true_eq, not_and]
  omega

/-- exact ≤ strong ≤ weak, for every size, whenever every hyperedge has non-empty sides -/
theorem C12_order (es : List DEdge) (m k : Nat)
    (hne : ∀ e ∈ es, e.1 ≠ [] ∧ e.2 ≠ []) :
    reciprocity isExact es m k ≤ reciprocity isStrong es m k ∧
    reciprocity isStrong es m k ≤ reciprocity isWeak es m k := by
  have hb : ∀ e ∈ bounded m es, e.1 ≠ [] ∧ e.2 ≠ [] := fun e he => hne e (List.mem_filter.mp he).1
  constructor
  · exact ratio_mono _ _ _ (recCount_mono _ _ _ _ fun e he h => C12_exact_imp_strong _ e (hb e he).2 h)
  · exact ratio_mono _ _ _ (recCount_mono _ _ _ _ fun e he h => C12_strong_imp_weak _ e (hb e he).1 h)

/-- the table has exactly one entry per size `2..m` -/
theorem C12_table_keys (p : List DEdge → DEdge → Bool) (es : List DEdge) (m : Nat) :
    (reciprocityTable p es m).map (·.1) = (List.range (m + 1)).filter (2 ≤ ·) := by
  simp [reciprocityTable, List.map_map, Function.comp_def]

/-! ## degrees -/

/-- in-degree counts the hyperedges (passing the filter) in which the node is a source -/
theorem C12_in_degree (es : List DEdge) (size : Option Nat) (n : Nat) :
    inDegree es size n = es.countP (fun e => decide (n ∈ e.1) && passes size e) := by
  simp [inDegree, List.countP_eq_length_filter]

theorem C12_out_degree (es : List DEdge) (size : Option Nat) (n : Nat) :
    outDegree es size n = es.countP (fun e => decide (n ∈ e.2) && passes size e) := by
  simp [outDegree, List.countP_eq_length_filter]

/-- the sequences list every node exactly once, in node order, with its degree -/
theorem C12_sequences (nodes : List Nat) (es : List DEdge) (size : Option Nat) :
    (inDegreeSeq nodes es size).map (·.1) = nodes ∧ (outDegreeSeq nodes es size).map (·.1) = nodes ∧
    (∀ p ∈ inDegreeSeq nodes es size, p.2 = inDegree es size p.1) ∧
    (∀ p ∈ outDegreeSeq nodes es size, p.2 = outDegree es size p.1) := by
  refine ⟨by simp [inDegreeSeq, List.map_map, Function.comp_def],
          by simp [outDegreeSeq, List.map_map, Function.comp_def], ?_, ?_⟩
  · intro p hp; simp only [inDegreeSeq, List.mem_map] at hp; obtain ⟨n, _, rfl⟩ := hp; rfl
  · intro p hp; simp only [outDegreeSeq, List.mem_map] at hp; obtain ⟨n, _, rfl⟩ := hp; rfl

/-! ## signature -/

/-- cell `(a, b)` (1-based source and target sizes, `a + b ≤ m`) counts exactly the hyperedges of
that shape -/
theorem C12_signature_cell (es : List DEdge) (m a b : Nat) (ha : 1 ≤ a) (hb : 1 ≤ b) (hab : a + b ≤ m)
    (hne : ∀ e ∈ es, e.1 ≠ [] ∧ e.2 ≠ []) :
    (signature es m)[(a - 1) * (m - 1) + (b - 1)]? =
      some (es.countP (fun e => e.1.length == a && e.2.length == b)) := by
  have hidx : (a - 1) * (m - 1) + (b - 1) < (m - 1) * (m - 1) := by
    have h1 : a - 1 + 1 ≤ m - 1 := by omega
    have h2 : b - 1 < m - 1 := by omega
    calc (a - 1) * (m - 1) + (b - 1) < (a - 1) * (m - 1) + (m - 1) := by omega
      _ = (a - 1 + 1) * (m - 1) := by rw [Nat.add_mul, Nat.one_mul]
      _ ≤ (m - 1) * (m - 1) := Nat.mul_le_mul_right _ h1
  simp only [signature, List.getElem?_map, List.getElem?_range hidx, Option.map_some]
  congr 1
  rw [← List.countP_eq_length_filter, List.countP_filter]
  apply List.countP_congr
  intro e he
  have hl1 : 1 ≤ e.1.length := List.length_pos_iff.mpr (hne e he).1
  have hl2 : 1 ≤ e.2.length := List.length_pos_iff.mpr (hne e he).2
  simp only [cellIndex, esize, Bool.and_eq_true, beq_iff_eq]
  constructor
  · rintro ⟨hcell, hsz⟩
    have hsz := of_decide_eq_true hsz
    have h2 : e.2.length - 1 < m - 1 := by omega
    have h2' : b - 1 < m - 1 := by omega
    have hmpos : 0 < m - 1 := by omega
    have hq : (e.1.length - 1) = (a - 1) := by
      have := congrArg (· / (m - 1)) hcell
      simp only [Nat.mul_comm _ (m - 1)] at this
      rwa [Nat.mul_add_div hmpos, Nat.mul_add_div hmpos, Nat.div_eq_of_lt h2, Nat.div_eq_of_lt h2',
        Nat.add_zero, Nat.add_zero] at this
    have hr : e.2.length - 1 = b - 1 := by rw [hq] at hcell; omega
    omega
  · rintro ⟨h1, h2⟩; subst h1; subst h2; exact ⟨rfl, decide_eq_true hab⟩

theorem countP_lt_succ (sel : List DEdge) (f : DEdge → Nat) (n : Nat) :
    sel.countP (fun e => f e < n) + sel.countP (fun e => f e == n) = sel.countP (fun e => f e < n + 1) := by
  induction sel with
  | nil => simp
  | cons e t iht =>
    simp only [List.countP_cons]
    by_cases h1 : f e < n
    · have : ¬ f e = n := by omega
      have h3 : f e < n + 1 := by omega
      simp [h1, this, h3]; omega
    · by_cases h2 : f e = n
      · simp [h2]; omega
      · have h3 : ¬ f e < n + 1 := by omega
        simp [h1, h2, h3]; omega

theorem sum_cells (sel : List DEdge) (f : DEdge → Nat) (n : Nat) :
    ((List.range n).map (fun idx => (sel.filter (fun e => f e == idx)).length)).sum
      = sel.countP (fun e => f e < n) := by
  induction n with
  | zero => simp
  | succ n ih =>
    rw [List.range_succ, List.map_append, List.sum_append, ih]
    simp only [List.map_cons, List.map_nil, List.sum_cons, List.sum_nil, Nat.add_zero]
    rw [← List.countP_eq_length_filter]
    exact countP_lt_succ sel f n

/-- the cells sum to the number of hyperedges of total size at most the bound -/
theorem C12_signature_sum (es : List DEdge) (m : Nat)
    (hne : ∀ e ∈ es, e.1 ≠ [] ∧ e.2 ≠ []) :
    (signature es m).sum = es.countP (fun e => esize e ≤ m) := by
  simp only [signature]
  rw [sum_cells, List.countP_filter]
  apply List.countP_congr
  intro e he
  have hl1 : 1 ≤ e.1.length := List.length_pos_iff.mpr (hne e he).1
  have hl2 : 1 ≤ e.2.length := List.length_pos_iff.mpr (hne e he).2
  simp only [cellIndex, esize, Bool.and_eq_true]
  constructor
  · rintro ⟨_, h⟩; exact h
  · intro h
    have h' := of_decide_eq_true h
    refine ⟨decide_eq_true ?_, h⟩
    have h1 : e.1.length - 1 + 1 ≤ m - 1 := by omega
    have h2 : e.2.length - 1 < m - 1 := by omega
    calc (e.1.length - 1) * (m - 1) + (e.2.length - 1) < (e.1.length - 1) * (m - 1) + (m - 1) := by omega
      _ = (e.1.length - 1 + 1) * (m - 1) := by rw [Nat.add_mul, Nat.one_mul]
      _ ≤ (m - 1) * (m - 1) := Nat.mul_le_mul_right _ h1

/-! ## non-vacuity: a concrete hypergraph on which the three ratios are pairwise different -/
example :
    let es : List DEdge := [([1], [2]), ([2], [1]), ([1], [3]), ([3, 7], [1]), ([5], [6]), ([4], [5])]
    (∀ e ∈ es, e.1 ≠ [] ∧ e.2 ≠ []) ∧
    recCount isExact (bounded 3 es) 2 < recCount isStrong (bounded 3 es) 2 ∧
    recCount isStrong (bounded 3 es) 3 < recCount isWeak (bounded 3 es) 3 ∧
    total (bounded 3 es) 2 = 5 ∧ total (bounded 3 es) 3 = 1 := by
  decide

/-! ## Links to the full container model C02 (`DirectedHypergraph`): the measures on objects reached by ANY history

Helper lemmas: `Hgxv/Proofs/C12LinkC02.lean` (core Lean).  The map between the two models is the identity
(`C12.DEdge = C02.Key`, pairs of sorted tuples of node ranks); `listing s` is the key list of `_edge_list` in creation
order.  Nothing is assumed about the object beyond "reached by a history of public calls satisfying C02's quantifier"
(`C02.Cmd.WF`: hyperedges handed to the constructor / `add_edge` / `add_edges` have duplicate-free, disjoint, non-empty
sides): distinct canonical hyperedges, non-empty sides, endpoints are nodes, soundness and completeness of the two
adjacency tables all come from C02's invariants (`C02.runCmds_all`). -/

/-- `s` is one of the objects of a state reached from nothing by a finite sequence of constructor calls, copies and
public mutating calls (same definition as `C02.Reachable` in `Props/C02.lean`) -/
def C12.ReachableD (s : C02.Store) : Prop :=
  ∃ (cs : List C02.Cmd) (slot : Nat), (∀ c ∈ cs, c.WF) ∧ AL.get? (C02.runCmds [] cs) slot = some s

/-- **What C12's routines are given, for every history.**  After every history, for the object `s` in any slot: the
abstract object the same history builds in that slot is `C02.abs s`; `get_edges()` answers `listing s`, which is the
key list of the abstract object, and `get_nodes()` answers its node list; both are duplicate-free; every listed
hyperedge is a canonical key (sorted, duplicate-free sides) with NON-EMPTY DISJOINT sides, all of whose nodes are
listed by `get_nodes()`.  These are the modelling assumptions of `Model/C12.lean` ("list of distinct canonical
hyperedges and the node list") and the hypothesis `hne` of `C12_order`, `C12_signature_cell`, `C12_signature_sum`. -/
theorem C12_link_listing (cs : List C02.Cmd) (hcs : ∀ c ∈ cs, c.WF) (slot : Nat) (s : C02.Store)
    (hs : AL.get? (C02.runCmds [] cs) slot = some s) :
    AL.get? (C02.Spec.runCmds [] cs) slot = some (C02.abs s) ∧
    C02.edges s .all false = some (listing s) ∧ listing s = (C02.abs s).keyList ∧
    C02.nodes s = (C02.abs s).nodeList ∧ (listing s).Nodup ∧ (C02.nodes s).Nodup ∧
    (∀ e ∈ listing s, e.1 ≠ [] ∧ e.2 ≠ [] ∧ C02.KeyWF e ∧ ∀ n, (n ∈ e.1 ∨ n ∈ e.2) → n ∈ C02.nodes s) := by
  have g := good_of_history cs hcs slot s hs
  refine ⟨abs_of_history cs hcs slot s hs, get_edges_eq s, listing_abs s, nodes_abs s, listing_nodup g,
    nodes_nodup g, ?_⟩
  intro e he
  have h := listing_wf g e he
  exact ⟨h.1.neS, h.1.neT, h.1, h.2⟩

/-- **Degrees, every history.**  For every reachable object, every node `get_nodes()` lists and every admissible
order/size filter (`t` = the size it selects, `none` = no filter): `get_source_edges` / `get_target_edges` answer
EXACTLY the sub-list of `get_edges()` that C12's `inDegree` / `outDegree` count (same hyperedges, same order), so
C12's degree on the object's listing is the length of the object's answer = the model object's `in_degree` /
`out_degree`; on the abstract content of the history it is the number of stored (source, target) pairs passing the
filter that have the node among their sources / targets (`C12_in_degree`), which is also what the abstract object
answers. -/
theorem C12_link_degrees (s : C02.Store) (hr : ReachableD s) (n : Nat) (hn : C02.checkNode s n = true)
    (f : C02.Filt) (t : Option Nat) (hf : f.target = some t) :
    C02.sourceEdges s n f = some ((listing s).filter (fun e => e.1.contains n && passes t e)) ∧
    C02.targetEdges s n f = some ((listing s).filter (fun e => e.2.contains n && passes t e)) ∧
    (C02.sourceEdges s n f).map List.length = some (inDegree (listing s) t n) ∧
    (C02.targetEdges s n f).map List.length = some (outDegree (listing s) t n) ∧
    C02.inDegree s n f = some (inDegree (listing s) t n) ∧
    C02.outDegree s n f = some (outDegree (listing s) t n) ∧
    inDegree (listing s) t n = (C02.abs s).keyList.countP (fun e => decide (n ∈ e.1) && passes t e) ∧
    outDegree (listing s) t n = (C02.abs s).keyList.countP (fun e => decide (n ∈ e.2) && passes t e) ∧
    (C02.abs s).inDegree n f = some (inDegree (C02.abs s).keyList t n) ∧
    (C02.abs s).outDegree n f = some (outDegree (C02.abs s).keyList t n) := by
  obtain ⟨cs, slot, hcs, hs⟩ := hr
  have g := good_of_history cs hcs slot s hs
  have ha : AL.has (C02.abs s).nodes n = true := by rw [C02.abs_has_node]; exact hn
  have sd := spec_degrees (C02.abs s) n ha f t hf
  refine ⟨sourceEdges_exact g n hn f t hf, targetEdges_exact g n hn f t hf, inDegree_link g n hn f t hf,
    outDegree_link g n hn f t hf, inDegree_link g n hn f t hf, outDegree_link g n hn f t hf, ?_, ?_, sd.1, sd.2⟩
  · rw [← listing_abs]; exact C12_in_degree _ _ _
  · rw [← listing_abs]; exact C12_out_degree _ _ _

/-- where the object has no degree: a node `get_nodes()` does not list, or `order` and `size` given together - the
role listings raise, so `in_degree` / `out_degree` raise (C12's functions are never compared there) -/
theorem C12_link_degrees_rejected (s : C02.Store) (hr : ReachableD s) (n : Nat) (f : C02.Filt)
    (h : C02.checkNode s n = false ∨ f = .both) :
    C02.inDegree s n f = none ∧ C02.outDegree s n f = none := by
  obtain ⟨cs, slot, hcs, hs⟩ := hr
  have g := good_of_history cs hcs slot s hs
  rcases h with h | h
  · have r := role_absent s g.inv n h f
    simp [C02.inDegree, C02.outDegree, r.1, r.2]
  · subst h
    have r := role_both s n
    simp [C02.inDegree, C02.outDegree, r.1, r.2]

/-- **Degree sequences, every history.**  For every reachable object and admissible filter, the object's
`in_degree_sequence` / `out_degree_sequence` ARE C12's sequences computed from `get_nodes()` and `get_edges()`; they
list exactly the object's nodes (= the nodes of the abstract content), each once, in node order. -/
theorem C12_link_sequences (s : C02.Store) (hr : ReachableD s) (f : C02.Filt) (t : Option Nat)
    (hf : f.target = some t) :
    C02.inDegreeSeq s f = some (inDegreeSeq (C02.nodes s) (listing s) t) ∧
    C02.outDegreeSeq s f = some (outDegreeSeq (C02.nodes s) (listing s) t) ∧
    (inDegreeSeq (C02.nodes s) (listing s) t).map (·.1) = (C02.abs s).nodeList ∧
    (outDegreeSeq (C02.nodes s) (listing s) t).map (·.1) = (C02.abs s).nodeList ∧
    (C02.abs s).nodeList.Nodup := by
  obtain ⟨cs, slot, hcs, hs⟩ := hr
  have g := good_of_history cs hcs slot s hs
  have sq := C12_sequences (C02.nodes s) (listing s) t
  refine ⟨inDegreeSeq_link g f t hf, outDegreeSeq_link g f t hf, ?_, ?_, ?_⟩
  · rw [sq.1]; exact nodes_abs s
  · rw [sq.2.1]; exact nodes_abs s
  · rw [← nodes_abs]; exact nodes_nodup g

/-- **exact ≤ strong ≤ weak for every history.**  For every reachable object, every bound and every size, the three
ratios computed from what `get_edges()` lists are ordered and lie in [0, 1] (`C12_order`'s hypothesis is discharged by
C02's invariant); for a size within the bound, the common denominator `tot[k]` is the number of hyperedges the
object's own `get_edges(size=k)` lists. -/
theorem C12_link_order (s : C02.Store) (hr : ReachableD s) (m k : Nat) :
    reciprocity isExact (listing s) m k ≤ reciprocity isStrong (listing s) m k ∧
    reciprocity isStrong (listing s) m k ≤ reciprocity isWeak (listing s) m k ∧
    0 ≤ reciprocity isExact (listing s) m k ∧ reciprocity isWeak (listing s) m k ≤ 1 ∧
    (2 ≤ k → k ≤ m → ∃ L, C02.edges s (.size k) false = some L ∧ total (bounded m (listing s)) k = L.length) := by
  obtain ⟨cs, slot, hcs, hs⟩ := hr
  have g := good_of_history cs hcs slot s hs
  have o := C12_order (listing s) m k (listing_nonempty g)
  refine ⟨o.1, o.2, (C12_range _ _ _ _).1, (C12_range _ _ _ _).2, ?_⟩
  intro h1 h2
  exact ⟨_, get_edges_size s k, total_bounded _ m k ⟨h1, h2⟩⟩

/-- **"exactly reciprocated" is the object's `check_edge` of the reverse.**  For every reachable object and every
hyperedge `e` the routines look at: the model's test `(target, source) in edge_set` has the value the object's
`check_edge((target, source))` returns. -/
theorem C12_link_exact_check (s : C02.Store) (hr : ReachableD s) (m : Nat) (e : DEdge)
    (he : e ∈ bounded m (listing s)) :
    C02.checkEdge s (C02.RawEdge.ofKey (e.2, e.1)) = some (isExact (bounded m (listing s)) e) := by
  obtain ⟨cs, slot, hcs, hs⟩ := hr
  exact isExact_check (good_of_history cs hcs slot s hs) m e he

/-- **Signature vector, every history.**  For every reachable object and bound `m`: the hyperedges the routine loops
over, `get_edges(size=m, up_to=True)`, are the selection the model makes of `get_edges()`; cell `(a, b)` with
`a + b ≤ m` is the number of stored (source, target) pairs of the abstract content with `a` sources and `b` targets;
the cells sum to the length of the object's `get_edges(size=m, up_to=True)` answer.  With the default bound
`max(get_sizes())` every hyperedge is counted (the sum is `num_edges()`); without hyperedges there is no maximum
(the routine returns the empty vector). -/
theorem C12_link_signature (s : C02.Store) (hr : ReachableD s) (m : Nat) :
    (∃ L, C02.edges s (.size m) true = some L ∧ L = (listing s).filter (fun e => esize e ≤ m) ∧
      (signature (listing s) m).sum = L.length) ∧
    (∀ a b, 1 ≤ a → 1 ≤ b → a + b ≤ m →
      (signature (listing s) m)[(a - 1) * (m - 1) + (b - 1)]? =
        some ((C02.abs s).keyList.countP (fun e => e.1.length == a && e.2.length == b))) ∧
    (C02.maxSize s = some m → (signature (listing s) m).sum = C02.numEdges s) ∧
    (C02.maxSize s = none → listing s = [] ∧ C02.numEdges s = 0) := by
  obtain ⟨cs, slot, hcs, hs⟩ := hr
  have g := good_of_history cs hcs slot s hs
  have hne := listing_nonempty g
  have hsum := C12_signature_sum (listing s) m hne
  have hlen : C02.numEdges s = (listing s).length := by simp [C02.numEdges, listing, AL.keys]
  refine ⟨⟨_, get_edges_upto s m, rfl, ?_⟩, ?_, ?_, ?_⟩
  · rw [hsum, List.countP_eq_length_filter]
  · intro a b ha hb hab
    rw [← listing_abs]
    exact C12_signature_cell (listing s) m a b ha hb hab hne
  · intro hM
    rw [hsum, hlen, List.countP_eq_length_filter]
    congr 1
    exact List.filter_eq_self.mpr (fun e he => decide_eq_true (maxSize_bound s m hM e he))
  · intro hN
    have := maxSize_none s hN
    exact ⟨this, by rw [hlen, this]; rfl⟩

/-! ### non-vacuity of the link theorems: a concrete history

Constructor with three hyperedges, insertion, removal (id gap), insertion in unsorted order, a hyperedge shrunk by
`remove_node(keep_edges=True)` (re-inserted under a fresh id at the end of the listing), a copy that is changed
afterwards.  The object in slot 0 ends with the six hyperedges of the example above (exact < strong < weak), node 9
isolated, node 8 gone. -/
def C12.exampleHistory : List C02.Cmd :=
  [ .new 0 false none none (some [.ofLists [1] [2], .ofLists [9] [8], .ofLists [2] [1]]) none none,
    .op 0 (.addEdge (.ofLists [1] [3]) none none),
    .op 0 (.removeEdge (.ofLists [9] [8])),
    .op 0 (.addEdge (.ofLists [7, 3] [1]) none none),
    .op 0 (.addEdge (.ofLists [8, 5] [6]) none none),
    .op 0 (.removeNode 8 true),
    .op 0 (.addEdge (.ofLists [4] [5]) none none),
    .copy 0 1,
    .op 1 (.removeNode 1 false) ]

def C12.exampleObject : C02.Store := (AL.get? (C02.runCmds [] C12.exampleHistory) 0).getD {}

example : ReachableD C12.exampleObject := ⟨C12.exampleHistory, 0, C02.cmds_WF_of_ok _ (by decide), by decide⟩
/-- the listings of the object (note the re-inserted `((5,),(6,))` after `((3,7),(1,))`) and of the changed copy -/
example : listing C12.exampleObject = [([1], [2]), ([2], [1]), ([1], [3]), ([3, 7], [1]), ([5], [6]), ([4], [5])] ∧
    C02.nodes C12.exampleObject = [1, 2, 9, 3, 7, 5, 6, 4] ∧
    (AL.get? (C02.runCmds [] C12.exampleHistory) 1).map listing = some [([5], [6]), ([4], [5])] := by decide
/-- the hypotheses of `C12_link_degrees` hold for node 1 and each kind of filter; the values are non-trivial -/
example : C02.checkNode C12.exampleObject 1 = true ∧ C02.Filt.target (.size 2) = some (some 2) ∧
    C02.Filt.target (.order 2) = some (some 3) ∧
    C02.inDegree C12.exampleObject 1 .all = some 2 ∧ inDegree (listing C12.exampleObject) none 1 = 2 ∧
    C02.outDegree C12.exampleObject 1 (.size 2) = some 1 ∧ outDegree (listing C12.exampleObject) (some 2) 1 = 1 ∧
    C02.outDegree C12.exampleObject 1 (.order 2) = some 1 ∧ outDegree (listing C12.exampleObject) (some 3) 1 = 1 ∧
    C02.sourceEdges C12.exampleObject 1 .all = some [([1], [2]), ([1], [3])] := by decide
/-- the rejections are real: node 8 was removed, and `both` raises -/
example : C02.checkNode C12.exampleObject 8 = false ∧ C02.inDegree C12.exampleObject 8 .all = none ∧
    C02.outDegree C12.exampleObject 1 .both = none := by decide
/-- the sequences of the object -/
example : C02.inDegreeSeq C12.exampleObject (.size 2) =
      some [(1, 2), (2, 1), (9, 0), (3, 0), (7, 0), (5, 1), (6, 0), (4, 1)] ∧
    inDegreeSeq (C02.nodes C12.exampleObject) (listing C12.exampleObject) (some 2) =
      [(1, 2), (2, 1), (9, 0), (3, 0), (7, 0), (5, 1), (6, 0), (4, 1)] ∧
    C02.outDegreeSeq C12.exampleObject .all =
      some [(1, 2), (2, 1), (9, 0), (3, 1), (7, 0), (5, 1), (6, 1), (4, 0)] := by decide
/-- on this object the three ratios differ: exact < strong for size 2, strong < weak for size 3 -/
example : recCount isExact (bounded 3 (listing C12.exampleObject)) 2 <
      recCount isStrong (bounded 3 (listing C12.exampleObject)) 2 ∧
    recCount isStrong (bounded 3 (listing C12.exampleObject)) 3 <
      recCount isWeak (bounded 3 (listing C12.exampleObject)) 3 ∧
    C02.edges C12.exampleObject (.size 2) false =
      some [([1], [2]), ([2], [1]), ([1], [3]), ([5], [6]), ([4], [5])] ∧
    total (bounded 3 (listing C12.exampleObject)) 2 = 5 := by decide
/-- `check_edge` of the reverse: `((1,),(2,))` is exactly reciprocated, `((1,),(3,))` is not -/
example : ([1], [2]) ∈ bounded 3 (listing C12.exampleObject) ∧ ([1], [3]) ∈ bounded 3 (listing C12.exampleObject) ∧
    C02.checkEdge C12.exampleObject (C02.RawEdge.ofKey ([2], [1])) = some true ∧
    C02.checkEdge C12.exampleObject (C02.RawEdge.ofKey ([3], [1])) = some false := by decide
/-- signature: default bound 3, cells `(1,1)` = 5, `(2,1)` = 1, sum = 6 = `num_edges()`; bound 2 drops one hyperedge -/
example : C02.maxSize C12.exampleObject = some 3 ∧ signature (listing C12.exampleObject) 3 = [5, 0, 1, 0] ∧
    C02.numEdges C12.exampleObject = 6 ∧ signature (listing C12.exampleObject) 2 = [5] ∧
    (C02.edges C12.exampleObject (.size 2) true).map List.length = some 5 ∧
    C02.maxSize (C02.clear C12.exampleObject) = none := by decide

/-! ## the history the driver runs (strengthening round d)

`Driver/C12.lean` executes the calls of a history - constructor, copies, insertions, REJECTED calls, removals,
`remove_node` with both `keep_edges` values - with `C02.step` and hands the listings of a slot to the routines above. -/

/-- **The history the driver runs is the history of the link theorems.**  `histRun` (one `C02.step` per line of the
protocol, REJECTED calls included - they leave the state as it was and answer `rej`) is `C02.runCmds`; the listings the
driver hands to the routines are `listing s` / `C02.nodes s` of the link theorems. -/
theorem C12_hist_run (st : C02.State) (cs : List C02.Cmd) :
    histRun st cs = C02.runCmds st cs ∧ ∀ s : C02.Store, histListing s = listing s ∧ histNodes s = C02.nodes s := by
  refine ⟨?_, fun s => ⟨rfl, rfl⟩⟩
  induction cs generalizing st with
  | nil => rfl
  | cons c cs ih => exact ih _

/-- **What the driver answers after any history satisfies the property.**  For every sequence of constructor calls,
copies and mutating calls whose `add_edge` arguments have duplicate-free, disjoint, non-empty sides (`Cmd.WF`, the
property's quantifier; nothing is asked of weights, of the presence of what is removed, of the nodes handed to
`remove_node`: those calls may be rejected), for the object in any slot, every bound and size:
exact ≤ strong ≤ weak, within [0, 1]; the degree sequences list every node of `get_nodes()` once, in order, with the
number of listed hyperedges passing the filter that have it among their sources / targets; the cells of the signature
sum to the number of listed hyperedges within the bound. -/
theorem C12_hist_measures (cs : List C02.Cmd) (hcs : ∀ c ∈ cs, c.WF) (slot : Nat) (s : C02.Store)
    (hs : AL.get? (histRun [] cs) slot = some s) (m k : Nat) (size : Option Nat) :
    reciprocity isExact (histListing s) m k ≤ reciprocity isStrong (histListing s) m k ∧
    reciprocity isStrong (histListing s) m k ≤ reciprocity isWeak (histListing s) m k ∧
    0 ≤ reciprocity isExact (histListing s) m k ∧ reciprocity isWeak (histListing s) m k ≤ 1 ∧
    (inDegreeSeq (histNodes s) (histListing s) size).map (·.1) = histNodes s ∧
    (outDegreeSeq (histNodes s) (histListing s) size).map (·.1) = histNodes s ∧
    (histNodes s).Nodup ∧ (histListing s).Nodup ∧
    (signature (histListing s) m).sum = (histListing s).countP (fun e => esize e ≤ m) := by
  rw [(C12_hist_run [] cs).1] at hs
  have hr : ReachableD s := ⟨cs, slot, hcs, hs⟩
  have o := C12_link_order s hr m k
  have l := C12_link_listing cs hcs slot s hs
  refine ⟨o.1, o.2.1, o.2.2.1, o.2.2.2.1, ?_, ?_, l.2.2.2.2.2.1, l.2.2.2.2.1, ?_⟩
  · simp [inDegreeSeq, histNodes, List.map_map, Function.comp_def]
  · simp [outDegreeSeq, histNodes, List.map_map, Function.comp_def]
  · exact C12_signature_sum (listing s) m (fun e he => by
      have := l.2.2.2.2.2.2 e he
      exact ⟨this.1, this.2.1⟩)

/-! ### non-vacuity: a rejected call, its retry, and a shrunk hyperedge that coincides with a stored one

`add_edge(((3,),(1,)), weight=2)` on a hypergraph that is not weighted is REJECTED and leaves no trace; the retry
without weight inserts it; `remove_node(2, keep_edges=True)` shrinks `((1,2),(3,))` onto the stored `((1,),(3,))`:
ONE hyperedge, counted once by the degrees. -/
def C12.rejectHistory : List C02.Cmd :=
  [ .new 0 false none none none none none,
    .op 0 (.addEdge (.ofLists [1, 2] [3]) none none),
    .op 0 (.addEdge (.ofLists [1] [3]) none none),
    .op 0 (.addEdge (.ofLists [3] [1]) (some 8) none),
    .op 0 (.addEdge (.ofLists [3] [1]) none none),
    .op 0 (.removeNode 2 true) ]

example : (∀ c ∈ C12.rejectHistory, c.WF) := C02.cmds_WF_of_ok _ (by decide)
/-- the rejected call answers `rej` and changes nothing -/
example : (C02.step (histRun [] (C12.rejectHistory.take 3)) (.op 0 (.addEdge (.ofLists [3] [1]) (some 8) none))) =
    (histRun [] (C12.rejectHistory.take 3), .rej) := by decide
example : (AL.get? (histRun [] (C12.rejectHistory.take 4)) 0).map histListing = some [([1, 2], [3]), ([1], [3])] ∧
    (AL.get? (histRun [] C12.rejectHistory) 0).map histListing = some [([1], [3]), ([3], [1])] ∧
    (AL.get? (histRun [] C12.rejectHistory) 0).map histNodes = some [1, 3] ∧
    (AL.get? (histRun [] C12.rejectHistory) 0).map (fun s => inDegreeSeq (histNodes s) (histListing s) none) =
      some [(1, 1), (3, 1)] ∧
    (AL.get? (histRun [] C12.rejectHistory) 0).map (fun s => outDegreeSeq (histNodes s) (histListing s) (some 2)) =
      some [(1, 1), (3, 1)] ∧
    (AL.get? (histRun [] C12.rejectHistory) 0).map (fun s => signature (histListing s) 3) = some [2, 0, 0, 0] ∧
    (AL.get? (histRun [] C12.rejectHistory) 0).map (fun s => recCount isExact (bounded 3 (histListing s)) 2) = some 2 := by
  decide

/-! ## Extension round: the routines as the Python code runs them, and the identities between the measures

Model: `Hgxv/Model/C12Ext.lean`, helper lemmas: `Hgxv/Proofs/C12Ext.lean` (core Lean).  Every definition used below is
run by the driver and compared with the implementation on every check (`callin callout seqin seqout sums lexact lstrong
lweak ltabs lsig sigdef sigagg rev`). -/

/-! ### option handling of the degree routines -/

/-- `order` / `size`: both given = the call raises; `order = o` means total size `o + 1` (also for `o = 0`), `size = k`
means `k`, neither means no filter - and nothing else -/
theorem C12_filter_options (order size : Option Nat) :
    (filterArg order size = none ↔ order.isSome ∧ size.isSome) ∧
    (∀ o, filterArg (some o) none = some (some (o + 1))) ∧
    (∀ k, filterArg none (some k) = some (some k)) ∧ filterArg none none = some none := by
  refine ⟨?_, fun _ => rfl, fun _ => rfl, rfl⟩
  cases order <;> cases size <;> simp [filterArg]

/-- `in_degree / out_degree(h, node, order, size)`: raises exactly when the node is not listed or both options are given;
otherwise it is the count of `Model/C12.lean` under the selected size; `order = o` and `size = o + 1` are the same call -/
theorem C12_degree_calls (nodes : List Nat) (es : List DEdge) (order size : Option Nat) (n : Nat) :
    (inDegreeCall nodes es order size n = none ↔ n ∉ nodes ∨ (order.isSome ∧ size.isSome)) ∧
    (outDegreeCall nodes es order size n = none ↔ n ∉ nodes ∨ (order.isSome ∧ size.isSome)) ∧
    (∀ f, n ∈ nodes → filterArg order size = some f →
      inDegreeCall nodes es order size n = some (inDegree es f n) ∧
      outDegreeCall nodes es order size n = some (outDegree es f n)) ∧
    (∀ o, inDegreeCall nodes es (some o) none n = inDegreeCall nodes es none (some (o + 1)) n ∧
      outDegreeCall nodes es (some o) none n = outDegreeCall nodes es none (some (o + 1)) n) := by
  have hf := (C12_filter_options order size).1
  refine ⟨?_, ?_, ?_, fun _ => ⟨rfl, rfl⟩⟩
  · unfold inDegreeCall
    by_cases hn : n ∈ nodes
    · simp [hn, hf]
    · simp [hn]
  · unfold outDegreeCall
    by_cases hn : n ∈ nodes
    · simp [hn, hf]
    · simp [hn]
  · intro f hn h
    simp [inDegreeCall, outDegreeCall, hn, h]

/-- the sequences are the dict comprehension over `get_nodes()`: they raise exactly when there IS a node and both options
are given (no node: `{}` without looking at the options); otherwise every node once, in node order, with the answer of
the single call -/
theorem C12_sequence_calls (nodes : List Nat) (es : List DEdge) (order size : Option Nat) :
    (inDegreeSeqCall nodes es order size = none ↔ nodes ≠ [] ∧ order.isSome ∧ size.isSome) ∧
    (outDegreeSeqCall nodes es order size = none ↔ nodes ≠ [] ∧ order.isSome ∧ size.isSome) ∧
    (∀ seq, inDegreeSeqCall nodes es order size = some seq →
      seq.map (·.1) = nodes ∧ ∀ p ∈ seq, inDegreeCall nodes es order size p.1 = some p.2) ∧
    (∀ seq, outDegreeSeqCall nodes es order size = some seq →
      seq.map (·.1) = nodes ∧ ∀ p ∈ seq, outDegreeCall nodes es order size p.1 = some p.2) := by
  have hf := (C12_filter_options order size).1
  refine ⟨?_, ?_, ?_, ?_⟩
  · cases nodes with
    | nil => simp [inDegreeSeqCall]
    | cons a l => cases h : filterArg order size <;> simp [inDegreeSeqCall, h, ← hf]
  · cases nodes with
    | nil => simp [outDegreeSeqCall]
    | cons a l => cases h : filterArg order size <;> simp [outDegreeSeqCall, h, ← hf]
  · intro seq h
    cases nodes with
    | nil => simp [inDegreeSeqCall] at h; subst h; simp
    | cons a l =>
      cases hfa : filterArg order size with
      | none => simp [inDegreeSeqCall, hfa] at h
      | some f =>
        simp only [inDegreeSeqCall, hfa, Option.some.injEq] at h
        subst h
        refine ⟨by simp [inDegreeSeq, List.map_map, Function.comp_def], ?_⟩
        intro p hp
        simp only [inDegreeSeq, List.mem_map] at hp
        obtain ⟨n, hn, rfl⟩ := hp
        simp [inDegreeCall, hfa, List.mem_cons.mp hn]
  · intro seq h
    cases nodes with
    | nil => simp [outDegreeSeqCall] at h; subst h; simp
    | cons a l =>
      cases hfa : filterArg order size with
      | none => simp [outDegreeSeqCall, hfa] at h
      | some f =>
        simp only [outDegreeSeqCall, hfa, Option.some.injEq] at h
        subst h
        refine ⟨by simp [outDegreeSeq, List.map_map, Function.comp_def], ?_⟩
        intro p hp
        simp only [outDegreeSeq, List.mem_map] at hp
        obtain ⟨n, hn, rfl⟩ := hp
        simp [outDegreeCall, hfa, List.mem_cons.mp hn]

/-! ### handshake identities (degree.py against the listing)

Hypotheses = what every `DirectedHypergraph` guarantees (`C12_link_listing`): `get_nodes()` duplicate-free, every side of a
listed hyperedge duplicate-free and made of listed nodes. -/

/-- the in-degrees of all nodes sum to the source sizes of the selected hyperedges, the out-degrees to the target sizes,
both together to the total sizes; under `size = k` that is `k` times the number of hyperedges of size `k` -/
theorem C12_handshake (nodes : List Nat) (es : List DEdge) (size : Option Nat) (hn : nodes.Nodup)
    (hs : ∀ e ∈ es, e.1.Nodup ∧ e.2.Nodup ∧ ∀ x, (x ∈ e.1 ∨ x ∈ e.2) → x ∈ nodes) :
    sumInDegrees nodes es size = sumSourceSizes es size ∧
    sumOutDegrees nodes es size = sumTargetSizes es size ∧
    sumInDegrees nodes es size + sumOutDegrees nodes es size = ((selected es size).map esize).sum ∧
    (∀ k, size = some k →
      sumInDegrees nodes es size + sumOutDegrees nodes es size = k * (ofSize k es).length) := by
  have h1 := handshake_in nodes es size hn (fun e he => ⟨(hs e he).1, fun x hx => (hs e he).2.2 x (Or.inl hx)⟩)
  have h2 := handshake_out nodes es size hn (fun e he => ⟨(hs e he).2.1, fun x hx => (hs e he).2.2 x (Or.inr hx)⟩)
  refine ⟨h1, h2, by rw [h1, h2, sum_sides], ?_⟩
  intro k hk
  subst hk
  rw [h1, h2, sum_sides]
  have : selected es (some k) = ofSize k es := rfl
  rw [this]
  apply sum_const
  intro e he
  simpa [ofSize] using (List.mem_filter.mp he).2

/-! ### the loops of `reciprocity.py` and `hyperedge_signature.py` compute the closed forms -/

/-- what the dict-building first loops hold when they end: `tot[k]` = number of hyperedges of the bounded set of size `k`;
`edge_set` has the members of the bounded set, and on a duplicate-free listing (`get_edges()`) exactly that list in order;
`s ∈ node_reach[n]` iff some hyperedge of the bounded set has `n` among its sources and `s` among its targets (a node that
is nobody's source has no entry); `(i, j) ∈ bin_edges` iff some hyperedge of the bounded set has `i` as a source and `j`
as a target -/
theorem C12_loop_tables (es : List DEdge) (m : Nat) :
    (∀ k, k ≤ m → (totLoop es m).getD k 0 = total (bounded m es) k) ∧
    (∀ e, e ∈ edgeSetLoop es m ↔ e ∈ bounded m es) ∧ (es.Nodup → edgeSetLoop es m = bounded m es) ∧
    (∀ n s, (∃ r, AL.get? (reachLoop es m) n = some r ∧ s ∈ r) ↔ ∃ f ∈ bounded m es, n ∈ f.1 ∧ s ∈ f.2) ∧
    (∀ i j, (i, j) ∈ binLoop es m ↔ ∃ f ∈ bounded m es, i ∈ f.1 ∧ j ∈ f.2) := by
  refine ⟨?_, mem_edgeSetLoop es m, edgeSetLoop_eq es m, fun n s => inTbl_reachLoop es m n s,
    fun i j => mem_binLoop es m (i, j)⟩
  intro k hk
  unfold totLoop total ofSize
  rw [countLoopIf_getD _ _ _ _ _ (by omega), bounded_eq_filter]

/-- the first loop of the three routines is ONE pass over `get_edges()` that fills all its tables; the pass leaves
exactly the tables of `C12_loop_tables` -/
theorem C12_first_loop (es : List DEdge) (m : Nat) :
    firstLoop es m = { tot := totLoop es m, edgeSet := edgeSetLoop es m, reach := reachLoop es m,
                       bins := binLoop es m } :=
  firstLoop_eq es m

/-- the three routines, run loop by loop as written (first loop: `tot`, `edge_set`, the reach / pair tables; second loop
over `edge_set`: `rec`; third loop: the division), return the tables of `Model/C12.lean` - to which `C12_order`,
`C12_range`, `C12_empty_size` apply.  `es.Nodup`: `get_edges()` lists every hyperedge once (`C12_link_listing`). -/
theorem C12_loops (es : List DEdge) (m : Nat) (hn : es.Nodup) :
    exactRun es m = reciprocityTable isExact es m ∧
    strongRun es m = reciprocityTable isStrong es m ∧
    weakRun es m = reciprocityTable isWeak es m := by
  refine ⟨?_, ?_, ?_⟩
  · unfold exactRun; rw [firstLoop_eq]; exact loop_table _ isExact es m hn (exactTest_eq es m)
  · unfold strongRun; rw [firstLoop_eq]; exact loop_table _ isStrong es m hn (strongTest_eq es m)
  · unfold weakRun; rw [firstLoop_eq]; exact loop_table _ isWeak es m hn (weakTest_eq es m)

/-- the hyperedges of one size whose reverse is present come in pairs: `rec[k]` of `exact_reciprocity` is even before the
division (duplicate-free listing, non-empty disjoint sides - the property's quantifier) -/
theorem C12_exact_even (es : List DEdge) (m k : Nat) (hn : es.Nodup)
    (hd : ∀ e ∈ es, e.1 ≠ [] ∧ ∀ x ∈ e.1, x ∉ e.2) :
    recCount isExact (bounded m es) k % 2 = 0 := by
  apply recCount_exact_even _ k ((List.filter_sublist).nodup hn)
  intro e he heq
  have h := hd e (List.mem_filter.mp he).1
  obtain ⟨x, hx⟩ := List.exists_mem_of_ne_nil _ h.1
  exact h.2 x hx (heq ▸ hx)

/-- `np.zeros((m-1, m-1))`, `signature[s-1, t-1] += 1` per hyperedge within the bound, `flatten()` = the flat vector of
`Model/C12.lean` (non-empty sides: no index leaves its row) -/
theorem C12_signature_loop (es : List DEdge) (m : Nat) (hne : ∀ e ∈ es, e.1 ≠ [] ∧ e.2 ≠ []) :
    signatureLoop es m = signature es m :=
  signatureLoop_eq es m hne

/-- EVERY cell of the vector: row `a`, column `b` (0-based, both below `m - 1`) holds the number of hyperedges within the
bound with `a + 1` sources and `b + 1` targets; the cells with `a + b + 2 > m` are 0 -/
theorem C12_signature_all_cells (es : List DEdge) (m a b : Nat) (ha : a < m - 1) (hb : b < m - 1)
    (hne : ∀ e ∈ es, e.1 ≠ [] ∧ e.2 ≠ []) :
    (signature es m)[a * (m - 1) + b]? =
      some (es.countP (fun e => decide (esize e ≤ m) && (e.1.length == a + 1 && e.2.length == b + 1))) ∧
    (m < a + b + 2 → (signature es m)[a * (m - 1) + b]? = some 0) := by
  have h := signature_cell_all es m a b ha hb hne
  have e1 : (signature es m)[a * (m - 1) + b]? =
      some (es.countP (fun e => decide (esize e ≤ m) && (e.1.length == a + 1 && e.2.length == b + 1))) := by
    rw [h, List.filter_filter, ← List.countP_eq_length_filter]
    congr 1
    apply List.countP_congr
    intro e he
    have hl1 : 1 ≤ e.1.length := List.length_pos_iff.mpr (hne e he).1
    have hl2 : 1 ≤ e.2.length := List.length_pos_iff.mpr (hne e he).2
    simp only [Bool.and_eq_true, beq_iff_eq, decide_eq_true_eq]
    omega
  refine ⟨e1, ?_⟩
  intro hm
  rw [e1]
  congr 1
  rw [List.countP_eq_zero]
  intro e _
  simp only [Bool.and_eq_true, beq_iff_eq, esize]
  rintro ⟨h1, h2, h3⟩
  have h1' := of_decide_eq_true h1
  omega

/-- the default bound is the largest size: no hyperedge = empty vector; otherwise the vector for `m = max size`, whose
cells sum to the number of ALL hyperedges, and some hyperedge has exactly that size -/
theorem C12_signature_default (es : List DEdge) (hne : ∀ e ∈ es, e.1 ≠ [] ∧ e.2 ≠ []) :
    (es = [] → signatureDefault es = []) ∧
    (∀ m, maxSize es = some m → signatureDefault es = signature es m ∧ (signatureDefault es).sum = es.length ∧
      (∀ e ∈ es, esize e ≤ m) ∧ ∃ e ∈ es, esize e = m) ∧
    (es ≠ [] → ∃ m, maxSize es = some m) := by
  refine ⟨?_, ?_, ?_⟩
  · intro h; subst h; rfl
  · intro m hm
    have sp := maxSizeE_spec es m hm
    have e1 : signatureDefault es = signature es m := by
      unfold signatureDefault; rw [hm]; exact signatureLoop_eq es m hne
    refine ⟨e1, ?_, sp.1, sp.2⟩
    rw [e1, C12_signature_sum es m hne, List.countP_eq_length]
    intro e he
    exact decide_eq_true (sp.1 e he)
  · intro h
    cases hm : maxSize es with
    | none => exact absurd ((maxSizeE_none es).mp hm) h
    | some m => exact ⟨m, rfl⟩

/-! ### identities between signature, reciprocity denominators and degrees -/

/-- the anti-diagonal `source size + target size = k` of the signature sums to `tot[k]`, the denominator of the three
reciprocity ratios of size `k` (`2 ≤ k ≤ m`) -/
theorem C12_signature_diagonal (es : List DEdge) (m k : Nat) (hk : 2 ≤ k) (hkm : k ≤ m)
    (hne : ∀ e ∈ es, e.1 ≠ [] ∧ e.2 ≠ []) :
    sigDiagonal (signature es m) m k = total (bounded m es) k := by
  unfold sigDiagonal
  have cell : ∀ a ∈ List.range (k - 1), (signature es m).getD (a * (m - 1) + (k - 2 - a)) 0 =
      ((es.filter (fun e => esize e == k)).filter (fun e => e.1.length - 1 == a)).length := by
    intro a ha
    have ha' : a < k - 1 := List.mem_range.mp ha
    have c := C12_signature_cell es m (a + 1) (k - 1 - a) (by omega) (by omega) (by omega) hne
    have h1 : a + 1 - 1 = a := by omega
    have h2 : k - 1 - a - 1 = k - 2 - a := by omega
    rw [h1, h2] at c
    rw [List.getD_eq_getElem?_getD, c, Option.getD_some, List.filter_filter, ← List.countP_eq_length_filter]
    apply List.countP_congr
    intro e he
    have hl1 : 1 ≤ e.1.length := List.length_pos_iff.mpr (hne e he).1
    simp only [Bool.and_eq_true, beq_iff_eq, esize]
    omega
  rw [List.map_congr_left cell, sum_cells]
  unfold total ofSize bounded
  rw [List.filter_filter, List.countP_filter, List.countP_eq_length_filter]
  congr 1
  apply List.filter_congr
  intro e he
  have hl1 : 1 ≤ e.1.length := List.length_pos_iff.mpr (hne e he).1
  have hl2 : 1 ≤ e.2.length := List.length_pos_iff.mpr (hne e he).2
  rw [Bool.eq_iff_iff]
  simp only [Bool.and_eq_true, beq_iff_eq, esize]
  constructor
  · rintro ⟨h1, h2⟩
    have a1 : 2 ≤ e.1.length + e.2.length := by omega
    have a2 : e.1.length + e.2.length ≤ m := by omega
    exact ⟨h2, decide_eq_true a1, decide_eq_true a2⟩
  · rintro ⟨h1, _, _⟩
    have a1 : e.1.length - 1 < k - 1 := by omega
    exact ⟨decide_eq_true a1, h1⟩

/-- degree.py against hyperedge_signature.py: the cells weighted by their source size (target size) sum to the number of
sources (targets) of the hyperedges within the bound; when the bound is at least the largest size (e.g. the default
bound) that is the sum of all in-degrees (out-degrees) -/
theorem C12_signature_degrees (nodes : List Nat) (es : List DEdge) (m : Nat)
    (hne : ∀ e ∈ es, e.1 ≠ [] ∧ e.2 ≠ []) :
    sigSourceWeighted (signature es m) m = ((es.filter (fun e => esize e ≤ m)).map (·.1.length)).sum ∧
    sigTargetWeighted (signature es m) m = ((es.filter (fun e => esize e ≤ m)).map (·.2.length)).sum ∧
    ((∀ e ∈ es, esize e ≤ m) → nodes.Nodup →
      (∀ e ∈ es, e.1.Nodup ∧ e.2.Nodup ∧ ∀ x, (x ∈ e.1 ∨ x ∈ e.2) → x ∈ nodes) →
      sigSourceWeighted (signature es m) m = sumInDegrees nodes es none ∧
      sigTargetWeighted (signature es m) m = sumOutDegrees nodes es none) := by
  refine ⟨sigSourceWeighted_eq es m hne, sigTargetWeighted_eq es m hne, ?_⟩
  intro hall hn hs
  have h := C12_handshake nodes es none hn hs
  have hf : es.filter (fun e => esize e ≤ m) = es :=
    List.filter_eq_self.mpr (fun e he => decide_eq_true (hall e he))
  have hsel : selected es none = es := List.filter_eq_self.mpr (fun e _ => rfl)
  rw [sigSourceWeighted_eq es m hne, sigTargetWeighted_eq es m hne, hf, h.1, h.2.1]
  unfold sumSourceSizes sumTargetSizes
  rw [hsel]
  exact ⟨rfl, rfl⟩

/-! ### the reversed hypergraph -/

/-- exchanging sources and targets of every hyperedge exchanges in- and out-degree (every filter), transposes the
signature (cells `a + b ≤ m`), and leaves the exact and the weak reciprocity of every size unchanged -/
theorem C12_reverse (es : List DEdge) (m k : Nat) (size : Option Nat) (n : Nat) :
    inDegree (reverse es) size n = outDegree es size n ∧
    outDegree (reverse es) size n = inDegree es size n ∧
    reciprocity isExact (reverse es) m k = reciprocity isExact es m k ∧
    reciprocity isWeak (reverse es) m k = reciprocity isWeak es m k ∧
    ((∀ e ∈ es, e.1 ≠ [] ∧ e.2 ≠ []) → ∀ a b, 1 ≤ a → 1 ≤ b → a + b ≤ m →
      (signature (reverse es) m)[(a - 1) * (m - 1) + (b - 1)]? = (signature es m)[(b - 1) * (m - 1) + (a - 1)]?) := by
  refine ⟨inDegree_reverse es size n, outDegree_reverse es size n,
    reciprocity_reverse isExact isExact_reverse es m k, reciprocity_reverse isWeak isWeak_reverse es m k, ?_⟩
  intro hne a b ha hb hab
  have hne' : ∀ e ∈ reverse es, e.1 ≠ [] ∧ e.2 ≠ [] := by
    intro e he
    simp only [reverse, List.mem_map] at he
    obtain ⟨f, hf, rfl⟩ := he
    exact ⟨(hne f hf).2, (hne f hf).1⟩
  rw [C12_signature_cell (reverse es) m a b ha hb hab hne', C12_signature_cell es m b a hb ha (by omega) hne]
  congr 1
  unfold reverse
  rw [List.countP_map]
  apply List.countP_congr
  intro e _
  simp only [Function.comp, Bool.and_comm]

/-! ### the identities on every object a history can produce -/

/-- after every history of public calls (C02's quantifier; rejected calls included), for the object in any slot, every
filter: Σ in-degrees = Σ source sizes, Σ out-degrees = Σ target sizes of the selected hyperedges of `get_edges()`; the
flattened 2-d accumulation is the signature; the anti-diagonals of the signature are the reciprocity denominators; the
three routines run loop by loop return the closed-form tables; the exactly reciprocated hyperedges of a size are even
in number -/
theorem C12_hist_identities (cs : List C02.Cmd) (hcs : ∀ c ∈ cs, c.WF) (slot : Nat) (s : C02.Store)
    (hs : AL.get? (histRun [] cs) slot = some s) (m k : Nat) (size : Option Nat) :
    sumInDegrees (histNodes s) (histListing s) size = sumSourceSizes (histListing s) size ∧
    sumOutDegrees (histNodes s) (histListing s) size = sumTargetSizes (histListing s) size ∧
    signatureLoop (histListing s) m = signature (histListing s) m ∧
    (2 ≤ k → k ≤ m → sigDiagonal (signature (histListing s) m) m k = total (bounded m (histListing s)) k) ∧
    exactRun (histListing s) m = reciprocityTable isExact (histListing s) m ∧
    strongRun (histListing s) m = reciprocityTable isStrong (histListing s) m ∧
    weakRun (histListing s) m = reciprocityTable isWeak (histListing s) m ∧
    recCount isExact (bounded m (histListing s)) k % 2 = 0 := by
  rw [(C12_hist_run [] cs).1] at hs
  have l := C12_link_listing cs hcs slot s hs
  have hne : ∀ e ∈ listing s, e.1 ≠ [] ∧ e.2 ≠ [] := fun e he => by
    have := l.2.2.2.2.2.2 e he
    exact ⟨this.1, this.2.1⟩
  have hsd : ∀ e ∈ listing s, e.1.Nodup ∧ e.2.Nodup ∧ ∀ x, (x ∈ e.1 ∨ x ∈ e.2) → x ∈ C02.nodes s := fun e he => by
    have := l.2.2.2.2.2.2 e he
    exact ⟨this.2.2.1.nodupS, this.2.2.1.nodupT, this.2.2.2⟩
  have h := C12_handshake (C02.nodes s) (listing s) size l.2.2.2.2.2.1 hsd
  have hl := C12_loops (listing s) m l.2.2.2.2.1
  have hev := C12_exact_even (listing s) m k l.2.2.2.2.1 (fun e he => by
    have := l.2.2.2.2.2.2 e he
    exact ⟨this.1, fun x hx => this.2.2.1.disj x hx⟩)
  exact ⟨h.1, h.2.1, C12_signature_loop _ m hne, fun h1 h2 => C12_signature_diagonal _ m k h1 h2 hne,
    hl.1, hl.2.1, hl.2.2, hev⟩

/-- the caller's `order` / `size` as the filter of the container model C02 -/
def C12.filtOf : Option Nat → Option Nat → C02.Filt
  | none, none => .all
  | none, some k => .size k
  | some o, none => .order o
  | some _, some _ => .both

/-- **the degree calls with their options, every history.**  For every reachable object, EVERY node label (listed or not)
and every combination of `order` / `size`: C12's `inDegreeCall / outDegreeCall` on the object's two listings is what the
container model's `in_degree / out_degree` answers - the same refusals (`none`) and the same counts -/
theorem C12_link_degree_calls (s : C02.Store) (hr : ReachableD s) (order size : Option Nat) (n : Nat) :
    inDegreeCall (C02.nodes s) (listing s) order size n = C02.inDegree s n (filtOf order size) ∧
    outDegreeCall (C02.nodes s) (listing s) order size n = C02.outDegree s n (filtOf order size) := by
  have ht : filterArg order size = (filtOf order size).target := by
    cases order <;> cases size <;> rfl
  by_cases hn : n ∈ C02.nodes s
  · have hc := mem_nodes_check s n hn
    cases hf : (filtOf order size).target with
    | none =>
      have hb : filtOf order size = .both := by
        cases order <;> cases size <;> simp_all [filtOf, C02.Filt.target]
      have r := C12_link_degrees_rejected s hr n (filtOf order size) (Or.inr hb)
      rw [r.1, r.2]
      simp [inDegreeCall, outDegreeCall, ht, hf]
    | some t =>
      have l := C12_link_degrees s hr n hc (filtOf order size) t hf
      rw [l.2.2.2.2.1, l.2.2.2.2.2.1]
      simp [inDegreeCall, outDegreeCall, ht, hf, hn]
  · have hc : C02.checkNode s n = false := by
      cases h : C02.checkNode s n with
      | false => rfl
      | true =>
        exfalso; apply hn
        unfold C02.checkNode AL.has at h
        unfold C02.nodes
        cases hg : AL.get? s.adjS n with
        | none => simp [hg] at h
        | some v =>
          apply Decidable.byContradiction
          intro hnot
          rw [(AL.get?_eq_none_iff s.adjS n).mpr hnot] at hg
          cases hg
    have r := C12_link_degrees_rejected s hr n (filtOf order size) (Or.inl hc)
    rw [r.1, r.2]
    simp [inDegreeCall, outDegreeCall, hn]

example : inDegreeCall (C02.nodes C12.exampleObject) (listing C12.exampleObject) (some 1) none 1 = some 2 ∧
    C02.inDegree C12.exampleObject 1 (C12.filtOf (some 1) none) = some 2 ∧
    outDegreeCall (C02.nodes C12.exampleObject) (listing C12.exampleObject) (some 1) (some 2) 1 = none ∧
    C02.outDegree C12.exampleObject 1 (C12.filtOf (some 1) (some 2)) = none ∧
    inDegreeCall (C02.nodes C12.exampleObject) (listing C12.exampleObject) none none 8 = none ∧
    C02.inDegree C12.exampleObject 8 (C12.filtOf none none) = none := by decide

/-! ### non-vacuity of the extension round: the 6-hyperedge example -/
def C12.exN : List Nat := [1, 2, 3, 4, 5, 6, 7, 9]
def C12.exE : List DEdge := [([1], [2]), ([2], [1]), ([1], [3]), ([3, 7], [1]), ([5], [6]), ([4], [5])]

example : C12.exN.Nodup ∧ (∀ e ∈ C12.exE, e.1.Nodup ∧ e.2.Nodup ∧ ∀ x, (x ∈ e.1 ∨ x ∈ e.2) → x ∈ C12.exN) ∧
    (∀ e ∈ C12.exE, e.1 ≠ [] ∧ e.2 ≠ []) := by
  have h : ∀ e ∈ C12.exE, e.1.Nodup ∧ e.2.Nodup ∧ ∀ x ∈ e.1 ++ e.2, x ∈ C12.exN := by decide
  refine ⟨by decide, ?_, by decide⟩
  intro e he
  exact ⟨(h e he).1, (h e he).2.1, fun x hx => (h e he).2.2 x (List.mem_append.mpr hx)⟩
example : sumInDegrees C12.exN C12.exE none = 7 ∧ sumSourceSizes C12.exE none = 7 ∧
    sumOutDegrees C12.exN C12.exE none = 6 ∧ sumTargetSizes C12.exE none = 6 ∧
    sumInDegrees C12.exN C12.exE (some 3) + sumOutDegrees C12.exN C12.exE (some 3) = 3 * 1 := by decide
example : inDegreeCall C12.exN C12.exE (some 1) none 1 = some 2 ∧ inDegreeCall C12.exN C12.exE none (some 2) 1 = some 2 ∧
    inDegreeCall C12.exN C12.exE (some 1) (some 2) 1 = none ∧ inDegreeCall C12.exN C12.exE none none 8 = none ∧
    outDegreeCall C12.exN C12.exE (some 0) none 1 = some 0 ∧
    inDegreeSeqCall [] [] (some 1) (some 2) = some [] ∧ inDegreeSeqCall C12.exN C12.exE (some 1) (some 2) = none := by decide
example : signatureMatrix C12.exE 3 = [[5, 0], [1, 0]] ∧ signatureLoop C12.exE 3 = [5, 0, 1, 0] ∧
    signatureDefault C12.exE = [5, 0, 1, 0] ∧ maxSize C12.exE = some 3 ∧
    sigSourceWeighted (signature C12.exE 3) 3 = 7 ∧ sigTargetWeighted (signature C12.exE 3) 3 = 6 ∧
    sigDiagonal (signature C12.exE 3) 3 2 = 5 ∧ sigDiagonal (signature C12.exE 3) 3 3 = 1 ∧
    signature (reverse C12.exE) 3 = [5, 1, 0, 0] := by decide
example : C12.exE.Nodup ∧ (∀ e ∈ C12.exE, e.1 ≠ [] ∧ ∀ x ∈ e.1, x ∉ e.2) ∧
    recCount isExact (bounded 3 C12.exE) 2 = 2 ∧ (firstLoop C12.exE 3).tot = [0, 0, 5, 1] ∧
    (firstLoop C12.exE 3).bins = [(1, 2), (2, 1), (1, 3), (3, 1), (7, 1), (5, 6), (4, 5)] ∧
    edgeSetLoop [([1], [2]), ([1], [2])] 2 = [([1], [2])] := by decide
example : totLoop C12.exE 3 = [0, 0, 5, 1] ∧ edgeSetLoop C12.exE 2 = [([1], [2]), ([2], [1]), ([1], [3]), ([5], [6]), ([4], [5])] ∧
    reachLoop C12.exE 3 = [(1, [2, 3]), (2, [1]), (3, [1]), (7, [1]), (5, [6]), (4, [5])] ∧
    binLoop C12.exE 2 = [(1, 2), (2, 1), (1, 3), (5, 6), (4, 5)] ∧
    recLoop (exactTest (edgeSetLoop C12.exE 3)) (edgeSetLoop C12.exE 3) 3 = [0, 0, 2, 0] ∧
    recLoop (strongTest (reachLoop C12.exE 3)) (edgeSetLoop C12.exE 3) 3 = [0, 0, 3, 0] ∧
    recLoop (weakTest (binLoop C12.exE 3)) (edgeSetLoop C12.exE 3) 3 = [0, 0, 3, 1] := by decide

