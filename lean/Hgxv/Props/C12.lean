import Hgxv.Model.C12
import Mathlib.Algebra.Order.Field.Rat
import Mathlib.Algebra.Order.Field.Basic
/-! # C12 — directed measures follow their definitions; exact ≤ strong ≤ weak reciprocity

Property theorems about the model `Hgxv/Model/C12.lean`.  All statements are for every list of
hyperedges, every bound `m` and every size `k`. -/
open C12

/-! ## the three per-hyperedge predicates are the stated ones -/

theorem C12_exact_def (E : List DEdge) (e : DEdge) :
    isExact E e = true ↔ (e.2, e.1) ∈ E := by
  simp [isExact]

theorem C12_strong_def (E : List DEdge) (e : DEdge) :
    isStrong E e = true ↔ ∀ s ∈ e.1, ∃ t ∈ e.2, ∃ f ∈ E, t ∈ f.1 ∧ s ∈ f.2 := by
  simp only [isStrong, reach, List.all_eq_true, List.any_eq_true, List.contains_iff_mem,
    List.mem_flatMap, List.mem_filter]
  constructor
  · intro h s hs
    obtain ⟨t, ht, f, ⟨hf, htf⟩, hsf⟩ := h s hs
    exact ⟨t, ht, f, hf, htf, hsf⟩
  · intro h s hs
    obtain ⟨t, ht, f, hf, htf, hsf⟩ := h s hs
    exact ⟨t, ht, f, ⟨hf, htf⟩, hsf⟩

theorem C12_weak_def (E : List DEdge) (e : DEdge) :
    isWeak E e = true ↔ ∃ i ∈ e.1, ∃ j ∈ e.2, ∃ f ∈ E, j ∈ f.1 ∧ i ∈ f.2 := by
  simp [isWeak]

/-! ## per-hyperedge implications (this is where non-empty sides are needed) -/

theorem C12_exact_imp_strong (E : List DEdge) (e : DEdge) (hT : e.2 ≠ [])
    (h : isExact E e = true) : isStrong E e = true := by
  rw [C12_exact_def] at h
  rw [C12_strong_def]
  intro s hs
  obtain ⟨t, ht⟩ := List.exists_mem_of_ne_nil _ hT
  exact ⟨t, ht, (e.2, e.1), h, ht, hs⟩

theorem C12_strong_imp_weak (E : List DEdge) (e : DEdge) (hS : e.1 ≠ [])
    (h : isStrong E e = true) : isWeak E e = true := by
  rw [C12_strong_def] at h
  rw [C12_weak_def]
  obtain ⟨s, hs⟩ := List.exists_mem_of_ne_nil _ hS
  obtain ⟨t, ht, f, hf, htf, hsf⟩ := h s hs
  exact ⟨s, hs, t, ht, f, hf, htf, hsf⟩

/-! ## counts and ratios -/

theorem recCount_le_total (p : List DEdge → DEdge → Bool) (E : List DEdge) (k : Nat) :
    recCount p E k ≤ total E k := by
  unfold recCount total; exact List.length_filter_le _ _

theorem recCount_mono (p q : List DEdge → DEdge → Bool) (E : List DEdge) (k : Nat)
    (h : ∀ e ∈ E, p E e = true → q E e = true) : recCount p E k ≤ recCount q E k := by
  unfold recCount
  rw [← List.countP_eq_length_filter, ← List.countP_eq_length_filter]
  apply List.countP_mono_left
  intro e he; exact h e (List.mem_filter.mp he).1

theorem ratio_mono (a b t : Nat) (h : a ≤ b) : ratio a t ≤ ratio b t := by
  unfold ratio; split
  · exact le_refl _
  · exact div_le_div_of_nonneg_right (by exact_mod_cast h) (Nat.cast_nonneg t)

/-- every ratio lies in [0, 1] -/
theorem C12_range (p : List DEdge → DEdge → Bool) (es : List DEdge) (m k : Nat) :
    0 ≤ reciprocity p es m k ∧ reciprocity p es m k ≤ 1 := by
  unfold reciprocity ratio
  split
  · simp
  · rename_i ht
    have hle := recCount_le_total p (bounded m es) k
    have hpos : (0 : Rat) < (total (bounded m es) k : Rat) := by
      exact_mod_cast Nat.pos_of_ne_zero ht
    constructor
    · exact div_nonneg (Nat.cast_nonneg _) hpos.le
    · rw [div_le_one hpos]; exact_mod_cast hle

/-- sizes without hyperedges give 0 -/
theorem C12_empty_size (p : List DEdge → DEdge → Bool) (es : List DEdge) (m k : Nat)
    (h : total (bounded m es) k = 0) : reciprocity p es m k = 0 := by
  simp [reciprocity, ratio, h]

/-- sizes outside `2..m` have no hyperedge in the bounded set, so their ratio is 0 -/
theorem C12_outside_bound (p : List DEdge → DEdge → Bool) (es : List DEdge) (m k : Nat)
    (hk : k < 2 ∨ m < k) : reciprocity p es m k = 0 := by
  apply C12_empty_size
  unfold total ofSize bounded
  rw [List.length_eq_zero_iff, List.filter_filter, List.filter_eq_nil_iff]
  intro e _
  simp only [Bool.and_eq_true, beq_iff_eq, decide_eq_true_eq, not_and]
  omega

/-- exact ≤ strong ≤ weak, for every size, whenever every hyperedge has non-empty sides -/
theorem C12_order (es : List DEdge) (m k : Nat)
    (hne : ∀ e ∈ es, e.1 ≠ [] ∧ e.2 ≠ []) :
    reciprocity isExact es m k ≤ reciprocity isStrong es m k ∧
    reciprocity isStrong es m k ≤ reciprocity isWeak es m k := by
  have hb : ∀ e ∈ bounded m es, e.1 ≠ [] ∧ e.2 ≠ [] := fun e he => hne e (List.mem_filter.mp he).1
  constructor
  · exact ratio_mono _ _ _ (recCount_mono _ _ _ _ fun e he h => C12_exact_imp_strong _ e (hb e he).2 h)
  · exact ratio_mono _ _ _ (recCount_mono _ _ _ _ fun e he h => C12_strong_imp_weak _ e (hb e he).1 h)

/-- the table has exactly one entry per size `2..m` -/
theorem C12_table_keys (p : List DEdge → DEdge → Bool) (es : List DEdge) (m : Nat) :
    (reciprocityTable p es m).map (·.1) = (List.range (m + 1)).filter (2 ≤ ·) := by
  simp [reciprocityTable, List.map_map, Function.comp_def]

/-! ## degrees -/

/-- in-degree counts the hyperedges (passing the filter) in which the node is a source -/
theorem C12_in_degree (es : List DEdge) (size : Option Nat) (n : Nat) :
    inDegree es size n = es.countP (fun e => decide (n ∈ e.1) && passes size e) := by
  simp [inDegree, List.countP_eq_length_filter]

theorem C12_out_degree (es : List DEdge) (size : Option Nat) (n : Nat) :
    outDegree es size n = es.countP (fun e => decide (n ∈ e.2) && passes size e) := by
  simp [outDegree, List.countP_eq_length_filter]

/-- the sequences list every node exactly once, in node order, with its degree -/
theorem C12_sequences (nodes : List Nat) (es : List DEdge) (size : Option Nat) :
    (inDegreeSeq nodes es size).map (·.1) = nodes ∧ (outDegreeSeq nodes es size).map (·.1) = nodes ∧
    (∀ p ∈ inDegreeSeq nodes es size, p.2 = inDegree es size p.1) ∧
    (∀ p ∈ outDegreeSeq nodes es size, p.2 = outDegree es size p.1) := by
  refine ⟨by simp [inDegreeSeq, List.map_map, Function.comp_def],
          by simp [outDegreeSeq, List.map_map, Function.comp_def], ?_, ?_⟩
  · intro p hp; simp only [inDegreeSeq, List.mem_map] at hp; obtain ⟨n, _, rfl⟩ := hp; rfl
  · intro p hp; simp only [outDegreeSeq, List.mem_map] at hp; obtain ⟨n, _, rfl⟩ := hp; rfl

/-! ## signature -/

/-- cell `(a, b)` (1-based source and target sizes, `a + b ≤ m`) counts exactly the hyperedges of
that shape -/
theorem C12_signature_cell (es : List DEdge) (m a b : Nat) (ha : 1 ≤ a) (hb : 1 ≤ b) (hab : a + b ≤ m)
    (hne : ∀ e ∈ es, e.1 ≠ [] ∧ e.2 ≠ []) :
    (signature es m)[(a - 1) * (m - 1) + (b - 1)]? =
      some (es.countP (fun e => e.1.length == a && e.2.length == b)) := by
  have hidx : (a - 1) * (m - 1) + (b - 1) < (m - 1) * (m - 1) := by
    have h1 : a - 1 + 1 ≤ m - 1 := by omega
    have h2 : b - 1 < m - 1 := by omega
    calc (a - 1) * (m - 1) + (b - 1) < (a - 1) * (m - 1) + (m - 1) := by omega
      _ = (a - 1 + 1) * (m - 1) := by rw [Nat.add_mul, Nat.one_mul]
      _ ≤ (m - 1) * (m - 1) := Nat.mul_le_mul_right _ h1
  simp only [signature, List.getElem?_map, List.getElem?_range hidx, Option.map_some]
  congr 1
  rw [← List.countP_eq_length_filter, List.countP_filter]
  apply List.countP_congr
  intro e he
  have hl1 : 1 ≤ e.1.length := List.length_pos_iff.mpr (hne e he).1
  have hl2 : 1 ≤ e.2.length := List.length_pos_iff.mpr (hne e he).2
  simp only [cellIndex, esize, Bool.and_eq_true, beq_iff_eq]
  constructor
  · rintro ⟨hcell, hsz⟩
    have hsz := of_decide_eq_true hsz
    have h2 : e.2.length - 1 < m - 1 := by omega
    have h2' : b - 1 < m - 1 := by omega
    have hmpos : 0 < m - 1 := by omega
    have hq : (e.1.length - 1) = (a - 1) := by
      have := congrArg (· / (m - 1)) hcell
      simp only [Nat.mul_comm _ (m - 1)] at this
      rwa [Nat.mul_add_div hmpos, Nat.mul_add_div hmpos, Nat.div_eq_of_lt h2, Nat.div_eq_of_lt h2',
        Nat.add_zero, Nat.add_zero] at this
    have hr : e.2.length - 1 = b - 1 := by rw [hq] at hcell; omega
    omega
  · rintro ⟨h1, h2⟩; subst h1; subst h2; exact ⟨rfl, decide_eq_true hab⟩

theorem countP_lt_succ (sel : List DEdge) (f : DEdge → Nat) (n : Nat) :
    sel.countP (fun e => f e < n) + sel.countP (fun e => f e == n) = sel.countP (fun e => f e < n + 1) := by
  induction sel with
  | nil => simp
  | cons e t iht =>
    simp only [List.countP_cons]
    by_cases h1 : f e < n
    · have : ¬ f e = n := by omega
      have h3 : f e < n + 1 := by omega
      simp [h1, this, h3]; omega
    · by_cases h2 : f e = n
      · simp [h2]; omega
      · have h3 : ¬ f e < n + 1 := by omega
        simp [h1, h2, h3]; omega

theorem sum_cells (sel : List DEdge) (f : DEdge → Nat) (n : Nat) :
    ((List.range n).map (fun idx => (sel.filter (fun e => f e == idx)).length)).sum
      = sel.countP (fun e => f e < n) := by
  induction n with
  | zero => simp
  | succ n ih =>
    rw [List.range_succ, List.map_append, List.sum_append, ih]
    simp only [List.map_cons, List.map_nil, List.sum_cons, List.sum_nil, Nat.add_zero]
    rw [← List.countP_eq_length_filter]
    exact countP_lt_succ sel f n

/-- the cells sum to the number of hyperedges of total size at most the bound -/
theorem C12_signature_sum (es : List DEdge) (m : Nat)
    (hne : ∀ e ∈ es, e.1 ≠ [] ∧ e.2 ≠ []) :
    (signature es m).sum = es.countP (fun e => esize e ≤ m) := by
  simp only [signature]
  rw [sum_cells, List.countP_filter]
  apply List.countP_congr
  intro e he
  have hl1 : 1 ≤ e.1.length := List.length_pos_iff.mpr (hne e he).1
  have hl2 : 1 ≤ e.2.length := List.length_pos_iff.mpr (hne e he).2
  simp only [cellIndex, esize, Bool.and_eq_true]
  constructor
  · rintro ⟨_, h⟩; exact h
  · intro h
    have h' := of_decide_eq_true h
    refine ⟨decide_eq_true ?_, h⟩
    have h1 : e.1.length - 1 + 1 ≤ m - 1 := by omega
    have h2 : e.2.length - 1 < m - 1 := by omega
    calc (e.1.length - 1) * (m - 1) + (e.2.length - 1) < (e.1.length - 1) * (m - 1) + (m - 1) := by omega
      _ = (e.1.length - 1 + 1) * (m - 1) := by rw [Nat.add_mul, Nat.one_mul]
      _ ≤ (m - 1) * (m - 1) := Nat.mul_le_mul_right _ h1

/-! ## non-vacuity: a concrete hypergraph on which the three ratios are pairwise different -/
example :
    let es : List DEdge := [([1], [2]), ([2], [1]), ([1], [3]), ([3, 7], [1]), ([5], [6]), ([4], [5])]
    (∀ e ∈ es, e.1 ≠ [] ∧ e.2 ≠ []) ∧
    recCount isExact (bounded 3 es) 2 < recCount isStrong (bounded 3 es) 2 ∧
    recCount isStrong (bounded 3 es) 3 < recCount isWeak (bounded 3 es) 3 ∧
    total (bounded 3 es) 2 = 5 ∧ total (bounded 3 es) 3 = 1 := by
  decide
