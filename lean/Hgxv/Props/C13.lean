import Hgxv.Proofs.C13
import Hgxv.Proofs.C13Relabel
import Hgxv.Proofs.C13Ext
import Hgxv.Proofs.C13Layer
import Hgxv.Proofs.C13Obj
/-! # C13 — configuration models preserve every node's degree and every hyperedge size

Theorems about the model `Hgxv/Model/C13.lean` of `generation/configuration_model.py`
(`label ∈ {'edge','stub'}`) and `generation/directed_configuration_model.py`.

Every statement is for **all** lists of draws (`ds`): the random choices of the Python code are the
elements of that list, so the theorems cover every seed and every execution that returns
(`= .ok _`; `.error .diverge` is an exhausted draw list, `.error .raise` an exception of the code).

Hypotheses used, and why the real code guarantees them:
* `hnd : ∀ e ∈ es, e.Nodup` — a stored hyperedge is a node *set* (the property's quantifier;
  `Hypergraph` stores the sorted tuple of the nodes it was given);
* `hdist : es.Nodup` (only `C13_restricted`) — `Hypergraph.get_edges()` lists the keys of a dict.

Observables: `degK es n k` = number of hyperedges of size `k` containing `n`, `deg es n` = number of
hyperedges containing `n`, `sizes es` = list of sizes, `incidences es` = all (node, size) pairs and
`stubs es` = all node occurrences, with multiplicity. -/
open C13

/-! ## `__pairwise_reshuffle`, for every coin list -/

/-- both sizes are kept, both results are duplicate-free, the nodes are redistributed -/
theorem C13_reshuffle (f1 f2 : Edge) (ds : List Draw) (g1 g2 : Edge) (ds' : List Draw)
    (h : reshuffle f1 f2 ds = .ok (g1, g2, ds')) (h1 : f1.Nodup) (h2 : f2.Nodup) :
    g1.length = f1.length ∧ g2.length = f2.length ∧ g1.Nodup ∧ g2.Nodup ∧
      (g1 ++ g2).Perm (f1 ++ f2) := by
  have g := reshuffle_good f1 f2 ds g1 g2 ds' h h1 h2
  refine ⟨g.len1, g.len2, g.nd1, g.nd2, List.perm_iff_count.mpr fun a => ?_⟩
  rw [List.count_append, List.count_append]; exact g.cnt a

example : reshuffle [0, 1, 2] [1, 3] [.coin false, .coin true] = .ok ([1, 2, 3], [0, 1], [.coin true]) := rfl

/-! ## one Metropolis step `mh_step`, for every draw list -/

/-- the list of sizes is unchanged position by position -/
theorem C13_step_sizes (detailed : Bool) (es : List Edge) (ds : List Draw) (es' : List Edge)
    (ds' : List Draw) (h : mhStep detailed es ds = .ok (es', ds')) (hnd : ∀ e ∈ es, e.Nodup) :
    sizes es' = sizes es := (mhStep_inv detailed es ds es' ds' h hnd).2.1

/-- hyperedges stay duplicate-free -/
theorem C13_step_nodup (detailed : Bool) (es : List Edge) (ds : List Draw) (es' : List Edge)
    (ds' : List Draw) (h : mhStep detailed es ds = .ok (es', ds')) (hnd : ∀ e ∈ es, e.Nodup) :
    ∀ e ∈ es', e.Nodup := (mhStep_inv detailed es ds es' ds' h hnd).1

/-- the multiset of stubs is always unchanged; with `detailed` (the two sizes are equal) so is the
multiset of (node, size) incidences -/
theorem C13_step_incidences (detailed : Bool) (es : List Edge) (ds : List Draw) (es' : List Edge)
    (ds' : List Draw) (h : mhStep detailed es ds = .ok (es', ds')) (hnd : ∀ e ∈ es, e.Nodup) :
    (stubs es').Perm (stubs es) ∧ (detailed = true → (incidences es').Perm (incidences es)) :=
  (mhStep_inv detailed es ds es' ds' h hnd).2.2

-- a step that rejects the pair (0,2) of unequal sizes, accepts (0,1) and moves nodes
example : mhStep true [[0, 1], [2, 3], [0, 2, 4]]
    [.idx 0 2, .idx 0 1, .coin true, .coin false, .coin false, .coin true]
    = .ok ([[0, 3], [1, 2], [0, 2, 4]], [.coin true]) := rfl
-- not detailed: a pair of different sizes exchanges nodes, the per-size incidences do change
example : mhStep false [[0, 1], [1, 2, 3], [2, 4]] [.idx 1 2, .coin true, .coin false, .coin false]
    = .ok ([[0, 1], [1, 2, 4], [2, 3]], [.coin false]) := rfl

/-! ## the chain `while n < n_steps: mh_step()` -/

/-- after any number of steps: duplicate-free hyperedges, the same sizes position by position, every
node's degree unchanged, and with `detailed` every node's degree at every size unchanged -/
theorem C13_chain (detailed : Bool) (n : Nat) (es : List Edge) (ds : List Draw) (es' : List Edge)
    (ds' : List Draw) (h : chain detailed n es ds = .ok (es', ds')) (hnd : ∀ e ∈ es, e.Nodup) :
    (∀ e ∈ es', e.Nodup) ∧ sizes es' = sizes es ∧
      (stubs es').Perm (stubs es) ∧ (∀ x, deg es' x = deg es x) ∧
      (detailed = true → (incidences es').Perm (incidences es) ∧ ∀ x k, degK es' x k = degK es x k) := by
  obtain ⟨nd', sz, st, inc⟩ := chain_inv detailed n es ds es' ds' h hnd
  refine ⟨nd', sz, st, fun x => ?_, fun hd => ⟨inc hd, fun x k => ?_⟩⟩
  · rw [deg_eq_count es' nd', deg_eq_count es hnd]; exact st.count_eq x
  · rw [degK_eq_count es' nd', degK_eq_count es hnd]; exact (inc hd).count_eq (x, k)

example : chain true 2 [[0, 1], [2, 3], [0, 2]]
    [.idx 0 1, .coin true, .coin false, .coin false, .idx 2 0, .coin true]
    = .ok ([[0, 3], [1, 2], [0, 2]], []) := rfl

/-! ## the returned hypergraph merges coinciding hyperedges -/

/-- for every listing `F`: the merged listing has distinct members, the same members, never a higher
degree, and when nothing was merged it is `F` itself -/
theorem C13_dedupe (F : List Edge) :
    (dedup F).Nodup ∧ (∀ e, e ∈ dedup F ↔ e ∈ F) ∧
      (∀ x k, degK (dedup F) x k ≤ degK F x k) ∧ (∀ x, deg (dedup F) x ≤ deg F x) ∧
      ((dedup F).length = F.length → dedup F = F) :=
  ⟨dedup_nodup F, mem_dedup F, fun _ _ => (dedup_sublist F).countP_le,
    fun _ => (dedup_sublist F).countP_le, dedup_eq_of_length F⟩

example : dedup [[0, 3], [1, 2], [0, 3]] = [[1, 2], [0, 3]] := rfl

/-! ## `configuration_model(h, n_steps, label)`, plain call -/

/-- `detailed=True`: the result is a valid hypergraph (distinct duplicate-free hyperedges) in which no
node has a higher degree at any size; when the number of hyperedges is preserved every node has exactly
its original degree at every size and the multiset of sizes is unchanged -/
theorem C13_detailed (label : Label) (n : Nat) (es : List Edge) (ds : List Draw) (out : List Edge)
    (h : configurationModel label true none n es ds = .ok out) (hnd : ∀ e ∈ es, e.Nodup) :
    out.Nodup ∧ (∀ e ∈ out, e.Nodup) ∧ out.length ≤ es.length ∧
      (∀ x k, degK out x k ≤ degK es x k) ∧
      (out.length = es.length → (∀ x k, degK out x k = degK es x k) ∧ (sizes out).Perm (sizes es)) := by
  have P := cmMCMC_preserved label true n es ds out h hnd
  exact ⟨P.distinct, P.edgesNodup, P.len_le, P.degK_le rfl, fun hl => ⟨P.degK_eq hl rfl, P.sizes_eq hl⟩⟩

/-- any `detailed`: only the total degree and the size multiset are claimed -/
theorem C13_not_detailed (label : Label) (detailed : Bool) (n : Nat) (es : List Edge) (ds : List Draw)
    (out : List Edge) (h : configurationModel label detailed none n es ds = .ok out)
    (hnd : ∀ e ∈ es, e.Nodup) :
    out.Nodup ∧ (∀ e ∈ out, e.Nodup) ∧ out.length ≤ es.length ∧
      (∀ x, deg out x ≤ deg es x) ∧
      (out.length = es.length → (∀ x, deg out x = deg es x) ∧ (sizes out).Perm (sizes es)) := by
  have P := cmMCMC_preserved label detailed n es ds out h hnd
  exact ⟨P.distinct, P.edgesNodup, P.len_le, P.deg_le, fun hl => ⟨P.deg_eq hl, P.sizes_eq hl⟩⟩

/-- the returned listing is canonical: every hyperedge is the strictly increasing tuple of its node
set and no two listed hyperedges have the same node set (coinciding hyperedges were merged), so
"the output has as many hyperedges as the input" means exactly that no two reshuffled hyperedges
coincided -/
theorem C13_canonical (label : Label) (detailed : Bool) (n : Nat) (es : List Edge) (ds : List Draw)
    (out : List Edge) (h : configurationModel label detailed none n es ds = .ok out)
    (hnd : ∀ e ∈ es, e.Nodup) :
    (∀ e ∈ out, e.Pairwise (· < ·)) ∧
      out.Pairwise (fun e1 e2 => ¬ ∀ x, x ∈ e1 ↔ x ∈ e2) := by
  have P := cmMCMC_preserved label detailed n es ds out h hnd
  refine ⟨P.sorted, ?_⟩
  have hd := P.distinct
  have hall : out.Pairwise (fun e1 e2 => e1 ∈ out ∧ e2 ∈ out) :=
    List.pairwise_of_forall_mem_list (fun a ha b hb => ⟨ha, hb⟩)
  exact List.Pairwise.imp₂ (fun e1 e2 hne hmem hset =>
    hne (strict_ext (P.sorted e1 hmem.1) (P.sorted e2 hmem.2) hset)) hd hall

/-- the theorems speak of the runs that return; for every non-empty input and every number of steps
such runs exist (e.g. when every drawn pair is `(0, 0)`), so their hypotheses are never vacuous.
Termination of *all* runs is false (`.diverge` example below): the resampling loop stops with
probability one only. -/
theorem C13_returns (label : Label) (detailed : Bool) (n : Nat) (es : List Edge)
    (hne : es ≠ []) (hnd : ∀ e ∈ es, e.Nodup) :
    ∃ ds out, configurationModel label detailed none n es ds = .ok out := by
  obtain ⟨es', h⟩ := chain_returns detailed n es [] hne hnd
  refine ⟨List.replicate n (.idx 0 0) ++ [], dedup (es'.map sortNodes), ?_⟩
  cases label <;> simp only [configurationModel, cmMCMC, stubEdgeMH, h]

-- two steps, number of hyperedges preserved, hyperedges changed
example : configurationModel .edge true none 2 [[0, 1], [2, 3], [0, 2]]
    [.idx 0 1, .coin true, .coin false, .coin false, .idx 2 0, .coin true]
    = .ok [[0, 3], [1, 2], [0, 2]] := rfl
-- one step after which two hyperedges coincide: node 0 and node 3 lose one unit of degree
example : configurationModel .stub true none 1 [[0, 1], [2, 3], [0, 3]]
    [.idx 0 1, .coin true, .coin false, .coin false] = .ok [[1, 2], [0, 3]] := rfl
example : degK [[1, 2], [0, 3]] 0 2 < degK [[0, 1], [2, 3], [0, 3]] 0 2 := by decide
example : configurationModel .stub false none 1 [[0, 1], [1, 2, 3], [2, 4]]
    [.idx 1 2, .coin true, .coin false, .coin false] = .ok [[0, 1], [1, 2, 4], [2, 3]] := rfl
-- the resampling loop can exhaust any finite draw list (stated limit)
example : configurationModel .edge true none 1 [[0, 1], [1, 2, 3]] [.idx 0 1, .idx 1 0, .idx 0 1]
    = .error .diverge := rfl

/-! ## `configuration_model(h, ..., size=s)` / `order=s-1` -/

/-- hyperedges of the other sizes are returned intact (and nothing else of those sizes); for the
reshuffled size the claims of the plain call hold, so they hold for the whole hypergraph -/
theorem C13_restricted (label : Label) (detailed : Bool) (s n : Nat) (es : List Edge) (ds : List Draw)
    (out : List Edge) (h : configurationModel label detailed (some s) n es ds = .ok out)
    (hdist : es.Nodup) (hnd : ∀ e ∈ es, e.Nodup) :
    out.filter (fun e => e.length != s) = es.filter (fun e => e.length != s) ∧
      out.Nodup ∧ out.length ≤ es.length ∧
      (∀ x, deg out x ≤ deg es x) ∧ (detailed = true → ∀ x k, degK out x k ≤ degK es x k) ∧
      (out.length = es.length →
        (∀ x, deg out x = deg es x) ∧ (sizes out).Perm (sizes es) ∧
        (detailed = true → ∀ x k, degK out x k = degK es x k)) := by
  obtain ⟨out0, P, hsz, rfl⟩ := restricted_spec label detailed s n es ds out h hdist hnd
  have hf0 : out0.filter (fun e => e.length != s) = [] :=
    List.filter_eq_nil_iff.mpr (fun e he => by simp [hsz e he])
  have hlen := length_split (fun e : Edge => e.length == s) es
  have hne : (fun e : Edge => !(e.length == s)) = (fun e : Edge => e.length != s) := rfl
  rw [hne] at hlen
  have hP := P.len_le
  refine ⟨?_, ?_, ?_, ?_, ?_, ?_⟩
  · rw [List.filter_append, hf0, List.filter_filter]; simp
  · refine List.nodup_append.mpr ⟨P.distinct, hdist.sublist List.filter_sublist, ?_⟩
    intro a ha b hb hab
    subst hab
    have := (List.mem_filter.mp hb).2
    simp [hsz a ha] at this
  · rw [List.length_append]; omega
  · intro x
    have := countP_split (fun e : Edge => e.contains x) (fun e : Edge => e.length == s) es
    rw [hne] at this
    have := P.deg_le x
    simp only [deg, List.countP_append] at *
    omega
  · intro hd x k
    have := countP_split (fun e : Edge => e.length == k && e.contains x) (fun e : Edge => e.length == s) es
    rw [hne] at this
    have := P.degK_le hd x k
    simp only [degK, List.countP_append] at *
    omega
  · intro hl
    rw [List.length_append] at hl
    have hl0 : out0.length = (es.filter (fun e => e.length == s)).length := by omega
    refine ⟨?_, ?_, ?_⟩
    · intro x
      have := countP_split (fun e : Edge => e.contains x) (fun e : Edge => e.length == s) es
      rw [hne] at this
      have := P.deg_eq hl0 x
      simp only [deg, List.countP_append] at *
      omega
    · have hs := P.sizes_eq hl0
      simp only [sizes, List.map_append] at *
      refine (List.Perm.append_right _ hs).trans ?_
      rw [← List.map_append]
      exact List.Perm.map _ (filter_split_perm (fun e : Edge => e.length == s) es)
    · intro hd x k
      have := countP_split (fun e : Edge => e.length == k && e.contains x) (fun e : Edge => e.length == s) es
      rw [hne] at this
      have := P.degK_eq hl0 hd x k
      simp only [degK, List.countP_append] at *
      omega

example : configurationModel .stub true (some 2) 1 [[0, 1], [1, 2, 3], [2, 3]]
    [.idx 0 1, .coin true, .coin false, .coin false] = .ok [[0, 3], [1, 2], [1, 2, 3]] := rfl
-- `size=` absent from the hypergraph: `np.random.randint(0, 0, 2)` raises
example : configurationModel .stub true (some 4) 1 [[0, 1], [1, 2, 3], [2, 3]] [.idx 0 1]
    = .error .raise := rfl

/-! ## `directed_configuration_model`, for every draw list

Hypothesis `hnd`: both sides of a stored hyperedge are node sets (duplicate-free tuples).
`outDeg es x` = number of hyperedges with `x` in the source set, `inDeg es x` = with `x` in the
target set, `shapes es` = list of (source size, target size). -/

/-- one iteration of either loop keeps the sides duplicate-free, the shapes position by position and
the multisets of source stubs and target stubs -/
theorem C13_directed_step (tgt : Bool) (es : List DEdge) (ds : List Nat) (es' : List DEdge) (ds' : List Nat)
    (h : swapStep tgt es ds = .ok (es', ds')) (hnd : ∀ e ∈ es, e.1.Nodup ∧ e.2.Nodup) :
    (∀ e ∈ es', e.1.Nodup ∧ e.2.Nodup) ∧ shapes es' = shapes es ∧
      (srcStubs es').Perm (srcStubs es) ∧ (tgtStubs es').Perm (tgtStubs es) := by
  have I := swapStep_inv tgt es ds es' ds' h hnd
  exact ⟨I.nd, I.shp, I.src, I.tgt⟩

example : swapStep false [([0, 1], [2]), ([2], [3, 4])] [0, 1, 1, 0] = .ok ([([0, 2], [2]), ([1], [3, 4])], []) := rfl
-- first refusal test: node 1 is already in the other source set
example : swapStep false [([0, 1], [2]), ([1], [3, 4])] [0, 1, 0, 0] = .ok ([([0, 1], [2]), ([1], [3, 4])], []) := rfl

/-- the returned hypergraph has distinct hyperedges in canonical form (both sides strictly increasing
tuples, so distinct as pairs of node sets), not more than the input, and no node has a
higher out-degree (source side) or in-degree (target side) -/
theorem C13_directed_never_more (es : List DEdge) (ds : List Nat) (out : List DEdge)
    (h : directedCM es ds = .ok out) (hnd : ∀ e ∈ es, e.1.Nodup ∧ e.2.Nodup) :
    out.Nodup ∧ (∀ e ∈ out, e.1.Pairwise (· < ·) ∧ e.2.Pairwise (· < ·)) ∧ out.length ≤ es.length ∧
      (∀ x, outDeg out x ≤ outDeg es x) ∧ (∀ x, inDeg out x ≤ inDeg es x) := by
  have P := directedCM_preserved es ds out h hnd
  exact ⟨P.distinct, P.sorted, P.len_le, P.out_le, P.in_le⟩

/-- when the number of hyperedges is preserved, every node keeps its out- and in-degree and the
multiset of (source size, target size) shapes is unchanged -/
theorem C13_directed_preserved (es : List DEdge) (ds : List Nat) (out : List DEdge)
    (h : directedCM es ds = .ok out) (hnd : ∀ e ∈ es, e.1.Nodup ∧ e.2.Nodup)
    (hlen : out.length = es.length) :
    (∀ x, outDeg out x = outDeg es x) ∧ (∀ x, inDeg out x = inDeg es x) ∧
      (shapes out).Perm (shapes es) := by
  have P := directedCM_preserved es ds out h hnd
  exact ⟨P.out_eq hlen, P.in_eq hlen, P.shapes_eq hlen⟩

/-- for every non-empty input there are returning runs (no side is touched when `id1 = id2`) -/
theorem C13_directed_returns (es : List DEdge) (hne : es ≠ []) :
    ∃ ds out, directedCM es ds = .ok out := by
  refine ⟨List.replicate (2 * (es.length * 10)) 0 ++ (List.replicate (2 * (es.length * 10)) 0 ++ []),
    dedup (es.map sortSides), ?_⟩
  simp only [directedCM, swapLoop_returns _ _ es _ hne]

-- a run with one source swap and one target swap between hyperedges of different shapes
example : directedCM [([0, 1], [2]), ([2], [3, 4])]
    ([0, 1, 1, 0] ++ List.replicate 38 0 ++ [1, 0, 0, 0] ++ List.replicate 38 1)
    = .ok [([0, 2], [3]), ([1], [2, 4])] := rfl
-- a run after which two hyperedges coincide: node 1 loses one unit of out-degree
example : directedCM [([0], [2]), ([1], [2]), ([1], [3])]
    (List.replicate 60 0 ++ [0, 2, 0, 0] ++ List.replicate 58 0) = .ok [([0], [3]), ([1], [2])] := rfl
example : outDeg [([0], [3]), ([1], [2])] 1 < outDeg [([0], [2]), ([1], [2]), ([1], [3])] 1 := by decide
-- `random.choice` of an empty side raises
example : directedCM [([0], [1]), ([], [1])] [0, 1, 0] = .error .raise := rfl

/-! ## the node labels enter only through their order

The correspondence check hands the model the RANK of every label in sorted order (the labels of the real runs
are ints of any magnitude, floats, strings, tuples; weights and metadata of the input are not arguments of the
model at all: it is a function of the hyperedge listing the object has when the call is made).  The two theorems say
that this abstraction loses nothing: for EVERY strictly increasing relabelling `f` and every draw list the run
on the relabelled input has the same outcome kind, and a returned hypergraph is the relabelled one.  Hypothesis
`hf` is exactly "order isomorphism onto its image" (what `sorted`, `==` and `in` of the Python code can see). -/

theorem C13_relabel (f : Nat → Nat) (hf : ∀ a b, a < b → f a < f b) (label : Label) (detailed : Bool)
    (size : Option Nat) (n : Nat) (es : List Edge) (ds : List Draw) :
    (∀ out, configurationModel label detailed size n es ds = .ok out →
        configurationModel label detailed size n (es.map (·.map f)) ds = .ok (out.map (·.map f))) ∧
    (∀ e, configurationModel label detailed size n es ds = .error e →
        configurationModel label detailed size n (es.map (·.map f)) ds = .error e) := by
  have h := configurationModel_map (f := f) hf label detailed size n es ds
  constructor
  · intro out ho; rw [ho] at h; exact h
  · intro e he; rw [he] at h; exact h

theorem C13_directed_relabel (f : Nat → Nat) (hf : ∀ a b, a < b → f a < f b) (es : List DEdge) (ds : List Nat) :
    (∀ out, directedCM es ds = .ok out →
        directedCM (es.map fun e => (e.1.map f, e.2.map f)) ds = .ok (out.map fun e => (e.1.map f, e.2.map f))) ∧
    (∀ e, directedCM es ds = .error e →
        directedCM (es.map fun e => (e.1.map f, e.2.map f)) ds = .error e) := by
  have h := directedCM_map (f := f) hf es ds
  constructor
  · intro out ho; rw [ho] at h; exact h
  · intro e he; rw [he] at h; exact h

-- non-vacuity: `v ↦ 10 v + 3` is strictly increasing; the run of the `chain` example on ranks and on the stretched labels
example : ∀ a b : Nat, a < b → 10 * a + 3 < 10 * b + 3 := by intro a b h; omega
example : configurationModel .edge true none 2 [[0, 1], [2, 3], [0, 2]]
    [.idx 0 1, .coin true, .coin false, .coin false, .idx 2 0, .coin true] = .ok [[0, 3], [1, 2], [0, 2]] := rfl
example : configurationModel .edge true none 2 [[3, 13], [23, 33], [3, 23]]
    [.idx 0 1, .coin true, .coin false, .coin false, .idx 2 0, .coin true] = .ok [[3, 33], [13, 23], [3, 23]] := rfl
-- the hypothesis is needed: `0 ↦ 5` (not increasing) changes the order in which the nodes are dealt out; the run on
-- `[[0,1],[2,3]]` returns `[[0,3],[1,2]]`, whose image is `{5,3},{1,2}`, the run on the relabelled listing does not
example : configurationModel .edge true none 1 [[0, 1], [2, 3]] [.idx 0 1, .coin true, .coin false, .coin false]
    = .ok [[0, 3], [1, 2]] := rfl
example : configurationModel .edge true none 1 [[1, 5], [2, 3]] [.idx 0 1, .coin true, .coin false, .coin false]
    = .ok [[1, 3], [2, 5]] := rfl
example : directedCM [([3, 13], [23]), ([23], [33, 43])]
    ([0, 1, 1, 0] ++ List.replicate 38 0 ++ [1, 0, 0, 0] ++ List.replicate 38 1)
    = .ok [([3, 23], [33]), ([13], [23, 43])] := rfl

/-! ## Extension round: the entry point, the returned object, the accounting of the draws

`Model/C13Ext.lean`: `cmCall` (argument handling of `configuration_model(..., order=, size=)`), `cmReport` /
`dcmReport` (the same runs, reporting also the node set of the returned object and how many draws of each kind the
run consumed).  `Rejected detailed es d` = the drawn pair `d` was thrown away by `while len(f1) != len(f2)`. -/

/-- the entry point: `order` and `size` together are refused for every input, every draw list, before anything is
drawn; `order=o` is `size=o+1`; without `order` the call is the model `configurationModel` all theorems above speak
of — so every one of them holds for the public function with either spelling -/
theorem C13_call (label : Label) (detailed : Bool) (n : Nat) (es : List Edge) (ds : List Draw) :
    (∀ o s, cmCall label detailed (some o) (some s) n es ds = .error .raise) ∧
    (∀ o, cmCall label detailed (some o) none n es ds = configurationModel label detailed (some (o + 1)) n es ds) ∧
    (∀ size, cmCall label detailed none size n es ds = configurationModel label detailed size n es ds) :=
  ⟨fun _ _ => rfl, fun _ => rfl, fun size => cmCall_none label detailed size n es ds⟩

-- `order=0` reshuffles the singletons (size 1): positions are exchanged, the hyperedge of size 2 is intact
example : cmCall .edge true (some 0) none 1 [[0], [1], [0, 1]] [.idx 0 1, .coin false] = .ok [[1], [0], [0, 1]] := rfl
example : cmCall .edge true (some 1) (some 2) 1 [[0, 1], [2, 3]] [] = .error .raise := rfl

/-- the reports are the old models plus bookkeeping: their hyperedge listing is what `cmCall` / `directedCM`
answer, for every input and draw list, error outcomes included -/
theorem C13_report_refines :
    (∀ label detailed order size n es ds,
      (cmReport label detailed order size n es ds).map (·.edges) = cmCall label detailed order size n es ds) ∧
    (∀ es ds, (dcmReport es ds).map (·.edges) = directedCM es ds) :=
  ⟨cmReport_edges, dcmReport_edges⟩

example : cmReport .edge true none none 2 [[0, 1], [2, 3], [0, 2]]
    [.idx 0 1, .coin true, .coin false, .coin false, .idx 2 0, .coin true, .coin true]
    = .ok { edges := [[0, 3], [1, 2], [0, 2]], nodes := [0, 1, 2, 3], idx := 2, coins := 4, left := 1 } := rfl

/-- acceptance / rejection accounting of ONE `mh_step`, for every draw list: the step consumes exactly
(the pairs its proposal loop rejects — each a pair of hyperedges of different sizes, and none at all unless
`detailed`) ++ (the accepted pair `i, j`, admissible) ++ (coins only, at most `|f1| + |f2|`), and it rewrites
the listing at the two drawn positions only -/
theorem C13_step_accounting (detailed : Bool) (es : List Edge) (ds : List Draw) (es' : List Edge)
    (ds' : List Draw) (h : mhStep detailed es ds = .ok (es', ds')) :
    ∃ rej i j f1 f2 cs, ds = rej ++ .idx i j :: (cs ++ ds') ∧
      (∀ d ∈ rej, ∃ a b f g, d = .idx a b ∧ es[a]? = some f ∧ es[b]? = some g ∧ f.length ≠ g.length) ∧
      (detailed = false → rej = []) ∧
      es[i]? = some f1 ∧ es[j]? = some f2 ∧ (detailed = true → f1.length = f2.length) ∧
      (∀ c ∈ cs, isCoin c = true) ∧ cs.length ≤ f1.length + f2.length ∧
      es'.length = es.length ∧ (∀ k, k ≠ i → k ≠ j → es'[k]? = es[k]?) := by
  obtain ⟨rej, i, j, f1, f2, cs, g1, g2, e0, hrej, hi, hj, hadm, hcs, hlen, rfl⟩ := mhStep_used _ _ _ _ _ h
  refine ⟨rej, i, j, f1, f2, cs, e0, fun d hd => (hrej d hd).sizes, ?_, hi, hj, ?_, hcs, hlen, by simp, ?_⟩
  · intro hd
    cases rej with
    | nil => rfl
    | cons d t =>
      have := (hrej d List.mem_cons_self).detailed
      rw [hd] at this
      cases this
  · intro hd
    simpa [admissible, hd] using hadm
  · intro k hki hkj
    rw [List.getElem?_set_ne (Ne.symm hkj), List.getElem?_set_ne (Ne.symm hki)]

-- the step of the example above: one rejected pair (sizes 2 and 3), the accepted pair, three coins, one draw left
example : mhStep true [[0, 1], [2, 3], [0, 2, 4]]
    [.idx 0 2, .idx 0 1, .coin true, .coin false, .coin false, .coin true]
    = .ok ([[0, 3], [1, 2], [0, 2, 4]], [.coin true]) := rfl

/-- accounting of the chain, for every step count and every draw list: the consumed draws are a prefix of the
list; they contain at least `n_steps` index pairs (one accepted pair per step, the surplus are rejections) —
exactly `n_steps` unless `detailed` — and at most `2 · (largest size)` coins per step -/
theorem C13_chain_accounting (detailed : Bool) (n : Nat) (es : List Edge) (ds : List Draw) (es' : List Edge)
    (ds' : List Draw) (h : chain detailed n es ds = .ok (es', ds')) (hnd : ∀ e ∈ es, e.Nodup) :
    ∃ used, ds = used ++ ds' ∧ n ≤ used.countP isIdx ∧ (detailed = false → used.countP isIdx = n) ∧
      used.countP isCoin ≤ n * (2 * maxSize es) ∧ used.length = used.countP isIdx + used.countP isCoin := by
  obtain ⟨used, a, b, c, d⟩ := chain_used _ _ _ _ _ _ h hnd
  exact ⟨used, a, b, c, d, length_eq_idx_add_coin used⟩

/-- accounting of a whole call (plain, `size=`, `order=`): calls of `randint` + calls of `rand` + unused draws
= the draw list; `n_steps ≤` calls of `randint`, with equality unless `detailed`; the coins are bounded -/
theorem C13_report_accounting (label : Label) (detailed : Bool) (order size : Option Nat) (n : Nat)
    (es : List Edge) (ds : List Draw) (r : Report) (h : cmReport label detailed order size n es ds = .ok r)
    (hnd : ∀ e ∈ es, e.Nodup) :
    r.idx + r.coins + r.left = ds.length ∧ n ≤ r.idx ∧ (detailed = false → r.idx = n) ∧
      r.coins ≤ n * (2 * maxSize es) :=
  cmReport_acct label detailed order size n es ds r h hnd

-- one rejection: 3 calls of randint for 2 steps
example : cmReport .stub true none (some 2) 2 [[0, 1], [2, 3], [0, 2, 4]]
    [.idx 0 1, .coin true, .coin false, .coin false, .idx 1 1]
    = .ok { edges := [[0, 3], [1, 2], [0, 2, 4]], nodes := [0, 1, 2, 3, 4], idx := 2, coins := 3, left := 0 } := rfl
example : cmReport .stub true none none 1 [[0, 1], [2, 3], [0, 2, 4]]
    [.idx 0 2, .idx 0 1, .coin true, .coin false, .coin false]
    = .ok { edges := [[0, 3], [1, 2], [0, 2, 4]], nodes := [0, 1, 2, 3, 4], idx := 2, coins := 3, left := 0 } := rfl

/-- node set and sizes of the returned listing, for every call (plain / `size=`), every step count, every draw
list, whether or not hyperedges were merged: a node occurs in a returned hyperedge iff it occurs in a hyperedge of
the input; no size is more frequent than in the input; hence no empty (degenerate) hyperedge appears unless the
input has one.  (`hdist`: the listing of a `Hypergraph` has distinct members; needed for `size=` only.) -/
theorem C13_nodes_and_sizes (label : Label) (detailed : Bool) (size : Option Nat) (n : Nat) (es : List Edge)
    (ds : List Draw) (out : List Edge) (h : configurationModel label detailed size n es ds = .ok out)
    (hdist : size.isSome = true → es.Nodup) (hnd : ∀ e ∈ es, e.Nodup) :
    (∀ x, x ∈ stubs out ↔ x ∈ stubs es) ∧ (∀ x, 0 < deg out x ↔ 0 < deg es x) ∧
      (∀ k, (sizes out).count k ≤ (sizes es).count k) ∧
      ((∀ e ∈ es, e ≠ []) → ∀ e ∈ out, e ≠ []) := by
  have K := configurationModel_kept label detailed size n es ds out h hdist hnd
  refine ⟨K.nodes, fun x => ?_, K.sizes_le, ?_⟩
  · rw [deg_pos_iff, deg_pos_iff]; exact K.nodes x
  · intro hne e he hnil
    subst hnil
    have h0 : 0 < (sizes out).count 0 := List.count_pos_iff.mpr (List.mem_map.mpr ⟨[], he, rfl⟩)
    have h1 := K.sizes_le 0
    obtain ⟨e0, hm, hl⟩ := List.mem_map.mp (List.count_pos_iff.mp (Nat.lt_of_lt_of_le h0 h1))
    exact hne e0 hm (List.eq_nil_of_length_eq_zero hl)

/-- the node set of the returned OBJECT (`get_nodes()`): strictly increasing, and exactly the nodes of the
input that lie in some hyperedge — isolated nodes of the input are not carried over -/
theorem C13_report_nodes (label : Label) (detailed : Bool) (size : Option Nat) (n : Nat)
    (es : List Edge) (ds : List Draw) (r : Report) (h : cmReport label detailed none size n es ds = .ok r)
    (hdist : size.isSome = true → es.Nodup) (hnd : ∀ e ∈ es, e.Nodup) :
    r.nodes.Pairwise (· < ·) ∧ ∀ x, x ∈ r.nodes ↔ 0 < deg es x := by
  have he := cmReport_edges label detailed none size n es ds
  rw [h, cmCall_none] at he
  have K := configurationModel_kept label detailed size n es ds r.edges he.symm hdist hnd
  obtain ⟨_, _, _, _, _, _, hn, _⟩ := cmReport_ok _ _ _ _ _ _ _ _ h
  rw [hn]
  exact ⟨nodesOf_sorted _, fun x => by rw [mem_nodesOf, deg_pos_iff]; exact K.nodes x⟩

/-- `n_steps = 0`: nothing is drawn, nothing can fail (also when no hyperedge has the requested size), and the
call returns the hyperedges of the input — the listing itself for the plain call -/
theorem C13_zero_steps (label : Label) (detailed : Bool) (size : Option Nat) (es : List Edge) (ds : List Draw)
    (hdist : es.Nodup) (hs : ∀ e ∈ es, e.Pairwise (· < ·)) :
    ∃ out, configurationModel label detailed size 0 es ds = .ok out ∧ out.Perm es ∧ (size = none → out = es) :=
  zero_steps label detailed size es ds hdist hs

example : configurationModel .edge true (some 5) 0 [[0, 1], [1, 2, 3]] [] = .ok [[0, 1], [1, 2, 3]] := rfl
example : configurationModel .edge true (some 3) 0 [[0, 1], [1, 2, 3]] [.coin true] = .ok [[1, 2, 3], [0, 1]] := rfl

/-! ### directed -/

/-- accounting of the swap loops: an iteration consumes two draws and changes nothing when `id1 == id2`, four
otherwise; a loop of `n` iterations consumes a prefix of between `2n` and `4n` draws -/
theorem C13_directed_accounting (tgt : Bool) :
    (∀ es ds es' ds', swapStep tgt es ds = .ok (es', ds') →
      (∃ a, ds = a :: a :: ds' ∧ es' = es) ∨ (∃ a b c d, a ≠ b ∧ ds = a :: b :: c :: d :: ds')) ∧
    (∀ n es ds es' ds', swapLoop tgt n es ds = .ok (es', ds') →
      ∃ used, ds = used ++ ds' ∧ 2 * n ≤ used.length ∧ used.length ≤ 4 * n) :=
  ⟨swapStep_used tgt, swapLoop_used tgt⟩

/-- accounting of a whole directed call with `m` hyperedges: each loop (10·m iterations) consumes between `20 m`
and `40 m` draws, and source draws + target draws + unused draws = the draw list -/
theorem C13_directed_report_accounting (es : List DEdge) (ds : List Nat) (r : DReport)
    (h : dcmReport es ds = .ok r) :
    r.usedSrc + r.usedTgt + r.left = ds.length ∧
      20 * es.length ≤ r.usedSrc ∧ r.usedSrc ≤ 40 * es.length ∧
      20 * es.length ≤ r.usedTgt ∧ r.usedTgt ≤ 40 * es.length :=
  dcmReport_acct es ds r h

example : dcmReport [([0, 1], [2]), ([2], [3, 4])]
    ([0, 1, 1, 0] ++ List.replicate 38 0 ++ [1, 0, 0, 0] ++ List.replicate 38 1 ++ [7])
    = .ok { edges := [([0, 2], [3]), ([1], [2, 4])], nodes := [0, 1, 2, 3, 4], usedSrc := 42, usedTgt := 42,
            left := 1 } := rfl

/-- node sets and shapes of the returned directed listing, for every draw list, merged or not: the set of nodes
that are a source (a target) of some hyperedge is unchanged, no (source size, target size) shape is more frequent
than in the input, and the node set of the returned object is strictly increasing = sources ∪ targets of the input -/
theorem C13_directed_nodes_and_shapes (es : List DEdge) (ds : List Nat) (r : DReport)
    (h : dcmReport es ds = .ok r) (hnd : ∀ e ∈ es, e.1.Nodup ∧ e.2.Nodup) :
    (∀ x, x ∈ srcStubs r.edges ↔ x ∈ srcStubs es) ∧ (∀ x, x ∈ tgtStubs r.edges ↔ x ∈ tgtStubs es) ∧
      (∀ x, 0 < outDeg r.edges x ↔ 0 < outDeg es x) ∧ (∀ x, 0 < inDeg r.edges x ↔ 0 < inDeg es x) ∧
      (∀ p, (shapes r.edges).count p ≤ (shapes es).count p) ∧
      r.nodes.Pairwise (· < ·) ∧ (∀ x, x ∈ r.nodes ↔ x ∈ srcStubs es ∨ x ∈ tgtStubs es) := by
  have he := dcmReport_edges es ds
  rw [h] at he
  have K := directedCM_kept es ds r.edges he.symm hnd
  obtain ⟨_, _, _, _, _, _, _, hn, _⟩ := dcmReport_ok _ _ _ h
  have ho : ∀ (l : List DEdge) x, 0 < outDeg l x ↔ x ∈ srcStubs l := by
    intro l x; unfold outDeg; rw [List.countP_pos_iff, mem_srcStubs]; simp
  have hi : ∀ (l : List DEdge) x, 0 < inDeg l x ↔ x ∈ tgtStubs l := by
    intro l x; unfold inDeg; rw [List.countP_pos_iff, mem_tgtStubs]; simp
  refine ⟨K.src, K.tgt, fun x => ?_, fun x => ?_, K.shapes_le, ?_, fun x => ?_⟩
  · rw [ho, ho]; exact K.src x
  · rw [hi, hi]; exact K.tgt x
  · rw [hn]; exact dnodesOf_sorted _
  · rw [hn, mem_dnodesOf, K.src x, K.tgt x]

/-! ## round f: degenerate layers of the `size=` / `order=` variant

`order` / `size` are the arguments as the caller spelled them (`resolveSize`: `order=o` is the layer of size `o+1`).
Hypotheses: `hdist` — `get_edges()` lists the keys of a dict; `hf` — a stored hyperedge is the sorted tuple of its
nodes; `hempty` / `hsel` — the case distinction itself (the layer is empty / holds exactly `f`). -/

/-- the requested layer is EMPTY (no hyperedge has the requested size — also when hyperedges of size `order` exist):
with `n_steps = 0` the call returns exactly the input listing, every hyperedge intact and in place; with
`n_steps > 0` there is no output (`np.random.randint(0, 0, 2)` raises) -/
theorem C13_empty_layer (label : Label) (detailed : Bool) (order size : Option Nat) (s n : Nat)
    (es : List Edge) (ds : List Draw) (hres : resolveSize order size = .ok (some s))
    (hempty : ∀ e ∈ es, e.length ≠ s) (hdist : es.Nodup) :
    cmCall label detailed order size n es ds = if n = 0 then .ok es else .error .raise :=
  cmCall_empty_layer label detailed order size s n es ds hres hempty hdist

-- `order=3` on a hypergraph with hyperedges of size 3 but none of size 4: everything comes back
example : cmCall .edge true (some 3) none 0 [[0, 1], [0, 1, 2], [1, 2, 3], [4]] [] = .ok [[0, 1], [0, 1, 2], [1, 2, 3], [4]] := rfl
example : cmCall .stub false none (some 4) 0 [[0, 1], [0, 1, 2], [1, 2, 3], [4]] [.coin true] = .ok [[0, 1], [0, 1, 2], [1, 2, 3], [4]] := rfl
example : cmCall .edge true (some 3) none 2 [[0, 1], [0, 1, 2]] [.idx 0 0, .idx 0 0] = .error .raise := rfl

/-- the requested layer holds ONE hyperedge `f`: every run that returns — for every `n_steps` and every list of
draws — returns `f` followed by all other hyperedges, intact (the only possible proposal pairs `f` with itself) -/
theorem C13_singleton_layer (label : Label) (detailed : Bool) (order size : Option Nat) (s n : Nat)
    (es : List Edge) (ds : List Draw) (f : Edge) (out : List Edge)
    (hres : resolveSize order size = .ok (some s))
    (hsel : es.filter (fun e => e.length == s) = [f]) (hf : f.Pairwise (· < ·)) (hdist : es.Nodup)
    (h : cmCall label detailed order size n es ds = .ok out) :
    out = f :: es.filter (fun e => e.length != s) ∧ out.Perm es :=
  cmCall_singleton_layer label detailed order size s n es ds f out hres hsel hf hdist h

example : cmCall .stub true (some 2) none 2 [[0, 1], [0, 1, 2], [3, 4]] [.idx 0 0, .idx 0 0]
    = .ok [[0, 1, 2], [0, 1], [3, 4]] := rfl

/-! ## second extension round: integer arguments, unknown labels, what the returned object carries

`Model/C13Obj.lean`: `cmCallI` = `configuration_model(h, n_steps, label, order, size, ...)` with `order`, `size`,
`n_steps` INTEGERS of either sign and `label` either `'edge'` / `'stub'` (`LabelX.known`) or a label that
`_cm_MCMC` does not know (`LabelX.other`, `'vertex'` excluded); the answer is the listing of the returned object or
`none` (Python's `None`), together with the draws that were not consumed.  `cmObj` = the same call on an object with
weights and metadata.  Nothing below assumes anything about the draws. -/

/-- the integer entry point refines the models above.  `order` AND `size` are refused for every label, sign and
draw list; natural arguments resolve as in `resolveSize`; for a known label every answer is, for some natural size
`szN` (the requested one when it is non-negative, `none` exactly when neither argument was given), the answer of
`configurationModel … szN (max n_steps 0)` — so every theorem above holds for integer arguments of either sign -/
theorem C13_int_entry (detailed : Bool) (n : Int) (es : List Edge) (ds : List Draw) :
    (∀ lab o s, cmCallI lab detailed (some o) (some s) n es ds = .error .raise) ∧
    (∀ order size : Option Nat, resolveSizeI (order.map Int.ofNat) (size.map Int.ofNat)
        = (resolveSize order size).map (Option.map Int.ofNat)) ∧
    (∀ l order size sz, resolveSizeI order size = .ok sz →
      ∃ szN : Option Nat, (sz = none ↔ szN = none) ∧ (∀ s : Int, sz = some s → 0 ≤ s → szN = some s.toNat) ∧
        (cmCallI (.known l) detailed order size n es ds).map (·.1)
          = (configurationModel l detailed szN n.toNat es ds).map some) := by
  refine ⟨fun _ _ _ => rfl, resolveSizeI_cast, fun l order size sz hres => ?_⟩
  rcases cmCallI_known l detailed order size n es ds with ⟨o, s, rfl, rfl, _⟩ | ⟨szN, hsz, heq⟩
  · cases hres
  · exact ⟨szN, (hsz sz hres).1, (hsz sz hres).2, heq⟩

-- `order=-1` is the layer of size 0; `order=-3` is an empty layer; a negative `n_steps` is no step
example : cmCallI (.known .edge) true (some (-1)) none 1 [[], [0, 1]] [.idx 0 0] = .ok (some [[], [0, 1]], []) := rfl
example : cmCallI (.known .stub) true (some (-3)) none (-2) [[0, 1], [2]] [.idx 0 0] = .ok (some [[0, 1], [2]], [.idx 0 0]) := rfl
example : cmCallI (.known .edge) true none (some 1) 1 [[0], [1], [0, 1]] [.idx 0 1, .coin false]
    = .ok (some [[1], [0], [0, 1]], []) := rfl

/-- a NEGATIVE requested size (`size=s` with `s < 0`, `order=o` with `o < -1`): with `n_steps ≤ 0` the call returns
exactly the input listing and consumes no draw, with `n_steps > 0` it raises (`np.random.randint(0, 0, 2)`) —
for every input and draw list (`hdist`: `get_edges()` lists the keys of a dict) -/
theorem C13_negative_size (l : Label) (detailed : Bool) (order size : Option Int) (n : Int) (es : List Edge)
    (ds : List Draw) (s : Int) (hres : resolveSizeI order size = .ok (some s)) (hs : s < 0) (hdist : es.Nodup) :
    cmCallI (.known l) detailed order size n es ds = if n ≤ 0 then .ok (some es, ds) else .error .raise :=
  cmCallI_negative l detailed order size n es ds s hres hs hdist

example : cmCallI (.known .edge) false none (some (-1)) 0 [[0, 1], [2]] [.coin true] = .ok (some [[0, 1], [2]], [.coin true]) := rfl
example : cmCallI (.known .edge) false (some (-2)) none 3 [[0, 1], [2]] [.idx 0 0] = .error .raise := rfl

/-- the property for the integer entry point (known label, integers of either sign, every draw list): the returned
listing is duplicate-free, no node has a higher degree (at any size when `detailed`), a node has a hyperedge iff it
had one; when the number of hyperedges is preserved degrees (per size when `detailed`) and the multiset of sizes
are unchanged; with a size / order argument the hyperedges outside the requested layer are returned intact -/
theorem C13_int_invariants (l : Label) (detailed : Bool) (order size : Option Int) (n : Int) (es : List Edge)
    (ds : List Draw) (out : List Edge) (ds' : List Draw)
    (h : cmCallI (.known l) detailed order size n es ds = .ok (some out, ds'))
    (hdist : es.Nodup) (hnd : ∀ e ∈ es, e.Nodup) :
    out.Nodup ∧ out.length ≤ es.length ∧
      (∀ x, deg out x ≤ deg es x) ∧ (detailed = true → ∀ x k, degK out x k ≤ degK es x k) ∧
      (∀ x, 0 < deg out x ↔ 0 < deg es x) ∧
      (out.length = es.length →
        (∀ x, deg out x = deg es x) ∧ (sizes out).Perm (sizes es) ∧
        (detailed = true → ∀ x k, degK out x k = degK es x k)) ∧
      (∀ s, resolveSizeI order size = .ok (some s) →
        out.filter (fun e => !inLayer s e) = es.filter (fun e => !inLayer s e)) := by
  have hok : ∀ szN : Option Nat,
      (cmCallI (.known l) detailed order size n es ds).map (·.1)
        = (configurationModel l detailed szN n.toNat es ds).map some →
      configurationModel l detailed szN n.toNat es ds = .ok out := by
    intro szN heq
    rw [h] at heq
    cases hc : configurationModel l detailed szN n.toNat es ds with
    | error e => rw [hc] at heq; cases heq
    | ok o =>
      rw [hc] at heq
      simp only [Except.map, Except.ok.injEq, Option.some.injEq] at heq
      rw [heq]
  rcases cmCallI_known l detailed order size n es ds with ⟨o, s, rfl, rfl, hr⟩ | ⟨szN, hsz, heq⟩
  · rw [hr] at h; cases h
  have hcm := hok szN heq
  have K := C13_nodes_and_sizes l detailed szN n.toNat es ds out hcm (fun _ => hdist) hnd
  have hint : ∀ s, resolveSizeI order size = .ok (some s) →
      out.filter (fun e => !inLayer s e) = es.filter (fun e => !inLayer s e) := by
    intro s hres
    by_cases hs : 0 ≤ s
    · obtain ⟨k, rfl⟩ : ∃ k : Nat, s = k := ⟨s.toNat, by omega⟩
      have hk := hok (some k) (cmCallI_known_of_filters l detailed order size n es ds k k hres
        (fun e _ => inLayer_cast k e))
      have R := (C13_restricted l detailed k n.toNat es ds out hk hdist hnd).1
      have hf : (fun e : Edge => !inLayer (k : Int) e) = (fun e : Edge => e.length != k) := by
        funext e; rw [inLayer_cast]; rfl
      rw [hf]; exact R
    · rw [cmCallI_negative l detailed order size n es ds s hres (by omega) hdist] at h
      split at h
      · simp only [Except.ok.injEq, Prod.mk.injEq, Option.some.injEq] at h
        rw [h.1]
      · cases h
  cases szN with
  | none =>
    have A := C13_not_detailed l detailed n.toNat es ds out hcm hnd
    refine ⟨A.1, A.2.2.1, A.2.2.2.1, ?_, K.2.1, fun hl => ⟨(A.2.2.2.2 hl).1, (A.2.2.2.2 hl).2, ?_⟩, hint⟩
    · intro hd; subst hd
      exact (C13_detailed l n.toNat es ds out hcm hnd).2.2.2.1
    · intro hd; subst hd
      exact ((C13_detailed l n.toNat es ds out hcm hnd).2.2.2.2 hl).1
  | some k =>
    have R := C13_restricted l detailed k n.toNat es ds out hcm hdist hnd
    exact ⟨R.2.1, R.2.2.1, R.2.2.2.1, R.2.2.2.2.1, K.2.1, R.2.2.2.2.2, hint⟩

example : cmCallI (.known .stub) false (some 1) none 1 [[0, 1], [1, 2, 3], [2, 4]]
    [.idx 0 1, .coin true, .coin false, .coin false] = .ok (some [[0, 4], [1, 2], [1, 2, 3]], []) := rfl

/-- a label that `_cm_MCMC` does not know (anything but `'edge'`, `'stub'`, `'vertex'`): for every input, every
integer argument and every draw list NO draw is consumed; the plain call returns `None`; the `size=` / `order=`
variant returns `None` when every hyperedge lies in the requested layer and raises otherwise (`None.add_edge`);
`order` and `size` together are refused as for every label.  In particular no hypergraph is ever returned. -/
theorem C13_unknown_label (detailed : Bool) (order size : Option Int) (n : Int) (es : List Edge) (ds : List Draw) :
    (cmCallI .other detailed order size n es ds =
      match resolveSizeI order size with
      | .error e => .error e
      | .ok none => .ok (none, ds)
      | .ok (some s) => if es.all (inLayer s) then .ok (none, ds) else .error .raise) ∧
    (∀ r ds', cmCallI .other detailed order size n es ds = .ok (r, ds') → r = none ∧ ds' = ds) := by
  have h := cmCallI_other detailed order size n es ds
  refine ⟨h, fun r ds' hr => ?_⟩
  rw [h] at hr
  split at hr
  · cases hr
  · simp only [Except.ok.injEq, Prod.mk.injEq] at hr; exact ⟨hr.1.symm, hr.2.symm⟩
  · split at hr
    · simp only [Except.ok.injEq, Prod.mk.injEq] at hr; exact ⟨hr.1.symm, hr.2.symm⟩
    · cases hr

example : cmCallI .other true none none 5 [[0, 1], [2]] [.idx 0 1] = .ok (none, [.idx 0 1]) := rfl
example : cmCallI .other true none (some 2) 5 [[0, 1], [2, 3]] [.idx 0 1] = .ok (none, [.idx 0 1]) := rfl
example : cmCallI .other true (some 1) none 5 [[0, 1], [2]] [.idx 0 1] = .error .raise := rfl

/-- what the returned OBJECT carries (any label, any integer arguments, every draw list): whenever the call
returns a hypergraph it is `bare out` for the listing `out` the entry point answers — unweighted, default hypergraph
metadata, every hyperedge with weight 1 and empty metadata, its nodes exactly `nodesOf out` with empty metadata —
and the whole answer depends on the input object only through `get_edges()`: weights, metadata of hyperedges /
nodes / hypergraph and isolated nodes of the input have no influence -/
theorem C13_result_bare (label : LabelX) (detailed : Bool) (order size : Option Int) (n : Int) (hin : Obj)
    (ds : List Draw) :
    (∀ r ds', cmObj label detailed order size n hin ds = .ok (r, ds') →
      ∃ r0, cmCallI label detailed order size n hin.listing ds = .ok (r0, ds') ∧ r = r0.map bare ∧
        ∀ o, r = some o → ∃ out, r0 = some out ∧ o.listing = out ∧ o.weighted = false ∧ o.hmeta = 0 ∧
          (∀ x ∈ o.items, x.2.1 = 1 ∧ x.2.2 = 0) ∧ o.nodeMeta.map (·.1) = nodesOf out ∧
          (∀ x ∈ o.nodeMeta, x.2 = 0)) ∧
    (∀ hin' : Obj, hin'.listing = hin.listing →
      cmObj label detailed order size n hin' ds = cmObj label detailed order size n hin ds) := by
  refine ⟨fun r ds' hr => ?_, fun hin' hl => cmObj_listing_only label detailed order size n hin' hin ds hl⟩
  obtain ⟨r0, h0, rfl⟩ := cmObj_ok label detailed order size n hin ds r ds' hr
  refine ⟨r0, h0, rfl, fun o ho => ?_⟩
  cases r0 with
  | none => cases ho
  | some out =>
    simp only [Option.map_some, Option.some.injEq] at ho
    subst ho
    have B := bare_carries_nothing out
    exact ⟨out, rfl, bare_listing out, B.1, B.2.1, B.2.2.1, bare_nodes out, B.2.2.2⟩

-- a weighted input with metadata and an isolated node 9: the result is bare
example : cmObj (.known .edge) true none none 1
    { weighted := true, items := [([0, 1], 5, 3), ([2, 3], 7, 0)], nodeMeta := [(0, 1), (1, 0), (2, 0), (3, 2), (9, 4)], hmeta := 6 }
    [.idx 0 1, .coin true, .coin false, .coin false]
    = .ok (some { weighted := false, items := [([0, 3], 1, 0), ([1, 2], 1, 0)],
                  nodeMeta := [(0, 0), (1, 0), (2, 0), (3, 0)], hmeta := 0 }, []) := rfl
