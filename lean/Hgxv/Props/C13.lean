import Hgxv.Proofs.C13
import Hgxv.Proofs.C13Relabel
/-! # C13 — configuration models preserve every node's degree and every hyperedge size

Theorems about the model `Hgxv/Model/C13.lean` of `generation/configuration_model.py`
(`label ∈ {'edge','stub'}`) and `generation/directed_configuration_model.py`.

Every statement is for **all** lists of draws (`ds`): the random choices of the Python code are the
elements of that list, so the theorems cover every seed and every execution that returns
(`= .ok _`; `.error .diverge` is an exhausted draw list, `.error .raise` an exception of the code).

Hypotheses used, and why the real code guarantees them:
* `hnd : ∀ e ∈ es, e.Nodup` — a stored hyperedge is a node *set* (the property's quantifier;
  `Hypergraph` stores the sorted tuple of the nodes it was given);
* `hdist : es.Nodup` (only `C13_restricted`) — `Hypergraph.get_edges()` lists the keys of a dict.

Observables: `degK es n k` = number of hyperedges of size `k` containing `n`, `deg es n` = number of
hyperedges containing `n`, `sizes es` = list of sizes, `incidences es` = all (node, size) pairs and
`stubs es` = all node occurrences, with multiplicity. -/
open C13

/-! ## `__pairwise_reshuffle`, for every coin list -/

/-- both sizes are kept, both results are duplicate-free, the nodes are redistributed -/
theorem C13_reshuffle (f1 f2 : Edge) (ds : List Draw) (g1 g2 : Edge) (ds' : List Draw)
    (h : reshuffle f1 f2 ds = .ok (g1, g2, ds')) (h1 : f1.Nodup) (h2 : f2.Nodup) :
    g1.length = f1.length ∧ g2.length = f2.length ∧ g1.Nodup ∧ g2.Nodup ∧
      (g1 ++ g2).Perm (f1 ++ f2) := by
  have g := reshuffle_good f1 f2 ds g1 g2 ds' h h1 h2
  refine ⟨g.len1, g.len2, g.nd1, g.nd2, List.perm_iff_count.mpr fun a => ?_⟩
  rw [List.count_append, List.count_append]; exact g.cnt a

example : reshuffle [0, 1, 2] [1, 3] [.coin false, .coin true] = .ok ([1, 2, 3], [0, 1], [.coin true]) := rfl

/-! ## one Metropolis step `mh_step`, for every draw list -/

/-- the list of sizes is unchanged position by position -/
theorem C13_step_sizes (detailed : Bool) (es : List Edge) (ds : List Draw) (es' : List Edge)
    (ds' : List Draw) (h : mhStep detailed es ds = .ok (es', ds')) (hnd : ∀ e ∈ es, e.Nodup) :
    sizes es' = sizes es := (mhStep_inv detailed es ds es' ds' h hnd).2.1

/-- hyperedges stay duplicate-free -/
theorem C13_step_nodup (detailed : Bool) (es : List Edge) (ds : List Draw) (es' : List Edge)
    (ds' : List Draw) (h : mhStep detailed es ds = .ok (es', ds')) (hnd : ∀ e ∈ es, e.Nodup) :
    ∀ e ∈ es', e.Nodup := (mhStep_inv detailed es ds es' ds' h hnd).1

/-- the multiset of stubs is always unchanged; with `detailed` (the two sizes are equal) so is the
multiset of (node, size) incidences -/
theorem C13_step_incidences (detailed : Bool) (es : List Edge) (ds : List Draw) (es' : List Edge)
    (ds' : List Draw) (h : mhStep detailed es ds = .ok (es', ds')) (hnd : ∀ e ∈ es, e.Nodup) :
    (stubs es').Perm (stubs es) ∧ (detailed = true → (incidences es').Perm (incidences es)) :=
  (mhStep_inv detailed es ds es' ds' h hnd).2.2

-- a step that rejects the pair (0,2) of unequal sizes, accepts (0,1) and moves nodes
example : mhStep true [[0, 1], [2, 3], [0, 2, 4]]
    [.idx 0 2, .idx 0 1, .coin true, .coin false, .coin false, .coin true]
    = .ok ([[0, 3], [1, 2], [0, 2, 4]], [.coin true]) := rfl
-- not detailed: a pair of different sizes exchanges nodes, the per-size incidences do change
example : mhStep false [[0, 1], [1, 2, 3], [2, 4]] [.idx 1 2, .coin true, .coin false, .coin false]
    = .ok ([[0, 1], [1, 2, 4], [2, 3]], [.coin false]) := rfl

/-! ## the chain `while n < n_steps: mh_step()` -/

/-- after any number of steps: duplicate-free hyperedges, the same sizes position by position, every
node's degree unchanged, and with `detailed` every node's degree at every size unchanged -/
theorem C13_chain (detailed : Bool) (n : Nat) (es : List Edge) (ds : List Draw) (es' : List Edge)
    (ds' : List Draw) (h : chain detailed n es ds = .ok (es', ds')) (hnd : ∀ e ∈ es, e.Nodup) :
    (∀ e ∈ es', e.Nodup) ∧ sizes es' = sizes es ∧
      (stubs es').Perm (stubs es) ∧ (∀ x, deg es' x = deg es x) ∧
      (detailed = true → (incidences es').Perm (incidences es) ∧ ∀ x k, degK es' x k = degK es x k) := by
  obtain ⟨nd', sz, st, inc⟩ := chain_inv detailed n es ds es' ds' h hnd
  refine ⟨nd', sz, st, fun x => ?_, fun hd => ⟨inc hd, fun x k => ?_⟩⟩
  · rw [deg_eq_count es' nd', deg_eq_count es hnd]; exact st.count_eq x
  · rw [degK_eq_count es' nd', degK_eq_count es hnd]; exact (inc hd).count_eq (x, k)

example : chain true 2 [[0, 1], [2, 3], [0, 2]]
    [.idx 0 1, .coin true, .coin false, .coin false, .idx 2 0, .coin true]
    = .ok ([[0, 3], [1, 2], [0, 2]], []) := rfl

/-! ## the returned hypergraph merges coinciding hyperedges -/

/-- for every listing `F`: the merged listing has distinct members, the same members, never a higher
degree, and when nothing was merged it is `F` itself -/
theorem C13_dedupe (F : List Edge) :
    (dedup F).Nodup ∧ (∀ e, e ∈ dedup F ↔ e ∈ F) ∧
      (∀ x k, degK (dedup F) x k ≤ degK F x k) ∧ (∀ x, deg (dedup F) x ≤ deg F x) ∧
      ((dedup F).length = F.length → dedup F = F) :=
  ⟨dedup_nodup F, mem_dedup F, fun _ _ => (dedup_sublist F).countP_le,
    fun _ => (dedup_sublist F).countP_le, dedup_eq_of_length F⟩

example : dedup [[0, 3], [1, 2], [0, 3]] = [[1, 2], [0, 3]] := rfl

/-! ## `configuration_model(h, n_steps, label)`, plain call -/

/-- `detailed=True`: the result is a valid hypergraph (distinct duplicate-free hyperedges) in which no
node has a higher degree at any size; when the number of hyperedges is preserved every node has exactly
its original degree at every size and the multiset of sizes is unchanged -/
theorem C13_detailed (label : Label) (n : Nat) (es : List Edge) (ds : List Draw) (out : List Edge)
    (h : configurationModel label true none n es ds = .ok out) (hnd : ∀ e ∈ es, e.Nodup) :
    out.Nodup ∧ (∀ e ∈ out, e.Nodup) ∧ out.length ≤ es.length ∧
      (∀ x k, degK out x k ≤ degK es x k) ∧
      (out.length = es.length → (∀ x k, degK out x k = degK es x k) ∧ (sizes out).Perm (sizes es)) := by
  have P := cmMCMC_preserved label true n es ds out h hnd
  exact ⟨P.distinct, P.edgesNodup, P.len_le, P.degK_le rfl, fun hl => ⟨P.degK_eq hl rfl, P.sizes_eq hl⟩⟩

/-- any `detailed`: only the total degree and the size multiset are claimed -/
theorem C13_not_detailed (label : Label) (detailed : Bool) (n : Nat) (es : List Edge) (ds : List Draw)
    (out : List Edge) (h : configurationModel label detailed none n es ds = .ok out)
    (hnd : ∀ e ∈ es, e.Nodup) :
    out.Nodup ∧ (∀ e ∈ out, e.Nodup) ∧ out.length ≤ es.length ∧
      (∀ x, deg out x ≤ deg es x) ∧
      (out.length = es.length → (∀ x, deg out x = deg es x) ∧ (sizes out).Perm (sizes es)) := by
  have P := cmMCMC_preserved label detailed n es ds out h hnd
  exact ⟨P.distinct, P.edgesNodup, P.len_le, P.deg_le, fun hl => ⟨P.deg_eq hl, P.sizes_eq hl⟩⟩

/-- the returned listing is canonical: every hyperedge is the strictly increasing tuple of its node
set and no two listed hyperedges have the same node set (coinciding hyperedges were merged), so
"the output has as many hyperedges as the input" means exactly that no two reshuffled hyperedges
coincided -/
theorem C13_canonical (label : Label) (detailed : Bool) (n : Nat) (es : List Edge) (ds : List Draw)
    (out : List Edge) (h : configurationModel label detailed none n es ds = .ok out)
    (hnd : ∀ e ∈ es, e.Nodup) :
    (∀ e ∈ out, e.Pairwise (· < ·)) ∧
      out.Pairwise (fun e1 e2 => ¬ ∀ x, x ∈ e1 ↔ x ∈ e2) := by
  have P := cmMCMC_preserved label detailed n es ds out h hnd
  refine ⟨P.sorted, ?_⟩
  have hd := P.distinct
  have hall : out.Pairwise (fun e1 e2 => e1 ∈ out ∧ e2 ∈ out) :=
    List.pairwise_of_forall_mem_list (fun a ha b hb => ⟨ha, hb⟩)
  exact List.Pairwise.imp₂ (fun e1 e2 hne hmem hset =>
    hne (strict_ext (P.sorted e1 hmem.1) (P.sorted e2 hmem.2) hset)) hd hall

/-- the theorems speak of the runs that return; for every non-empty input and every number of steps
such runs exist (e.g. when every drawn pair is `(0, 0)`), so their hypotheses are never vacuous.
Termination of *all* runs is false (`.diverge` example below): the resampling loop stops with
probability one only. -/
theorem C13_returns (label : Label) (detailed : Bool) (n : Nat) (es : List Edge)
    (hne : es ≠ []) (hnd : ∀ e ∈ es, e.Nodup) :
    ∃ ds out, configurationModel label detailed none n es ds = .ok out := by
  obtain ⟨es', h⟩ := chain_returns detailed n es [] hne hnd
  refine ⟨List.replicate n (.idx 0 0) ++ [], dedup (es'.map sortNodes), ?_⟩
  cases label <;> simp only [configurationModel, cmMCMC, stubEdgeMH, h]

-- two steps, number of hyperedges preserved, hyperedges changed
example : configurationModel .edge true none 2 [[0, 1], [2, 3], [0, 2]]
    [.idx 0 1, .coin true, .coin false, .coin false, .idx 2 0, .coin true]
    = .ok [[0, 3], [1, 2], [0, 2]] := rfl
-- one step after which two hyperedges coincide: node 0 and node 3 lose one unit of degree
example : configurationModel .stub true none 1 [[0, 1], [2, 3], [0, 3]]
    [.idx 0 1, .coin true, .coin false, .coin false] = .ok [[1, 2], [0, 3]] := rfl
example : degK [[1, 2], [0, 3]] 0 2 < degK [[0, 1], [2, 3], [0, 3]] 0 2 := by decide
example : configurationModel .stub false none 1 [[0, 1], [1, 2, 3], [2, 4]]
    [.idx 1 2, .coin true, .coin false, .coin false] = .ok [[0, 1], [1, 2, 4], [2, 3]] := rfl
-- the resampling loop can exhaust any finite draw list (stated limit)
example : configurationModel .edge true none 1 [[0, 1], [1, 2, 3]] [.idx 0 1, .idx 1 0, .idx 0 1]
    = .error .diverge := rfl

/-! ## `configuration_model(h, ..., size=s)` / `order=s-1` -/

/-- hyperedges of the other sizes are returned intact (and nothing else of those sizes); for the
reshuffled size the claims of the plain call hold, so they hold for the whole hypergraph -/
theorem C13_restricted (label : Label) (detailed : Bool) (s n : Nat) (es : List Edge) (ds : List Draw)
    (out : List Edge) (h : configurationModel label detailed (some s) n es ds = .ok out)
    (hdist : es.Nodup) (hnd : ∀ e ∈ es, e.Nodup) :
    out.filter (fun e => e.length != s) = es.filter (fun e => e.length != s) ∧
      out.Nodup ∧ out.length ≤ es.length ∧
      (∀ x, deg out x ≤ deg es x) ∧ (detailed = true → ∀ x k, degK out x k ≤ degK es x k) ∧
      (out.length = es.length →
        (∀ x, deg out x = deg es x) ∧ (sizes out).Perm (sizes es) ∧
        (detailed = true → ∀ x k, degK out x k = degK es x k)) := by
  obtain ⟨out0, P, hsz, rfl⟩ := restricted_spec label detailed s n es ds out h hdist hnd
  have hf0 : out0.filter (fun e => e.length != s) = [] :=
    List.filter_eq_nil_iff.mpr (fun e he => by simp [hsz e he])
  have hlen := length_split (fun e : Edge => e.length == s) es
  have hne : (fun e : Edge => !(e.length == s)) = (fun e : Edge => e.length != s) := rfl
  rw [hne] at hlen
  have hP := P.len_le
  refine ⟨?_, ?_, ?_, ?_, ?_, ?_⟩
  · rw [List.filter_append, hf0, List.filter_filter]; simp
  · refine List.nodup_append.mpr ⟨P.distinct, hdist.sublist List.filter_sublist, ?_⟩
    intro a ha b hb hab
    subst hab
    have := (List.mem_filter.mp hb).2
    simp [hsz a ha] at this
  · rw [List.length_append]; omega
  · intro x
    have := countP_split (fun e : Edge => e.contains x) (fun e : Edge => e.length == s) es
    rw [hne] at this
    have := P.deg_le x
    simp only [deg, List.countP_append] at *
    omega
  · intro hd x k
    have := countP_split (fun e : Edge => e.length == k && e.contains x) (fun e : Edge => e.length == s) es
    rw [hne] at this
    have := P.degK_le hd x k
    simp only [degK, List.countP_append] at *
    omega
  · intro hl
    rw [List.length_append] at hl
    have hl0 : out0.length = (es.filter (fun e => e.length == s)).length := by omega
    refine ⟨?_, ?_, ?_⟩
    · intro x
      have := countP_split (fun e : Edge => e.contains x) (fun e : Edge => e.length == s) es
      rw [hne] at this
      have := P.deg_eq hl0 x
      simp only [deg, List.countP_append] at *
      omega
    · have hs := P.sizes_eq hl0
      simp only [sizes, List.map_append] at *
      refine (List.Perm.append_right _ hs).trans ?_
      rw [← List.map_append]
      exact List.Perm.map _ (filter_split_perm (fun e : Edge => e.length == s) es)
    · intro hd x k
      have := countP_split (fun e : Edge => e.length == k && e.contains x) (fun e : Edge => e.length == s) es
      rw [hne] at this
      have := P.degK_eq hl0 hd x k
      simp only [degK, List.countP_append] at *
      omega

example : configurationModel .stub true (some 2) 1 [[0, 1], [1, 2, 3], [2, 3]]
    [.idx 0 1, .coin true, .coin false, .coin false] = .ok [[0, 3], [1, 2], [1, 2, 3]] := rfl
-- `size=` absent from the hypergraph: `np.random.randint(0, 0, 2)` raises
example : configurationModel .stub true (some 4) 1 [[0, 1], [1, 2, 3], [2, 3]] [.idx 0 1]
    = .error .raise := rfl

/-! ## `directed_configuration_model`, for every draw list

Hypothesis `hnd`: both sides of a stored hyperedge are node sets (duplicate-free tuples).
`outDeg es x` = number of hyperedges with `x` in the source set, `inDeg es x` = with `x` in the
target set, `shapes es` = list of (source size, target size). -/

/-- one iteration of either loop keeps the sides duplicate-free, the shapes position by position and
the multisets of source stubs and target stubs -/
theorem C13_directed_step (tgt : Bool) (es : List DEdge) (ds : List Nat) (es' : List DEdge) (ds' : List Nat)
    (h : swapStep tgt es ds = .ok (es', ds')) (hnd : ∀ e ∈ es, e.1.Nodup ∧ e.2.Nodup) :
    (∀ e ∈ es', e.1.Nodup ∧ e.2.Nodup) ∧ shapes es' = shapes es ∧
      (srcStubs es').Perm (srcStubs es) ∧ (tgtStubs es').Perm (tgtStubs es) := by
  have I := swapStep_inv tgt es ds es' ds' h hnd
  exact ⟨I.nd, I.shp, I.src, I.tgt⟩

example : swapStep false [([0, 1], [2]), ([2], [3, 4])] [0, 1, 1, 0] = .ok ([([0, 2], [2]), ([1], [3, 4])], []) := rfl
-- first refusal test: node 1 is already in the other source set
example : swapStep false [([0, 1], [2]), ([1], [3, 4])] [0, 1, 0, 0] = .ok ([([0, 1], [2]), ([1], [3, 4])], []) := rfl

/-- the returned hypergraph has distinct hyperedges in canonical form (both sides strictly increasing
tuples, so distinct as pairs of node sets), not more than the input, and no node has a
higher out-degree (source side) or in-degree (target side) -/
theorem C13_directed_never_more (es : List DEdge) (ds : List Nat) (out : List DEdge)
    (h : directedCM es ds = .ok out) (hnd : ∀ e ∈ es, e.1.Nodup ∧ e.2.Nodup) :
    out.Nodup ∧ (∀ e ∈ out, e.1.Pairwise (· < ·) ∧ e.2.Pairwise (· < ·)) ∧ out.length ≤ es.length ∧
      (∀ x, outDeg out x ≤ outDeg es x) ∧ (∀ x, inDeg out x ≤ inDeg es x) := by
  have P := directedCM_preserved es ds out h hnd
  exact ⟨P.distinct, P.sorted, P.len_le, P.out_le, P.in_le⟩

/-- when the number of hyperedges is preserved, every node keeps its out- and in-degree and the
multiset of (source size, target size) shapes is unchanged -/
theorem C13_directed_preserved (es : List DEdge) (ds : List Nat) (out : List DEdge)
    (h : directedCM es ds = .ok out) (hnd : ∀ e ∈ es, e.1.Nodup ∧ e.2.Nodup)
    (hlen : out.length = es.length) :
    (∀ x, outDeg out x = outDeg es x) ∧ (∀ x, inDeg out x = inDeg es x) ∧
      (shapes out).Perm (shapes es) := by
  have P := directedCM_preserved es ds out h hnd
  exact ⟨P.out_eq hlen, P.in_eq hlen, P.shapes_eq hlen⟩

/-- for every non-empty input there are returning runs (no side is touched when `id1 = id2`) -/
theorem C13_directed_returns (es : List DEdge) (hne : es ≠ []) :
    ∃ ds out, directedCM es ds = .ok out := by
  refine ⟨List.replicate (2 * (es.length * 10)) 0 ++ (List.replicate (2 * (es.length * 10)) 0 ++ []),
    dedup (es.map sortSides), ?_⟩
  simp only [directedCM, swapLoop_returns _ _ es _ hne]

-- a run with one source swap and one target swap between hyperedges of different shapes
example : directedCM [([0, 1], [2]), ([2], [3, 4])]
    ([0, 1, 1, 0] ++ List.replicate 38 0 ++ [1, 0, 0, 0] ++ List.replicate 38 1)
    = .ok [([0, 2], [3]), ([1], [2, 4])] := rfl
-- a run after which two hyperedges coincide: node 1 loses one unit of out-degree
example : directedCM [([0], [2]), ([1], [2]), ([1], [3])]
    (List.replicate 60 0 ++ [0, 2, 0, 0] ++ List.replicate 58 0) = .ok [([0], [3]), ([1], [2])] := rfl
example : outDeg [([0], [3]), ([1], [2])] 1 < outDeg [([0], [2]), ([1], [2]), ([1], [3])] 1 := by decide
-- `random.choice` of an empty side raises
example : directedCM [([0], [1]), ([], [1])] [0, 1, 0] = .error .raise := rfl

/-! ## the node labels enter only through their order

The correspondence check hands the model the RANK of every label in sorted order (the labels of the real runs
are ints of any magnitude, floats, strings, tuples; weights and metadata of the input are not arguments of the
model at all: it is a function of the hyperedge listing the object has when the call is made).  The two theorems say
that this abstraction loses nothing: for EVERY strictly increasing relabelling `f` and every draw list the run
on the relabelled input has the same outcome kind, and a returned hypergraph is the relabelled one.  Hypothesis
`hf` is exactly "order isomorphism onto its image" (what `sorted`, `==` and `in` of the Python code can see). -/

theorem C13_relabel (f : Nat → Nat) (hf : ∀ a b, a < b → f a < f b) (label : Label) (detailed : Bool)
    (size : Option Nat) (n : Nat) (es : List Edge) (ds : List Draw) :
    (∀ out, configurationModel label detailed size n es ds = .ok out →
        configurationModel label detailed size n (es.map (·.map f)) ds = .ok (out.map (·.map f))) ∧
    (∀ e, configurationModel label detailed size n es ds = .error e →
        configurationModel label detailed size n (es.map (·.map f)) ds = .error e) := by
  have h := configurationModel_map (f := f) hf label detailed size n es ds
  constructor
  · intro out ho; rw [ho] at h; exact h
  · intro e he; rw [he] at h; exact h

theorem C13_directed_relabel (f : Nat → Nat) (hf : ∀ a b, a < b → f a < f b) (es : List DEdge) (ds : List Nat) :
    (∀ out, directedCM es ds = .ok out →
        directedCM (es.map fun e => (e.1.map f, e.2.map f)) ds = .ok (out.map fun e => (e.1.map f, e.2.map f))) ∧
    (∀ e, directedCM es ds = .error e →
        directedCM (es.map fun e => (e.1.map f, e.2.map f)) ds = .error e) := by
  have h := directedCM_map (f := f) hf es ds
  constructor
  · intro out ho; rw [ho] at h; exact h
  · intro e he; rw [he] at h; exact h

-- non-vacuity: `v ↦ 10 v + 3` is strictly increasing; the run of the `chain` example on ranks and on the stretched labels
example : ∀ a b : Nat, a < b → 10 * a + 3 < 10 * b + 3 := by intro a b h; omega
example : configurationModel .edge true none 2 [[0, 1], [2, 3], [0, 2]]
    [.idx 0 1, .coin true, .coin false, .coin false, .idx 2 0, .coin true] = .ok [[0, 3], [1, 2], [0, 2]] := rfl
example : configurationModel .edge true none 2 [[3, 13], [23, 33], [3, 23]]
    [.idx 0 1, .coin true, .coin false, .coin false, .idx 2 0, .coin true] = .ok [[3, 33], [13, 23], [3, 23]] := rfl
-- the hypothesis is needed: `0 ↦ 5` (not increasing) changes the order in which the nodes are dealt out; the run on
-- `[[0,1],[2,3]]` returns `[[0,3],[1,2]]`, whose image is `{5,3},{1,2}`, the run on the relabelled listing does not
example : configurationModel .edge true none 1 [[0, 1], [2, 3]] [.idx 0 1, .coin true, .coin false, .coin false]
    = .ok [[0, 3], [1, 2]] := rfl
example : configurationModel .edge true none 1 [[1, 5], [2, 3]] [.idx 0 1, .coin true, .coin false, .coin false]
    = .ok [[1, 3], [2, 5]] := rfl
example : directedCM [([3, 13], [23]), ([23], [33, 43])]
    ([0, 1, 1, 0] ++ List.replicate 38 0 ++ [1, 0, 0, 0] ++ List.replicate 38 1)
    = .ok [([3, 23], [33]), ([13], [23, 43])] := rfl
