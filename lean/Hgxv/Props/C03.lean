import Hgxv.Proofs.C03Cor
import Hgxv.Proofs.C03Ref
import Hgxv.Proofs.C03Keep
import Hgxv.Proofs.C03Full
import Hgxv.Model.C03Kind
import Hgxv.Proofs.C03Ext
import Hgxv.Proofs.C03Raw
import Hgxv.Proofs.C03Part
/-! # C03 - TemporalHypergraph keeps (time, hyperedge) records; windows / snapshots / aggregate agree

Model: `Hgxv/Model/C03.lean` (mirror of `hypergraphx/core/temporal_hypergraph.py` after the `fix:` commits of branch
`wC03`).  `Reachable s` = `s` is the content of some slot after some finite history of well-formed public calls
(`Op.WF`: every inserted hyperedge is a duplicate-free node tuple - the property quantifies over node SETS; nothing else
is assumed, malformed calls included).  Hypotheses of the theorems are exactly `Reachable s` (or none).
`get?`-statements are "equal as maps"; listings are compared as multisets (`List.Perm`) or membership + `Nodup`. -/
open C03 AL

/-- Invariant for every history, after every prefix (a prefix of a history is a history): in every object the edge index
has distinct canonical keys, `_reverse_edge_list` is its inverse, ids are below `_next_edge_id`, `_weights` and
`_edge_metadata` have exactly the live ids, `_adj[n]` is exactly the list of ids of the records containing `n` (each once,
in creation order), every node of every record is a node, `_adj` and `_node_metadata` have the same keys, and an
unweighted hypergraph only stores weight 1. -/
theorem C03_inv (ops : List Op) (hwf : ∀ op ∈ ops, op.WF) : StateInv (run [] ops) :=
  run_inv ops hwf [] (by intro p hp; cases hp)

/-- **Refinement of the state.** Running any history of well-formed public calls on the concrete stores and then
forgetting ids, reverse table and adjacency (`abs`: weightedness, nodes with metadata, the map
`(time, node set) ↦ (weight, metadata)` in creation order, hypergraph metadata) gives exactly the result of running the
same history on the abstract maps (`Spec.applyOp`: plain map updates).  Holds for every list, hence after every prefix. -/
theorem C03_refines_state (ops : List Op) (hwf : ∀ op ∈ ops, op.WF) : absState (run [] ops) = specRun [] ops :=
  run_abs ops hwf [] (by intro p hp; cases hp)

/-- **Refinement of the outcomes.** After any history, a further public mutating call is accepted / rejected by the
store exactly as by the map. -/
theorem C03_refines_outcome (ops : List Op) (hwf : ∀ op ∈ ops, op.WF) (i : Nat) (o : SOp) (ho : o.WF) :
    (step (run [] ops) (.on i o)).2 =
      match get? (specRun [] ops) i with
      | none => .out .rej
      | some sp => .out (Spec.applyOp sp o).2 := by
  rw [← C03_refines_state ops hwf]
  exact step_out_abs _ (C03_inv ops hwf) i o ho

/-- **Refinement of the queries.** After any history, every query (hyperedges with or without time window and
order/size filter, counts, weights, times of a hyperedge, min/max time, incident hyperedges, neighbours, degrees, degree
sequence/distribution, sizes, uniformity, all metadata getters, isolated nodes, snapshots, aggregate) is answered by the
store exactly as by the map of the same history (`Spec.answer`: the same query code read off the map, where "incident to
n" is "node set contains n").  Excluded: the two listings that expose internal edge ids. -/
theorem C03_refines (ops : List Op) (hwf : ∀ op ∈ ops, op.WF) (i : Nat) (q : Query) (hq : q.exposesIds = false) :
    (step (run [] ops) (.query i q)).2 =
      match get? (specRun [] ops) i with
      | none => .ans .rej
      | some sp => .ans (Spec.answer sp q) := by
  rw [← C03_refines_state ops hwf]
  simp only [step, absState, get?_mapVals]
  cases hg : get? (run [] ops) i with
  | none => rfl
  | some s =>
    simp only [Option.map_some]
    rw [answer_abs s (C03_inv ops hwf (i, s) (mem_of_get? _ _ _ hg)) q hq]

/-- The record listing and the weight / metadata lookups of a reachable store ARE the key list and the values of the map
of its history - so the statements below about `edgeKeys`, `weightOfKey`, `metaOfKey`, `s.nmeta` are statements about
the map `(time, node set) ↦ (weight, metadata)` and its nodes. -/
theorem C03_content_is_map (s : Store) (hs : Reachable s) :
    edgeKeys s = keys (abs s).recs ∧ (keys (abs s).recs).Nodup ∧ s.nmeta = (abs s).nodes ∧
    (∀ k, weightOfKey s k = (get? (abs s).recs k).map (·.1)) ∧ (∀ k, metaOfKey s k = (get? (abs s).recs k).map (·.2)) := by
  have h := reachable_inv hs
  exact ⟨(keys_records s).symm, by have hk : keys (abs s).recs = edgeKeys s := keys_records s; rw [hk]; exact h.keysNodup, rfl, weightOfKey_abs s h, metaOfKey_abs s h⟩

/-- A time window `(a, b)` selects exactly the records with `a ≤ t < b` (membership). -/
theorem C03_window (s : Store) (a b : Int) (k : Key) :
    k ∈ window s a b ↔ k ∈ edgeKeys s ∧ a ≤ (k.1 : Int) ∧ (k.1 : Int) < b :=
  mem_window s a b k

/-- ... and with the same multiplicities: the windowed listing is a permutation of the filtered key list (so it is
duplicate-free on every reachable store). -/
theorem C03_window_listing (s : Store) (a b : Int) :
    (window s a b).Perm ((edgeKeys s).filter (fun k => decide (a ≤ (k.1 : Int)) && decide ((k.1 : Int) < b))) :=
  window_perm s a b

/-- `get_edges(time_window=(a,b), order|size, up_to)`: rejected iff both `order` and `size` are given; otherwise the
records in the window whose size passes the filter (`size = k` is `order = k-1`; `up_to` is `≤`). -/
theorem C03_get_edges_window (s : Store) (a b : Int) (f : Filt) :
    (f.order.isSome ∧ f.size.isSome → getEdges s (.pair a b) f = none) ∧
    (¬ (f.order.isSome ∧ f.size.isSome) → ∃ l, getEdges s (.pair a b) f = some l ∧ ∀ k, k ∈ l ↔
      (k ∈ edgeKeys s ∧ a ≤ (k.1 : Int) ∧ (k.1 : Int) < b ∧
        ∀ o, effOrder f.order f.size = some o →
          if f.upTo then ((k.2.length : Int) - 1 ≤ o) else ((k.2.length : Int) - 1 = o))) := by
  constructor
  · intro h; simp [getEdges, V.getEdges, h.1, h.2]
  · intro h
    have hb : (f.order.isSome && f.size.isSome) = false := by
      cases h1 : f.order.isSome <;> cases h2 : f.size.isSome <;> simp_all
    refine ⟨applyFilt f (window s a b), by simp [getEdges, V.getEdges, view, window, hb], ?_⟩
    intro k
    rw [mem_applyFilt, mem_window]
    constructor
    · rintro ⟨⟨h1, h2, h3⟩, h4⟩
      exact ⟨h1, h2, h3, fun o ho => (passes_iff o f.upTo k).mp (h4 o ho)⟩
    · rintro ⟨h1, h2, h3, h4⟩
      exact ⟨⟨h1, h2, h3⟩, fun o ho => (passes_iff o f.upTo k).mpr (h4 o ho)⟩

/-- `get_times_for_edge(e)` lists exactly the times at which the node set of `e` has a record (node order irrelevant). -/
theorem C03_times_for_edge (s : Store) (raw : List Nat) (t : Nat) :
    t ∈ timesFor s raw ↔ (t, canon raw) ∈ edgeKeys s :=
  mem_timesFor s raw t

/-- `min_time()` / `max_time()`: `±inf` (`none`) exactly when there is no record, else the least / largest recorded time. -/
theorem C03_min_max_time (s : Store) :
    ((minTime s = none ↔ edgeKeys s = []) ∧
      ∀ m, minTime s = some m → (∃ k ∈ edgeKeys s, k.1 = m) ∧ ∀ k ∈ edgeKeys s, m ≤ k.1) ∧
    ((maxTime s = none ↔ edgeKeys s = []) ∧
      ∀ m, maxTime s = some m → (∃ k ∈ edgeKeys s, k.1 = m) ∧ ∀ k ∈ edgeKeys s, k.1 ≤ m) :=
  ⟨minTime_spec s, maxTime_spec s⟩

/-- Per-time snapshots (`subhypergraph(time_window)`): a window that is not a tuple is rejected; otherwise the call
succeeds, a time `t` is a key iff it lies in the window and some record has time `t`, and the hypergraph of `t` has the
weightedness of the temporal hypergraph and exactly the node sets recorded at `t`, each with the record's weight. -/
theorem C03_snapshot (s : Store) (hs : Reachable s) (w : Win) :
    (w = .bad → snapshots s w = none) ∧
    (∀ a b, (w = .none ∧ a = none ∧ b = none) ∨ (∃ x y, w = .pair x y ∧ a = some x ∧ b = some y) →
      ∃ r, snapshots s w = some r ∧
        (∀ t, (get? r t).isSome ↔ (insideOpt a b t = true ∧ ∃ k ∈ edgeKeys s, k.1 = t)) ∧
        (∀ t h, get? r t = some h → h.weighted = s.weighted ∧
          (∀ e, (get? h.edges e).isSome ↔ (t, e) ∈ edgeKeys s) ∧
          (∀ e, (t, e) ∈ edgeKeys s → (get? h.edges e).map (·.1) = weightOfKey s (t, e)))) := by
  constructor
  · intro h; subst h; rfl
  · intro a b hab
    have ok := keysOK_of_inv s (reachable_inv hs)
    obtain ⟨r, hr, h1, h2⟩ := snapshots_spec s ok a b
    simp only [snapshots, V.snapshots, view, snapshotsOf]
    refine ⟨r, ?_, h1, h2⟩
    rcases hab with ⟨hw, ha, hb⟩ | ⟨x, y, hw, ha, hb⟩
    · subst hw ha hb; exact hr
    · subst hw ha hb; exact hr

/-- `aggregate(w)` is rejected when `w` is not an integer or `w ≤ 0`. -/
theorem C03_aggregate_rejects (s : Store) (w : TimeArg) (hw : w = .bad ∨ ∃ i, w = .int i ∧ i ≤ 0) :
    aggregate s w = none := by
  rcases hw with h | ⟨i, h, hi⟩
  · subst h; rfl
  · subst h
    have : ¬ 0 < i := by omega
    simp [aggregate, V.aggregate, aggregateOf, this]

/-- `aggregate(w)`, `w` a positive integer, on a reachable store: without records the result is empty; otherwise, with
`M` the maximal time, the result has exactly the indices `0..⌊M/w⌋`, and the hypergraph of index `j` has the weightedness
of the temporal hypergraph, ALL its nodes with their metadata (and no other node), exactly the node sets having a record
with `j·w ≤ t < (j+1)·w`, each weighing the sum of the weights of those records when weighted and 1 otherwise. -/
theorem C03_aggregate (s : Store) (hs : Reachable s) (i : Int) (hi : 0 < i) :
    (edgeKeys s = [] → aggregate s (.int i) = some []) ∧
    (∀ M, maxTime s = some M → ∃ res, aggregate s (.int i) = some res ∧
      res.map (·.1) = List.range (M / i.toNat + 1) ∧
      ∀ j h, (j, h) ∈ res →
        h.weighted = s.weighted ∧
        (∀ n, get? h.nodes n = get? s.nmeta n) ∧
        (∀ e, (get? h.edges e).isSome ↔ ∃ t, (t, e) ∈ edgeKeys s ∧ j * i.toNat ≤ t ∧ t < (j + 1) * i.toNat) ∧
        (∀ e v, get? h.edges e = some v →
          v.1 = if s.weighted then (recWeights s (windowRecs s i.toNat j) e).sum else one)) := by
  have hinv := reachable_inv hs
  obtain ⟨h1, h2⟩ := aggregate_spec s (keysOK_of_inv s hinv) (nodesOK_of_inv s hinv) i hi
  refine ⟨h1, ?_⟩
  intro M hM
  obtain ⟨res, hr, hmap, hall⟩ := h2 M hM
  exact ⟨res, hr, hmap, fun j h hm => ⟨(hall j h hm).weighted, (hall j h hm).nodes, (hall j h hm).edges, (hall j h hm).weights⟩⟩

/-- None of the derivations (any query: listings, windows, times, min/max, snapshots, aggregate, degrees, metadata)
changes the temporal hypergraph: in the model a query step returns the state it was given (the code side of this
claim is the before/after digest comparison of the harness). -/
theorem C03_pure (st : State) (i : Nat) (q : Query) : (step st (.query i q)).1 = st := by
  simp only [step]; split <;> rfl

/-- Non-integer or negative times are rejected and leave the object untouched - single insertions and whole batches. -/
theorem C03_time_rejected (s : Store) (t : TimeArg) (ht : t = .bad ∨ ∃ i, t = .int i ∧ i < 0) :
    (∀ raw w md, addEdge s raw t w md = (s, .rej)) ∧
    (∀ raws ts ws mds, t ∈ ts → addEdges s raws ts ws mds = (s, .rej)) :=
  ⟨fun raw w md => addEdge_bad_time s raw t w md ((validTime_none_iff t).mpr ht),
   fun raws ts ws mds hm => addEdges_bad_time s raws ts ws mds t hm ((validTime_none_iff t).mpr ht)⟩

/-- Every rejected call - single or batched - is a no-op on the whole state. -/
theorem C03_rejected_noop (st : State) (i : Nat) (o : SOp) (hr : (step st (.on i o)).2 = .out .rej) :
    (step st (.on i o)).1 = st :=
  step_rej st i o hr

/-- The order in which the nodes of a hyperedge are given is irrelevant for insertion, removal and every lookup. -/
theorem C03_order_irrelevant (s : Store) (r1 r2 : List Nat) (h : r1.Perm r2) (t : TimeArg) :
    (∀ w md, addEdge s r1 t w md = addEdge s r2 t w md) ∧ removeEdge s r1 t = removeEdge s r2 t ∧
    idOf s r1 t = idOf s r2 t ∧ timesFor s r1 = timesFor s r2 :=
  ⟨fun w md => addEdge_perm s r1 r2 h t w md, removeEdge_perm s r1 r2 h t, idOf_perm s r1 r2 h t,
   by simp [timesFor, V.timesFor, canon_eq_of_perm r1 r2 h]⟩

/-- On a reachable store `get_incident_edges(n)` is exactly the list of records containing `n` (creation order), each
once; hence `degree(n)` counts every record once. -/
theorem C03_incident_once (s : Store) (hs : Reachable s) (n : Node) (hn : (get? s.adj n).isSome) :
    incident s n none none = some ((edgeKeys s).filter (fun k => k.2.contains n)) ∧
    ((edgeKeys s).filter (fun k => k.2.contains n)).Nodup ∧
    degree s n none none = some ((edgeKeys s).filter (fun k => k.2.contains n)).length := by
  have hinv := reachable_inv hs
  have h1 := incident_eq s hinv n hn
  exact ⟨h1, hinv.keysNodup.filter _, by simp only [degree, V.degree]; rw [show V.incident (view s) n none none = incident s n none none from rfl, h1]; rfl⟩

/-- Re-inserting an existing `(time, node set)` record: accepted; the key set is unchanged; weighted: the weights add;
unweighted: the weight stays; the metadata is replaced. -/
theorem C03_reinsert (s : Store) (raw : List Nat) (t : Nat) (w : Option Int) (md : Option Meta) (id : Nat)
    (hget : get? s.edgeList (t, canon raw) = some id) (hok : s.weighted = true ∨ w = none ∨ w = some one) :
    (addEdge s raw (.int t) w md).2 = .ok ∧
    (addEdge s raw (.int t) w md).1.edgeList = s.edgeList ∧
    (addEdge s raw (.int t) w md).1.weights =
      (if s.weighted then AL.set s.weights id (((get? s.weights id).getD 0) + w.getD one) else s.weights) ∧
    (addEdge s raw (.int t) w md).1.emeta = AL.set s.emeta id (md.getD []) :=
  addEdge_existing s raw t w md id hget hok

/-- **`remove_node(n, keep_edges=True)`, record by record** (the fold of delete + re-insert that the code runs, in closed
form, independent of the order in which the incident records are processed).  On every reachable object, for a node `n`:
the call succeeds; no record containing `n` is left; every record `k ∋ n` whose node set minus `n` is non-empty ends up
under `shrinkKey n k = (time, node set minus n)` MERGED with the record that was already there (`Spec.recVal`: weighted -
the two weights add, unweighted - the weight stays 1; the moved record's metadata wins; without a record there the moved
weight and metadata are kept); a record `{n}` is dropped; every other record (no `n`, no record shrinking onto it) is
unchanged.  With `C03_inv` / `C03_incident_once` the merged record is ONE record with one id, listed once per node.
`abs` is the map of the object (`C03_content_is_map`). -/
theorem C03_remove_node_keep (s : Store) (hs : Reachable s) (n : Node) (hn : (get? s.nmeta n).isSome) :
    (removeNode s n true).2 = .ok ∧
    (abs (removeNode s n true).1).weighted = s.weighted ∧
    (∀ k', n ∈ k'.2 → get? (abs (removeNode s n true).1).recs k' = none) ∧
    (∀ k', n ∉ k'.2 → (∀ k, (get? (abs s).recs k).isSome → n ∈ k.2 → shrinkKey n k = k' → k'.2 = []) →
      get? (abs (removeNode s n true).1).recs k' = get? (abs s).recs k') ∧
    (∀ k w md, get? (abs s).recs k = some (w, md) → n ∈ k.2 → (shrinkKey n k).2 ≠ [] →
      get? (abs (removeNode s n true).1).recs (shrinkKey n k) =
        some (Spec.recVal s.weighted (get? (abs s).recs (shrinkKey n k)) w md)) := by
  have hinv := reachable_inv hs
  obtain ⟨h1, h2⟩ := removeNode_abs s hinv n true
  rw [h1, h2]
  exact removeNode_keep_spec (abs s) (specWF_abs s hinv) n hn

/-! ## non-vacuity: the hypotheses hold on a concrete non-trivial history (`demoOps`: 13 calls with a re-insertion in
permuted node order, two rejected times, a copy, a removal, a shrink-merge by `remove_node(keep_edges=True)`, a weighted
batch) and the conclusions are the expected concrete values -/

example : ∀ op ∈ demoOps, op.WF := by decide
example : get? (run [] demoOps) 0 = some demoStore := by decide
example : Reachable demoStore := ⟨demoOps, by decide, 0, by decide⟩
example : StateInv (run [] demoOps) := C03_inv demoOps (by decide)
example : edgeKeys demoStore = [(0, [1, 2]), (3, [1, 2]), (4, [1, 5]), (5, [2, 3])] := by decide
example : window demoStore 3 5 = [(3, [1, 2]), (4, [1, 5])] := by decide
example : maxTime demoStore = some 5 ∧ minTime demoStore = some 0 ∧ timesFor demoStore [2, 1] = [0, 3] := by decide
example : weightOfKey demoStore (3, [1, 2]) = some 12 := by decide
example : ∃ res, aggregate demoStore (.int 2) = some res ∧ res.map (·.1) = [0, 1, 2] := by
  obtain ⟨res, h1, h2, _⟩ := (C03_aggregate demoStore ⟨demoOps, by decide, 0, by decide⟩ 2 (by decide)).2 5 (by decide)
  exact ⟨res, h1, by rw [h2]; decide⟩
example : (step [(0, demoStore)] (.on 0 (.addEdge [1] (.int (-1)) none none))).2 = .out .rej := by decide
example : (get? demoStore.adj 1).isSome = true := by decide
example : get? (specRun [] demoOps) 0 = some (abs demoStore) := by decide
example : (abs demoStore).recs = [((0, [1, 2]), (8, [])), ((3, [1, 2]), (12, [])), ((4, [1, 5]), (4, [])), ((5, [2, 3]), (2, []))] := by decide
example : Spec.answer (abs demoStore) (.degree 1 none none) = .int 3 ∧ answer demoStore (.degree 1 none none) = .int 3 := by decide
example : Reachable keepStore := ⟨keepOps, by decide, 0, by decide⟩
example : (get? keepStore.nmeta 1).isSome = true := by decide
example : (abs keepStore).recs =
    [((5, [1, 2, 3]), (8, [(0, 1)])), ((5, [2, 3]), (12, [])), ((6, [1]), (4, [])), ((6, [1, 4]), (2, []))] := by decide
example : shrinkKey 1 (5, [1, 2, 3]) = (5, [2, 3]) ∧ shrinkKey 1 (6, [1]) = (6, []) := by decide
example : (abs (removeNode keepStore 1 true).1).recs = [((5, [2, 3]), (20, [(0, 1)])), ((6, [4]), (2, []))] := by decide
example : answer (removeNode keepStore 1 true).1 (.incident 2 none none) = .recs [(5, [2, 3])] := by decide

/-! ## the whole object: incidence metadata, `copy()` and the other routes from one object to another
(strengthening round d; `Obj` = `Store` + `_incidences_metadata`, `FState`/`fstep`/`frun` = slots of whole objects with
the incidence calls and the routes `Route.copy` (`copy()`, deepcopy, pickle of the object: every table) and `Route.tables`
(`expose_data_structures` → `populate_from_dict`, the binary file format: every table but the incidence table)) -/

/-- **Projection.** Forgetting the incidence tables of a full history gives exactly the run of its base calls on the
machine of the theorems above (both routes become its slot copy, incidence calls and queries vanish): incidence metadata
never influence a record, a weight, a listing, a window, a snapshot or an aggregate, and every theorem above holds for
the base of every object of a full history - objects obtained through either route included (`C03_full_reachable`). -/
theorem C03_full_projection (ops : List FOp) :
    baseState (frun [] ops) = run [] (ops.filterMap FOp.toBase?) := frun_base ops []

theorem C03_full_reachable (o : Obj) (h : FReachable o) : Reachable o.base := freachable_base h

/-- **`copy()` is complete.** The object the copy route puts into slot `j` IS the content of slot `i` - every table,
the incidence table included - so every query whatsoever (base queries, `get_incidence_metadata`,
`get_all_incidences_metadata`) is answered on the copy as on the original; the original is still there. -/
theorem C03_copy_complete (st : FState) (i j : Nat) (o : Obj) (h : get? st i = some o) :
    get? (fstep st (.derive .copy i j)).1 j = some o ∧
    (∀ q, (fstep (fstep st (.derive .copy i j)).1 (.query j q)).2 = (fstep st (.query i q)).2) ∧
    (i ≠ j → get? (fstep st (.derive .copy i j)).1 i = some o) := by
  have h1 : get? (fstep st (.derive .copy i j)).1 j = some o := fstep_derive_get st .copy i j o h
  refine ⟨h1, ?_, ?_⟩
  · intro q; simp only [fstep, h] at h1 ⊢; rw [h1]
  · intro hij
    rw [fstep_other st (.derive .copy i j) i (by simp [FOp.target]; exact fun e => hij e.symm)]; exact h

/-- **The serialisation route** (`populate_from_dict(expose_data_structures())`, binary save / load) carries every table
except the incidence table: every base query is answered as on the source, `get_all_incidences_metadata()` is empty and
every `get_incidence_metadata` raises.  (This is why `copy()` must not be built on it - seeded change C03-d2.) -/
theorem C03_tables_route (st : FState) (i j : Nat) (o : Obj) (h : get? st i = some o) :
    get? (fstep st (.derive .tables i j)).1 j = some { base := o.base } ∧
    (∀ q, ({ base := o.base } : Obj).answer (.base q) = o.answer (.base q)) ∧
    ({ base := o.base } : Obj).answer .allInc = .incs [] ∧
    (∀ raw t n, ({ base := o.base } : Obj).answer (.inc raw t n) = .base .rej) := by
  refine ⟨fstep_derive_get st .tables i j o h, fun q => rfl, rfl, ?_⟩
  intro raw t n
  simp only [Obj.answer, getInc]
  cases recKey { base := o.base } raw t <;> rfl

/-- **Independence of the objects.** Calls that write other slots (any number of them, of any kind - a call on the
original after the copy was taken, a call on the copy, further copies elsewhere) leave the object of slot `k` as it is,
incidence table included. -/
theorem C03_copy_independent (st : FState) (ops : List FOp) (k : Nat) (hk : ∀ op ∈ ops, op.target ≠ some k) :
    get? (frun st ops) k = get? st k := frun_other ops st k hk

/-- **The incidence table** is written by `set_incidence_metadata` only: every other public mutating call - removal of
the record, removal of a node, `clear()` included, as in the code - leaves it as it is; `set_incidence_metadata` leaves all
other tables as they are, is accepted exactly when `(time, node set)` is a record (the node order of the hyperedge is
irrelevant, the node is not looked at), then the entry reads back and no other entry changes; rejected, it changes nothing. -/
theorem C03_incidence_table (o : Obj) :
    (∀ op, (o.apply (.base op)).1.inc = o.inc) ∧
    (∀ raw t n md, (setInc o raw t n md).1.base = o.base) ∧
    (∀ raw t n md k, recKey o raw t = some k →
      (setInc o raw t n md).2 = .ok ∧ getInc (setInc o raw t n md).1 raw t n = some md ∧
      ∀ p, p ≠ (k, n) → get? (setInc o raw t n md).1.inc p = get? o.inc p) ∧
    (∀ raw t n md, recKey o raw t = none → setInc o raw t n md = (o, .rej)) ∧
    (∀ r1 r2 : List Nat, r1.Perm r2 → ∀ t n md, setInc o r1 t n md = setInc o r2 t n md) := by
  refine ⟨fun op => rfl, setInc_base o, ?_, setInc_rej o, ?_⟩
  · intro raw t n md k hk
    obtain ⟨h1, _, h3, h4⟩ := setInc_ok o raw t n md k hk
    exact ⟨h1, h3, h4⟩
  · intro r1 r2 hp t n md
    simp only [setInc, recKey_perm o r1 r2 hp t]

/-! non-vacuity (`fullOps`: two records, three incidence entries - one for a node outside the hyperedge -, a rejected
one, an in-place edit, both routes, removal of the record on the original, later calls on the two derived objects) -/

example : ∀ op ∈ fullOps, op.WF := by decide
example : FReachable (fullObj 1) := ⟨fullOps, by decide, 1, by decide⟩
example : (fullObj 0).inc = [(((3, [1, 2]), 2), [(0, 5), (1, 4)]), (((3, [1, 2, 3]), 7), [(1, 1)])] := by decide
example : (fullObj 1).inc = (fullObj 0).inc ++ [(((3, [1, 2]), 1), [])] := by decide
example : (fullObj 2).inc = [] ∧ edgeKeys (fullObj 2).base = [(3, [1, 2]), (3, [1, 2, 3]), (0, [5])] ∧ (fullObj 2).base.nextId = 3 := by decide
/-- the entry of a removed record stays in the table (as in the code) but cannot be read while the record is absent -/
example : edgeKeys (fullObj 0).base = [(3, [1, 2, 3])] ∧ getInc (fullObj 0) [1, 2] (.int 3) 2 = none ∧
    getInc (fullObj 1) [2, 1] (.int 3) 2 = some [(0, 5), (1, 4)] := by decide
/-- witness for the seeded change C03-d2: the two routes differ on an object with an incidence entry -/
example : derive (fullObj 1) .copy ≠ derive (fullObj 1) .tables := by decide
example : recKey (fullObj 1) [2, 1] (.int 3) = some (3, [1, 2]) ∧ recKey (fullObj 1) [2, 1] (.int 4) = none := by decide
example : baseState (frun [] fullOps) = run [] (fullOps.filterMap FOp.toBase?) := C03_full_projection fullOps

/-! ## Round e: the kind of an answer is a matter of the options -/

/-- Whatever the content of the object and wherever a window lies: a query is either rejected, or its answer has the
kind (`Ans.kind`: list of records / map record ↦ metadata / map record ↦ weight / numbers / counts / snapshots / number /
truth value ...) that the query and its options call for (`Query.kind`); the only content-dependent case is
`min_time()` / `max_time()`, which answer `±inf` exactly on an object without records.  In particular
`get_edges(time_window, order|size, up_to, metadata=True)` is a map record ↦ metadata on every store and for every
window (seeded C03-e1: a fast path for windows that miss every record returned the empty LIST). -/
theorem C03_answer_kind (s : Store) (q : Query) :
    answer s q = .rej ∨ (answer s q).kind = q.kind ∨
      ((q = .minTime ∨ q = .maxTime) ∧ edgeKeys s = [] ∧ (answer s q).kind = .inf) := by
  have hmin := (C03_min_max_time s).1.1
  have hmax := (C03_min_max_time s).2.1
  have hopt : ∀ {α : Type} (o : Option α) (f : α → Ans) (k : Kind), (∀ a, (f a).kind = k) →
      optAns o f = .rej ∨ (optAns o f).kind = k := by
    intro α o f k hf
    cases o with
    | none => exact Or.inl rfl
    | some a => exact Or.inr (hf a)
  cases q with
  | edges w f m =>
    cases m <;> simp only [answer, V.answer, Query.kind] <;> (refine Or.imp_right Or.inl ?_; apply hopt; intro _; rfl)
  | weights f d =>
    cases d <;> simp only [answer, V.answer, Query.kind] <;> (refine Or.imp_right Or.inl ?_; apply hopt; intro _; rfl)
  | minTime =>
    cases h : V.minTime (view s) with
    | none => refine Or.inr (Or.inr ⟨Or.inl rfl, hmin.mp h, ?_⟩); simp [answer, V.answer, h, Ans.kind]
    | some t => refine Or.inr (Or.inl ?_); simp [answer, V.answer, h, Ans.kind, Query.kind]
  | maxTime =>
    cases h : V.maxTime (view s) with
    | none => refine Or.inr (Or.inr ⟨Or.inr rfl, hmax.mp h, ?_⟩); simp [answer, V.answer, h, Ans.kind]
    | some t => refine Or.inr (Or.inl ?_); simp [answer, V.answer, h, Ans.kind, Query.kind]
  | _ =>
    simp only [answer, V.answer, Query.kind]
    first
      | exact Or.inr (Or.inl rfl)
      | (refine Or.imp_right Or.inl ?_; apply hopt; intro _; rfl)

/-- A window that selects no record (it lies before the first or after the last time, between two times, is empty or
inverted - or the object has no records at all) is answered with the EMPTY container of the kind the options call for:
the empty list of records without `metadata`, the empty map record ↦ metadata with it, whatever the order / size /
up_to filter (rejected, as always, iff both `order` and `size` are given). -/
theorem C03_window_miss (s : Store) (a b : Int) (f : Filt) (m : Bool)
    (hmiss : ∀ k ∈ edgeKeys s, ¬ (a ≤ (k.1 : Int) ∧ (k.1 : Int) < b)) :
    (f.order.isSome ∧ f.size.isSome → answer s (.edges (.pair a b) f m) = .rej) ∧
    (¬ (f.order.isSome ∧ f.size.isSome) → answer s (.edges (.pair a b) f m) = if m then .recsMeta [] else .recs []) := by
  constructor
  · intro h
    have := (C03_get_edges_window s a b f).1 h
    simp only [getEdges] at this
    cases m <;> simp [answer, V.answer, this, optAns]
  · intro h
    obtain ⟨l, hl, hmem⟩ := (C03_get_edges_window s a b f).2 h
    have hnil : l = [] := by
      apply List.eq_nil_iff_forall_not_mem.mpr
      intro k hk
      have := (hmem k).mp hk
      exact hmiss k this.1 ⟨this.2.1, this.2.2.1⟩
    subst hnil
    simp only [getEdges] at hl
    cases m <;> simp [answer, V.answer, hl, optAns]

example : answer demoStore (.edges (.pair 6 9) {} true) = .recsMeta [] ∧ answer demoStore (.edges (.pair 6 9) {} false) = .recs [] ∧
    answer demoStore (.edges (.pair 1 3) { size := some 2 } true) = .recsMeta [] ∧
    answer (Store.new true) (.edges (.pair 0 5) {} true) = .recsMeta [] ∧
    (answer demoStore (.edges (.pair 3 5) {} true)).kind = .recsMeta ∧ (answer demoStore (.edges (.pair 3 5) {} false)).kind = .recs ∧
    (answer demoStore .minTime).kind = .int ∧ (answer (Store.new false) .maxTime).kind = .inf := by decide
example : ∀ k ∈ edgeKeys demoStore, ¬ ((6 : Int) ≤ (k.1 : Int) ∧ (k.1 : Int) < 9) := by decide

/-! ## Extension round: the constructor, the hashing view, the label mapping, the raw tables
(`Model/C03Ext.lean`: `construct`, `hashView`, `mapping`, `exposeTables` / `populate`, `edgeTable` / `adjTable`; the
machine `xstep` / `xrun` = the machine of the whole objects plus constructor calls `XOp.ctor` and the questions `XOp.ask`.
`CtorArgs.WF`: the hyperedges handed to the constructor are duplicate-free node tuples - the quantifier's node sets) -/

/-- **The constructor.** For all constructor arguments (`edge_list` with embedded times or with `time_list`, `weighted`,
`weights`, `hypergraph_metadata`, `node_metadata`, `edge_metadata`) whose hyperedges are node sets: the constructor of
the tables is accepted iff the constructor of the map is, and then the abstraction of the object IS the constructed map;
an accepted constructor call is the run of the public calls `ctorCalls a` (`set_hypergraph_metadata`, one `add_node` per
entry of `node_metadata`, ONE `add_edges`) on `TemporalHypergraph(weighted=w)`, all of them well-formed, so the object is
`Reachable` and every theorem above holds for constructed objects. -/
theorem C03_constructor (a : CtorArgs) (ha : a.WF) :
    (construct a).map abs = Spec.construct a ∧
    ∀ s, construct a = some s →
      (∃ calls, ctorCalls a = some calls ∧ (∀ c ∈ calls, c.WF) ∧ s = runCalls (Store.new a.weighted) calls) ∧
      Reachable s ∧ Spec.construct a = some (abs s) := by
  refine ⟨construct_abs a ha, fun s hs => ⟨?_, construct_reachable a ha s hs, ?_⟩⟩
  · obtain ⟨calls, h1, h2⟩ := construct_some a s hs
    exact ⟨calls, h1, ctorCalls_wf a ha calls h1, h2⟩
  · rw [← construct_abs a ha, hs]; rfl

/-- The constructor raises (there is no object) exactly when the time information has none of the accepted forms -
`time_list` without `edge_list`, an element of `edge_list` that is not a `(time, edge)` pair when `time_list` is missing,
lists of different lengths - or when the single `add_edges` call refuses the batch (`addEdgesOk`: a time that is not a
non-negative integer, wrong number of weights / metadata entries, a repeated hyperedge together with weights); this is
decided by the arguments alone. -/
theorem C03_constructor_rejects (a : CtorArgs) :
    construct a = none ↔
      (ctorBatch a.edges = none ∨ ∃ raws ts, ctorBatch a.edges = some (some (raws, ts)) ∧
        addEdgesOk raws ts a.weights a.edgeMeta = false) :=
  construct_none_iff a

/-- **Projection of histories with constructor calls.** Running any history over `XOp` (every call of the whole-object
machine, constructor calls into any slot - accepted or refused -, the new questions) gives the very state that the
whole-object machine reaches on the expanded history (`XOp.expand`: an accepted constructor call = `new` + `ctorCalls`,
a refused one and a question = nothing); well-formedness is preserved, so every object of such a history is `FReachable`
and its tables are `Reachable`. -/
theorem C03_ext_projection (ops : List XOp) (st : FState) :
    xrun st ops = frun st (ops.flatMap XOp.expand) ∧
    ((∀ op ∈ ops, op.WF) → ∀ b ∈ ops.flatMap XOp.expand, b.WF) ∧
    (∀ o, XReachable o → FReachable o ∧ Reachable o.base) :=
  ⟨xrun_expand ops st, expand_wf ops, fun _ h => ⟨xreachable_full h, freachable_base (xreachable_full h)⟩⟩

/-- **Refinement from any constructor call on.** For every history of well-formed calls over `XOp` (constructor calls
included): the abstraction of the tables of every slot is the run of the same history on the maps (`xspecRun`: base calls
as before, a constructor call = `Spec.construct`); every base query that does not expose ids is answered as by the map;
`expose_attributes_for_hashing()` and `get_mapping()` are answered as by the map (`Spec.xanswer`); every slot satisfies
the invariant. -/
theorem C03_ext_refines (ops : List XOp) (hwf : ∀ op ∈ ops, op.WF) :
    absState (baseState (xrun [] ops)) = xspecRun [] ops ∧ StateInv (baseState (xrun [] ops)) ∧
    (∀ i q, q.exposesIds = false →
      (xstep (xrun [] ops) (.f (.query i (.base q)))).2 =
        match get? (xspecRun [] ops) i with
        | none => .f (.ans (.base .rej))
        | some sp => .f (.ans (.base (Spec.answer sp q)))) ∧
    (∀ i xq sp a, get? (xspecRun [] ops) i = some sp → Spec.xanswer sp xq = some a →
      (xstep (xrun [] ops) (.ask i xq)).2 = .ans a) := by
  have hinv := xrun_inv ops hwf [] (by intro p hp; cases hp)
  have habs := xrun_abs ops hwf [] (by intro p hp; cases hp)
  have habs' : absState (baseState (xrun [] ops)) = xspecRun [] ops := habs
  refine ⟨habs', hinv, ?_, ?_⟩
  · intro i q hq
    rw [← habs']
    simp only [xstep, fstep, absState, get?_mapVals, get?_baseState]
    cases hg : get? (xrun [] ops) i with
    | none => rfl
    | some o =>
      have hi : Inv o.base := hinv (i, o.base) (mem_of_get? _ _ _ (by rw [get?_baseState, hg]; rfl))
      simp only [Option.map_some, Obj.answer]
      rw [answer_abs o.base hi q hq]
  · intro i xq sp a hsp ha
    rw [← habs'] at hsp
    simp only [absState, get?_mapVals, get?_baseState] at hsp
    cases hg : get? (xrun [] ops) i with
    | none => rw [hg] at hsp; simp at hsp
    | some o =>
      have hi : Inv o.base := hinv (i, o.base) (mem_of_get? _ _ _ (by rw [get?_baseState, hg]; rfl))
      rw [hg] at hsp
      simp only [Option.map_some, Option.some.injEq] at hsp
      subst hsp
      simp only [xstep, hg]
      cases xq with
      | hashing =>
        simp only [Spec.xanswer, Option.some.injEq] at ha
        subst ha
        simp only [xanswer, hashView_abs o.base hi]
      | mapping => simp only [Spec.xanswer, Option.some.injEq] at ha; subst ha; rfl
      | indexOf n => simp only [Spec.xanswer, Option.some.injEq] at ha; subst ha; rfl
      | edgeTable => simp [Spec.xanswer] at ha
      | adjTable => simp [Spec.xanswer] at ha
      | tables => simp [Spec.xanswer] at ha

/-- `expose_attributes_for_hashing()` on a reachable object never raises and returns the flag, the hypergraph metadata,
the entries of the map `(time, node set) ↦ (weight, metadata)` - exactly those, each once - in strictly increasing key
order (time first, then the sorted node tuple), and the nodes with their metadata in strictly increasing label order. -/
theorem C03_hashing (s : Store) (hs : Reachable s) :
    ∃ v, hashView s = some v ∧ v = Spec.hashView (abs s) ∧ v.weighted = s.weighted ∧ v.hmeta = s.hmeta ∧
      v.edges.Perm (abs s).recs ∧ v.edges.Pairwise (fun x y => ltKey x.1 y.1 = true) ∧
      v.nodes.Perm s.nmeta ∧ v.nodes.Pairwise (fun x y => x.1 < y.1) := by
  have h := reachable_inv hs
  refine ⟨_, hashView_abs s h, rfl, rfl, rfl, sortBy_perm _ _ _, ?_, sortBy_perm _ _ _, ?_⟩
  · exact sortBy_sorted _ _ st_ltKey _ (by
      show (keys (records s)).Nodup
      rw [keys_records]; exact h.keysNodup)
  · have := sortBy_sorted (fun (p : Node × Meta) => p.1) ltNat st_ltNat s.nmeta h.nt.nmetaNodup
    exact this.imp (fun hab => by simpa [ltNat] using hab)

/-- **The hashing view is canonical.** Two reachable objects (any histories, any insertion orders, any internal ids)
have the same `expose_attributes_for_hashing()` IFF they have the same weighted flag, the same hypergraph metadata, the
same records with weight and metadata and the same nodes with metadata as SETS: the view forgets exactly the history
(order, ids) and nothing of the content. -/
theorem C03_hashing_canonical (s1 s2 : Store) (h1 : Reachable s1) (h2 : Reachable s2) :
    hashView s1 = hashView s2 ↔
      s1.weighted = s2.weighted ∧ s1.hmeta = s2.hmeta ∧ (abs s1).recs.Perm (abs s2).recs ∧ s1.nmeta.Perm s2.nmeta := by
  have i1 := reachable_inv h1
  have i2 := reachable_inv h2
  rw [hashView_abs s1 i1, hashView_abs s2 i2]
  simp only [Option.some.injEq]
  exact Spec.hashView_eq_iff (abs s1) (abs s2)
    (by show (keys (records s1)).Nodup; rw [keys_records]; exact i1.keysNodup) i1.nt.nmetaNodup

/-- `get_mapping()`: the encoder's classes are exactly the nodes, each once, in strictly increasing label order; a
label is encoded (`transform`) iff it is a node, and the code of a node is its position in that list - a bijection
between the nodes and `0 .. num_nodes-1`. -/
theorem C03_mapping (s : Store) (hs : Reachable s) :
    (mapping s).Perm (keys s.nmeta) ∧ (mapping s).Pairwise (· < ·) ∧ (mapping s).length = (keys s.nmeta).length ∧
    (∀ n, (indexOf? (mapping s) n).isSome ↔ (get? s.nmeta n).isSome) ∧
    (∀ n i, indexOf? (mapping s) n = some i → (mapping s)[i]? = some n) := by
  have h := reachable_inv hs
  have hp : (mapping s).Perm (keys s.nmeta) := sortBy_perm _ _ _
  refine ⟨hp, ?_, hp.length_eq, fun n => ?_, fun n i hi => indexOf?_get _ n i hi⟩
  · have := sortBy_sorted (fun (n : Node) => n) ltNat st_ltNat (keys s.nmeta) (by simpa using h.nt.nmetaNodup)
    exact this.imp (fun hab => by simpa [ltNat] using hab)
  · rw [indexOf?_some_iff, hp.mem_iff, mem_keys_iff]

/-- The raw tables of a reachable object (`get_edge_list()`, `get_adj_dict()`, `expose_data_structures()`): the keys of
the edge table are the records; its ids are pairwise different and below `_next_edge_id`; the reverse table is its
inverse; `_weights` and `_edge_metadata` have exactly the live ids as keys; a node's adjacency list is exactly the ids of
the records containing it, in the order of the edge table; the adjacency table has exactly the nodes as keys. -/
theorem C03_raw_tables (s : Store) (hs : Reachable s) :
    keys (edgeTable s) = edgeKeys s ∧ ((edgeTable s).map (·.2)).Nodup ∧ (∀ p ∈ edgeTable s, p.2 < s.nextId) ∧
    (∀ k id, get? (edgeTable s) k = some id ↔ get? s.rev id = some k) ∧
    (∀ id, (get? s.weights id).isSome ↔ (get? s.rev id).isSome) ∧ (∀ id, (get? s.emeta id).isSome ↔ (get? s.rev id).isSome) ∧
    (∀ n ids, get? (adjTable s) n = some ids →
      ids = ((edgeTable s).filter (fun p => p.1.2.contains n)).map (·.2)) ∧
    (∀ n, (get? (adjTable s) n).isSome ↔ (get? s.nmeta n).isSome) := by
  have h := reachable_inv hs
  refine ⟨rfl, ids_nodup s h, ?_, fun k id => ⟨h.rev_of_edge k id, h.edge_of_rev k id⟩, h.wKeys, h.mKeys,
    fun n ids hg => h.adj_char n ids hg, h.nt.same⟩
  intro p hp
  exact h.id_lt _ _ (h.rev_of_edge _ _ (get?_of_mem _ _ _ h.keysNodup hp))

/-- `populate_from_dict(expose_data_structures())` rebuilds every table of `Store` - this IS the route `Route.tables`
of the whole-object machine (incidence table empty) - while `populate_from_dict({})` gives an unweighted object without
hypergraph metadata (not the constructor's `{"weighted": .., "type": ..}`). -/
theorem C03_expose_populate (s : Store) (o : Obj) :
    populate (exposeTables s) = s ∧ derive o .tables = { base := populate (exposeTables o.base) } ∧
    populate {} = { weighted := false } :=
  ⟨rfl, rfl, rfl⟩

/-! non-vacuity of the extension round: a constructor call with hypergraph metadata (one key colliding with "weighted"),
node metadata, the embedded form and a weighted batch on an unweighted object (promotion inside the constructor), then a
second object built by single calls in another order with other ids - same hashing view -, and one differing in a weight -/

def extArgs : CtorArgs :=
  { weighted := false, hm := some [(100, 7), (3, 4)], nodeMeta := [(9, [(1, 1)]), (2, [])],
    edges := .embedded [.pair (.int 5) [3, 1], .pair (.int 2) [2, 1], .pair (.int 5) [1, 2]],
    weights := some [8, 4, 6], edgeMeta := none }

def extStore : Store := (construct extArgs).getD (Store.new false)

def extOps2 : List XOp := [
  .f (.new 1 true),
  .f (.on 1 (.base (.addEdge [2, 1] (.int 5) (some 2) none))),
  .f (.on 1 (.base (.addEdge [1, 2] (.int 2) (some 4) none))),
  .f (.on 1 (.base (.removeEdge [1, 2] (.int 5)))),
  .f (.on 1 (.base (.addEdge [1, 3] (.int 5) (some 8) none))),
  .f (.on 1 (.base (.addEdge [1, 2] (.int 5) (some 6) none))),
  .f (.on 1 (.base (.addNode 9 (some [(1, 1)])))),
  .f (.on 1 (.base (.setHMeta [(100, 90), (3, 4), (101, 92)]))),
  .ctor 0 extArgs,
  .ctor 2 { edges := .timesOnly },
  .ask 0 .hashing]

def extStore2 : Store := ((get? (xrun [] extOps2) 1).map Obj.base).getD (Store.new false)

example : extArgs.WF := by decide
example : construct extArgs = some extStore := by decide
example : ∀ op ∈ extOps2, op.WF := by decide
example : Reachable extStore := (C03_constructor extArgs (by decide)).2 extStore (by decide) |>.2.1
example : extStore.weighted = true ∧ extStore.hmeta = [(100, 90), (3, 4), (101, 92)] ∧ extStore.nextId = 3 ∧
    (abs extStore).recs = [((5, [1, 3]), (8, [])), ((2, [1, 2]), (4, [])), ((5, [1, 2]), (6, []))] ∧
    keys extStore.nmeta = [9, 2, 1, 3] := by decide
example : ctorCalls extArgs = some [.setHMeta [(100, 90), (3, 4), (101, 92)], .addNode 9 (some [(1, 1)]), .addNode 2 (some []),
    .addEdges [[3, 1], [2, 1], [1, 2]] [.int 5, .int 2, .int 5] (some [8, 4, 6]) none] := rfl
example : construct { edges := .timesOnly } = none ∧ construct { edges := .embedded [.pair (.int 1) [1], .other] } = none ∧
    construct { edges := .separate [[1], [2]] [.int 1] } = none ∧ construct { edges := .separate [[1]] [.int (-1)] } = none ∧
    construct { edges := .separate [[1, 2], [1, 2]] [.int 1, .int 2], weights := some [4, 4] } = none ∧
    (construct { weighted := true, edges := .absent, weights := some [4] }).isSome = true := by decide
example : (get? (xrun [] extOps2) 0).map Obj.base = some extStore ∧ get? (xrun [] extOps2) 2 = none := by decide
example : hashView extStore = some ⟨true, [(100, 90), (3, 4), (101, 92)],
    [((2, [1, 2]), (4, [])), ((5, [1, 2]), (6, [])), ((5, [1, 3]), (8, []))],
    [(1, []), (2, []), (3, []), (9, [(1, 1)])]⟩ := by decide
example : extStore2.edgeList = [((2, [1, 2]), 1), ((5, [1, 3]), 2), ((5, [1, 2]), 3)] ∧ extStore ≠ extStore2 ∧
    hashView extStore = hashView extStore2 := by decide
example : hashView extStore ≠ hashView (setWeight extStore [1, 2] (.int 2) 8).1 := by decide
example : mapping extStore = [1, 2, 3, 9] ∧ indexOf? (mapping extStore) 9 = some 3 ∧ indexOf? (mapping extStore) 4 = none := by decide
example : edgeTable extStore = [((5, [1, 3]), 0), ((2, [1, 2]), 1), ((5, [1, 2]), 2)] ∧
    adjTable extStore = [(9, []), (2, [1, 2]), (1, [0, 1, 2]), (3, [0])] := by decide
example : populate (exposeTables extStore) = extStore ∧ populate { nextId := some 4 } = { weighted := false, nextId := 4 } := by decide
example : xrun [] extOps2 = frun [] (extOps2.flatMap XOp.expand) := (C03_ext_projection extOps2 []).1
example : get? (xspecRun [] extOps2) 0 = some (abs extStore) := by decide

/-! ## Second extension round: the raw setters; consecutive windows / snapshots / aggregate PARTITION the records -/

/-- **`set_edge_list` / `set_adj_dict` on EVERY object (reachable or not).** The getter after the setter returns what was
set, no other table moves (the dictionary of `expose_data_structures()` differs in that one entry only), handing a table
back is the identity, and the two setters commute. -/
theorem C03_raw_setters (s : Store) (t : List (Key × Nat)) (u : List (Node × List Nat)) :
    edgeTable (setEdgeList s t) = t ∧ adjTable (setAdjDict s u) = u ∧
    exposeTables (setEdgeList s t) = { exposeTables s with edgeList := some t } ∧
    exposeTables (setAdjDict s u) = { exposeTables s with adj := some u } ∧
    setEdgeList s (edgeTable s) = s ∧ setAdjDict s (adjTable s) = s ∧
    setAdjDict (setEdgeList s t) u = setEdgeList (setAdjDict s u) t ∧
    (setAdjDict s u).nmeta = s.nmeta ∧ records (setAdjDict s u) = records s :=
  ⟨rfl, rfl, rfl, rfl, rfl, rfl, rfl, rfl, rfl⟩

/-- **Histories with raw assignments that are echoes.** A history over `ROp` - every call of the extended machine
(constructor calls, all public mutators, copies and routes, questions) mixed with `set_edge_list` / `set_adj_dict` on any
slot - in which every raw assignment hands back (an equal copy of) the table the object holds at that moment ends in
exactly the state of its public calls alone; so, the public calls being well-formed, every slot satisfies the invariant,
the abstraction is the run of the maps, and every object is reachable: all earlier theorems apply to such histories. -/
theorem C03_raw_echo_history (ops : List ROp) (he : echoes [] ops = true) (hwf : ∀ op ∈ pubOps ops, op.WF) :
    rrun [] ops = xrun [] (pubOps ops) ∧ StateInv (baseState (rrun [] ops)) ∧
    absState (baseState (rrun [] ops)) = xspecRun [] (pubOps ops) ∧
    (∀ i o, get? (rrun [] ops) i = some o → Reachable o.base) := by
  have e := rrun_echo ops [] he
  have r := C03_ext_refines (pubOps ops) hwf
  rw [e]
  refine ⟨rfl, r.2.1, r.1, ?_⟩
  intro i o hg
  exact ((C03_ext_projection (pubOps ops) []).2.2 o ⟨pubOps ops, hwf, i, hg⟩).2

/-- **Consecutive half-open windows partition the records.** For `a ≤ b ≤ c` (on every store): a record is in the window
`(a, c)` iff it is in `(a, b)` or in `(b, c)`, never in both, and the listing of `(a, c)` is as long as the two together
(with `C03_window_listing`: each record of `[a, c)` is listed once in exactly one of the two). -/
theorem C03_windows_partition (s : Store) (a b c : Int) (hab : a ≤ b) (hbc : b ≤ c) :
    (∀ k, k ∈ window s a c ↔ (k ∈ window s a b ∨ k ∈ window s b c)) ∧
    (∀ k, ¬ (k ∈ window s a b ∧ k ∈ window s b c)) ∧
    (window s a c).length = (window s a b).length + (window s b c).length := by
  refine ⟨?_, ?_, window_length_split s a b c hab hbc⟩
  · intro k; simp only [mem_window]; constructor
    · rintro ⟨h1, h2, h3⟩
      by_cases h : (k.1 : Int) < b
      · exact .inl ⟨h1, h2, h⟩
      · exact .inr ⟨h1, by omega, h3⟩
    · rintro (⟨h1, h2, h3⟩ | ⟨h1, h2, h3⟩)
      · exact ⟨h1, h2, by omega⟩
      · exact ⟨h1, by omega, h3⟩
  · intro k; simp only [mem_window]; rintro ⟨⟨_, _, h3⟩, ⟨_, h5, _⟩⟩; omega

/-- **The per-time snapshots partition the records.** On a reachable object `subhypergraph()` (no window) succeeds, and
`(t, e)` is a record IFF the snapshot of time `t` exists and has the hyperedge `e`: every record lies in exactly one
snapshot (its time's), no snapshot has a hyperedge that is not a record of its time, and no snapshot is empty. -/
theorem C03_snapshots_partition (s : Store) (hs : Reachable s) :
    ∃ r, snapshots s .none = some r ∧
      (∀ t e, (t, e) ∈ edgeKeys s ↔ ∃ h, get? r t = some h ∧ (get? h.edges e).isSome = true) ∧
      (∀ t h, get? r t = some h → ∃ e, (t, e) ∈ edgeKeys s) := by
  obtain ⟨r, hr, h1, h2⟩ := (C03_snapshot s hs .none).2 none none (.inl ⟨rfl, rfl, rfl⟩)
  refine ⟨r, hr, ?_, ?_⟩
  · intro t e
    constructor
    · intro hk
      have hsome : (get? r t).isSome = true := (h1 t).mpr ⟨by simp [insideOpt], (t, e), hk, rfl⟩
      obtain ⟨h, hh⟩ := Option.isSome_iff_exists.mp hsome
      exact ⟨h, hh, ((h2 t h hh).2.1 e).mpr hk⟩
    · rintro ⟨h, hh, he⟩
      exact ((h2 t h hh).2.1 e).mp he
  · intro t h hh
    obtain ⟨_, k, hk, hkt⟩ := (h1 t).mp (by rw [hh]; rfl)
    exact ⟨k.2, by rw [← hkt]; exact hk⟩

/-- **The windows of `aggregate(w)` partition the time axis and the records.** `w` a positive integer, reachable object with
a record: time `t` lies in window `j` (`j·w ≤ t < (j+1)·w`) IFF `j = ⌊t / w⌋`; every record `(t, e)` has its window
`⌊t / w⌋` among the results and `e` is a hyperedge of that window's hypergraph - and (by `C03_aggregate`) of no other
window's unless another record of the same node set falls there. -/
theorem C03_aggregate_partition (s : Store) (hs : Reachable s) (i : Int) (hi : 0 < i) (M : Nat) (hM : maxTime s = some M) :
    (∀ j t, (j * i.toNat ≤ t ∧ t < (j + 1) * i.toNat) ↔ j = t / i.toNat) ∧
    ∃ res, aggregate s (.int i) = some res ∧
      (∀ t e, (t, e) ∈ edgeKeys s → ∃ h, (t / i.toNat, h) ∈ res ∧ (get? h.edges e).isSome = true) ∧
      (∀ j h e, (j, h) ∈ res → (get? h.edges e).isSome = true → ∃ t, (t, e) ∈ edgeKeys s ∧ t / i.toNat = j) := by
  have hw : 0 < i.toNat := by omega
  refine ⟨window_index i.toNat hw, ?_⟩
  obtain ⟨res, hr, hmap, hall⟩ := (C03_aggregate s hs i hi).2 M hM
  refine ⟨res, hr, ?_, ?_⟩
  · intro t e hk
    have hle : t ≤ M := ((C03_min_max_time s).2.2 M hM).2 (t, e) hk
    have hj : t / i.toNat ∈ res.map (·.1) := by
      rw [hmap, List.mem_range]
      exact Nat.lt_succ_of_le (Nat.div_le_div_right hle)
    obtain ⟨p, hp, hpj⟩ := List.mem_map.mp hj
    refine ⟨p.2, by rw [← hpj]; exact hp, ?_⟩
    have hp' : (p.1, p.2) ∈ res := hp
    exact ((hall p.1 p.2 hp').2.2.1 e).mpr ⟨t, hk, by rw [hpj]; exact ((window_index i.toNat hw _ t).mpr rfl)⟩
  · intro j h e hm he
    obtain ⟨t, hk, h1, h2⟩ := ((hall j h hm).2.2.1 e).mp he
    exact ⟨t, hk, ((window_index i.toNat hw j t).mp ⟨h1, h2⟩).symm⟩

def rawOps : List ROp := [
  .x (.ctor 0 extArgs),
  .setEdgeList 0 [((5, [1, 3]), 0), ((2, [1, 2]), 1), ((5, [1, 2]), 2)],
  .x (.f (.on 0 (.base (.removeEdge [1, 2] (.int 2))))),
  .setAdjDict 0 [(9, []), (2, [2]), (1, [0, 2]), (3, [0])],
  .setAdjDict 5 [],
  .x (.f (.on 0 (.base (.addEdge [2, 9] (.int 7) (some 4) none))))]

example : echoes [] rawOps = true ∧ (∀ op ∈ pubOps rawOps, op.WF) ∧ (pubOps rawOps).length = 3 := by decide
example : rrun [] rawOps = xrun [] (pubOps rawOps) := (C03_raw_echo_history rawOps (by decide) (by decide)).1
-- an assignment that is NOT an echo: the object stops answering like the map (node 1 loses its incident records)
example : echoes [] [.x (.ctor 0 extArgs), .setAdjDict 0 (dropAt (adjTable extStore) 2)] = false ∧
    adjTable (setAdjDict extStore (dropAt (adjTable extStore) 2)) = [(9, []), (2, [1, 2]), (3, [0])] ∧
    edgeTable (setEdgeList extStore (dropAt (edgeTable extStore) 0)) = [((2, [1, 2]), 1), ((5, [1, 2]), 2)] ∧
    revAt (adjTable extStore) 2 = [(9, []), (2, [1, 2]), (1, [2, 1, 0]), (3, [0])] := by decide
example : window extStore 2 6 = [(2, [1, 2]), (5, [1, 2]), (5, [1, 3])] ∧ window extStore 2 5 = [(2, [1, 2])] ∧
    window extStore 5 6 = [(5, [1, 2]), (5, [1, 3])] := by decide
example : (snapshots extStore .none).map (fun r => r.map (fun p => (p.1, keys p.2.edges))) =
    some [(5, [[1, 3], [1, 2]]), (2, [[1, 2]])] := by decide
example : maxTime extStore = some 5 ∧ ∃ res, aggregate extStore (.int 3) = some res ∧
    (∃ h, (1, h) ∈ res ∧ (get? h.edges [1, 3]).isSome = true) ∧ (∃ h, (0, h) ∈ res ∧ (get? h.edges [1, 2]).isSome = true) := by
  have hr : Reachable extStore := (C03_constructor extArgs (by decide)).2 extStore (by decide) |>.2.1
  obtain ⟨_, res, h1, h2, _⟩ := C03_aggregate_partition extStore hr 3 (by decide) 5 (by decide)
  exact ⟨by decide, res, h1, h2 5 [1, 3] (by decide), h2 2 [1, 2] (by decide)⟩
