import Hgxv.Model.C03
open C03

/-- queries never change the state (the model's `step` returns the state it was given) -/
theorem C03_pure (st : State) (i : Nat) (q : Query) : (step st (.query i q)).1 = st := by
  simp only [step]; split <;> rfl
