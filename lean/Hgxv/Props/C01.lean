import Hgxv.Model.C01
/-! # C01 - property theorems (see `Hgxv/Model/C01.lean` for the model, `notes/C01.md` for the reading) -/
open C01 AL

/-- the queries that take the `order/size/up_to` arguments -/
def C01.filterQueries (n : Node) : List (Filter → Query) :=
  [Query.edges, Query.edgesMeta, Query.numEdges, Query.weights, Query.weightsDict, Query.incident n,
   Query.neighbors n, Query.degree n, Query.degreeSeq, Query.degreeDist, Query.isolated, Query.isIsolated n]

/-- **Filters.** For every store and every query with a filter: `size = k` answers exactly as `order = k - 1`
(with the same `up_to`); giving both `order` and `size` is rejected; and the hyperedge listing with
`order = o` keeps exactly the keys with `len - 1 = o`, with `up_to` exactly those with `len - 1 ≤ o`.
No hypothesis: holds in every state. -/
theorem C01_filters (s : Store) (n : Node) (k o : Int) (u : Bool) :
    (∀ q ∈ C01.filterQueries n,
        answer s (q { size := some k, upTo := u }) = answer s (q { order := some (k - 1), upTo := u })
      ∧ answer s (q { order := some o, size := some k, upTo := u }) = Ans.rej)
    ∧ answer s (.edges { order := some o }) = .edges ((keys s.edgeList).filter fun e => (e.length : Int) - 1 == o)
    ∧ answer s (.edges { order := some o, upTo := true })
        = .edges ((keys s.edgeList).filter fun e => decide ((e.length : Int) - 1 ≤ o)) := by
  refine ⟨?_, ?_, ?_⟩
  · intro q hq
    simp only [C01.filterQueries, List.mem_cons, List.not_mem_nil, or_false] at hq
    rcases hq with h | h | h | h | h | h | h | h | h | h | h | h <;> subst h <;>
      simp [answer, edgesF, incidentF, neighborsF, degreeSeqF, Filter.resolve, ofOpt]
  · simp only [answer, edgesF, Filter.resolve, ofOpt, Option.map]
    congr 1
  · simp only [answer, edgesF, Filter.resolve, ofOpt, Option.map]
    congr 1

/-- non-vacuity: a store with keys of sizes 3, 2, 0; `size=2`, `order=1`, `order=1, up_to`, both -/
example :
    let s := (run (init 1) [.on 0 (.addEdge [3, 1, 2] none none), .on 0 (.addEdge [2, 1] none none),
                            .on 0 (.addEdge [] none none)])
    query s 0 (.edges { size := some 2 }) = .edges [[1, 2]] ∧
    query s 0 (.edges { order := some 1 }) = .edges [[1, 2]] ∧
    query s 0 (.edges { order := some 1, upTo := true }) = .edges [[1, 2], []] ∧
    query s 0 (.edges { order := some 1, size := some 2 }) = .rej := by decide
