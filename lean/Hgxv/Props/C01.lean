import Hgxv.Proofs.C01Cor
import Hgxv.Proofs.C01Query
import Hgxv.Proofs.C01Shrink
import Hgxv.Proofs.C01Batch
import Hgxv.Proofs.C01X
import Hgxv.Proofs.C01Sub
import Hgxv.Proofs.C01SubOrders
import Hgxv.Proofs.C01SubEdges
import Hgxv.Proofs.C01SubOrdersDrop
import Hgxv.Proofs.C01Ext
import Hgxv.Proofs.C01Lcc
/-! # C01 - property theorems

Model and vocabulary: `Hgxv/Model/C01.lean` (concrete `Store`/`step`/`answer`, abstract `Spec`); helper lemmas:
`Hgxv/Proofs/C01Basic.lean` (association lists, `canon`), `C01Inv.lean` (`Inv` and the primitive updates),
`C01Ops.lean` (public operations, histories), `C01Cor.lean` (corollaries), `C01Abs.lean` / `C01Ref.lean` /
`C01Query.lean` (abstraction, one-step commutation for the 18 operations, the 32 queries, histories).

Hypotheses used below and why they are the property's own:
* `c.WF` for every command of a history: every raw hyperedge handed to `add_edge(s)` is a duplicate-free
  node tuple (the quantifier speaks of node *sets*).
* `C01.Reachable s`: `s` is a slot of the state after some history of well-formed public calls
  (`new`, `copy`, and the 18 mutating calls), starting from fresh hypergraphs. -/
open C01 AL

/-- states reachable by a history of well-formed public calls -/
def C01.Reachable (s : Store) : Prop :=
  ∃ (k : Nat) (cs : List Cmd) (i : Nat), (∀ c ∈ cs, c.WF) ∧ (run (init k) cs)[i]? = some s

/-- the queries that take the `order/size/up_to` arguments -/
def C01.filterQueries (n : Node) : List (Filter → Query) :=
  [Query.edges, Query.edgesMeta, Query.numEdges, Query.weights, Query.weightsDict, Query.incident n,
   Query.neighbors n, Query.degree n, Query.degreeSeq, Query.degreeDist, Query.isolated, Query.isIsolated n]

/-- a history with a re-insertion in another node order, a removal and re-insertion, a weight update, a
`remove_node(keep_edges=True)` that merges `{1,2,3}` into `{1,2}`, a rejected batch, a copy and a batched
node removal on the copy; used by the non-vacuity examples -/
def C01.demo : List Cmd :=
  [.new 0 true [], .on 0 (.addEdge [3, 1, 2] (some 8) (some [(2, 5)])), .on 0 (.addEdge [2, 1] (some 4) none),
   .on 0 (.addEdge [1, 2, 3] (some 6) none), .on 0 (.addEdge [4, 3] none none), .on 0 (.removeEdge [3, 4]),
   .on 0 (.addEdge [3, 4] (some 2) none), .on 0 (.addNodes [7, 8] none), .on 0 (.setWeight [2, 1] 12),
   .on 0 (.removeNode 3 true), .on 0 (.removeEdges [[1, 2], [2, 1]]), .copy 0 1,
   .on 1 (.removeNodes [1, 4] false)]

theorem C01.demo_wf : ∀ c ∈ C01.demo, c.WF := by
  intro c hc
  simp only [C01.demo, List.mem_cons, List.not_mem_nil, or_false] at hc
  rcases hc with h | h | h | h | h | h | h | h | h | h | h | h | h <;> subst h <;> simp [Cmd.WF, Op.WF]

/-- **Invariant for every history.** After any finite sequence of well-formed public calls every slot satisfies
`Inv`: `_reverse_edge_list` inverts `_edge_list`, keys are canonical and listed once, weights / metadata tables
have exactly the ids in use, `_adj[n]` holds exactly the ids of the hyperedges containing `n` - each once -
every node of every hyperedge is a node, node metadata has exactly the nodes, ids are below `_next_edge_id`. -/
theorem C01_inv (k : Nat) (cs : List Cmd) (hwf : ∀ c ∈ cs, c.WF) : ∀ s ∈ run (init k) cs, Inv s :=
  run_inv cs (init k) hwf (init_inv k)

theorem C01.Reachable.inv {s : Store} (h : C01.Reachable s) : Inv s := by
  obtain ⟨k, cs, i, hwf, hs⟩ := h
  exact C01_inv k cs hwf s (List.mem_of_getElem? hs)

/-- non-vacuity: the demo history is well-formed, and it does what its comment says -/
example : (∀ c ∈ C01.demo, c.WF) ∧
    query (run (init 2) C01.demo) 0 (.weightsDict {}) = .ews [([1, 2], 26), ([4], 2)] ∧
    query (run (init 2) C01.demo) 1 (.nodes) = .nats [2, 7, 8] :=
  ⟨C01.demo_wf, by decide, by decide⟩

/-- the hypothesis `WF` is needed (and is where the quantifier's "node sets" enters): the code accepts a tuple
with a repeated node and then lists that hyperedge twice for the node - as does the model -/
example : query (run (init 1) [.on 0 (.addEdge [1, 1] none none)]) 0 (.incident 1 {}) = .edges [[1, 1], [1, 1]] := by
  decide

/-- **Refinement: every query, after every history, is answered as the abstract hypergraph of that history.**
`Spec` is a list of nodes with metadata plus an association list from node sets to (weight, metadata);
`Spec.step` is the plain map update, `Spec.query` a filter / map over those two lists.  For every number of
slots, every finite history of well-formed public calls (`new`, `copy`, the 18 mutating calls, accepted or
rejected), every slot and every query (32 kinds, every `order/size/up_to` filter) the tables of the
implementation model answer *identically* (same value, same listing order).  Since `cs` is arbitrary the
statement holds after every prefix of a history. -/
theorem C01_refines (k : Nat) (cs : List Cmd) (hwf : ∀ c ∈ cs, c.WF) (i : Nat) (q : Query) :
    query (run (init k) cs) i q = Spec.query (Spec.run (Spec.init k) cs) i q :=
  query_sim _ _ (run_sim cs _ _ hwf (init_sim k)) i q

/-- the same for states and outcomes: the abstract state after a history is the abstraction (forget the ids)
of the concrete one, slot by slot, and the next well-formed command is accepted by the one iff by the other -/
theorem C01_refines_state (k : Nat) (cs : List Cmd) (hwf : ∀ c ∈ cs, c.WF) (c : Cmd) (hc : c.WF) :
    Spec.run (Spec.init k) cs = (run (init k) cs).map abs ∧
    (step (run (init k) cs) c).2 = (Spec.step (Spec.run (Spec.init k) cs) c).2 := by
  have h := run_sim cs _ _ hwf (init_sim k)
  exact ⟨h.1, (step_sim _ _ c hc h).2⟩

/-- the abstract states are what the property calls them: the node list and the key list are duplicate-free,
every key is a duplicate-free sorted node tuple (a node *set*), and all its nodes are nodes of the hypergraph -/
theorem C01_spec_wellformed (k : Nat) (cs : List Cmd) (hwf : ∀ c ∈ cs, c.WF) :
    ∀ a ∈ Spec.run (Spec.init k) cs,
      (keys a.nodes).Nodup ∧ (keys a.edges).Nodup ∧
      ∀ e ∈ keys a.edges, e.Nodup ∧ canon e = e ∧ ∀ n ∈ e, n ∈ keys a.nodes := by
  intro a ha
  rw [(C01_refines_state k cs hwf (.copy 0 0) trivial).1] at ha
  obtain ⟨s, hs, rfl⟩ := List.mem_map.mp ha
  have h := C01_inv k cs hwf s hs
  refine ⟨by rw [nodes_keys h]; exact h.adj_nodup, by rw [abs_keys]; exact h.el_nodup, ?_⟩
  intro e he
  rw [abs_keys] at he
  obtain ⟨id, hid⟩ := Option.isSome_iff_exists.mp ((C01.mem_keys_iff _ _).mp he)
  refine ⟨(h.key_canon e id hid).1, (h.key_canon e id hid).2, ?_⟩
  intro n hn
  rw [nodes_keys h, C01.mem_keys_iff]
  exact h.nodes_in id e (h.rev_of_edge _ _ hid) n hn

/-- non-vacuity: the spec run of the demo history gives the expected (non-trivial) answers, and a rejected
command is rejected by the spec as well -/
example :
    Spec.query (Spec.run (Spec.init 2) C01.demo) 0 (.weightsDict {}) = .ews [([1, 2], 26), ([4], 2)] ∧
    Spec.query (Spec.run (Spec.init 2) C01.demo) 0 (.degreeSeq {}) = .pairs [(1, 1), (2, 1), (4, 1), (7, 0), (8, 0)] ∧
    Spec.query (Spec.run (Spec.init 2) C01.demo) 1 (.nodesMeta) = .nmetas [(2, []), (7, []), (8, [])] ∧
    (Spec.step (Spec.run (Spec.init 2) (C01.demo.take 10)) (.on 0 (.removeEdges [[1, 2], [2, 1]]))).2 = .rej := by
  decide

/-- **Incident exactly once, and to no other node.** In every reachable state: a hyperedge key is listed once;
every node of a key is a node of the hypergraph; and for a node `n` and any admissible filter,
`get_incident_edges(n, …)` lists without repetition exactly the keys that contain `n` (and pass the filter),
so a key is never reported for a node it does not contain; `degree` is the number of those keys. -/
theorem C01_incident_once (s : Store) (hr : C01.Reachable s) (n : Node) (f : Filter) (o : Option Int)
    (hf : f.resolve = some o) :
    (keys s.edgeList).Nodup ∧
    (∀ e ∈ keys s.edgeList, n ∈ e → answer s (.checkNode n) = .bool true) ∧
    (answer s (.checkNode n) = .bool true →
      ∃ L, answer s (.incident n f) = .edges L ∧ L.Nodup ∧
        (∀ e, e ∈ L ↔ (e ∈ keys s.edgeList ∧ n ∈ e ∧ keepEdge o false e = true)) ∧
        answer s (.degree n f) =
          .int ((keys s.edgeList).filter fun e => decide (n ∈ e) && keepEdge o false e).length) := by
  have h := hr.inv
  refine ⟨h.el_nodup, ?_, ?_⟩
  · intro e he hne
    obtain ⟨id, hid⟩ := Option.isSome_iff_exists.mp ((C01.mem_keys_iff _ _).mp he)
    have := h.nodes_in id e (h.rev_of_edge _ _ hid) n hne
    simp [answer, this]
  · intro hn
    have hn' : (get? s.adj n).isSome = true := by simpa [answer] using hn
    obtain ⟨hnd, hmem⟩ := h.incidentKeys_spec n hn'
    have hL : (List.filter (keepEdge o false) (incidentKeys s n)).Nodup := (List.filter_sublist).nodup hnd
    have hmemL : ∀ e, e ∈ List.filter (keepEdge o false) (incidentKeys s n) ↔
        (e ∈ keys s.edgeList ∧ n ∈ e ∧ keepEdge o false e = true) := by
      intro e
      rw [List.mem_filter, hmem e, C01.mem_keys_iff]
      constructor
      · rintro ⟨⟨a, b⟩, c⟩; exact ⟨a, b, c⟩
      · rintro ⟨a, b, c⟩; exact ⟨⟨a, b⟩, c⟩
    refine ⟨(incidentKeys s n).filter (keepEdge o false), ?_, hL, hmemL, ?_⟩
    · simp [answer, incidentF, hn', hf, ofOpt]
    · have hperm : ((incidentKeys s n).filter (keepEdge o false)).Perm
          ((keys s.edgeList).filter fun e => decide (n ∈ e) && keepEdge o false e) := by
        rw [List.perm_ext_iff_of_nodup hL ((List.filter_sublist).nodup h.el_nodup)]
        intro e
        rw [hmemL e, List.mem_filter]
        simp
      simp [answer, incidentF, hn', hf, ofOpt, hperm.length_eq]

/-- non-vacuity: node 1 of the demo prefix has two incident hyperedges, node 5 is not a node -/
example :
    query (run (init 2) (C01.demo.take 7)) 0 (.incident 1 {}) = .edges [[1, 2, 3], [1, 2]] ∧
    query (run (init 2) (C01.demo.take 7)) 0 (.incident 3 { size := some 2 }) = .edges [[3, 4]] ∧
    query (run (init 2) (C01.demo.take 7)) 0 (.checkNode 5) = .bool false := by decide

/-- **Node order is irrelevant.** Every entry point that takes a hyperedge behaves identically on any two
listings of the same node set (in every state, no hypothesis): `add_edge`, `remove_edge`, `set_weight`,
`set_edge_metadata`, `set_attr_to_edge_metadata`, `remove_attr_from_edge_metadata`, `check_edge`, `get_weight`,
`get_edge_metadata`; `remove_edges` and `add_edges` on batches whose members are re-listed.  The one
hypothesis, for `add_edges` **with weights** only: that call first tests the *raw* tuples for repetitions
(`[(1,2),(2,1)]` passes, `[(1,2),(1,2)]` is rejected), so the two listings must agree on that test. -/
theorem C01_order_irrelevant (s : Store) (r1 r2 : List Nat) (hp : r1.Perm r2) :
    (∀ w md, apply s (.addEdge r1 w md) = apply s (.addEdge r2 w md)) ∧
    apply s (.removeEdge r1) = apply s (.removeEdge r2) ∧
    (∀ w, apply s (.setWeight r1 w) = apply s (.setWeight r2 w)) ∧
    (∀ md, apply s (.setEdgeMeta r1 md) = apply s (.setEdgeMeta r2 md)) ∧
    (∀ k v, apply s (.setAttrEdge r1 k v) = apply s (.setAttrEdge r2 k v)) ∧
    (∀ k, apply s (.delAttrEdge r1 k) = apply s (.delAttrEdge r2 k)) ∧
    answer s (.checkEdge r1) = answer s (.checkEdge r2) ∧
    answer s (.weight r1) = answer s (.weight r2) ∧
    answer s (.edgeMeta r1) = answer s (.edgeMeta r2) ∧
    (∀ ps : List (List Nat × List Nat), (∀ p ∈ ps, p.1.Perm p.2) →
      apply s (.removeEdges (ps.map (·.1))) = apply s (.removeEdges (ps.map (·.2))) ∧
      ∀ ws mds, (ws.isSome = true → ((ps.map (·.1)).Nodup ↔ (ps.map (·.2)).Nodup)) →
        apply s (.addEdges (ps.map (·.1)) ws mds) = apply s (.addEdges (ps.map (·.2)) ws mds)) := by
  have hc := canon_eq_of_perm hp
  refine ⟨?_, ?_, ?_, ?_, ?_, ?_, ?_, ?_, ?_, ?_⟩
  · intro w md; simp only [apply, addEdge, hc]
  · simp only [apply, removeEdge, hc]
  · intro w; simp only [apply, setWeight, hc]
  · intro md; simp only [apply, setEdgeMeta, hc]
  · intro k v; simp only [apply, setAttrEdge, hc]
  · intro k; simp only [apply, delAttrEdge, hc]
  · simp only [answer, hc]
  · simp only [answer, hc]
  · simp only [answer, hc]
  · intro ps h; exact ⟨removeEdges_congr s ps h, fun ws mds hnd => addEdges_congr s ps h ws mds hnd⟩

/-- non-vacuity: two different listings of `{1,2,3}` -/
example : [3, 1, 2].Perm [1, 2, 3] ∧ [3, 1, 2] ≠ [1, 2, 3] := by decide

/-- **Re-insertion.** In a reachable state, an accepted `add_edge` of a hyperedge that is already present
(under any listing of its nodes) leaves the key list, the incidence lists and the nodes as they are; in a
weighted hypergraph the stored weight becomes old + given (given = 1 when omitted), in an unweighted one it
stays (= 1); weight and metadata of every other hyperedge are untouched. (The metadata of the re-inserted
hyperedge is replaced by the given one - `add_edge` documents that.) -/
theorem C01_reinsert (s : Store) (hr : C01.Reachable s) (raw : List Nat) (w : Option Int) (md : Option Meta)
    (hpres : answer s (.checkEdge raw) = .bool true) (hacc : (apply s (.addEdge raw w md)).2 = .ok) :
    let s' := (apply s (.addEdge raw w md)).1
    s'.edgeList = s.edgeList ∧ s'.adj = s.adj ∧ s'.nmeta = s.nmeta ∧
    weightOf s' (canon raw) = (if s.weighted then weightOf s (canon raw) + w.getD one else one) ∧
    (s.weighted = false → weightOf s (canon raw) = one) ∧
    (∀ e, e ≠ canon raw → weightOf s' e = weightOf s e ∧ emetaOf s' e = emetaOf s e) := by
  have h := hr.inv
  have hp : (get? s.edgeList (canon raw)).isSome = true := by simpa [answer] using hpres
  obtain ⟨id, hid⟩ := Option.isSome_iff_exists.mp hp
  have hw1 : (get? s.weights id).isSome := by rw [h.w_dom]; simp [h.rev_of_edge _ _ hid]
  obtain ⟨w0, hw0⟩ := Option.isSome_iff_exists.mp hw1
  simp only [apply] at hacc ⊢
  rw [addEdge_present s raw w md id hid hacc]
  refine ⟨rfl, rfl, rfl, ?_, ?_, ?_⟩
  · cases hwt : s.weighted with
    | true => simp [weightOf, addEdgeOld, hid, hwt, hw0]
    | false => simp [weightOf, addEdgeOld, hid, hwt, hw0, h.unw_one hwt id w0 hw0]
  · intro hwt; exact h.weightOf_one hwt hp
  · intro e he
    cases hge : get? s.edgeList e with
    | none => simp [weightOf, emetaOf, addEdgeOld, hge]
    | some id' =>
      have hne : id ≠ id' := by
        intro heq; subst heq; exact he (h.id_inj hge hid)
      constructor
      · simp only [weightOf, addEdgeOld, hge, Option.bind_some]
        split
        · rw [get?_set_ne _ _ _ _ hne]
        · rfl
      · simp only [emetaOf, addEdgeOld, hge, Option.bind_some]
        rw [get?_set_ne _ _ _ _ hne]

/-- non-vacuity: step 3 of the demo re-inserts `{1,2,3}` as `[1,2,3]` after `[3,1,2]`: 8 + 6 = 14; the same
on an unweighted hypergraph keeps weight 1 (= 4 quanta) -/
example :
    query (run (init 2) (C01.demo.take 3)) 0 (.checkEdge [1, 2, 3]) = .bool true ∧
    query (run (init 2) (C01.demo.take 4)) 0 (.weight [2, 3, 1]) = .int 14 ∧
    query (run (init 1) [.on 0 (.addEdge [3, 1] none none), .on 0 (.addEdge [1, 3] (some 4) none)]) 0
      (.weightsDict {}) = .ews [([1, 3], 4)] := by decide

/-- **A rejected call changes nothing.** For every history of well-formed calls and every next command
(single or batched, well-formed or not): if it is rejected, the whole state - every table of every slot -
is exactly what it was. -/
theorem C01_rejected_noop (k : Nat) (cs : List Cmd) (hwf : ∀ c ∈ cs, c.WF) (c : Cmd)
    (hrej : (step (run (init k) cs) c).2 = .rej) : (step (run (init k) cs) c).1 = run (init k) cs :=
  step_rej _ c (C01_inv k cs hwf) hrej

/-- the same for one hypergraph: a rejected operation returns the store unchanged -/
theorem C01_rejected_noop_store (s : Store) (hr : C01.Reachable s) (op : Op)
    (hrej : (apply s op).2 = .rej) : (apply s op).1 = s :=
  apply_rej s op hr.inv hrej

/-- non-vacuity: rejected calls occur - a batch with a repeated member (command 10 of the demo), a batch
with a missing member, a weight on an unweighted hypergraph, short metadata list, `remove_node` of a non-node -/
example :
    (step (run (init 2) (C01.demo.take 10)) (.on 0 (.removeEdges [[1, 2], [2, 1]]))).2 = .rej ∧
    (step (run (init 2) (C01.demo.take 10)) (.on 0 (.removeNodes [1, 3] true))).2 = .rej ∧
    (step (run (init 2) (C01.demo.take 10)) (.on 1 (.addEdge [1, 2] (some 8) none))).2 = .rej ∧
    (step (run (init 2) (C01.demo.take 10)) (.on 0 (.addEdges [[1, 5], [5, 6]] (some [4, 4]) (some [[]])))).2 = .rej ∧
    (step (run (init 2) (C01.demo.take 10)) (.on 0 (.removeNode 3 false))).2 = .rej := by decide

/-- **`remove_node`, declaratively: dropping or shrinking the incident hyperedges.**  `Spec.removeNode` is written as the
code runs (re-insert each incident hyperedge without the node, remove the incident ones, drop the node); this theorem
says what that *is*, for every abstract state `a` of every history and every node `n` of it
(`Spec.weightOf` / `Spec.emetaOf` read 0 / `[]` for an absent key):
* `keep_edges=False`: accepted; the node list loses exactly `n`; a key is looked up as before unless it contains `n`,
  and then it is gone;
* `keep_edges=True`: accepted; the node list loses exactly `n`; the new key set is exactly `{ e \ {n} : e a key }`
  (nothing is dropped, nothing else appears, no key contains `n`); in a weighted hypergraph the weight of a key `x`
  is its old weight plus the weights of the hyperedges containing `n` that shrink onto it (so a shrunk hyperedge that
  meets an existing one *adds* its weight, and one that is new carries its weight over); in an unweighted one every
  weight stays 1; a key onto which no hyperedge shrinks keeps weight and metadata; a key onto which one shrinks gets the
  metadata of a hyperedge that shrinks onto it.
With `C01_refines` / `C01_refines_state` the same holds for the tables of the implementation model. -/
theorem C01_remove_node (k : Nat) (cs : List Cmd) (hwf : ∀ c ∈ cs, c.WF) (a : Spec)
    (ha : a ∈ Spec.run (Spec.init k) cs) (n : Node) (hn : n ∈ keys a.nodes) :
    (∃ a', Spec.removeNode a n false = (a', .ok) ∧ keys a'.nodes = (keys a.nodes).filter (· ≠ n) ∧
        a'.weighted = a.weighted ∧ a'.hmeta = a.hmeta ∧
        ∀ x, get? a'.edges x = if n ∈ x then none else get? a.edges x) ∧
    (∃ a', Spec.removeNode a n true = (a', .ok) ∧ keys a'.nodes = (keys a.nodes).filter (· ≠ n) ∧
        a'.weighted = a.weighted ∧ a'.hmeta = a.hmeta ∧
        (∀ x, x ∈ keys a'.edges ↔ ∃ e ∈ keys a.edges, e.filter (· ≠ n) = x) ∧
        (a.weighted = true → ∀ x, n ∉ x → Spec.weightOf a' x = Spec.weightOf a x +
            (((Spec.incidentKeys a n).filter (fun e => decide (e.filter (· ≠ n) = x))).map (Spec.weightOf a)).sum) ∧
        (a.weighted = false → ∀ x ∈ keys a'.edges, Spec.weightOf a' x = one) ∧
        (∀ x, n ∉ x → (∀ e ∈ keys a.edges, n ∈ e → e.filter (· ≠ n) ≠ x) → get? a'.edges x = get? a.edges x) ∧
        (∀ x, (∃ e ∈ keys a.edges, n ∈ e ∧ e.filter (· ≠ n) = x) →
          ∃ e ∈ keys a.edges, n ∈ e ∧ e.filter (· ≠ n) = x ∧ Spec.emetaOf a' x = Spec.emetaOf a e)) := by
  rw [(C01_refines_state k cs hwf (.copy 0 0) trivial).1] at ha
  obtain ⟨s, hs, rfl⟩ := List.mem_map.mp ha
  have hswf := abs_swf (C01_inv k cs hwf s hs)
  have hn' : (get? (abs s).nodes n).isSome := (C01.mem_keys_iff _ _).mp hn
  obtain ⟨a1, d1, d2, d3, d4, d5⟩ := spec_removeNode_drop _ hswf n hn'
  obtain ⟨a2, k1, k2, k3, k4, k5, k6, k7, k8, k9⟩ := spec_removeNode_keep _ hswf n hn'
  refine ⟨⟨a1, d1, by rw [d2, keys_del], d3, d4, d5⟩, a2, k1, by rw [k2, keys_del], k3, k4, ?_, ?_, ?_, ?_, ?_⟩
  · intro x
    rw [C01.mem_keys_iff, k6 x]
    constructor
    · rintro ⟨e, h1, h2⟩; exact ⟨e, (C01.mem_keys_iff _ _).mpr h1, h2⟩
    · rintro ⟨e, h1, h2⟩; exact ⟨e, (C01.mem_keys_iff _ _).mp h1, h2⟩
  · intro hw x hx; exact k7 hw x hx
  · intro hw x hx
    obtain ⟨p, hp⟩ := Option.isSome_iff_exists.mp ((C01.mem_keys_iff _ _).mp hx)
    obtain ⟨w, md⟩ := p
    rw [(spec_weightOf_get a2 x w md hp).1]
    exact k5.unw (by rw [k3]; exact hw) x w md hp
  · intro x hx hno
    exact k8 x hx (fun e he hne => hno e ((C01.mem_keys_iff _ _).mpr he) hne)
  · rintro x ⟨e, h1, h2, h3⟩
    obtain ⟨e', g1, g2, g3, g4⟩ := k9 x ⟨e, (C01.mem_keys_iff _ _).mp h1, h2, h3⟩
    exact ⟨e', (C01.mem_keys_iff _ _).mpr g1, g2, g3, g4⟩

/-- non-vacuity: in the demo history, after command 9, node 3 lies in `{1,2,3}` (weight 14) and `{3,4}` (weight 2) next to
`{1,2}` (weight 12): shrinking merges 14 into 12 and turns `{3,4}` into `{4}`; dropping leaves `{1,2}` alone -/
example : ∃ a ∈ Spec.run (Spec.init 2) (C01.demo.take 9), 3 ∈ keys a.nodes ∧ a.weighted = true ∧
    (a.edges.map fun p => (p.1, p.2.1)) = [([1, 2, 3], 14), ([1, 2], 12), ([3, 4], 2)] ∧
    ((Spec.removeNode a 3 true).1.edges.map fun p => (p.1, p.2.1)) = [([1, 2], 26), ([4], 2)] ∧
    ((Spec.removeNode a 3 false).1.edges.map fun p => (p.1, p.2.1)) = [([1, 2], 12)] := by
  refine ⟨_, List.mem_cons_self, ?_⟩
  decide

/-- **Filters.** For every store and every query with a filter: `size = k` answers exactly as `order = k - 1`
(with the same `up_to`); giving both `order` and `size` is rejected; and the hyperedge listing with
`order = o` keeps exactly the keys with `len - 1 = o`, with `up_to` exactly those with `len - 1 ≤ o`.
No hypothesis: holds in every state. -/
theorem C01_filters (s : Store) (n : Node) (k o : Int) (u : Bool) :
    (∀ q ∈ C01.filterQueries n,
        answer s (q { size := some k, upTo := u }) = answer s (q { order := some (k - 1), upTo := u })
      ∧ answer s (q { order := some o, size := some k, upTo := u }) = Ans.rej)
    ∧ answer s (.edges { order := some o }) = .edges ((keys s.edgeList).filter fun e => (e.length : Int) - 1 == o)
    ∧ answer s (.edges { order := some o, upTo := true })
        = .edges ((keys s.edgeList).filter fun e => decide ((e.length : Int) - 1 ≤ o)) := by
  refine ⟨?_, ?_, ?_⟩
  · intro q hq
    simp only [C01.filterQueries, List.mem_cons, List.not_mem_nil, or_false] at hq
    rcases hq with h | h | h | h | h | h | h | h | h | h | h | h <;> subst h <;>
      simp [answer, edgesF, incidentF, neighborsF, degreeSeqF, Filter.resolve, ofOpt]
  · simp only [answer, edgesF, Filter.resolve, ofOpt, Option.map]
    congr 1
  · simp only [answer, edgesF, Filter.resolve, ofOpt, Option.map]
    congr 1

/-- non-vacuity: a store with keys of sizes 3, 2, 0; `size=2`, `order=1`, `order=1, up_to`, both -/
example :
    let s := (run (init 1) [.on 0 (.addEdge [3, 1, 2] none none), .on 0 (.addEdge [2, 1] none none),
                            .on 0 (.addEdge [] none none)])
    query s 0 (.edges { size := some 2 }) = .edges [[1, 2]] ∧
    query s 0 (.edges { order := some 1 }) = .edges [[1, 2]] ∧
    query s 0 (.edges { order := some 1, upTo := true }) = .edges [[1, 2], []] ∧
    query s 0 (.edges { order := some 1, size := some 2 }) = .rej := by decide

/-- **Single or batched.** For every store (no hypothesis) and every batched call that is accepted: running its members
one call each - `seqOps apply` stops at the first rejection, as a caller would - rejects nowhere and ends in the very
same store (hence, by `C01_refines`, in the same abstract hypergraph and the same answer to every query):
`add_nodes(ns, md)` = `add_node(n, md[n])` for `n` in `ns`; `remove_edges`, `remove_nodes(.., keep_edges)` likewise;
`add_edges(es, weights, metadata)` = `add_edge(es[i], weights[i], metadata[i])` in order (last clause: that is what the
`i`-th triple is), started from the store after the EMPTY batch `add_edges([], weights=[])`, which is all a batch with
weights does beyond its members (it switches an unweighted hypergraph to weighted; without weights it is the identity).
Weights are arbitrary `Int` quanta: no magnitude or mix of magnitudes inside one batch is special. -/
theorem C01_batched_is_sequence (s : Store) :
    (∀ ns mds, (apply s (.addNodes ns mds)).2 = .ok →
        seqOps apply s (ns.map fun n => Op.addNode n (mds.bind fun t => get? t n)) = apply s (.addNodes ns mds))
    ∧ (∀ raws ws mds, (apply s (.addEdges raws ws mds)).2 = .ok →
        seqOps apply (apply s (.addEdges [] (ws.map fun _ => []) none)).1
          ((zipArgs raws ws mds).map fun x => Op.addEdge x.1 (if ws.isSome then x.2.1 else none) x.2.2)
          = apply s (.addEdges raws ws mds))
    ∧ (∀ raws, (apply s (.removeEdges raws)).2 = .ok →
        seqOps apply s (raws.map Op.removeEdge) = apply s (.removeEdges raws))
    ∧ (∀ ns keep, (apply s (.removeNodes ns keep)).2 = .ok →
        seqOps apply s (ns.map fun n => Op.removeNode n keep) = apply s (.removeNodes ns keep))
    ∧ (∀ ws : Option (List Int),
        (apply s (.addEdges [] (ws.map fun _ => []) none)).1 = { s with weighted := s.weighted || ws.isSome })
    ∧ (∀ (raws : List (List Nat)) (ws : Option (List Int)) (mds : Option (List Meta)) (i : Nat),
        (zipArgs raws ws mds)[i]? = raws[i]?.map fun r => (r, ws.bind (·[i]?), mds.bind (·[i]?))) :=
  ⟨C01.addNodes_singles s, C01.addEdges_singles s, C01.removeEdges_singles s, C01.removeNodes_singles s,
   C01.addEdges_empty s, C01.zipArgs_getElem?⟩

/-- non-vacuity: on the UNWEIGHTED store after `add_edge((7, 8))` the batch `add_edges([(1,2),(2,3,4),(2,1)],
weights=[2^53 + 1, 1/2, 3])` (quanta of 1/4: an integer beyond 2^53 next to a fraction in one batch; `{1,2}` twice in
two node orders) is accepted, its three single calls are accepted, both give `{7,8}: 1, {1,2}: 2^53 + 4, {2,3,4}: 1/2`,
and the hypergraph is weighted afterwards -/
example :
    let s := (apply (Store.new false []) (.addEdge [7, 8] none none)).1
    let big : Int := 4 * (2 ^ 53 + 1)
    let b := Op.addEdges [[1, 2], [2, 3, 4], [2, 1]] (some [big, 2, 12]) none
    (apply s b).2 = .ok ∧
    seqOps apply { s with weighted := true }
      [.addEdge [1, 2] (some big) none, .addEdge [2, 3, 4] (some 2) none, .addEdge [2, 1] (some 12) none] = apply s b ∧
    answer (apply s b).1 (.weightsDict {}) = .ews [([7, 8], 4), ([1, 2], 4 * (2 ^ 53 + 4)), ([2, 3, 4], 2)] ∧
    answer (apply s b).1 .isWeighted = .bool true := by decide

/-! ## Extension round: the whole object and the extraction routines

Vocabulary: `Hgxv/Model/C01X.lean`.  `Full` = the tables of `Store` + `_incidences_metadata` + `_empty_edges`;
`FCmd` = constructor | `copy` | every `Op`, `set_incidence_metadata`, `add_empty_edge` on a slot | extraction
(`subhypergraph`, `subhypergraph_by_orders`, `get_edges(subhypergraph=True)`) from slot `i` into slot `j`;
`FQuery` = every `Query` + `get_incidence_metadata` + `get_all_incidences_metadata`.  The extraction routines are modelled
as the code runs them (calls of the public mutators on a fresh object, every `raise` on the way = `rej`).
Hypothesis `c.WF` as before (raw hyperedges handed to `add_edge(s)` are duplicate-free); nothing is assumed about the
arguments of the new calls. -/

/-- a history over all four kinds of commands: an incidence entry under an unsorted spelling for a node that is none, a
rejected `set_incidence_metadata` (absent hyperedge), a rejected second `add_empty_edge`, an induced sub-hypergraph, a
rejected one (absent node), an extraction by orders without the isolated nodes, a removal after which the incidence entry
is stale, a `get_edges(size=2, subhypergraph=True, keep_isolated_nodes=True)`, and `clear()` on a copy -/
def C01.demoX : List FCmd :=
  [.new 0 true [], .on 0 (.base (.addEdge [3, 1, 2] (some 8) (some [(2, 5)]))), .on 0 (.base (.addEdge [2, 1] (some 4) none)),
   .on 0 (.base (.addEdge [4, 3] none none)), .on 0 (.base (.addNode 9 (some [(1, 1)]))),
   .on 0 (.setIncMeta [2, 1] 7 [(2, 3)]), .on 0 (.setIncMeta [5, 1] 7 [(2, 3)]),
   .on 0 (.addEmptyEdge 3 []), .on 0 (.addEmptyEdge 3 [(0, 0)]),
   .extract 0 1 (.sub [1, 2, 9]), .extract 0 2 (.sub [1, 2, 8]), .extract 0 2 (.orders (some [1, 2]) none false),
   .copy 0 3, .on 3 (.base .clear), .on 0 (.base (.removeEdge [1, 2])), .extract 0 3 (.edges { size := some 2 } true)]

theorem C01.demoX_wf : ∀ c ∈ C01.demoX, c.WF := by
  intro c hc
  simp only [C01.demoX, List.mem_cons, List.not_mem_nil, or_false] at hc
  rcases hc with h | h | h | h | h | h | h | h | h | h | h | h | h | h | h | h <;> subst h <;>
    simp [FCmd.WF, FOp.WF, Op.WF]

/-- **Refinement of the whole object, for every history and every query.**  After any finite sequence of constructor
calls, copies, the 18 mutating calls, `set_incidence_metadata`, `add_empty_edge` and extractions (`subhypergraph`,
`subhypergraph_by_orders`, `get_edges(subhypergraph=True)`, accepted or rejected), every query - the 32 of `C01_refines`,
`get_incidence_metadata`, `get_all_incidences_metadata` - on every slot is answered by the tables exactly as by the abstract
hypergraph (node list + map from node sets to (weight, metadata) + the two side tables) that went through the same calls. -/
theorem C01_full_refines (k : Nat) (cs : List FCmd) (hwf : ∀ c ∈ cs, c.WF) (i : Nat) (q : FQuery) :
    fquery (frun (finit k) cs) i q = FSpec.query (FSpec.run (FSpec.init k) cs) i q :=
  fquery_sim _ _ (frun_sim cs _ _ hwf (finit_sim k)) i q

/-- state form: the abstract state is the abstraction of the concrete one slot by slot, every slot (also every extracted
object) satisfies the representation invariant, and the next command - in particular the next extraction - is accepted by
the tables iff it is accepted by the abstract hypergraph -/
theorem C01_full_refines_state (k : Nat) (cs : List FCmd) (hwf : ∀ c ∈ cs, c.WF) (c : FCmd) (hc : c.WF) :
    FSpec.run (FSpec.init k) cs = (frun (finit k) cs).map fabs ∧
    (∀ s ∈ frun (finit k) cs, Inv s.base) ∧
    (fstep (frun (finit k) cs) c).2 = (FSpec.step (FSpec.run (FSpec.init k) cs) c).2 := by
  have h := frun_sim cs _ _ hwf (finit_sim k)
  exact ⟨h.1, h.2, (fstep_sim _ _ c hc h).2⟩

/-- non-vacuity: the demo history does what its comment says (slot 1: induced by {1,2,9}; slot 2: hyperedges of order
1 and 2 with their nodes only; slot 3: after the removal of {1,2} only {3,4} has size 2, all five nodes kept; slot 0 keeps
the stale incidence entry, and `get_incidence_metadata` raises for it) -/
example : (∀ c ∈ C01.demoX, c.WF) ∧
    fquery (frun (finit 4) C01.demoX) 1 (.base (.weightsDict {})) = .base (.ews [([1, 2], 4)]) ∧
    fquery (frun (finit 4) C01.demoX) 1 (.base .nodesMeta) = .base (.nmetas [(1, []), (2, []), (9, [(1, 1)])]) ∧
    fquery (frun (finit 4) C01.demoX) 2 (.base (.weightsDict {})) = .base (.ews [([1, 2], 4), ([3, 4], 4), ([1, 2, 3], 8)]) ∧
    fquery (frun (finit 4) C01.demoX) 2 (.base .nodes) = .base (.nats [1, 2, 3, 4]) ∧
    fquery (frun (finit 4) C01.demoX) 3 (.base (.weightsDict {})) = .base (.ews [([3, 4], 4)]) ∧
    fquery (frun (finit 4) C01.demoX) 3 (.base .nodes) = .base (.nats [1, 2, 3, 4, 9]) ∧
    fquery (frun (finit 4) C01.demoX) 0 .allIncMeta = .imetas [(([2, 1], 7), [(2, 3)])] ∧
    fquery (frun (finit 4) C01.demoX) 0 (.incMeta [2, 1] 7) = .base .rej ∧
    fquery (frun (finit 4) C01.demoX) 3 .allIncMeta = .imetas [] :=
  ⟨C01.demoX_wf, by decide, by decide, by decide, by decide, by decide, by decide, by decide, by decide, by decide⟩

/-- **A rejected call leaves the whole state unchanged** - also a rejected extraction (absent node in `subhypergraph`,
`orders` and `sizes` both or neither given, `order` and `size` both given), a rejected `set_incidence_metadata` (absent
hyperedge) and a rejected `add_empty_edge` (name taken): no slot, no table changes. -/
theorem C01_full_rejected_noop (k : Nat) (cs : List FCmd) (hwf : ∀ c ∈ cs, c.WF) (c : FCmd)
    (h : (fstep (frun (finit k) cs) c).2 = .rej) : (fstep (frun (finit k) cs) c).1 = frun (finit k) cs :=
  fstep_rej _ c (frun_sim cs _ _ hwf (finit_sim k)).2 h

/-- non-vacuity: commands 6, 8 and 10 of the demo history are rejected -/
example :
    (fstep (frun (finit 4) (C01.demoX.take 6)) (.on 0 (.setIncMeta [5, 1] 7 [(2, 3)]))).2 = .rej ∧
    (fstep (frun (finit 4) (C01.demoX.take 8)) (.on 0 (.addEmptyEdge 3 [(0, 0)]))).2 = .rej ∧
    (fstep (frun (finit 4) (C01.demoX.take 10)) (.extract 0 2 (.sub [1, 2, 8]))).2 = .rej ∧
    (fstep (frun (finit 4) (C01.demoX.take 10)) (.extract 0 2 (.orders none none true))).2 = .rej ∧
    (fstep (frun (finit 4) (C01.demoX.take 10)) (.extract 0 2 (.edges { order := some 1, size := some 2 } false))).2 = .rej := by
  decide

/-- **The whole-object machine extends the machine of `C01_refines`**: on a history of base commands its node / hyperedge
tables are exactly the states of `C01.run`, and the base queries are answered alike.  (So everything proved about
`C01.run` - `C01_inv`, `C01_incident_once`, `C01_reinsert`, ... - holds for the tables of the whole object.) -/
theorem C01_full_extends (k : Nat) (cs : List Cmd) :
    (frun (finit k) (cs.map Cmd.lift)).map (·.base) = run (init k) cs ∧
    ∀ i q, fquery (frun (finit k) (cs.map Cmd.lift)) i (.base q) = .base (query (run (init k) cs) i q) := by
  have h1 : (frun (finit k) (cs.map Cmd.lift)).map (·.base) = run (init k) cs := by
    rw [frun_lift, finit_base]
  refine ⟨h1, ?_⟩
  intro i q
  rw [← h1]
  simp only [fquery, query, List.getElem?_map]
  cases (frun (finit k) (cs.map Cmd.lift))[i]? <;> rfl

example : (frun (finit 2) (C01.demo.map Cmd.lift)).map (·.base) = run (init 2) C01.demo := (C01_full_extends 2 C01.demo).1

/-- **One extraction call** on the tables of any reachable object is matched by the same routine on its abstraction: same
outcome, the new object's abstraction is the abstract result, and the new object (new ids from 0) satisfies `Inv`. -/
theorem C01_extraction_refines (s : Store) (hr : C01.Reachable s) (x : Extract) :
    abs (extract s x).1 = (Spec.extract (abs s) x).1 ∧ (extract s x).2 = (Spec.extract (abs s) x).2 ∧
      Inv (extract s x).1 :=
  sim_extract s x hr.inv

/-- **What `subhypergraph(nodes)` is** (the abstract routine is written as the code runs: `add_nodes`, then
`set_node_metadata(get_node_metadata)` per listed node, then `add_edge(get_weight, get_edge_metadata)` per hyperedge inside
the list).  For every abstract hypergraph `a` of every history: the call is accepted iff every listed node is a node
(repetitions are fine); then the new hypergraph has the source's weighted flag, the constructor's hypergraph metadata,
exactly the listed nodes with the source's metadata, and exactly the source's hyperedges all of whose nodes are listed - in
the source's order, each with the source's weight and metadata. -/
theorem C01_subhypergraph (k : Nat) (cs : List FCmd) (hwf : ∀ c ∈ cs, c.WF) (a : FSpec)
    (ha : a ∈ FSpec.run (FSpec.init k) cs) (ns : List Node) :
    ((Spec.subhypergraph a.base ns).2 = .ok ↔ ∀ n ∈ ns, (get? a.base.nodes n).isSome) ∧
    ((∀ n ∈ ns, (get? a.base.nodes n).isSome) →
      (Spec.subhypergraph a.base ns).1.weighted = a.base.weighted ∧
      (Spec.subhypergraph a.base ns).1.hmeta = initHMeta a.base.weighted [] ∧
      (∀ m, get? (Spec.subhypergraph a.base ns).1.nodes m = if m ∈ ns then get? a.base.nodes m else none) ∧
      keys (Spec.subhypergraph a.base ns).1.edges = (keys a.base.edges).filter (insideOf ns) ∧
      ∀ x, get? (Spec.subhypergraph a.base ns).1.edges x = if insideOf ns x then get? a.base.edges x else none) := by
  have h := frun_sim cs _ _ hwf (finit_sim k)
  rw [h.1] at ha
  obtain ⟨s, hs, rfl⟩ := List.mem_map.mp ha
  exact spec_subhypergraph (abs s.base) (abs_swf (h.2 s hs)) ns

/-- non-vacuity: slot 0 of the demo history after command 9, nodes [1, 2, 9] (accepted; the result is slot 1 above) and
[1, 2, 8] (8 is no node) -/
example : ∃ a ∈ FSpec.run (FSpec.init 4) (C01.demoX.take 9),
    (∀ n ∈ [1, 2, 9], (get? a.base.nodes n).isSome) ∧ ¬ (∀ n ∈ [1, 2, 8], (get? a.base.nodes n).isSome) ∧
    keys (Spec.subhypergraph a.base [1, 2, 9]).1.edges = [[1, 2]] ∧ keys a.base.edges = [[1, 2, 3], [1, 2], [3, 4]] :=
  ⟨_, List.mem_of_getElem? (show (FSpec.run (FSpec.init 4) (C01.demoX.take 9))[0]? = some _ from rfl),
    by decide, by decide, by decide, by decide⟩

/-- **What `subhypergraph_by_orders(orders | sizes)` is** (default `keep_nodes=True`; the abstract routine is written as the
code runs: `add_nodes(get_nodes())`, `set_node_metadata(get_node_metadata)` per node, then for every size of
`dict.fromkeys(sizes)` - orders are sizes minus one - `add_edge(get_weight, get_edge_metadata)` per hyperedge of
`get_edges(size=size)`).  For every abstract hypergraph `a` of every history: the call raises iff `orders` and `sizes` are
both given or both missing (whatever `keep_nodes`); otherwise it is accepted, and the new hypergraph has the source's
weighted flag, the constructor's hypergraph metadata, all the source's nodes with their metadata, and exactly the source's
hyperedges whose size is listed, each ONCE (also when a size is listed twice: no weight is added twice) with the source's
weight and metadata, listed size by size in order of first mention and within a size in the source's order. -/
theorem C01_subhypergraph_by_orders (k : Nat) (cs : List FCmd) (hwf : ∀ c ∈ cs, c.WF) (a : FSpec)
    (ha : a ∈ FSpec.run (FSpec.init k) cs) (os ks : Option (List Int)) :
    (sizesArg os ks = none → ∀ keep, (Spec.subOrders a.base os ks keep).2 = .rej) ∧
    (∀ sz, sizesArg os ks = some sz →
      (Spec.subOrders a.base os ks true).2 = .ok ∧
      (Spec.subOrders a.base os ks true).1.weighted = a.base.weighted ∧
      (Spec.subOrders a.base os ks true).1.hmeta = initHMeta a.base.weighted [] ∧
      (∀ m, get? (Spec.subOrders a.base os ks true).1.nodes m = get? a.base.nodes m) ∧
      keys (Spec.subOrders a.base os ks true).1.edges = edgesOfSizes sz (keys a.base.edges) ∧
      ∀ x, get? (Spec.subOrders a.base os ks true).1.edges x =
        if (x.length : Int) ∈ sz then get? a.base.edges x else none) := by
  have h := frun_sim cs _ _ hwf (finit_sim k)
  rw [h.1] at ha
  obtain ⟨s, hs, rfl⟩ := List.mem_map.mp ha
  exact spec_subOrders_keep (abs s.base) (abs_swf (h.2 s hs)) os ks

/-- non-vacuity: slot 0 of the demo history after command 9 (hyperedges {1,2,3}:8, {1,2}:4, {3,4}:4, node 9 isolated),
orders [1, 2, 1] = sizes [2, 3, 2]: both hyperedges of size 2 first, then {1,2,3}; no weight doubled -/
example : ∃ a ∈ FSpec.run (FSpec.init 4) (C01.demoX.take 9),
    sizesArg (some [1, 2, 1]) none = some [2, 3, 2] ∧ sizesArg (some [1]) (some [2]) = none ∧ sizesArg none none = none ∧
    keys (Spec.subOrders a.base (some [1, 2, 1]) none true).1.edges = [[1, 2], [3, 4], [1, 2, 3]] ∧
    get? (Spec.subOrders a.base (some [1, 2, 1]) none true).1.edges [1, 2] = some (4, []) ∧
    keys (Spec.subOrders a.base (some [1, 2, 1]) none true).1.nodes = [1, 2, 3, 4, 9] :=
  ⟨_, List.mem_of_getElem? (show (FSpec.run (FSpec.init 4) (C01.demoX.take 9))[0]? = some _ from rfl),
    by decide, by decide, by decide, by decide, by decide, by decide⟩

/-- **`subhypergraph_by_orders(.., keep_nodes=False)`**: accepted whenever exactly one of `orders` / `sizes` is given; the
hyperedges are those of `C01_subhypergraph_by_orders` (each once, source order within a size, the source's weight and
metadata), and the nodes are exactly the nodes of the selected hyperedges, with the source's metadata - isolated nodes and
nodes of other hyperedges are gone. -/
theorem C01_subhypergraph_by_orders_drop_nodes (k : Nat) (cs : List FCmd) (hwf : ∀ c ∈ cs, c.WF) (a : FSpec)
    (ha : a ∈ FSpec.run (FSpec.init k) cs) (os ks : Option (List Int)) (sz : List Int) (hsz : sizesArg os ks = some sz) :
    (Spec.subOrders a.base os ks false).2 = .ok ∧
    (Spec.subOrders a.base os ks false).1.weighted = a.base.weighted ∧
    (Spec.subOrders a.base os ks false).1.hmeta = initHMeta a.base.weighted [] ∧
    (∀ m, get? (Spec.subOrders a.base os ks false).1.nodes m =
      if m ∈ (edgesOfSizes sz (keys a.base.edges)).flatten then get? a.base.nodes m else none) ∧
    keys (Spec.subOrders a.base os ks false).1.edges = edgesOfSizes sz (keys a.base.edges) ∧
    ∀ x, get? (Spec.subOrders a.base os ks false).1.edges x =
      if (x.length : Int) ∈ sz then get? a.base.edges x else none := by
  have h := frun_sim cs _ _ hwf (finit_sim k)
  rw [h.1] at ha
  obtain ⟨s, hs, rfl⟩ := List.mem_map.mp ha
  exact spec_subOrders_drop (abs s.base) (abs_swf (h.2 s hs)) os ks sz hsz

/-- non-vacuity: slot 0 of the demo history after command 9, `sizes=[2]`, `keep_nodes=False`: {1,2} and {3,4} with the
nodes 1..4; node 9 (isolated) is gone -/
example : ∃ a ∈ FSpec.run (FSpec.init 4) (C01.demoX.take 9),
    sizesArg none (some [2]) = some [2] ∧
    keys (Spec.subOrders a.base none (some [2]) false).1.edges = [[1, 2], [3, 4]] ∧
    keys (Spec.subOrders a.base none (some [2]) false).1.nodes = [1, 2, 3, 4] ∧ 9 ∈ keys a.base.nodes :=
  ⟨_, List.mem_of_getElem? (show (FSpec.run (FSpec.init 4) (C01.demoX.take 9))[0]? = some _ from rfl),
    by decide, by decide, by decide, by decide⟩

/-- **What `get_edges(order, size, up_to, subhypergraph=True, keep_isolated_nodes)` is** (the abstract routine is written as
the code runs: optionally `add_nodes(get_nodes())`, then ONE `add_edges(edges, [get_weight(e) for e in edges])` resp.
`add_edges(edges)`, then `set_node_metadata(get_node_metadata)` for every node the new object has, then
`set_edge_metadata(get_edge_metadata)` per selected hyperedge).  For every abstract hypergraph `a` of every history: the call
raises iff `order` and `size` are both given; otherwise it is accepted, and the new hypergraph has the source's weighted flag,
the constructor's hypergraph metadata, exactly the source's hyperedges that pass the filter - in the source's order, each with the
source's weight and metadata - and as nodes, with the source's metadata: ALL nodes of the source with `keep_isolated_nodes`,
exactly the nodes of the selected hyperedges without. -/
theorem C01_get_edges_subhypergraph (k : Nat) (cs : List FCmd) (hwf : ∀ c ∈ cs, c.WF) (a : FSpec)
    (ha : a ∈ FSpec.run (FSpec.init k) cs) (f : Filter) (iso : Bool) :
    (f.resolve = none → (Spec.subEdges a.base f iso).2 = .rej) ∧
    (∀ o, f.resolve = some o →
      (Spec.subEdges a.base f iso).2 = .ok ∧
      (Spec.subEdges a.base f iso).1.weighted = a.base.weighted ∧
      (Spec.subEdges a.base f iso).1.hmeta = initHMeta a.base.weighted [] ∧
      (∀ m, get? (Spec.subEdges a.base f iso).1.nodes m =
        if iso = true ∨ m ∈ ((keys a.base.edges).filter (keepEdge o f.upTo)).flatten then get? a.base.nodes m else none) ∧
      keys (Spec.subEdges a.base f iso).1.edges = (keys a.base.edges).filter (keepEdge o f.upTo) ∧
      ∀ x, get? (Spec.subEdges a.base f iso).1.edges x = if keepEdge o f.upTo x then get? a.base.edges x else none) := by
  have h := frun_sim cs _ _ hwf (finit_sim k)
  rw [h.1] at ha
  obtain ⟨s, hs, rfl⟩ := List.mem_map.mp ha
  exact spec_subEdges (abs s.base) (abs_swf (h.2 s hs)) f iso

/-- non-vacuity: slot 0 of the demo history after command 9 (hyperedges {1,2,3}:8 with metadata, {1,2}:4, {3,4}:4, node 9
isolated with metadata), `size=3` without and `order=1, up_to` with the isolated nodes; `order=1, size=2` raises -/
example : ∃ a ∈ FSpec.run (FSpec.init 4) (C01.demoX.take 9),
    ({ size := some 3 } : Filter).resolve = some (some 2) ∧ ({ order := some 1, size := some 2 } : Filter).resolve = none ∧
    (Spec.subEdges a.base { size := some 3 } false).1.edges = [([1, 2, 3], (8, [(2, 5)]))] ∧
    keys (Spec.subEdges a.base { size := some 3 } false).1.nodes = [1, 2, 3] ∧
    keys (Spec.subEdges a.base { order := some 1, upTo := true } true).1.edges = [[1, 2], [3, 4]] ∧
    (Spec.subEdges a.base { order := some 1, upTo := true } true).1.nodes = [(1, []), (2, []), (3, []), (4, []), (9, [(1, 1)])] :=
  ⟨_, List.mem_of_getElem? (show (FSpec.run (FSpec.init 4) (C01.demoX.take 9))[0]? = some _ from rfl),
    by decide, by decide, by decide, by decide, by decide, by decide⟩

/-- **The two side tables** (`_incidences_metadata`, `_empty_edges`), for ANY object `s`.
(1) `set_incidence_metadata(edge, node, md)` on a present hyperedge is accepted and changes nothing but the entry
`(edge as written, node)`, which `get_incidence_metadata` then returns under the same spelling; (2) on an absent hyperedge
setter and getter raise and nothing changes; (3) no call of the 18 other than `clear()` touches the two tables - in
particular an entry survives `remove_edge` / `remove_node` of its hyperedge (while it is gone the getter raises; once it
is re-inserted the entry is served again); (4) `clear()` empties both; (5) `add_empty_edge(name)` is accepted iff the
name is not registered, and then it is. -/
theorem C01_side_tables (s : Full) (raw : List Nat) (n : Node) (md : Meta) (name : Nat) (op : Op) :
    ((get? s.base.edgeList (canon raw)).isSome →
      (s.apply (.setIncMeta raw n md)).2 = .ok ∧
      (s.apply (.setIncMeta raw n md)).1.base = s.base ∧ (s.apply (.setIncMeta raw n md)).1.empties = s.empties ∧
      (s.apply (.setIncMeta raw n md)).1.answer (.incMeta raw n) = .base (.dict md) ∧
      ∀ k, k ≠ (raw, n) → get? (s.apply (.setIncMeta raw n md)).1.inc k = get? s.inc k) ∧
    ((get? s.base.edgeList (canon raw)).isSome = false →
      s.apply (.setIncMeta raw n md) = (s, .rej) ∧ s.answer (.incMeta raw n) = .base .rej) ∧
    (isClear op = false → (s.apply (.base op)).1.inc = s.inc ∧ (s.apply (.base op)).1.empties = s.empties) ∧
    ((s.apply (.base .clear)).1.inc = [] ∧ (s.apply (.base .clear)).1.empties = []) ∧
    ((s.apply (.addEmptyEdge name md)).2 = .ok ↔ (get? s.empties name).isSome = false) ∧
    ((s.apply (.addEmptyEdge name md)).2 = .ok →
      (get? (s.apply (.addEmptyEdge name md)).1.empties name).isSome ∧
      ((s.apply (.addEmptyEdge name md)).1.apply (.addEmptyEdge name md)).2 = .rej) := by
  refine ⟨?_, ?_, ?_, ?_, ?_, ?_⟩
  · intro hp
    simp only [Full.apply, regSetInc, hp, if_true, Full.answer, regGetInc, get?_set_self]
    refine ⟨trivial, trivial, trivial, trivial, ?_⟩
    intro k hk
    exact get?_set_ne _ _ _ _ (fun h => hk h.symm)
  · intro hp
    simp [Full.apply, regSetInc, hp, Full.answer, regGetInc]
  · intro hc
    simp [Full.apply, hc]
  · exact ⟨rfl, rfl⟩
  · simp only [Full.apply, regAddEmpty]
    cases (get? s.empties name).isSome <;> simp
  · simp only [Full.apply, regAddEmpty]
    by_cases hp : (get? s.empties name).isSome = true
    · simp [hp]
    · simp [hp]

/-! ## Second extension round: the constructor as one call, the hashing view, `get_mapping`, the raw tables
(`Model/C01Ext.lean`, `Proofs/C01Ext.lean`) -/

/-- **The constructor is one modelled call.**  For all constructor arguments whose hyperedges are node sets: the
constructor on the tables is accepted iff the constructor on the map is, and then `abs` of the object is the map's object;
an accepted call IS the history `new`, `add_node(node, metadata)` per `node_metadata` item, one `add_edges(edge_list,
weights, edge_metadata)` (none when `edge_list` is empty / None) on a fresh slot, every call well-formed - so the object is
`Reachable`, satisfies `Inv`, and every other theorem of this file speaks about constructed objects. -/
theorem C01_constructor (a : CtorArgs) (ha : a.WF) :
    (construct a).map abs = Spec.construct a ∧
    ∀ s, construct a = some s →
      run (init 1) (ctorCmds 0 a) = [s] ∧ (∀ c ∈ ctorCmds 0 a, c.WF) ∧ C01.Reachable s ∧ Inv s := by
  refine ⟨(construct_sim a ha).1, fun s hs => ?_⟩
  have hrun := construct_run a s hs
  have hwf := ctorCmds_wf a ha
  exact ⟨hrun, hwf, ⟨1, ctorCmds 0 a, 0, hwf, by rw [hrun]; rfl⟩, (construct_sim a ha).2 s hs⟩

/-- **When the constructor raises.**  With an empty / absent `edge_list` it never raises (whatever `weights` and
`edge_metadata` are); otherwise it raises iff its own length test fires (`weighted and weights is not None and
len(edge_list) != len(weights)`) or the one `add_edges` call on the object holding the `node_metadata` nodes raises; a
failed validation of `add_edges` (repeated tuple with weights, wrong number of weights, too few metadata entries) is
such a case; and the tables raise exactly when the map does. -/
theorem C01_constructor_rejects (a : CtorArgs) (ha : a.WF) :
    (a.edges = [] → (construct a).isSome) ∧
    (construct a = none ↔ a.edges ≠ [] ∧ (ctorLenBad a = true ∨
        (addEdges (ctorNodes (Store.new a.weighted a.hm) a.nodeMeta) a.edges a.weights a.emetas).2 = .rej)) ∧
    (a.edges ≠ [] → addEdgesValid a.edges a.weights a.emetas = false → construct a = none) ∧
    (construct a = none ↔ Spec.construct a = none) := by
  have key : construct a = none ↔ a.edges ≠ [] ∧ (ctorLenBad a = true ∨
        (addEdges (ctorNodes (Store.new a.weighted a.hm) a.nodeMeta) a.edges a.weights a.emetas).2 = .rej) := by
    unfold construct
    simp only []
    by_cases he : a.edges = []
    · simp [he]
    · have he' : a.edges.isEmpty = false := by simpa using he
      simp only [he', Bool.false_eq_true, if_false, ne_eq, he, not_false_eq_true, true_and]
      by_cases hb : ctorLenBad a = true
      · simp [hb]
      · simp only [hb, Bool.false_eq_true, if_false, false_or]
        generalize addEdges (ctorNodes (Store.new a.weighted a.hm) a.nodeMeta) a.edges a.weights a.emetas = r
        obtain ⟨s', o⟩ := r
        cases o <;> simp
  refine ⟨?_, key, ?_, ?_⟩
  · intro he
    cases h : construct a with
    | some _ => rfl
    | none => exact absurd he (key.mp h).1
  · intro he hv
    exact key.mpr ⟨he, Or.inr (by simp [addEdges, hv])⟩
  · rw [← (construct_sim a ha).1]; simp

/-- non-vacuity: a weighted constructor call with node metadata, an unsorted hyperedge and a repeated one in another node
order (weights add up) is accepted; its history is well-formed; a call with 2 hyperedges and 1 weight raises; so does an
unweighted one with a repeated tuple and weights; `edge_list=[]` with a stray weight list does not -/
example :
    let a : CtorArgs := { weighted := true, hm := [(5, 6)], nodeMeta := [(9, [(1, 1)]), (2, [])],
                          edges := [[3, 1, 2], [2, 4]], weights := some [8, 4], emetas := some [[(2, 5)], []] }
    a.WF ∧ (construct a).isSome = true ∧ (construct a).map abs = Spec.construct a ∧
    (construct a).map (fun s => answer s .nodes) = some (.nats [9, 2, 1, 3, 4]) ∧
    construct { a with weights := some [8] } = none ∧
    construct { a with weighted := false, edges := [[1, 2], [1, 2]], weights := some [4, 4] } = none ∧
    (construct { a with edges := [], weights := some [4] }).isSome = true := by decide

/-- **`populate_from_dict ∘ expose_data_structures = id`** on the nine tables (and the exposed dictionary of a populated
object is the dictionary): the route is a faithful copy of node and hyperedge tables, ids and id counter included. -/
theorem C01_tables_roundtrip (s : Store) (d : TableDict) :
    populate (exposeTables s) = s ∧ exposeTables (populate d) = d ∧
    abs (populate (exposeTables s)) = abs s ∧ (Inv s → Inv (populate (exposeTables s))) :=
  ⟨rfl, rfl, rfl, id⟩

/-- **The hashing view is the abstract hypergraph in canonical order.**  On every reachable object
`expose_attributes_for_hashing()` cannot raise and returns the flag, the hypergraph metadata, exactly the map's entries
(key, weight, metadata), each once, in strictly increasing (lexicographic) key order, and exactly the nodes with their
metadata in strictly increasing label order. -/
theorem C01_hashing (s : Store) (hr : C01.Reachable s) :
    hashView s = some (Spec.hashView (abs s)) ∧
    (Spec.hashView (abs s)).edges.Perm (abs s).edges ∧
    (Spec.hashView (abs s)).edges.Pairwise (fun x y => C03.ltList x.1 y.1 = true) ∧
    (Spec.hashView (abs s)).nodes.Perm (abs s).nodes ∧
    (Spec.hashView (abs s)).nodes.Pairwise (fun x y => x.1 < y.1) := by
  have h := hr.inv
  have hek : ((abs s).edges.map (fun r => r.1)).Nodup := by
    have := abs_keys s; unfold keys at this; rw [this]; exact h.el_nodup
  have hnk : ((abs s).nodes.map (fun p => p.1)).Nodup := by
    show (keys s.nmeta).Nodup
    rw [h.nm_keys]; exact h.adj_nodup
  refine ⟨hashView_abs s h, C03.sortBy_perm _ _ _, C03.sortBy_sorted _ _ st_ltList _ hek, C03.sortBy_perm _ _ _, ?_⟩
  have := C03.sortBy_sorted (fun (p : Node × Meta) => p.1) C03.ltNat C03.st_ltNat (abs s).nodes hnk
  exact this.imp (fun h => by simpa [C03.ltNat] using h)

/-- **The hashing view is canonical.**  Two reachable objects (any histories, insertion orders, ids) have the same
hashing view IFF they have the same flag, the same hypergraph metadata, the same (key, weight, metadata) entries and the
same nodes with metadata up to order. -/
theorem C01_hashing_canonical (s t : Store) (hs : C01.Reachable s) (ht : C01.Reachable t) :
    hashView s = hashView t ↔
      (s.weighted = t.weighted ∧ s.hmeta = t.hmeta ∧ (abs s).edges.Perm (abs t).edges ∧ (abs s).nodes.Perm (abs t).nodes) := by
  have h1 := hs.inv
  have h2 := ht.inv
  have hek : ((abs s).edges.map (fun r => r.1)).Nodup := by
    have := abs_keys s; unfold keys at this; rw [this]; exact h1.el_nodup
  have hnk : ((abs s).nodes.map (fun p => p.1)).Nodup := by
    show (keys s.nmeta).Nodup
    rw [h1.nm_keys]; exact h1.adj_nodup
  rw [hashView_abs s h1, hashView_abs t h2]
  constructor
  · intro h
    have h := Option.some.inj h
    have hw : s.weighted = t.weighted := congrArg HashView.weighted h
    have hm : s.hmeta = t.hmeta := congrArg HashView.hmeta h
    have he : (Spec.hashView (abs s)).edges = (Spec.hashView (abs t)).edges := congrArg HashView.edges h
    have hn : (Spec.hashView (abs s)).nodes = (Spec.hashView (abs t)).nodes := congrArg HashView.nodes h
    refine ⟨hw, hm, ?_, ?_⟩
    · exact ((C03.sortBy_perm _ _ (abs s).edges).symm.trans (List.Perm.of_eq he)).trans (C03.sortBy_perm _ _ (abs t).edges)
    · exact ((C03.sortBy_perm _ _ (abs s).nodes).symm.trans (List.Perm.of_eq hn)).trans (C03.sortBy_perm _ _ (abs t).nodes)
  · rintro ⟨hw, hm, he, hn⟩
    have e1 := C03.sortBy_perm_eq (fun (r : Edge × (Int × Meta)) => r.1) C03.ltList st_ltList _ _ hek he
    have e2 := C03.sortBy_perm_eq (fun (p : Node × Meta) => p.1) C03.ltNat C03.st_ltNat _ _ hnk hn
    have hw' : (abs s).weighted = (abs t).weighted := hw
    have hm' : (abs s).hmeta = (abs t).hmeta := hm
    simp only [Spec.hashView, e1, e2, hw', hm']

/-- **`get_mapping()` is a bijection in label order.**  On every reachable object the encoder's classes are exactly the
nodes, each once, in strictly increasing label order (the same list the abstract hypergraph gives); `transform` answers
for a label iff it is a node, the class at the returned position is that label, and two nodes with the same position are
the same node. -/
theorem C01_mapping (s : Store) (hr : C01.Reachable s) :
    mapping s = Spec.mapping (abs s) ∧
    (mapping s).Perm (keys s.adj) ∧ (mapping s).Nodup ∧ (mapping s).Pairwise (· < ·) ∧
    (∀ n, (C03.indexOf? (mapping s) n).isSome ↔ answer s (.checkNode n) = .bool true) ∧
    (∀ n i, C03.indexOf? (mapping s) n = some i → (mapping s)[i]? = some n) ∧
    (∀ n m i, C03.indexOf? (mapping s) n = some i → C03.indexOf? (mapping s) m = some i → n = m) := by
  have h := hr.inv
  have hperm : (mapping s).Perm (keys s.adj) := C03.sortBy_perm _ _ _
  have hsorted : (mapping s).Pairwise (· < ·) := by
    have := C03.sortBy_sorted (id : Node → Node) C03.ltNat C03.st_ltNat (keys s.adj) (by simpa using h.adj_nodup)
    exact this.imp (fun h => by simpa [C03.ltNat] using h)
  refine ⟨?_, hperm, hperm.nodup_iff.mpr h.adj_nodup, hsorted, ?_, fun n i hi => C03.indexOf?_get _ n i hi, ?_⟩
  · show C03.sortBy id C03.ltNat (keys s.adj) = C03.sortBy id C03.ltNat (keys s.nmeta)
    rw [h.nm_keys]
  · intro n
    rw [C03.indexOf?_some_iff, hperm.mem_iff, C01.mem_keys_iff]
    simp [answer]
  · intro n m i hn hm
    have a := C03.indexOf?_get _ n i hn
    have b := C03.indexOf?_get _ m i hm
    rw [a] at b; exact Option.some.inj b

/-- non-vacuity on the demo history (slot 0 holds nodes inserted as 3,1,2,4,7,8 with 3 removed, one hyperedge left):
the hashing view exists and lists the nodes in label order, the mapping is sorted, `transform` of the removed node raises,
the view of the table route is the source's -/
example :
    let s := ((run (init 2) C01.demo)[0]?).getD {}
    answer s .nodes = .nats [1, 2, 4, 7, 8] ∧ mapping s = [1, 2, 4, 7, 8] ∧
    C03.indexOf? (mapping s) 4 = some 2 ∧ C03.indexOf? (mapping s) 3 = none ∧
    (hashView s).map (fun v => v.nodes.map (·.1)) = some [1, 2, 4, 7, 8] ∧
    (hashView s).map (fun v => v.edges.map (·.1)) = some ((abs s).edges.map (·.1)) ∧
    hashView (populate (exposeTables s)) = hashView s := by decide

/-- **`subhypergraph_largest_component(size, order)` as a modelled call** (`Model/C01Lcc.lean`: the component routine and
`max(components, key=len)` of `Model/C08.lean` on the object's own listings, then `subhypergraph`).  On every reachable
object: (1) the call on the tables is matched by the same call on the abstract hypergraph - same outcome, `abs` of the new
object is the abstract result, the new object satisfies `Inv`; (2) it raises iff `size` and `order` are both given or the
hypergraph has no node (`max()` of no component); (3) otherwise the node list handed on is a member of
`connected_components(size, order)` of maximal length (the FIRST such in the order of `get_nodes()`: `C08.maxByLen`), all
its members are nodes, and the result is `subhypergraph` of it: the source's flag, fresh hypergraph metadata, exactly the
component's nodes with the source's metadata, exactly the source's hyperedges inside the component, in the source's order,
each with the source's weight and metadata. -/
theorem C01_subhypergraph_largest_component (s : Store) (hr : C01.Reachable s) (o k : Option Int) :
    (abs (subLcc s o k).1 = (Spec.subLcc (abs s) o k).1 ∧ (subLcc s o k).2 = (Spec.subLcc (abs s) o k).2 ∧
      Inv (subLcc s o k).1) ∧
    ((subLcc s o k).2 = .ok ↔ ¬ (o.isSome = true ∧ k.isSome = true) ∧ answer s .numNodes ≠ .int 0) ∧
    (∀ f comp, lccFilt o k = some f → C08.largestComponent (keys s.adj) (keys s.edgeList) f = some comp →
      comp ∈ C08.components (keys s.adj) (keys s.edgeList) f ∧
      (∀ d ∈ C08.components (keys s.adj) (keys s.edgeList) f, d.length ≤ comp.length) ∧
      (∀ n ∈ comp, answer s (.checkNode n) = .bool true) ∧
      (subLcc s o k).2 = .ok ∧
      abs (subLcc s o k).1 = (Spec.subhypergraph (abs s) comp).1 ∧
      (abs (subLcc s o k).1).weighted = s.weighted ∧
      (abs (subLcc s o k).1).hmeta = initHMeta s.weighted [] ∧
      (∀ m, get? (abs (subLcc s o k).1).nodes m = if m ∈ comp then get? (abs s).nodes m else none) ∧
      keys (abs (subLcc s o k).1).edges = (keys (abs s).edges).filter (insideOf comp) ∧
      ∀ x, get? (abs (subLcc s o k).1).edges x = if insideOf comp x then get? (abs s).edges x else none) := by
  have h := hr.inv
  refine ⟨subLcc_sim s h o k, ?_, ?_⟩
  · rw [subLcc_ok_iff s h o k]
    have e1 : ((lccFilt o k).isSome = true) ↔ ¬ (o.isSome = true ∧ k.isSome = true) := by
      cases o <;> cases k <;> simp [lccFilt]
    have e2 : keys s.adj ≠ [] ↔ answer s .numNodes ≠ .int 0 := by
      simp only [answer, ne_eq, Ans.int.injEq]
      cases keys s.adj with
      | nil => simp
      | cons a t =>
        have : ¬ ((t.length : Int) + 1 = 0) := by omega
        simpa using this
    rw [e1, e2]
  · intro f comp hf hc
    have hl : lccNodes (keys s.adj) (keys s.edgeList) o k = some comp := by unfold lccNodes; rw [hf]; exact hc
    have e1 : subLcc s o k = subhypergraph s comp := by unfold subLcc; rw [hl]
    have hsome := comp_nodes_some s h o k comp hl
    have hs := sim_extract s (.sub comp) h
    have habs : abs (subhypergraph s comp).1 = (Spec.subhypergraph (abs s) comp).1 := hs.1
    obtain ⟨c1, c2⟩ := spec_subhypergraph (abs s) (abs_swf h) comp
    obtain ⟨d1, d2, d3, d4, d5⟩ := c2 hsome
    have hok : (subLcc s o k).2 = .ok := by
      rw [e1, show (subhypergraph s comp).2 = (Spec.subhypergraph (abs s) comp).2 from hs.2.1]; exact c1.mpr hsome
    refine ⟨maxByLen_mem _ _ hc, maxByLen_ge _ _ hc, ?_, hok, by rw [e1, habs], by rw [e1, habs]; exact d1,
      by rw [e1, habs]; exact d2, by rw [e1, habs]; exact d3, by rw [e1, habs]; exact d4, by rw [e1, habs]; exact d5⟩
    intro n hn
    have := lccNodes_sub s h o k comp hl n hn
    have := (C01.mem_keys_iff _ _).mp this
    simp [answer, this]

/-- non-vacuity on slot 0 of the demo history (nodes 1,2,4,7,8): the call is accepted there (by part (2): the component
routine is defined by well-founded recursion and does not reduce in the kernel); with both arguments it raises; on a fresh
object it raises -/
example :
    let s := ((run (init 2) C01.demo)[0]?).getD {}
    C01.Reachable s ∧ (subLcc s none none).2 = .ok ∧
    (subLcc s (some 1) (some 2)).2 = .rej ∧ (subLcc (Store.new true []) none none).2 = .rej := by
  have hr : C01.Reachable (((run (init 2) C01.demo)[0]?).getD {}) := ⟨2, C01.demo, 0, C01.demo_wf, by decide⟩
  exact ⟨hr, ((C01_subhypergraph_largest_component _ hr none none).2.1).mpr ⟨by decide, by decide⟩, by decide, by decide⟩
