import Hgxv.Model.C11
import Hgxv.Proofs.C11Classes
import Hgxv.Proofs.C11EsuRoot
import Hgxv.Proofs.C11Census
import Hgxv.Proofs.C11Dir
import Hgxv.Proofs.C11DirIso
import Hgxv.Proofs.C11Relabel
import Hgxv.Proofs.C11Cut
/-! # C11 - motif census equals exhaustive enumeration and is relabelling-invariant

Property theorems about the models `Hgxv/Model/C11Tables.lean` (pattern tables of
`generate_motifs`) and `Hgxv/Model/C11.lean` (the passes of `compute_motifs`). -/
open C11

/-! ## the class tables

`classes n` is the loop of `generate_motifs(n)`; `tbls n` holds one hyperedge-index table per node
permutation (`relabel`), `applyPerm t m` is the relabelled pattern, `connected` is `_is_connected`.
The kernel checks a certificate (`Proofs/C11Tables.lean`) from which the loop is evaluated in
closed form; no `native_decide`. -/

/-- 6 classes for order 3, 171 for order 4; every class is reported once (`Nodup`); two different
classes are never relabellings of each other; every connected labelled pattern is a relabelling of
exactly one class. -/
theorem C11_classes :
    ((classes 3).length = 6 ∧ (classes 4).length = 171) ∧
    ∀ n, n = 3 ∨ n = 4 →
      (classes n).Nodup ∧
      (∀ c₁ ∈ classes n, ∀ c₂ ∈ classes n, ∀ t ∈ tbls n, applyPerm t c₁ = c₂ → c₁ = c₂) ∧
      (∀ m, m < numMasks n → connected n (masks n) m = true →
        ∃ c, (c ∈ classes n ∧ ∃ t ∈ tbls n, applyPerm t c = m) ∧
          ∀ c', (c' ∈ classes n ∧ ∃ t ∈ tbls n, applyPerm t c' = m) → c' = c) := by
  refine ⟨⟨classes3_length, classes4_length⟩, ?_⟩
  intro n hn
  have C := certFor hn
  refine ⟨classes_nodup C, ?_, ?_⟩
  · intro c₁ h₁ c₂ h₂ t ht h
    exact classes_noniso C h₁ h₂ ht h
  · intro m hm hc
    have hne := (C.conn m hm).mp hc
    refine ⟨cidFor n m, ⟨cid_mem_classes C hm hne, C.ofRep m hm hne⟩, ?_⟩
    rintro c' ⟨hc', t, ht, h⟩
    exact (cid_of_relabel C hc' ht h).2.symm

/-- the labelled patterns a pass may count (`labeling` keys) are exactly the connected ones -/
theorem C11_labeling_connected (n : Nat) (hn : n = 3 ∨ n = 4) (p : Nat) :
    p ∈ labeling n ↔ p < numMasks n ∧ connected n (masks n) p = true := by
  have C := certFor hn
  rw [mem_labeling C]
  constructor
  · rintro ⟨h1, h2⟩; exact ⟨h1, (C.conn p h1).mpr h2⟩
  · rintro ⟨h1, h2⟩; exact ⟨h1, (C.conn p h1).mp h2⟩

example : classes 3 = [1, 3, 6, 7, 14, 15] := classes3_eq
example : (labeling 3).length = 12 := by decide

/-! ## the ESU pass of `_motifs_standard`

`esuSets n E`: the node sets handed to `count_motif`, for all roots `v` of the dyadic skeleton
(`nbrs E` = `graph`).  `RootValid g v S`: `v ∈ S`, every other node of `S` is larger than `v`, and
every node of `S` is reachable from `v` inside `S`.  No hypothesis on `E` is needed. -/

/-- every node set the ESU pass classifies is a duplicate-free set of `n` nodes, connected in the
dyadic skeleton, whose minimum is the root it was grown from -/
theorem C11_esu_sound (n : Nat) (hn : 1 ≤ n) (E : HG) :
    ∀ o ∈ esuSets n E, o.Nodup ∧ o.length = n ∧ ∃ v ∈ roots E, RootValid (nbrs E) v o :=
  esu_out n E hn

/-- every `n`-set that is connected in the dyadic skeleton (rooted at its minimum) is produced exactly
once, every other `n`-set never (`sameSet S o`: `o` lists the nodes of `S` in some order) -/
theorem C11_esu_complete_unique (n : Nat) (hn : 1 ≤ n) (E : HG) (S : List Nat) (hS : S.Nodup)
    (hlen : S.length = n) :
    ((∃ v ∈ roots E, RootValid (nbrs E) v S) → (esuSets n E).countP (sameSet S) = 1) ∧
    ((¬ ∃ v ∈ roots E, RootValid (nbrs E) v S) → (esuSets n E).countP (sameSet S) = 0) :=
  esu_count n E hn S hS hlen

example : esuSets 3 [[0,1],[1,2],[0,2],[2,3]] = [[0, 1, 2], [0, 2, 3], [1, 2, 3]] := by
  simp [esuSets, roots, nbrs, dyadic, dedup, extend, newExcl]

/-- with the `visited` filter of `count_motif`: the sorted node sets the ESU pass really counts are the
connected-by-pairs `n`-sets (rooted at their minimum) not visited by an earlier pass, each once -/
theorem C11_esu_visited (n : Nat) (hn : 1 ≤ n) (E : HG) (vis : List (List Nat)) :
    (stdSets n E vis).Nodup ∧
    ∀ S, S ∈ stdSets n E vis ↔
      S ∉ vis ∧ SSorted S ∧ S.length = n ∧ ∃ v ∈ roots E, RootValid (nbrs E) v S := by
  refine ⟨List.Pairwise.filter _ (esu_sorted_nodup hn E), ?_⟩
  intro S
  unfold stdSets
  rw [List.mem_filter, ← mem_esu_sorted hn]
  simp only [List.mem_map, Bool.not_eq_true', List.contains_eq_mem, decide_eq_false_iff_not]
  constructor
  · rintro ⟨h1, h2⟩; exact ⟨h2, h1⟩
  · rintro ⟨h1, h2⟩; exact ⟨h2, h1⟩

example : RootValid (nbrs [[0,1],[1,2],[0,2],[2,3]]) 1 [1,2,3] := by
  have e12 : 2 ∈ nbrs [[0,1],[1,2],[0,2],[2,3]] 1 := by decide
  have e23 : 3 ∈ nbrs [[0,1],[1,2],[0,2],[2,3]] 2 := by decide
  refine ⟨by decide, by decide, ?_⟩
  intro x hx
  have h1 : ReachIn (nbrs [[0,1],[1,2],[0,2],[2,3]]) [1,2,3] [1] 1 := ReachIn.base (by simp)
  have h2 := ReachIn.step h1 e12 (by decide)
  have h3 := ReachIn.step h2 e23 (by decide)
  simp only [List.mem_cons, List.not_mem_nil, or_false] at hx
  rcases hx with rfl | rfl | rfl <;> assumption

/-! ## the two higher-order passes

`WF E`: the hyperedges are distinct and each is a strictly increasing list of labels - what
`Hypergraph.get_edges()` returns (keys of a dict of `tuple(sorted(edge))`). -/

/-- `_motifs_ho_full`: the node sets visited are exactly the hyperedges of size `n`, each once -/
theorem C11_full (n : Nat) (E : HG) (hE : WF E) :
    (fullSets n E).Nodup ∧ ∀ S, S ∈ fullSets n E ↔ S ∈ E ∧ S.length = n :=
  ⟨List.Pairwise.filter _ hE.nodup, fun _ => mem_sets1⟩

/-- `_motifs_ho_not_full` (order 4): the newly visited node sets are exactly the 4-sets that are not a
hyperedge and are the union of a hyperedge `e` of size 3 and a hyperedge `e'` of size < 4 meeting `e`;
each is visited once -/
theorem C11_not_full (E : HG) (hE : WF E) :
    (notFullSets 4 E (fullSets 4 E)).Nodup ∧
    ∀ S, S ∈ notFullSets 4 E (fullSets 4 E) ↔
      SSorted S ∧ S.length = 4 ∧ S ∉ E ∧
      ∃ e ∈ E, e.length = 3 ∧ (∀ z ∈ e, z ∈ S) ∧ ∃ e' ∈ E, e'.length < 4 ∧ (∀ z ∈ e', z ∈ S) ∧
        (∃ x ∈ e, x ∈ e') ∧ ∀ z ∈ S, z ∈ e ∨ z ∈ e' :=
  ⟨nodup_visitNew, fun _ => mem_notFullSets hE⟩

example : WF [[0,1],[1,2],[0,1,2],[2,3],[1,2,3,4]] := ⟨by decide, by decide⟩
example : notFullSets 4 [[0,1],[1,2],[0,1,2],[2,3],[1,2,3,4]] (fullSets 4 [[0,1],[1,2],[0,1,2],[2,3],[1,2,3,4]])
    = [[0,1,2,3]] := by decide

/-! ## the census

`Conn E S`: every two nodes of `S` are joined by a chain of hyperedges of `E` that lie inside `S`
(`Reach`, `hadj` in `Proofs/C11Passes.lean`).  `nodesOf E`: the sorted node set.
`pattern n E S`: the labelled pattern of `S` (which of its sub-hyperedges of size `2..n` are in `E`). -/

open Classical in
/-- `compute_motifs(h, n, 0)['observed']`: for every class `c` of `generate_motifs(n)`, in that order, the
count is the number of `n`-subsets `S` of the node set that are connected by the hyperedges inside them
and whose labelled pattern is a relabelling of `c`.  (With `C11_classes`: each connected subset is filed
under exactly one class.) -/
theorem C11_census (n : Nat) (hn : n = 3 ∨ n = 4) (E : HG) (hE : WF E) :
    census n E = (classes n).map fun c =>
      (c, ((subsetsOfSize n (nodesOf E)).filter fun S =>
              decide (Conn E S ∧ ∃ t ∈ tbls n, applyPerm t c = pattern n E S)).length) :=
  census_spec hn hE

/-- no connected subset is lost: the labelled pattern of a connected `n`-set is connected in the sense of
`_is_connected`, hence (by `C11_classes`) a relabelling of exactly one class, under which `C11_census`
counts it -/
theorem C11_connected_classified (n : Nat) (hn : n = 3 ∨ n = 4) (E : HG) (hE : WF E) (S : List Nat)
    (hS : SSorted S) (hlen : S.length = n) (hc : Conn E S) :
    connected n (masks n) (pattern n E S) = true ∧
    ∃ c ∈ classes n, ∃ t ∈ tbls n, applyPerm t c = pattern n E S := by
  have C := certFor hn
  have hne := conn_pattern hn hE hS hlen hc
  have hlt := pattern_lt E hlen
  exact ⟨(C.conn _ hlt).mpr hne, cidFor n (pattern n E S), cid_mem_classes C hlt hne, C.ofRep _ hlt hne⟩

/-- non-vacuity: a hyperedge of size 3 with two of its pairs, plus a triangle and a path of pairs -/
example : WF [[0,1],[1,2],[0,1,2],[2,3],[1,3]] := ⟨by decide, by decide⟩
example : census 3 [[0,1],[1,2],[0,1,2],[2,3],[1,3]] = [(1, 0), (3, 0), (6, 1), (7, 1), (14, 1), (15, 0)] := by
  have h : stdSets 3 [[0,1],[1,2],[0,1,2],[2,3],[1,3]] [[0,1,2]] = [[0, 1, 3], [1, 2, 3]] := by
    simp [stdSets, esuSets, roots, nbrs, dyadic, dedup, extend, newExcl, isort, insertSorted]
  have hu : upTo 3 [[0,1],[1,2],[0,1,2],[2,3],[1,3]] = [[0,1],[1,2],[0,1,2],[2,3],[1,3]] := by decide
  have hf : fullSets 3 [[0,1],[1,2],[0,1,2],[2,3],[1,3]] = [[0,1,2]] := by decide
  unfold census censusWith stdPats
  simp only [hu, hf, h]
  rw [classes3_eq, tbls3_eq]
  decide

/-- the census does not depend on the order in which the hyperedges were inserted -/
theorem C11_insertion_order_invariant (n : Nat) (hn : n = 3 ∨ n = 4) (E E' : HG) (hE : WF E)
    (hperm : E.Perm E') : census n E' = census n E := by
  have hE' : WF E' := ⟨hperm.nodup_iff.mp hE.nodup, fun e he => hE.sorted e (hperm.mem_iff.mpr he)⟩
  rw [census_spec hn hE, census_spec hn hE']
  apply List.map_congr_left
  intro c _
  rw [specCount_congr (fun e => hperm.mem_iff) c]

/-- the census does not depend on the node labels: renaming the nodes by any injective map `π`
(`relabelHG π E`: every hyperedge mapped and re-sorted, as `Hypergraph.add_edge` stores it) gives the same
count for every class, in the same order -/
theorem C11_relabel_invariant (n : Nat) (hn : n = 3 ∨ n = 4) (E : HG) (hE : WF E) (π : Nat → Nat)
    (hπ : ∀ a b, π a = π b → a = b) : census n (relabelHG π E) = census n E :=
  census_relabel hπ hn hE

/-- non-vacuity: a renaming that reverses the order of the labels -/
example : relabelHG (fun x => 10 - x) [[0,1],[1,2],[0,1,2],[2,3],[1,3]] = [[9,10],[8,9],[8,9,10],[7,8],[7,9]] := by
  decide

/-- hyperedges with more than `n` nodes are ignored -/
theorem C11_ignores_large (n : Nat) (E : HG) : census n E = census n (E.filter (·.length ≤ n)) := by
  show censusWith _ _ _ n E = censusWith _ _ _ n (upTo n E)
  unfold censusWith; rw [upTo_idem]

/-! ## directed census

Patterns are sorted lists of directed hyperedges over the ranks `1..n`; `drelabel p` relabels by the
permutation `p` of `0..n-1` (and re-sorts), `dpatLe` is Python's order on tuples of tuples, which is a
total order (`Proofs/C11DirOrder.lean`), so "minimum" determines the pattern. -/

/-- every pattern reported by `compute_directed_motifs` is the least of all its relabellings, i.e. the
canonical representative of its isomorphism class; and no pattern is reported twice -/
theorem C11_dir_canonical (n : Nat) (hn : n = 3 ∨ n = 4) (E : DHG) :
    ((dirCensus n E).map (·.1)).Nodup ∧
    ∀ kc ∈ dirCensus n E, ∀ p ∈ perms (List.range n), dpatLe kc.1 (drelabel p kc.1) = true := by
  refine ⟨dirCensus_keys_nodup n E, ?_⟩
  intro kc h p hp
  obtain ⟨S, hlen, hk⟩ := dirCensus_key h
  rw [hk]
  exact dcanon_min hn _ (dpattern_wf _ hlen) p hp

/-- the representative depends only on the isomorphism type of the labelled pattern: relabelling a
pattern over the ranks `1..n` does not change its canonical form -/
theorem C11_dir_canon_invariant (n : Nat) (hn : n = 3 ∨ n = 4) (pat : List DEdge) (hw : WFPat n pat)
    (p : List Nat) (hp : p ∈ perms (List.range n)) : dcanon n (drelabel p pat) = dcanon n pat :=
  dcanon_relabel hn pat hw p hp

/-- the directed census depends only on the isomorphism type of the directed hypergraph: renaming the
nodes by any injective `π` (`relabelDHG π E`: both sides of every hyperedge mapped and re-sorted) yields
the same (canonical pattern, count) pairs, possibly listed in another order.  `DWF E`: distinct
hyperedges with strictly increasing sides, as `DirectedHypergraph.get_edges()` returns them. -/
theorem C11_dir_iso_invariant (n : Nat) (hn : n = 3 ∨ n = 4) (E : DHG) (hE : DWF E) (π : Nat → Nat)
    (hπ : ∀ a b, π a = π b → a = b) : (dirCensus n (relabelDHG π E)).Perm (dirCensus n E) :=
  dirCensus_relabel hπ hn hE

example : DWF [([0],[1,2]), ([0,1],[2]), ([3],[0,1,2,4])] := ⟨by decide, by decide⟩
example : dirCensus 3 (relabelDHG (fun x => 10 - x) [([0],[1,2]), ([0,1],[2]), ([3],[0,1,2,4])])
    = [([([1],[2,3]), ([1,2],[3])], 1)] := by decide

/-- directed hyperedges with more than `n` nodes are ignored -/
theorem C11_dir_ignores_large (n : Nat) (E : DHG) :
    dirCensus n E = dirCensus n (E.filter (dsize · ≤ n)) := by
  have : dUpTo n (dUpTo n E) = dUpTo n E := by unfold dUpTo; rw [List.filter_filter]; simp
  show dirCensus n E = dirCensus n (dUpTo n E)
  unfold dirCensus; simp only [this]

example : dirCensus 3 [([0],[1,2]), ([0,1],[2]), ([3],[0,1,2,4])] = [([([1],[2,3]), ([1,2],[3])], 1)] := by decide
example : dcanon 3 [([2],[1,3]), ([1,2],[3])] = [([1],[2,3]), ([1,2],[3])] := by decide
example : WFPat 3 [([2],[1,3]), ([1,2],[3])] := by
  intro e he; simp at he; rcases he with rfl | rfl <;> simp
