import Hgxv.Model.C11
import Hgxv.Proofs.C11Classes
import Hgxv.Proofs.C11EsuRoot
import Hgxv.Proofs.C11Census
import Hgxv.Proofs.C11Dir
import Hgxv.Proofs.C11DirIso
import Hgxv.Proofs.C11Relabel
import Hgxv.Proofs.C11Cut
import Hgxv.Proofs.C11DirCensus
import Hgxv.Proofs.C11Stats
import Hgxv.Proofs.C11Total
import Hgxv.Proofs.C11EnumRelabel
/-! # C11 - motif census equals exhaustive enumeration and is relabelling-invariant

Property theorems about the models `Hgxv/Model/C11Tables.lean` (pattern tables of
`generate_motifs`) and `Hgxv/Model/C11.lean` (the passes of `compute_motifs`). -/
open C11

/-! ## the class tables

`classes n` is the loop of `generate_motifs(n)`; `tbls n` holds one hyperedge-index table per node
permutation (`relabel`), `applyPerm t m` is the relabelled pattern, `connected` is `_is_connected`.
The kernel checks a certificate (`Proofs/C11Tables.lean`) from which the loop is evaluated in
closed form; no `native_decide`. -/

/-- 6 classes for order 3, 171 for order 4; every class is reported once (`Nodup`); two different
classes are never relabellings of each other; every connected labelled pattern is a relabelling of
exactly one class. -/
theorem C11_classes :
    ((classes 3).length = 6 ∧ (classes 4).length = 171) ∧
    ∀ n, n = 3 ∨ n = 4 →
      (classes n).Nodup ∧
      (∀ c₁ ∈ classes n, ∀ c₂ ∈ classes n, ∀ t ∈ tbls n, applyPerm t c₁ = c₂ → c₁ = c₂) ∧
      (∀ m, m < numMasks n → connected n (masks n) m = true →
        ∃ c, (c ∈ classes n ∧ ∃ t ∈ tbls n, applyPerm t c = m) ∧
          ∀ c', (c' ∈ classes n ∧ ∃ t ∈ tbls n, applyPerm t c' = m) → c' = c) := by
  refine ⟨⟨classes3_length, classes4_length⟩, ?_⟩
  intro n hn
  have C := certFor hn
  refine ⟨classes_nodup C, ?_, ?_⟩
  · intro c₁ h₁ c₂ h₂ t ht h
    exact classes_noniso C h₁ h₂ ht h
  · intro m hm hc
    have hne := (C.conn m hm).mp hc
    refine ⟨cidFor n m, ⟨cid_mem_classes C hm hne, C.ofRep m hm hne⟩, ?_⟩
    rintro c' ⟨hc', t, ht, h⟩
    exact (cid_of_relabel C hc' ht h).2.symm

/-- the labelled patterns a pass may count (`labeling` keys) are exactly the connected ones -/
theorem C11_labeling_connected (n : Nat) (hn : n = 3 ∨ n = 4) (p : Nat) :
    p ∈ labeling n ↔ p < numMasks n ∧ connected n (masks n) p = true := by
  have C := certFor hn
  rw [mem_labeling C]
  constructor
  · rintro ⟨h1, h2⟩; exact ⟨h1, (C.conn p h1).mpr h2⟩
  · rintro ⟨h1, h2⟩; exact ⟨h1, (C.conn p h1).mp h2⟩

example : classes 3 = [1, 3, 6, 7, 14, 15] := classes3_eq
example : (labeling 3).length = 12 := by decide

/-! ## the ESU pass of `_motifs_standard`

`esuSets n E`: the node sets handed to `count_motif`, for all roots `v` of the dyadic skeleton
(`nbrs E` = `graph`).  `RootValid g v S`: `v ∈ S`, every other node of `S` is larger than `v`, and
every node of `S` is reachable from `v` inside `S`.  No hypothesis on `E` is needed. -/

/-- every node set the ESU pass classifies is a duplicate-free set of `n` nodes, connected in the
dyadic skeleton, whose minimum is the root it was grown from -/
theorem C11_esu_sound (n : Nat) (hn : 1 ≤ n) (E : HG) :
    ∀ o ∈ esuSets n E, o.Nodup ∧ o.length = n ∧ ∃ v ∈ roots E, RootValid (nbrs E) v o :=
  esu_out n E hn

/-- every `n`-set that is connected in the dyadic skeleton (rooted at its minimum) is produced exactly
once, every other `n`-set never (`sameSet S o`: `o` lists the nodes of `S` in some order) -/
theorem C11_esu_complete_unique (n : Nat) (hn : 1 ≤ n) (E : HG) (S : List Nat) (hS : S.Nodup)
    (hlen : S.length = n) :
    ((∃ v ∈ roots E, RootValid (nbrs E) v S) → (esuSets n E).countP (sameSet S) = 1) ∧
    ((¬ ∃ v ∈ roots E, RootValid (nbrs E) v S) → (esuSets n E).countP (sameSet S) = 0) :=
  esu_count n E hn S hS hlen

example : esuSets 3 [[0,1],[1,2],[0,2],[2,3]] = [[0, 1, 2], [0, 2, 3], [1, 2, 3]] := by
  simp [esuSets, roots, nbrs, dyadic, dedup, extend, newExcl]

/-- with the `visited` filter of `count_motif`: the sorted node sets the ESU pass really counts are the
connected-by-pairs `n`-sets (rooted at their minimum) not visited by an earlier pass, each once -/
theorem C11_esu_visited (n : Nat) (hn : 1 ≤ n) (E : HG) (vis : List (List Nat)) :
    (stdSets n E vis).Nodup ∧
    ∀ S, S ∈ stdSets n E vis ↔
      S ∉ vis ∧ SSorted S ∧ S.length = n ∧ ∃ v ∈ roots E, RootValid (nbrs E) v S := by
  refine ⟨List.Pairwise.filter _ (esu_sorted_nodup hn E), ?_⟩
  intro S
  unfold stdSets
  rw [List.mem_filter, ← mem_esu_sorted hn]
  simp only [List.mem_map, Bool.not_eq_true', List.contains_eq_mem, decide_eq_false_iff_not]
  constructor
  · rintro ⟨h1, h2⟩; exact ⟨h2, h1⟩
  · rintro ⟨h1, h2⟩; exact ⟨h2, h1⟩

example : RootValid (nbrs [[0,1],[1,2],[0,2],[2,3]]) 1 [1,2,3] := by
  have e12 : 2 ∈ nbrs [[0,1],[1,2],[0,2],[2,3]] 1 := by decide
  have e23 : 3 ∈ nbrs [[0,1],[1,2],[0,2],[2,3]] 2 := by decide
  refine ⟨by decide, by decide, ?_⟩
  intro x hx
  have h1 : ReachIn (nbrs [[0,1],[1,2],[0,2],[2,3]]) [1,2,3] [1] 1 := ReachIn.base (by simp)
  have h2 := ReachIn.step h1 e12 (by decide)
  have h3 := ReachIn.step h2 e23 (by decide)
  simp only [List.mem_cons, List.not_mem_nil, or_false] at hx
  rcases hx with rfl | rfl | rfl <;> assumption

/-! ## the two higher-order passes

`WF E`: the hyperedges are distinct and each is a strictly increasing list of labels - what
`Hypergraph.get_edges()` returns (keys of a dict of `tuple(sorted(edge))`). -/

/-- `_motifs_ho_full`: the node sets visited are exactly the hyperedges of size `n`, each once -/
theorem C11_full (n : Nat) (E : HG) (hE : WF E) :
    (fullSets n E).Nodup ∧ ∀ S, S ∈ fullSets n E ↔ S ∈ E ∧ S.length = n :=
  ⟨List.Pairwise.filter _ hE.nodup, fun _ => mem_sets1⟩

/-- `_motifs_ho_not_full` (order 4): the newly visited node sets are exactly the 4-sets that are not a
hyperedge and are the union of a hyperedge `e` of size 3 and a hyperedge `e'` of size < 4 meeting `e`;
each is visited once -/
theorem C11_not_full (E : HG) (hE : WF E) :
    (notFullSets 4 E (fullSets 4 E)).Nodup ∧
    ∀ S, S ∈ notFullSets 4 E (fullSets 4 E) ↔
      SSorted S ∧ S.length = 4 ∧ S ∉ E ∧
      ∃ e ∈ E, e.length = 3 ∧ (∀ z ∈ e, z ∈ S) ∧ ∃ e' ∈ E, e'.length < 4 ∧ (∀ z ∈ e', z ∈ S) ∧
        (∃ x ∈ e, x ∈ e') ∧ ∀ z ∈ S, z ∈ e ∨ z ∈ e' :=
  ⟨nodup_visitNew, fun _ => mem_notFullSets hE⟩

example : WF [[0,1],[1,2],[0,1,2],[2,3],[1,2,3,4]] := ⟨by decide, by decide⟩
example : notFullSets 4 [[0,1],[1,2],[0,1,2],[2,3],[1,2,3,4]] (fullSets 4 [[0,1],[1,2],[0,1,2],[2,3],[1,2,3,4]])
    = [[0,1,2,3]] := by decide

/-! ## the census

`Conn E S`: every two nodes of `S` are joined by a chain of hyperedges of `E` that lie inside `S`
(`Reach`, `hadj` in `Proofs/C11Passes.lean`).  `nodesOf E`: the sorted node set.
`pattern n E S`: the labelled pattern of `S` (which of its sub-hyperedges of size `2..n` are in `E`). -/

open Classical in
/-- `compute_motifs(h, n, 0)['observed']`: for every class `c` of `generate_motifs(n)`, in that order, the
count is the number of `n`-subsets `S` of the node set that are connected by the hyperedges inside them
and whose labelled pattern is a relabelling of `c`.  (With `C11_classes`: each connected subset is filed
under exactly one class.) -/
theorem C11_census (n : Nat) (hn : n = 3 ∨ n = 4) (E : HG) (hE : WF E) :
    census n E = (classes n).map fun c =>
      (c, ((subsetsOfSize n (nodesOf E)).filter fun S =>
              decide (Conn E S ∧ ∃ t ∈ tbls n, applyPerm t c = pattern n E S)).length) :=
  census_spec hn hE

/-- no connected subset is lost: the labelled pattern of a connected `n`-set is connected in the sense of
`_is_connected`, hence (by `C11_classes`) a relabelling of exactly one class, under which `C11_census`
counts it -/
theorem C11_connected_classified (n : Nat) (hn : n = 3 ∨ n = 4) (E : HG) (hE : WF E) (S : List Nat)
    (hS : SSorted S) (hlen : S.length = n) (hc : Conn E S) :
    connected n (masks n) (pattern n E S) = true ∧
    ∃ c ∈ classes n, ∃ t ∈ tbls n, applyPerm t c = pattern n E S := by
  have C := certFor hn
  have hne := conn_pattern hn hE hS hlen hc
  have hlt := pattern_lt E hlen
  exact ⟨(C.conn _ hlt).mpr hne, cidFor n (pattern n E S), cid_mem_classes C hlt hne, C.ofRep _ hlt hne⟩

/-- non-vacuity: a hyperedge of size 3 with two of its pairs, plus a triangle and a path of pairs -/
example : WF [[0,1],[1,2],[0,1,2],[2,3],[1,3]] := ⟨by decide, by decide⟩
example : census 3 [[0,1],[1,2],[0,1,2],[2,3],[1,3]] = [(1, 0), (3, 0), (6, 1), (7, 1), (14, 1), (15, 0)] := by
  have h : stdSets 3 [[0,1],[1,2],[0,1,2],[2,3],[1,3]] [[0,1,2]] = [[0, 1, 3], [1, 2, 3]] := by
    simp [stdSets, esuSets, roots, nbrs, dyadic, dedup, extend, newExcl, isort, insertSorted]
  have hu : upTo 3 [[0,1],[1,2],[0,1,2],[2,3],[1,3]] = [[0,1],[1,2],[0,1,2],[2,3],[1,3]] := by decide
  have hf : fullSets 3 [[0,1],[1,2],[0,1,2],[2,3],[1,3]] = [[0,1,2]] := by decide
  unfold census censusWith stdPats
  simp only [hu, hf, h]
  rw [classes3_eq, tbls3_eq]
  decide

/-- the census does not depend on the order in which the hyperedges were inserted -/
theorem C11_insertion_order_invariant (n : Nat) (hn : n = 3 ∨ n = 4) (E E' : HG) (hE : WF E)
    (hperm : E.Perm E') : census n E' = census n E := by
  have hE' : WF E' := ⟨hperm.nodup_iff.mp hE.nodup, fun e he => hE.sorted e (hperm.mem_iff.mpr he)⟩
  rw [census_spec hn hE, census_spec hn hE']
  apply List.map_congr_left
  intro c _
  rw [specCount_congr (fun e => hperm.mem_iff) c]

/-- the census does not depend on the node labels: renaming the nodes by any injective map `π`
(`relabelHG π E`: every hyperedge mapped and re-sorted, as `Hypergraph.add_edge` stores it) gives the same
count for every class, in the same order -/
theorem C11_relabel_invariant (n : Nat) (hn : n = 3 ∨ n = 4) (E : HG) (hE : WF E) (π : Nat → Nat)
    (hπ : ∀ a b, π a = π b → a = b) : census n (relabelHG π E) = census n E :=
  census_relabel hπ hn hE

/-- non-vacuity: a renaming that reverses the order of the labels -/
example : relabelHG (fun x => 10 - x) [[0,1],[1,2],[0,1,2],[2,3],[1,3]] = [[9,10],[8,9],[8,9,10],[7,8],[7,9]] := by
  decide

/-- hyperedges with more than `n` nodes are ignored -/
theorem C11_ignores_large (n : Nat) (E : HG) : census n E = census n (E.filter (·.length ≤ n)) := by
  show censusWith _ _ _ n E = censusWith _ _ _ n (upTo n E)
  unfold censusWith; rw [upTo_idem]

/-! ## directed census

Patterns are sorted lists of directed hyperedges over the ranks `1..n`; `drelabel p` relabels by the
permutation `p` of `0..n-1` (and re-sorts), `dpatLe` is Python's order on tuples of tuples, which is a
total order (`Proofs/C11DirOrder.lean`), so "minimum" determines the pattern. -/

/-- every pattern reported by `compute_directed_motifs` is the least of all its relabellings, i.e. the
canonical representative of its isomorphism class; and no pattern is reported twice -/
theorem C11_dir_canonical (n : Nat) (hn : n = 3 ∨ n = 4) (E : DHG) :
    ((dirCensus n E).map (·.1)).Nodup ∧
    ∀ kc ∈ dirCensus n E, ∀ p ∈ perms (List.range n), dpatLe kc.1 (drelabel p kc.1) = true := by
  refine ⟨dirCensus_keys_nodup n E, ?_⟩
  intro kc h p hp
  obtain ⟨S, hlen, hk⟩ := dirCensus_key h
  rw [hk]
  exact dcanon_min hn _ (dpattern_wf _ hlen) p hp

/-- the representative depends only on the isomorphism type of the labelled pattern: relabelling a
pattern over the ranks `1..n` does not change its canonical form -/
theorem C11_dir_canon_invariant (n : Nat) (hn : n = 3 ∨ n = 4) (pat : List DEdge) (hw : WFPat n pat)
    (p : List Nat) (hp : p ∈ perms (List.range n)) : dcanon n (drelabel p pat) = dcanon n pat :=
  dcanon_relabel hn pat hw p hp

/-- the directed census depends only on the isomorphism type of the directed hypergraph: renaming the
nodes by any injective `π` (`relabelDHG π E`: both sides of every hyperedge mapped and re-sorted) yields
the same (canonical pattern, count) pairs, possibly listed in another order.  `DWF E`: distinct
hyperedges with strictly increasing sides, as `DirectedHypergraph.get_edges()` returns them. -/
theorem C11_dir_iso_invariant (n : Nat) (hn : n = 3 ∨ n = 4) (E : DHG) (hE : DWF E) (π : Nat → Nat)
    (hπ : ∀ a b, π a = π b → a = b) : (dirCensus n (relabelDHG π E)).Perm (dirCensus n E) :=
  dirCensus_relabel hπ hn hE

example : DWF [([0],[1,2]), ([0,1],[2]), ([3],[0,1,2,4])] := ⟨by decide, by decide⟩
example : dirCensus 3 (relabelDHG (fun x => 10 - x) [([0],[1,2]), ([0,1],[2]), ([3],[0,1,2,4])])
    = [([([1],[2,3]), ([1,2],[3])], 1)] := by decide

/-- directed hyperedges with more than `n` nodes are ignored -/
theorem C11_dir_ignores_large (n : Nat) (E : DHG) :
    dirCensus n E = dirCensus n (E.filter (dsize · ≤ n)) := by
  have : dUpTo n (dUpTo n E) = dUpTo n E := by unfold dUpTo; rw [List.filter_filter]; simp
  show dirCensus n E = dirCensus n (dUpTo n E)
  unfold dirCensus; simp only [this]

example : dirCensus 3 [([0],[1,2]), ([0,1],[2]), ([3],[0,1,2,4])] = [([([1],[2,3]), ([1,2],[3])], 1)] := by decide
example : dcanon 3 [([2],[1,3]), ([1,2],[3])] = [([1],[2,3]), ([1,2],[3])] := by decide
example : WFPat 3 [([2],[1,3]), ([1,2],[3])] := by
  intro e he; simp at he; rcases he with rfl | rfl <;> simp

/-! ## extension round: the directed census as an enumeration

`dCounted n F`: the node sets classified by the two directed passes (`_directed_motifs_ho_full`, then for order 4
`_directed_motifs_ho_not_full` with the `visited` dict of the first).  Hypotheses of the census theorems: `DWF E`
and both sides of every hyperedge non-empty.  The second one is needed: `DirectedHypergraph.add_edge` accepts an
empty side, such a hyperedge on `n` nodes is visited by the full pass but is no member of
`_all_directed_hyperedges`, its pattern can then coincide with a not-full pattern and the dict merge
`mappa[key] = count` of `compute_directed_motifs` overwrites the full-pass count (witness below). -/

/-- which node sets the directed census classifies, each exactly once: the `n`-sets spanned by one hyperedge
(`dnodes e = S`), and for order 4 the 4-sets that are the union of a hyperedge `e` on 3 distinct nodes and a
hyperedge `f` with disjoint sides that shares a node with `e` (and are not spanned by a single hyperedge - the
`visited` test; a set qualifying both ways is listed by the full pass only) -/
theorem C11_dir_counted_sets (n : Nat) (F : DHG) :
    (dCounted n F).Nodup ∧
    ∀ S, S ∈ dCounted n F ↔ S.length = n ∧
      ((∃ e ∈ F, dnodes e = S) ∨
       (n = 4 ∧ ∃ e ∈ F, (dnodes e).length + 1 = n ∧ dsize e + 1 = n ∧
          ∃ x, (x ∈ e.1 ∨ x ∈ e.2) ∧ ∃ f ∈ F, (x ∈ f.1 ∨ x ∈ f.2) ∧ (dnodes f).length = dsize f ∧
            S = sset (e.1 ++ e.2 ++ f.1 ++ f.2))) :=
  ⟨dCounted_nodup n F, fun _ => mem_dCounted⟩

/-- `compute_directed_motifs(h, n, 0)['observed']` is the enumeration: a pair `(k, c)` is reported iff `c > 0` and
`c` is the number of classified node sets `S` whose induced labelled pattern `dpattern F S` has canonical form `k`
(`F` = the hyperedges with at most `n` nodes).  In particular the dict merge of the two passes loses nothing. -/
theorem C11_dir_census (n : Nat) (hn : n = 3 ∨ n = 4) (E : DHG) (hE : DWF E)
    (hne : ∀ e ∈ E, e.1 ≠ [] ∧ e.2 ≠ []) (k : List DEdge) (c : Nat) :
    (k, c) ∈ dirCensus n E ↔
      0 < c ∧ c = ((dCounted n (dUpTo n E)).filter fun S => dcanon n (dpattern (dUpTo n E) S) == k).length :=
  dirCensus_count hn hE hne k c

/-- every classified node set is counted exactly once: the reported counts add up to the number of classified
node sets -/
theorem C11_dir_census_total (n : Nat) (hn : n = 3 ∨ n = 4) (E : DHG) (hE : DWF E)
    (hne : ∀ e ∈ E, e.1 ≠ [] ∧ e.2 ≠ []) :
    ((dirCensus n E).map (·.2)).sum = (dCounted n (dUpTo n E)).length := by
  rw [dirCensus_closed hn hE hne]
  unfold dCounted
  rw [List.map_append, List.sum_append, dspec_total, List.length_append, List.length_map]
  split
  · rw [dspec_total, List.length_map]
  · rfl

/-- non-vacuity (order 4, both passes contribute): `{0,1,2,3}` is spanned by one hyperedge, `{0,1,2,4}` and
`{5,6,7,8}` are a 3-node hyperedge plus an attached pair -/
example : DWF [([0],[1,2,3]), ([0],[1,2]), ([2],[4]), ([5],[6,7]), ([7],[8])] ∧
    ∀ e ∈ [([0],[1,2,3]), ([0],[1,2]), ([2],[4]), ([5],[6,7]), ([7],[8])], e.1 ≠ [] ∧ e.2 ≠ [] :=
  ⟨⟨by decide, by decide⟩, by decide⟩
example : dCounted 4 [([0],[1,2,3]), ([0],[1,2]), ([2],[4]), ([5],[6,7]), ([7],[8])]
    = [[0,1,2,3], [0,1,2,4], [5,6,7,8]] := by decide
example : dirCensus 4 [([0],[1,2,3]), ([0],[1,2]), ([2],[4]), ([5],[6,7]), ([7],[8])]
    = [([([1],[2,3]), ([1],[2,3,4])], 1), ([([1],[2]), ([3],[1,4])], 2)] := by decide +kernel

/-- the hypothesis "non-empty sides" is needed: with the empty-source hyperedge `([], [1,2,3,4])` the full pass
files `{1,2,3,4}` under the same key as the not-full pass files `{11,12,13,14}`, and the merge keeps only the
latter count - two classified node sets, reported count 1 (the implementation does the same) -/
example : dCounted 4 [([], [1,2,3,4]), ([1],[2,3]), ([3],[4]), ([11],[12,13]), ([13],[14])]
    = [[1,2,3,4], [11,12,13,14]] := by decide
example : dirCensus 4 [([], [1,2,3,4]), ([1],[2,3]), ([3],[4]), ([11],[12,13]), ([13],[14])]
    = [([([1],[2]), ([3],[1,4])], 1)] := by decide +kernel

/-- the class a node set is filed under is the class of its induced sub-hypergraph: for every classified node set
`S` (strictly increasing) the labelled pattern handed to `dcanon` consists exactly of the hyperedges of `F` that lie
inside `S` (non-empty disjoint sides), nodes replaced by their ranks `1..n` in `S` -/
theorem C11_dir_pattern_induced (n : Nat) (F : DHG) (hF : DWF F) (S : List Nat) (hS : S ∈ dCounted n F)
    (e' : DEdge) :
    SSorted S ∧
    (e' ∈ dpattern F S ↔ ∃ e ∈ F, e.1 ≠ [] ∧ e.2 ≠ [] ∧ (∀ x ∈ e.1, x ∈ S) ∧ (∀ x ∈ e.2, x ∈ S ∧ x ∉ e.1) ∧
      e' = rankE S e) :=
  ⟨dCounted_sorted hS, mem_dpattern hF (dCounted_sorted hS)⟩

example : dpattern [([0],[1,2,3]), ([0],[1,2]), ([2],[4]), ([5],[6,7]), ([7],[8])] [0,1,2,4]
    = [([1],[2,3]), ([3],[4])] := by decide +kernel

/-! ## extension round: every connected subset is counted exactly once -/

open Classical in
/-- the per-class counts of `compute_motifs(h, n, 0)['observed']` add up to the number of connected `n`-subsets of
the node set: with `C11_census` (class `c` counts the connected subsets whose pattern is a relabelling of `c`) this
says that every connected subset is counted exactly once - under one class, by one of the three passes -/
theorem C11_census_total (n : Nat) (hn : n = 3 ∨ n = 4) (E : HG) (hE : WF E) :
    ((census n E).map (·.2)).sum
      = ((subsetsOfSize n (nodesOf E)).filter fun S => decide (Conn E S)).length :=
  census_total hn hE

/-- non-vacuity: the census of the example above reports 3 connected 3-subsets (`{0,1,2}`, `{0,1,3}`, `{1,2,3}`;
`{0,2,3}` is not connected) -/
example : ((census 3 [[0,1],[1,2],[0,1,2],[2,3],[1,3]]).map (·.2)).sum = 3 := by
  have h : stdSets 3 [[0,1],[1,2],[0,1,2],[2,3],[1,3]] [[0,1,2]] = [[0, 1, 3], [1, 2, 3]] := by
    simp [stdSets, esuSets, roots, nbrs, dyadic, dedup, extend, newExcl, isort, insertSorted]
  have hu : upTo 3 [[0,1],[1,2],[0,1,2],[2,3],[1,3]] = [[0,1],[1,2],[0,1,2],[2,3],[1,3]] := by decide
  have hf : fullSets 3 [[0,1],[1,2],[0,1,2],[2,3],[1,3]] = [[0,1,2]] := by decide
  unfold census censusWith stdPats
  simp only [hu, hf, h]
  rw [classes3_eq, tbls3_eq]
  decide

/-! ## extension round: the null-model arithmetic (`runs_config_model > 0`)

`diffSum obs nulls` = `utils.diff_sum` on the counts of the observed census and of the configuration-model rounds
(`Model/C11Stats.lean`), `normVector` = `utils.norm_vector` with `math.sqrt` as a parameter, `dDiffSum` =
`utils.directed_diff_sum`.  The guard of `diffSum` (at least one round, every round lists the classes of the
observed census) is what `compute_motifs` guarantees. -/

/-- `diff_sum`: one entry per class; entry `i` is `(o - u) / (o + u + 4)` with `o` the observed count and `u` the
mean of the rounds' counts of class `i` (the denominator is positive - no division by zero); every entry lies
strictly between -1 and 1, and it is positive / negative exactly when the observed count is above / below the
mean (`s` = total over the rounds, compared without division) -/
theorem C11_diff_sum (obs : List Nat) (nulls : List (List Nat)) (d : List Rat) (h : diffSum obs nulls = some d) :
    d.length = obs.length ∧ (∀ x ∈ d, -1 < x ∧ x < 1) ∧
    ∀ i (hi : i < obs.length),
      d[i]? = some (relAb obs[i] (((nulls.map fun m => m[i]?.getD 0).sum : Nat) / (nulls.length : Rat))) ∧
      (0 : Rat) < (obs[i] : Rat) + (((nulls.map fun m => m[i]?.getD 0).sum : Nat) / (nulls.length : Rat)) + 4 ∧
      (∀ x, d[i]? = some x → ((0 < x ↔ (nulls.map fun m => m[i]?.getD 0).sum < obs[i] * nulls.length) ∧
        (x < 0 ↔ obs[i] * nulls.length < (nulls.map fun m => m[i]?.getD 0).sum))) := by
  unfold diffSum at h
  split at h
  · rename_i hok
    obtain ⟨hne, hlen⟩ := statsOk_iff.mp hok
    have hd : d = List.zipWith relAb obs (avgNull obs.length nulls) := by simpa using h.symm
    have hR : (0 : Rat) < (nulls.length : Rat) := by
      have : 0 < nulls.length := List.length_pos_iff.mpr hne
      exact_mod_cast this
    refine ⟨?_, ?_, ?_⟩
    · rw [hd, List.length_zipWith]
      unfold avgNull
      rw [List.length_map, colSums_length hlen]; simp
    · intro x hx
      rw [hd] at hx
      obtain ⟨o, _, u, hu, rfl⟩ := mem_zipWith_relAb hx
      exact relAb_bounds o (avgNull_nonneg u hu)
    · intro i hi
      have hu : (0 : Rat) ≤ (((nulls.map fun m => m[i]?.getD 0).sum : Nat) : Rat) / (nulls.length : Rat) :=
        div_nonneg (Nat.cast_nonneg _) (le_of_lt hR)
      have hentry : d[i]? = some (relAb obs[i]
          (((nulls.map fun m => m[i]?.getD 0).sum : Nat) / (nulls.length : Rat))) := by
        rw [hd, List.getElem?_zipWith]
        unfold avgNull
        rw [List.getElem?_map, colSums_getElem? hlen hi, List.getElem?_eq_getElem hi]
        rfl
      refine ⟨hentry, relAb_den_pos _ hu, ?_⟩
      intro x hx
      rw [hentry] at hx
      have hx' := Option.some.inj hx
      subst hx'
      rw [relAb_pos_iff _ hu, relAb_neg_iff _ hu, div_lt_iff₀ hR, lt_div_iff₀ hR]
      constructor <;> constructor <;> intro h' <;> exact_mod_cast h'
  · exact absurd h (by simp)

/-- `norm_vector`: a vector whose sum of squares is 0 is the zero vector and is returned unchanged; otherwise, with
`s` the square root of the sum of squares, the result has as many entries and its squares add up to 1 -/
theorem C11_norm_vector (s : Rat) (a : List Rat) :
    (sumSq a = 0 → normVector s a = a ∧ ∀ x ∈ a, x = 0) ∧
    (sumSq a ≠ 0 → s * s = sumSq a →
      (normVector s a).length = a.length ∧ sumSq (normVector s a) = 1) := by
  unfold normVector
  constructor
  · intro h; exact ⟨by rw [if_pos h], sumSq_eq_zero h⟩
  · intro h hs
    rw [if_neg h, List.length_map, sumSq_div, hs]
    exact ⟨rfl, div_self h⟩

/-- `directed_diff_sum`: its two branches are one formula - a canonical pattern that no round reported is treated
as mean 0 - namely `(o - u) / (o + u + 4)` with `u` = (total count of that key over the rounds) / rounds; every
entry lies strictly between -1 and 1 -/
theorem C11_dir_diff_sum {K : Type} [DecidableEq K] (obs : List (K × Nat)) (nulls : List (List (K × Nat))) :
    dDiffSum obs nulls = (obs.map fun p => relAb p.2 ((dKeySum nulls p.1 : Rat) / (nulls.length : Rat))) ∧
    ∀ x ∈ dDiffSum obs nulls, -1 < x ∧ x < 1 := by
  have key : dDiffSum obs nulls
      = (obs.map fun p => relAb p.2 ((dKeySum nulls p.1 : Rat) / (nulls.length : Rat))) := by
    unfold dDiffSum
    apply List.map_congr_left
    intro p _
    split
    · rfl
    · rename_i hk
      rw [dKeySum_eq_zero (by simpa using hk)]
      simp [relAb_zero_right]
  refine ⟨key, ?_⟩
  intro x hx
  rw [key] at hx
  obtain ⟨p, _, rfl⟩ := List.mem_map.mp hx
  exact relAb_bounds _ (div_nonneg (Nat.cast_nonneg _) (Nat.cast_nonneg _))

/-- non-vacuity: two rounds, observed above / equal to / below the mean -/
example : diffSum [4, 1, 0] [[2, 1, 3], [2, 1, 5]] = some [1/5, 0, -1/2] := by decide +kernel
example : normVector 5 [3, -4, 0] = [3/5, -4/5, 0] ∧ (5 : Rat) * 5 = sumSq [3, -4, 0] := by decide +kernel
example : dDiffSum [(7, 4), (9, 2)] [[(7, 2)], [(7, 2), (8, 1)]] = [1/5, 1/3] := by decide +kernel

/-! ## second extension round: the undirected census as an enumeration

`countedPats n E` (`Model/C11Enum.lean`): every node set classified by `_motifs_ho_full`, then (order 4) by
`_motifs_ho_not_full` with the `visited` dict of the first pass, then by `_motifs_standard` (ESU on the pairwise
links) with the `visited` dict of both, each with the labelled pattern that pass hands to the class table (computed
from the pass's own table `T`); `counted n E` = the node sets alone.  `countedWith n E inc g rts` is the same loop
with the incidence lists `graph[x]` of the not-full pass (`inc`), the adjacency lists `graph[w]` (`g`) and the key
order `graph.keys()` (`rts`) of the ESU pass as parameters.  `WF E` as above; `n ∈ {3, 4}`. -/

/-- each connected `n`-set is classified exactly once across the passes, and nothing else is: `counted n E` is
duplicate-free and lists exactly the strictly increasing `n`-lists `S` with `Conn E S` (any two nodes of `S` joined
by a chain of hyperedges lying inside `S`) -/
theorem C11_counted_sets (n : Nat) (hn : n = 3 ∨ n = 4) (E : HG) (hE : WF E) :
    (counted n E).Nodup ∧ ∀ S, S ∈ counted n E ↔ SSorted S ∧ S.length = n ∧ Conn E S :=
  ⟨counted_nodup hn hE, fun _ => mem_counted hn hE⟩

/-- the enumeration does not depend on the insertion order of the hyperedges: the same node sets are classified,
each once (possibly visited in another order) -/
theorem C11_counted_insertion_order (n : Nat) (hn : n = 3 ∨ n = 4) (E E' : HG) (hE : WF E) (hperm : E.Perm E') :
    (counted n E').Perm (counted n E) :=
  counted_perm hn hE hperm

/-- ... nor on the order of the incidence lists: whatever lists `graph[x]` (not-full pass: the hyperedges with
fewer than `n` nodes that contain `x`, in any order, repetitions allowed), `graph[w]` (ESU pass: the pair-neighbours
of `w`, each once, in any order - this also varies the order in which `ext` is filled and popped) and whatever key
order `graph.keys()` (the nodes that lie in a pair, each once) the passes run with, the same (node set, pattern)
pairs are produced, each once, up to order -/
theorem C11_counted_incidence_order (n : Nat) (hn : n = 3 ∨ n = 4) (E : HG)
    (inc : Nat → HG) (g : Nat → List Nat) (rts : List Nat)
    (hinc : ∀ x e, e ∈ inc x ↔ e ∈ E ∧ e.length < n ∧ x ∈ e)
    (hg : ∀ w, (g w).Nodup ∧ ∀ u, u ∈ g w ↔ ∃ e ∈ E, e.length = 2 ∧ w ∈ e ∧ u ∈ e ∧ u ≠ w)
    (hr : rts.Nodup ∧ ∀ v, v ∈ rts ↔ ∃ e ∈ E, e.length = 2 ∧ v ∈ e) :
    (countedWith n E inc g rts).Perm (countedPats n E) :=
  countedWith_perm' (by rcases hn with h | h <;> omega) E hinc hg hr

/-- the pattern a pass hands to the class table is the induced sub-hypergraph with nodes replaced by ranks: for
every produced pair `(S, p)`, `S` is a classified set and `p` - computed from the pass's own table (`T` without the
hyperedges of size `n` in the not-full pass, pairs only in the ESU pass) - equals `inducedMask n E S`, whose bit `i`
says whether the `i`-th rank set of `generate_motifs`' list `A`, read through the sorted list `S`, is a hyperedge
of `E` -/
theorem C11_pattern_induced (n : Nat) (hn : n = 3 ∨ n = 4) (E : HG) (hE : WF E) (sp : List Nat × Nat)
    (h : sp ∈ countedPats n E) :
    sp.1 ∈ counted n E ∧ sp.2 = pattern n E sp.1 ∧ sp.2 = inducedMask n E sp.1 := by
  obtain ⟨h1, h2⟩ := countedPats_pattern hn hE h
  refine ⟨h1, h2, ?_⟩
  rw [h2]; exact pattern_induced E ((mem_counted hn hE).mp h1).2.1

/-- `compute_motifs(h, n, 0)['observed']` is the tally of the enumeration: for every class `c`, in `generate_motifs`
order, the count is the number of produced (node set, pattern) pairs whose pattern is a relabelling of `c`
(`isRelabelOf n c p` ↔ `∃ t ∈ tbls n, applyPerm t c = p`); the per-class `max` over the three passes loses nothing -/
theorem C11_census_counted (n : Nat) (hn : n = 3 ∨ n = 4) (E : HG) (hE : WF E) :
    census n E = (classes n).map fun c =>
      (c, ((countedPats n E).filter fun sp => isRelabelOf n c sp.2).length) :=
  census_counted hn hE

/-- relabelling: the enumeration of the relabelled hypergraph is the image of the enumeration (`relabelSet π S` =
sorted image of `S`), up to visiting order; together with `C11_pattern_induced`, `C11_census_counted` and the table
theorems this is the route by which `C11_relabel_invariant` (census of a relabelled hypergraph = census) holds -/
theorem C11_counted_relabel (n : Nat) (hn : n = 3 ∨ n = 4) (E : HG) (hE : WF E) (π : Nat → Nat)
    (hπ : ∀ a b, π a = π b → a = b) :
    (counted n (relabelHG π E)).Perm ((counted n E).map (relabelSet π)) :=
  counted_relabel hπ hn hE

/-- non-vacuity, order 3 (the example hypergraph of `C11_census`): the full pass classifies `{0,1,2}` (pattern 11 =
the hyperedge and the pairs `01`, `12`), the ESU pass `{0,1,3}` and `{1,2,3}`; `{0,2,3}` is not connected -/
example : countedPats 3 [[0,1],[1,2],[0,1,2],[2,3],[1,3]] = [([0,1,2], 11), ([0,1,3], 10), ([1,2,3], 14)] := by
  have h : stdSets 3 [[0,1],[1,2],[0,1,2],[2,3],[1,3]] [[0,1,2]] = [[0, 1, 3], [1, 2, 3]] := by
    simp [stdSets, esuSets, roots, nbrs, dyadic, dedup, extend, newExcl, isort, insertSorted]
  have hu : upTo 3 [[0,1],[1,2],[0,1,2],[2,3],[1,3]] = [[0,1],[1,2],[0,1,2],[2,3],[1,3]] := by decide
  have hf : fullSets 3 [[0,1],[1,2],[0,1,2],[2,3],[1,3]] = [[0,1,2]] := by decide
  have h2 : sets2 3 [[0,1],[1,2],[0,1,2],[2,3],[1,3]] = [] := rfl
  rw [countedPats_eq, hu]
  unfold sets3
  rw [h2, hf, List.nil_append, h]
  decide
example : inducedMask 3 [[0,1],[1,2],[0,1,2],[2,3],[1,3]] [0,1,3] = 10 ∧
    hyperedges 3 = [[0,1,2],[0,1],[0,2],[1,2]] := by decide

/-- non-vacuity, order 4, all three passes contribute: `{3,4,5,6}` is a hyperedge (and also a path of pairs: the
ESU pass reaches it and skips it as visited), `{0,1,2,3}` is a 3-node hyperedge plus an attached pair, `{2,3,4,5}`
is a path of pairs -/
example : WF [[0,1,2],[2,3],[3,4],[4,5],[5,6],[3,4,5,6]] := ⟨by decide, by decide⟩
example : countedPats 4 [[0,1,2],[2,3],[3,4],[4,5],[5,6],[3,4,5,6]]
    = [([3,4,5,6], 1313), ([0,1,2,3], 1026), ([2,3,4,5], 1312)] := by
  have hu : upTo 4 [[0,1,2],[2,3],[3,4],[4,5],[5,6],[3,4,5,6]] = [[0,1,2],[2,3],[3,4],[4,5],[5,6],[3,4,5,6]] := by
    decide
  have hf : fullSets 4 [[0,1,2],[2,3],[3,4],[4,5],[5,6],[3,4,5,6]] = [[3,4,5,6]] := by decide
  have h2 : sets2 4 [[0,1,2],[2,3],[3,4],[4,5],[5,6],[3,4,5,6]] = [[0,1,2,3]] := by decide
  have h : stdSets 4 [[0,1,2],[2,3],[3,4],[4,5],[5,6],[3,4,5,6]] [[0,1,2,3],[3,4,5,6]] = [[2,3,4,5]] := by
    simp [stdSets, esuSets, roots, nbrs, dyadic, dedup, extend, newExcl, isort, insertSorted]
  rw [countedPats_eq, hu]
  unfold sets3
  rw [h2, hf, List.cons_append, List.nil_append, h]
  decide

/-- non-vacuity of the order hypotheses: reversed adjacency lists and reversed key order visit the same sets in
another order -/
example : (countedWith 3 [[0,1],[1,2],[0,1,2],[2,3],[1,3]] (fun _ => [])
    (fun w => (nbrs [[0,1],[1,2],[0,1,2],[2,3],[1,3]] w).reverse) [3,2,1,0]).map (·.1)
      = [[0,1,2],[1,2,3],[0,1,3]] := by
  simp [countedWith, withPat, esuSetsWith, upTo, fullSets, nbrs, dyadic, dedup, extend, newExcl, isort,
    insertSorted]

/-- the reported counts add up to the number of classified node sets: every node set the three passes classify is
counted under exactly one class (the undirected twin of `C11_dir_census_total`) -/
theorem C11_census_total_counted (n : Nat) (hn : n = 3 ∨ n = 4) (E : HG) (hE : WF E) :
    ((census n E).map (·.2)).sum = (counted n E).length := by
  rw [census_total hn hE]
  symm
  apply List.Perm.length_eq
  apply (List.perm_ext_iff_of_nodup (counted_nodup hn hE)
    (List.Pairwise.filter _ (nodup_subsetsOfSize (nodesOf_sorted E).nodup))).mpr
  intro S
  rw [mem_counted hn hE, List.mem_filter, mem_subsetsOfSize_sorted (nodesOf_sorted E)]
  simp only [decide_eq_true_eq]
  constructor
  · rintro ⟨hS, hlen, hc⟩
    exact ⟨⟨hS, fun x hx => mem_nodesOf.mpr (conn_covered hS (by rcases hn with h | h <;> omega) hc x hx), hlen⟩, hc⟩
  · rintro ⟨⟨hS, _, hlen⟩, hc⟩; exact ⟨hS, hlen, hc⟩
