import Hgxv.Model.C04
import Hgxv.Model.C04Spec
/-! # C04 - property theorems (work in progress: M1 delivery, more theorems follow) -/
open C04

/-- On the abstract map an insertion into layer `l1` never changes what layer `l2 ≠ l1` holds for any node set. -/
theorem C04_layers_independent_spec (sp : Spec) (raw raw' : List Node) (l1 l2 : Layer) (w : Option Int)
    (md : Option Meta) (h : l1 ≠ l2) :
    AL.get? (Spec.addEdge sp raw l1 w md).1.edges (canon raw', l2) = AL.get? sp.edges (canon raw', l2) := by
  have key : ∀ (sp : Spec) (ns : List Node), (Spec.touchNodes sp ns).edges = sp.edges := by
    intro sp ns
    induction ns generalizing sp with
    | nil => rfl
    | cons n ns ih =>
      simp only [Spec.touchNodes, List.foldl_cons] at ih ⊢
      rw [ih]
      unfold Spec.addNode; split <;> rfl
  unfold Spec.addEdge
  split
  · rfl
  · simp only [Spec.addEdgeCore, key]
    rw [AL.get?_set_ne]
    intro hk; exact h (by simpa using congrArg Prod.snd hk)

example : AL.get? (Spec.addEdge (Spec.addEdge (Spec.init true) [2, 1] 1 (some 8) none).1 [1, 2] 0 (some 4) none).1.edges
    (canon [1, 2], 1) = some (8, []) := by decide
