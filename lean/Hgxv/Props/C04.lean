import Hgxv.Proofs.C04Rej
import Hgxv.Proofs.C04AggSpec
import Hgxv.Proofs.C04Promote
import Hgxv.Proofs.C04Dump
import Hgxv.Proofs.C04Ext
import Hgxv.Proofs.C04Raw
/-! # C04 - MultiplexHypergraph keeps (hyperedge, layer) records; aggregation sums layers

Objects (see `Model/C04.lean`, `Model/C04Spec.lean`): `Store` = the tables of the Python object, `step`/`run` =
the public mutating calls, `Spec` = the map `(node set, layer) ↦ (weight, metadata)` with `Spec.step`/`Spec.run`,
`abs : Store → Spec` forgets ids / reverse table / adjacency.

Hypothesis used throughout: `Op.WF` - every hyperedge handed to `add_edge(s)` is duplicate free.  That is the
property's quantifier ("node sets"); nothing else is assumed.  All theorems are for every history `ops`, hence for
every prefix of a history.  Weighted and unweighted, any initial hypergraph metadata. -/
open C04 AL

/-- **Invariant, every history.** The id-indexed tables are mutually inverse, every id is below `_next_edge_id`,
weights / metadata exist exactly for the live ids, every adjacency list is strictly increasing and holds exactly the
ids of the records containing the node (each once), every node of a record is a node, `_adj` and `_node_metadata`
have the same keys, keys are canonical, an unweighted hypergraph only holds weight 1, every layer in use is registered. -/
theorem C04_inv (w : Bool) (hm : HMeta) (ops : List Op) (hw : ∀ op ∈ ops, op.WF) : Inv (run (init w hm) ops) :=
  run_inv _ ops (inv_init w hm) hw

/-- **Refinement, every history.** Running the calls on the concrete tables and forgetting the ids is the same as
running them on the abstract map - as structures (node order, record order, metadata included). -/
theorem C04_refines (w : Bool) (hm : HMeta) (ops : List Op) (hw : ∀ op ∈ ops, op.WF) :
    abs (run (init w hm) ops) = Spec.run (Spec.init w hm) ops := by
  rw [abs_run _ ops (inv_init w hm) hw, abs_init]

/-- **Accepted / rejected agree.** After any history the next call is accepted by the store iff the map accepts it
(and by `C04_refines` for `ops ++ [op]` the resulting states agree; a rejected call changes nothing, see
`C04_rejected_noop`). -/
theorem C04_refines_out (w : Bool) (hm : HMeta) (ops : List Op) (op : Op) (hw : ∀ o ∈ ops, o.WF) (hop : op.WF) :
    (step (run (init w hm) ops) op).2 = (Spec.step (Spec.run (Spec.init w hm) ops) op).2 := by
  rw [← C04_refines w hm ops hw]
  exact (abs_step _ op (C04_inv w hm ops hw) hop).2

/-- **Every query.** In every reachable state each query of the store is the query of the abstract map: nodes,
node metadata, records, weight, edge metadata, incident records and degree (with `size` / `order` filter, both
given = rejected), degree sequence, registry, hypergraph / layer / dataset metadata, weighted flag; the
`get_edges(metadata=True)` listing agrees as a multiset. -/
theorem C04_queries (w : Bool) (hm : HMeta) (ops : List Op) (hw : ∀ op ∈ ops, op.WF) :
    let s := run (init w hm) ops
    let sp := Spec.run (Spec.init w hm) ops
    nodes s = sp.nodeList ∧ s.nmeta = sp.nodes ∧ records s = sp.records ∧
    (∀ raw l, getWeight s raw l = sp.getWeight raw l) ∧
    (∀ raw l, getEdgeMeta s raw l = sp.getEdgeMeta raw l) ∧
    (∀ n f, incident s n f = sp.incident n f) ∧
    (∀ n f, degree s n f = sp.degree n f) ∧
    (∀ f, degreeSeq s f = sp.degreeSeq f) ∧
    (edgesMeta s).Perm sp.edgesMeta ∧
    s.layers = sp.layers ∧ s.hmeta = sp.hmeta ∧ (∀ l, layerMeta s l = sp.layerMeta l) ∧
    datasetMeta s = sp.datasetMeta ∧ s.weighted = sp.weighted := by
  intro s sp
  have h : Inv s := C04_inv w hm ops hw
  have he : abs s = sp := C04_refines w hm ops hw
  rw [← he]
  exact ⟨nodes_abs s, rfl, records_abs s, fun raw l => getWeight_abs s raw l h, fun raw l => getEdgeMeta_abs s raw l h,
    fun n f => incident_abs s n f h, fun n f => degree_abs s n f h, fun f => degreeSeq_abs s f h, edgesMeta_abs s h,
    rfl, rfl, fun _ => rfl, rfl, rfl⟩

/-- **The two derived objects.** After every history `aggregated_hypergraph()` is - as a structure: weighted flag,
metadata, nodes with metadata, hyperedges with weight and metadata - the declarative aggregate of the abstract map
(`Spec.aggregated`: the distinct node sets of all layers, each with Σ of its per-layer weights when weighted and 1 when
not, and the metadata of its last record), and `edge_overlap` is `Spec.overlap` (Σ of the per-layer weights). -/
theorem C04_refines_aggregate (w : Bool) (hm : HMeta) (ops : List Op) (hw : ∀ op ∈ ops, op.WF) :
    aggregated (run (init w hm) ops) = some (Spec.aggregated (Spec.run (Spec.init w hm) ops)) ∧
    ∀ raw, overlap (run (init w hm) ops) raw = Spec.overlap (Spec.run (Spec.init w hm) ops) raw := by
  have h := C04_inv w hm ops hw
  rw [← C04_refines w hm ops hw]
  exact ⟨aggregated_spec _ h, fun raw => overlap_spec _ raw h⟩

/-- **The abstract state is a map.** After every history the abstract records have pairwise distinct keys, every key is
a strictly increasing (canonical, duplicate-free) node list, the nodes are pairwise distinct and contain every node of
every record. -/
theorem C04_spec_is_map (w : Bool) (hm : HMeta) (ops : List Op) (hw : ∀ op ∈ ops, op.WF) :
    (keys (Spec.run (Spec.init w hm) ops).edges).Nodup ∧ (keys (Spec.run (Spec.init w hm) ops).nodes).Nodup ∧
    (∀ k ∈ keys (Spec.run (Spec.init w hm) ops).edges, k.1.Pairwise (· < ·) ∧
      ∀ n ∈ k.1, n ∈ keys (Spec.run (Spec.init w hm) ops).nodes) := by
  have h := C04_inv w hm ops hw
  rw [← C04_refines w hm ops hw]
  refine ⟨by rw [abs_edges, keys_mapVal]; exact h.id.el_nodup, h.nm.nm_nodup, ?_⟩
  intro k hk
  rw [abs_edges, keys_mapVal] at hk
  obtain ⟨p, hp, rfl⟩ := List.mem_map.mp hk
  have hrev := h.id.rev_of_edge _ _ (get?_of_mem _ _ _ h.id.el_nodup hp)
  refine ⟨h.id.key_sorted _ _ hrev, fun n hn => ?_⟩
  exact (mem_keys_iff _ _).mpr ((h.nm.adj_nm n).mp (h.adj.nodes_in _ _ hrev n hn))

/-- **A rejected call is a no-op** (also the batched ones: validation precedes the first mutation). -/
theorem C04_rejected_noop (s : Store) (op : Op) (h : (step s op).2 = Out.rej) : (step s op).1 = s :=
  step_rej s op h

/-- **Registry.** After every history: every layer in use is registered, the registry has no duplicates, and it
consists exactly of the layers of the accepted `add_edge` / `add_edges` calls of the history (`insertedRun`); removals,
`remove_node(keep_edges=True)` re-insertions, and rejected calls never change it. -/
theorem C04_registry (w : Bool) (hm : HMeta) (ops : List Op) (hw : ∀ op ∈ ops, op.WF) :
    (∀ k ∈ records (run (init w hm) ops), k.2 ∈ (run (init w hm) ops).layers) ∧
    (run (init w hm) ops).layers.Nodup ∧
    (∀ l, l ∈ (run (init w hm) ops).layers ↔ l ∈ insertedRun (init w hm) ops) := by
  have h := C04_inv w hm ops hw
  refine ⟨registry_covers _ h, h.id.layers_nodup, fun l => ?_⟩
  rw [run_layers _ ops (inv_init w hm) hw l]
  simp [init]

/-- **Layers are independent (single insertion).** In a reachable state, inserting `(raw, l)` changes neither weight
nor metadata of any other key; in particular the same node set in another layer `l' ≠ l` is untouched. -/
theorem C04_layers_independent (s : Store) (h : Inv s) (raw raw' : List Node) (l l' : Layer) (w : Option Int)
    (md : Option Meta) (hraw : raw.Nodup) (hl : l' ≠ l) :
    getWeight (addEdge s raw l w md).1 raw' l' = getWeight s raw' l' ∧
    getEdgeMeta (addEdge s raw l w md).1 raw' l' = getEdgeMeta s raw' l' :=
  addEdge_other_weight s raw raw' l l' w md h hraw (fun hk => hl (Prod.mk.inj hk).2)

/-- **Layers are independent (batch).** A batch none of whose members is the key `(raw', l')` leaves that key alone -
e.g. every record of a layer that does not occur in the batch. -/
theorem C04_layers_independent_batch (s : Store) (h : Inv s) (raws : List (List Node)) (ls : List Layer)
    (ws : Option (List Int)) (mds : Option (List Meta)) (raw' : List Node) (l' : Layer) (hr : ∀ r ∈ raws, r.Nodup)
    (hk : ∀ p ∈ raws.zip ls, (canon raw', l') ≠ (canon p.1, p.2)) :
    getWeight (addEdges s raws ls ws mds).1 raw' l' = getWeight s raw' l' ∧
    getEdgeMeta (addEdges s raws ls ws mds).1 raw' l' = getEdgeMeta s raw' l' :=
  addEdges_other_weight s raws ls ws mds raw' l' h hr hk

/-- **The same node set twice in one weighted batch, in two layers** (D16): the batch is accepted and each of the
two records gets its own weight (added to what that layer held before; a fresh record starts at its weight). -/
theorem C04_batch_two_layers (s : Store) (h : Inv s) (r r' : List Node) (l1 l2 : Layer) (w1 w2 : Int)
    (hr : r.Nodup) (hr' : r'.Nodup) (hl : l1 ≠ l2) (hrr : canon r = canon r') :
    (addEdges s [r, r'] [l1, l2] (some [w1, w2]) none).2 = Out.ok ∧
    getWeight (addEdges s [r, r'] [l1, l2] (some [w1, w2]) none).1 r l1 =
      some (match getWeight s r l1 with | none => w1 | some w0 => w0 + w1) ∧
    getWeight (addEdges s [r, r'] [l1, l2] (some [w1, w2]) none).1 r l2 =
      some (match getWeight s r l2 with | none => w2 | some w0 => w0 + w2) := by
  have hrs : ∀ x ∈ [r, r'], x.Nodup := by
    intro x hx; simp at hx; rcases hx with rfl | rfl <;> assumption
  have h1 := addEdges_inv s [r, r'] [l1, l2] (some [w1, w2]) none h hrs
  obtain ⟨a1, a2⟩ := abs_addEdges s [r, r'] [l1, l2] (some [w1, w2]) none h hrs
  obtain ⟨b1, b2, b3⟩ := Spec.batch_two_layers (abs s) r r' l1 l2 w1 w2 hl hrr
  refine ⟨a2.trans b1, ?_, ?_⟩
  · rw [getWeight_abs _ _ _ h1, getWeight_abs _ _ _ h, a1]
    unfold Spec.getWeight
    rw [b2]
    cases get? (abs s).edges (canon r, l1) with
    | none => rfl
    | some p => rfl
  · rw [getWeight_abs _ _ _ h1, getWeight_abs _ _ _ h, a1]
    unfold Spec.getWeight
    rw [b3]
    cases get? (abs s).edges (canon r, l2) with
    | none => rfl
    | some p => rfl

/-- **Aggregation.** In every reachable state `aggregated_hypergraph()` succeeds; the aggregate has the multiplex's
weighted flag, exactly its nodes with their metadata, its hyperedges are exactly the distinct node sets occurring in
some layer (each once), and each weighs the sum of its per-layer weights (as `get_weight` reports them) when the
hypergraph is weighted and 1 when it is not. -/
theorem C04_aggregated (s : Store) (h : Inv s) :
    ∃ a : HSpec, aggregated s = some a ∧ a.weighted = s.weighted ∧ a.nodes = s.nmeta ∧ (keys a.edges).Nodup ∧
      (∀ e, e ∈ keys a.edges ↔ ∃ l, (e, l) ∈ records s) ∧
      (∀ e ∈ keys a.edges, (get? a.edges e).map (·.1) =
        some (if s.weighted then (((records s).filter (fun k => k.1 = e)).map (fun k => (getWeight s k.1 k.2).getD 0)).sum
              else one)) := by
  refine ⟨_, aggregated_eq s h, rfl, rfl, aggTable_keys_nodup _ _ _ (by simp [keys]), ?_, ?_⟩
  · intro e
    simp only
    rw [aggTable_mem, records_abs]
    simp only [keys, List.map_nil, List.not_mem_nil, false_or, Spec.records, List.mem_map]
    constructor
    · rintro ⟨r, hr, rfl⟩; exact ⟨r.1.2, r, hr, rfl⟩
    · rintro ⟨l, r, hr, hk⟩; exact ⟨r, hr, by rw [hk]⟩
  · intro e he
    simp only at he ⊢
    have hs := (mem_keys_iff _ _).mp he
    obtain ⟨p, hp⟩ := Option.isSome_iff_exists.mp hs
    rw [← sumFor_concrete s e h]
    cases hw : s.weighted with
    | true =>
      have := aggTable_weight_weighted (abs s).edges [] e
      rw [hw] at hp
      simp only [wIn, hp, get?, Option.map_some, Option.getD_some, Option.map_none, Option.getD_none] at this
      simp [hp, this]
    | false =>
      have := aggTable_weight_unweighted (abs s).edges [] e
      rw [hw] at hp
      simp only [wIn, hp, get?, Option.map_some, Option.getD_some, Option.map_none, Option.getD_none] at this
      simp [hp, this]

/-- **Overlap.** In every reachable state `edge_overlap(e)` is the sum over the layers holding `e` of its weight there
(0 if none) - for a weighted hypergraph exactly the weight of `e` in the aggregate. -/
theorem C04_overlap (s : Store) (h : Inv s) (raw : List Node) :
    overlap s raw =
      (((records s).filter (fun k => k.1 = canon raw)).map (fun k => (getWeight s k.1 k.2).getD 0)).sum := by
  rw [overlap_eq s raw h, sumFor_concrete s _ h]

/-- `aggregated` and `overlap` are functions of the store: in the model there is no post-state, purity holds by
typing (the implementation is tied to this by the harness' before/after comparison of the object's tables).  What the
theorem records is the content of defect D17: the aggregate carries its OWN metadata (the multiplex metadata updated
with `weighted` and `type = Hypergraph`), while the store's metadata - whatever it is - is not part of the result's
identity: every later query of the store is unaffected because `s` itself is the same value. -/
theorem C04_pure (s : Store) (h : Inv s) (raw : List Node) :
    ∃ a, aggregated s = some a ∧ get? a.hmeta hkType = some tokHypergraph ∧
      a.hmeta = AL.set (AL.set s.hmeta hkWeighted (tokBool s.weighted)) hkType tokHypergraph ∧
      (fun (_ : Option HSpec × Int) => s) (aggregated s, overlap s raw) = s := by
  refine ⟨_, aggregated_eq s h, ?_, rfl, rfl⟩
  simp only [get?_set_self]

/-- `C04_aggregated` and `C04_overlap` after every history (their hypothesis `Inv` is `C04_inv`): the aggregate exists,
has the same nodes, and for a weighted hypergraph the weight of every hyperedge of the aggregate is its overlap. -/
theorem C04_aggregated_history (w : Bool) (hm : HMeta) (ops : List Op) (hw : ∀ op ∈ ops, op.WF) :
    ∃ a : HSpec, aggregated (run (init w hm) ops) = some a ∧ a.nodes = (run (init w hm) ops).nmeta ∧
      (∀ e, e ∈ keys a.edges ↔ ∃ l, (e, l) ∈ records (run (init w hm) ops)) ∧
      (∀ e ∈ keys a.edges, e = canon e → (get? a.edges e).map (·.1) =
        some (if (run (init w hm) ops).weighted then overlap (run (init w hm) ops) e else one)) := by
  have h := C04_inv w hm ops hw
  obtain ⟨a, h1, _, h3, _, h5, h6⟩ := C04_aggregated _ h
  refine ⟨a, h1, h3, h5, ?_⟩
  intro e he hc
  rw [h6 e he, C04_overlap _ h e, ← hc]

/-- **Promotion by a weighted batch** (strengthening round; seeded C04-b2, C04-c2 live here). In every reachable state,
weighted or NOT, `add_edges([r], [l], weights=[w])` is accepted, the hypergraph is weighted afterwards, the record `(r, l)`
weighs `w` if it is new and `w0 + w` if it was there - and in an unweighted hypergraph `w0` is 1, so a record that predates
the promotion weighs `1 + w` -, and every other record keeps its weight and metadata. -/
theorem C04_promotion (s : Store) (h : Inv s) (r : List Node) (l : Layer) (w : Int) (hr : r.Nodup) :
    (addEdges s [r] [l] (some [w]) none).2 = Out.ok ∧
    (addEdges s [r] [l] (some [w]) none).1.weighted = true ∧
    getWeight (addEdges s [r] [l] (some [w]) none).1 r l =
      some (match getWeight s r l with | none => w | some w0 => w0 + w) ∧
    (s.weighted = false → ∀ w0, getWeight s r l = some w0 → w0 = one) ∧
    (∀ raw' l', (canon raw', l') ≠ (canon r, l) →
      getWeight (addEdges s [r] [l] (some [w]) none).1 raw' l' = getWeight s raw' l' ∧
      getEdgeMeta (addEdges s [r] [l] (some [w]) none).1 raw' l' = getEdgeMeta s raw' l') := by
  have hrs : ∀ x ∈ [r], x.Nodup := by
    intro x hx; simp at hx; rw [hx]; exact hr
  have h1 := addEdges_inv s [r] [l] (some [w]) none h hrs
  obtain ⟨a1, a2⟩ := abs_addEdges s [r] [l] (some [w]) none h hrs
  obtain ⟨b1, b2, b3⟩ := Spec.promote_single (abs s) r l w
  refine ⟨a2.trans b1, ?_, ?_, ?_, ?_⟩
  · have : (abs (addEdges s [r] [l] (some [w]) none).1).weighted = true := by rw [a1]; exact b2
    exact this
  · rw [getWeight_abs _ _ _ h1, getWeight_abs _ _ _ h, a1]
    unfold Spec.getWeight
    rw [b3]
    cases get? (abs s).edges (canon r, l) with
    | none => rfl
    | some p => rfl
  · intro hu w0 hg
    exact getWeight_unweighted s h hu r l w0 hg
  · intro raw' l' hk
    refine addEdges_other_weight s [r] [l] (some [w]) none raw' l' h hrs ?_
    intro p hp
    simp at hp
    rw [hp]
    exact hk

/-- **After the promotion the hypergraph is an ordinary weighted one**: in a weighted reachable state `add_edge(raw, l, w, md)`
is accepted for every weight, a record that is already there (also one that predates a promotion) accumulates `w0 + w`, a new one
starts at `w`; the metadata is replaced. -/
theorem C04_weighted_reinsert (s : Store) (h : Inv s) (hw : s.weighted = true) (raw : List Node) (l : Layer) (w : Int)
    (md : Option Meta) (hraw : raw.Nodup) :
    (addEdge s raw l (some w) md).2 = Out.ok ∧
    getWeight (addEdge s raw l (some w) md).1 raw l =
      some (match getWeight s raw l with | none => w | some w0 => w0 + w) ∧
    getEdgeMeta (addEdge s raw l (some w) md).1 raw l = some (md.getD []) := by
  have h1 := addEdge_inv s raw l (some w) md h hraw
  obtain ⟨a1, a2⟩ := abs_addEdge s raw l (some w) md h
  have hw' : (abs s).weighted = true := hw
  refine ⟨a2.trans (Spec.addEdge_ok_weighted _ _ _ _ _ hw'), ?_, ?_⟩
  · rw [getWeight_abs _ _ _ h1, getWeight_abs _ _ _ h, a1]
    unfold Spec.getWeight
    rw [Spec.addEdge_self _ _ _ _ _ hw']
    cases get? (abs s).edges (canon raw, l) with
    | none => rfl
    | some p => rfl
  · rw [getEdgeMeta_abs _ _ _ h1, a1]
    unfold Spec.getEdgeMeta
    rw [Spec.addEdge_self _ _ _ _ _ hw']
    cases get? (abs s).edges (canon raw, l) with
    | none => rfl
    | some p => rfl

/-! ## non-vacuity: a concrete history with a re-insertion in permuted order, the same node set in three layers, a
weighted batch holding it twice, a removal, and `remove_node` with a shrink-merge -/

def C04_ops : List Op :=
  [.addEdge [3, 1, 2] 0 (some 10) (some [(100, 5)]), .addEdge [2, 3] 0 (some 2) none, .addEdge [2, 1, 3] 1 (some 6) none,
   .addEdges [[1, 2], [2, 1]] [0, 2] (some [4, 8]) none, .addEdge [1, 2, 3] 0 (some 1) none, .removeEdge [2, 1] 2,
   .removeNode 1 true]

example : ∀ op ∈ C04_ops, op.WF := by decide
example : records (run (init true) C04_ops) = [([2, 3], 0), ([2, 3], 1), ([2], 0)] := by decide
example : getWeight (run (init true) C04_ops) [3, 2] 0 = some 13 := by decide
example : (aggregated (run (init true) C04_ops)).map (·.edges) = some [([2, 3], (19, [])), ([2], (4, []))] := by decide
example : overlap (run (init true) C04_ops) [3, 2] = 19 := by decide
example : (run (init true) C04_ops).layers = [0, 1, 2] ∧ insertedRun (init true) C04_ops = [0, 0, 1, 0, 2, 0] := by decide
example : (step (run (init false) []) (.addEdges [[1, 2], [1, 2]] [0, 0] (some [4, 8]) none)).2 = Out.rej := by decide
example : (addEdges (init false) [[1, 2], [2, 1]] [0, 1] (some [4, 8]) none).2 = Out.ok ∧
    getWeight (addEdges (init false) [[1, 2], [2, 1]] [0, 1] (some [4, 8]) none).1 [1, 2] 1 = some 8 := by decide
example : Inv (run (init true) C04_ops) := C04_inv true [] C04_ops (by decide)


/-! non-vacuity of the promotion theorems: an UNWEIGHTED hypergraph with two records, promoted by a batch that names one of
them again (1 + 2 = 3 units = 12 quanta), then ordinary weighted calls on records that predate the promotion -/
def C04_promo_ops : List Op :=
  [.addEdge [1, 2] 0 none none, .addEdge [3, 1, 2] 0 none (some [(100, 5)]), .addEdges [[2, 1], [2, 3]] [0, 1] (some [8, 2]) none,
   .addEdge [1, 2] 0 (some 6) none, .setWeight [3, 2, 1] 0 10, .removeNode 3 true]

example : ∀ op ∈ C04_promo_ops, op.WF := by decide
example : (run (init false) (C04_promo_ops.take 2)).weighted = false ∧ (run (init false) (C04_promo_ops.take 3)).weighted = true := by decide
example : getWeight (run (init false) (C04_promo_ops.take 3)) [1, 2] 0 = some 12 ∧
    getWeight (run (init false) (C04_promo_ops.take 3)) [1, 2, 3] 0 = some 4 ∧
    getWeight (run (init false) (C04_promo_ops.take 3)) [2, 3] 1 = some 2 := by decide
example : getWeight (run (init false) (C04_promo_ops.take 4)) [2, 1] 0 = some 18 := by decide
example : records (run (init false) C04_promo_ops) = [([1, 2], 0), ([2], 1)] ∧
    getWeight (run (init false) C04_promo_ops) [1, 2] 0 = some 28 ∧ overlap (run (init false) C04_promo_ops) [2] = 2 := by decide
example : (aggregated (run (init false) C04_promo_ops)).map (fun a => (a.weighted, a.edges.map (fun e => (e.1, e.2.1)))) =
    some (true, [([1, 2], 28), ([2], 2)]) := by decide


/-! ## Strengthening round d: objects that come out of the serialisation routines, and the order of the layer registry -/

/-- **A saved and re-loaded object is the same object, at every point of a history** (seeded C04-d2 lives here).
`expose_data_structures()` followed by `populate_from_dict` (what `save_hypergraph(binary=True)` / `load_hypergraph` do around
a pickle of the dict) is accepted by the loader and gives back the store itself - all ten tables, the registry of layers
included, because every name written is the name read.  Hence a history that goes through the loader after `ops` and then
continues with `ops'` ends in the state of the uninterrupted history `ops ++ ops'`, and its abstraction is the run of the
map: every query, `aggregated` and `overlap` included, answers as `C04_queries` / `C04_refines_aggregate` say. -/
theorem C04_reload (w : Bool) (hm : HMeta) (ops ops' : List Op) (hw : ∀ op ∈ ops ++ ops', op.WF) :
    loadDump (expose (run (init w hm) ops)) = some (run (init w hm) ops) ∧
    run (reload (run (init w hm) ops)) ops' = run (init w hm) (ops ++ ops') ∧
    abs (run (reload (run (init w hm) ops)) ops') = Spec.run (Spec.init w hm) (ops ++ ops') ∧
    (∀ raw, overlap (run (reload (run (init w hm) ops)) ops') raw = Spec.overlap (Spec.run (Spec.init w hm) (ops ++ ops')) raw) := by
  have e : run (reload (run (init w hm) ops)) ops' = run (init w hm) (ops ++ ops') := by
    rw [reload_eq, run_append]
  refine ⟨loadDump_expose _, e, ?_, ?_⟩
  · rw [e]; exact C04_refines w hm _ hw
  · intro raw
    rw [e]; exact (C04_refines_aggregate w hm _ hw).2 raw

/-- **The overlap does not depend on the order in which the layers are walked** (seeded C04-d3 lives here: the registry is a
Python `set`, its iteration order is arbitrary and the names need not be comparable with each other - the model never
compares two layer names by anything but equality). For every arrangement `order` of the registry the sum of
`get_weight(e, layer)` over `order` is `overlap`, i.e. (in a reachable state, `C04_overlap`) the sum over the records with that node set. -/
theorem C04_overlap_any_order (s : Store) (h : Inv s) (raw : List Node) (order : List Layer) (hp : order.Perm s.layers) :
    overlapIn s order raw = overlap s raw ∧
    overlapIn s order raw =
      (((records s).filter (fun k => k.1 = canon raw)).map (fun k => (getWeight s k.1 k.2).getD 0)).sum := by
  have e : overlapIn s order raw = overlap s raw := by
    rw [overlapIn_perm s raw order s.layers hp, overlapIn_layers]
  exact ⟨e, e.trans (C04_overlap s h raw)⟩

/-! non-vacuity: the history `C04_ops` is cut after four calls, goes through the loader and continues; walking the registry
backwards gives the same overlap; and a witness of what the seeded change C04-d2 does - a dictionary whose registry is
written under another name than the one that is read: all records are there, no layer is, every overlap is 0 while the
aggregate still carries the sums -/
example : run (reload (run (init true) (C04_ops.take 4))) (C04_ops.drop 4) = run (init true) C04_ops :=
  (C04_reload true [] (C04_ops.take 4) (C04_ops.drop 4) (by decide)).2.1
example : (run (init true) (C04_ops.take 4)).layers = [0, 1, 2] ∧ (reload (run (init true) (C04_ops.take 4))).layers = [0, 1, 2] := by
  rw [reload_eq]; decide
example : overlapIn (run (init true) C04_ops) [2, 1, 0] [3, 2] = 19 := by decide

def C04_renamed (s : Store) : Dump :=
  (expose s).map (fun p => if p.1 = "existing_layers" then ("_existing_layers", p.2) else p)

example : records (populate (C04_renamed (run (init true) C04_ops))) = records (run (init true) C04_ops) ∧
    (populate (C04_renamed (run (init true) C04_ops))).layers = [] ∧
    overlap (populate (C04_renamed (run (init true) C04_ops))) [3, 2] = 0 ∧
    (aggregated (populate (C04_renamed (run (init true) C04_ops)))).map (fun a => a.edges.map (fun e => (e.1, e.2.1))) =
      some [([2, 3], 19), ([2], 4)] := by
  decide


/-! ## Extension round: the constructor, the hashing view, the raw table getters -/

/-- **The constructor is a history** (`MultiplexHypergraph(edge_list, edge_layer, weighted, weights, hypergraph_metadata,
node_metadata, edge_metadata)`, both forms of the layer argument).  For all arguments whose hyperedges are node sets:
the constructor of the tables is accepted iff the constructor of the map is, and then gives the same abstract state;
an accepted constructor IS the run of the public calls `ctorOps a` (one `add_node` per entry of `node_metadata`, then one
`add_edges`) on the empty object, those calls are well-formed, and every history `ops` continued on the constructed
object keeps the invariant and refines the map built by the map's constructor - so `C04_queries`, `C04_refines_aggregate`,
`C04_registry` ... hold for objects that were not built call by call (history `pre ++ ops`). -/
theorem C04_constructor (a : CtorArgs) (ha : a.WF) (ops : List Op) (hw : ∀ op ∈ ops, op.WF) :
    (construct a).map abs = Spec.construct a ∧
    ∀ s, construct a = some s →
      ∃ pre sp, ctorOps a = some pre ∧ (∀ op ∈ pre ++ ops, op.WF) ∧ Spec.construct a = some sp ∧
        s = run (init a.weighted a.hm) pre ∧ sp = Spec.run (Spec.init a.weighted a.hm) pre ∧
        run s ops = run (init a.weighted a.hm) (pre ++ ops) ∧
        Inv (run s ops) ∧ abs (run s ops) = Spec.run sp ops := by
  refine ⟨construct_abs a ha, fun s hs => ?_⟩
  obtain ⟨pre, hp, hrun⟩ := construct_some a s hs
  have hpre := ctorOps_wf a ha pre hp
  have hall : ∀ op ∈ pre ++ ops, op.WF := by
    intro op hop
    rcases List.mem_append.mp hop with h | h
    · exact hpre op h
    · exact hw op h
  have hsp : Spec.construct a = some (abs s) := by rw [← construct_abs a ha, hs]; rfl
  obtain ⟨pre', hp', hrun'⟩ := Spec.construct_some a (abs s) hsp
  have : pre' = pre := by rw [hp] at hp'; exact (Option.some.inj hp').symm
  subst this
  have hinv : Inv s := by rw [hrun]; exact C04_inv _ _ _ hpre
  refine ⟨pre', abs s, hp, hall, hsp, hrun, hrun', ?_, run_inv _ _ hinv hw, abs_run _ _ hinv hw⟩
  rw [hrun, run_append]

/-- **When the constructor raises**: exactly when the layer argument has neither accepted form (`edge_layer` missing and
some element of `edge_list` is not an `(edge, layer)` pair; or the two lists differ in length), or the one `add_edges`
call it makes after the `node_metadata` loop is rejected (by `C04_refines_out`: iff the map rejects that call). -/
theorem C04_constructor_rejects (a : CtorArgs) :
    construct a = none ↔
      ctorBatch a.edges = none ∨
      ∃ raws ls, ctorBatch a.edges = some (some (raws, ls)) ∧
        (step (run (init a.weighted a.hm) (nodeOps a.nodeMeta)) (.addEdges raws ls a.weights a.edgeMeta)).2 = Out.rej := by
  unfold construct
  cases hb : ctorBatch a.edges with
  | none => simp
  | some b =>
    cases b with
    | none => simp
    | some p =>
      obtain ⟨raws, ls⟩ := p
      simp only [reduceCtorEq, false_or, Option.some.injEq, Prod.mk.injEq, exists_eq_left', ← ctorNodes_run]
      show _ ↔ ∃ raws' ls', (raws = raws' ∧ ls = ls') ∧
        (addEdges (ctorNodes (init a.weighted a.hm) a.nodeMeta) raws' ls' a.weights a.edgeMeta).2 = Out.rej
      generalize addEdges (ctorNodes (init a.weighted a.hm) a.nodeMeta) = f
      constructor
      · intro h
        refine ⟨raws, ls, ⟨rfl, rfl⟩, ?_⟩
        generalize f raws ls a.weights a.edgeMeta = r at h ⊢
        obtain ⟨s1, o⟩ := r
        cases o with
        | ok => simp at h
        | rej => rfl
      · rintro ⟨raws', ls', ⟨rfl, rfl⟩, h⟩
        generalize f raws ls a.weights a.edgeMeta = r at h ⊢
        obtain ⟨s1, o⟩ := r
        cases o with
        | ok => simp at h
        | rej => rfl

/-- **The hashing view** (`expose_attributes_for_hashing()`, digested by `readwrite.hashing.hash_hypergraph`).  After every
history the call succeeds (no `KeyError` on the re-canonicalised keys) and returns the weighted flag, the hypergraph
metadata, the entries of the map sorted by Python's order on `(node tuple, layer)` with their weights and metadata, and
the nodes in sorted order with their metadata. -/
theorem C04_hash_view (w : Bool) (hm : HMeta) (ops : List Op) (hw : ∀ op ∈ ops, op.WF) :
    hashView (run (init w hm) ops) = some (Spec.hashView (Spec.run (Spec.init w hm) ops)) := by
  rw [← C04_refines w hm ops hw]
  exact hashView_abs _ (C04_inv w hm ops hw)

/-- **The hashing view is canonical.** Two objects reached by any two histories (any flags, any initial metadata) have the
same hashing view IF AND ONLY IF their maps agree as sets: same weighted flag, same hypergraph metadata, the same
`(node set, layer) ↦ (weight, metadata)` entries and the same nodes with metadata, in whatever order they were inserted
and whatever record ids they got.  (So `hash_hypergraph` separates two multiplex hypergraphs exactly by their content.) -/
theorem C04_hash_canonical (w w' : Bool) (hm hm' : HMeta) (ops ops' : List Op) (hw : ∀ op ∈ ops, op.WF)
    (hw' : ∀ op ∈ ops', op.WF) :
    hashView (run (init w hm) ops) = hashView (run (init w' hm') ops') ↔
      (Spec.run (Spec.init w hm) ops).weighted = (Spec.run (Spec.init w' hm') ops').weighted ∧
      (Spec.run (Spec.init w hm) ops).hmeta = (Spec.run (Spec.init w' hm') ops').hmeta ∧
      (Spec.run (Spec.init w hm) ops).edges.Perm (Spec.run (Spec.init w' hm') ops').edges ∧
      (Spec.run (Spec.init w hm) ops).nodes.Perm (Spec.run (Spec.init w' hm') ops').nodes := by
  rw [C04_hash_view w hm ops hw, C04_hash_view w' hm' ops' hw', Option.some.injEq]
  obtain ⟨h1, h2, _⟩ := C04_spec_is_map w hm ops hw
  exact Spec.hashView_eq_iff _ _ h1 h2

/-- **The raw tables** `get_edge_list()` / `get_adj_dict()` after every history: the keys of the edge table are the records,
its ids increase in insertion order and lie below `_next_edge_id` (no id is ever re-used); a node's adjacency list is exactly
the ids of the records containing it, in that order; the adjacency dict has exactly the nodes as keys. -/
theorem C04_raw_tables (w : Bool) (hm : HMeta) (ops : List Op) (hw : ∀ op ∈ ops, op.WF) :
    let s := run (init w hm) ops
    keys (edgeTable s) = records s ∧ ((edgeTable s).map (·.2)).Pairwise (· < ·) ∧
    (∀ p ∈ edgeTable s, p.2 < s.nextId) ∧
    (∀ n ids, get? (adjTable s) n = some ids → ids = ((edgeTable s).filter (fun p => decide (n ∈ p.1.1))).map (·.2)) ∧
    (∀ n, (get? (adjTable s) n).isSome ↔ n ∈ nodes s) :=
  raw_tables _ (C04_inv w hm ops hw)

/-! non-vacuity: a constructor call with node metadata, the embedded form, the same node set in two layers of a weighted
batch on an UNWEIGHTED object (promotion inside the constructor), continued by a history; rejected forms; two histories
that insert the same content in different orders (different record ids) and hash alike; one that differs in a weight -/
def C04_ctor : CtorArgs :=
  { weighted := false, hm := [(100, 5)], nodeMeta := [(7, [(101, 6)]), (2, [])],
    edges := .embedded [.pair [3, 1, 2] 0, .pair [2, 1] 1, .pair [1, 2] 0], weights := some [10, 4, 8], edgeMeta := none }

example : C04_ctor.WF := by decide
example : ctorOps C04_ctor = some [.addNode 7 (some [(101, 6)]), .addNode 2 (some []),
    .addEdges [[3, 1, 2], [2, 1], [1, 2]] [0, 1, 0] (some [10, 4, 8]) none] := by decide
example : (construct C04_ctor).map (fun s => s.weighted) = some true ∧
    (construct C04_ctor).map nodes = some [7, 2, 1, 3] ∧
    (construct C04_ctor).map records = some [([1, 2, 3], 0), ([1, 2], 1), ([1, 2], 0)] ∧
    (construct C04_ctor).map (fun s => getWeight s [2, 1] 1) = some (some 4) ∧
    (construct C04_ctor).map edgeTable = some [(([1, 2, 3], 0), 0), (([1, 2], 1), 1), (([1, 2], 0), 2)] := by decide
example : (construct C04_ctor).map (fun s => records (run s [.removeNode 3 true])) = some [([1, 2], 1), ([1, 2], 0)] ∧
    (construct C04_ctor).map (fun s => getWeight (run s [.removeNode 3 true]) [1, 2] 0) = some (some 18) := by decide
example : construct { C04_ctor with edges := .embedded [.pair [1, 2] 0, .other] } = none ∧
    construct { C04_ctor with edges := .separate [[1, 2], [2, 3]] [0, 1, 2], weights := none } = none ∧
    construct { C04_ctor with edges := .separate [[1, 2], [1, 2]] [0, 0], weights := some [4, 4] } = none ∧
    (construct { C04_ctor with edges := .absent }).map records = some [] := by decide

def C04_h1 : List Op := [.addEdge [1, 2] 0 (some 6) none, .addEdge [5, 1] 1 none (some [(100, 5)]), .addNode 9 none]
def C04_h2 : List Op := [.addNode 9 none, .addEdge [3] 0 none none, .addEdge [1, 5] 1 none (some [(100, 5)]),
  .addEdge [2, 1] 0 (some 2) none, .removeEdge [3] 0, .removeNode 3 false, .addEdge [1, 2] 0 (some 4) none]
example : (run (init true) C04_h1).edgeList ≠ (run (init true) C04_h2).edgeList ∧
    nodes (run (init true) C04_h1) ≠ nodes (run (init true) C04_h2) ∧
    hashView (run (init true) C04_h1) = hashView (run (init true) C04_h2) := by decide
example : (hashView (run (init true) C04_h2)).map (fun v => v.edges.map (·.1)) = some [([1, 2], 0), ([1, 5], 1)] ∧
    (hashView (run (init true) C04_h2)).map (fun v => v.edges.map (·.2.1)) = some [6, 4] ∧
    (hashView (run (init true) C04_h2)).map (fun v => v.edges.map (·.2.2)) = some [[], [(100, 5)]] ∧
    (hashView (run (init true) C04_h2)).map (fun v => v.nodes) = some [(1, []), (2, []), (5, []), (9, [])] := by decide
example : hashView (run (init true) C04_h1) ≠ hashView (run (init true) (C04_h1 ++ [.setWeight [1, 2] 0 7])) := by decide
example : (adjTable (run (init true) C04_h2)) = [(9, []), (1, [1, 2]), (5, [1]), (2, [2])] := by decide


/-! # Second extension round: raw setters and mixed histories, `expose ∘ populate`, a registry handed in from outside,
layer metadata (replace semantics), isolated nodes in the aggregate, the hashing view with unorderable layer names -/

/-- **The raw setters are plain assignments** (`set_edge_list`, `set_adj_dict`, `set_existing_layers`), for EVERY store, broken
ones included: the matching getter returns what was set, no other table moves, handing a getter's result back changes
nothing, and two different raw setters commute. -/
theorem C04_raw_setters (s : Store) (t : List (Key × Nat)) (a : List (Node × List Nat)) (ls : List Layer) :
    edgeTable (setEdgeList s t) = t ∧ adjTable (setAdjDict s a) = a ∧ getExistingLayers (setExistingLayers s ls) = ls ∧
    adjTable (setEdgeList s t) = adjTable s ∧ getExistingLayers (setEdgeList s t) = getExistingLayers s ∧
    edgeTable (setAdjDict s a) = edgeTable s ∧ getExistingLayers (setAdjDict s a) = getExistingLayers s ∧
    edgeTable (setExistingLayers s ls) = edgeTable s ∧ adjTable (setExistingLayers s ls) = adjTable s ∧
    (setEdgeList s t).rev = s.rev ∧ (setEdgeList s t).weights = s.weights ∧ (setEdgeList s t).emeta = s.emeta ∧
    (setAdjDict s a).nmeta = s.nmeta ∧ (setAdjDict s a).rev = s.rev ∧
    abs (setAdjDict s a) = abs s ∧ abs (setExistingLayers s ls) = { abs s with layers := ls } ∧
    setEdgeList s (edgeTable s) = s ∧ setAdjDict s (adjTable s) = s ∧ setExistingLayers s (getExistingLayers s) = s ∧
    setEdgeList (setAdjDict s a) t = setAdjDict (setEdgeList s t) a ∧
    setExistingLayers (setAdjDict s a) ls = setAdjDict (setExistingLayers s ls) a ∧
    setExistingLayers (setEdgeList s t) ls = setEdgeList (setExistingLayers s ls) t := by
  refine ⟨rfl, rfl, rfl, rfl, rfl, rfl, rfl, rfl, rfl, rfl, rfl, rfl, rfl, rfl, rfl, rfl, rfl, rfl, rfl, rfl, rfl, rfl⟩

/-- **Histories that go through the raw surface.** A history in which public calls are mixed with raw calls
(`set_edge_list`, `set_adj_dict`, `set_existing_layers`, `populate_from_dict`) each of which hands back what the matching
getter (`get_edge_list()`, `get_adj_dict()`, `get_existing_layers()`, `expose_data_structures()`) returns at that moment ends in
the state of its public calls alone: the invariant holds and the abstraction is the run of the map, so every earlier theorem
(queries, aggregate, overlap, hashing view) applies to it. -/
theorem C04_raw_echo_history (w : Bool) (hm : HMeta) (rops : List RawOp) (he : echoes (init w hm) rops = true)
    (hw : ∀ op ∈ pubOps rops, op.WF) :
    rawRun (init w hm) rops = run (init w hm) (pubOps rops) ∧ Inv (rawRun (init w hm) rops) ∧
    abs (rawRun (init w hm) rops) = Spec.run (Spec.init w hm) (pubOps rops) := by
  have e := rawRun_echo _ rops he
  rw [e]
  exact ⟨rfl, C04_inv w hm _ hw, C04_refines w hm _ hw⟩

/-- **`populate_from_dict ∘ expose_data_structures = id` and back.** For EVERY store (reachable or not) writing the
dictionary and reading it gives the store back, whatever the receiving object held before (all ten tables are overwritten);
for every dictionary that carries the ten table names with values of the right kind, reading it and writing it again gives
back each of the ten entries. -/
theorem C04_populate_expose (s r : Store) (d : Dump) (hd : Dump.WF d) :
    populate (expose s) = s ∧ rawStep r (.populate (expose s)) = s ∧ (RawOp.populate (expose s)).echo s = true ∧
    (∀ name ∈ tableNames, lookup (expose (populate d)) name = lookup d name) ∧ Dump.WF (expose s) := by
  refine ⟨populate_expose s, populate_expose s, ?_, expose_populate d hd, ?_⟩
  · simp [RawOp.echo, loadDump_expose]
  · constructor <;> exact ⟨_, rfl⟩

/-- **A registry handed in from outside** (`set_existing_layers`, what a loader or a filter does). After every history, any
duplicate-free collection of layer names that contains every layer in use may replace the registry: `edge_overlap` still is
the sum of the per-layer weights of the map, `get_existing_layers()` returns the collection, and nothing else of the
abstract state moves.  (A registry that misses a layer in use loses that layer's weight: see the example below.) -/
theorem C04_registry_set (w : Bool) (hm : HMeta) (ops : List Op) (hw : ∀ op ∈ ops, op.WF) (ls : List Layer) (hnd : ls.Nodup)
    (hsup : ∀ k ∈ records (run (init w hm) ops), k.2 ∈ ls) :
    (∀ raw, overlap (setExistingLayers (run (init w hm) ops) ls) raw = Spec.overlap (Spec.run (Spec.init w hm) ops) raw) ∧
    getExistingLayers (setExistingLayers (run (init w hm) ops) ls) = ls ∧
    abs (setExistingLayers (run (init w hm) ops) ls) = { Spec.run (Spec.init w hm) ops with layers := ls } := by
  have h := C04_inv w hm ops hw
  refine ⟨fun raw => ?_, rfl, ?_⟩
  · rw [overlap_setLayers _ h ls hnd hsup raw, C04_refines w hm ops hw]
  · rw [← C04_refines w hm ops hw]; rfl

/-- **Layer metadata: replace semantics, every history.** `set_layer_metadata(l, v)` after any history makes
`get_layer_metadata(l)` return `v` - whatever was stored before (a second call REPLACES, it does not merge) -, leaves the
metadata of every other layer and the dataset metadata as they were, and touches neither nodes, records, weights nor the
registry; `set_dataset_metadata` leaves every layer's metadata alone. -/
theorem C04_layer_metadata_replace (w : Bool) (hm : HMeta) (ops : List Op) (l : Layer) (v v' : Nat) :
    let s := run (init w hm) ops
    (∀ l', layerMeta (run (init w hm) (ops ++ [.setLayerMeta l v])) l' = if l' = l then some v else layerMeta s l') ∧
    (∀ l', layerMeta (run (init w hm) (ops ++ [.setLayerMeta l v, .setLayerMeta l v'])) l' =
      if l' = l then some v' else layerMeta s l') ∧
    datasetMeta (run (init w hm) (ops ++ [.setLayerMeta l v])) = datasetMeta s ∧
    (∀ l', layerMeta (run (init w hm) (ops ++ [.setDatasetMeta v])) l' = layerMeta s l') ∧
    datasetMeta (run (init w hm) (ops ++ [.setDatasetMeta v])) = some v ∧
    { run (init w hm) (ops ++ [.setLayerMeta l v]) with hmeta := s.hmeta } = s := by
  intro s
  have e1 : run (init w hm) (ops ++ [.setLayerMeta l v]) = setLayerMeta s l v := by
    rw [run_append]; rfl
  have e2 : run (init w hm) (ops ++ [.setLayerMeta l v, .setLayerMeta l v']) = setLayerMeta (setLayerMeta s l v) l v' := by
    rw [run_append]; rfl
  have e3 : run (init w hm) (ops ++ [.setDatasetMeta v]) = setDatasetMeta s v := by
    rw [run_append]; rfl
  rw [e1, e2, e3]
  refine ⟨fun l' => layerMeta_set s l l' v, fun l' => ?_, datasetMeta_setLayer s l v, fun l' => layerMeta_setDataset s l' v, ?_, rfl⟩
  · rw [layerMeta_set, layerMeta_set]
    by_cases hl : l' = l <;> simp [hl]
  · unfold datasetMeta setDatasetMeta setAttrH
    exact get?_set_self _ _ _

/-- **Isolated nodes in the aggregate** (defect D17's neighbourhood). After every history the aggregate has exactly the nodes
of the multiplex hypergraph in the same order, each with the metadata the map holds for it - in particular a node that
belongs to no record (added by `add_node`, with or without metadata, or left behind by removals) is a node of the
aggregate with that metadata, and it is in no hyperedge of the aggregate. -/
theorem C04_aggregated_isolated (w : Bool) (hm : HMeta) (ops : List Op) (hw : ∀ op ∈ ops, op.WF) :
    ∃ a : HSpec, aggregated (run (init w hm) ops) = some a ∧ a.nodes = (Spec.run (Spec.init w hm) ops).nodes ∧
      keys a.nodes = nodes (run (init w hm) ops) ∧
      (∀ n, get? a.nodes n = get? (Spec.run (Spec.init w hm) ops).nodes n) ∧
      (∀ n, (∀ k ∈ records (run (init w hm) ops), n ∉ k.1) → ∀ e ∈ keys a.edges, n ∉ e) := by
  have h := C04_inv w hm ops hw
  obtain ⟨a, h1, _, h3, _, h5, _⟩ := C04_aggregated _ h
  have hq := (C04_queries w hm ops hw).2.1
  refine ⟨a, h1, h3.trans hq, by rw [h3]; rfl, fun n => by rw [h3, hq], ?_⟩
  intro n hn e he hne
  obtain ⟨l, hl⟩ := (h5 e).mp he
  exact hn _ hl hne

/-- **The hashing view when layer names cannot be ordered** (`ty l` = comparability class of the name of layer `l`; node
labels are comparable).  After every history `expose_attributes_for_hashing()` RAISES (the `TypeError` of `sorted`; there is no
fallback) exactly when some node set of the map lives in two layers whose names are of different classes; otherwise it
returns the hashing view of the map (`C04_hash_view`), and in that case two records with the same node set always have names of
one class, so the listing only ever orders comparable names.  With names of one class it never raises. -/
theorem C04_hash_unorderable (ty : Layer → Nat) (w : Bool) (hm : HMeta) (ops : List Op) (hw : ∀ op ∈ ops, op.WF) :
    let s := run (init w hm) ops
    let sp := Spec.run (Spec.init w hm) ops
    (hashViewT ty s = none ↔ ∃ e l l', (e, l) ∈ sp.records ∧ (e, l') ∈ sp.records ∧ ty l ≠ ty l') ∧
    ((¬ ∃ e l l', (e, l) ∈ sp.records ∧ (e, l') ∈ sp.records ∧ ty l ≠ ty l') → hashViewT ty s = some sp.hashView) ∧
    ((∀ l l', ty l = ty l') → hashViewT ty s = hashView s) := by
  intro s sp
  have hr : records s = sp.records := (C04_queries w hm ops hw).2.2.1
  have hv : hashView s = some sp.hashView := C04_hash_view w hm ops hw
  rw [← hr]
  have hno : (¬ ∃ e l l', (e, l) ∈ records s ∧ (e, l') ∈ records s ∧ ty l ≠ ty l') → hashViewT ty s = some sp.hashView := by
    intro hn
    have : layerClash ty (records s) = false := by
      cases hc : layerClash ty (records s) with
      | false => rfl
      | true => exact absurd ((layerClash_iff ty _).mp hc) hn
    rw [hashViewT_of_noClash ty s this, hv]
  refine ⟨⟨fun h0 => ?_, fun hc => hashViewT_of_clash ty s ((layerClash_iff ty _).mpr hc)⟩, hno, fun hc => ?_⟩
  · apply Classical.byContradiction
    intro hn
    rw [hno hn] at h0
    exact absurd h0 (by simp)
  · rw [hno (by rintro ⟨e, l, l', _, _, ht⟩; exact ht (hc l l')), hv]

/-! non-vacuity of the second extension round -/
def C04_raw_h : List RawOp :=
  [.pub (.addEdge [2, 1] 0 (some 8) none), .setEdgeList [(([1, 2], 0), 0)], .pub (.addEdge [1, 2] 1 (some 12) (some [(100, 1)])),
   .setAdjDict [(1, [0, 1]), (2, [0, 1])], .setExistingLayers [0, 1], .pub (.addNode 7 (some [(101, 5)])),
   .populate (expose (run (init true) [.addEdge [2, 1] 0 (some 8) none, .addEdge [1, 2] 1 (some 12) (some [(100, 1)]),
                                      .addNode 7 (some [(101, 5)])])), .pub (.removeNode 1 true)]
example : echoes (init true) C04_raw_h = true := by decide
example : ∀ op ∈ pubOps C04_raw_h, op.WF := by decide
example : records (rawRun (init true) C04_raw_h) = [([2], 0), ([2], 1)] ∧ (pubOps C04_raw_h).length = 4 := by decide
-- a raw assignment that is NOT an echo leaves the refinement: the degree no longer is the map's
example : echoes (init true) [.pub (.addEdge [2, 1] 0 none none), .setAdjDict [(1, []), (2, [0])]] = false ∧
    degree (rawRun (init true) [.pub (.addEdge [2, 1] 0 none none), .setAdjDict [(1, []), (2, [0])]]) 1 .all = some 0 ∧
    (abs (rawRun (init true) [.pub (.addEdge [2, 1] 0 none none), .setAdjDict [(1, []), (2, [0])]])).degree 1 .all = some 1 := by decide
-- a registry that contains the layers in use (any order, extra names) keeps the overlap; one that misses a layer loses its weight
example : overlap (setExistingLayers (run (init true) C04_ops) [5, 1, 0, 2]) [3, 2] = 19 ∧
    overlap (setExistingLayers (run (init true) C04_ops) [1, 2]) [3, 2] < 19 := by decide
example : Dump.WF (expose (run (init true) C04_ops)) := by constructor <;> exact ⟨_, rfl⟩
example : layerMeta (run (init false) [.setLayerMeta 1 7, .setAttrH 100 3, .setLayerMeta 1 8, .setLayerMeta 0 9]) 1 = some 8 ∧
    datasetMeta (run (init false) [.setLayerMeta 1 7, .setDatasetMeta 4, .setLayerMeta 2 8]) = some 4 := by decide
-- node 9 is isolated WITH metadata, node 8 isolated without: both are nodes of the aggregate, in no hyperedge
example : (aggregated (run (init true) [.addNode 9 (some [(100, 1)]), .addEdge [1, 2] 0 none none, .addNode 8 none])).map (·.nodes) =
    some [(9, [(100, 1)]), (1, []), (2, []), (8, [])] := by decide
-- layer names 0, 1 of class 0 (say ints) and 2 of class 1 (a string): {1,2} in layers 0 and 2 raises, in 0 and 1 does not;
-- different node sets in layers 0 and 2 do not; removing the offending record makes the call succeed again
example : hashViewT (tyOf [0, 0, 1]) (run (init true) [.addEdge [1, 2] 0 none none, .addEdge [2, 1] 2 none none]) = none ∧
    (hashViewT (tyOf [0, 0, 1]) (run (init true) [.addEdge [1, 2] 0 none none, .addEdge [2, 1] 1 none none])).isSome = true ∧
    (hashViewT (tyOf [0, 0, 1]) (run (init true) [.addEdge [1, 2] 0 none none, .addEdge [2, 3] 2 none none])).isSome = true ∧
    (hashViewT (tyOf [0, 0, 1]) (run (init true) [.addEdge [1, 2] 0 none none, .addEdge [2, 1] 2 none none,
      .removeEdge [1, 2] 0])).isSome = true := by decide
