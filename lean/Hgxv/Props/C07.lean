import Hgxv.Proofs.C07Ops
import Hgxv.Proofs.C07Json
import Hgxv.Proofs.C07Link
import Hgxv.Proofs.C07Heap
import Hgxv.Proofs.C07Repeat
import Hgxv.Proofs.C07PyFmt
import Hgxv.Proofs.C07Side
import Hgxv.Proofs.C01Ops
import Hgxv.Proofs.C02All
import Hgxv.Proofs.C03Inv
import Hgxv.Proofs.C04Inv
/-! # C07 — `hash_hypergraph` is a canonical fingerprint: equal content iff equal hash

Model: `Hgxv/Model/C07.lean`.  `Tables κ` are the private tables of one of the four container classes
(`κ = KH, KD, KT, KM`: the shape of a hyperedge key), `preimage? t` is `serialize(t.expose_attributes_for_hashing())`
(`none` = the Python code raises), `hashOf dumps H t = H (dumps (preimage? t))` with `dumps` (= `json.dumps(·,
sort_keys=True)`) and `H` (= SHA-256 of the UTF-8 text) as PARAMETERS.  `content t` is what the public getters show,
`a.Equiv b` is "the same nodes, hyperedges, weights (value and int/float type), metadata, weightedness" (listings as
multisets, metadata as JSON values), `canon c` the canonical tree of a content.  `WF t`: the tables hold no entry
for removed items and no item without entries (the part of the container invariant the hash needs).

`Hgxv/Proofs/C07Link.lean` (not imported here) instantiates `C07_wf_of_store_invariant` with `C01.Inv … C04.Inv` and
derives `C07_equal_C01/_C02/_C04` for the abstract `Spec` states of the full container models.

All statements are for every kind `κ` with `[Kind κ] [LawfulKind κ]`; the four instances exist
(`Hgxv/Proofs/C07Sort.lean`), see the examples at the end. -/
open C07 AL

variable {κ : Type} [Kind κ] [LawfulKind κ]

/-! ## well-formedness is an invariant of the (repaired) mutators -/

/-- a freshly constructed object is well-formed -/
theorem C07_wf_init (κ : Type) [Kind κ] (weighted : Bool) (hm : List (String × JTree)) : WF (init κ weighted hm) :=
  init_wf κ weighted hm

/-- add_node / add_edge / remove_edge / remove_node (both `keep_edges`) / set_* / clear, the batched calls add_nodes /
add_edges and the attribute-level setters set_attr_to_* / remove_attr_from_* keep the tables well-formed, whether the
call is accepted or rejected -/
theorem C07_wf_step (t : Tables κ) (w : WF t) (op : Op κ) : WF (step t op).1 := step_wf w op

/-- every history leads to well-formed tables -/
theorem C07_wf_run (weighted : Bool) (hm : List (String × JTree)) (ops : List (Op κ)) :
    WF (run (init κ weighted hm) ops) := run_wf (init_wf κ weighted hm) ops

/-- the constructor with lists (`node_metadata`, `edge_list` + `time_list` / `edge_layer`, `weights`,
`edge_metadata`) builds well-formed tables, and so does every history that starts from it.  (`C07_wf_step` covers the
batched calls `add_nodes` / `add_edges` and the attribute-level setters `set_attr_to_*` / `remove_attr_from_*` too:
they are constructors of `Op`.) -/
theorem C07_wf_build (weighted : Bool) (hm : List (String × JTree)) (nodes : List (Nat × JTree)) (withW : Bool)
    (items : List (κ × Option Num × Option JTree)) (ops : List (Op κ)) :
    WF (build κ weighted hm nodes withW items) ∧ WF (run (build κ weighted hm nodes withW items) ops) :=
  ⟨build_wf κ weighted hm nodes withW items, run_wf (build_wf κ weighted hm nodes withW items) ops⟩

/-- the facts that the container invariants `C01.Inv` … `C04.Inv` prove about these tables for every reachable
state of the full classes (reverse list inverse to the edge list, ids below the counter, weight / metadata
tables with exactly the ids in use, node-metadata table with exactly the nodes, canonical keys) imply `WF` -/
theorem C07_wf_of_store_invariant (t : Tables κ)
    (adj_nodup : (keys t.adj).Nodup) (nm_nodup : (keys t.nodeMeta).Nodup)
    (nm_same : ∀ n, (get? t.nodeMeta n).isSome = (get? t.adj n).isSome)
    (el_nodup : (keys t.edgeList).Nodup)
    (rev_of_edge : ∀ k id, get? t.edgeList k = some id → get? t.rev id = some k)
    (id_lt : ∀ id k, get? t.rev id = some k → id < t.nextId)
    (w_dom : ∀ id, (get? t.weights id).isSome = (get? t.rev id).isSome)
    (m_dom : ∀ id, (get? t.edgeMeta id).isSome = (get? t.rev id).isSome)
    (key_canon : ∀ k id, get? t.edgeList k = some id → Kind.canonK k = k) : WF t :=
  wf_of_store_invariant t adj_nodup nm_nodup nm_same el_nodup rev_of_edge id_lt w_dom m_dom key_canon

/-! ## the pre-image is a function of the content -/

/-- On well-formed tables `expose_attributes_for_hashing` + `serialize` never raises and returns the canonical
tree of the content: the hash pre-image depends on the history only through the content.  (With a stale entry in
`_node_metadata` - D9, D11 - `WF` fails and so does this equation: the harness shows both on the unrepaired code.) -/
theorem C07_factor (t : Tables κ) (w : WF t) : preimage? t = some (canon (content t)) := factor w

theorem C07_factor_run (weighted : Bool) (hm : List (String × JTree)) (ops : List (Op κ)) :
    preimage? (run (init κ weighted hm) ops) = some (canon (content (run (init κ weighted hm) ops))) :=
  factor (run_wf (init_wf κ weighted hm) ops)

/-- equal contents have the same canonical tree: the order of the listings and the order of dictionary keys
inside metadata do not matter -/
theorem C07_canon_equal (a b : Content κ) (wa : a.WF) (h : a.Equiv b) : canon a = canon b := canon_congr wa h

/-- the canonical tree determines the content -/
theorem C07_canon_injective (a b : Content κ) (h : canon a = canon b) : a.Equiv b := canon_inj h

/-- "the same metadata" in `Content.Equiv` (`ser x = ser y`) is Python's `==` on JSON values with the numeric types
kept apart (`JEq`, `Hgxv/Proofs/C07Json.lean`: atoms identical, lists element-wise, dictionaries key-wise whatever
the order of their keys), for values whose dictionaries have no repeated key (`KN`) -/
theorem C07_sameValue_iff (x y : JTree) (kx : KN x) (ky : KN y) : ser x = ser y ↔ JEq x y :=
  ser_eq_iff_JEq x y kx ky

/-- hence a metadata value that differs as a JSON value is a difference for the lemmas `C07_differ_*_meta` below -/
theorem C07_meta_differs (x y : JTree) (kx : KN x) (ky : KN y) (h : ¬ JEq x y) : ser x ≠ ser y :=
  fun e => h ((ser_eq_iff_JEq x y kx ky).mp e)

/-! ## equal content ⇒ equal hash, for ANY `dumps` and `H` -/

theorem C07_equal {Digest : Type} (dumps : JTree → String) (H : String → Digest) (t₁ t₂ : Tables κ)
    (w₁ : WF t₁) (w₂ : WF t₂) (h : (content t₁).Equiv (content t₂)) :
    hashOf dumps H t₁ = hashOf dumps H t₂ ∧ (hashOf dumps H t₁).isSome = true := by
  unfold hashOf
  rw [factor w₁, factor w₂, canon_congr (content_WF w₁) h]
  exact ⟨rfl, rfl⟩

/-- Two construction histories (any interleaving of insertions, removals of hyperedges and nodes, metadata and
weight updates, clear; starting from any constructor arguments) that end in the same content hash equally. -/
theorem C07_equal_run {Digest : Type} (dumps : JTree → String) (H : String → Digest)
    (wt₁ wt₂ : Bool) (hm₁ hm₂ : List (String × JTree)) (ops₁ ops₂ : List (Op κ))
    (h : (content (run (init κ wt₁ hm₁) ops₁)).Equiv (content (run (init κ wt₂ hm₂) ops₂))) :
    hashOf dumps H (run (init κ wt₁ hm₁) ops₁) = hashOf dumps H (run (init κ wt₂ hm₂) ops₂) :=
  (C07_equal dumps H _ _ (run_wf (init_wf κ wt₁ hm₁) ops₁) (run_wf (init_wf κ wt₂ hm₂) ops₂) h).1

/-- the same for histories that start from the constructor with lists (`init` is `build` with empty lists) -/
theorem C07_equal_run_build {Digest : Type} (dumps : JTree → String) (H : String → Digest)
    (wt₁ wt₂ : Bool) (hm₁ hm₂ : List (String × JTree)) (ns₁ ns₂ : List (Nat × JTree)) (ww₁ ww₂ : Bool)
    (es₁ es₂ : List (κ × Option Num × Option JTree)) (ops₁ ops₂ : List (Op κ))
    (h : (content (run (build κ wt₁ hm₁ ns₁ ww₁ es₁) ops₁)).Equiv (content (run (build κ wt₂ hm₂ ns₂ ww₂ es₂) ops₂))) :
    hashOf dumps H (run (build κ wt₁ hm₁ ns₁ ww₁ es₁) ops₁) = hashOf dumps H (run (build κ wt₂ hm₂ ns₂ ww₂ es₂) ops₂) :=
  (C07_equal dumps H _ _ (C07_wf_build wt₁ hm₁ ns₁ ww₁ es₁ ops₁).2 (C07_wf_build wt₂ hm₂ ns₂ ww₂ es₂ ops₂).2 h).1

/-! ### batched insertion, one-by-one insertion and the constructor reach the same tables; attribute edits are local

In the model every node and every hyperedge owns its metadata entry.  A batched call is literally the sequence of
its single calls, the constructor with lists is a history, and an attribute-level edit (`set_attr_to_*`,
`remove_attr_from_*`) is the whole-entry setter applied to the edited dictionary: it changes the entry of that one
item only.  So "the same content reached by a batch, one by one, or through the constructor, followed by the same
attribute edits" are equal TABLES, hence equal hashes.  (An implementation that lets the items of one batch share a
single dictionary object is not this model: the correspondence and the pair oracle of the harness report it.) -/

theorem C07_batch_nodes (t : Tables κ) (items : List (Nat × Option JTree)) :
    step t (.addNodes items) = (run t (items.map (fun p => Op.addNode p.1 p.2)), true) := step_addNodes t items

/-- `add_edges` without a weights list -/
theorem C07_batch_edges (t : Tables κ) (items : List (κ × Option Num × Option JTree)) :
    step t (.addEdges false items) = (run t (items.map (fun it => Op.addEdge it.1 none it.2.2)), true) :=
  step_addEdges_noW t items

/-- `add_edges` with a weights list on a weighted hypergraph -/
theorem C07_batch_edges_weights (t : Tables κ) (hw : t.weighted = true) (items : List (κ × Option Num × Option JTree)) :
    step t (.addEdges true items) = (run t (items.map (fun it => Op.addEdge it.1 it.2.1 it.2.2)), true) :=
  step_addEdges_withW t hw items

/-- the constructor with `node_metadata`, `edge_list`, `edge_metadata` is the history of its single calls -/
theorem C07_build_as_history (weighted : Bool) (hm : List (String × JTree)) (nodes : List (Nat × JTree))
    (items : List (κ × Option Num × Option JTree)) :
    build κ weighted hm nodes false items =
      run (init κ weighted hm) (nodes.map (fun p => Op.addNode p.1 (some p.2)) ++
        items.map (fun it => Op.addEdge it.1 none it.2.2)) := build_eq_run κ weighted hm nodes items

/-- batch vs one by one, then the same further calls (e.g. attribute edits): the same tables, so the same hash -/
theorem C07_batch_then_edits {Digest : Type} (dumps : JTree → String) (H : String → Digest) (t : Tables κ)
    (ns : List (Nat × Option JTree)) (es : List (κ × Option Num × Option JTree)) (ops : List (Op κ)) :
    hashOf dumps H (run t (.addNodes ns :: .addEdges false es :: ops)) =
    hashOf dumps H (run t (ns.map (fun p => Op.addNode p.1 p.2) ++ es.map (fun it => Op.addEdge it.1 none it.2.2) ++ ops)) := by
  congr 1
  simp only [run, List.foldl_cons, List.foldl_append]
  rw [C07_batch_nodes, C07_batch_edges]
  rfl

/-- `set_attr_to_node_metadata` / `remove_attr_from_node_metadata`, when accepted, is `set_node_metadata` with the
edited dictionary -/
theorem C07_attr_node_is_set (t : Tables κ) (w : WF t) (n : Nat) (f : String) (v md : JTree)
    (hmd : get? t.nodeMeta n = some md) :
    (∀ md', md.setField f v = some md' → step t (.setNodeAttr n f v) = step t (.setNodeMeta n md')) ∧
    (∀ md', md.delField f = some md' → step t (.delNodeAttr n f) = step t (.setNodeMeta n md')) :=
  ⟨fun _ he => editNodeMeta_eq_set w hmd he, fun _ he => editNodeMeta_eq_set w hmd he⟩

/-- ... and it leaves the entry of every OTHER node and every other table as they are, accepted or not -/
theorem C07_attr_node_local (t : Tables κ) (n : Nat) (f : String) (v : JTree) (m : Nat) (hm : m ≠ n) :
    get? (step t (.setNodeAttr n f v)).1.nodeMeta m = get? t.nodeMeta m ∧
    get? (step t (.delNodeAttr n f)).1.nodeMeta m = get? t.nodeMeta m ∧
    (step t (.setNodeAttr n f v)).1.edgeMeta = t.edgeMeta ∧ (step t (.delNodeAttr n f)).1.edgeMeta = t.edgeMeta :=
  ⟨(editNodeMeta_local t n _).1 m hm, (editNodeMeta_local t n _).1 m hm,
   (editNodeMeta_local t n _).2.2.2.2.1, (editNodeMeta_local t n _).2.2.2.2.1⟩

/-- `set_attr_to_edge_metadata` / `remove_attr_from_edge_metadata`, when accepted, is `set_edge_metadata` with the
edited dictionary -/
theorem C07_attr_edge_is_set (t : Tables κ) (k : κ) (f : String) (v md : JTree) (id : Nat)
    (hid : get? t.edgeList (Kind.canonK k) = some id) (hmd : get? t.edgeMeta id = some md) :
    (∀ md', md.setField f v = some md' → step t (.setEdgeAttr k f v) = step t (.setEdgeMeta k md')) ∧
    (∀ md', md.delField f = some md' → step t (.delEdgeAttr k f) = step t (.setEdgeMeta k md')) :=
  ⟨fun _ he => editEdgeMeta_eq_set hid hmd he, fun _ he => editEdgeMeta_eq_set hid hmd he⟩

/-- ... and it leaves the entry of every OTHER hyperedge id and the node metadata as they are, accepted or not -/
theorem C07_attr_edge_local (t : Tables κ) (k : κ) (f : String) (v : JTree) (id : Nat)
    (hne : get? t.edgeList (Kind.canonK k) ≠ some id) :
    get? (step t (.setEdgeAttr k f v)).1.edgeMeta id = get? t.edgeMeta id ∧
    get? (step t (.delEdgeAttr k f)).1.edgeMeta id = get? t.edgeMeta id ∧
    (step t (.setEdgeAttr k f v)).1.nodeMeta = t.nodeMeta ∧ (step t (.delEdgeAttr k f)).1.nodeMeta = t.nodeMeta :=
  ⟨(editEdgeMeta_local t k _).1 id hne, (editEdgeMeta_local t k _).1 id hne,
   (editEdgeMeta_local t k _).2.2.2.2.1, (editEdgeMeta_local t k _).2.2.2.2.1⟩

/-- the order in which the nodes of a hyperedge are listed: only the canonical key reaches the tables -/
theorem C07_listing_order (t : Tables κ) (a b : κ) (w : Option Num) (md : Option JTree)
    (h : Kind.canonK a = Kind.canonK b) :
    addEdge t a w md = addEdge t b w md ∧ removeEdge t a = removeEdge t b := by
  unfold addEdge removeEdge
  rw [h]
  exact ⟨rfl, rfl⟩

theorem C07_listing_order_H (a b : KH) (h : a.Perm b) : Kind.canonK a = Kind.canonK b := canonK_perm_H h
theorem C07_listing_order_D (a b : KD) (h1 : a.1.Perm b.1) (h2 : a.2.Perm b.2) : Kind.canonK a = Kind.canonK b :=
  canonK_perm_D h1 h2
theorem C07_listing_order_T (t : Nat) (a b : List Nat) (h : a.Perm b) :
    Kind.canonK ((t, a) : KT) = Kind.canonK ((t, b) : KT) := canonK_perm_T rfl h
theorem C07_listing_order_M (l : Nat) (a b : List Nat) (h : a.Perm b) :
    Kind.canonK ((a, l) : KM) = Kind.canonK ((b, l) : KM) := canonK_perm_M h rfl

/-! ## different content ⇒ different canonical tree, one lemma per kind of difference -/

theorem C07_differ_canon (a b : Content κ) (h : ¬ a.Equiv b) : canon a ≠ canon b :=
  fun e => h (canon_inj e)

/-- a node present in one content and absent from the other -/
theorem C07_differ_node (a b : Content κ) (n : Nat) (ha : n ∈ a.nodes.map (·.1)) (hb : n ∉ b.nodes.map (·.1)) :
    canon a ≠ canon b := C07_differ_canon a b (not_equiv_of_node ha hb)

/-- a hyperedge key present in one content and absent from the other -/
theorem C07_differ_key (a b : Content κ) (k : κ) (ha : k ∈ a.edges.map (·.1)) (hb : k ∉ b.edges.map (·.1)) :
    canon a ≠ canon b := C07_differ_canon a b (not_equiv_of_key ha hb)

/-- single edit of a key (same weight, same metadata, everything else equal) -/
theorem C07_differ_key_edit (c : Content κ) (rest : List (κ × Num × JTree)) (k k' : κ) (w : Num) (md : JTree)
    (hne : k ≠ k') (hk : k ∉ rest.map (·.1)) :
    canon { c with edges := (k, w, md) :: rest } ≠ canon { c with edges := (k', w, md) :: rest } := by
  apply C07_differ_key _ _ k
  · simp
  · simp only [List.map_cons, List.mem_cons, not_or]
    exact ⟨hne, hk⟩

/-- a different time -/
theorem C07_differ_time (c : Content KT) (rest : List (KT × Num × JTree)) (t t' : Nat) (ns : List Nat) (w : Num)
    (md : JTree) (hne : t ≠ t') (hk : (t, ns) ∉ rest.map (·.1)) :
    canon { c with edges := ((t, ns), w, md) :: rest } ≠ canon { c with edges := ((t', ns), w, md) :: rest } :=
  C07_differ_key_edit c rest (t, ns) (t', ns) w md (fun e => hne (Prod.mk.inj e).1) hk

/-- a different layer -/
theorem C07_differ_layer (c : Content KM) (rest : List (KM × Num × JTree)) (l l' : Nat) (ns : List Nat) (w : Num)
    (md : JTree) (hne : l ≠ l') (hk : (ns, l) ∉ rest.map (·.1)) :
    canon { c with edges := ((ns, l), w, md) :: rest } ≠ canon { c with edges := ((ns, l'), w, md) :: rest } :=
  C07_differ_key_edit c rest (ns, l) (ns, l') w md (fun e => hne (Prod.mk.inj e).2) hk

/-- the opposite direction -/
theorem C07_differ_direction (c : Content KD) (rest : List (KD × Num × JTree)) (s t : List Nat) (w : Num)
    (md : JTree) (hne : s ≠ t) (hk : (s, t) ∉ rest.map (·.1)) :
    canon { c with edges := ((s, t), w, md) :: rest } ≠ canon { c with edges := ((t, s), w, md) :: rest } :=
  C07_differ_key_edit c rest (s, t) (t, s) w md (fun e => hne (Prod.mk.inj e).1) hk

/-- a different weight (value or numeric type) of the same key -/
theorem C07_differ_weight (a b : Content κ) (wb : b.WF) (k : κ) (w w' : Num) (md md' : JTree)
    (ha : (k, w, md) ∈ a.edges) (hb : (k, w', md') ∈ b.edges) (hne : w ≠ w') : canon a ≠ canon b :=
  C07_differ_canon a b (not_equiv_of_edge_record wb ha hb (Or.inl hne))

/-- `1` and `1.0` (any int against any float) -/
theorem C07_differ_weight_type (a b : Content κ) (wb : b.WF) (k : κ) (i q : Int) (md md' : JTree)
    (ha : (k, Num.int i, md) ∈ a.edges) (hb : (k, Num.flt q, md') ∈ b.edges) : canon a ≠ canon b :=
  C07_differ_weight a b wb k _ _ md md' ha hb (fun e => by cases e)

/-- a different metadata value of a hyperedge -/
theorem C07_differ_edge_meta (a b : Content κ) (wb : b.WF) (k : κ) (w w' : Num) (md md' : JTree)
    (ha : (k, w, md) ∈ a.edges) (hb : (k, w', md') ∈ b.edges) (hne : ser md ≠ ser md') : canon a ≠ canon b :=
  C07_differ_canon a b (not_equiv_of_edge_record wb ha hb (Or.inr hne))

/-- a different metadata value of a node -/
theorem C07_differ_node_meta (a b : Content κ) (wb : b.WF) (n : Nat) (md md' : JTree)
    (ha : (n, md) ∈ a.nodes) (hb : (n, md') ∈ b.nodes) (hne : ser md ≠ ser md') : canon a ≠ canon b :=
  C07_differ_canon a b (not_equiv_of_node_record wb ha hb hne)

/-- different hypergraph metadata -/
theorem C07_differ_hmeta (a b : Content κ) (hne : ser a.hmeta ≠ ser b.hmeta) : canon a ≠ canon b :=
  C07_differ_canon a b (fun h => hne h.hmeta)

/-- different weightedness -/
theorem C07_differ_weighted (a b : Content κ) (hne : a.weighted ≠ b.weighted) : canon a ≠ canon b :=
  C07_differ_canon a b (fun h => hne h.weighted)

/-! ## different content ⇒ different hash, under the two explicit hypotheses -/

/-- `hd`: `json.dumps(·, sort_keys=True)` is injective on serialized (key-sorted) JSON trees with string keys.
`hH`: SHA-256 does not collide on the two texts at hand.  Both are HYPOTHESES of this theorem (collision
resistance cannot be a theorem); everything else is proved. -/
theorem C07_differ {Digest : Type} (dumps : JTree → String) (H : String → Digest) (t₁ t₂ : Tables κ)
    (w₁ : WF t₁) (w₂ : WF t₂) (h : ¬ (content t₁).Equiv (content t₂))
    (hd : ∀ a b : JTree, dumps (ser a) = dumps (ser b) → ser a = ser b)
    (hH : H (dumps (canon (content t₁))) = H (dumps (canon (content t₂))) →
          dumps (canon (content t₁)) = dumps (canon (content t₂))) :
    hashOf dumps H t₁ ≠ hashOf dumps H t₂ := by
  unfold hashOf
  rw [factor w₁, factor w₂]
  intro e
  simp only [Option.map_some, Option.some.injEq] at e
  have e2 := hH e
  unfold canon at e2
  exact C07_differ_canon _ _ h (hd _ _ e2)

theorem C07_differ_run {Digest : Type} (dumps : JTree → String) (H : String → Digest)
    (wt₁ wt₂ : Bool) (hm₁ hm₂ : List (String × JTree)) (ops₁ ops₂ : List (Op κ))
    (h : ¬ (content (run (init κ wt₁ hm₁) ops₁)).Equiv (content (run (init κ wt₂ hm₂) ops₂)))
    (hd : ∀ a b : JTree, dumps (ser a) = dumps (ser b) → ser a = ser b)
    (hH : ∀ x y : String, H x = H y → x = y) :
    hashOf dumps H (run (init κ wt₁ hm₁) ops₁) ≠ hashOf dumps H (run (init κ wt₂ hm₂) ops₂) :=
  C07_differ dumps H _ _ (run_wf (init_wf κ wt₁ hm₁) ops₁) (run_wf (init_wf κ wt₂ hm₂) ops₂) h hd (hH _ _)

theorem C07_differ_run_build {Digest : Type} (dumps : JTree → String) (H : String → Digest)
    (wt₁ wt₂ : Bool) (hm₁ hm₂ : List (String × JTree)) (ns₁ ns₂ : List (Nat × JTree)) (ww₁ ww₂ : Bool)
    (es₁ es₂ : List (κ × Option Num × Option JTree)) (ops₁ ops₂ : List (Op κ))
    (h : ¬ (content (run (build κ wt₁ hm₁ ns₁ ww₁ es₁) ops₁)).Equiv (content (run (build κ wt₂ hm₂ ns₂ ww₂ es₂) ops₂)))
    (hd : ∀ a b : JTree, dumps (ser a) = dumps (ser b) → ser a = ser b)
    (hH : ∀ x y : String, H x = H y → x = y) :
    hashOf dumps H (run (build κ wt₁ hm₁ ns₁ ww₁ es₁) ops₁) ≠ hashOf dumps H (run (build κ wt₂ hm₂ ns₂ ww₂ es₂) ops₂) :=
  C07_differ dumps H _ _ (C07_wf_build wt₁ hm₁ ns₁ ww₁ es₁ ops₁).2 (C07_wf_build wt₂ hm₂ ns₂ ww₂ es₂ ops₂).2 h hd (hH _ _)

/-! ## purity -/

/-- computing the hash returns the tables it was given: `serialize` builds new dictionaries, nothing is written -/
theorem C07_pure {Digest : Type} (dumps : JTree → String) (H : String → Digest) (t : Tables κ) :
    (hashCall dumps H t).1 = t ∧ (hashCall dumps H (hashCall dumps H t).1).2 = (hashCall dumps H t).2 :=
  ⟨rfl, rfl⟩

/-! ## non-vacuity: concrete histories of the four kinds -/
/-! ## The same two directions for the FULL container models (C01–C04), over histories

`Proofs/C07Link.lean` maps the concrete stores of the four complete container models to the hashing tables
(`ofC0x`), proves that their representation invariants imply `WF`, and that the observed content is the abstract spec
state.  Combined with the invariant-for-every-history theorems of C01–C04 this gives: any two histories of public
calls (all mutators of the class, batched calls, copy, clear, remove_node with both keep_edges) whose ABSTRACT states
are the same content hash equally, whatever `dumps` and `H` are; and histories ending in different abstract contents
hash differently under the two explicit hypotheses of `C07_differ`. -/

theorem C07_histories_equal_H {Digest : Type} (dumps : JTree → String) (H : String → Digest)
    (k k' : Nat) (cs cs' : List C01.Cmd) (hwf : ∀ c ∈ cs, c.WF) (hwf' : ∀ c ∈ cs', c.WF)
    (s s' : C01.Store) (hs : s ∈ C01.run (C01.init k) cs) (hs' : s' ∈ C01.run (C01.init k') cs')
    (e : (ofSpec01 (C01.abs s)).Equiv (ofSpec01 (C01.abs s'))) :
    hashOf dumps H (ofC01 s) = hashOf dumps H (ofC01 s') :=
  C07_equal_C01 dumps H s s' (C01.run_inv cs (C01.init k) hwf (C01.init_inv k) s hs)
    (C01.run_inv cs' (C01.init k') hwf' (C01.init_inv k') s' hs') e

theorem C07_histories_differ_H {Digest : Type} (dumps : JTree → String) (H : String → Digest)
    (k k' : Nat) (cs cs' : List C01.Cmd) (hwf : ∀ c ∈ cs, c.WF) (hwf' : ∀ c ∈ cs', c.WF)
    (s s' : C01.Store) (hs : s ∈ C01.run (C01.init k) cs) (hs' : s' ∈ C01.run (C01.init k') cs')
    (e : ¬ (ofSpec01 (C01.abs s)).Equiv (ofSpec01 (C01.abs s')))
    (hd : ∀ a b : JTree, dumps (ser a) = dumps (ser b) → ser a = ser b) (hH : ∀ x y : String, H x = H y → x = y) :
    hashOf dumps H (ofC01 s) ≠ hashOf dumps H (ofC01 s') :=
  C07_differ_C01 dumps H s s' (C01.run_inv cs (C01.init k) hwf (C01.init_inv k) s hs)
    (C01.run_inv cs' (C01.init k') hwf' (C01.init_inv k') s' hs') e hd hH

theorem C07_histories_equal_T {Digest : Type} (dumps : JTree → String) (H : String → Digest)
    (ops ops' : List C03.Op) (hwf : ∀ op ∈ ops, op.WF) (hwf' : ∀ op ∈ ops', op.WF)
    (p p' : Nat × C03.Store) (hp : p ∈ C03.run [] ops) (hp' : p' ∈ C03.run [] ops')
    (e : (ofSpec03 (C03.abs p.2)).Equiv (ofSpec03 (C03.abs p'.2))) :
    hashOf dumps H (ofC03 p.2) = hashOf dumps H (ofC03 p'.2) :=
  C07_equal_C03 dumps H p.2 p'.2 (C03.run_inv ops hwf [] (by intro q hq; cases hq) p hp)
    (C03.run_inv ops' hwf' [] (by intro q hq; cases hq) p' hp') e

theorem C07_histories_equal_M {Digest : Type} (dumps : JTree → String) (H : String → Digest)
    (w w' : Bool) (hm hm' : C04.HMeta) (ops ops' : List C04.Op) (hw : ∀ op ∈ ops, op.WF) (hw' : ∀ op ∈ ops', op.WF)
    (e : (ofSpec04 (C04.abs (C04.run (C04.init w hm) ops))).Equiv (ofSpec04 (C04.abs (C04.run (C04.init w' hm') ops')))) :
    hashOf dumps H (ofC04 (C04.run (C04.init w hm) ops)) = hashOf dumps H (ofC04 (C04.run (C04.init w' hm') ops')) :=
  C07_equal_C04 dumps H _ _ (C04.run_inv _ ops (C04.inv_init w hm) hw) (C04.run_inv _ ops' (C04.inv_init w' hm') hw') e

theorem C07_histories_equal_D {Digest : Type} (dumps : JTree → String) (H : String → Digest)
    (w w' : Bool) (ops ops' : List C02.Op) (hops : ∀ o ∈ ops, o.WF) (hops' : ∀ o ∈ ops', o.WF)
    (e : (ofSpec02 (C02.abs (C02.run { weighted := w } ops))).Equiv (ofSpec02 (C02.abs (C02.run { weighted := w' } ops')))) :
    hashOf dumps H (ofC02 (C02.run { weighted := w } ops)) = hashOf dumps H (ofC02 (C02.run { weighted := w' } ops')) :=
  C07_equal_C02 dumps H _ _ (C02.run_inv _ ops hops (C02.inv_init w [])) (C02.run_inv _ ops' hops' (C02.inv_init w' [])) e

namespace C07Ex

/-- Hypergraph: different insertion order, different node-listing order, a detour through an extra node and an
extra hyperedge, metadata set later, dictionary keys in another order -/
def exA : List (Op KH) :=
  [.addNode 5 (some (.obj [("b", .num (.int 1)), ("a", .null)])), .addEdge [3, 1, 2] none none,
   .addEdge [2, 1] none (some (.obj [("z", .null)]))]
def exB : List (Op KH) :=
  [.addEdge [1, 2] none none, .addNode 7 none, .addEdge [7, 1] none none, .addEdge [1, 2, 3] none none,
   .setEdgeMeta [1, 2] (.obj [("z", .null)]), .removeNode 7 false,
   .addNode 5 (some (.obj [("a", .null), ("b", .num (.int 1))]))]

example : preimage? (run (init KH false []) exA) = preimage? (run (init KH false []) exB) := by rfl
example : (content (run (init KH false []) exA)).edges.length = 2 ∧
    (content (run (init KH false []) exA)).nodes.length = 4 := by decide
/-- the contents are equal (so `C07_equal_run` applies with a true hypothesis) -/
example : (content (run (init KH false []) exA)).Equiv (content (run (init KH false []) exB)) :=
  canon_inj (by rfl)
example {Digest : Type} (dumps : JTree → String) (H : String → Digest) :
    hashOf dumps H (run (init KH false []) exA) = hashOf dumps H (run (init KH false []) exB) :=
  C07_equal_run dumps H false false [] [] exA exB (canon_inj (by rfl))

/-- Directed, weighted: weights 1 (int) and 1.0 (float) are different contents -/
def exD1 : List (Op KD) := [.addEdge ([2, 1], [3]) (some (.int 1)) none]
def exD2 : List (Op KD) := [.addEdge ([1, 2], [3]) (some (.flt 4)) none]
example : canon (content (run (init KD true []) exD1)) ≠ canon (content (run (init KD true []) exD2)) :=
  C07_differ_weight_type _ _ (content_WF (run_wf (init_wf KD true []) exD2)) ([1, 2], [3]) 1 4 emptyObj emptyObj
    (by show _ ∈ [_]; exact List.mem_singleton.mpr rfl) (by show _ ∈ [_]; exact List.mem_singleton.mpr rfl)
example : ¬ (content (run (init KD true []) exD1)).Equiv (content (run (init KD true []) exD2)) :=
  not_equiv_of_edge_record (content_WF (run_wf (init_wf KD true []) exD2)) (k := ([1, 2], [3]))
    (w := .int 1) (w' := .flt 4) (md := emptyObj) (md' := emptyObj)
    (by show _ ∈ [_]; exact List.mem_singleton.mpr rfl) (by show _ ∈ [_]; exact List.mem_singleton.mpr rfl)
    (Or.inl (by decide))

/-- Temporal: keep_edges=True shrink builds the record; a different time is a different content -/
def exT1 : List (Op KT) := [.addEdge (3, [2, 9, 1]) none none, .removeNode 9 true]
def exT2 : List (Op KT) := [.addEdge (3, [1, 2]) none none]
def exT3 : List (Op KT) := [.addEdge (4, [1, 2]) none none]
example : preimage? (run (init KT false []) exT1) = preimage? (run (init KT false []) exT2) := by rfl
example : canon (content (run (init KT false []) exT2)) ≠ canon (content (run (init KT false []) exT3)) :=
  C07_differ_key _ _ (3, [1, 2]) (by decide) (by decide)

/-- Multiplex: clear is not available, remove and rebuild a node; a different layer is a different content -/
def exM1 : List (Op KM) := [.addEdge ([1, 2], 0) none none, .removeNode 2 false, .addEdge ([2, 1], 0) none none]
def exM2 : List (Op KM) := [.addEdge ([1, 2], 0) none none]
def exM3 : List (Op KM) := [.addEdge ([1, 2], 1) none none]
example : preimage? (run (init KM false []) exM1) = preimage? (run (init KM false []) exM2) := by rfl
example : canon (content (run (init KM false []) exM2)) ≠ canon (content (run (init KM false []) exM3)) :=
  C07_differ_key _ _ ([1, 2], 0) (by decide) (by decide)

/-- batch vs one by one vs constructor, then the same attribute edit (the histories of the seeded change C07-b1):
`add_nodes([1,2,3]); set_attr_to_node_metadata(1,"color","red"); add_edge((1,2))`, the same with `add_node` in another
order, and `Hypergraph(edge_list=[(1,2)], node_metadata={1:{"color":"red"},2:{},3:{}})` -/
def red : JTree := .str "red"
def exBatch : List (Op KH) :=
  [.addNodes [(1, none), (2, none), (3, none)], .setNodeAttr 1 "color" red, .addEdge [1, 2] none none]
def exSingle : List (Op KH) :=
  [.addNode 3 none, .addNode 2 none, .addNode 1 none, .setNodeAttr 1 "color" red, .addEdge [2, 1] none none]
def exCtor : Tables KH :=
  build KH false [] [(1, .obj [("color", red)]), (2, emptyObj), (3, emptyObj)] false [([1, 2], none, none)]
example : preimage? (run (init KH false []) exBatch) = preimage? (run (init KH false []) exSingle) := by rfl
example : preimage? (run (init KH false []) exBatch) = preimage? exCtor := by rfl
/-- the siblings of the batch keep `{}`: giving node 2 the attribute too is a different content -/
example : (content (run (init KH false []) exBatch)).nodes = [(1, .obj [("color", red)]), (2, emptyObj), (3, emptyObj)] := by
  rfl
example : canon (content (run (init KH false []) exBatch)) ≠
    canon (content (run (init KH false []) (exBatch ++ [.setNodeAttr 2 "color" red]))) :=
  C07_differ_node_meta _ _ (content_WF (run_wf (init_wf KH false []) _)) 2 emptyObj (.obj [("color", red)])
    (by show _ ∈ [_, _, _]; exact List.mem_cons_of_mem _ List.mem_cons_self)
    (by show _ ∈ [_, _, _]; exact List.mem_cons_of_mem _ List.mem_cons_self)
    (by simp [ser, serFields, sortBy, insertBy])
/-- the same on hyperedge metadata (Temporal): a batch without metadata, an attribute set on one record, an attribute
set and removed again on the other; against single insertions with metadata -/
def exTBatch : List (Op KT) :=
  [.addEdges false [((3, [0, 1]), none, none), ((4, [1, 2]), none, none)], .setEdgeAttr (3, [1, 0]) "seen" (.bool true),
   .setEdgeAttr (4, [1, 2]) "tmp" .null, .delEdgeAttr (4, [2, 1]) "tmp"]
def exTSingle : List (Op KT) :=
  [.addEdge (4, [2, 1]) none none, .addEdge (3, [0, 1]) none (some (.obj [("seen", .bool true)]))]
example : preimage? (run (init KT false []) exTBatch) = preimage? (run (init KT false []) exTSingle) := by rfl
/-- rejected attribute edits (unknown node, missing field, unknown record) change nothing -/
example : run (init KT false []) (exTBatch ++ [.delEdgeAttr (4, [1, 2]) "tmp", .setNodeAttr 9 "a" .null,
    .delNodeAttr 1 "a", .setEdgeAttr (5, [1, 2]) "a" .null]) = run (init KT false []) exTBatch := by rfl

/-- a stale node-metadata entry (what D9/D11 leave behind) is not well-formed, and the pre-image then lists a
node the content does not have -/
def stale : Tables KD := { nodeMeta := [(5, emptyObj)] }
example : ¬ WF stale := fun w => by
  have := (w.node.same 5).mpr (by decide)
  simp [stale, keys] at this
/-- number of node records of a pre-image -/
def nodeRecords : Option JTree → Nat
  | some (.obj [_, _, (_, .arr ns), _, _]) => ns.length
  | _ => 0
example : preimage? stale ≠ some (canon (content stale)) := fun h =>
  absurd (congrArg nodeRecords h) (by decide)


/-- nested dictionaries in another key order are the same JSON value; `1` and `1.0` are not -/
def mdA : JTree := .obj [("b", .arr [.obj [("y", .bool true), ("x", .null)]]), ("a", .num (.int 1))]
def mdB : JTree := .obj [("a", .num (.int 1)), ("b", .arr [.obj [("x", .null), ("y", .bool true)]])]
def mdC : JTree := .obj [("a", .num (.flt 4)), ("b", .arr [.obj [("x", .null), ("y", .bool true)]])]
example : ser mdA = ser mdB := by rfl
example : KN mdA ∧ KN mdB ∧ KN mdC := by
  simp [KN, KNFields, KNList, mdA, mdB, mdC]
example : JEq mdA mdB := (C07_sameValue_iff mdA mdB (by simp [KN, KNFields, KNList, mdA])
  (by simp [KN, KNFields, KNList, mdB])).mp (by rfl)
example : ser mdB ≠ ser mdC := by
  simp [ser, serFields, serList, mdB, mdC, sortBy, insertBy, fieldLe, KeyOrd.le]

end C07Ex

/-! ## metadata as objects: which slots share a dictionary / list object is irrelevant

`Model/C07Heap.lean`: the metadata objects of a hypergraph as a heap of cells that hold ADDRESSES of other cells (one
dictionary handed to several nodes / hyperedges / the hypergraph, one nested list inside two dictionaries, ...).
`values h` are the JSON values the cells denote - what the getters return and `==` compares, i.e. the metadata of the
content - and `serCells h` is what `serialize` of hashing.py returns for every cell when it follows the references. -/

/-- `serialize` of a metadata object is `ser` of the JSON value it denotes, for every object graph: the pre-image
sees the value-based tables of `Model/C07.lean` (each slot resolved to its value), whatever objects the slots share.
No hypothesis: a dangling address reads as `null` on both sides; the harness only builds closed heaps. -/
theorem C07_serialize_by_reference (h : Heap) : serCells h = (values h).map ser :=
  serCells_eq h

/-- two slots - of one hypergraph or of two, in heaps with different sharing - that denote the same value get the same
serialization; so builds of one content from shared and from fresh equal objects have one pre-image (and by
`C07_equal` one hash) -/
theorem C07_sharing_irrelevant (h₁ h₂ : Heap) (r₁ r₂ : Nat)
    (hv : look (values h₁) r₁ = look (values h₂) r₂) :
    look (serCells h₁) r₁ = look (serCells h₂) r₂ := by
  rw [C07_serialize_by_reference, C07_serialize_by_reference, look_map_ser, look_map_ser, hv]

/-- a difference of the denoted values survives serialization (values without repeated dictionary keys), also when
every object involved is held by other slots as well -/
theorem C07_sharing_keeps_differences (h₁ h₂ : Heap) (r₁ r₂ : Nat)
    (k₁ : KN (look (values h₁) r₁)) (k₂ : KN (look (values h₂) r₂))
    (hv : ¬ JEq (look (values h₁) r₁) (look (values h₂) r₂)) :
    look (serCells h₁) r₁ ≠ look (serCells h₂) r₂ := by
  rw [C07_serialize_by_reference, C07_serialize_by_reference, look_map_ser, look_map_ser]
  intro e
  exact hv ((ser_eq_iff_JEq _ _ k₁ k₂).mp e)

namespace C07Ex
/-- cell 3: the record `{tags: L, src: "s"}` with the list object `L = ["a", "a"]` (cell 2); cell 4: a second
dictionary `{Z: L}` holding the SAME list object; cells 5-6: a fresh equal copy of the record (its own list object);
cells in creation order, addresses point to older cells -/
def heap : Heap :=
  [.atom (.str "a"), .atom (.str "s"), .arr [0, 0], .obj [("tags", 2), ("src", 1)], .obj [("Z", 2)],
   .arr [0, 0], .obj [("tags", 5), ("src", 1)]]

example : heap.closed = true := by decide
/-- slots 3 (shared record) and 6 (fresh equal record) denote one value -/
example : look (values heap) 3 = look (values heap) 6 := by rfl
example : look (values heap) 3 = .obj [("tags", .arr [.str "a", .str "a"]), ("src", .str "s")] := by rfl
/-- `serialize`: three slots holding the record (the same object twice, a fresh equal one) - three equal results -/
example : [3, 3, 6].map (look (serCells heap)) =
    List.replicate 3 (.obj [("src", .str "s"), ("tags", .arr [.str "a", .str "a"])]) := by rfl
/-- the seeded guard (C07-c3) on the same three slots: the second occurrence of the OBJECT is the placeholder, and
inside the fresh equal record the nested list (object 5) is fine but ... the result is no function of the values -/
example : guardSlots heap [3, 3, 6] =
    [.obj [("src", .str "s"), ("tags", .arr [.str "a", .str "a"])], placeholder,
     .obj [("src", .str "s"), ("tags", .arr [.str "a", .str "a"])]] := by rfl
/-- ... and hides a real difference: slot lists `[3, 4, 3]` and `[3, 4, 4]` differ in the last value, the guard prints
the placeholder for both -/
example : guardSlots heap [3, 4, 3] = guardSlots heap [3, 4, 4] := by rfl
example : ¬ (look (values heap) 3 = look (values heap) 4) := by
  intro e; simp [look, values, valuesFrom, cellVal, heap] at e
end C07Ex

/-! ## richer histories (round e): a setter called again for the same key replaces; a shrunken hyperedge that meets
an existing one is an `add_edge` on that hyperedge

The seeded changes C07-e3 (`MultiplexHypergraph.set_layer_metadata` MERGES into the record of an earlier call) and
C07-e1 (`Hypergraph.remove_node(keep_edges=True)` renames the incident hyperedges in place) differ from the model in
exactly these statements; the harness runs second / third calls of every setter and colliding shrinks in all four
classes. -/

/-- `set_attr_to_hypergraph_metadata(f, ·)` - and `MultiplexHypergraph.set_layer_metadata(layer, ·)` /
`set_dataset_metadata(·)`, which are `hypergraph_metadata[layer] = record` - called any number of times for ONE
field: the tables (hence content and hash) are those of the LAST call alone; no earlier record leaves a trace.
No hypothesis: when the hypergraph metadata are no dictionary every call is refused and nothing changes. -/
theorem C07_hattr_last_wins (t : Tables κ) (f : String) (earlier : List JTree) (b : JTree) :
    run t (earlier.map (Op.setHAttr f) ++ [.setHAttr f b]) = run t [.setHAttr f b] := by
  induction earlier generalizing t with
  | nil => rfl
  | cons a as ih =>
    have h := ih (step t (.setHAttr f a)).1
    simp only [run, List.map_cons, List.cons_append, List.foldl_cons, List.foldl_nil] at h ⊢
    rw [h]
    simp only [step]
    exact setHAttr_twice t f a b

/-- `set_node_metadata(n, ·)` called any number of times for one node: only the last record counts -/
theorem C07_node_meta_last_wins (t : Tables κ) (n : Nat) (earlier : List JTree) (b : JTree) :
    run t (earlier.map (Op.setNodeMeta n) ++ [.setNodeMeta n b]) = run t [.setNodeMeta n b] := by
  induction earlier generalizing t with
  | nil => rfl
  | cons a as ih =>
    have h := ih (step t (.setNodeMeta n a)).1
    simp only [run, List.map_cons, List.cons_append, List.foldl_cons, List.foldl_nil] at h ⊢
    rw [h]
    simp only [step]
    exact setNodeMeta_twice t n a b

/-- `set_edge_metadata(k, ·)` called any number of times for one hyperedge (node-listing order of `k` free in
every call is covered by `C07_listing_order`): only the last record counts -/
theorem C07_edge_meta_last_wins (t : Tables κ) (k : κ) (earlier : List JTree) (b : JTree) :
    run t (earlier.map (Op.setEdgeMeta k) ++ [.setEdgeMeta k b]) = run t [.setEdgeMeta k b] := by
  induction earlier generalizing t with
  | nil => rfl
  | cons a as ih =>
    have h := ih (step t (.setEdgeMeta k a)).1
    simp only [run, List.map_cons, List.cons_append, List.foldl_cons, List.foldl_nil] at h ⊢
    rw [h]
    simp only [step]
    exact setEdgeMeta_twice t k a b

/-- `set_hypergraph_metadata(·)` called any number of times: only the last dictionary counts -/
theorem C07_hmeta_last_wins (t : Tables κ) (earlier : List JTree) (b : JTree) :
    run t (earlier.map Op.setHMeta ++ [.setHMeta b]) = run t [.setHMeta b] := by
  induction earlier generalizing t with
  | nil => rfl
  | cons a as ih =>
    have h := ih (step t (.setHMeta a)).1
    simp only [run, List.map_cons, List.cons_append, List.foldl_cons, List.foldl_nil] at h ⊢
    rw [h]
    rfl

/-- the hash after repeated calls of one hypergraph-metadata setter is the hash after the last call alone -/
theorem C07_repeated_setter_hash {Digest : Type} (dumps : JTree → String) (H : String → Digest) (t : Tables κ)
    (f : String) (earlier : List JTree) (b : JTree) :
    hashOf dumps H (run t (earlier.map (Op.setHAttr f) ++ [.setHAttr f b])) = hashOf dumps H (run t [.setHAttr f b]) := by
  rw [C07_hattr_last_wins]

/-- one iteration of `remove_node(n, keep_edges=True)` on an incident hyperedge `k` (id `id`) whose remainder `k'` is a
hyperedge: it IS `add_edge(k', weight-of-k, metadata-of-k)` after `remove_edge(k)` - so when `k'` is there already its
weight grows by the weight of `k` (weighted) and its record is replaced, exactly as for any repeated insertion.
Hypotheses: `id` is a live id (it comes from the adjacency list of `n`) and the remainder is non-empty. -/
theorem C07_shrink_is_add_edge (t : Tables κ) (n id : Nat) (k k' : κ) (hk : get? t.rev id = some k)
    (hs : Kind.shrink k n = some k') :
    shrinkIncident n t id =
      (addEdge (removeEdge t k).1 k' (some ((get? t.weights id).getD (.int 1)))
        (some ((get? t.edgeMeta id).getD emptyObj))).1 := by
  simp [shrinkIncident, hk, hs]

namespace C07Ex
/-- the histories of the seeded change C07-e3 (layers as ranks in keys, as names in the hypergraph metadata): the
record of layer "social" set twice, the second record lacking a field of the first -/
def draft : JTree := .obj [("draft", .bool true), ("source", .str "old")]
def final : JTree := .obj [("source", .str "v2")]
def exLay2 : List (Op KM) := [.addEdge ([1, 2, 3], 0) none none, .setHAttr "social" draft, .setHAttr "work" emptyObj,
  .setHAttr "social" final]
def exLay1 : List (Op KM) := [.addEdge ([3, 2, 1], 0) none none, .setHAttr "work" emptyObj, .setHAttr "social" final]
example : preimage? (run (init KM false []) exLay2) = preimage? (run (init KM false []) exLay1) := by rfl
example : run (init KM false []) ([draft, emptyObj].map (Op.setHAttr "social") ++ [.setHAttr "social" final]) =
    run (init KM false []) [.setHAttr "social" final] := C07_hattr_last_wins _ _ _ _
/-- number of fields of the record stored under "social" -/
def socialFields : JTree → Nat
  | .obj l => match get? l "social" with
    | some (.obj r) => r.length
    | _ => 0
  | _ => 0
/-- a merging setter (the seeded change) would leave two fields in the record: another content -/
example : socialFields (run (init KM false []) exLay2).hmeta = 1 := by rfl
example : socialFields (run (init KM false []) exLay1).hmeta = 1 := by rfl
example : run (init KH false []) ([emptyObj, draft].map (Op.setNodeMeta 1) ++ [.setNodeMeta 1 final]) =
    run (init KH false []) [.setNodeMeta 1 final] := C07_node_meta_last_wins _ _ _ _
example : (run (run (init KH false []) [.addNode 1 none]) ([draft].map (Op.setNodeMeta 1) ++ [.setNodeMeta 1 final])).nodeMeta
    = [(1, final)] := by rfl
example : (run (run (init KT false []) [.addEdge (0, [1, 2]) none none])
    ([draft].map (Op.setEdgeMeta (0, [2, 1])) ++ [.setEdgeMeta (0, [1, 2]) final])).edgeMeta = [(0, final)] := by rfl

/-- the histories of the seeded change C07-e1: weighted, `(2,3)` w=2, `(1,2,3)` w=5, node 1 removed with
`keep_edges=True` = `(2,3)` inserted with 2 and again with 5 = `(2,3)` w=7 -/
def exShrink : List (Op KH) :=
  [.addEdge [2, 3] (some (.int 2)) (some (.obj [("k", .str "old")])), .addEdge [1, 2, 3] (some (.int 5)) (some (.obj [("k", .str "new")])),
   .removeNode 1 true]
def exTwice : List (Op KH) :=
  [.addEdge [3, 2] (some (.int 2)) (some (.obj [("k", .str "old")])), .addEdge [2, 3] (some (.int 5)) (some (.obj [("k", .str "new")]))]
def exOnce : List (Op KH) := [.addEdge [2, 3] (some (.int 7)) (some (.obj [("k", .str "new")]))]
example : preimage? (run (init KH true []) exShrink) = preimage? (run (init KH true []) exTwice) := by rfl
example : preimage? (run (init KH true []) exShrink) = preimage? (run (init KH true []) exOnce) := by rfl
example : (content (run (init KH true []) exShrink)).edges = [([2, 3], .int 7, .obj [("k", .str "new")])] := by rfl
/-- the seeded in-place rename would leave weight 5: another content, another pre-image (`C07_differ_weight`) -/
example : canon (content (run (init KH true []) exShrink)) ≠
    canon (content (run (init KH true []) [.addEdge [2, 3] (some (.int 5)) (some (.obj [("k", .str "new")]))])) :=
  C07_differ_weight _ _ (content_WF (run_wf (init_wf KH true []) _)) [2, 3] (.int 7) (.int 5)
    (.obj [("k", .str "new")]) (.obj [("k", .str "new")])
    (by show _ ∈ [_]; exact List.mem_singleton.mpr rfl) (by show _ ∈ [_]; exact List.mem_singleton.mpr rfl) (by decide)
/-- `C07_shrink_is_add_edge` on that state (id 1 is the hyperedge (1,2,3)) -/
example : shrinkIncident 1 (run (init KH true []) (exShrink.take 2)) 1 =
    (addEdge (removeEdge (run (init KH true []) (exShrink.take 2)) [1, 2, 3]).1 [2, 3] (some (.int 5))
      (some (.obj [("k", .str "new")]))).1 :=
  C07_shrink_is_add_edge _ 1 1 [1, 2, 3] [2, 3] (by rfl) (by rfl)
/-- two shrunken hyperedges meeting each other (directed: the node on the source side of one, on the target side of
the other; one call) -/
def exSides : List (Op KD) :=
  [.addEdge ([1, 9], [2]) (some (.int 3)) none, .addEdge ([1], [9, 2]) (some (.int 4)) none, .removeNode 9 true]
example : preimage? (run (init KD true []) exSides) =
    preimage? (run (init KD true []) [.addEdge ([1], [2]) (some (.int 7)) none]) := by rfl
end C07Ex

/-! ## Extension round: `json.dumps(·, sort_keys=True)` inside the model

`Model/C07Dumps.lean` writes the JSON text (`renderK`: separators `", "` / `": "`, `null/true/false`, strings between
quotes with the `ensure_ascii` escapes, dictionaries and lists in order; `dumpsJ f = text of ser ·` is `sort_keys=True`),
`pyFmt` is what CPython writes for the atoms (decimal ints, positional quarter floats, `\" \\ \n \r \t \b \f \uXXXX`
with surrogate pairs).  `hashText f t` is the text whose SHA-256 `hash_hypergraph` returns.  The hypothesis "`dumps` is
injective on serialized trees" of `C07_differ` is now a THEOREM; what stays a hypothesis is collision-freeness of `H`. -/

/-- the canonical serialisation is an injective function on JSON trees (dictionary ORDER included: the text is a
faithful print), for every atom writer that satisfies `Fmt.Laws` -/
theorem C07_json_text_injective (f : Fmt) (L : f.Laws) (a b : JTree) (h : render f a = render f b) : a = b :=
  render_inj L h

/-- stronger: JSON texts form a prefix code - written in front of continuations that start with `,` `]` `}` (or are
empty) two values give the same text only if the values and the continuations are the same; this is what makes
lists and dictionaries of values unambiguous -/
theorem C07_json_prefix_code (f : Fmt) (L : f.Laws) (a b : JTree) (r₁ r₂ : List Char) (s₁ : Stop r₁) (s₂ : Stop r₂)
    (h : renderK f a r₁ = renderK f b r₂) : a = b ∧ r₁ = r₂ := renderK_pref L a b r₁ r₂ s₁ s₂ h

/-- CPython's atom writers satisfy the laws: ints and quarter floats are written injectively and never alike
(`1` / `1.0`), escapes of distinct characters are never prefixes of one another (UTF-16 pairs included) -/
theorem C07_pyFmt_laws : pyFmt.Laws := pyFmt_laws

/-- `1` and `1.0` (any int and any float) have different JSON texts -/
theorem C07_int_float_texts_differ (i q : Int) : pyFmt.num (.int i) ≠ pyFmt.num (.flt q) := int_ne_flt i q

/-- `json.dumps(·, sort_keys=True)` gives the same text exactly for trees that agree up to the order of dictionary
keys (at every depth) -/
theorem C07_dumps_iff_ser (f : Fmt) (L : f.Laws) (a b : JTree) : dumpsJ f a = dumpsJ f b ↔ ser a = ser b :=
  ⟨fun h => dumpsJ_inj L h, fun h => by unfold dumpsJ; rw [h]⟩

/-- ... i.e. exactly for equal JSON values (Python `==` with the numeric types kept apart), for values whose
dictionaries have no repeated key -/
theorem C07_dumps_iff_value (f : Fmt) (L : f.Laws) (a b : JTree) (ka : KN a) (kb : KN b) :
    dumpsJ f a = dumpsJ f b ↔ JEq a b :=
  (C07_dumps_iff_ser f L a b).trans (ser_eq_iff_JEq a b ka kb)

/-- `serialize` is idempotent, so `sort_keys=True` finds the keys of the serialized pre-image sorted already: the text
is the print of the pre-image as it stands (dropping the recursion of `serialize`, or the `sort_keys` flag, alone
would not change any hash) -/
theorem C07_sort_keys_noop (f : Fmt) (a : JTree) :
    ser (ser a) = ser a ∧ dumpsJ f (ser a) = String.ofList (render f (ser a)) := ⟨ser_idem a, dumpsJ_ser f a⟩

/-- the hashed TEXT is a function of the content and determines it: two well-formed table states of one class have
the same text iff they have the same abstract content (nodes, hyperedges, weights with their numeric type, all
metadata as JSON values, weightedness); the text always exists -/
theorem C07_text_iff_content (f : Fmt) (L : f.Laws) (t₁ t₂ : Tables κ) (w₁ : WF t₁) (w₂ : WF t₂) :
    (hashText f t₁ = hashText f t₂ ↔ (content t₁).Equiv (content t₂)) ∧ (hashText f t₁).isSome = true := by
  unfold hashText
  rw [factor w₁, factor w₂]
  refine ⟨⟨fun h => ?_, fun h => ?_⟩, rfl⟩
  · simp only [Option.map_some, Option.some.injEq] at h
    have e := dumpsJ_inj L h
    unfold canon at e
    rw [ser_idem, ser_idem] at e
    exact canon_inj e
  · rw [canon_congr (content_WF w₁) h]

/-- the same for the text CPython writes, for any two histories from the constructor with lists -/
theorem C07_text_iff_content_run (wt₁ wt₂ : Bool) (hm₁ hm₂ : List (String × JTree)) (ns₁ ns₂ : List (Nat × JTree))
    (ww₁ ww₂ : Bool) (es₁ es₂ : List (κ × Option Num × Option JTree)) (ops₁ ops₂ : List (Op κ)) :
    hashText pyFmt (run (build κ wt₁ hm₁ ns₁ ww₁ es₁) ops₁) = hashText pyFmt (run (build κ wt₂ hm₂ ns₂ ww₂ es₂) ops₂) ↔
    (content (run (build κ wt₁ hm₁ ns₁ ww₁ es₁) ops₁)).Equiv (content (run (build κ wt₂ hm₂ ns₂ ww₂ es₂) ops₂)) :=
  (C07_text_iff_content pyFmt pyFmt_laws _ _ (C07_wf_build wt₁ hm₁ ns₁ ww₁ es₁ ops₁).2
    (C07_wf_build wt₂ hm₂ ns₂ ww₂ es₂ ops₂).2).1

/-- the hash is `H` of that text -/
theorem C07_hash_is_H_of_text {Digest : Type} (f : Fmt) (H : String → Digest) (t : Tables κ) :
    hashOf (dumpsJ f) H t = (hashText f t).map H := by
  unfold hashOf hashText
  cases preimage? t <;> rfl

/-- EQUAL HASH IFF EQUAL CONTENT, with CPython's `json.dumps` inside the model: the only hypothesis left is that `H`
(SHA-256) does not collide -/
theorem C07_hash_iff_content {Digest : Type} (H : String → Digest) (hH : ∀ x y : String, H x = H y → x = y)
    (t₁ t₂ : Tables κ) (w₁ : WF t₁) (w₂ : WF t₂) :
    hashOf (dumpsJ pyFmt) H t₁ = hashOf (dumpsJ pyFmt) H t₂ ↔ (content t₁).Equiv (content t₂) := by
  constructor
  · intro h
    apply Classical.byContradiction
    intro hne
    exact C07_differ (dumpsJ pyFmt) H t₁ t₂ w₁ w₂ hne (fun a b e => by have := dumpsJ_inj pyFmt_laws e; rwa [ser_idem, ser_idem] at this) (hH _ _) h
  · intro h
    exact (C07_equal (dumpsJ pyFmt) H t₁ t₂ w₁ w₂ h).1

/-- ... for any two histories (constructor with lists, then any calls) of one class -/
theorem C07_hash_iff_content_run {Digest : Type} (H : String → Digest) (hH : ∀ x y : String, H x = H y → x = y)
    (wt₁ wt₂ : Bool) (hm₁ hm₂ : List (String × JTree)) (ns₁ ns₂ : List (Nat × JTree)) (ww₁ ww₂ : Bool)
    (es₁ es₂ : List (κ × Option Num × Option JTree)) (ops₁ ops₂ : List (Op κ)) :
    hashOf (dumpsJ pyFmt) H (run (build κ wt₁ hm₁ ns₁ ww₁ es₁) ops₁) =
      hashOf (dumpsJ pyFmt) H (run (build κ wt₂ hm₂ ns₂ ww₂ es₂) ops₂) ↔
    (content (run (build κ wt₁ hm₁ ns₁ ww₁ es₁) ops₁)).Equiv (content (run (build κ wt₂ hm₂ ns₂ ww₂ es₂) ops₂)) :=
  C07_hash_iff_content H hH _ _ (C07_wf_build wt₁ hm₁ ns₁ ww₁ es₁ ops₁).2 (C07_wf_build wt₂ hm₂ ns₂ ww₂ es₂ ops₂).2

/-- the four classes, spelled out (the statement above at `κ = KH, KD, KT, KM`) -/
theorem C07_hash_iff_content_H {Digest : Type} (H : String → Digest) (hH : ∀ x y : String, H x = H y → x = y)
    (t₁ t₂ : Tables KH) (w₁ : WF t₁) (w₂ : WF t₂) :
    hashOf (dumpsJ pyFmt) H t₁ = hashOf (dumpsJ pyFmt) H t₂ ↔ (content t₁).Equiv (content t₂) :=
  C07_hash_iff_content H hH t₁ t₂ w₁ w₂
theorem C07_hash_iff_content_D {Digest : Type} (H : String → Digest) (hH : ∀ x y : String, H x = H y → x = y)
    (t₁ t₂ : Tables KD) (w₁ : WF t₁) (w₂ : WF t₂) :
    hashOf (dumpsJ pyFmt) H t₁ = hashOf (dumpsJ pyFmt) H t₂ ↔ (content t₁).Equiv (content t₂) :=
  C07_hash_iff_content H hH t₁ t₂ w₁ w₂
theorem C07_hash_iff_content_T {Digest : Type} (H : String → Digest) (hH : ∀ x y : String, H x = H y → x = y)
    (t₁ t₂ : Tables KT) (w₁ : WF t₁) (w₂ : WF t₂) :
    hashOf (dumpsJ pyFmt) H t₁ = hashOf (dumpsJ pyFmt) H t₂ ↔ (content t₁).Equiv (content t₂) :=
  C07_hash_iff_content H hH t₁ t₂ w₁ w₂
theorem C07_hash_iff_content_M {Digest : Type} (H : String → Digest) (hH : ∀ x y : String, H x = H y → x = y)
    (t₁ t₂ : Tables KM) (w₁ : WF t₁) (w₂ : WF t₂) :
    hashOf (dumpsJ pyFmt) H t₁ = hashOf (dumpsJ pyFmt) H t₂ ↔ (content t₁).Equiv (content t₂) :=
  C07_hash_iff_content H hH t₁ t₂ w₁ w₂

/-- a single edit of the content (any of the `C07_differ_*` lemmas gives `¬ Equiv`) changes the hashed text - no
hypothesis on `dumps` any more -/
theorem C07_differ_text (t₁ t₂ : Tables κ) (w₁ : WF t₁) (w₂ : WF t₂) (h : ¬ (content t₁).Equiv (content t₂)) :
    hashText pyFmt t₁ ≠ hashText pyFmt t₂ :=
  fun e => h ((C07_text_iff_content pyFmt pyFmt_laws t₁ t₂ w₁ w₂).1.mp e)

namespace C07Ex
/-- the text CPython writes for a small pre-image (escapes, a surrogate pair, `1` next to `1.0`, `-0.75`, empty
containers, keys sorted by `sort_keys`) -/
example : dumpsJ pyFmt (.obj [("b", .arr [.num (.int 1), .num (.flt 4), .num (.flt (-3)), .null, .bool true, .arr [], .obj []]),
      ("a", .str "x\"y\n😀é")]) =
    "{\"a\": \"x\\\"y\\n\\ud83d\\ude00\\u00e9\", \"b\": [1, 1.0, -0.75, null, true, [], {}]}" := by decide
/-- the text of the two histories `exShrink` / `exOnce` is the same, the one of the renamed weight differs -/
example : hashText pyFmt (run (init KH true []) exShrink) = hashText pyFmt (run (init KH true []) exOnce) := by rfl
example : hashText pyFmt (run (init KH true []) exShrink) ≠
    hashText pyFmt (run (init KH true []) [.addEdge [2, 3] (some (.int 5)) (some (.obj [("k", .str "new")]))]) :=
  C07_differ_text _ _ (run_wf (init_wf KH true []) _) (run_wf (init_wf KH true []) _) (fun e =>
    C07_differ_weight _ _ (content_WF (run_wf (init_wf KH true []) _)) [2, 3] (.int 7) (.int 5)
      (.obj [("k", .str "new")]) (.obj [("k", .str "new")])
      (by show _ ∈ [_]; exact List.mem_singleton.mpr rfl) (by show _ ∈ [_]; exact List.mem_singleton.mpr rfl) (by decide)
      (canon_congr (content_WF (run_wf (init_wf KH true []) _)) e))
example : (hashText pyFmt (run (init KD true []) exSides)) = some
    "{\"edges\": [{\"metadata\": {}, \"nodes\": [[1], [2]], \"weight\": 7}], \"hypergraph_metadata\": {\"type\": \"DirectedHypergraph\", \"weighted\": true}, \"nodes\": [{\"metadata\": {}, \"node\": 1}, {\"metadata\": {}, \"node\": 2}], \"type\": \"DirectedHypergraph\", \"weighted\": true}" := by decide +kernel
/-- `{"a": 1, "b": 2}` in both key orders: one text; `1` vs `1.0`: two texts -/
example : dumpsJ pyFmt (.obj [("b", .num (.int 2)), ("a", .num (.int 1))]) =
    dumpsJ pyFmt (.obj [("a", .num (.int 1)), ("b", .num (.int 2))]) := by decide
example : dumpsJ pyFmt (.num (.int 1)) ≠ dumpsJ pyFmt (.num (.flt 4)) := by decide
end C07Ex

/-! ## Extension round: the tables the hashed view does not read (`_incidences_metadata`, `_empty_edges`)

`Model/C07Side.lean`: `Obj κ` = hashing tables + incidence metadata + the registry of empty hyperedges, `OOp` = the old
calls + `set_incidence_metadata` + `add_empty_edge`, per class as the code has them (Hypergraph stores the incidence
record under the edge as passed, Directed / Temporal under the canonical key, Multiplex has neither; `clear()` empties
the incidence table in Hypergraph / Directed only, the registry in Hypergraph). -/

/-- the hashing tables after a history of an object are the hashing tables after the same history with the side-table
calls deleted: these calls never write a table that `expose_attributes_for_hashing` reads, and no other call reads
the side tables -/
theorem C07_side_tables_unread {κ : Type} [Kind κ] [SideKind κ] (o : Obj κ) (ops : List (OOp κ)) :
    (orun o ops).base = run o.base (ops.filterMap OOp.toBase?) := orun_base o ops

/-- hence the hashed text of an object never changes with `set_incidence_metadata` / `add_empty_edge` calls, wherever
they stand in the history (accepted or rejected) -/
theorem C07_side_calls_invisible {κ : Type} [Kind κ] [SideKind κ] (f : Fmt) (o : Obj κ) (ops : List (OOp κ)) :
    hashTextObj f (orun o ops) = hashText f (run o.base (ops.filterMap OOp.toBase?)) := by
  unfold hashTextObj; rw [orun_base]

/-- equal hashed text iff equal content of the hashing tables, for two histories of full objects of one class (side-table
calls included): the fingerprint sees exactly the content named by the property and nothing of the side tables -/
theorem C07_obj_text_iff_content {κ : Type} [Kind κ] [LawfulKind κ] [SideKind κ] (wt₁ wt₂ : Bool)
    (hm₁ hm₂ : List (String × JTree)) (ops₁ ops₂ : List (OOp κ)) :
    hashTextObj pyFmt (orun (oinit κ wt₁ hm₁) ops₁) = hashTextObj pyFmt (orun (oinit κ wt₂ hm₂) ops₂) ↔
    (content (orun (oinit κ wt₁ hm₁) ops₁).base).Equiv (content (orun (oinit κ wt₂ hm₂) ops₂).base) := by
  unfold hashTextObj
  rw [orun_base, orun_base]
  exact (C07_text_iff_content pyFmt pyFmt_laws _ _ (run_wf (init_wf κ wt₁ hm₁) _) (run_wf (init_wf κ wt₂ hm₂) _)).1

/-- the limit, stated: objects that differ only in incidence metadata or in registered empty hyperedges have the same
hash (the property's list of differences does not name these two tables; `hash_hypergraph` is no fingerprint of them) -/
theorem C07_side_tables_not_hashed {κ : Type} [Kind κ] [SideKind κ] (f : Fmt) (o : Obj κ) (raw : κ) (n : Nat)
    (name : String) (md : JTree) :
    hashTextObj f (ostep o (.setInc raw n md)).1 = hashTextObj f o ∧
    hashTextObj f (ostep o (.addEmpty name md)).1 = hashTextObj f o := by
  unfold hashTextObj
  exact ⟨by rw [show (ostep o (.setInc raw n md)).1.base = o.base from setInc_base o raw n md],
    by rw [show (ostep o (.addEmpty name md)).1.base = o.base from addEmpty_base o name md]⟩

namespace C07Ex
/-- Hypergraph: an incidence record under two listings of one hyperedge (two entries: stored as passed), an empty
hyperedge registered, a rejected second registration - same text as the plain history; the side tables do differ -/
def exSide : List (OOp KH) :=
  [.base (.addEdge [3, 1, 2] none none), .setInc [2, 1, 3] 7 (.obj [("r", .num (.int 1))]), .setInc [1, 2, 3] 7 emptyObj,
   .addEmpty "e1" emptyObj, .addEmpty "e1" (.null), .setInc [1, 2] 1 emptyObj]
example : hashTextObj pyFmt (orun (oinit KH false []) exSide) =
    hashTextObj pyFmt (orun (oinit KH false []) [.base (.addEdge [1, 2, 3] none none)]) := by rfl
example : (orun (oinit KH false []) exSide).inc.map (·.1) = [([2, 1, 3], 7), ([1, 2, 3], 7)] ∧
    (orun (oinit KH false []) exSide).empties.map (·.1) = ["e1"] := by decide
/-- Directed: one entry (canonical key); `clear()` empties it; Temporal keeps it; Multiplex rejects the call -/
example : (orun (oinit KD false []) [.base (.addEdge ([2, 1], [3]) none none), .setInc ([2, 1], [3]) 1 emptyObj,
    .setInc ([1, 2], [3]) 1 .null]).inc.map (·.1) = [(([1, 2], [3]), 1)] := by decide
example : (orun (oinit KD false []) [.base (.addEdge ([1], [3]) none none), .setInc ([1], [3]) 1 emptyObj, .base .clear]).inc.length = 0
    ∧ (orun (oinit KT false []) [.base (.addEdge (0, [1, 3]) none none), .setInc (0, [3, 1]) 1 emptyObj, .base .clear]).inc.length = 1
    ∧ (ostep (orun (oinit KM false []) [.base (.addEdge ([1, 3], 0) none none)]) (.setInc ([1, 3], 0) 1 emptyObj)).2 = false := by decide
end C07Ex

/-! ### the same `iff` for the FULL container models C01–C04 (every state satisfying the container invariant, in
particular every state reached by a history of public calls: `C0x.run_inv`) against their abstract `Spec` states -/

/-- `json.dumps` as CPython writes it discharges the `dumps` hypothesis of `C07_differ*` -/
theorem C07_dumps_hypothesis (a b : JTree) (e : dumpsJ pyFmt (ser a) = dumpsJ pyFmt (ser b)) : ser a = ser b := by
  have := dumpsJ_inj pyFmt_laws e
  rwa [ser_idem, ser_idem] at this

theorem C07_full_model_iff_H {Digest : Type} (H : String → Digest) (hH : ∀ x y : String, H x = H y → x = y)
    (s s' : C01.Store) (h : C01.Inv s) (h' : C01.Inv s') :
    hashOf (dumpsJ pyFmt) H (ofC01 s) = hashOf (dumpsJ pyFmt) H (ofC01 s') ↔
      (ofSpec01 (C01.abs s)).Equiv (ofSpec01 (C01.abs s')) :=
  ⟨fun e => Classical.byContradiction (fun ne => C07_differ_C01 _ H s s' h h' ne C07_dumps_hypothesis hH e),
   fun e => C07_equal_C01 _ H s s' h h' e⟩

theorem C07_full_model_iff_D {Digest : Type} (H : String → Digest) (hH : ∀ x y : String, H x = H y → x = y)
    (s s' : C02.Store) (h : C02.Inv s) (h' : C02.Inv s') :
    hashOf (dumpsJ pyFmt) H (ofC02 s) = hashOf (dumpsJ pyFmt) H (ofC02 s') ↔
      (ofSpec02 (C02.abs s)).Equiv (ofSpec02 (C02.abs s')) :=
  ⟨fun e => Classical.byContradiction (fun ne => C07_differ_C02 _ H s s' h h' ne C07_dumps_hypothesis hH e),
   fun e => C07_equal_C02 _ H s s' h h' e⟩

theorem C07_full_model_iff_T {Digest : Type} (H : String → Digest) (hH : ∀ x y : String, H x = H y → x = y)
    (s s' : C03.Store) (h : C03.Inv s) (h' : C03.Inv s') :
    hashOf (dumpsJ pyFmt) H (ofC03 s) = hashOf (dumpsJ pyFmt) H (ofC03 s') ↔
      (ofSpec03 (C03.abs s)).Equiv (ofSpec03 (C03.abs s')) :=
  ⟨fun e => Classical.byContradiction (fun ne => C07_differ_C03 _ H s s' h h' ne C07_dumps_hypothesis hH e),
   fun e => C07_equal_C03 _ H s s' h h' e⟩

theorem C07_full_model_iff_M {Digest : Type} (H : String → Digest) (hH : ∀ x y : String, H x = H y → x = y)
    (s s' : C04.Store) (h : C04.Inv s) (h' : C04.Inv s') :
    hashOf (dumpsJ pyFmt) H (ofC04 s) = hashOf (dumpsJ pyFmt) H (ofC04 s') ↔
      (ofSpec04 (C04.abs s)).Equiv (ofSpec04 (C04.abs s')) :=
  ⟨fun e => Classical.byContradiction (fun ne => C07_differ_C04 _ H s s' h h' ne C07_dumps_hypothesis hH e),
   fun e => C07_equal_C04 _ H s s' h h' e⟩

/-- the text CPython writes is an injective function of the JSON tree -/
theorem C07_json_text_injective_py (a b : JTree) (h : render pyFmt a = render pyFmt b) : a = b :=
  render_inj pyFmt_laws h
