import Hgxv.Model.C15
/-! # C15 — Hy-MMSBM quantities equal their definitions; EM ascends, fixed inputs stay -/
open C15

/-! ## `fit` never changes a supplied parameter
For every data set, every supplied array, every value of the random initialisation (`u0`, `w0`),
every prior, every `n`: the returned object holds the very array that was supplied. -/

theorem emLoop_u_fixed (d : Data) (fw : Bool) (ru rw : Mat) (n : Nat) (p : Params) :
    (emLoop d true fw ru rw n p).u = p.u := by
  induction n with
  | zero => rfl
  | succ n ih => simp [emLoop, emStep, ih]

theorem emLoop_w_fixed (d : Data) (fu : Bool) (ru rw : Mat) (n : Nat) (p : Params) :
    (emLoop d fu true ru rw n p).w = p.w := by
  induction n with
  | zero => rfl
  | succ n ih => simp [emLoop, emStep, ih]

theorem C15_fixed_u (d : Data) (us : List (List Rat)) (wSup : Option (List (List Rat)))
    (Dsup : Option Nat) (u0 w0 : List (List Rat)) (ru rw : Mat) (sqrtC : Rat) (n D : Nat) (p : Params)
    (h : fit d (some us) wSup Dsup u0 w0 ru rw sqrtC n = some (D, p)) : p.u = us := by
  unfold fit at h
  split at h
  · simp at h
  · simp only [Option.some.injEq, Prod.mk.injEq] at h
    rw [← h.2]
    cases wSup <;> simp [finish, emLoop_u_fixed]

theorem C15_fixed_w (d : Data) (uSup : Option (List (List Rat))) (ws : List (List Rat))
    (Dsup : Option Nat) (u0 w0 : List (List Rat)) (ru rw : Mat) (sqrtC : Rat) (n D : Nat) (p : Params)
    (h : fit d uSup (some ws) Dsup u0 w0 ru rw sqrtC n = some (D, p)) : p.w = ws := by
  unfold fit at h
  split at h
  · simp at h
  · simp only [Option.some.injEq, Prod.mk.injEq] at h
    rw [← h.2]
    cases uSup <;> simp [finish, emLoop_w_fixed]

/-- a supplied `max_hye_size` stays, and `fit` only succeeds when it covers the data -/
theorem C15_fixed_max_size (d : Data) (uSup wSup : Option (List (List Rat))) (D0 : Nat)
    (u0 w0 : List (List Rat)) (ru rw : Mat) (sqrtC : Rat) (n D : Nat) (p : Params)
    (h : fit d uSup wSup (some D0) u0 w0 ru rw sqrtC n = some (D, p)) : D = D0 ∧ maxSize d ≤ D := by
  have hm : fitMaxSize d (some D0) = if D0 < maxSize d then none else some D0 := rfl
  unfold fit at h
  rw [hm] at h
  by_cases hlt : D0 < maxSize d
  · simp [hlt] at h
  · simp only [hlt, if_false, Option.some.injEq, Prod.mk.injEq] at h
    omega
