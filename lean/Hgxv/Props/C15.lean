import Hgxv.Proofs.C15Closed
import Hgxv.Proofs.C15Node
import Hgxv.Proofs.C15Loop
import Hgxv.Proofs.C15Witness
import Hgxv.Proofs.C15Exact
import Hgxv.Proofs.C15Stop
import Hgxv.Proofs.C15Session
import Hgxv.Proofs.C15LogBinom
import Hgxv.Proofs.C15Init
/-! # C15 — Hy-MMSBM quantities equal their definitions; EM ascends, fixed inputs stay

Theorems about the executable model `Hgxv/Model/C15.lean` (exact rationals; `Real.log` for the
likelihood).  Notation of the helper files: `nodesOf N e` = the nodes of hyperedge `e` among `0..N-1`,
`aij K u w i j = bf K (u i) (u j) w = u_iᵀ w u_j`, `pairSum K u w s = Σ_{i<j∈s} u_iᵀ w u_j`,
`chat u s a b = ½ Σ_{i≠j∈s} u_ia u_jb`, `penLik d u r w = Σ_e A_e log λ_e(w) − Σ_{i<j} u_iᵀ w u_j − Σ_ab r_ab w_ab`.
Hyperedges of size 1 (Poisson parameter 0) are outside the hypotheses `0 < λ_e` of the update theorems. -/
open C15 Finset

/-! ## Poisson parameters -/

/-- `poisson_params`: for a symmetric affinity the code's `0.5·(s_eᵀ w s_e − Σ_{i∈e} u_iᵀ w u_i)` is the sum
over the node pairs of the hyperedge.  Hypothesis = the constructor's check `w == w.T`. -/
theorem C15_poisson (N K : ℕ) (u w : Mat) (e : List ℕ) (hw : ∀ a < K, ∀ b < K, w a b = w b a) :
    poisson N K u w e = ∑ p ∈ (nodesOf N e).offDiag with p.1 < p.2, bf K (u p.1) (u p.2) w :=
  poisson_eq_pairSum N K u w e hw

/-- `bf_and_sum(u, w) = Σ_{i<j} u_iᵀ w u_j` -/
theorem C15_bf_and_sum (N K : ℕ) (u w : Mat) (hw : ∀ a < K, ∀ b < K, w a b = w b a) :
    bfSum N K u w = ∑ p ∈ (range N).offDiag with p.1 < p.2, bf K (u p.1) (u p.2) w :=
  bfSum_eq_pairSum N K u w hw

/-! ## double counting -/

/-- over all hyperedges of size `d ≥ 2` on the node set `V`, every node pair is counted `C(|V|−2, d−2)` times -/
theorem C15_count (V : Finset ℕ) (d : ℕ) (hd : 2 ≤ d) (a : ℕ → ℕ → ℚ) :
    ∑ e ∈ V.powersetCard d, ∑ p ∈ e.offDiag with p.1 < p.2, a p.1 p.2
      = (Nat.choose (V.card - 2) (d - 2) : ℚ) * ∑ p ∈ V.offDiag with p.1 < p.2, a p.1 p.2 := by
  simp only [Finset.sum_filter]
  exact count_pairs V d hd (fun i j => if i < j then a i j else 0)

/-- the same over the hyperedges that contain node `i`: pairs through `i` are counted `C(|V|−2, d−2)` times,
pairs avoiding `i` are counted `C(|V|−3, d−3)` times (`cnt3`: never when `d = 2`) -/
theorem C15_count_node (V : Finset ℕ) (d : ℕ) (hd : 2 ≤ d) (i : ℕ) (hi : i ∈ V) (a : ℕ → ℕ → ℚ) :
    ∑ e ∈ V.powersetCard d with i ∈ e, ∑ p ∈ e.offDiag with p.1 < p.2, a p.1 p.2
      = ∑ p ∈ V.offDiag with p.1 < p.2, a p.1 p.2 *
          (if i = p.1 ∨ i = p.2 then (Nat.choose (V.card - 2) (d - 2) : ℚ) else (cnt3 V.card d : ℚ)) := by
  have h := count_pairs_node V d hd i hi (fun i j => if i < j then a i j else 0)
  have hl : ∀ e ∈ (V.powersetCard d).filter (i ∈ ·), ∑ p ∈ e.offDiag with p.1 < p.2, a p.1 p.2
      = ∑ p ∈ e.offDiag, (fun i j => if i < j then a i j else 0) p.1 p.2 := fun e _ => Finset.sum_filter _ _
  rw [Finset.sum_congr rfl hl, h, Finset.sum_filter]
  apply Finset.sum_congr rfl
  intro p _
  split <;> simp

/-! ## closed forms = sums over ALL possible hyperedges of Poisson parameter / κ -/

/-- `κ_d = C(N−2, d−2) · C(d, 2)`: (hyperedges of size `d` through a node pair) × (node pairs in one) -/
theorem C15_kappa (N d : ℕ) (hd : 2 ≤ d) :
    kappa N d = (Nat.choose (N - 2) (d - 2) : ℚ) * (Nat.choose d 2 : ℚ) := by
  rw [kappa_eq, Nat.choose_two_right, Nat.cast_div (Nat.even_mul_pred_self d).two_dvd (by norm_num),
    Nat.cast_mul, Nat.cast_pred (by omega)]
  push_cast; ring

/-- summand of `C`: `2/(d(d−1)) = C(N−2, d−2)/κ_d` (the docstring's formula) -/
theorem C15_C_term (N d : ℕ) (hd : 2 ≤ d) (hN : d ≤ N) :
    Cterm d = (Nat.choose (N - 2) (d - 2) : ℚ) / kappa N d := by
  rw [kappa_eq]
  have h1 := (choose_pos' N d hd hN).ne'
  obtain ⟨h2, h3⟩ := d_pos d hd
  unfold Cterm; field_simp

/-! ### the normalisation in log space (`log_kappa`, `log_binomial`) -/

/-- `log_binomial(n, k)` holds the coefficient as two products, `np.arange(n−k+1, n+1)` over `np.arange(1, k+1)`:
the numerator is the denominator times `C(n, k)` — exact naturals, whatever their size.  Hypothesis `k ≤ n`:
`log_kappa` calls it with `n = N − 2`, `k = d − 2`, `d ≤ N`. -/
theorem C15_log_binomial_products (n k : ℕ) (hk : k ≤ n) :
    binomNum n k = binomDen k * Nat.choose n k ∧ choose n k = Nat.choose n k :=
  ⟨binomNum_eq n k hk, choose_eq n k⟩

/-- `log_binomial(n, k) = np.log(np.arange(n−k+1, n+1)).sum() − np.log(np.arange(1, k+1)).sum()` is `log C(n, k)`
(over `ℝ`; `k ≤ n`).  No size restriction: the statement is about the sums of logarithms, the coefficient itself is
never formed. -/
theorem C15_log_binomial (n k : ℕ) (hk : k ≤ n) :
    (∑ i ∈ range k, Real.log ((n - k + 1 + i : ℕ) : ℝ)) - ∑ i ∈ range k, Real.log ((1 + i : ℕ) : ℝ)
      = Real.log (Nat.choose n k : ℝ) := by
  rw [← log_prodFrom (n - k + 1) k (by omega), ← log_prodFrom 1 k (le_refl 1)]
  have hnum : (prodFrom (n - k + 1) k : ℝ) = (prodFrom 1 k : ℝ) * (Nat.choose n k : ℝ) := by
    have := binomNum_eq n k hk
    unfold binomNum binomDen at this
    exact_mod_cast this
  have hden : ((prodFrom 1 k : ℕ) : ℝ) ≠ 0 := by
    have := prodFrom_pos 1 k (le_refl 1)
    exact_mod_cast this.ne'
  have hch : ((Nat.choose n k : ℕ) : ℝ) ≠ 0 := by
    have := Nat.choose_pos hk
    exact_mod_cast this.ne'
  rw [hnum, Real.log_mul hden hch]; ring

/-- `log_kappa(d) = log_binomial(N−2, d−2) + log d + log(d−1) − log 2` is the logarithm of the normalisation
`κ_d = C(N−2, d−2)·d(d−1)/2` of the model, for every `2 ≤ d ≤ N` (any magnitude of the coefficient); and the product form
the driver evaluates (`kappaProd`) is `kappa`. -/
theorem C15_log_kappa (N d : ℕ) (hd : 2 ≤ d) (hN : d ≤ N) :
    ((∑ i ∈ range (d - 2), Real.log ((N - 2 - (d - 2) + 1 + i : ℕ) : ℝ)) - ∑ i ∈ range (d - 2), Real.log ((1 + i : ℕ) : ℝ))
        + Real.log (d : ℝ) + Real.log ((d : ℝ) - 1) - Real.log 2
      = Real.log ((kappa N d : ℚ) : ℝ) ∧ kappaProd N d = kappa N d := by
  refine ⟨?_, kappaProd_eq N d hd hN⟩
  rw [C15_log_binomial (N - 2) (d - 2) (by omega), kappa_eq]
  have hch : ((Nat.choose (N - 2) (d - 2) : ℕ) : ℝ) ≠ 0 := by
    have := Nat.choose_pos (show d - 2 ≤ N - 2 by omega)
    exact_mod_cast this.ne'
  have h2 : (2 : ℝ) ≤ (d : ℝ) := by exact_mod_cast hd
  have hd0 : (d : ℝ) ≠ 0 := by linarith
  have hd1 : (d : ℝ) - 1 ≠ 0 := by linarith
  push_cast
  rw [Real.log_div (by positivity) (by norm_num), Real.log_mul (by positivity) hd1, Real.log_mul hch hd0]

example : kappaProd 7 4 = 60 ∧ kappa 7 4 = 60 ∧ binomNum 5 2 = 20 ∧ binomDen 2 = 2 := by decide +kernel

/-- `dimension_sequence(expected=True)[d] = C(d)·bf_and_sum(u, w)` is the expected number of hyperedges of
size `d`: the sum over all `d`-subsets `e` of `λ_e/κ_d`.  Hypotheses: `w` symmetric, `2 ≤ d ≤ N`. -/
theorem C15_dim_seq (N K : ℕ) (u w : Mat) (hw : ∀ a < K, ∀ b < K, w a b = w b a) (d : ℕ) (hd : 2 ≤ d) (hN : d ≤ N) :
    Cterm d * bfSum N K u w = ∑ e ∈ (range N).powersetCard d, pairSum K u w e / kappa N d := by
  rw [dim_closed N K u w d hd hN, bfSum_eq_pairSum N K u w hw]

/-- the returned dictionary holds exactly the sizes with a positive expected count -/
theorem C15_dim_seq_mem (N K : ℕ) (u w : Mat) (ds : List ℕ) (p : ℕ × ℚ) :
    p ∈ expDimSeq N K u w ds ↔ p.1 ∈ ds ∧ p.2 = Cterm p.1 * bfSum N K u w ∧ 0 < p.2 := by
  unfold expDimSeq
  simp only [List.mem_filter, List.mem_map, decide_eq_true_eq]
  constructor
  · rintro ⟨⟨d, hd, rfl⟩, hpos⟩; exact ⟨hd, rfl, hpos⟩
  · rintro ⟨hd, hv, hpos⟩; exact ⟨⟨p.1, hd, by rw [← hv]⟩, hpos⟩

/-- `expected_degree(per_node=False, d=ds) = C''(ds)·bf_and_sum(u, w)` is the average over the nodes of the
expected degree, the expected degree of node `i` being the sum over all hyperedges `e ∋ i` with a size in `ds`
of `λ_e/κ_|e|`.  Hypotheses: `w` symmetric, `N ≥ 1`, every size in `2..N`. -/
theorem C15_exp_degree_avg (N K : ℕ) (u w : Mat) (hw : ∀ a < K, ∀ b < K, w a b = w b a) (hN : 1 ≤ N)
    (ds : List ℕ) (hds : ∀ d ∈ ds, 2 ≤ d ∧ d ≤ N) :
    expDegAvg N K u w ds
      = 1 / (N : ℚ) * ∑ i ∈ range N, sumL ds fun d =>
          ∑ e ∈ (range N).powersetCard d with i ∈ e, pairSum K u w e / kappa N d := by
  unfold expDegAvg Csecond
  rw [sum_sumL, mul_sumL, mul_sumL, sumL_mul]
  apply sumL_congr
  intro d hd
  obtain ⟨h2, hdN⟩ := hds d hd
  rw [sum_nodes_powerset N d (fun e => pairSum K u w e / kappa N d), dim_closed N K u w d h2 hdN,
    bfSum_eq_pairSum N K u w hw]
  obtain ⟨h3, h4⟩ := d_pos d h2
  have hNq : (0 : ℚ) < (N : ℚ) := by exact_mod_cast hN
  unfold Cterm; field_simp

/-- `expected_degree(per_node=True, d=ds)[i] = C(ds)·Σ_{j≠i} u_iᵀ w u_j + C'(ds)·Σ_{j<k, j,k≠i} u_jᵀ w u_k` is the
expected degree of node `i`: the sum over all hyperedges `e ∋ i` with a size in `ds` of `λ_e/κ_|e|`
(`degree_sequence(expected=True)` is the same call).  Hypotheses: `w` symmetric, `N ≥ 3` (the code divides
by `N−2`), `i < N`, every size in `2..N`. -/
theorem C15_exp_degree_node (N K : ℕ) (u w : Mat) (hw : ∀ a < K, ∀ b < K, w a b = w b a) (hN : 3 ≤ N)
    (i : ℕ) (hi : i < N) (ds : List ℕ) (hds : ∀ d ∈ ds, 2 ≤ d ∧ d ≤ N) :
    expDegNode N K u w ds i
      = sumL ds fun d => ∑ e ∈ (range N).powersetCard d with i ∈ e, pairSum K u w e / kappa N d :=
  expDegNode_closed N K u w hw hN i hi ds hds

/-! ## `fit` never changes a supplied parameter
For every data set, every supplied array, every value of the random initialisation (`u0`, `w0`), every prior,
every `n`: the returned object holds the very array that was supplied (the model is pure, so the caller's
array cannot be written either; on the code this is checked by comparing with a copy). -/

theorem C15_fixed_u (d : Data) (us : List (List Rat)) (wSup : Option (List (List Rat)))
    (Dsup : Option Nat) (u0 w0 : List (List Rat)) (ru rw : Mat) (sqrtC : Rat) (stop : Option Stop) (n D : Nat)
    (p : Params) (h : fit d (some us) wSup Dsup u0 w0 ru rw sqrtC stop n = some (D, p)) : p.u = us := by
  obtain ⟨_, _, hp⟩ := fit_some d (some us) wSup Dsup u0 w0 ru rw sqrtC stop n D p h
  rw [hp]
  cases wSup <;> simp [finish, fitRun_u_fixed]

theorem C15_fixed_w (d : Data) (uSup : Option (List (List Rat))) (ws : List (List Rat))
    (Dsup : Option Nat) (u0 w0 : List (List Rat)) (ru rw : Mat) (sqrtC : Rat) (stop : Option Stop) (n D : Nat)
    (p : Params) (h : fit d uSup (some ws) Dsup u0 w0 ru rw sqrtC stop n = some (D, p)) : p.w = ws := by
  obtain ⟨_, _, hp⟩ := fit_some d uSup (some ws) Dsup u0 w0 ru rw sqrtC stop n D p h
  rw [hp]
  cases uSup <;> simp [finish, fitRun_w_fixed]

/-- a supplied `max_hye_size` stays, and `fit` only succeeds when it covers the data -/
theorem C15_fixed_max_size (d : Data) (uSup wSup : Option (List (List Rat))) (D0 : Nat)
    (u0 w0 : List (List Rat)) (ru rw : Mat) (sqrtC : Rat) (stop : Option Stop) (n D : Nat) (p : Params)
    (h : fit d uSup wSup (some D0) u0 w0 ru rw sqrtC stop n = some (D, p)) : D = D0 ∧ maxSize d ≤ D := by
  obtain ⟨hm, _, _⟩ := fit_some d uSup wSup (some D0) u0 w0 ru rw sqrtC stop n D p h
  have hm' : fitMaxSize d (some D0) = if D0 < maxSize d then none else some D0 := rfl
  rw [hm'] at hm
  by_cases hlt : D0 < maxSize d
  · simp [hlt] at hm
  · simp only [hlt, if_false, Option.some.injEq] at hm
    omega

/-! ## the stopping rule (`tolerance`, `check_convergence_every`) and what `fit` returns through either exit -/

/-- the model's convergence test (rational, no square root) is the code's
`norm(w − old_w)/K < tolerance and norm(u − old_u)/N < tolerance` with the Frobenius norm over `ℝ` -/
theorem C15_stop_rule (d : Data) (tol : Rat) (p old : Params) (hK : 0 < d.K) (hN : 0 < d.N) :
    converged d tol p old = true ↔
      Real.sqrt ((∑ a ∈ range d.K, ∑ b ∈ range d.K, (matOf p.w a b - matOf old.w a b) ^ 2 : ℚ) : ℝ) / (d.K : ℝ) < (tol : ℝ) ∧
      Real.sqrt ((∑ i ∈ range d.N, ∑ a ∈ range d.K, (matOf p.u i a - matOf old.u i a) ^ 2 : ℚ) : ℝ) / (d.N : ℝ) < (tol : ℝ) := by
  unfold converged
  rw [Bool.and_eq_true, normLt_iff _ _ _ _ _ hK, normLt_iff _ _ _ _ _ hN, sqDist_eq, sqDist_eq]

/-- **`fit` with `n_iter = n ≥ 1`, any `tolerance` / `check_convergence_every`, both exits of the loop.**
`fitState .. m` = the parameters after `m` passes of the loop body.  The loop is left at an index `it < n`
(`training_iter`); the returned parameters are the state after `it + 1` passes, divided by `C()` (`finish`:
`w / C()` when `w` is inferred, else `u / sqrt(C())` when `u` is inferred) — through `break` exactly as at the end of
the range; the `break` test failed at every earlier index; `tolerance_reached` is the value of the test at `it`;
and without `break` all `n` passes were made. -/
theorem C15_fit_returns (d : Data) (uSup wSup : Option (List (List Rat))) (Dsup : Option Nat)
    (u0 w0 : List (List Rat)) (ru rw : Mat) (sqrtC : Rat) (stop : Option Stop) (n D : Nat) (p : Params) (hn : 1 ≤ n)
    (h : fit d uSup wSup Dsup u0 w0 ru rw sqrtC stop n = some (D, p)) :
    (fitRun d uSup wSup u0 w0 ru rw stop n).it < n ∧
    p = finish d uSup.isSome wSup.isSome (C (dims 2 D)) sqrtC
          (fitState d uSup wSup u0 w0 ru rw ((fitRun d uSup wSup u0 w0 ru rw stop n).it + 1)) ∧
    (∀ i < (fitRun d uSup wSup u0 w0 ru rw stop n).it,
      stopNow d stop i (fitState d uSup wSup u0 w0 ru rw (i + 1)) (fitState d uSup wSup u0 w0 ru rw i) = false) ∧
    (fitRun d uSup wSup u0 w0 ru rw stop n).reached
      = stopNow d stop (fitRun d uSup wSup u0 w0 ru rw stop n).it
          (fitState d uSup wSup u0 w0 ru rw ((fitRun d uSup wSup u0 w0 ru rw stop n).it + 1))
          (fitState d uSup wSup u0 w0 ru rw (fitRun d uSup wSup u0 w0 ru rw stop n).it) ∧
    ((fitRun d uSup wSup u0 w0 ru rw stop n).reached = false → (fitRun d uSup wSup u0 w0 ru rw stop n).it = n - 1) := by
  obtain ⟨_, _, hp⟩ := fit_some d uSup wSup Dsup u0 w0 ru rw sqrtC stop n D p h
  obtain ⟨h1, h2, h3, h4, h5⟩ := fitRun_spec d uSup wSup u0 w0 ru rw stop n hn
  exact ⟨h1, by rw [hp, ← h2], h3, h4, h5⟩

/-- `tolerance=None` (the default): all `n` passes, then the division -/
theorem C15_fit_no_tolerance (d : Data) (uSup wSup : Option (List (List Rat))) (Dsup : Option Nat)
    (u0 w0 : List (List Rat)) (ru rw : Mat) (sqrtC : Rat) (n D : Nat) (p : Params)
    (h : fit d uSup wSup Dsup u0 w0 ru rw sqrtC none n = some (D, p)) :
    p = finish d uSup.isSome wSup.isSome (C (dims 2 D)) sqrtC (fitState d uSup wSup u0 w0 ru rw n) ∧
    (fitRun d uSup wSup u0 w0 ru rw none n).it = n - 1 ∧ (fitRun d uSup wSup u0 w0 ru rw none n).reached = false := by
  obtain ⟨_, _, hp⟩ := fit_some d uSup wSup Dsup u0 w0 ru rw sqrtC none n D p h
  have hr : fitRun d uSup wSup u0 w0 ru rw none n
      = { p := fitState d uSup wSup u0 w0 ru rw n, it := n - 1, reached := false } := emRun_none _ _ _ _ _ _ _
  rw [hp, hr]
  exact ⟨rfl, rfl, rfl⟩

/-- once the tolerance was reached with `n_iter = n`, every larger `n_iter` returns the same parameters -/
theorem C15_fit_converged_stays (d : Data) (uSup wSup : Option (List (List Rat))) (Dsup : Option Nat)
    (u0 w0 : List (List Rat)) (ru rw : Mat) (sqrtC : Rat) (stop : Option Stop) (n : Nat)
    (hr : (fitRun d uSup wSup u0 w0 ru rw stop n).reached = true) :
    fit d uSup wSup Dsup u0 w0 ru rw sqrtC stop (n + 1) = fit d uSup wSup Dsup u0 w0 ru rw sqrtC stop n := by
  have : fitRun d uSup wSup u0 w0 ru rw stop (n + 1) = fitRun d uSup wSup u0 w0 ru rw stop n :=
    loopFrom_reached_succ d _ stop n 0 _ _ hr
  unfold fit
  rw [this]

/-! ## the updates keep the parameters non-negative, `w` symmetric / diagonal, and finite -/

/-- `_w_update`: for `u, w, A ≥ 0` every entry of the new `w` is `≥ 0` (whatever the prior: the repaired update
divides by positive denominators only); it is symmetric where `w` and the prior are, and zero where `w` is zero
(diagonal stays diagonal).  (`u ≥ 0`, `w ≥ 0` symmetric are the constructor's checks; weights are positive.) -/
theorem C15_update_nonneg_sym (d : Data) (u w r : Mat) (hu : ∀ i a, 0 ≤ u i a) (hw : ∀ a b, 0 ≤ w a b)
    (hA : ∀ e < d.E, 0 ≤ d.A e) :
    (∀ a b, 0 ≤ wUpdate d u w r a b) ∧
    (∀ a b, w a b = w b a → r a b = r b a → wUpdate d u w r a b = wUpdate d u w r b a) ∧
    (∀ a b, w a b = 0 → wUpdate d u w r a b = 0) :=
  ⟨wUpdate_nonneg d u w r hu hw hA, fun a b h1 h2 => wUpdate_symm d u w r a b h1 h2,
   fun a b h => wUpdate_zero d u w r a b h⟩

/-- `_u_update`: for `u, w, A ≥ 0` every entry of the new `u` is `≥ 0` -/
theorem C15_u_update_nonneg (d : Data) (u w r : Mat) (hu : ∀ i a, 0 ≤ u i a) (hw : ∀ a b, 0 ≤ w a b)
    (hA : ∀ e < d.E, 0 ≤ d.A e) :
    ∀ i < d.N, ∀ a, 0 ≤ uUpdate d u w r i a :=
  fun i hi a => uUpdate_nonneg d u w r hu hw hA i hi a

/-- finite: when every Poisson parameter of the data is positive no division by zero occurs in either update (the
guarded updates return the arrays) - the denominators may vanish: the repaired code (D46) divides where they are
positive and stores 0 elsewhere -/
theorem C15_update_finite (d : Data) (u w ru rw : Mat)
    (hlam : ∀ e < d.E, 0 < poisson d.N d.K u w (d.edge e)) :
    wUpdate? d u w rw = some (wUpdate d u w rw) ∧ uUpdate? d u w ru = some (uUpdate d u w ru) := by
  have h : multOk d u w = true := by
    unfold multOk
    simp only [allTo_iff, decide_eq_true_eq]
    exact fun e he => (hlam e he).ne'
  unfold wUpdate? uUpdate?
  rw [if_pos h, if_pos h]
  exact ⟨rfl, rfl⟩

/-- **the entries the repair of D46 sets to 0 were `0 / 0`**: where the denominator of an update is not positive
(`u, w, r ≥ 0`, `w` symmetric: the constructor's checks; then it is exactly 0) its numerator vanishes too; for `_w_update`
the entry moreover occurs in no Poisson parameter (all its coefficients `ĉ` vanish, `poisson_lin`) and is unpenalised, so
no likelihood depends on it.  The new entry is 0 (by `safeDiv`), elsewhere it is the quotient. -/
theorem C15_update_vanishing_den (d : Data) (u w ru rw : Mat) (hu : ∀ i a, 0 ≤ u i a) (hw : ∀ a b, 0 ≤ w a b)
    (hsym : ∀ a < d.K, ∀ b < d.K, w a b = w b a) (hru : ∀ i a, 0 ≤ ru i a) (hrw : ∀ a b, 0 ≤ rw a b) :
    (∀ a b, ¬ 0 < wDen d.N u a b + rw a b →
        wNum d u w a b = 0 ∧ (∀ e, chat u (nodesOf d.N (d.edge e)) a b = 0) ∧ rw a b = 0 ∧ wUpdate d u w rw a b = 0) ∧
    (∀ i < d.N, ∀ a < d.K, ¬ 0 < uDen d u w i a + ru i a → uNum d u w i a = 0 ∧ uUpdate d u w ru i a = 0) ∧
    (∀ a b, 0 < wDen d.N u a b + rw a b → wUpdate d u w rw a b = wNum d u w a b / (wDen d.N u a b + rw a b)) ∧
    (∀ i a, 0 < uDen d u w i a + ru i a → uUpdate d u w ru i a = uNum d u w i a / (uDen d u w i a + ru i a)) := by
  refine ⟨fun a b h => ?_, fun i hi a ha h => ⟨uNum_zero_of_den d u w ru hu hw hsym hru i hi a ha h, safeDiv_of_not_pos _ _ h⟩,
    fun a b h => safeDiv_of_pos _ _ h, fun i a h => safeDiv_of_pos _ _ h⟩
  obtain ⟨h1, h2, h3⟩ := wNum_zero_of_den d u w rw hu hrw a b h
  exact ⟨h1, h2, h3, safeDiv_of_not_pos _ _ h⟩

/-! ## ascent -/

/-- **One `_w_update` never decreases the penalised log-likelihood** `penLik` (rate matrix `r`; for `r = 0` it
is the Poisson log-likelihood up to a constant).  Hypotheses: `u, w ≥ 0`, positive weights, positive Poisson
parameters of the data hyperedges (sizes ≥ 2 with overlapping memberships).  Nothing is assumed about the
denominators: an entry whose denominator vanishes occurs neither in a Poisson parameter nor in the penalty and is set to 0
by the repaired update (D46).  The invariants needed to iterate are part of the conclusion. -/
theorem C15_ascent_step (d : Data) (u w r : Mat) (hu : ∀ i a, 0 ≤ u i a) (hw : ∀ a b, 0 ≤ w a b)
    (hA : ∀ e < d.E, 0 < d.A e) (hr : ∀ a b, 0 ≤ r a b)
    (hlam : ∀ e < d.E, 0 < poisson d.N d.K u w (d.edge e)) :
    penLik d u r w ≤ penLik d u r (wUpdate d u w r) ∧
    (∀ a b, 0 ≤ wUpdate d u w r a b) ∧
    (∀ e < d.E, 0 < poisson d.N d.K u (wUpdate d u w r) (d.edge e)) :=
  ⟨ascent_step d u w r hu hw hA hr hlam, wUpdate_nonneg d u w r hu hw (fun e he => (hA e he).le),
   poisson_pos_after d u w r hu hw hA hr hlam⟩

/-- **Memberships supplied ⇒ the penalised log-likelihood of the affinity after `n+1` passes of `fit`'s loop
is at least that after `n` passes**, for every initial draw `w0 ≥ 0` with positive Poisson parameters.
With `w_prior = 0` this is the property's statement (`penLik` with `r = 0` is the exact Poisson
log-likelihood of the data under the returned `w/C` up to an additive constant, see notes). -/
theorem C15_ascent (d : Data) (us w0 : List (List Rat)) (ru rw : Mat)
    (hu : ∀ i a, 0 ≤ matOf us i a) (hw0 : ∀ a b, 0 ≤ matOf w0 a b) (hA : ∀ e < d.E, 0 < d.A e)
    (hr : ∀ a b, 0 ≤ rw a b)
    (hlam : ∀ e < d.E, 0 < poisson d.N d.K (matOf us) (matOf w0) (d.edge e)) (n : ℕ) :
    penLik d (matOf us) rw (matOf (emLoop d true false ru rw n { u := us, w := w0 }).w)
      ≤ penLik d (matOf us) rw (matOf (emLoop d true false ru rw (n + 1) { u := us, w := w0 }).w) :=
  loop_ascent d us w0 ru rw hu hw0 hA hr hlam n

/-- the normaliser of the Poisson model: the sum over ALL possible hyperedges of size `2..D` of `λ_s/κ_|s|`
is `C()·bf_and_sum(u, w)` (what `log_likelihood` / the loop use) -/
theorem C15_normaliser (N K D : ℕ) (u w : Mat) (hw : ∀ a < K, ∀ b < K, w a b = w b a) (hD : D ≤ N) :
    (sumL (dims 2 D) fun dd => ∑ s ∈ (range N).powersetCard dd, pairSum K u w s / kappa N dd)
      = C (dims 2 D) * bfSum N K u w :=
  normaliser_closed N K D u w hw hD

/-- `exactLik` = exact Poisson log-likelihood of the data (all possible hyperedges of size `2..D`, means
`λ_s/κ_|s|`) minus the prior term; under the returned `w = w̃/C` it is `penLik(w̃)` minus a constant -/
theorem C15_exact_likelihood (d : Data) (D : ℕ) (u r w : Mat)
    (hw : ∀ a < d.K, ∀ b < d.K, w a b = w b a) (hD2 : 2 ≤ D) (hDN : D ≤ d.N)
    (hsize : ∀ e < d.E, 2 ≤ (d.edge e).length ∧ (d.edge e).length ≤ d.N)
    (hlam : ∀ e < d.E, 0 < poisson d.N d.K u w (d.edge e)) :
    exactLik d D u r (fun a b => w a b / C (dims 2 D))
      = penLik d u r w
        - ∑ e ∈ range d.E, ((d.A e : ℚ) : ℝ) *
            Real.log (((C (dims 2 D) * kappa d.N (d.edge e).length : ℚ)) : ℝ) :=
  exactLik_eq d D u r w hw hD2 hDN hsize hlam

/-- **The property's statement about `fit`.**  Memberships supplied, affinity inferred: the exact Poisson
log-likelihood of the data under the parameters returned by `fit(n_iter = n+1)` (penalised by the prior term
when `w_prior > 0`; for `w_prior = 0` it is the plain likelihood) is at least that of `fit(n_iter = n)`, for
the same initial draw and the same `tolerance` / `check_convergence_every` (any value, `none` = no stopping rule:
a run that stops early returns the state of the stopping iteration, which the longer run reaches too).  Hypotheses: `u ≥ 0` (constructor check), initial draw `w0 ≥ 0` symmetric (what
`_init_w` produces) with positive Poisson parameters, positive weights, prior `≥ 0` symmetric,
hyperedge sizes in `2..N`, `2 ≤ max_hye_size ≤ N` (no hypothesis on the denominators since the repair of D46). -/
theorem C15_ascent_fit (d : Data) (us u0 w0 : List (List Rat)) (Dsup : Option ℕ) (ru rw : Mat) (sqrtC : Rat)
    (stop : Option Stop)
    (hu : ∀ i a, 0 ≤ matOf us i a) (hw0 : ∀ a b, 0 ≤ matOf w0 a b) (hA : ∀ e < d.E, 0 < d.A e)
    (hr : ∀ a b, 0 ≤ rw a b)
    (hlam : ∀ e < d.E, 0 < poisson d.N d.K (matOf us) (matOf w0) (d.edge e))
    (hsym0 : ∀ a b, matOf w0 a b = matOf w0 b a) (hrsym : ∀ a b, rw a b = rw b a)
    (hsize : ∀ e < d.E, 2 ≤ (d.edge e).length ∧ (d.edge e).length ≤ d.N)
    (n D D' : ℕ) (p p' : Params)
    (h1 : fit d (some us) none Dsup u0 w0 ru rw sqrtC stop n = some (D, p))
    (h2 : fit d (some us) none Dsup u0 w0 ru rw sqrtC stop (n + 1) = some (D', p'))
    (hD2 : 2 ≤ D) (hDN : D ≤ d.N) :
    D' = D ∧ exactLik d D (matOf us) rw (matOf p.w) ≤ exactLik d D (matOf us) rw (matOf p'.w) :=
  fit_ascent d us u0 w0 Dsup ru rw sqrtC stop hu hw0 hA hr hlam hsym0 hrsym hsize n D D' p p' h1 h2 hD2 hDN

/-! ## one long-lived model object: several calls of `fit`, queries in between

The query functions of the model (`poisson`, `expDegNode`, `expDegAvg`, `expDimSeq`, `C`, ..) are pure: their value is
a function of the parameter arrays they are given and of their own argument, so every theorem above holds for the arrays
an object holds at the time of the query, whatever was called before (`C15_session_query`).  What IS state is written down
in `Obj` / `fitObj` (`Model/C15.lean`): `u`, `w`, `max_hye_size` and the training attributes.  The theorems below say what
an earlier call of `fit` leaves behind for a later one. -/

/-- `obj.fit(..)` on an object in state `o` returns exactly when the first-call function `fit` (about which
`C15_fixed_*`, `C15_fit_returns`, `C15_ascent_fit` speak) has a value for the object's current `u`, `w`, `max_hye_size`,
and then the object holds that value: all theorems about `fit` apply to every call of a session. -/
theorem C15_session_fit_is_fit (o : Obj) (d : Data) (u0 w0 : List (List Rat)) (ru rw : Mat) (sqrtC : Rat)
    (stop : Option Stop) (n : Nat) :
    match fit d o.u o.w o.D u0 w0 ru rw sqrtC stop n with
    | some (D, p) =>
        fitObj o d u0 w0 ru rw sqrtC stop n
          = ({ u := some p.u, w := some p.w, D := some D, tolerance := stop.map (·.tol), trained := true,
               it := some (fitRun d o.u o.w u0 w0 ru rw stop n).it,
               reached := (fitRun d o.u o.w u0 w0 ru rw stop n).reached }, true)
    | none => (fitObj o d u0 w0 ru rw sqrtC stop n).2 = false :=
  fitObj_eq_fit o d u0 w0 ru rw sqrtC stop n

/-- **Fixed inputs stay, over a whole session.**  Whatever calls of `fit` are made on the object - any data, draws,
priors, stopping arguments, `n_iter`, calls that raise included - a parameter array that is set and a `max_hye_size`
that is set are the same at the end. -/
theorem C15_session_params_stay (o : Obj) (cs : List FitCall) :
    (∀ us, o.u = some us → (runSession o cs).u = some us) ∧
    (∀ ws, o.w = some ws → (runSession o cs).w = some ws) ∧
    (∀ D0, o.D = some D0 → (runSession o cs).D = some D0) :=
  ⟨fun us h => runSession_u_stays cs o us h, fun ws h => runSession_w_stays cs o ws h,
   fun D0 h => runSession_D_stays cs o D0 h⟩

/-- after the FIRST call of `fit` (returned or raised) both arrays are set - `fit` treats what it inferred as fixed from
then on (`self.w is None` is its only test) - so no later call, on whatever data, changes `u` or `w` -/
theorem C15_session_after_first_fit (o : Obj) (c : FitCall) (cs : List FitCall) :
    (callFit o c).u.isSome = true ∧ (callFit o c).w.isSome = true ∧
    (runSession o (c :: cs)).u = (callFit o c).u ∧ (runSession o (c :: cs)).w = (callFit o c).w := by
  obtain ⟨hu, hw⟩ := fitObj_both_set o c.d c.u0 c.w0 c.ru c.rw c.sqrtC c.stop c.n
  refine ⟨hu, hw, ?_, ?_⟩
  · obtain ⟨us, hus⟩ := Option.isSome_iff_exists.mp hu
    have hus' : (callFit o c).u = some us := hus
    rw [runSession_cons, runSession_u_stays cs (callFit o c) us hus', hus']
  · obtain ⟨ws, hws⟩ := Option.isSome_iff_exists.mp hw
    have hws' : (callFit o c).w = some ws := hws
    rw [runSession_cons, runSession_w_stays cs (callFit o c) ws hws', hws']

/-- **a call of `fit` does not depend on what earlier calls left behind**, except through `u`, `w`, `max_hye_size`: two
objects that agree on these three (whatever their `tolerance`, `trained`, `training_iter`, `tolerance_reached`) give the
same outcome, the same arrays, the same `max_hye_size`, `tolerance`, `tolerance_reached`, and, when the call returns, the
same object altogether (same draws `u0`, `w0` = same seed on a fresh generator) -/
theorem C15_session_fit_ignores_history (o o' : Obj) (d : Data) (u0 w0 : List (List Rat)) (ru rw : Mat) (sqrtC : Rat)
    (stop : Option Stop) (n : Nat) (hu : o.u = o'.u) (hw : o.w = o'.w) (hD : o.D = o'.D) :
    (fitObj o d u0 w0 ru rw sqrtC stop n).2 = (fitObj o' d u0 w0 ru rw sqrtC stop n).2 ∧
    (fitObj o d u0 w0 ru rw sqrtC stop n).1.u = (fitObj o' d u0 w0 ru rw sqrtC stop n).1.u ∧
    (fitObj o d u0 w0 ru rw sqrtC stop n).1.w = (fitObj o' d u0 w0 ru rw sqrtC stop n).1.w ∧
    (fitObj o d u0 w0 ru rw sqrtC stop n).1.D = (fitObj o' d u0 w0 ru rw sqrtC stop n).1.D ∧
    (fitObj o d u0 w0 ru rw sqrtC stop n).1.tolerance = (fitObj o' d u0 w0 ru rw sqrtC stop n).1.tolerance ∧
    (fitObj o d u0 w0 ru rw sqrtC stop n).1.reached = (fitObj o' d u0 w0 ru rw sqrtC stop n).1.reached ∧
    ((fitObj o d u0 w0 ru rw sqrtC stop n).2 = true →
      fitObj o d u0 w0 ru rw sqrtC stop n = fitObj o' d u0 w0 ru rw sqrtC stop n) :=
  fitObj_ignores_history o o' d u0 w0 ru rw sqrtC stop n hu hw hD

/-- **every query is a function of (current parameters, its own argument)**: after any session the Poisson parameter
the object reports for a hyperedge `e` - of the training data or of any other input - is the one a FRESH object built from
the current arrays reports, and for a symmetric `w` it is the sum over the node pairs of `e` of `u_iᵀ w u_j` -/
theorem C15_session_query (o : Obj) (cs : List FitCall) (e : List ℕ) (u w : List (List Rat))
    (hu : (runSession o cs).u = some u) (hw : (runSession o cs).w = some w)
    (hsym : ∀ a < w.length, ∀ b < w.length, matOf w a b = matOf w b a) :
    poisObj (runSession o cs) e = poisObj (newObj (some u) (some w) (runSession o cs).D) e ∧
    poisObj (runSession o cs) e
      = some (∑ p ∈ (nodesOf u.length e).offDiag with p.1 < p.2, bf w.length (matOf u p.1) (matOf u p.2) (matOf w)) := by
  have h : poisObj (runSession o cs) e = some (poisson u.length w.length (matOf u) (matOf w) e) := by
    unfold poisObj; rw [hu, hw]
  exact ⟨h, by rw [h, C15_poisson u.length w.length (matOf u) (matOf w) e hsym]⟩

/-! ## D28 — the property's plain-likelihood claim fails when `w_prior > 0` (by design: MAP step)

`C15_ascent` with `rw > 0` is about the PENALISED objective.  The unpenalised log-likelihood (`penLik` with
rate 0) can strictly decrease from `n_iter = 1` to `n_iter = 2`; all hypotheses of `C15_ascent` hold for this
input, so the failure is not a matter of ill-posed data.  The harness replays these numbers on the real code. -/

theorem C15_plain_likelihood_can_decrease :
    ∃ (d : Data) (us w0 : List (List Rat)) (rw : Mat),
      (∀ i a, 0 ≤ matOf us i a) ∧ (∀ a b, 0 ≤ matOf w0 a b) ∧ (∀ e < d.E, 0 < d.A e) ∧ (∀ a b, 0 < rw a b) ∧
      (∀ e < d.E, 0 < poisson d.N d.K (matOf us) (matOf w0) (d.edge e)) ∧
      (∀ a < d.K, ∀ b < d.K, 0 < wDen d.N (matOf us) a b + rw a b) ∧
      ∀ ru : Mat,
        penLik d (matOf us) (fun _ _ => 0) (matOf (emLoop d true false ru rw 2 { u := us, w := w0 }).w)
          < penLik d (matOf us) (fun _ _ => 0) (matOf (emLoop d true false ru rw 1 { u := us, w := w0 }).w) := by
  refine ⟨witD, witU, witW0, witR, witU_nonneg, witW0_nonneg, witD_A, fun _ _ => by simp [witR], witD_lam,
    witD_den, fun ru => ?_⟩
  have h1 := wit_after1 ru
  have h2 := wit_after2 ru
  unfold wAfter at h1 h2
  rw [h1, h2, wit_lik1, wit_lik2]
  exact wit_ineq

/-! ## non-vacuity: the hypotheses of the theorems above are satisfiable on concrete non-trivial inputs -/

example : poisson 3 2 (matOf witU) exW [0, 2, 1]
    = ∑ p ∈ (nodesOf 3 [0, 2, 1]).offDiag with p.1 < p.2, bf 2 (matOf witU p.1) (matOf witU p.2) exW :=
  C15_poisson 3 2 (matOf witU) exW [0, 2, 1] exW_symm

example : Cterm 3 * bfSum 4 2 (matOf witU) exW
    = ∑ e ∈ (range 4).powersetCard 3, pairSum 2 (matOf witU) exW e / kappa 4 3 :=
  C15_dim_seq 4 2 (matOf witU) exW exW_symm 3 (by norm_num) (by norm_num)

example : expDegAvg 3 2 (matOf witU) exW [2, 3]
    = 1 / ((3 : ℕ) : ℚ) * ∑ i ∈ range 3, sumL [2, 3] fun d =>
        ∑ e ∈ (range 3).powersetCard d with i ∈ e, pairSum 2 (matOf witU) exW e / kappa 3 d :=
  C15_exp_degree_avg 3 2 (matOf witU) exW exW_symm (by norm_num) [2, 3] (by simp)

example : expDegNode 4 2 (matOf witU) exW [2, 3, 4] 1
    = sumL [2, 3, 4] fun d => ∑ e ∈ (range 4).powersetCard d with 1 ∈ e, pairSum 2 (matOf witU) exW e / kappa 4 d :=
  C15_exp_degree_node 4 2 (matOf witU) exW exW_symm (by norm_num) 1 (by norm_num) [2, 3, 4] (by simp)

example : ∃ D p, fit witD (some witU) none none [] witW0 (fun _ _ => 0) witR 1 exStop 3 = some (D, p) ∧ p.u = witU :=
  ⟨_, _, rfl, C15_fixed_u witD witU none none [] witW0 (fun _ _ => 0) witR 1 exStop 3 _ _ rfl⟩

example : ∃ D p, fit witD none (some witW0) (some 5) witU [] (fun _ _ => 0) witR 1 exStop 3 = some (D, p) ∧ p.w = witW0 ∧ D = 5 :=
  ⟨5, _, rfl, C15_fixed_w witD none witW0 (some 5) witU [] (fun _ _ => 0) witR 1 exStop 3 _ _ rfl, rfl⟩

example : wUpdate? witD (matOf witU) (matOf witW0) witR = some (wUpdate witD (matOf witU) (matOf witW0) witR) :=
  (C15_update_finite witD _ _ witR witR witD_lam).1

/-- the branch of the D46 repair is really taken: community 1 held by node 0 alone, no prior - the denominator of the
entry `(1, 1)` is 0, the update is defined (`some`), stores 0 there, and the likelihood still ascends along the loop -/
example : ¬ 0 < wDen witD.N (matOf sglU) 1 1 + 0 ∧
    wUpdate? witD (matOf sglU) (matOf witW0) (fun _ _ => 0) = some (wUpdate witD (matOf sglU) (matOf witW0) fun _ _ => 0) ∧
    wUpdate witD (matOf sglU) (matOf witW0) (fun _ _ => 0) 1 1 = 0 ∧
    ∀ n, penLik witD (matOf sglU) (fun _ _ => 0) (matOf (emLoop witD true false (fun _ _ => 0) (fun _ _ => 0) n { u := sglU, w := witW0 }).w)
      ≤ penLik witD (matOf sglU) (fun _ _ => 0) (matOf (emLoop witD true false (fun _ _ => 0) (fun _ _ => 0) (n + 1) { u := sglU, w := witW0 }).w) := by
  have h0 : ¬ 0 < wDen witD.N (matOf sglU) 1 1 + 0 := by rw [sgl_den]; exact lt_irrefl 0
  exact ⟨h0, (C15_update_finite witD _ _ (fun _ _ => 0) (fun _ _ => 0) sgl_lam).1,
    ((C15_update_vanishing_den witD (matOf sglU) (matOf witW0) (fun _ _ => 0) (fun _ _ => 0) sglU_nonneg witW0_nonneg
      (fun a _ b _ => witW0_symm a b) (fun _ _ => le_refl 0) (fun _ _ => le_refl 0)).1 1 1 h0).2.2.2,
    C15_ascent witD sglU witW0 (fun _ _ => 0) (fun _ _ => 0) sglU_nonneg witW0_nonneg witD_A (fun _ _ => le_refl 0) sgl_lam⟩

example : ∀ n, penLik witD (matOf witU) witR (matOf (emLoop witD true false (fun _ _ => 0) witR n { u := witU, w := witW0 }).w)
    ≤ penLik witD (matOf witU) witR (matOf (emLoop witD true false (fun _ _ => 0) witR (n + 1) { u := witU, w := witW0 }).w) :=
  C15_ascent witD witU witW0 (fun _ _ => 0) witR witU_nonneg witW0_nonneg witD_A (fun _ _ => by simp [witR])
    witD_lam

example (n : ℕ) (stop : Option Stop) (hs : stopOk stop = true) :
    ∃ D p p', fit witD (some witU) none none [] witW0 (fun _ _ => 0) witR 1 stop n = some (D, p) ∧
    fit witD (some witU) none none [] witW0 (fun _ _ => 0) witR 1 stop (n + 1) = some (D, p') ∧
    exactLik witD D (matOf witU) witR (matOf p.w) ≤ exactLik witD D (matOf witU) witR (matOf p'.w) := by
  have h : ∀ m, fit witD (some witU) none none [] witW0 (fun _ _ => 0) witR 1 stop m
      = some (2, finish witD true false (C (dims 2 2)) 1 (fitRun witD (some witU) none [] witW0 (fun _ _ => 0) witR stop m).p) := by
    intro m; unfold fit; rw [hs]; rfl
  exact ⟨_, _, _, h n, h (n + 1),
    (C15_ascent_fit witD witU [] witW0 none (fun _ _ => 0) witR 1 stop witU_nonneg witW0_nonneg witD_A
      (fun _ _ => by simp [witR]) witD_lam witW0_symm (fun _ _ => rfl) witD_size n _ _ _ _ (h n) (h (n + 1))
      (by decide) (by decide)).2⟩

/-- the early exit is really taken: with `tolerance = 1/2`, `check_convergence_every = 1`, `n_iter = 3` the loop of
the D28 data breaks at `it = 1`, and `fit` returns the state after two passes (`diag(4/9, 1/3)`) divided by `C() = 1` -/
example : (fitRun witD (some witU) none [] witW0 (fun _ _ => 0) witR exStop 3).reached = true ∧
    (fitRun witD (some witU) none [] witW0 (fun _ _ => 0) witR exStop 3).it = 1 := by
  decide +kernel

example : ∃ D p, fit witD (some witU) none none [] witW0 (fun _ _ => 0) witR 1 exStop 3 = some (D, p) ∧
    p = finish witD true false (C (dims 2 D)) 1
          (fitState witD (some witU) none [] witW0 (fun _ _ => 0) witR
            ((fitRun witD (some witU) none [] witW0 (fun _ _ => 0) witR exStop 3).it + 1)) :=
  ⟨_, _, rfl, (C15_fit_returns witD (some witU) none none [] witW0 (fun _ _ => 0) witR 1 exStop 3 _ _ (by decide) rfl).2.1⟩

example : fit witD (some witU) none none [] witW0 (fun _ _ => 0) witR 1 exStop 4
    = fit witD (some witU) none none [] witW0 (fun _ _ => 0) witR 1 exStop 3 :=
  C15_fit_converged_stays witD (some witU) none none [] witW0 (fun _ _ => 0) witR 1 exStop 3 (by decide +kernel)

example : Real.sqrt ((∑ a ∈ range 2, ∑ b ∈ range 2, (matOf witW2 a b - matOf witW1 a b) ^ 2 : ℚ) : ℝ) / ((2 : ℕ) : ℝ) < ((1 / 2 : ℚ) : ℝ) ∧
    Real.sqrt ((∑ i ∈ range 3, ∑ a ∈ range 2, (matOf witU i a - matOf witU i a) ^ 2 : ℚ) : ℝ) / ((3 : ℕ) : ℝ) < ((1 / 2 : ℚ) : ℝ) :=
  (C15_stop_rule witD (1 / 2) { u := witU, w := witW2 } { u := witU, w := witW1 } (by decide) (by decide)).mp
    (by decide +kernel)

/-- a session on the D28 data: `fit` (breaks at `it = 1`), then `fit` on a hypergraph with a hyperedge of size 3 (raises:
`max_hye_size = 2` was inferred by the first call), then `fit` on the first data again: the supplied memberships and the
affinity inferred by the FIRST call are what the object holds at the end -/
def sesC1 : FitCall := { d := witD, u0 := [], w0 := witW0, ru := fun _ _ => 0, rw := witR, sqrtC := 1, stop := exStop, n := 3 }
def sesC2 : FitCall := { d := dataOf 3 2 [[0, 1, 2], [1, 2]] [1, 2], u0 := sglU, w0 := witW1, ru := fun _ _ => 0, rw := witR,
                         sqrtC := 1, stop := none, n := 2 }

example : (runSession (newObj (some witU) none none) [sesC1, sesC2, sesC1]).u = some witU ∧
    (runSession (newObj (some witU) none none) [sesC1, sesC2, sesC1]).w = (callFit (newObj (some witU) none none) sesC1).w ∧
    (callFit (newObj (some witU) none none) sesC1).w = some witW2 ∧
    (fitObj (callFit (newObj (some witU) none none) sesC1) sesC2.d sesC2.u0 sesC2.w0 sesC2.ru sesC2.rw 1 none 2).2 = false ∧
    (runSession (newObj (some witU) none none) [sesC1, sesC2, sesC1]).D = some 2 := by
  refine ⟨(C15_session_params_stay _ _).1 witU rfl, (C15_session_after_first_fit _ sesC1 [sesC2, sesC1]).2.2.2, ?_, ?_, ?_⟩
  · decide +kernel
  · decide +kernel
  · rw [runSession_cons]
    exact (C15_session_params_stay (callFit (newObj (some witU) none none) sesC1) [sesC2, sesC1]).2.2 2 (by decide +kernel)

example (e : List ℕ) : poisObj (runSession (newObj (some witU) none none) [sesC1, sesC2, sesC1]) e
    = some (∑ p ∈ (nodesOf 3 e).offDiag with p.1 < p.2, bf 2 (matOf witU p.1) (matOf witU p.2) (matOf witW2)) := by
  have hw : (runSession (newObj (some witU) none none) [sesC1, sesC2, sesC1]).w = some witW2 := by
    rw [(C15_session_after_first_fit _ sesC1 [sesC2, sesC1]).2.2.2]; decide +kernel
  exact (C15_session_query _ _ e witU witW2 ((C15_session_params_stay _ _).1 witU rfl) hw
    (by intro a ha b hb; have : a < 2 := ha; have : b < 2 := hb; interval_cases a <;> interval_cases b <;> rfl)).2

/-! ## extension round: constructor, initial draws, the whole run from the raw draws, `log_likelihood`

The hypotheses "`u ≥ 0`, `w ≥ 0` symmetric (constructor's checks)", "initial draw `≥ 0` symmetric (what `_init_w` produces)" of the
theorems above are now theorems about the modelled constructor (`construct`) and the modelled `_init_w` / `_init_u` (`initW`, `initU`);
`fitSeed` is the whole path constructor → draws → loop (with its failing division) → normalisation. -/

/-- **what the constructor guarantees** (`_check_and_infer_param_consistency`): an accepted affinity is non-negative, symmetric on
`K × K` and diagonal when the model is assortative; accepted memberships are non-negative; `u` and `w` agree on the number of
communities; `K` / `assortative` are the passed ones, else inferred (`w.shape[0]` before `u.shape[1]`; `assortative` = "`w` is diagonal"). -/
theorem C15_constructor (c : Ctor) (h : Hyper) (hc : construct c = .ok h) :
    (∀ w, c.w = some w → (∀ a b, 0 ≤ matOf w a b) ∧ (∀ a < w.length, ∀ b < w.length, matOf w a b = matOf w b a) ∧
        (h.assortative = true → ∀ a < w.length, ∀ b < w.length, a ≠ b → matOf w a b = 0)) ∧
    (∀ u, c.u = some u → ∀ i a, 0 ≤ matOf u i a) ∧
    (∀ u w, c.u = some u → c.w = some w → ncols u = w.length) ∧
    (∀ k, c.K = some k → h.K = k) ∧ (∀ w, c.K = none → c.w = some w → h.K = w.length) ∧
    (∀ u, c.K = none → c.w = none → c.u = some u → h.K = ncols u) ∧
    (∀ a, c.assortative = some a → h.assortative = a) ∧
    (∀ w, c.assortative = none → c.w = some w →
        (h.assortative = true ↔ ∀ a < w.length, ∀ b < w.length, a ≠ b → matOf w a b = 0)) := by
  obtain ⟨hA, hK, hW, hU, hUW⟩ := construct_ok c h hc
  have hw3 : ∀ w, c.w = some w → anyNeg w = false ∧ (∀ a < w.length, ∀ b < w.length, matOf w a b = matOf w b a) ∧
      (h.assortative = true → upperZero w.length (matOf w) = true) := by
    intro w hw
    obtain ⟨h1, h2, h3⟩ := checkW_none _ w (hW w hw)
    exact ⟨h1, (symmetricB_iff _ _).mp h2, h3⟩
  refine ⟨?_, ?_, hUW, ?_, ?_, ?_, ?_, ?_⟩
  · intro w hw
    obtain ⟨h1, h2, h3⟩ := hw3 w hw
    exact ⟨matOf_nonneg_of_mem w ((anyNeg_false_iff w).mp h1), h2, fun ha => (upperZero_diag _ _ h2).mp (h3 ha)⟩
  · intro u hu
    exact matOf_nonneg_of_mem u ((anyNeg_false_iff u).mp (hU u hu))
  · intro k hk
    unfold inferK at hK; rw [hk] at hK; exact (Option.some.inj hK).symm
  · intro w hk hw
    unfold inferK at hK; rw [hk, hw] at hK; exact (Option.some.inj hK).symm
  · intro u hk hw hu
    unfold inferK at hK; rw [hk, hw, hu] at hK; exact (Option.some.inj hK).symm
  · intro a ha
    unfold inferAssortative at hA; rw [ha] at hA; exact (Option.some.inj hA).symm
  · intro w ha hw
    unfold inferAssortative at hA; rw [ha, hw] at hA
    have hA' : upperZero w.length (matOf w) = h.assortative := Option.some.inj hA
    rw [← hA']
    exact upperZero_diag _ _ (hw3 w hw).2.1

/-- **every input of the property's quantifier is accepted**: non-negative `u`, non-negative symmetric `w` (diagonal when
`assortative=True` is passed) with as many communities as `u` has columns - whatever `K` is passed or left out -/
theorem C15_constructor_accepts (k : Option ℕ) (u w : List (List Rat)) (ass : Bool)
    (hu : ∀ row ∈ u, ∀ v ∈ row, 0 ≤ v) (hw : ∀ row ∈ w, ∀ v ∈ row, 0 ≤ v)
    (hs : ∀ a < w.length, ∀ b < w.length, matOf w a b = matOf w b a)
    (hd : ass = true → ∀ a < w.length, ∀ b < w.length, a ≠ b → matOf w a b = 0)
    (hK : ncols u = w.length) :
    construct { K := k, u := some u, w := some w, assortative := some ass }
      = .ok { K := k.getD w.length, assortative := ass } :=
  construct_accepts k u w ass hu hw hs hd hK

/-- **`_init_w`**, all four branches (prior the float `0.0` or not × assortative or not), for EVERY value of the raw draws `g ≥ 0`
and every prior with rates `≥ 0`: the initial affinity is non-negative, symmetric, diagonal when assortative; in the uniform
non-assortative branch its upper triangle is the draw itself, in the exponential branches the entries are `draw / rate`. -/
theorem C15_init_w (K : ℕ) (ass : Bool) (prior : Prior) (g : List (List Rat)) (hg : ∀ a b, 0 ≤ matOf g a b)
    (hp : ∀ a b, 0 ≤ prior.mat a b) :
    (∀ a b, 0 ≤ matOf (initW K ass prior g) a b) ∧
    (∀ a b, matOf (initW K ass prior g) a b = matOf (initW K ass prior g) b a) ∧
    (ass = true → ∀ a b, a ≠ b → matOf (initW K ass prior g) a b = 0) ∧
    (prior.isZeroFloat = true → ∀ a < K, ∀ b < K, a ≤ b → (ass = false ∨ a = b) → matOf (initW K ass prior g) a b = matOf g a b) ∧
    (prior.isZeroFloat = false → ass = false → ∀ a < K, ∀ b < K, a ≤ b →
        matOf (initW K ass prior g) a b = 1 / prior.mat a b * matOf g a b) ∧
    (prior.isZeroFloat = false → ass = true → ∀ a < K, matOf (initW K ass prior g) a a = 1 / prior.mat a a * matOf g 0 a) := by
  refine ⟨initW_nonneg K ass prior g hg hp, initW_symm K ass prior g,
    fun ha a b hab => by subst ha; exact initW_diag K prior g a b hab, ?_, ?_, ?_⟩
  · intro hz a ha b hb hab hor
    unfold initW
    rw [matOf_toRows_in _ _ _ a b ha hb]
    unfold initWMat
    rw [if_pos hz]
    rcases hor with h | h
    · subst h; simp [symUpper, hab]
    · subst h; cases ass <;> simp [symUpper, diagOnly]
  · intro hz ha a haK b hb hab
    subst ha
    unfold initW
    rw [matOf_toRows_in _ _ _ a b haK hb]
    unfold initWMat
    simp [hz, symUpper, hab]
  · intro hz ha a haK
    subst ha
    unfold initW
    rw [matOf_toRows_in _ _ _ a a haK haK]
    unfold initWMat
    simp [hz]

/-- **`_init_u`**: non-negative for every raw draw `≥ 0` and every prior with rates `≥ 0` -/
theorem C15_init_u (N K : ℕ) (prior : Prior) (g : List (List Rat)) (hg : ∀ i a, 0 ≤ matOf g i a)
    (hp : ∀ i a, 0 ≤ prior.mat i a) : ∀ i a, 0 ≤ matOf (initU N K prior g) i a :=
  initU_nonneg N K prior g hg hp

/-- **the loop with its failing division is the loop**: whenever no `hye_weights / poisson_params` divided by zero in `n` passes
(`emLoop? = some`), the state is the one `emLoop` computes (about which `C15_fit_returns`, `C15_ascent` speak) - the totalised
division `x / 0 = 0` of `Rat` is never what a theorem about a guarded run rests on. -/
theorem C15_guarded_loop (d : Data) (fu fw : Bool) (ru rw : Mat) (n : ℕ) (p q : Params)
    (h : emLoop? d fu fw ru rw n p = some q) : q = emLoop d fu fw ru rw n p :=
  emLoop?_eq d fu fw ru rw n p q h

/-- **finite, memberships supplied**: for every `n`, every initial affinity `≥ 0` under which the data have positive Poisson
parameters, every prior `≥ 0`: no pass of the loop ever divides by zero (the Poisson parameters stay positive). -/
theorem C15_fit_finite_supplied_u (d : Data) (us w0 : List (List Rat)) (ru rw : Mat)
    (hu : ∀ i a, 0 ≤ matOf us i a) (hw0 : ∀ a b, 0 ≤ matOf w0 a b) (hA : ∀ e < d.E, 0 < d.A e)
    (hr : ∀ a b, 0 ≤ rw a b)
    (hlam : ∀ e < d.E, 0 < poisson d.N d.K (matOf us) (matOf w0) (d.edge e)) (n : ℕ) :
    emLoop? d true false ru rw n { u := us, w := w0 } = some (emLoop d true false ru rw n { u := us, w := w0 }) :=
  emLoop?_supplied_u d us w0 ru rw hu hw0 hA hr hlam n

/-- **`fit` keeps the parameters non-negative, `w` symmetric and diagonal** - the whole call, BOTH updates alternating, either
exit of the loop, every `n_iter`, then the division by `C()` / `sqrt(C())`: if the parameters the loop starts from are non-negative,
`w` symmetric and zero on a pattern `Z` (off the diagonal: assortative), so are the returned ones.  Hypotheses: weights `≥ 0`,
`w_prior` symmetric, `sqrt(C()) ≥ 0`. -/
theorem C15_fit_keeps_shape (Z : ℕ → ℕ → Prop) (d : Data) (uSup wSup : Option (List (List Rat))) (Dsup : Option ℕ)
    (u0 w0 : List (List Rat)) (ru rw : Mat) (sqrtC : Rat) (stop : Option Stop) (n D : ℕ) (p : Params)
    (hA : ∀ e < d.E, 0 ≤ d.A e) (hrs : ∀ a b, rw a b = rw b a) (hs : 0 ≤ sqrtC)
    (hu0 : ∀ i a, 0 ≤ matOf (uSup.getD u0) i a) (hw0 : ∀ a b, 0 ≤ matOf (wSup.getD w0) a b)
    (hsym : ∀ a b, matOf (wSup.getD w0) a b = matOf (wSup.getD w0) b a)
    (hZ : ∀ a b, Z a b → matOf (wSup.getD w0) a b = 0)
    (h : fit d uSup wSup Dsup u0 w0 ru rw sqrtC stop n = some (D, p)) :
    (∀ i a, 0 ≤ matOf p.u i a) ∧ (∀ a b, 0 ≤ matOf p.w a b) ∧ (∀ a b, matOf p.w a b = matOf p.w b a) ∧
    (∀ a b, Z a b → matOf p.w a b = 0) := by
  have := fit_inv Z d uSup wSup Dsup u0 w0 ru rw sqrtC stop n D p hA hrs hs ⟨hu0, hw0, hsym, hZ⟩ h
  exact ⟨this.u_nonneg, this.w_nonneg, this.w_symm, this.w_zero⟩

/-- **the property's sentence about `fit`, from the constructor arguments and the RAW draws of the generator**, for both variants
(`assortative` true / false, passed or inferred), every prior branch, either parameter supplied or none, every `n_iter`, tolerance
and `check_convergence_every`: when `HyMMSBM(..).fit(..)` returns (`fitSeed = ok`: accepted by the constructor, `max_hye_size` covers
the data, no division by a vanishing Poisson parameter on the way) then a supplied `u` / `w` is returned as it was, all parameters are
`≥ 0`, `w` is symmetric, and diagonal when the model is assortative.  Hypotheses: raw draws `≥ 0` (uniform / standard exponential
variates), prior rates `≥ 0` and `w_prior` symmetric, weights `≥ 0`, `sqrt(C()) ≥ 0`, a supplied `w` is a `K × K` array. -/
theorem C15_fit_from_seed (s : Seed) (N : ℕ) (edges : List (List ℕ)) (A : List Rat) (D : ℕ) (p : Params) (it : ℕ) (reached : Bool)
    (hgw : ∀ a b, 0 ≤ matOf s.gw a b) (hgu : ∀ i a, 0 ≤ matOf s.gu i a)
    (hpu : ∀ i a, 0 ≤ s.uPrior.mat i a) (hpw : ∀ a b, 0 ≤ s.wPrior.mat a b)
    (hpws : ∀ a b, s.wPrior.mat a b = s.wPrior.mat b a)
    (hA : ∀ x ∈ A, 0 ≤ x) (hs : 0 ≤ s.sqrtC)
    (hsq : ∀ w, s.ctor.w = some w → ∀ row ∈ w, row.length = w.length)
    (h : fitSeed s N edges A = .ok D p it reached) :
    ∃ hy, construct s.ctor = .ok hy ∧
      (∀ us, s.ctor.u = some us → p.u = us) ∧ (∀ ws, s.ctor.w = some ws → p.w = ws) ∧
      (∀ i a, 0 ≤ matOf p.u i a) ∧ (∀ a b, 0 ≤ matOf p.w a b) ∧ (∀ a b, matOf p.w a b = matOf p.w b a) ∧
      (hy.assortative = true → ∀ a b, a ≠ b → matOf p.w a b = 0) ∧
      (∀ D0, s.Dsup = some D0 → D = D0) ∧ maxSize (dataOf N hy.K edges A) ≤ D := by
  obtain ⟨hy, w0, u0, hc, hw, hu, hf, _, _, _⟩ := fitSeed_ok s N edges A D p it reached h
  obtain ⟨cW, cU, _, _, _, _, _, _⟩ := C15_constructor s.ctor hy hc
  have hA' : ∀ e < (dataOf N hy.K edges A).E, 0 ≤ (dataOf N hy.K edges A).A e := by
    intro e _
    show 0 ≤ A.getD e 0
    rw [List.getD_eq_getElem?_getD]
    cases hx : A[e]? with
    | none => simp
    | some x => simpa using hA x (List.mem_of_getElem? hx)
  -- the parameters the loop starts from
  have hu0 : ∀ i a, 0 ≤ matOf (s.ctor.u.getD u0) i a := by
    cases hsu : s.ctor.u with
    | some us => exact cU us hsu
    | none =>
      obtain ⟨_, rfl⟩ := seedU0_inferred s hy N u0 hsu hu
      exact initU_nonneg N hy.K s.uPrior s.gu hgu hpu
  have hw0 : (∀ a b, 0 ≤ matOf (s.ctor.w.getD w0) a b) ∧
      (∀ a b, matOf (s.ctor.w.getD w0) a b = matOf (s.ctor.w.getD w0) b a) ∧
      (∀ a b, (hy.assortative = true ∧ a ≠ b) → matOf (s.ctor.w.getD w0) a b = 0) := by
    cases hsw : s.ctor.w with
    | some ws =>
      obtain ⟨h1, h2, h3⟩ := cW ws hsw
      exact ⟨h1, matOf_symm_square ws (hsq ws hsw) h2,
        fun a b hab => matOf_diag_square ws (hsq ws hsw) (h3 hab.1) a b hab.2⟩
    | none =>
      obtain ⟨_, rfl⟩ := seedW0_inferred s hy w0 hsw hw
      refine ⟨initW_nonneg _ _ _ _ hgw hpw, initW_symm _ _ _ _, fun a b hab => ?_⟩
      have hass := hab.1
      rw [hass]
      exact initW_diag _ _ _ a b hab.2
  obtain ⟨r1, r2, r3, r4⟩ := C15_fit_keeps_shape (fun a b => hy.assortative = true ∧ a ≠ b) _ s.ctor.u s.ctor.w s.Dsup u0 w0
    s.uPrior.mat s.wPrior.mat s.sqrtC s.stop s.n D p hA' hpws hs hu0 hw0.1 hw0.2.1 hw0.2.2 hf
  refine ⟨hy, hc, ?_, ?_, r1, r2, r3, fun ha a b hab => r4 a b ⟨ha, hab⟩, ?_, ?_⟩
  · intro us hus
    rw [hus] at hf
    exact C15_fixed_u _ us s.ctor.w s.Dsup u0 w0 _ _ s.sqrtC s.stop s.n D p hf
  · intro ws hws
    rw [hws] at hf
    exact C15_fixed_w _ s.ctor.u ws s.Dsup u0 w0 _ _ s.sqrtC s.stop s.n D p hf
  · intro D0 hD0
    rw [hD0] at hf
    exact (C15_fixed_max_size _ s.ctor.u s.ctor.w D0 u0 w0 _ _ s.sqrtC s.stop s.n D p hf).1
  · obtain ⟨hm, _, _⟩ := fit_some _ s.ctor.u s.ctor.w s.Dsup u0 w0 _ _ s.sqrtC s.stop s.n D p hf
    unfold fitMaxSize at hm
    cases hD : s.Dsup with
    | none => rw [hD] at hm; simp only [Option.some.injEq] at hm; omega
    | some D0 =>
      rw [hD] at hm
      by_cases hlt : D0 < maxSize (dataOf N hy.K edges A)
      · simp [hlt] at hm
      · simp only [hlt, if_false, Option.some.injEq] at hm; omega

/-- **ascent from the raw draws, for each variant** (assortative or not, prior the float `0.0` or positive rates): memberships
supplied to the constructor, affinity drawn by `_init_w` from ANY raw draw `g ≥ 0`: if `fit(n_iter = n)` and `fit(n_iter = n + 1)`
return (same seed), the exact Poisson log-likelihood of the data under the returned affinity (penalised by the prior term when the
rates are positive - D28 -, the plain likelihood for `w_prior = 0.0`) does not decrease.  The facts `C15_ascent_fit` assumed about the
supplied memberships and the initial affinity are derived here from the modelled constructor and `_init_w`; what remains is what the
property's quantifier gives (weights `> 0`, sizes in `2..N`, `2 ≤ max_hye_size ≤ N`, symmetric rates `≥ 0`) and positive Poisson
parameters of the data under the initial draw. -/
theorem C15_ascent_from_seed (s : Seed) (N : ℕ) (edges : List (List ℕ)) (A : List Rat) (us : List (List Rat))
    (hus : s.ctor.u = some us) (hws : s.ctor.w = none)
    (hgw : ∀ a b, 0 ≤ matOf s.gw a b) (hpw : ∀ a b, 0 ≤ s.wPrior.mat a b) (hpws : ∀ a b, s.wPrior.mat a b = s.wPrior.mat b a)
    (D D' : ℕ) (p p' : Params) (it it' : ℕ) (r r' : Bool)
    (h1 : fitSeed s N edges A = .ok D p it r)
    (h2 : fitSeed { s with n := s.n + 1 } N edges A = .ok D' p' it' r')
    (hy : Hyper) (hc : construct s.ctor = .ok hy)
    (hA : ∀ e < (dataOf N hy.K edges A).E, 0 < (dataOf N hy.K edges A).A e)
    (hsize : ∀ e < (dataOf N hy.K edges A).E, 2 ≤ ((dataOf N hy.K edges A).edge e).length ∧ ((dataOf N hy.K edges A).edge e).length ≤ N)
    (hlam : ∀ e < (dataOf N hy.K edges A).E, 0 < poisson N hy.K (matOf us)
        (matOf (initW hy.K hy.assortative s.wPrior s.gw)) ((dataOf N hy.K edges A).edge e))
    (hD2 : 2 ≤ D) (hDN : D ≤ N) :
    D' = D ∧ exactLik (dataOf N hy.K edges A) D (matOf us) s.wPrior.mat (matOf p.w)
      ≤ exactLik (dataOf N hy.K edges A) D (matOf us) s.wPrior.mat (matOf p'.w) := by
  obtain ⟨hy1, w0, u0, hc1, hw1, hu1, hf1, _, _, _⟩ := fitSeed_ok s N edges A D p it r h1
  obtain ⟨hy2, w0', u0', hc2, hw2, hu2, hf2, _, _, _⟩ := fitSeed_ok _ N edges A D' p' it' r' h2
  have e1 : hy1 = hy := by rw [hc] at hc1; injection hc1 with h; exact h.symm
  have e2 : hy2 = hy := by
    have : construct s.ctor = .ok hy2 := hc2
    rw [hc] at this; injection this with h; exact h.symm
  rw [e1] at hw1 hu1 hf1
  rw [e2] at hw2 hu2 hf2
  obtain ⟨_, hw0⟩ := seedW0_inferred s hy w0 hws hw1
  have hw2' : seedW0 s hy = some w0' := hw2
  obtain ⟨_, hw0'⟩ := seedW0_inferred s hy w0' hws hw2'
  have hu2' : seedU0 s hy N = some u0' := hu2
  have hu0 : u0' = u0 := by rw [hu1] at hu2'; exact (Option.some.inj hu2').symm
  subst hw0; subst hw0'; subst hu0
  obtain ⟨_, cU, _⟩ := C15_constructor s.ctor hy hc
  rw [hus, hws] at hf1
  have hf2' : fit (dataOf N hy.K edges A) s.ctor.u s.ctor.w s.Dsup u0' (initW hy.K hy.assortative s.wPrior s.gw)
      s.uPrior.mat s.wPrior.mat s.sqrtC s.stop (s.n + 1) = some (D', p') := hf2
  rw [hus, hws] at hf2'
  exact C15_ascent_fit (dataOf N hy.K edges A) us u0' (initW hy.K hy.assortative s.wPrior s.gw) s.Dsup s.uPrior.mat
    s.wPrior.mat s.sqrtC s.stop (cU us hus) (initW_nonneg _ _ _ _ hgw hpw) hA hpw hlam (initW_symm _ _ _ _) hpws hsize
    s.n D D' p p' hf1 hf2' hD2 hDN

/-- **the monitored quantity IS the model's log-likelihood**: `HyMMSBM.log_likelihood(H)` evaluated on parameters `(u, w)`
(`−bf_and_sum(u, w) + Σ_e A_e log λ_e`, assembled from the ingredients the driver reports) is the objective `penLik` with rate 0
that `C15_ascent_step` / `C15_ascent` speak about, hence - for symmetric `w` and positive Poisson parameters - the exact Poisson
log-likelihood of the data under the normalised affinity `w / C()` plus a constant that depends on the data only. -/
theorem C15_log_likelihood (d : Data) (D : ℕ) (u w : Mat)
    (hw : ∀ a < d.K, ∀ b < d.K, w a b = w b a) (hD2 : 2 ≤ D) (hDN : D ≤ d.N)
    (hsize : ∀ e < d.E, 2 ≤ (d.edge e).length ∧ (d.edge e).length ≤ d.N)
    (hlam : ∀ e < d.E, 0 < poisson d.N d.K u w (d.edge e)) :
    logLikMethod d u w = penLik d u (fun _ _ => 0) w ∧
    logLikMethod d u w = exactLik d D u (fun _ _ => 0) (fun a b => w a b / C (dims 2 D))
      + ∑ e ∈ range d.E, ((d.A e : ℚ) : ℝ) * Real.log (((C (dims 2 D) * kappa d.N (d.edge e).length : ℚ)) : ℝ) := by
  refine ⟨logLikMethod_eq_penLik d u w, ?_⟩
  rw [logLikMethod_eq_penLik, C15_exact_likelihood d D u (fun _ _ => 0) w hw hD2 hDN hsize hlam]
  ring

/-- **`log_likelihood` never decreases along the w-updates of `fit`** when the memberships are supplied and `w_prior = 0.0`
(evaluated on the loop's own, not yet normalised, affinity), for every initial draw `≥ 0` with positive Poisson parameters. -/
theorem C15_log_likelihood_ascends (d : Data) (us w0 : List (List Rat)) (ru : Mat)
    (hu : ∀ i a, 0 ≤ matOf us i a) (hw0 : ∀ a b, 0 ≤ matOf w0 a b) (hA : ∀ e < d.E, 0 < d.A e)
    (hlam : ∀ e < d.E, 0 < poisson d.N d.K (matOf us) (matOf w0) (d.edge e)) (n : ℕ) :
    logLikMethod d (matOf us) (matOf (emLoop d true false ru (fun _ _ => 0) n { u := us, w := w0 }).w)
      ≤ logLikMethod d (matOf us) (matOf (emLoop d true false ru (fun _ _ => 0) (n + 1) { u := us, w := w0 }).w) := by
  rw [logLikMethod_eq_penLik, logLikMethod_eq_penLik]
  exact C15_ascent d us w0 ru (fun _ _ => 0) hu hw0 hA (fun _ _ => le_refl 0) hlam n

/-! ### non-vacuity of the extension-round theorems (the D28 data, raw exponential draws `(1, 1)`, `w_prior = 1.0`, assortative) -/

example : construct { K := none, u := some witU, w := some witW0, assortative := none } = .ok { K := 2, assortative := true } ∧
    construct { K := some 2, u := none, w := some [[1, 2], [3, 1]], assortative := some false } = .error .wNotSymmetric ∧
    construct { K := none, u := some witU, w := some [[1, 2], [2, 1]], assortative := some true } = .error .wNotDiagonal ∧
    construct { K := none, u := some witU, w := none, assortative := none } = .error .noAssortative := by decide +kernel

example : ∀ a < 2, ∀ b < 2, a ≠ b → matOf witW0 a b = 0 :=
  ((C15_constructor { K := none, u := some witU, w := some witW0, assortative := none } { K := 2, assortative := true }
    (by decide +kernel)).1 witW0 rfl).2.2 rfl

example : construct { K := none, u := some witU, w := some witW0, assortative := some true }
    = .ok { K := (none : Option ℕ).getD witW0.length, assortative := true } :=
  C15_constructor_accepts none witU witW0 true (by decide) (by decide) (fun a _ b _ => witW0_symm a b)
    (fun _ a ha b hb hab => by
      have : a < 2 := ha
      have : b < 2 := hb
      interval_cases a <;> interval_cases b <;> first | rfl | exact absurd rfl hab)
    rfl

/-- the four branches of `_init_w` on concrete raw draws -/
example : initW 2 true (.scalar 1) [[1, 1]] = witW0 ∧ initW 2 false (.scalar 0) [[1/2, 1/4], [1/8, 3/4]] = [[1/2, 1/4], [1/4, 3/4]] ∧
    initW 2 true (.scalar 0) [[1/2, 1/4], [1/8, 3/4]] = [[1/2, 0], [0, 3/4]] ∧
    initW 2 false (.array [[1, 2], [2, 4]]) [[1/2, 1/4], [1/8, 3/4]] = [[1/2, 1/8], [1/8, 3/16]] ∧
    initU 3 2 (.scalar (1/2)) [[1, 2], [3, 4], [5, 6]] = [[2, 4], [6, 8], [10, 12]] := by decide +kernel

example : (∀ a b, 0 ≤ matOf (initW 2 false (.array [[1, 2], [2, 4]]) [[1/2, 1/4], [1/8, 3/4]]) a b) ∧
    (∀ a b, matOf (initW 2 false (.array [[1, 2], [2, 4]]) [[1/2, 1/4], [1/8, 3/4]]) a b
      = matOf (initW 2 false (.array [[1, 2], [2, 4]]) [[1/2, 1/4], [1/8, 3/4]]) b a) := by
  have hg : ∀ a b, 0 ≤ matOf [[(1/2 : ℚ), 1/4], [1/8, 3/4]] a b :=
    matOf_nonneg_of_mem _ (by decide +kernel)
  have hp : ∀ a b, 0 ≤ (Prior.array [[1, 2], [2, 4]]).mat a b := matOf_nonneg_of_mem _ (by decide +kernel)
  obtain ⟨h1, h2, _⟩ := C15_init_w 2 false (.array [[1, 2], [2, 4]]) [[1/2, 1/4], [1/8, 3/4]] hg hp
  exact ⟨h1, h2⟩

example (n : ℕ) : emLoop? witD true false (fun _ _ => 0) witR n { u := witU, w := witW0 }
    = some (emLoop witD true false (fun _ _ => 0) witR n { u := witU, w := witW0 }) :=
  C15_fit_finite_supplied_u witD witU witW0 (fun _ _ => 0) witR witU_nonneg witW0_nonneg witD_A (fun _ _ => by simp [witR]) witD_lam n

/-- the guard really fails somewhere: a hyperedge of size 1 has Poisson parameter 0 -/
example : emLoop? (dataOf 3 2 [[0]] [1]) true false (fun _ _ => 0) witR 1 { u := witU, w := witW0 } = none := by decide +kernel

/-- the whole path on the D28 data returns for every `n_iter`, the returned parameters have the property's shape, and the exact
penalised likelihood ascends from `n_iter = n` to `n + 1` -/
example (n : ℕ) : ∃ p it r p' it' r', fitSeed (exSeed n) 3 [[0, 1], [0, 2]] [3, 3] = .ok 2 p it r ∧
    fitSeed (exSeed (n + 1)) 3 [[0, 1], [0, 2]] [3, 3] = .ok 2 p' it' r' ∧ p.u = witU ∧
    (∀ a b, 0 ≤ matOf p.w a b) ∧ (∀ a b, a ≠ b → matOf p.w a b = 0) ∧
    exactLik witD 2 (matOf witU) witR (matOf p.w) ≤ exactLik witD 2 (matOf witU) witR (matOf p'.w) := by
  obtain ⟨p, it, r, h⟩ := exSeed_ok n
  obtain ⟨p', it', r', h'⟩ := exSeed_ok (n + 1)
  have hg : ∀ a b, 0 ≤ matOf (exSeed n).gw a b :=
    (show ∀ a b, 0 ≤ matOf [[(1 : ℚ), 1]] a b from matOf_nonneg_of_mem _ (by decide +kernel))
  obtain ⟨hy, hc, hu, _, _, hw, _, hd, _, _⟩ := C15_fit_from_seed (exSeed n) 3 [[0, 1], [0, 2]] [3, 3] 2 p it r hg
    (show ∀ i a, 0 ≤ matOf ([] : List (List ℚ)) i a from matOf_nonneg_of_mem _ (by simp)) (fun _ _ => le_refl 0)
    (fun _ _ => by simp [exSeed, Prior.mat])
    (fun _ _ => rfl) (by decide +kernel) (show (0 : ℚ) ≤ 1 by norm_num) (fun w hw => by simp [exSeed] at hw) h
  have hyv : hy = { K := 2, assortative := true } := by
    have := exSeed_ctor n; rw [hc] at this; injection this
  subst hyv
  refine ⟨p, it, r, p', it', r', h, h', hu witU rfl, hw, hd rfl, ?_⟩
  exact (C15_ascent_from_seed (exSeed n) 3 [[0, 1], [0, 2]] [3, 3] witU rfl rfl hg (fun _ _ => by simp [exSeed, Prior.mat])
    (fun _ _ => rfl) 2 2 p p' it it' r r' h h' { K := 2, assortative := true } (exSeed_ctor n) witD_A witD_size
    (by rw [show initW 2 true (exSeed n).wPrior (exSeed n).gw = witW0 by (show initW 2 true (.scalar 1) [[1, 1]] = witW0); decide +kernel]
        exact witD_lam)
    (by decide) (by decide)).2

example : logLikMethod witD (matOf witU) (matOf witW1) = penLik witD (matOf witU) (fun _ _ => 0) (matOf witW1) :=
  logLikMethod_eq_penLik _ _ _

example (n : ℕ) : logLikMethod witD (matOf sglU) (matOf (emLoop witD true false (fun _ _ => 0) (fun _ _ => 0) n { u := sglU, w := witW0 }).w)
    ≤ logLikMethod witD (matOf sglU) (matOf (emLoop witD true false (fun _ _ => 0) (fun _ _ => 0) (n + 1) { u := sglU, w := witW0 }).w) :=
  C15_log_likelihood_ascends witD sglU witW0 (fun _ _ => 0) sglU_nonneg witW0_nonneg witD_A sgl_lam n
