import Hgxv.Proofs.C05WF
import Hgxv.Proofs.C05Node
import Hgxv.Proofs.C05LinkC01
import Hgxv.Proofs.C05GetEdges
import Hgxv.Proofs.C05Batch
import Hgxv.Proofs.C05LinkC02
/-! # C05 — sub-hypergraph extraction and copy are faithful and leave the source untouched

Property theorems about the model `Hgxv/Model/C05.lean` (`Content κ`: weighted flag, nodes with metadata,
hyperedge keys with weight and metadata, incidence metadata, empty edges, hypergraph-level metadata; `κ = UKey` for `Hypergraph`, `κ = DKey` for
`DirectedHypergraph`; every statement is generic in `κ`).

The only hypothesis on a source is `WF src`: distinct nodes, distinct keys, every node of a hyperedge is
a node, and an unweighted object carries weight 1 everywhere.  `C05_wf_reachable` shows that every
object built from the constructor by any sequence of public mutators satisfies it, so the hypothesis is
what the real code guarantees.  Selections are exactly the property's: any node list inside the source's
nodes (repetitions allowed), any list of orders or sizes (repetitions allowed), any
(order | size, up_to, keep_isolated_nodes), the node list returned by `largest_component`. -/
open C05

variable {κ : Type} [DecidableEq κ] [Keyed κ]

/-- every history of `add_node, add_edge, remove_edge, set_weight, set_node_metadata, set_edge_metadata,
set_attr_to_node_metadata, set_attr_to_edge_metadata, set_incidence_metadata, get_incidence_metadata(..)[f] = v,
add_empty_edge, set_hypergraph_metadata, set_attr_to_hypergraph_metadata, add_nodes (with and without the metadata table),
remove_node (with and without keep_edges), clear` (rejected calls included) ends in a well-formed object.
`KeyedLaws κ` holds for both key types (instances in `Proofs/C05Node.lean`). -/
theorem C05_wf_reachable [KeyedLaws κ] (w : Bool) (ops : List (Op κ)) : WF (run (empty w : Content κ) ops) :=
  wf_run _ ops (wf_empty w)

/-- `subhypergraph(nodes)`: succeeds; same weightedness; the hyperedges are exactly the source's hyperedges
all of whose nodes are requested, each with the source's weight and metadata (as a list: in the source's
order); the nodes are exactly the requested ones, once each, with the source's metadata -/
theorem C05_induced (src : Content κ) (ns : List Node) (hwf : WF src) (hsub : ∀ n ∈ ns, n ∈ nodesOf src) :
    ∃ r, induced src ns = some r ∧ r.weighted = src.weighted ∧
      r.edges = src.edges.filter (fun e => decide (∀ n ∈ Keyed.members e.1, n ∈ ns)) ∧
      (∀ n, n ∈ nodesOf r ↔ n ∈ ns) ∧ (nodesOf r).Nodup ∧
      (∀ n ∈ ns, getNodeMeta r n = getNodeMeta src n) := by
  obtain ⟨r, h1, h2, h3, h4⟩ := induced_spec src ns hwf hsub
  refine ⟨r, h1, h2, ?_, h4⟩
  rw [h3]
  apply List.filter_congr
  intro e _
  rw [Bool.eq_iff_iff, inside_iff]; simp

/-- a requested node that is not a node of the source makes `subhypergraph` raise (`get_node_metadata`) -/
theorem C05_induced_rejects (src : Content κ) (ns : List Node) (n : Node) (hn : n ∈ ns) (hout : n ∉ nodesOf src) :
    induced src ns = none := by
  have hnone : ∀ h, copyNodeMeta src h n = none := by
    intro h
    simp [copyNodeMeta, getNodeMeta, (AL.get?_eq_none_iff _ _).2 hout]
  simp only [induced, Option.bind_eq_bind]
  rw [foldlM_none_of_mem (copyNodeMeta src) n hnone ns _ hn]
  rfl

/-- `subhypergraph_largest_component(size, order)` is the induced sub-hypergraph on the node set `comp`
returned by `largest_component(size, order)` (a subset of the nodes) -/
theorem C05_largest_component (src : Content κ) (comp : List Node) (hwf : WF src)
    (hsub : ∀ n ∈ comp, n ∈ nodesOf src) :
    ∃ r, largestComponentSub src comp = some r ∧ r.weighted = src.weighted ∧
      r.edges = src.edges.filter (fun e => decide (∀ n ∈ Keyed.members e.1, n ∈ comp)) ∧
      (∀ n, n ∈ nodesOf r ↔ n ∈ comp) ∧ (nodesOf r).Nodup ∧
      (∀ n ∈ comp, getNodeMeta r n = getNodeMeta src n) :=
  C05_induced src comp hwf hsub

/-- which sizes `subhypergraph_by_orders(orders, sizes)` selects: `sizes`, or `order + 1` for each order;
both or none given is rejected -/
theorem C05_sizes_arg (orders sizes : Option (List Int)) :
    sizesArg orders sizes =
      match orders, sizes with
      | some os, none => some (os.map (· + 1))
      | none, some ss => some ss
      | _, _ => none := by
  cases orders <;> cases sizes <;> rfl

/-- `subhypergraph_by_orders(orders | sizes, keep_nodes)`: succeeds; same weightedness; a (key, weight,
metadata) entry is in the result iff it is in the source and its size is requested (each key once, also when
a size is requested several times); the nodes are all nodes of the source (`keep_nodes`) or the nodes of the
selected hyperedges, once each, with the source's metadata -/
theorem C05_by_sizes (src : Content κ) (orders sizes : Option (List Int)) (keep : Bool) (ss : List Int)
    (hwf : WF src) (hss : sizesArg orders sizes = some ss) :
    ∃ r, byOrders src orders sizes keep = some r ∧ r.weighted = src.weighted ∧
      (∀ e, e ∈ r.edges ↔ e ∈ src.edges ∧ ((Keyed.size e.1 : Nat) : Int) ∈ ss) ∧ (keysOf r).Nodup ∧
      (∀ n, n ∈ nodesOf r ↔ if keep then n ∈ nodesOf src else ∃ e ∈ r.edges, n ∈ Keyed.members e.1) ∧
      (nodesOf r).Nodup ∧ (∀ n ∈ nodesOf r, getNodeMeta r n = getNodeMeta src n) :=
  byOrders_spec src orders sizes keep ss hwf hss

/-- the hyperedge selection of `get_edges(order, size, up_to)`: everything without filter; `size = s`
(`order = s - 1`) exactly, or `≤` with `up_to`; both given is rejected -/
theorem C05_edge_filter (order size : Option Int) (upTo : Bool) :
    (order = none → size = none → ∃ p, edgeFilter (κ := κ) order size upTo = some p ∧ ∀ k, p k = true) ∧
    (∀ s, order = none → size = some s → ∃ p, edgeFilter (κ := κ) order size upTo = some p ∧
        ∀ k, p k = true ↔ if upTo then ((Keyed.size k : Nat) : Int) ≤ s else ((Keyed.size k : Nat) : Int) = s) ∧
    (∀ o, order = some o → size = none → ∃ p, edgeFilter (κ := κ) order size upTo = some p ∧
        ∀ k, p k = true ↔ if upTo then ((Keyed.size k : Nat) : Int) ≤ o + 1 else ((Keyed.size k : Nat) : Int) = o + 1) ∧
    (∀ o s, order = some o → size = some s → edgeFilter (κ := κ) order size upTo = none) := by
  refine ⟨?_, ?_, ?_, ?_⟩
  · rintro rfl rfl; exact ⟨_, rfl, fun _ => rfl⟩
  · rintro s rfl rfl
    refine ⟨_, rfl, fun k => ?_⟩
    cases upTo
    · simpa using orderTest_eq_iff s k
    · simpa using orderTest_le_iff s k
  · rintro o rfl rfl
    refine ⟨_, rfl, fun k => ?_⟩
    cases upTo
    · have := orderTest_eq_iff (o + 1) k
      simpa using this
    · have := orderTest_le_iff (o + 1) k
      simpa using this
  · rintro o s rfl rfl; rfl

/-- `get_edges(order | size, up_to, subhypergraph=True, keep_isolated_nodes)`, all four
(`up_to`, `keep_isolated_nodes`) cases: succeeds; same weightedness; the hyperedges are exactly the
selected hyperedges of the source with their weights and metadata (in the source's order); the node set is
all nodes of the source (`keep_isolated_nodes`) or the nodes of the selected hyperedges, once each, with the
source's node metadata -/
theorem C05_edges_sub (src : Content κ) (order size : Option Int) (upTo keepIso : Bool) (p : κ → Bool)
    (hwf : WF src) (hp : edgeFilter order size upTo = some p) :
    ∃ r, edgesSub src order size upTo keepIso = some r ∧ r.weighted = src.weighted ∧
      r.edges = src.edges.filter (fun e => p e.1) ∧
      (∀ n, n ∈ nodesOf r ↔ if keepIso then n ∈ nodesOf src else ∃ e ∈ r.edges, n ∈ Keyed.members e.1) ∧
      (nodesOf r).Nodup ∧ (∀ n ∈ nodesOf r, getNodeMeta r n = getNodeMeta src n) :=
  edgesSub_spec src order size upTo keepIso p hwf hp

/-- `get_edges(order, size, up_to, subhypergraph, keep_isolated_nodes, metadata)` (both classes), EVERY combination of the
flags.  Order and size together: rejected.  `keep_isolated_nodes` without `subhypergraph`: rejected (documented).  Otherwise,
with `p` the filter of `C05_edge_filter`:
* `subhypergraph = true` - whatever `metadata` says - the answer is the extracted hypergraph `r` of `C05_edges_sub` (same
  weightedness, exactly the selected hyperedges with the source's weights and metadata, all nodes / the nodes of the selected
  hyperedges with the source's node metadata): the `metadata` flag never turns an extraction into a listing and never changes it;
* `subhypergraph = false`: the plain listing of the selected hyperedges in the source's order; with `metadata` each with
  the metadata the per-hyperedge getter shows. -/
theorem C05_get_edges_flags (src : Content κ) (order size : Option Int) (upTo sub keepIso md : Bool) (hwf : WF src) :
    (order.isSome ∧ size.isSome → getEdges src order size upTo sub keepIso md = none) ∧
    (edgeFilter (κ := κ) order size upTo ≠ none → sub = false → keepIso = true →
        getEdges src order size upTo sub keepIso md = none) ∧
    (∀ p, edgeFilter (κ := κ) order size upTo = some p →
      (sub = true → ∃ r, getEdges src order size upTo sub keepIso md = some (.sub r) ∧
          edgesSub src order size upTo keepIso = some r ∧ r.weighted = src.weighted ∧
          r.edges = src.edges.filter (fun e => p e.1) ∧
          (∀ n, n ∈ nodesOf r ↔ if keepIso then n ∈ nodesOf src else ∃ e ∈ r.edges, n ∈ Keyed.members e.1) ∧
          (nodesOf r).Nodup ∧ (∀ n ∈ nodesOf r, getNodeMeta r n = getNodeMeta src n)) ∧
      (sub = false → keepIso = false → md = false →
          getEdges src order size upTo sub keepIso md = some (.keys ((src.edges.filter (fun e => p e.1)).map (·.1)))) ∧
      (sub = false → keepIso = false → md = true →
          getEdges src order size upTo sub keepIso md =
            some (.keysMd ((src.edges.filter (fun e => p e.1)).map (fun e => (e.1, e.2.2)))))) := by
  refine ⟨?_, ?_, ?_⟩
  · rintro ⟨ho, hs⟩
    obtain ⟨o, rfl⟩ := Option.isSome_iff_exists.1 ho
    obtain ⟨s, rfl⟩ := Option.isSome_iff_exists.1 hs
    rfl
  · intro hf hsub hkeep
    subst hsub; subst hkeep
    unfold getEdges
    cases hp : edgeFilter (κ := κ) order size upTo with
    | none => exact absurd hp hf
    | some p => simp
  · intro p hp
    refine ⟨?_, ?_, ?_⟩
    · intro hsub
      subst hsub
      obtain ⟨r, h1, h2, h3, h4, h5, h6⟩ := C05_edges_sub src order size upTo keepIso p hwf hp
      refine ⟨r, ?_, h1, h2, h3, h4, h5, h6⟩
      unfold getEdges
      simp [hp, h1]
    · intro hsub hkeep hmd
      subst hsub; subst hkeep; subst hmd
      unfold getEdges
      simp [hp, keysOf_filter]
    · intro hsub hkeep hmd
      subst hsub; subst hkeep; subst hmd
      unfold getEdges
      simp [hp, listingMd_filter src p hwf]

/-- `DirectedHypergraph.get_edges(size = sz | order = sz - 1, up_to, subhypergraph=True, keep_isolated_nodes)` for ANY
directed source - no disjointness of the two sides is assumed, so this covers hyperedges whose source and target sets
overlap (a self-loop `((6,),(6,))`, a feedback hyperedge `((1,),(1,2))`) and hyperedges with an empty side: the size that
is tested is `len(source) + len(target)` (what `get_sizes()` reports; a node on both sides counts twice) and nothing else
of the key is looked at; the nodes without `keep_isolated_nodes` are the nodes on either side of a selected hyperedge -/
theorem C05_directed_sub_by_size (src : Content DKey) (order size : Option Int) (sz : Int) (upTo keepIso : Bool)
    (hwf : WF src) (hsel : (order = none ∧ size = some sz) ∨ (order = some (sz - 1) ∧ size = none)) :
    ∃ r, edgesSub src order size upTo keepIso = some r ∧ r.weighted = src.weighted ∧
      r.edges = src.edges.filter (fun e =>
        if upTo then decide (((e.1.1.length + e.1.2.length : Nat) : Int) ≤ sz)
        else decide (((e.1.1.length + e.1.2.length : Nat) : Int) = sz)) ∧
      (∀ n, n ∈ nodesOf r ↔ if keepIso then n ∈ nodesOf src else ∃ e ∈ r.edges, n ∈ e.1.1 ∨ n ∈ e.1.2) ∧
      (nodesOf r).Nodup ∧ (∀ n ∈ nodesOf r, getNodeMeta r n = getNodeMeta src n) := by
  have hf : ∃ p, edgeFilter (κ := DKey) order size upTo = some p ∧
      ∀ k : DKey, p k = true ↔ if upTo then ((k.1.length + k.2.length : Nat) : Int) ≤ sz
                                else ((k.1.length + k.2.length : Nat) : Int) = sz := by
    rcases hsel with ⟨ho, hs⟩ | ⟨ho, hs⟩
    · obtain ⟨p, hp, hk⟩ := (C05_edge_filter (κ := DKey) order size upTo).2.1 sz ho hs
      exact ⟨p, hp, fun k => hk k⟩
    · obtain ⟨p, hp, hk⟩ := (C05_edge_filter (κ := DKey) order size upTo).2.2.1 (sz - 1) ho hs
      refine ⟨p, hp, fun k => ?_⟩
      have h := hk k
      have e : sz - 1 + 1 = sz := by omega
      rw [e] at h
      exact h
  obtain ⟨p, hp, hk⟩ := hf
  obtain ⟨r, h1, h2, h3, h4, h5, h6⟩ := C05_edges_sub src order size upTo keepIso p hwf hp
  refine ⟨r, h1, h2, ?_, ?_, h5, h6⟩
  · rw [h3]
    apply List.filter_congr
    intro e _
    rw [Bool.eq_iff_iff, hk e.1]
    cases upTo <;> simp
  · intro n
    rw [h4 n]
    cases keepIso
    · simp only [Bool.false_eq_true, if_false]
      constructor
      · rintro ⟨e, he, hn⟩
        exact ⟨e, he, List.mem_append.mp hn⟩
      · rintro ⟨e, he, hn⟩
        exact ⟨e, he, List.mem_append.mpr hn⟩
    · simp

/-- whatever the source and the selection: an extraction that returns, returns an object of the source's
weightedness (no well-formedness needed) -/
theorem C05_weightedness (src r : Content κ) :
    (∀ ns, induced src ns = some r → r.weighted = src.weighted) ∧
    (∀ comp, largestComponentSub src comp = some r → r.weighted = src.weighted) ∧
    (∀ os ss keep, byOrders src os ss keep = some r → r.weighted = src.weighted) ∧
    (∀ o s upTo keep, edgesSub src o s upTo keep = some r → r.weighted = src.weighted) ∧
    (copy src = r → r.weighted = src.weighted) := by
  have hind : ∀ ns, induced src ns = some r → r.weighted = src.weighted := by
    intro ns e
    simp only [induced, Option.bind_eq_bind] at e
    cases h1 : List.foldlM (copyNodeMeta src) (touchAll (empty src.weighted) ns) ns with
    | none => simp [h1] at e
    | some x =>
      simp only [h1, Option.bind_some] at e
      have hx := fold_weighted _ src.weighted (fun h a h' e => copyNodeMeta_weighted src h h' a e) _ _ _ (by rfl) h1
      exact fold_weighted _ src.weighted (fun h a h' e => reinsert_weighted src h h' a e) _ _ _ hx e
  refine ⟨hind, hind, ?_, ?_, ?_⟩
  · intro os ss keep e
    simp only [byOrders, Option.bind_eq_bind] at e
    cases hs : sizesArg os ss with
    | none => simp [hs] at e
    | some l =>
      simp only [hs, Option.bind_some] at e
      cases keep with
      | true =>
        simp only [↓reduceIte] at e
        cases h1 : List.foldlM (copyNodeMeta src) (touchAll (empty src.weighted) (nodesOf src)) (nodesOf src) with
        | none => simp [h1] at e
        | some x =>
          simp only [h1, Option.bind_some] at e
          have hx := fold_weighted _ src.weighted (fun h a h' e => copyNodeMeta_weighted src h h' a e) _ _ _ (by rfl) h1
          cases h2 : List.foldlM (reinsert src) x ((dedup l).flatMap (keysOfSize src)) with
          | none => simp [h2] at e
          | some y =>
            simp only [h2, Option.bind_some, Option.some.injEq] at e
            subst e
            exact fold_weighted _ src.weighted (fun h a h' e => reinsert_weighted src h h' a e) _ _ _ hx h2
      | false =>
        simp only [Bool.false_eq_true, ↓reduceIte] at e
        cases h2 : List.foldlM (reinsert src) (empty src.weighted) ((dedup l).flatMap (keysOfSize src)) with
        | none => simp [h2] at e
        | some y =>
          simp only [h2, Option.bind_some] at e
          have hy := fold_weighted _ src.weighted (fun h a h' e => reinsert_weighted src h h' a e) _ _ _ (by rfl) h2
          exact fold_weighted _ src.weighted (fun h a h' e => copyNodeMeta_weighted src h h' a e) _ _ _ hy e
  · intro o s upTo keep e
    simp only [edgesSub, Option.bind_eq_bind] at e
    cases hp : edgeFilter (κ := κ) o s upTo with
    | none => simp [hp] at e
    | some p =>
      simp only [hp, Option.bind_some] at e
      have h0 : (if keep = true then touchAll (empty src.weighted) (nodesOf src) else (empty src.weighted : Content κ)).weighted
          = src.weighted := by cases keep <;> rfl
      cases h1 : List.foldlM (reinsertBare src)
          (if keep = true then touchAll (empty src.weighted) (nodesOf src) else empty src.weighted)
          ((keysOf src).filter p) with
      | none => simp [h1] at e
      | some x =>
        simp only [h1, Option.bind_some] at e
        have hx := fold_weighted _ src.weighted (fun h a h' e => reinsertBare_weighted src h h' a e) _ _ _ h0 h1
        cases h2 : List.foldlM (copyNodeMeta src) x (nodesOf x) with
        | none => simp [h2] at e
        | some y =>
          simp only [h2, Option.bind_some] at e
          have hy := fold_weighted _ src.weighted (fun h a h' e => copyNodeMeta_weighted src h h' a e) _ _ _ hx h2
          exact fold_weighted _ src.weighted (fun h a h' e => copyEdgeMeta_weighted src h h' a e) _ _ _ hy e
  · intro e; subst e; rfl

/-- the result `r` of an extraction carries nothing but the constructor's defaults outside nodes and hyperedges -/
def C05.FreshAux (src r : Content κ) : Prop :=
  r.inc = [] ∧ r.emptyEdges = [] ∧
  r.hmeta = [(attrWeighted, if src.weighted then 1 else 0), (attrType, Keyed.typeTok κ)]

/-- what an extraction does NOT carry (as the code is: the result is a freshly constructed object filled through
`add_node / add_edge / set_*_metadata`): whatever the source and the selection, an extraction that returns has no
incidence metadata, no empty edges and the hypergraph-level metadata the constructor writes (`weighted`, `type`);
`copy()` in contrast keeps all three (it returns an equal object, `C05_copy_independent`) -/
theorem C05_extract_fresh_aux (src r : Content κ) :
    (∀ ns, induced src ns = some r → FreshAux src r) ∧
    (∀ comp, largestComponentSub src comp = some r → FreshAux src r) ∧
    (∀ os ss keep, byOrders src os ss keep = some r → FreshAux src r) ∧
    (∀ o s upTo keep, edgesSub src o s upTo keep = some r → FreshAux src r) ∧
    (copy src = r → r.inc = src.inc ∧ r.emptyEdges = src.emptyEdges ∧ r.hmeta = src.hmeta) := by
  suffices hs : (∀ ns, induced src ns = some r → aux r = aux (empty src.weighted : Content κ)) ∧
      (∀ comp, largestComponentSub src comp = some r → aux r = aux (empty src.weighted : Content κ)) ∧
      (∀ os ss keep, byOrders src os ss keep = some r → aux r = aux (empty src.weighted : Content κ)) ∧
      (∀ o s upTo keep, edgesSub src o s upTo keep = some r → aux r = aux (empty src.weighted : Content κ)) ∧
      (copy src = r → aux r = aux src) by
    have conv : aux r = aux (empty src.weighted : Content κ) → FreshAux src r := by
      intro h
      simp only [aux, empty, Prod.mk.injEq] at h
      exact ⟨h.1, h.2.1, h.2.2⟩
    refine ⟨fun ns e => conv (hs.1 ns e), fun c e => conv (hs.2.1 c e), fun a b c e => conv (hs.2.2.1 a b c e),
      fun a b c d e => conv (hs.2.2.2.1 a b c d e), fun e => ?_⟩
    have h := hs.2.2.2.2 e
    simp only [aux, Prod.mk.injEq] at h
    exact ⟨h.1, h.2.1, h.2.2⟩
  have hind : ∀ ns, induced src ns = some r → aux r = aux (empty src.weighted : Content κ) := by
    intro ns e
    simp only [induced, Option.bind_eq_bind] at e
    cases h1 : List.foldlM (copyNodeMeta src) (touchAll (empty src.weighted) ns) ns with
    | none => simp [h1] at e
    | some x =>
      simp only [h1, Option.bind_some] at e
      have hx := fold_aux _ (aux (empty src.weighted : Content κ)) (fun h a h' e => copyNodeMeta_aux src h h' a e) _ _ _ (by rfl) h1
      exact fold_aux _ (aux (empty src.weighted : Content κ)) (fun h a h' e => reinsert_aux src h h' a e) _ _ _ hx e
  refine ⟨hind, hind, ?_, ?_, ?_⟩
  · intro os ss keep e
    simp only [byOrders, Option.bind_eq_bind] at e
    cases hs : sizesArg os ss with
    | none => simp [hs] at e
    | some l =>
      simp only [hs, Option.bind_some] at e
      cases keep with
      | true =>
        simp only [↓reduceIte] at e
        cases h1 : List.foldlM (copyNodeMeta src) (touchAll (empty src.weighted) (nodesOf src)) (nodesOf src) with
        | none => simp [h1] at e
        | some x =>
          simp only [h1, Option.bind_some] at e
          have hx := fold_aux _ (aux (empty src.weighted : Content κ)) (fun h a h' e => copyNodeMeta_aux src h h' a e) _ _ _ (by rfl) h1
          cases h2 : List.foldlM (reinsert src) x ((dedup l).flatMap (keysOfSize src)) with
          | none => simp [h2] at e
          | some y =>
            simp only [h2, Option.bind_some, Option.some.injEq] at e
            subst e
            exact fold_aux _ (aux (empty src.weighted : Content κ)) (fun h a h' e => reinsert_aux src h h' a e) _ _ _ hx h2
      | false =>
        simp only [Bool.false_eq_true, ↓reduceIte] at e
        cases h2 : List.foldlM (reinsert src) (empty src.weighted) ((dedup l).flatMap (keysOfSize src)) with
        | none => simp [h2] at e
        | some y =>
          simp only [h2, Option.bind_some] at e
          have hy := fold_aux _ (aux (empty src.weighted : Content κ)) (fun h a h' e => reinsert_aux src h h' a e) _ _ _ (by rfl) h2
          exact fold_aux _ (aux (empty src.weighted : Content κ)) (fun h a h' e => copyNodeMeta_aux src h h' a e) _ _ _ hy e
  · intro o s upTo keep e
    simp only [edgesSub, Option.bind_eq_bind] at e
    cases hp : edgeFilter (κ := κ) o s upTo with
    | none => simp [hp] at e
    | some p =>
      simp only [hp, Option.bind_some] at e
      have h0 : aux (if keep = true then touchAll (empty src.weighted) (nodesOf src) else (empty src.weighted : Content κ))
          = aux (empty src.weighted : Content κ) := by cases keep <;> rfl
      cases h1 : List.foldlM (reinsertBare src)
          (if keep = true then touchAll (empty src.weighted) (nodesOf src) else empty src.weighted)
          ((keysOf src).filter p) with
      | none => simp [h1] at e
      | some x =>
        simp only [h1, Option.bind_some] at e
        have hx := fold_aux _ (aux (empty src.weighted : Content κ)) (fun h a h' e => reinsertBare_aux src h h' a e) _ _ _ h0 h1
        cases h2 : List.foldlM (copyNodeMeta src) x (nodesOf x) with
        | none => simp [h2] at e
        | some y =>
          simp only [h2, Option.bind_some] at e
          have hy := fold_aux _ (aux (empty src.weighted : Content κ)) (fun h a h' e => copyNodeMeta_aux src h h' a e) _ _ _ hx h2
          exact fold_aux _ (aux (empty src.weighted : Content κ)) (fun h a h' e => copyEdgeMeta_aux src h h' a e) _ _ _ hy e
  · intro e; subst e; rfl

/-- `clear()`: no nodes, no hyperedges, no incidence metadata are left, the weighted flag stays, the object is well-formed (so
every extraction theorem applies to it); `Hypergraph.clear()` also empties the hypergraph-level metadata and the empty edges,
`DirectedHypergraph.clear()` leaves its hypergraph-level metadata as it is (this is what the two classes do) -/
theorem C05_clear (c : Content κ) :
    WF (clear c) ∧ (clear c).weighted = c.weighted ∧ (clear c).nodes = [] ∧ (clear c).edges = [] ∧ (clear c).inc = [] ∧
    (Keyed.clearsHyper κ = true → (clear c).hmeta = [] ∧ (clear c).emptyEdges = []) ∧
    (Keyed.clearsHyper κ = false → (clear c).hmeta = c.hmeta ∧ (clear c).emptyEdges = c.emptyEdges) ∧
    Keyed.clearsHyper UKey = true ∧ Keyed.clearsHyper DKey = false := by
  refine ⟨wf_clear c, rfl, rfl, rfl, rfl, ?_, ?_, rfl, rfl⟩
  · intro h; simp [clear, h]
  · intro h; simp [clear, h]

/-- `add_nodes(node_list)`: never rejected; the nodes afterwards are the old ones and the listed ones (once each), an old
node keeps its metadata, a new one has `{}`; hyperedges, weights, flag, incidence / empty-edge / hypergraph metadata untouched -/
theorem C05_add_nodes (c : Content κ) (ns : List Node) :
    ∃ r, apply? c (.addNodes ns none) = some r ∧ r.weighted = c.weighted ∧ r.edges = c.edges ∧ aux r = aux c ∧
      (∀ m, m ∈ nodesOf r ↔ m ∈ nodesOf c ∨ m ∈ ns) ∧ ((nodesOf c).Nodup → (nodesOf r).Nodup) ∧
      (∀ m, getNodeMeta r m = if m ∈ nodesOf c then getNodeMeta c m else if m ∈ ns then some [] else none) :=
  ⟨touchAll c ns, rfl, rfl, rfl, rfl, fun _ => mem_keys_touchL _ _ _, nodup_keys_touchL _ _, fun _ => get?_touchL _ _ _⟩

/-- `Hypergraph.add_nodes(node_list, metadata)`: a node without an entry in the table rejects the whole batch (nothing is
added); otherwise the call is the run of the single calls `add_node(node, metadata[node])` in the order of the list -/
theorem C05_add_nodes_table (c : Content κ) (ns : List Node) (t : List (Node × Meta)) :
    ((∃ n ∈ ns, n ∉ AL.keys t) → apply? c (.addNodes ns (some t)) = none) ∧
    ((∀ n ∈ ns, n ∈ AL.keys t) →
      apply? c (.addNodes ns (some t)) = some (run c (ns.map (fun n => Op.addNode n ((AL.get? t n).getD []))))) := by
  constructor
  · rintro ⟨n, hn, hout⟩
    have : ns.all (fun n => AL.has t n) = false := by
      rw [List.all_eq_false]
      refine ⟨n, hn, ?_⟩
      intro hh; exact hout ((C05AL.has_iff _ _).1 hh)
    simp [apply?, addNodes, this]
  · intro hall
    have : ns.all (fun n => AL.has t n) = true :=
      List.all_eq_true.2 (fun n hn => (C05AL.has_iff _ _).2 (hall n hn))
    simp only [apply?, addNodes, this, ↓reduceIte, run, List.foldl_map]
    rfl

/-- `remove_node(node, keep_edges)` on a well-formed object.  An absent node: rejected (`KeyError`).  A present node (that is not
source and target of one directed hyperedge - never the case for `Hypergraph`): accepted, whatever the hyperedges; the result is
well-formed, has the same flag and the same incidence / empty-edge / hypergraph metadata; the node table is the old one without
the node (the other nodes keep their metadata); NO hyperedge of the result holds the node; without `keep_edges` the hyperedges
are exactly the old ones that do not hold the node (weights, metadata, order); with `keep_edges` the hyperedge SET is: the old
ones that do not hold the node, and, for every old hyperedge that holds it, what is left of it without the node
(`Keyed.without`; for a directed hyperedge only if both sides stay non-empty) -/
theorem C05_remove_node [KeyedLaws κ] (c : Content κ) (n : Node) (keep : Bool) (hwf : WF c) :
    (n ∉ nodesOf c → apply? c (.removeNode n keep) = none) ∧
    (n ∈ nodesOf c → onBothSides c n = false →
      ∃ r, apply? c (.removeNode n keep) = some r ∧ WF r ∧ r.weighted = c.weighted ∧ aux r = aux c ∧
        r.nodes = AL.erase c.nodes n ∧ n ∉ nodesOf r ∧ (∀ m, m ≠ n → getNodeMeta r m = getNodeMeta c m) ∧
        (∀ k ∈ keysOf r, n ∉ Keyed.members k) ∧
        (keep = false → r.edges = c.edges.filter (fun e => decide (n ∉ Keyed.members e.1))) ∧
        (keep = true → ∀ k, k ∈ keysOf r ↔ (k ∈ keysOf c ∧ n ∉ Keyed.members k) ∨
             (∃ k0 ∈ keysOf c, n ∈ Keyed.members k0 ∧ Keyed.without n k0 = some k))) := by
  constructor
  · intro hn
    have : AL.has c.nodes n = false := by
      cases hh : AL.has c.nodes n with
      | false => rfl
      | true => exact absurd ((C05AL.has_iff _ _).1 hh) hn
    simp [apply?, removeNode, this]
  · intro hn htw
    obtain ⟨c1, e1, hi1, e2⟩ := removeNode_spec c n keep hwf hn htw
    refine ⟨_, e2, wf_removeNode c _ n keep hwf e2, hi1.2.2.2.1, hi1.2.2.2.2.1, ?_, ?_, ?_, ?_, ?_, ?_⟩
    · show AL.erase c1.nodes n = _
      rw [hi1.2.2.2.2.2]
    · show n ∉ AL.keys (AL.erase c1.nodes n)
      rw [hi1.2.2.2.2.2, ← AL.get?_eq_none_iff]
      exact AL.get?_erase_self _ _ hwf.nodes_nodup
    · intro m hm
      show AL.get? (AL.erase c1.nodes n) m = _
      rw [hi1.2.2.2.2.2]
      exact AL.get?_erase_ne _ _ _ (fun e => hm e.symm)
    · intro k hk
      have h0 := keys_filter c1.edges (fun k => decide (n ∉ Keyed.members k))
      have hk' : k ∈ (AL.keys c1.edges).filter (fun k => decide (n ∉ Keyed.members k)) := by rw [← h0]; exact hk
      exact of_decide_eq_true (List.mem_filter.1 hk').2
    · intro hk
      subst hk
      simp only [Bool.false_eq_true, ↓reduceIte, Option.some.injEq] at e1
      subst e1
      rfl
    · intro hk
      subst hk
      simp only [↓reduceIte] at e1
      intro k
      have h0 := keys_filter c1.edges (fun k => decide (n ∉ Keyed.members k))
      have hkeys : k ∈ AL.keys (c1.edges.filter (fun e => decide (n ∉ Keyed.members e.1))) ↔
          k ∈ keysOf c1 ∧ n ∉ Keyed.members k := by
        rw [h0, List.mem_filter]
        simp [keysOf]
      show k ∈ AL.keys (c1.edges.filter (fun e => decide (n ∉ Keyed.members e.1))) ↔ _
      rw [hkeys]
      constructor
      · rintro ⟨h1, h2⟩
        rcases hi1.2.2.1 k h1 with h3 | h3
        · exact .inl ⟨h3, h2⟩
        · exact .inr h3
      · rintro (⟨h1, h2⟩ | ⟨k0, h1, h2, h3⟩)
        · exact ⟨hi1.2.1 k h1, h2⟩
        · refine ⟨?_, KeyedLaws.without_not_mem n k0 k h3⟩
          exact (foldShrink_has n _ c c1 e1).2 k0 ((KeyedLaws.mem_incident n _ k0).2 ⟨h1, h2⟩) k h3

/-- the property's sentence for every object a user can reach: for EVERY history `ops` of the sixteen mutators (node removals
with and without `keep_edges`, `clear`, node batches, rejected calls included) from the constructor, every extraction of the
object `src` it ends in is faithful - `subhypergraph(nodes)` for nodes of `src`, `subhypergraph_by_orders` for any admissible
orders / sizes, `get_edges(.., subhypergraph=True)` for any admissible (order | size, up_to, keep_isolated_nodes): returns, same
weightedness, exactly the selected hyperedges with the weights and metadata `src` has NOW, the documented node set with
`src`'s node metadata (`C05_induced`, `C05_by_sizes`, `C05_edges_sub` without the hypothesis `WF`) -/
theorem C05_extractions_of_reachable [KeyedLaws κ] (w : Bool) (ops : List (Op κ)) :
    (∀ ns, (∀ n ∈ ns, n ∈ nodesOf (run (empty w : Content κ) ops)) →
      ∃ r, induced (run (empty w : Content κ) ops) ns = some r ∧ r.weighted = (run (empty w : Content κ) ops).weighted ∧
        r.edges = (run (empty w : Content κ) ops).edges.filter (fun e => decide (∀ n ∈ Keyed.members e.1, n ∈ ns)) ∧
        (∀ n, n ∈ nodesOf r ↔ n ∈ ns) ∧ (nodesOf r).Nodup ∧
        (∀ n ∈ ns, getNodeMeta r n = getNodeMeta (run (empty w : Content κ) ops) n)) ∧
    (∀ orders sizes keep ss, sizesArg orders sizes = some ss →
      ∃ r, byOrders (run (empty w : Content κ) ops) orders sizes keep = some r ∧
        r.weighted = (run (empty w : Content κ) ops).weighted ∧
        (∀ e, e ∈ r.edges ↔ e ∈ (run (empty w : Content κ) ops).edges ∧ ((Keyed.size e.1 : Nat) : Int) ∈ ss) ∧
        (keysOf r).Nodup ∧
        (∀ n, n ∈ nodesOf r ↔ if keep then n ∈ nodesOf (run (empty w : Content κ) ops)
                                else ∃ e ∈ r.edges, n ∈ Keyed.members e.1) ∧
        (nodesOf r).Nodup ∧ (∀ n ∈ nodesOf r, getNodeMeta r n = getNodeMeta (run (empty w : Content κ) ops) n)) ∧
    (∀ order size upTo keepIso p, edgeFilter (κ := κ) order size upTo = some p →
      ∃ r, edgesSub (run (empty w : Content κ) ops) order size upTo keepIso = some r ∧
        r.weighted = (run (empty w : Content κ) ops).weighted ∧
        r.edges = (run (empty w : Content κ) ops).edges.filter (fun e => p e.1) ∧
        (∀ n, n ∈ nodesOf r ↔ if keepIso then n ∈ nodesOf (run (empty w : Content κ) ops)
                                else ∃ e ∈ r.edges, n ∈ Keyed.members e.1) ∧
        (nodesOf r).Nodup ∧ (∀ n ∈ nodesOf r, getNodeMeta r n = getNodeMeta (run (empty w : Content κ) ops) n)) :=
  ⟨fun ns hsub => C05_induced _ ns (C05_wf_reachable w ops) hsub,
   fun orders sizes keep ss hss => C05_by_sizes _ orders sizes keep ss (C05_wf_reachable w ops) hss,
   fun order size upTo keepIso p hp => C05_edges_sub _ order size upTo keepIso p (C05_wf_reachable w ops) hp⟩

/-- the source is untouched: storing ANY extraction `f` of slot `i` (one of the functions above, `copy`, an
extraction that raises) into another slot `j` changes no slot but `j`; in particular slot `i` holds the same
object before and after.  (The extraction functions are functions of the source's value; on the code the
same statement is checked by comparing every public query of the source before and after.) -/
theorem C05_source_unchanged (sl : Slots κ) (i j : Nat) (f : Content κ → Option (Content κ)) (hij : j ≠ i) :
    AL.get? (extractInto sl i j f) i = AL.get? sl i ∧
    ∀ m, m ≠ j → AL.get? (extractInto sl i j f) m = AL.get? sl m :=
  ⟨get?_extractInto_ne sl i j i f hij, fun m hm => get?_extractInto_ne sl i j m f (fun e => hm e.symm)⟩

/-- `copy()` returns an equal object (equal as a `Content`: weighted flag, nodes, hyperedges with weights and
metadata, incidence metadata, empty edges, hypergraph-level metadata), and afterwards the copy (slot `j`) and the
original (slot `i`) are independent: after ANY interleaving `ops` of mutations addressed to any slots, the original is what it
would be had only its own mutations been applied, and so is the copy -/
theorem C05_copy_independent (sl : Slots κ) (i j : Nat) (hij : j ≠ i) (c : Content κ)
    (hc : AL.get? sl i = some c) (ops : List (Nat × Op κ)) :
    AL.get? (extractInto sl i j (fun x => some (copy x))) j = some c ∧
    AL.get? (runSlots (extractInto sl i j (fun x => some (copy x))) ops) i = some (run c (opsFor i ops)) ∧
    AL.get? (runSlots (extractInto sl i j (fun x => some (copy x))) ops) j = some (run c (opsFor j ops)) := by
  have hj := get?_extractInto_self sl i j (fun x => some (copy x)) c c hc rfl
  have hi := get?_extractInto_ne sl i j i (fun x => some (copy x)) hij
  refine ⟨hj, ?_, ?_⟩
  · rw [get?_runSlots, hi, hc]; rfl
  · rw [get?_runSlots, hj]; rfl

/-- malformed selections are rejected (and then nothing is assigned, see `C05_source_unchanged`):
both or none of orders/sizes; order and size together -/
theorem C05_malformed_rejected (src : Content κ) :
    (∀ keep, byOrders src none none keep = none) ∧
    (∀ os ss keep, byOrders src (some os) (some ss) keep = none) ∧
    (∀ o s upTo keep, edgesSub src (some o) (some s) upTo keep = none) :=
  ⟨fun _ => rfl, fun _ _ _ => rfl, fun _ _ _ _ => rfl⟩

/-! ## non-vacuity: the weighted hypergraph of defect D19 (weights 5.0 and 7.0 = 20 and 28 quanta, ids 0, 1) -/

/-- nodes 9 and 1 carry metadata, 9 is isolated, `(4,)` is a singleton hyperedge -/
def C05.exHistory : List (Op UKey) :=
  [.addNode 9 [(2, 0)], .addNode 1 [(0, 0)], .addEdge [1, 2] (some 20) [(1, 1)],
   .addEdge [2, 3, 4] (some 28) [(1, 2)], .addEdge [4] (some 8) [], .addEdge [1, 2] none [(1, 1)],
   .removeEdge [7]]

def C05.exSrc : Content UKey := run (empty true) exHistory

example : exSrc = ⟨true, [(9, [(2, 0)]), (1, [(0, 0)]), (2, []), (3, []), (4, [])],
    [([1, 2], (24, [(1, 1)])), ([2, 3, 4], (28, [(1, 2)])), ([4], (8, []))], [], [], [(100, 1), (101, 0)]⟩ := by decide

example : WF exSrc := C05_wf_reachable true exHistory

-- `C05_induced` applies (hypotheses hold) and its conclusion is the computed one: weights 24 and 8, not ids
example : ∀ n ∈ [4, 1, 2, 2], n ∈ nodesOf exSrc := by decide
example : induced exSrc [4, 1, 2, 2] =
    some ⟨true, [(4, []), (1, [(0, 0)]), (2, [])], [([1, 2], (24, [(1, 1)])), ([4], (8, []))], [], [],
      [(100, 1), (101, 0)]⟩ := by decide
-- a node outside the hypergraph is rejected
example : induced exSrc [1, 77] = none := by decide

-- `C05_by_sizes`: sizes [1, 3, 1] (a repetition) without the isolated nodes
example : sizesArg none (some [1, 3, 1]) = some [1, 3, 1] := rfl
example : byOrders exSrc none (some [1, 3, 1]) false =
    some ⟨true, [(4, []), (2, []), (3, [])], [([4], (8, [])), ([2, 3, 4], (28, [(1, 2)]))], [], [],
      [(100, 1), (101, 0)]⟩ := by decide
example : (byOrders exSrc (some [1]) none true).map (·.edges) = some [([1, 2], (24, [(1, 1)]))] := by decide

-- `C05_edges_sub`: the four (up_to, keep_isolated_nodes) cases for size 2
example : edgesSub exSrc none (some 2) false false =
    some ⟨true, [(1, [(0, 0)]), (2, [])], [([1, 2], (24, [(1, 1)]))], [], [], [(100, 1), (101, 0)]⟩ := by decide
example : (edgesSub exSrc none (some 2) false true).map nodesOf = some [9, 1, 2, 3, 4] := by decide
example : (edgesSub exSrc none (some 2) true false).map (fun r => (nodesOf r, keysOf r)) =
    some ([1, 2, 4], [[1, 2], [4]]) := by decide
example : (edgesSub exSrc (some 1) none true true).map (fun r => (nodesOf r, keysOf r)) =
    some ([9, 1, 2, 3, 4], [[1, 2], [4]]) := by decide

-- `C05_get_edges_flags` on the same source: the three kinds of answers, and the `metadata` flag next to `subhypergraph`
/-- (for the examples) the answer of `get_edges` made comparable: kind of answer + content -/
def exShow (a : Option (Answer UKey)) : Option (String × List UKey × List (UKey × Meta) × List Node) :=
  a.map fun
    | .keys ks => ("list", ks, [], [])
    | .keysMd ks => ("dict", [], ks, [])
    | .sub r => ("hypergraph", keysOf r, r.edges.map (fun e => (e.1, e.2.2)), nodesOf r)
example : exShow (getEdges exSrc none (some 2) false false false false) = some ("list", [[1, 2]], [], []) := by rfl
example : exShow (getEdges exSrc none (some 2) false false false true) = some ("dict", [], [([1, 2], [(1, 1)])], []) := by rfl
example : exShow (getEdges exSrc none (some 2) false true false true) =
    some ("hypergraph", [[1, 2]], [([1, 2], [(1, 1)])], [1, 2]) := by rfl
example : exShow (getEdges exSrc none (some 2) false true true true) =
    exShow (getEdges exSrc none (some 2) false true true false) ∧
    exShow (getEdges exSrc none (some 2) false true true true) =
      some ("hypergraph", [[1, 2]], [([1, 2], [(1, 1)])], [9, 1, 2, 3, 4]) := ⟨by rfl, by rfl⟩
example : exShow (getEdges exSrc none (some 2) false false true true) = none ∧
    exShow (getEdges exSrc (some 1) (some 2) false true false false) = none := ⟨by rfl, by rfl⟩

-- directed: `get_edges(size=3, subhypergraph=True)` of an unweighted DirectedHypergraph
def C05.exD : Content DKey :=
  run (empty false) [.addNode 5 [(0, 1)], .addEdge ([1], [2]) none [(1, 1)], .addEdge ([2, 3], [1]) none [],
                     .addEdge ([1], [2]) (some 6) []]
example : WF exD := C05_wf_reachable false _
example : exD.edges = [(([1], [2]), (4, [(1, 1)])), (([2, 3], [1]), (4, []))] := by decide
example : edgesSub exD none (some 3) false false =
    some ⟨false, [(2, []), (3, []), (1, [])], [(([2, 3], [1]), (4, []))], [], [], [(100, 0), (101, 1)]⟩ := by decide

-- `C05_directed_sub_by_size`: overlapping sides (feedback hyperedge `((1,),(1,2))`, identical sides `((2,5),(2,5))`, the
-- self-loop `((6,),(6,))`) and an empty side `((),(7,))`; sizes as `get_sizes()` reports them: 3, 2, 4, 2, 3, 1
def C05.exLoop : Content DKey :=
  run (empty true) [.addNode 8 [(0, 1)], .addEdge ([1], [1, 2]) (some 4) [], .addEdge ([3], [4]) (some 8) [(1, 1)],
                    .addEdge ([2, 5], [2, 5]) (some 12) [], .addEdge ([6], [6]) (some 16) [(2, 2)],
                    .addEdge ([1, 2], [3]) (some 20) [], .addEdge ([], [7]) (some 24) []]
example : WF exLoop := C05_wf_reachable true _
example : nodesOf exLoop = [8, 1, 2, 3, 4, 5, 6, 7] ∧
    (keysOf exLoop).map Keyed.size = [3, 2, 4, 2, 3, 1] := by decide
-- size 2 takes the self-loop (one distinct node, size 2) and not the feedback hyperedge (two distinct nodes, size 3)
example : edgesSub exLoop none (some 2) false false =
    some ⟨true, [(3, []), (4, []), (6, [])], [(([3], [4]), (8, [(1, 1)])), (([6], [6]), (16, [(2, 2)]))], [], [],
      [(100, 1), (101, 1)]⟩ := by decide
example : (edgesSub exLoop (some 2) none false true).map (fun r => (nodesOf r, keysOf r)) =
    some ([8, 1, 2, 3, 4, 5, 6, 7], [([1], [1, 2]), ([1, 2], [3])]) := by decide
example : (edgesSub exLoop none (some 1) true false).map (fun r => (nodesOf r, keysOf r)) =
    some ([7], [([], [7])]) := by decide
example : (edgesSub exLoop none (some 4) false false).map (fun r => (nodesOf r, keysOf r)) =
    some ([2, 5], [([2, 5], [2, 5])]) := by decide

-- `C05_copy_independent` / `C05_source_unchanged` on a two-slot state
example : AL.get? (runSlots (extractInto [(0, exSrc)] 0 1 (fun x => some (copy x)))
    [(1, .removeEdge [4]), (0, .setWeight [4] 12), (1, .addNode 30 [])]) 0
    = some (run exSrc [.setWeight [4] 12]) := by decide

-- incidence metadata (stored under the tuple as given, kept after `remove_edge`), empty edges, hypergraph-level
-- metadata: `copy()` keeps them and makes them independent, extractions start from the constructor's defaults
def C05.exAuxSrc : Content UKey :=
  run (empty true) (exHistory ++ [.setIncMeta [1, 2] ([2, 1], []) 2 [(0, 3)], .setIncMeta [4] ([4], []) 4 [], .addEmptyEdge 0 [(1, 0)],
             .addEmptyEdge 0 [], .setHyperAttr 2 5, .setIncMeta [7, 8] ([7, 8], []) 7 [], .removeEdge [4],
             .setIncAttr [1, 2] ([2, 1], []) 2 1 1, .setIncAttr [1, 2] ([1, 2], []) 2 1 1])
example : exAuxSrc.inc = [((([2, 1], []), 2), [(0, 3), (1, 1)]), ((([4], []), 4), [])] ∧
    exAuxSrc.emptyEdges = [(0, [(1, 0)])] ∧ exAuxSrc.hmeta = [(100, 1), (101, 0), (2, 5)] ∧
    keysOf exAuxSrc = [[1, 2], [2, 3, 4]] := by decide
example : WF exAuxSrc := C05_wf_reachable true _
example : getIncMeta exAuxSrc [4] ([4], []) 4 = none ∧ getIncMeta exAuxSrc [1, 2] ([2, 1], []) 2 = some [(0, 3), (1, 1)] := by
  decide
example : ∃ r, induced exAuxSrc [1, 2] = some r ∧ r.inc = [] ∧ r.emptyEdges = [] ∧ r.hmeta = [(100, 1), (101, 0)] ∧
    keysOf r = [[1, 2]] := by decide
example : AL.get? (runSlots (extractInto [(0, exAuxSrc)] 0 1 (fun x => some (copy x)))
    [(1, .addEmptyEdge 0 []), (1, .addEmptyEdge 1 []), (0, .setHyperAttr 2 6), (1, .setIncAttr [1, 2] ([2, 1], []) 2 0 0)]) 1
    = some { exAuxSrc with emptyEdges := [(0, [(1, 0)]), (1, [])],
                           inc := [((([2, 1], []), 2), [(0, 0), (1, 1)]), ((([4], []), 4), [])] } := by decide

-- `C05_remove_node` / `C05_add_nodes(_table)` / `C05_clear` on the D19 source (hyperedges (1,2): 24, (2,3,4): 28, (4,): 8)
example : ∃ r, removeNode exSrc 2 true = some r ∧ r.nodes = [(9, [(2, 0)]), (1, [(0, 0)]), (3, []), (4, [])] ∧
    r.edges = [([4], (8, [])), ([1], (24, [(1, 1)])), ([3, 4], (28, [(1, 2)]))] := by decide
-- the shrunk hyperedge exists already: weights add up, metadata replaced
example : ∃ r, removeNode (run exSrc [.addEdge [3, 4] (some 4) [(5, 5)]]) 2 true = some r ∧
    r.edges = [([4], (8, [])), ([3, 4], (32, [(1, 2)])), ([1], (24, [(1, 1)]))] := by decide
example : ∃ r, removeNode exSrc 2 false = some r ∧ r.edges = [([4], (8, []))] ∧ nodesOf r = [9, 1, 3, 4] := by decide
-- a singleton hyperedge becomes the node-less hyperedge `()`
example : ∃ r, removeNode exSrc 4 true = some r ∧
    r.edges = [([1, 2], (24, [(1, 1)])), ([2, 3], (28, [(1, 2)])), ([], (8, []))] := by decide
example : removeNode exSrc 7 true = none ∧ onBothSides exSrc 2 = false ∧ 2 ∈ nodesOf exSrc := by decide
-- directed: a hyperedge whose side would become empty is not re-inserted
example : ∃ r, removeNode exD 3 true = some r ∧ keysOf r = [([1], [2]), ([2], [1])] ∧ nodesOf r = [5, 1, 2] := by decide
example : ∃ r, removeNode exD 2 true = some r ∧ keysOf r = [([3], [1])] ∧ nodesOf r = [5, 1, 3] := by decide
example : onBothSides exLoop 1 = true ∧ removeNode exLoop 1 true = none := by decide
example : ∃ r, addNodes exSrc [1, 50, 3] (some [(1, [(7, 7)]), (50, [(8, 8)]), (3, [(9, 9)]), (4, [])]) = some r ∧
    r.nodes = [(9, [(2, 0)]), (1, [(0, 0)]), (2, []), (3, [(9, 9)]), (4, []), (50, [(8, 8)])] := by decide
example : addNodes exSrc [1, 50, 3] (some [(1, [(7, 7)]), (50, [(8, 8)])]) = none := by decide
example : ∃ r, addNodes exSrc [60, 1, 60] none = some r ∧ nodesOf r = [9, 1, 2, 3, 4, 60] := by decide
example : clear exAuxSrc = ⟨true, [], [], [], [], []⟩ := by decide
example : clear (run exLoop [.setHyperAttr 3 3]) = ⟨true, [], [], [], [], [(100, 1), (101, 1), (3, 3)]⟩ := by decide
-- a history with the new operations, then an extraction (`C05_wf_reachable` + `C05_edges_sub`)
def C05.exNodeHistory : List (Op UKey) :=
  exHistory ++ [.removeNode 2 true, .addNodes [2, 70] (some [(2, [(3, 3)]), (70, [])]), .removeNode 77 false,
                .addEdge [2, 70] (some 4) []]
example : WF (run (empty true) exNodeHistory) := C05_wf_reachable true _
example : (edgesSub (run (empty true) exNodeHistory) none (some 2) false false).map (fun r => (r.nodes, keysOf r)) =
    some ([(3, []), (4, []), (2, [(3, 3)]), (70, [])], [[3, 4], [2, 70]]) := by decide


/-! ## Link to the full model of `Hypergraph` (C01)

The content-level semantics used in this file is not an independent invention: one call of each modelled mutator on the
abstract spec of the complete `Hypergraph` model (`C01.Spec`, which `C01_refines` proves equal to the concrete
id-indexed store for every history) is exactly the C05 step on its content, with the same accept/reject verdict. -/
theorem C05_link_C01 (a : C01.Spec) (op : C01.Op) (op' : Op UKey) (hl : liftOp op = some op')
    (hwf : WF (ofSpec a)) :
    ofSpec (C01.Spec.apply a op).1 = step (ofSpec a) op' ∧
    ((C01.Spec.apply a op).2 = .ok ↔ (apply? (ofSpec a) op').isSome = true) :=
  link_C01 a op op' hl hwf

/-- the same link for the node batches `add_nodes(node_list[, metadata])` and for `clear()` -/
theorem C05_link_C01_nodes (a : C01.Spec) (op : C01.Op) (op' : Op UKey) (hl : liftOp2 op = some op')
    (hwf : WF (ofSpec a)) :
    ofSpec (C01.Spec.apply a op).1 = step (ofSpec a) op' ∧
    ((C01.Spec.apply a op).2 = .ok ↔ (apply? (ofSpec a) op').isSome = true) :=
  link_C01_nodes a op op' hl hwf

/-- and for `remove_node(node, keep_edges)`, both values of `keep_edges`: the two-loop procedure on `C01.Spec` (which C01 proves to
be the abstraction of the concrete id tables, with the declarative description `C01.spec_removeNode_drop / _keep`: weights add up
on the shrunk keys, metadata of a hyperedge that shrinks onto it) gives exactly the C05 content - same nodes, same hyperedge
listing with weights and metadata, same verdict.  `hcan`: stored keys are canonical (what `C01.SWF.key` states for the abstract
state of every history, `C01.abs_swf`) -/
theorem C05_link_C01_remove_node (a : C01.Spec) (n : Node) (keep : Bool) (hwf : WF (ofSpec a))
    (hcan : ∀ k ∈ AL.keys a.edges, C01.canon k = k) :
    ofSpec (C01.Spec.removeNode a n keep).1 = step (ofSpec a) (.removeNode n keep) ∧
    ((C01.Spec.removeNode a n keep).2 = C01.Out.ok ↔ (apply? (ofSpec a) (.removeNode n keep)).isSome = true) :=
  link_C01_removeNode a n keep hwf hcan

-- non-vacuity of the two hypotheses and of the conclusion: node 2 removed with `keep_edges`, `(2,3,4)` shrinks onto the
-- existing `(3,4)` (weights 4 + 12 quanta, metadata replaced), `(1,2)` becomes `(1,)`
def C05.exSpec : C01.Spec :=
  { weighted := true, nodes := [(1, []), (2, [(0, 1)]), (3, []), (4, [])],
    edges := [([1, 2], (8, [(1, 1)])), ([2, 3, 4], (4, [])), ([3, 4], (12, [(2, 2)]))], hmeta := [] }
example : WF (ofSpec exSpec) := ⟨by decide, by decide, by decide, by decide⟩
example : ∀ k ∈ AL.keys exSpec.edges, C01.canon k = k := by decide
example : (C01.Spec.removeNode exSpec 2 true).2 = C01.Out.ok ∧
    (C01.Spec.removeNode exSpec 2 true).1.edges = [([3, 4], (16, [])), ([1], (8, [(1, 1)]))] ∧
    (step (ofSpec exSpec) (.removeNode 2 true)).edges = [([3, 4], (16, [])), ([1], (8, [(1, 1)]))] ∧
    (step (ofSpec exSpec) (.removeNode 2 true)).nodes = [(1, []), (3, []), (4, [])] := by decide

/-! ## Second extension round: calls that raise half-way (`Model/C05Batch.lean`), link to `C02.Spec`

`OpX κ` = the sixteen single mutators + `remove_node` as the code runs it on EVERY node (also one that is source and target of
one directed hyperedge) + the batches `remove_edges`, `remove_nodes` (`Hypergraph`: the whole batch is validated first,
all-or-nothing; `DirectedHypergraph`: a plain loop - what was done before the first failing call stays done).  A call
answers (state left, returned?); `runX` keeps the state left by a call that raised. -/

/-- every history over the larger operation set - calls that raised half-way included, with the state they leave - ends in
a well-formed object (`KeyedLaws2`, `Batch` have instances for both key types) -/
theorem C05_wf_reachable_batch [KeyedLaws κ] [KeyedLaws2 κ] [Batch κ] (w : Bool) (ops : List (OpX κ)) :
    WF (runX (empty w : Content κ) ops) :=
  wf_runX _ ops (wf_empty w)

/-- the property's sentence for every object such a history ends in (in particular the half-done object a raising
`DirectedHypergraph.remove_node / remove_nodes / remove_edges` leaves): every extraction returns, keeps the weightedness, holds
exactly the selected hyperedges with the weights and metadata the object has NOW, and the documented node set with its node
metadata (the statement of `C05_extractions_of_reachable`, over `OpX`) -/
theorem C05_extractions_of_reachable_batch [KeyedLaws κ] [KeyedLaws2 κ] [Batch κ] (w : Bool) (ops : List (OpX κ))
    (src : Content κ) (hsrc : src = runX (empty w : Content κ) ops) :
    (∀ ns, (∀ n ∈ ns, n ∈ nodesOf src) →
      ∃ r, induced src ns = some r ∧ r.weighted = src.weighted ∧
        r.edges = src.edges.filter (fun e => decide (∀ n ∈ Keyed.members e.1, n ∈ ns)) ∧
        (∀ n, n ∈ nodesOf r ↔ n ∈ ns) ∧ (nodesOf r).Nodup ∧
        (∀ n ∈ ns, getNodeMeta r n = getNodeMeta src n)) ∧
    (∀ orders sizes keep ss, sizesArg orders sizes = some ss →
      ∃ r, byOrders src orders sizes keep = some r ∧ r.weighted = src.weighted ∧
        (∀ e, e ∈ r.edges ↔ e ∈ src.edges ∧ ((Keyed.size e.1 : Nat) : Int) ∈ ss) ∧
        (keysOf r).Nodup ∧
        (∀ n, n ∈ nodesOf r ↔ if keep then n ∈ nodesOf src else ∃ e ∈ r.edges, n ∈ Keyed.members e.1) ∧
        (nodesOf r).Nodup ∧ (∀ n ∈ nodesOf r, getNodeMeta r n = getNodeMeta src n)) ∧
    (∀ order size upTo keepIso p, edgeFilter (κ := κ) order size upTo = some p →
      ∃ r, edgesSub src order size upTo keepIso = some r ∧ r.weighted = src.weighted ∧
        r.edges = src.edges.filter (fun e => p e.1) ∧
        (∀ n, n ∈ nodesOf r ↔ if keepIso then n ∈ nodesOf src else ∃ e ∈ r.edges, n ∈ Keyed.members e.1) ∧
        (nodesOf r).Nodup ∧ (∀ n ∈ nodesOf r, getNodeMeta r n = getNodeMeta src n)) := by
  have hwf : WF src := hsrc ▸ C05_wf_reachable_batch w ops
  exact ⟨fun ns hsub => C05_induced _ ns hwf hsub,
   fun orders sizes keep ss hss => C05_by_sizes _ orders sizes keep ss hwf hss,
   fun order size upTo keepIso p hp => C05_edges_sub _ order size upTo keepIso p hwf hp⟩

/-- `remove_node(node, keep_edges)` as the code runs it, on a well-formed object, the three cases:
absent node - raises, nothing changed; present node on one side only - returns, and it is the call `C05_remove_node` describes;
present node that is source AND target of one hyperedge (directed only) - the call RAISES (the removal loop meets that hyperedge
a second time), and the object it leaves is well-formed, with the SAME node table (the node is still there, with its metadata),
the same flag, the same incidence / empty-edge / hypergraph metadata; what is gone are the hyperedges the loop removed before
the repeat (with `keep_edges` the shrunk hyperedges have all been inserted - the doubly incident one twice, its weight
counted twice; see the examples below) -/
theorem C05_remove_node_both_sides [KeyedLaws κ] [KeyedLaws2 κ] (c : Content κ) (n : Node) (keep : Bool) (hwf : WF c) :
    (n ∉ nodesOf c → removeNodeRaw c n keep = (c, false)) ∧
    (n ∈ nodesOf c → onBothSides c n = false →
      ∃ c', removeNode c n keep = some c' ∧ removeNodeRaw c n keep = (c', true)) ∧
    (n ∈ nodesOf c → onBothSides c n = true →
      (removeNodeRaw c n keep).2 = false ∧ WF (removeNodeRaw c n keep).1 ∧
      (removeNodeRaw c n keep).1.nodes = c.nodes ∧ (removeNodeRaw c n keep).1.weighted = c.weighted ∧
      (removeNodeRaw c n keep).1.inc = c.inc ∧ (removeNodeRaw c n keep).1.emptyEdges = c.emptyEdges ∧
      (removeNodeRaw c n keep).1.hmeta = c.hmeta) := by
  obtain ⟨h1, h2, h3⟩ := removeNodeRaw_spec c n keep hwf
  refine ⟨h1, h2, fun hn htw => ?_⟩
  obtain ⟨e, hk, hnodes, hw, haux⟩ := h3 hn htw
  simp only [aux, Prod.mk.injEq] at haux
  exact ⟨e, hk, hnodes, hw, haux.1, haux.2.1, haux.2.2⟩

/-- `Hypergraph.remove_edges(edge_list)` (the validating class): every listed hyperedge present and none listed twice - the batch
returns and the hyperedges left are exactly the old entries whose key is not listed (list equality: weights, metadata, order),
nothing else changes; otherwise it raises and NOTHING changed.  `hv` holds for `UKey` (`rfl`, example below) -/
theorem C05_remove_edges_all_or_nothing [Batch κ] (hv : Batch.validates κ = true) (c : Content κ) (ks : List κ) (hwf : WF c) :
    ((ks.all (fun k => AL.has c.edges k) && decide ks.Nodup) = true →
      removeEdgesB c ks = ({ c with edges := c.edges.filter (fun e => decide (e.1 ∉ ks)) }, true)) ∧
    ((ks.all (fun k => AL.has c.edges k) && decide ks.Nodup) = false → removeEdgesB c ks = (c, false)) :=
  removeEdgesB_validating hv c ks hwf

/-- `Hypergraph.remove_nodes(node_list, keep_edges)`: every listed node present and none listed twice - the batch returns and is
the run of the single `remove_node` calls (each described by `C05_remove_node`); otherwise it raises and NOTHING changed.
`hv`, `htw` hold for `UKey` (no node is on two sides of an undirected hyperedge; example below) -/
theorem C05_remove_nodes_all_or_nothing [KeyedLaws κ] [Batch κ] (hv : Batch.validates κ = true)
    (htw : ∀ (c : Content κ) (n : Node), onBothSides c n = false) (c : Content κ) (ns : List Node) (keep : Bool) (hwf : WF c) :
    ((ns.all (fun n => AL.has c.nodes n) && decide ns.Nodup) = true →
      removeNodesB c ns keep = (run c (ns.map (fun n => Op.removeNode n keep)), true)) ∧
    ((ns.all (fun n => AL.has c.nodes n) && decide ns.Nodup) = false → removeNodesB c ns keep = (c, false)) := by
  have h := removeNodesB_validating hv htw c ns keep hwf
  refine ⟨fun hv => ?_, h.2⟩
  rw [h.1 hv, run, List.foldl_map]

/-- the directed batches are plain loops: `remove_edges` of `DirectedHypergraph` on any object is the loop of the single
`remove_edge` calls that stops at the first one that raises; the state reached there is what the call leaves -/
theorem C05_directed_batches_are_loops (c : Content DKey) (ks : List DKey) (ns : List Node) (keep : Bool) :
    removeEdgesB c ks = loopRaw (fun h k => orSame h (removeEdge h k)) c ks ∧
    removeNodesB c ns keep = loopRaw (fun h n => removeNodeRaw h n keep) c ns := by
  simp [removeEdgesB, removeNodesB, Batch.validates]

-- non-vacuity: the run of the real code shown in notes/C05.md (weights in quanta of 1/4): node 1 is source and target of
-- `((1,4),(1,5))`; `remove_node(1)` raises; left: the two hyperedges the loop did not reach / does not touch
def C05.exBoth : Content DKey :=
  run (empty true) [.addEdge ([1, 2], [3]) (some 8) [(0, 1)], .addEdge ([1, 4], [1, 5]) (some 12) [(1, 2)],
    .addEdge ([6], [1, 7]) (some 6) [], .addEdge ([4], [5]) (some 4) []]
example : WF exBoth := C05_wf_reachable true _
example : onBothSides exBoth 1 = true ∧ 1 ∈ nodesOf exBoth := by decide
example : (removeNodeRaw exBoth 1 false).2 = false ∧
    (removeNodeRaw exBoth 1 false).1.edges = [(([6], [1, 7]), (6, [])), (([4], [5]), (4, []))] ∧
    nodesOf (removeNodeRaw exBoth 1 false).1 = [1, 2, 3, 4, 5, 6, 7] := by decide
example : (removeNodeRaw exBoth 1 true).2 = false ∧
    (removeNodeRaw exBoth 1 true).1.edges =
      [(([6], [1, 7]), (6, [])), (([4], [5]), (28, [(1, 2)])), (([2], [3]), (8, [(0, 1)])), (([6], [7]), (6, []))] := by decide
example : firstRepeat [] (Keyed.incident 1 (keysOf exBoth)) = some ([([1, 2], [3]), ([1, 4], [1, 5])], ([1, 4], [1, 5])) := by
  decide
-- a history that goes on after the raising call, and an extraction of the object it ends in
example : ∃ r, edgesSub (runX exBoth [.removeNodeRaw 1 true, .removeEdges [([2], [3]), ([9], [9]), ([6], [7])],
      .base (.addEdge ([1], [4]) (some 4) [])]) none (some 2) false false = some r ∧
    keysOf r = [([4], [5]), ([6], [7]), ([1], [4])] ∧ nodesOf r = [4, 5, 6, 7, 1] := by decide
example : Batch.validates UKey = true ∧ Batch.validates DKey = false := ⟨rfl, rfl⟩
example : ∀ (c : Content UKey) (n : Node), onBothSides c n = false := fun c n => by simp [onBothSides, Keyed.twice]
-- the validating class: a batch with an absent / repeated item changes nothing; a valid one is one filter
example : removeEdgesB exSrc [[1, 2], [7, 8]] = (exSrc, false) ∧ removeEdgesB exSrc [[1, 2], [1, 2]] = (exSrc, false) ∧
    (removeEdgesB exSrc [[4], [1, 2]]).2 = true ∧ removeNodesB exSrc [1, 77] false = (exSrc, false) ∧
    (removeNodesB exSrc [1, 4] true).2 = true := by decide

/-! ### the content model at `κ = DKey` is C02's abstract specification -/

/-- one call of `add_node, add_nodes, add_edge, remove_edge, set_weight, set_node_metadata, set_edge_metadata, clear` on
`C02.Spec` (the abstract object C02 proves to be the abstraction of `DirectedHypergraph`'s id tables) is the C05 step on its
content, with the same verdict; no hypothesis on the spec.  Hence `C05.WF` is an invariant of every such `C02.Spec` history and
the extraction theorems hold of every `DirectedHypergraph` it reaches. -/
theorem C05_link_C02 (a : C02.Spec) (op : C02.Op) (op' : Op DKey) (hl : liftOpD op = some op') :
    ofSpecD (C02.Spec.applyOp a op).1 = step (ofSpecD a) op' ∧
    ((C02.Spec.applyOp a op).2 = .ok ↔ (apply? (ofSpecD a) op').isSome = true) :=
  link_C02 a op op' hl

/-- `remove_edges` on `C02.Spec` (C02 models it as the plain loop, half-done state kept) leaves the content the C05 batch
leaves, with the same verdict -/
theorem C05_link_C02_remove_edges (es : List C02.RawEdge) (ks : List DKey) (a : C02.Spec)
    (h : es.map C02.canonStrict = ks.map some) :
    ofSpecD (C02.Spec.removeEdges a es).1 = (removeEdgesB (ofSpecD a) ks).1 ∧
    ((C02.Spec.removeEdges a es).2 = .ok ↔ (removeEdgesB (ofSpecD a) ks).2 = true) :=
  link_C02_removeEdges es ks a h

/-- `remove_node(node, keep_edges)` on `C02.Spec`, EVERY node - also one that is source and target of one hyperedge, where C02
models the call as raising half-way and keeping the half-done state - leaves exactly the content `removeNodeRaw` leaves (nodes,
hyperedge listing with weights and metadata), with the same verdict.  `hcan`: stored keys are sorted (C02's canonical form, which
every key stored by C02's mutators has); `hm` (only with `keep_edges`): no stored hyperedge metadata is Python's `None`, which
C02 turns into `{}` when it hands it on and C05, a model of dict metadata, does not have -/
theorem C05_link_C02_remove_node (a : C02.Spec) (n : Node) (keep : Bool)
    (hcan : ∀ k ∈ AL.keys a.edges, C02.canonStrict (C02.RawEdge.ofKey k) = some k)
    (hm : keep = true → NoNoneMeta a) :
    ofSpecD (C02.Spec.removeNode a n keep).1 = (removeNodeRaw (ofSpecD a) n keep).1 ∧
    ((C02.Spec.removeNode a n keep).2 = .ok ↔ (removeNodeRaw (ofSpecD a) n keep).2 = true) :=
  link_C02_removeNode a n keep hcan hm

-- non-vacuity: a spec with node 1 on both sides of `((1,4),(1,5))`: hypotheses hold, C02 answers rej and keeps the half-done state
def C05.exSpecBoth : C02.Spec :=
  { weighted := true, nodes := [(1, []), (2, []), (3, []), (4, []), (5, []), (6, []), (7, [])],
    edges := [(([1, 2], [3]), (8, [(0, 1)])), (([1, 4], [1, 5]), (12, [(1, 2)])), (([6], [1, 7]), (6, [])), (([4], [5]), (4, []))] }
example : ∀ k ∈ AL.keys exSpecBoth.edges, C02.canonStrict (C02.RawEdge.ofKey k) = some k := by decide
example : NoNoneMeta exSpecBoth := by unfold NoNoneMeta; decide
example : (C02.Spec.removeNode exSpecBoth 1 true).2 = .rej ∧
    (C02.Spec.removeNode exSpecBoth 1 true).1.edges =
      [(([6], [1, 7]), (6, [])), (([4], [5]), (28, [(1, 2)])), (([2], [3]), (8, [(0, 1)])), (([6], [7]), (6, []))] ∧
    (removeNodeRaw (ofSpecD exSpecBoth) 1 true).1.edges =
      [(([6], [1, 7]), (6, [])), (([4], [5]), (28, [(1, 2)])), (([2], [3]), (8, [(0, 1)])), (([6], [7]), (6, []))] := by decide

def C05.exSpecD : C02.Spec :=
  { weighted := true, nodes := [(1, []), (2, [(0, 1)]), (3, [])],
    edges := [(([1], [2]), (8, [(1, 1)])), (([2, 3], [1]), (4, []))], hmeta := [] }
example : liftOpD (.addEdge ⟨.nodes [3, 2], .scalar 1⟩ (some 6) none) = some (.addEdge ([2, 3], [1]) (some 6) []) := rfl
example : (C02.Spec.applyOp exSpecD (.addEdge ⟨.nodes [3, 2], .scalar 1⟩ (some 6) none)).1.edges =
    [(([1], [2]), (8, [(1, 1)])), (([2, 3], [1]), (10, []))] ∧
    (step (ofSpecD exSpecD) (.addEdge ([2, 3], [1]) (some 6) [])).edges =
    [(([1], [2]), (8, [(1, 1)])), (([2, 3], [1]), (10, []))] := by decide
example : (C02.Spec.removeEdges exSpecD [⟨.nodes [1], .nodes [2]⟩, ⟨.nodes [5], .nodes [6]⟩, ⟨.nodes [3, 2], .nodes [1]⟩]).2 = .rej ∧
    (C02.Spec.removeEdges exSpecD [⟨.nodes [1], .nodes [2]⟩, ⟨.nodes [5], .nodes [6]⟩, ⟨.nodes [3, 2], .nodes [1]⟩]).1.edges =
      [(([2, 3], [1]), (4, []))] ∧
    removeEdgesB (ofSpecD exSpecD) [([1], [2]), ([5], [6]), ([2, 3], [1])] =
      ({ ofSpecD exSpecD with edges := [(([2, 3], [1]), (4, []))] }, false) := by decide
