import Hgxv.Proofs.C14Gen
/-! # C14 — random generators honour their structural contracts and their seeds

Property theorems about the model `Hgxv/Model/C14.lean`.  Every statement is for ALL draws that satisfy the
sampler contracts (`IsSample`: `k` distinct members of the population - trusted base), hence for every seed and
every execution. -/
open C14

/-! ## random_hypergraph / random_uniform_hypergraph -/

/-- `random_hypergraph(n, req)` for every outcome of `random.sample`.  Hypotheses: `req` comes from a dict (distinct
sizes); the recorded groups hold at least `count` samples per size, each `size` distinct members of `range n`.
Conclusion: the call is accepted; nodes are exactly `0..n-1`; hyperedges are pairwise distinct, sorted, have distinct
nodes `< n` and a requested size (requested at least once); per size `count ≤ requested` and `≥ 1` when `requested ≥ 1`;
no hyperedge of a size that was not requested. -/
theorem C14_random (n : Nat) (req : List (Nat × Nat)) (groups : List (List (List Nat)))
    (hkeys : (req.map (·.1)).Nodup) (hdraws : RandomDrawsOK n req groups) :
    randomHypergraph? n req groups = some (randomHypergraph n req groups) ∧
    (randomHypergraph n req groups).nodes = List.range n ∧
    (randomHypergraph n req groups).weighted = false ∧
    (keys (randomHypergraph n req groups)).Nodup ∧
    (∀ e ∈ keys (randomHypergraph n req groups),
      (∃ sc ∈ req, e.length = sc.1 ∧ 0 < sc.2) ∧ e.Nodup ∧ (∀ x ∈ e, x < n) ∧ sortE e = e) ∧
    (∀ sc ∈ req, countSize (randomHypergraph n req groups) sc.1 ≤ sc.2 ∧
      (1 ≤ sc.2 → 1 ≤ countSize (randomHypergraph n req groups) sc.1)) ∧
    (∀ s, s ∉ req.map (·.1) → countSize (randomHypergraph n req groups) s = 0) := by
  have hadm : admissible n req = true := by
    apply admissible_of_groups n _ _ req groups hdraws
    intro s c g hq hc
    obtain ⟨hlen, hs⟩ := hq
    cases g with
    | nil => simp at hlen; omega
    | cons d g =>
      have : d ∈ (d :: g).take c := by cases c with
        | zero => omega
        | succ c => simp
      exact sample_size_le (hs d this)
  have hL := genLoop_spec sizeEdges (List.range n) (fun c m => m ≤ c ∧ (1 ≤ c → 1 ≤ m))
    (fun s c g => c ≤ g.length ∧ ∀ d ∈ g.take c, IsSample (List.range n) s d)
    (fun s c g hq => sizeEdges_ok _ s c g hq.2) (fun s c g hq => sizeEdges_bound c g hq.1)
    req groups (addNodes {} (List.range n)) hdraws hkeys (by simp [keys, AL.keys, addNodes])
    (by intro sc _; simp [countSize, keys, AL.keys, addNodes]) (by intro x hx; rw [base_nodes]; exact hx)
  refine ⟨by simp [randomHypergraph?, hadm], ?_, ?_, hL.nodup, ?_, hL.count, ?_⟩
  · exact hL.nodes.trans (base_nodes n)
  · exact hL.weighted
  · intro e he
    rcases hL.mem e he with h0 | ⟨h1, h2, h3, h4⟩
    · simp [keys, AL.keys, addNodes] at h0
    · exact ⟨h1, h2, fun x hx => by simpa using h3 x hx, h4⟩
  · intro s hs
    have := hL.other s hs
    simp only [randomHypergraph, randomLoop]
    rw [this]; simp [countSize, keys, AL.keys, addNodes]

/-- `random_uniform_hypergraph(n, size, count)`: the same guarantees for the single requested size -/
theorem C14_random_uniform (n size count : Nat) (group : List (List Nat))
    (hlen : count ≤ group.length) (hdraws : ∀ d ∈ group.take count, IsSample (List.range n) size d) :
    (randomUniform n size count group).nodes = List.range n ∧
    (∀ e ∈ keys (randomUniform n size count group), e.length = size ∧ e.Nodup ∧ (∀ x ∈ e, x < n)) ∧
    countSize (randomUniform n size count group) size ≤ count ∧
    (1 ≤ count → 1 ≤ countSize (randomUniform n size count group) size) := by
  have h := C14_random n [(size, count)] [group] (by simp) (by simp [RandomDrawsOK, GroupsOK]; exact ⟨hlen, hdraws⟩)
  refine ⟨h.2.1, ?_, ?_⟩
  · intro e he
    obtain ⟨⟨sc, hsc, hl, _⟩, h2, h3, _⟩ := h.2.2.2.2.1 e he
    simp at hsc; subst hsc; exact ⟨hl, h2, h3⟩
  · exact h.2.2.2.2.2.1 (size, count) (by simp)

/-- non-vacuity: a concrete request whose third sample repeats the first one -/
example : RandomDrawsOK 5 [(2, 3), (3, 1)] [[[4, 1], [0, 2], [1, 4]], [[3, 0, 2]]] ∧
    keys (randomHypergraph 5 [(2, 3), (3, 1)] [[[4, 1], [0, 2], [1, 4]], [[3, 0, 2]]]) = [[1, 4], [0, 2], [0, 2, 3]] := by
  refine ⟨?_, by decide⟩
  simp only [RandomDrawsOK, GroupsOK, IsSample]
  decide

/-! ## scale_free_hypergraph -/

/-- `scale_free_hypergraph` (repaired, D26) for every outcome of the exponential draws, the swaps and
`np.random.choice`.  Hypotheses: the arguments pass the validation; `edges_by_size` is a dict (distinct sizes, one count per
size); the recorded groups belong to a run that returned (`SfDrawsOK`).  Conclusion: the call is accepted; nodes are
exactly `0..n-1`; exactly the requested number of pairwise distinct hyperedges per size, each with distinct nodes `< n`;
nothing of another size. -/
theorem C14_scale_free (n : Nat) (sizes : List Nat) (counts : List Int) (scaleKeys : List Nat) (correlated : Bool)
    (corr : Option Rat) (shuffles : Int) (groups : List (List (List Nat)))
    (hvalid : sfValid sizes counts scaleKeys correlated corr shuffles = true)
    (hkeys : sizes.Nodup) (hlen : counts.length = sizes.length)
    (hdraws : SfDrawsOK n (sizes.zip (counts.map Int.toNat)) groups) :
    ∃ h, scaleFree n sizes counts scaleKeys correlated corr shuffles groups = some h ∧
      h.nodes = List.range n ∧ (keys h).Nodup ∧
      (∀ sc ∈ sizes.zip (counts.map Int.toNat), countSize h sc.1 = sc.2) ∧
      (∀ s, s ∉ sizes → countSize h s = 0) ∧
      (∀ e ∈ keys h, e.length ∈ sizes ∧ e.Nodup ∧ (∀ x ∈ e, x < n)) := by
  have hmap : (sizes.zip (counts.map Int.toNat)).map (·.1) = sizes := by
    apply List.map_fst_zip; simp [hlen]
  have hadm : admissible n (sizes.zip (counts.map Int.toNat)) = true := by
    apply admissible_of_groups n _ _ _ groups hdraws
    intro s c g hq hc
    obtain ⟨hs, hcons⟩ := hq
    obtain ⟨d, hd⟩ := List.exists_mem_of_ne_nil g (consumedExactly_pos hcons hc)
    exact sample_size_le (hs d hd)
  have hL := genLoop_spec (fun c g => collect c [] g) (List.range n) (fun c m => m = c)
    (fun s c g => (∀ d ∈ g, IsSample (List.range n) s d) ∧ consumedExactly c [] g = true)
    (fun s c g hq => by
      have := collect_spec (List.range n) s c g [] hq.1 List.nodup_nil (by simp)
      exact ⟨this.1, this.2⟩)
    (fun s c g hq => collect_length c g [] hq.2 (by simp))
    (sizes.zip (counts.map Int.toNat)) groups (addNodes {} (List.range n)) hdraws (by rw [hmap]; exact hkeys)
    (by simp [keys, AL.keys, addNodes])
    (by intro sc _; simp [countSize, keys, AL.keys, addNodes]) (by intro x hx; rw [base_nodes]; exact hx)
  refine ⟨_, by simp only [scaleFree, hvalid, hadm, Bool.and_self, if_true]; rfl, ?_, hL.nodup, hL.count, ?_, ?_⟩
  · exact hL.nodes.trans (base_nodes n)
  · intro s hs
    have := hL.other s (by rw [hmap]; exact hs)
    show countSize (sfLoop _ _ _) s = 0
    unfold sfLoop
    rw [this]; simp [countSize, keys, AL.keys, addNodes]
  · intro e he
    rcases hL.mem e he with h0 | ⟨⟨sc, hsc, hl, _⟩, h2, h3, _⟩
    · simp [keys, AL.keys, addNodes] at h0
    · refine ⟨?_, h2, fun x hx => by simpa using h3 x hx⟩
      rw [hl, ← hmap]; exact List.mem_map_of_mem (f := (·.1)) hsc

/-- the default arguments (`correlated=True, corr_target=None, num_shuffles=0`) are accepted whenever every size has a
scale and every count is non-negative: the repaired validation does not compare `None` with a number (D26) -/
theorem C14_scale_free_defaults (sizes : List Nat) (counts : List Int) (hc : ∀ c ∈ counts, 0 ≤ c) :
    sfValid sizes counts sizes true none 0 = true := by
  simp only [sfValid]
  simp only [bne_self_eq_false, Bool.false_and, Bool.not_false, Bool.true_and, Option.isSome_none, Bool.and_true,
    Bool.and_eq_true, List.all_eq_true, List.contains_iff_mem, imp_self, implies_true,
    Bool.not_eq_true', decide_eq_false_iff_not, Int.not_lt]
  refine ⟨by decide, hc⟩

/-- non-vacuity: a returning run whose second choice repeats the first hyperedge -/
example : SfDrawsOK 4 [(2, 2)] [[[3, 1], [1, 3], [0, 2]]] ∧
    (scaleFree 4 [2] [2] [2] true none 0 [[[3, 1], [1, 3], [0, 2]]]).map keys = some [[1, 3], [0, 2]] := by
  refine ⟨?_, by decide⟩
  simp only [SfDrawsOK, GroupsOK, IsSample]
  decide

/-! ## seed reproducibility -/

/-- the program over named sources computes the pure function of the draws its generator hands out -/
theorem randomLoopS_eq {σ : Type} (g : RNG σ) (pop : List Nat) : ∀ (req : List (Nat × Nat)) (h : HG) (s : σ),
    (randomLoopS g pop h req s).1 = randomLoop h req (groupsOf g pop req s) := by
  intro req
  induction req with
  | nil => intro h s; rfl
  | cons sc req ih => intro h s; obtain ⟨sz, c⟩ := sc; simp only [randomLoopS, groupsOf, randomLoop, genLoop]; exact ih _ _

/-- `random_hypergraph(n, req, seed)` with a seed: the output is a function of `(n, req, seed)` and the generator
algorithm alone - it does not depend on the ambient state `w` of any random source.  (All draws of the program come from
the source it seeded; compare `shuffleIndicesM` below, where this fails.) -/
theorem C14_seeded {σ : Type} (g : RNG σ) (n : Nat) (req : List (Nat × Nat)) (seed : Nat) (w w' : World σ) :
    (randomHypergraphM g n req (some seed) w).1 = (randomHypergraphM g n req (some seed) w').1 ∧
    (randomHypergraphM g n req (some seed) w).1 =
      randomHypergraph n req (groupsOf g (List.range n) req (g.seed seed)) ∧
    ∀ size count, (randomUniformM g n size count (some seed) w).1 = (randomUniformM g n size count (some seed) w').1 := by
  refine ⟨rfl, ?_, fun _ _ => rfl⟩
  simp only [randomHypergraphM, seedPy, randomHypergraph]
  exact randomLoopS_eq g _ req _ _

/-- without a seed the output is the same pure function of the draws taken from the ambient `random` state -/
theorem C14_unseeded {σ : Type} (g : RNG σ) (n : Nat) (req : List (Nat × Nat)) (w : World σ) :
    (randomHypergraphM g n req none w).1 = randomHypergraph n req (groupsOf g (List.range n) req w.py) := by
  simp only [randomHypergraphM, seedPy, randomHypergraph]
  exact randomLoopS_eq g _ req _ _

/-- the statement has teeth: `random_shuffle` seeds `np.random` but draws its indices from `random`; for that program
ambient independence is FALSE (toy generator: the state is a counter, a sample is `[state % 3]`).  The property does not
claim seed reproducibility for `random_shuffle`. -/
example : ∃ (g : RNG Nat) (w w' : World Nat),
    (shuffleIndicesM g 3 1 (some 7) w).1 ≠ (shuffleIndicesM g 3 1 (some 7) w').1 :=
  ⟨{ seed := fun s => s, sample := fun st _ _ => ([st % 3], st + 1) }, ⟨0, 0⟩, ⟨1, 0⟩, by decide⟩
